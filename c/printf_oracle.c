/* libc printf oracle.  Protocol on stdin (binary, little-endian), repeated records:
 *   u32 fmtlen, fmt bytes           (one conversion; the harness has already written the
 *                                    length modifier, e.g. %lld; literal text around it is fine)
 *   u8 nstars (0..2), then nstars x i32   ('*' width / precision arguments, passed as int)
 *   u8 kind, payload                 the converted argument:
 *       'i' i64 -> long long      'u' u64 -> unsigned long long     'd' f64 -> double
 *       'n' i32 -> int (for %c)   's' u32 len + bytes -> char* (NUL-terminated copy)
 *       '-' no argument (e.g. "%%")
 * Output per record: i32 n (snprintf result), then min(n, CAP-1) bytes.
 * This is C's printf itself, not a re-implementation.
 */
#include <stdio.h>
#include <stdlib.h>
#include <string.h>
#include <stdint.h>

#define CAP 16384

static int rd(void *p, size_t n) { return fread(p, 1, n, stdin) == n; }

#define CALL(v) (ns == 0 ? snprintf(out, CAP, fmt, v) : ns == 1 ? snprintf(out, CAP, fmt, st[0], v) : snprintf(out, CAP, fmt, st[0], st[1], v))

int main(void) {
    static char out[CAP + 16];
    for (;;) {
        uint32_t fl;
        if (!rd(&fl, 4)) break;
        char *fmt = malloc(fl + 1);
        if (fl && !rd(fmt, fl)) break;
        fmt[fl] = 0;
        unsigned char ns;
        if (!rd(&ns, 1) || ns > 2) break;
        int st[2] = {0, 0};
        for (int k = 0; k < ns; k++) { int32_t v; if (!rd(&v, 4)) return 1; st[k] = v; }
        unsigned char kind;
        if (!rd(&kind, 1)) break;
        int32_t n = -2;
        char *s = NULL;
        switch (kind) {
        case 'i': { int64_t v; if (!rd(&v, 8)) return 1; long long x = v; n = CALL(x); break; }
        case 'u': { uint64_t v; if (!rd(&v, 8)) return 1; unsigned long long x = v; n = CALL(x); break; }
        case 'd': { double v; if (!rd(&v, 8)) return 1; n = CALL(v); break; }
        case 'n': { int32_t v; if (!rd(&v, 4)) return 1; int x = v; n = CALL(x); break; }
        case 's': { uint32_t l; if (!rd(&l, 4)) return 1; s = malloc(l + 1); if (l && !rd(s, l)) return 1; s[l] = 0; n = CALL(s); break; }
        case '-': n = (ns == 0 ? snprintf(out, CAP, fmt, 0) : ns == 1 ? snprintf(out, CAP, fmt, st[0]) : snprintf(out, CAP, fmt, st[0], st[1])); break;
        default: return 1;
        }
        fwrite(&n, 4, 1, stdout);
        if (n > 0) fwrite(out, 1, n < CAP ? n : CAP - 1, stdout);
        fflush(stdout);
        free(s);
        free(fmt);
    }
    return 0;
}
