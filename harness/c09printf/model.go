package c09printf

import (
	"bytes"
	"fmt"
	"math"
	"regexp"
	"strconv"
	"strings"
	"unicode/utf8"
)

// ---- AWK values as the generator hands them to the program --------------------------------

// Arg is one argument of a printf/sprintf/print call.
//
//	K="num": a number (N is strconv 'g' text, "NaN", "+Inf", "-Inf", "-0")
//	K="str": a string constant (S)
//	K="fld": an input field with text S: a numeric string if it looks numeric, else a string
type Arg struct {
	K string `json:"k"`
	N string `json:"n,omitempty"`
	S []byte `json:"s,omitempty"`
}

func Num(x float64) Arg {
	if x == 0 && math.Signbit(x) {
		return Arg{K: "num", N: "-0"}
	}
	return Arg{K: "num", N: strconv.FormatFloat(x, 'g', -1, 64)}
}
func Str(s string) Arg { return Arg{K: "str", S: []byte(s)} }
func Fld(s string) Arg { return Arg{K: "fld", S: []byte(s)} }

func (a Arg) String() string {
	switch a.K {
	case "num":
		return a.N
	case "str":
		return fmt.Sprintf("%q", a.S)
	default:
		return fmt.Sprintf("$%q", a.S)
	}
}

// Val is the AWK view of an argument, computed by the harness (not by goawk).
type Val struct {
	IsNum    bool // a number
	IsStrNum bool // a field that looks numeric: numeric value for %c, its text for %s
	N        float64
	S        []byte
}

var (
	reLooksNumeric = regexp.MustCompile(`^[ \t]*[-+]?([0-9]+\.?[0-9]*|\.[0-9]+)([eE][-+]?[0-9]+)?[ \t]*$`)
	reNumPrefix    = regexp.MustCompile(`^[ \t\n\v\f\r]*[-+]?([0-9]+\.?[0-9]*|\.[0-9]+)([eE][-+]?[0-9]+)?`)
)

// strToNum is the AWK string-to-number conversion for the restricted pool the generators
// use (plain decimal prefixes; no hex, no "inf"/"nan" spellings, no non-ASCII blanks —
// those edges belong to C05 and are kept out of the C09 pools).
func strToNum(s []byte) float64 {
	m := reNumPrefix.Find(s)
	if m == nil {
		return 0
	}
	f, err := strconv.ParseFloat(strings.TrimLeft(string(m), " \t\n\v\f\r"), 64)
	if err != nil && !math.IsInf(f, 0) {
		return 0
	}
	return f
}

func (a Arg) Val() Val {
	switch a.K {
	case "num":
		if a.N == "-0" {
			return Val{IsNum: true, N: math.Copysign(0, -1)}
		}
		f, _ := strconv.ParseFloat(a.N, 64)
		return Val{IsNum: true, N: f}
	case "fld":
		if reLooksNumeric.Match(a.S) {
			return Val{IsStrNum: true, N: strToNum(a.S), S: a.S}
		}
		return Val{N: strToNum(a.S), S: a.S}
	default:
		return Val{N: strToNum(a.S), S: a.S}
	}
}

// ---- conversion specifications ------------------------------------------------------------

// Spec is one conversion specification of an AWK format.
type Spec struct {
	Flags string `json:"f,omitempty"` // characters of "-+ #0", any order, repetition allowed
	Width string `json:"w,omitempty"` // "", decimal digits, or "*"
	Prec  string `json:"p,omitempty"` // "", ".", ".digits", ".*"
	Conv  string `json:"c"`           // one of d i o x X u c s e E f g G
}

func (s Spec) Has(flag byte) bool { return strings.IndexByte(s.Flags, flag) >= 0 }

// FlagSet is the canonical (sorted, de-duplicated) flag subset, for coverage keys.
func (s Spec) FlagSet() string {
	out := ""
	for _, f := range "-+ #0" {
		if strings.ContainsRune(s.Flags, f) {
			out += string(f)
		}
	}
	if out == "" {
		return "none"
	}
	return out
}

func (s Spec) Awk() string { return "%" + s.Flags + s.Width + s.Prec + s.Conv }

// NStars is the number of '*' arguments the specification consumes.
func (s Spec) NStars() int {
	n := 0
	if s.Width == "*" {
		n++
	}
	if s.Prec == ".*" {
		n++
	}
	return n
}

// MaxWidth is the largest width for which the oracle's answer is used directly.
const MaxWidth = 512

// Defined reports whether ISO C defines the behaviour of the specification (DESIGN C09):
// '#' only with o x X e E f g G; '0' not with c s; no precision with c.
func (s Spec) Defined() bool {
	if !strings.Contains("diouxXcseEfgG", s.Conv) || len(s.Conv) != 1 {
		return false
	}
	if s.Has('#') && !strings.Contains("oxXeEfgG", s.Conv) {
		return false
	}
	if s.Has('0') && (s.Conv == "c" || s.Conv == "s") {
		return false
	}
	if s.Prec != "" && s.Conv == "c" {
		return false
	}
	return true
}

// ---- format items -------------------------------------------------------------------------

// Piece is one part of a format: literal text, "%%", or a conversion with its arguments.
type Piece struct {
	Lit   string `json:"lit,omitempty"` // literal text without '%'
	Pct   bool   `json:"pct,omitempty"` // "%%"
	Spec  *Spec  `json:"spec,omitempty"`
	Stars []Arg  `json:"stars,omitempty"` // arguments for '*' (width, then precision)
	Arg   *Arg   `json:"arg,omitempty"`
}

// Item is one printf/sprintf call. RawFmt (if set) replaces the format built from Pieces
// and is used for the error-expected families; Drop removes that many arguments from the end.
type Item struct {
	Pieces  []Piece `json:"pieces,omitempty"`
	Extra   []Arg   `json:"extra,omitempty"` // surplus arguments (ignored by printf)
	Drop    int     `json:"drop,omitempty"`
	RawFmt  string  `json:"rawfmt,omitempty"`
	WantErr string  `json:"wanterr,omitempty"` // "too-few-args" | "unknown-conv" | "incomplete"
	// Seg: the conversions are separated by the literal "\x04" (and nothing else), so that a
	// call with a don't-care conversion can still be compared conversion by conversion.
	Seg bool `json:"seg,omitempty"`
}

func (it Item) Format() string {
	if it.RawFmt != "" {
		return it.RawFmt
	}
	var sb strings.Builder
	for _, p := range it.Pieces {
		switch {
		case p.Spec != nil:
			sb.WriteString(p.Spec.Awk())
		case p.Pct:
			sb.WriteString("%%")
		default:
			sb.WriteString(p.Lit)
		}
	}
	return sb.String()
}

// Args is the flat argument list as passed in the AWK call.
func (it Item) Args() []Arg {
	var l []Arg
	for _, p := range it.Pieces {
		if p.Spec != nil {
			l = append(l, p.Stars...)
			if p.Arg != nil {
				l = append(l, *p.Arg)
			}
		}
	}
	l = append(l, it.Extra...)
	if it.Drop > 0 {
		if it.Drop >= len(l) {
			return nil
		}
		l = l[:len(l)-it.Drop]
	}
	return l
}

func (it Item) NConv() int {
	n := 0
	for _, p := range it.Pieces {
		if p.Spec != nil {
			n++
		}
	}
	return n
}

// Key renders the call for de-duplication and messages.
func (it Item) Key() string {
	var sb strings.Builder
	fmt.Fprintf(&sb, "%q", it.Format())
	for _, a := range it.Args() {
		sb.WriteString(", " + a.String())
	}
	return sb.String()
}

// ---- expected output ----------------------------------------------------------------------

// Want is what the property demands for one conversion (or a whole item).
type Want struct {
	DontCare string   // non-empty: outside the compared fragment, with the reason
	Alts     [][]byte // acceptable outputs (more than one only for the sign of NaN)
	Reqs     []Req    // the libc requests behind Alts (for messages)
}

// Model computes expected outputs with the libc oracle.
type Model struct {
	O                *Oracle
	ConvFmt          *Spec // CONVFMT of the program under test (nil = "%.6g")
	GlibcSharpGFixes int   // answers corrected for the glibc "%#g" carry defect (see Conv)
}

// reSharpGCarry: a decimal point directly followed by the exponent, which "%#g" with a
// precision above 1 can never legitimately print.
var reSharpGCarry = regexp.MustCompile(`[0-9]\.[eE][-+][0-9]+ *$`)

// sharpGCarryFix builds the equivalent "%#.{P-1}e" request for a "%#.Pg" specification.
func sharpGCarryFix(sp Spec, st []int32) (Req, bool) {
	p := 6
	si := 0
	var stars []int32
	if sp.Width == "*" {
		stars = append(stars, st[si])
		si++
	}
	switch {
	case sp.Prec == ".*":
		if v := int(st[si]); v >= 0 {
			p = v
		}
	case sp.Prec != "":
		p, _ = strconv.Atoi(sp.Prec[1:])
	}
	if p <= 1 {
		return Req{}, false
	}
	conv := "e"
	if sp.Conv == "G" {
		conv = "E"
	}
	return Req{Fmt: "%" + sp.Flags + sp.Width + "." + strconv.Itoa(p-1) + conv, Stars: stars}, true
}

func isIntegral(x float64) bool { return x == math.Trunc(x) && !math.IsInf(x, 0) }

const two63 = 9223372036854775808.0

// inInt64 reports whether trunc(x) is representable as long long.
func inInt64(x float64) bool {
	if math.IsNaN(x) || math.IsInf(x, 0) {
		return false
	}
	t := math.Trunc(x)
	return t >= -two63 && t < two63
}

// NumToStr is the AWK number-to-string conversion used for %s of a number (integral ->
// integer, else CONVFMT), computed by libc.  ok=false: outside the compared fragment.
func (m *Model) NumToStr(x float64) ([]byte, bool, error) {
	if math.IsNaN(x) || math.IsInf(x, 0) {
		return nil, false, nil
	}
	if isIntegral(x) {
		if !inInt64(x) {
			return nil, false, nil
		}
		_, out, err := m.O.Call(Req{Fmt: "%lld", Kind: 'i', I: int64(x)})
		return out, true, err
	}
	cf := "%.6g"
	if m.ConvFmt != nil {
		cf = m.ConvFmt.Awk()
	}
	_, out, err := m.O.Call(Req{Fmt: cf, Kind: 'd', D: x})
	return out, true, err
}

func isASCII(b []byte) bool {
	for _, c := range b {
		if c >= 0x80 {
			return false
		}
	}
	return true
}

// Conv computes what C printf produces for one conversion on the AWK-converted argument.
// chars is the interpreter's character mode (Config.Chars, the -c switch).
func (m *Model) Conv(sp Spec, stars []Arg, arg Arg, chars bool) (Want, error) {
	var w Want
	if !sp.Defined() {
		w.DontCare = "not-defined-by-C"
		return w, nil
	}
	var st []int32
	for _, s := range stars {
		v := s.Val().N
		if math.IsNaN(v) || math.Abs(v) > 1<<24 {
			w.DontCare = "star-not-an-int"
			return w, nil
		}
		st = append(st, int32(math.Trunc(v)))
	}
	v := arg.Val()
	pre := "%" + sp.Flags + sp.Width + sp.Prec
	hasWidth := sp.Width != ""
	var reqs []Req
	switch sp.Conv {
	case "d", "i":
		if !inInt64(v.N) {
			w.DontCare = "integer-conversion-outside-int64"
			return w, nil
		}
		reqs = []Req{{Fmt: pre + "ll" + sp.Conv, Stars: st, Kind: 'i', I: int64(math.Trunc(v.N))}}
	case "o", "x", "X", "u":
		if !inInt64(v.N) {
			w.DontCare = "integer-conversion-outside-int64"
			return w, nil
		}
		reqs = []Req{{Fmt: pre + "ll" + sp.Conv, Stars: st, Kind: 'u', U: uint64(int64(math.Trunc(v.N)))}}
	case "e", "E", "f", "g", "G":
		if math.IsNaN(v.N) {
			// the sign of a printed NaN is a don't-care: accept libc's output for either sign
			reqs = []Req{
				{Fmt: pre + sp.Conv, Stars: st, Kind: 'd', D: math.NaN()},
				{Fmt: pre + sp.Conv, Stars: st, Kind: 'd', D: math.Copysign(math.NaN(), -1)},
			}
		} else {
			reqs = []Req{{Fmt: pre + sp.Conv, Stars: st, Kind: 'd', D: v.N}}
		}
	case "s":
		s := v.S
		if v.IsNum {
			out, ok, err := m.NumToStr(v.N)
			if err != nil {
				return w, err
			}
			if !ok {
				w.DontCare = "number-to-string-of-nonfinite-or-huge"
				return w, nil
			}
			s = out
		}
		if bytes.IndexByte(s, 0) >= 0 {
			w.DontCare = "nul-in-string"
			return w, nil
		}
		if chars && !isASCII(s) && (hasWidth || sp.Prec != "") {
			w.DontCare = "char-mode-multibyte-%s-width"
			return w, nil
		}
		reqs = []Req{{Fmt: pre + "s", Stars: st, Kind: 's', S: s}}
	case "c":
		if v.IsNum || v.IsStrNum {
			x := v.N
			if !isIntegral(x) || x < 0 {
				w.DontCare = "%c-of-a-non-code"
				return w, nil
			}
			switch {
			case x < 128 || (!chars && x < 256):
				reqs = []Req{{Fmt: pre + "c", Stars: st, Kind: 'n', I: int64(x)}}
			case !chars:
				w.DontCare = "%c-code-above-255-in-byte-mode"
				return w, nil
			case x <= utf8.MaxRune && utf8.ValidRune(rune(x)):
				if hasWidth {
					w.DontCare = "char-mode-multibyte-%c-width"
					return w, nil
				}
				w.Alts = [][]byte{[]byte(string(rune(x)))}
				return w, nil
			default:
				w.DontCare = "%c-invalid-code-point"
				return w, nil
			}
		} else {
			s := v.S
			if len(s) == 0 {
				w.DontCare = "%c-of-empty-string"
				return w, nil
			}
			if !chars || s[0] < 0x80 {
				reqs = []Req{{Fmt: pre + "c", Stars: st, Kind: 'n', I: int64(s[0])}}
			} else {
				r, size := utf8.DecodeRune(s)
				if r == utf8.RuneError && size <= 1 {
					w.DontCare = "%c-invalid-utf8-in-char-mode"
					return w, nil
				}
				if hasWidth {
					w.DontCare = "char-mode-multibyte-%c-width"
					return w, nil
				}
				w.Alts = [][]byte{append([]byte{}, s[:size]...)}
				return w, nil
			}
		}
	}
	for _, r := range reqs {
		n, out, err := m.O.Call(r)
		if err != nil {
			return w, err
		}
		if n < 0 {
			return w, fmt.Errorf("libc returned %d for %s", n, r)
		}
		if int(n) >= CapOut {
			full, err := m.padded(sp, st, r, int(n), out)
			if err != nil {
				return w, err
			}
			out = full
		}
		if (sp.Conv == "g" || sp.Conv == "G") && sp.Has('#') && reSharpGCarry.Match(out) {
			if r2, ok := sharpGCarryFix(sp, st); ok {
				// glibc defect (seen with 2.36): "%#g" of 999999.5 gives "1.e+06" — when rounding
				// carries into the decade that switches %g to the e style, the zeros '#' must
				// keep are lost.  ISO C defines that case as style e with precision P-1, so
				// libc's own %e is asked instead.
				r2.Kind, r2.D = r.Kind, r.D
				if _, out2, err := m.O.Call(r2); err == nil {
					out, r = out2, r2
					m.GlibcSharpGFixes++
				}
			}
		}
		w.Alts = append(w.Alts, out)
		w.Reqs = append(w.Reqs, r)
	}
	return w, nil
}

// padded reconstructs an output longer than the oracle's buffer (the huge-width family
// only, no '0' flag): libc's answer for the same specification without the width, padded
// with spaces to libc's reported length, and cross-checked against the prefix libc did
// return.
func (m *Model) padded(sp Spec, st []int32, r Req, n int, prefix []byte) ([]byte, error) {
	pre := "%" + sp.Flags + sp.Width + sp.Prec
	if sp.Has('0') || sp.Width == "" || !strings.HasPrefix(r.Fmt, pre) {
		return nil, fmt.Errorf("output of %d bytes exceeds the oracle buffer for %s", n, r)
	}
	left := sp.Has('-')
	r2 := r
	r2.Fmt = "%" + sp.Flags + sp.Prec + r.Fmt[len(pre):]
	if sp.Width == "*" {
		left = left || st[0] < 0
		r2.Stars = st[1:]
	}
	n2, core, err := m.O.Call(r2)
	if err != nil {
		return nil, err
	}
	if int(n2) >= CapOut || int(n2) > n {
		return nil, fmt.Errorf("cannot reconstruct %s", r)
	}
	pad := bytes.Repeat([]byte{' '}, n-len(core))
	var full []byte
	if left {
		full = append(append(full, core...), pad...)
	} else {
		full = append(append(full, pad...), core...)
	}
	if !bytes.Equal(full[:len(prefix)], prefix) {
		return nil, fmt.Errorf("reconstruction of %s disagrees with libc's prefix", r)
	}
	return full, nil
}

// Item computes the acceptable outputs of a whole call; per-piece wants are returned too
// (nil entries for literal pieces).
func (m *Model) Item(it Item, chars bool) (Want, []*Want, error) {
	total := Want{Alts: [][]byte{nil}}
	per := make([]*Want, len(it.Pieces))
	for i, p := range it.Pieces {
		var alts [][]byte
		switch {
		case p.Spec != nil:
			if p.Arg == nil || len(p.Stars) != p.Spec.NStars() {
				return total, per, fmt.Errorf("malformed piece %d of %s", i, it.Key())
			}
			w, err := m.Conv(*p.Spec, p.Stars, *p.Arg, chars)
			if err != nil {
				return total, per, err
			}
			per[i] = &w
			if w.DontCare != "" {
				if total.DontCare == "" {
					total.DontCare = w.DontCare
				}
				continue
			}
			alts = w.Alts
			total.Reqs = append(total.Reqs, w.Reqs...)
		case p.Pct:
			alts = [][]byte{[]byte("%")}
		default:
			alts = [][]byte{[]byte(p.Lit)}
		}
		var next [][]byte
		for _, a := range total.Alts {
			for _, b := range alts {
				if len(next) < 16 {
					next = append(next, append(append([]byte{}, a...), b...))
				}
			}
		}
		total.Alts = next
	}
	if total.DontCare != "" {
		total.Alts = nil
	}
	return total, per, nil
}

// Matches reports whether observed is one of the acceptable outputs.
func (w Want) Matches(observed []byte) bool {
	for _, a := range w.Alts {
		if bytes.Equal(a, observed) {
			return true
		}
	}
	return false
}

// ---- rendering arguments as AWK source ----------------------------------------------------

// AwkString renders bytes as an AWK string literal; everything outside plain printable
// ASCII is written as a three-digit octal escape so the lexer's own escape and UTF-8
// handling is not part of the experiment.
func AwkString(b []byte) string {
	var sb strings.Builder
	sb.WriteByte('"')
	for _, c := range b {
		if c >= 0x20 && c < 0x7f && c != '"' && c != '\\' && c != '/' {
			sb.WriteByte(c)
		} else {
			fmt.Fprintf(&sb, "\\%03o", c)
		}
	}
	sb.WriteByte('"')
	return sb.String()
}

// Awk renders the argument as an AWK expression; field arguments are appended to fields
// and referenced as $k.
func (a Arg) Awk(fields *[]string) string {
	switch a.K {
	case "num":
		switch a.N {
		case "NaN":
			return "(log(-1))"
		case "+Inf":
			return "(-log(0))"
		case "-Inf":
			return "(log(0))"
		}
		if strings.HasPrefix(a.N, "-") {
			return "(" + a.N + ")"
		}
		return a.N
	case "fld":
		*fields = append(*fields, string(a.S))
		return "$" + strconv.Itoa(len(*fields))
	default:
		return AwkString(a.S)
	}
}
