package c09printf

import (
	"bytes"
	"math"
	"strconv"
	"strings"
	"unicode/utf8"
)

// The divergence classes of goawk's printf from libc that are known on the unchanged tree
// (DESIGN.md C09/§8 plus what the monitor added).  A mismatching conversion is given a class
// only if (a) the input lies in the class's region and (b) the observed output is explained
// by the class: either it equals an exact model of the defect, or it equals libc's output
// after the class's normalisation (sign character, spelling, prefix, zero padding; padding
// spaces are ignored once a class applies).  Anything else keeps class "" and is reported
// as a violation.  When several classes are needed, the smallest explaining set is looked
// for and the witness is labelled with its first member, so that fixing one class makes
// the remaining ones show up under their own names.
const (
	ClassBadPrecNegStar = "printf:badprec-negative-star" // %.*d with a negative precision prints %!(BADPREC)
	ClassBadPrecHuge    = "printf:badprec-huge-star"     // a '*' precision above 1e6 prints %!(BADPREC)
	ClassBadWidthHuge   = "printf:badwidth-huge-star"    // a '*' width above 1e6 prints %!(BADWIDTH)
	ClassNoVerbHuge     = "printf:noverb-huge-literal"   // a literal width/precision of 8+ digits prints %!(NOVERB)%!(EXTRA ...)
	ClassNonFinite      = "printf:nonfinite-spelling"    // +Inf/NaN instead of inf/nan (INF/NAN for E G)
	ClassGDefaultPrec   = "printf:g-default-precision"   // %g/%G without precision: shortest form, not 6 digits
	ClassSignOnUnsigned = "printf:sign-flag-on-unsigned" // '+'/' ' honoured by o x X u
	ClassSharpXZero     = "printf:sharp-x-zero"          // %#x of 0 prints 0x0
	ClassSharpOZero     = "printf:sharp-o-zero-prec0"    // %#.0o of 0 prints nothing
	ClassSignPrec0Zero  = "printf:sign-prec0-zero"       // %+.0d / % .0d of 0 drops the sign
	ClassSRunes         = "printf:s-width-counts-runes"  // width/precision of %s count runes in byte mode
	ClassSharpZeroPadX  = "printf:sharp-zero-pad-x"      // %#08x pads the digits to the width, then adds 0x
	goBadPrec           = "%!(BADPREC)"
	goBadWidth          = "%!(BADWIDTH)"
	goNoVerb            = "%!(NOVERB)%!(EXTRA "
	goFmtLimit          = 1000000
)

// Classes lists every known class (for notes and coverage).
var Classes = []string{ClassBadPrecNegStar, ClassBadPrecHuge, ClassBadWidthHuge, ClassNoVerbHuge, ClassNonFinite, ClassGDefaultPrec,
	ClassSignOnUnsigned, ClassSharpXZero, ClassSharpOZero, ClassSignPrec0Zero, ClassSRunes, ClassSharpZeroPadX}

// fmtCtx is the effective reading of a specification with its '*' arguments.
type fmtCtx struct {
	sp        Spec
	width     int // effective width (absolute value)
	hasWidth  bool
	left      bool // '-' flag or a negative '*' width
	prec      int
	hasPrec   bool // a negative '*' precision counts as absent
	negPrec   bool // '*' precision was negative
	hugePrec  bool
	hugeWidth bool
	zeroEff   bool // '0' flag in effect for an integer conversion
	val       Val
	intZero   bool // integer conversion of a value that truncates to 0
}

func newFmtCtx(sp Spec, stars []Arg, arg Arg) fmtCtx {
	x := fmtCtx{sp: sp, val: arg.Val()}
	si := 0
	star := func() int {
		if si < len(stars) {
			v := int(math.Trunc(stars[si].Val().N))
			si++
			return v
		}
		return 0
	}
	switch {
	case sp.Width == "*":
		w := star()
		x.hasWidth = true
		if w < 0 {
			x.left, w = true, -w
		}
		x.width = w
	case sp.Width != "":
		x.width, _ = strconv.Atoi(sp.Width)
		x.hasWidth = true
	}
	switch {
	case sp.Prec == ".*":
		p := star()
		if p < 0 {
			x.negPrec = true
		} else {
			x.prec, x.hasPrec = p, true
		}
	case sp.Prec != "":
		x.prec, _ = strconv.Atoi(sp.Prec[1:]) // "." alone is 0
		x.hasPrec = true
	}
	if sp.Has('-') {
		x.left = true
	}
	x.hugePrec = x.hasPrec && x.prec > goFmtLimit
	x.hugeWidth = x.hasWidth && x.width > goFmtLimit
	isInt := strings.Contains("diouxX", sp.Conv)
	x.zeroEff = sp.Has('0') && !x.left && x.hasWidth && !(isInt && x.hasPrec)
	x.intZero = isInt && inInt64(x.val.N) && math.Trunc(x.val.N) == 0
	return x
}

func trimSp(b []byte) string { return strings.Trim(string(b), " ") }

// stripZeros removes the zero padding of a number: leading zeros after an optional sign and
// 0x/0X prefix, keeping one digit.
func stripZeros(s string) string {
	head := ""
	if len(s) > 0 && (s[0] == '+' || s[0] == '-') {
		head, s = s[:1], s[1:]
	}
	if len(s) > 1 && s[0] == '0' && (s[1] == 'x' || s[1] == 'X') {
		head, s = head+s[:2], s[2:]
	}
	for len(s) > 1 && s[0] == '0' && s[1] != '.' {
		s = s[1:]
	}
	return head + s
}

// goRuneStringModel is what a formatter that counts runes (not bytes) for the width and
// precision of %s prints.
func goRuneStringModel(x fmtCtx, s []byte) []byte {
	if x.hasPrec {
		n := 0
		for i := range string(s) {
			if n == x.prec {
				s = s[:i]
				break
			}
			n++
		}
	}
	pad := x.width - utf8.RuneCount(s)
	if !x.hasWidth || pad <= 0 {
		return s
	}
	sp := bytes.Repeat([]byte{' '}, pad)
	if x.left {
		return append(append([]byte{}, s...), sp...)
	}
	return append(sp, s...)
}

type classRule struct {
	name string
	// applies: the input lies in the class's region.
	applies func(x fmtCtx, obs []byte) bool
	// exact (optional): the observed bytes equal an exact model of the defect.
	exact func(x fmtCtx, obs []byte, want Want) bool
	// norm (optional): rewrite the padding-stripped observed/expected strings so that they
	// meet if the class explains (part of) the difference.
	norm func(x fmtCtx, obs, exp string) (string, string)
}

var classRules = []classRule{
	{name: ClassBadPrecNegStar,
		applies: func(x fmtCtx, obs []byte) bool { return x.negPrec && bytes.Contains(obs, []byte(goBadPrec)) },
		norm: func(x fmtCtx, obs, exp string) (string, string) {
			return strings.TrimLeft(strings.Replace(obs, goBadPrec, "", 1), " "), exp
		}},
	{name: ClassBadPrecHuge,
		applies: func(x fmtCtx, obs []byte) bool {
			return x.hugePrec && x.sp.Prec == ".*" && bytes.Contains(obs, []byte(goBadPrec))
		},
		norm: func(x fmtCtx, obs, exp string) (string, string) {
			return strings.TrimLeft(strings.Replace(obs, goBadPrec, "", 1), " "), exp
		}},
	{name: ClassBadWidthHuge,
		applies: func(x fmtCtx, obs []byte) bool {
			return x.hugeWidth && x.sp.Width == "*" && bytes.Contains(obs, []byte(goBadWidth))
		},
		norm: func(x fmtCtx, obs, exp string) (string, string) {
			return strings.TrimLeft(strings.Replace(obs, goBadWidth, "", 1), " "), exp
		}},
	{name: ClassNoVerbHuge,
		applies: func(x fmtCtx, obs []byte) bool {
			return (x.hugeWidth && len(x.sp.Width) >= 8) || (x.hugePrec && len(x.sp.Prec) >= 9)
		},
		exact: func(x fmtCtx, obs []byte, want Want) bool { return bytes.HasPrefix(obs, []byte(goNoVerb)) }},
	{name: ClassSRunes,
		applies: func(x fmtCtx, obs []byte) bool {
			return x.sp.Conv == "s" && !x.val.IsNum && !isASCII(x.val.S) && (x.hasWidth || x.hasPrec)
		},
		exact: func(x fmtCtx, obs []byte, want Want) bool { return bytes.Equal(obs, goRuneStringModel(x, x.val.S)) }},
	{name: ClassSignPrec0Zero,
		applies: func(x fmtCtx, obs []byte) bool {
			return (x.sp.Conv == "d" || x.sp.Conv == "i") && x.intZero && x.hasPrec && x.prec == 0 && (x.sp.Has('+') || x.sp.Has(' '))
		},
		exact: func(x fmtCtx, obs []byte, want Want) bool {
			n := 0
			if x.hasWidth {
				n = x.width
			}
			return string(obs) == strings.Repeat(" ", n)
		}},
	{name: ClassSharpOZero,
		applies: func(x fmtCtx, obs []byte) bool {
			return x.sp.Conv == "o" && x.sp.Has('#') && x.intZero && x.hasPrec && x.prec == 0
		},
		norm: func(x fmtCtx, obs, exp string) (string, string) {
			if obs == "" {
				obs = "0"
			}
			return obs, exp
		}},
	{name: ClassNonFinite,
		applies: func(x fmtCtx, obs []byte) bool {
			return strings.Contains("eEfgG", x.sp.Conv) && (math.IsNaN(x.val.N) || math.IsInf(x.val.N, 0))
		},
		norm: func(x fmtCtx, obs, exp string) (string, string) {
			f := func(s string) string {
				s = strings.ToLower(s)
				if !x.sp.Has('+') {
					s = strings.TrimPrefix(s, "+")
				}
				return s
			}
			return f(obs), f(exp)
		}},
	{name: ClassGDefaultPrec,
		applies: func(x fmtCtx, obs []byte) bool {
			return (x.sp.Conv == "g" || x.sp.Conv == "G") && !x.hasPrec && !math.IsNaN(x.val.N) && !math.IsInf(x.val.N, 0)
		},
		norm: func(x fmtCtx, obs, exp string) (string, string) {
			// explained if the observed text is a decimal spelling of exactly the argument
			// (Go's shortest form) where libc rounds to 6 significant digits
			s := strings.TrimLeft(obs, "+- ")
			if f, err := strconv.ParseFloat(s, 64); err == nil && f == math.Abs(x.val.N) && signOf(obs) == signOf(exp) {
				return exp, exp
			}
			return obs, exp
		}},
	{name: ClassSharpZeroPadX,
		applies: func(x fmtCtx, obs []byte) bool {
			return (x.sp.Conv == "x" || x.sp.Conv == "X") && x.sp.Has('#') && x.zeroEff && !x.intZero
		},
		norm: func(x fmtCtx, obs, exp string) (string, string) { return stripZeros(obs), stripZeros(exp) }},
	{name: ClassSignOnUnsigned,
		applies: func(x fmtCtx, obs []byte) bool {
			return strings.Contains("oxXu", x.sp.Conv) && (x.sp.Has('+') || x.sp.Has(' '))
		},
		norm: func(x fmtCtx, obs, exp string) (string, string) {
			obs = strings.TrimPrefix(obs, "+")
			if x.zeroEff {
				return stripZeros(obs), stripZeros(exp)
			}
			return obs, exp
		}},
	{name: ClassSharpXZero,
		applies: func(x fmtCtx, obs []byte) bool {
			return (x.sp.Conv == "x" || x.sp.Conv == "X") && x.sp.Has('#') && x.intZero
		},
		norm: func(x fmtCtx, obs, exp string) (string, string) {
			for _, p := range []string{"0x", "0X", "+0x", "+0X"} {
				if strings.HasPrefix(obs, p) && len(obs) > len(p) {
					obs = strings.TrimSuffix(p, p[len(p)-2:]) + obs[len(p):]
					break
				}
			}
			if x.zeroEff {
				return stripZeros(obs), stripZeros(exp)
			}
			return obs, exp
		}},
}

func signOf(s string) byte {
	s = strings.TrimLeft(s, " ")
	if s != "" && (s[0] == '+' || s[0] == '-') {
		return s[0]
	}
	return 0
}

// Classify names the known divergence class of one mismatching conversion ("" = none).
func Classify(m *Model, sp Spec, stars []Arg, arg Arg, chars bool, want Want, observed []byte) string {
	x := newFmtCtx(sp, stars, arg)
	var app []classRule
	for _, r := range classRules {
		if r.name == ClassSRunes && chars {
			continue
		}
		if r.applies(x, observed) {
			app = append(app, r)
		}
	}
	if len(app) == 0 {
		return ""
	}
	for _, r := range app {
		if r.exact != nil && r.exact(x, observed, want) {
			return r.name
		}
	}
	// smallest explaining subset, by size then by the fixed order of classRules
	n := len(app)
	for size := 1; size <= n; size++ {
		for mask := 1; mask < 1<<n; mask++ {
			if popcount(mask) != size {
				continue
			}
			first := ""
			usable := true
			var subset []classRule
			for i, r := range app {
				if mask&(1<<i) != 0 {
					if r.norm == nil {
						usable = false
						break
					}
					if first == "" {
						first = r.name
					}
					subset = append(subset, r)
				}
			}
			if !usable {
				continue
			}
			for _, alt := range want.Alts {
				o, e := trimSp(observed), trimSp(alt)
				for _, r := range subset {
					o, e = r.norm(x, o, e)
				}
				if o == e {
					return first
				}
			}
		}
	}
	return ""
}

func popcount(m int) int {
	n := 0
	for ; m != 0; m &= m - 1 {
		n++
	}
	return n
}
