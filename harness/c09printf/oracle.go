// Package c09printf is the model side of property C09: the AWK-way conversion of printf
// arguments, the client of the libc printf oracle (c/printf_oracle.c) and the classifiers
// of the divergence classes already known on the unchanged tree.
package c09printf

import (
	"bufio"
	"encoding/binary"
	"fmt"
	"io"
	"math"
	"os/exec"
)

// Req is one request to the libc oracle: one conversion, its '*' arguments and the
// already converted argument.
type Req struct {
	Fmt   string  // C format with the length modifier written in (e.g. "%+5.3lld")
	Stars []int32 // values for '*' (width, then precision)
	Kind  byte    // 'i' long long, 'u' unsigned long long, 'd' double, 'n' int (for %c), 's' char*, '-' none
	I     int64
	U     uint64
	D     float64
	S     []byte
}

func (r Req) String() string {
	s := fmt.Sprintf("snprintf(%q", r.Fmt)
	for _, st := range r.Stars {
		s += fmt.Sprintf(", %d", st)
	}
	switch r.Kind {
	case 'i':
		s += fmt.Sprintf(", (long long)%d", r.I)
	case 'u':
		s += fmt.Sprintf(", (unsigned long long)%d", r.U)
	case 'd':
		s += fmt.Sprintf(", (double)%v", r.D)
	case 'n':
		s += fmt.Sprintf(", (int)%d", r.I)
	case 's':
		s += fmt.Sprintf(", %q", r.S)
	}
	return s + ")"
}

func (r Req) key() string {
	return fmt.Sprintf("%s|%v|%c|%d|%d|%x|%s", r.Fmt, r.Stars, r.Kind, r.I, r.U, math.Float64bits(r.D), r.S)
}

// Oracle is a running printf_oracle process; requests are piped one at a time.
type Oracle struct {
	cmd   *exec.Cmd
	in    *bufio.Writer
	inC   io.Closer
	out   *bufio.Reader
	cache map[string]oracleAnswer
	Calls int // requests actually sent to libc (cache misses)
}

type oracleAnswer struct {
	n   int32
	out []byte
}

// CapOut is the oracle's output buffer: results longer than this come back truncated
// (with the true length in N).
const CapOut = 16384

func StartOracle(path string) (*Oracle, error) {
	cmd := exec.Command(path)
	in, err := cmd.StdinPipe()
	if err != nil {
		return nil, err
	}
	out, err := cmd.StdoutPipe()
	if err != nil {
		return nil, err
	}
	if err := cmd.Start(); err != nil {
		return nil, err
	}
	return &Oracle{cmd: cmd, in: bufio.NewWriter(in), inC: in, out: bufio.NewReaderSize(out, 1<<16), cache: map[string]oracleAnswer{}}, nil
}

func (o *Oracle) Close() {
	_ = o.inC.Close()
	_ = o.cmd.Wait()
}

// Call asks libc. n is snprintf's return value (the full length); out holds min(n, CapOut-1) bytes.
func (o *Oracle) Call(r Req) (n int32, out []byte, err error) {
	k := r.key()
	if a, ok := o.cache[k]; ok {
		return a.n, a.out, nil
	}
	var b []byte
	b = binary.LittleEndian.AppendUint32(b, uint32(len(r.Fmt)))
	b = append(b, r.Fmt...)
	b = append(b, byte(len(r.Stars)))
	for _, s := range r.Stars {
		b = binary.LittleEndian.AppendUint32(b, uint32(s))
	}
	b = append(b, r.Kind)
	switch r.Kind {
	case 'i':
		b = binary.LittleEndian.AppendUint64(b, uint64(r.I))
	case 'u':
		b = binary.LittleEndian.AppendUint64(b, r.U)
	case 'd':
		b = binary.LittleEndian.AppendUint64(b, math.Float64bits(r.D))
	case 'n':
		b = binary.LittleEndian.AppendUint32(b, uint32(int32(r.I)))
	case 's':
		b = binary.LittleEndian.AppendUint32(b, uint32(len(r.S)))
		b = append(b, r.S...)
	case '-':
	default:
		return 0, nil, fmt.Errorf("bad request kind %q", r.Kind)
	}
	if _, err = o.in.Write(b); err != nil {
		return 0, nil, err
	}
	if err = o.in.Flush(); err != nil {
		return 0, nil, err
	}
	var hdr [4]byte
	if _, err = io.ReadFull(o.out, hdr[:]); err != nil {
		return 0, nil, fmt.Errorf("oracle died on %s: %v", r, err)
	}
	n = int32(binary.LittleEndian.Uint32(hdr[:]))
	m := int(n)
	if m >= CapOut {
		m = CapOut - 1
	}
	if m > 0 {
		out = make([]byte, m)
		if _, err = io.ReadFull(o.out, out); err != nil {
			return 0, nil, err
		}
	}
	o.Calls++
	if len(o.cache) < 200000 {
		o.cache[k] = oracleAnswer{n, out}
	}
	return n, out, nil
}
