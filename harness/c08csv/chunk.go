package c08csv

import (
	"io"
	"math/rand"
	"sort"
)

// ChunkReader delivers data in the chosen partition: Sizes[i] bytes by the i-th delivery, the
// remainder afterwards in one piece.  It never returns 0 bytes with a nil error.  If the
// caller's buffer is smaller than the current piece, the piece is delivered in several reads
// (still deterministic).
type ChunkReader struct {
	Data  []byte
	Sizes []int
	Reads int // number of non-empty deliveries made (evidence that the partition was honoured)
	cur   int
}

func (r *ChunkReader) Read(p []byte) (int, error) {
	if len(r.Data) == 0 {
		return 0, io.EOF
	}
	if len(p) == 0 {
		return 0, nil
	}
	n := len(r.Data)
	for r.cur < len(r.Sizes) && r.Sizes[r.cur] <= 0 {
		r.cur++
	}
	if r.cur < len(r.Sizes) {
		n = r.Sizes[r.cur]
	}
	if n > len(r.Data) {
		n = len(r.Data)
	}
	if n > len(p) {
		n = len(p)
	}
	copy(p, r.Data[:n])
	r.Data = r.Data[n:]
	if r.cur < len(r.Sizes) {
		r.Sizes[r.cur] -= n
		if r.Sizes[r.cur] == 0 {
			r.cur++
		}
	}
	r.Reads++
	return n, nil
}

// NewChunkReader copies sizes so a partition can be reused.
func NewChunkReader(data []byte, sizes []int) *ChunkReader {
	return &ChunkReader{Data: data, Sizes: append([]int(nil), sizes...)}
}

// Cuts converts a partition (piece sizes) to the sorted list of cut offsets inside [1,n-1].
func Cuts(sizes []int, n int) []int {
	var cuts []int
	off := 0
	for _, s := range sizes {
		off += s
		if off >= n {
			break
		}
		if s > 0 {
			cuts = append(cuts, off)
		}
	}
	return cuts
}

// FromCuts converts sorted cut offsets to piece sizes (the last piece is implicit).
func FromCuts(cuts []int) []int {
	sizes := make([]int, 0, len(cuts))
	prev := 0
	for _, c := range cuts {
		sizes = append(sizes, c-prev)
		prev = c
	}
	return sizes
}

// AllPartitions calls f with every partition of n bytes into non-empty consecutive pieces
// (2^(n-1) of them), the whole-input delivery (no cut) first.
func AllPartitions(n int, f func(sizes []int)) {
	if n <= 1 {
		f(nil)
		return
	}
	for mask := 0; mask < 1<<(n-1); mask++ {
		var cuts []int
		for b := 0; b < n-1; b++ {
			if mask&(1<<b) != 0 {
				cuts = append(cuts, b+1)
			}
		}
		f(FromCuts(cuts))
	}
}

// StdPartitions is the delivery plan for inputs too long to enumerate: the whole input, one
// byte at a time, every single cut (all of them up to maxSingle bytes, else a stride plus the
// neighbourhood of the given interesting offsets) and nRandom random partitions.
func StdPartitions(n int, maxSingle int, interesting []int, nRandom int, rng *rand.Rand, f func(sizes []int)) {
	f(nil)
	if n <= 1 {
		return
	}
	ones := make([]int, n-1)
	for i := range ones {
		ones[i] = 1
	}
	f(ones)
	if n-1 <= maxSingle {
		for k := 1; k < n; k++ {
			f([]int{k})
		}
	} else {
		seen := map[int]bool{}
		var ks []int
		stride := (n + maxSingle - 1) / maxSingle
		for k := 1; k < n; k += stride {
			if !seen[k] {
				seen[k] = true
				ks = append(ks, k)
			}
		}
		for _, o := range interesting {
			for d := -2; d <= 2; d++ {
				if k := o + d; k >= 1 && k < n && !seen[k] {
					seen[k] = true
					ks = append(ks, k)
				}
			}
		}
		sort.Ints(ks)
		for _, k := range ks {
			f([]int{k})
		}
	}
	for i := 0; i < nRandom; i++ {
		m := 2 + rng.Intn(4)
		if m > n-1 {
			m = n - 1
		}
		set := map[int]bool{}
		for len(set) < m {
			set[1+rng.Intn(n-1)] = true
		}
		var cuts []int
		for c := range set {
			cuts = append(cuts, c)
		}
		sort.Ints(cuts)
		f(FromCuts(cuts))
	}
}
