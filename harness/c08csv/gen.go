package c08csv

import (
	"bytes"
	"fmt"
	"math/rand"
	"strings"
	"unicode/utf8"
)

// Dialect is one input (or output) configuration.
type Dialect struct {
	Mode    string `json:"mode"`              // "csv" | "tsv"
	Sep     rune   `json:"sep,omitempty"`     // 0 = the mode's default
	Comment rune   `json:"comment,omitempty"` // 0 = none
	Header  bool   `json:"header,omitempty"`
	Via     string `json:"via,omitempty"` // "config" (Config.InputMode/CSVInput) | "var" (INPUTMODE string)
}

// SepRune is the effective separator.
func (d Dialect) SepRune() rune {
	if d.Sep != 0 {
		return d.Sep
	}
	if d.Mode == "tsv" {
		return '\t'
	}
	return ','
}

func (d Dialect) Key() string {
	c := "none"
	if d.Comment != 0 {
		c = fmt.Sprintf("%q", d.Comment)
	}
	return fmt.Sprintf("%s sep=%q comment=%s header=%v via=%s", d.Mode, d.SepRune(), c, d.Header, d.Via)
}

// ModeString spells the dialect as an INPUTMODE value; ok=false if the string form cannot
// express it (INPUTMODE is split on white space, so a blank separator has no spelling).
func (d Dialect) ModeString() (string, bool) {
	s := d.Mode
	if d.Sep != 0 {
		if d.Sep == ' ' || d.Sep == '\t' || d.Sep == '\v' || d.Sep == '\f' || d.Sep == 0x85 || d.Sep == 0xA0 {
			return "", false
		}
		s += " separator=" + string(d.Sep)
	}
	if d.Comment != 0 {
		if d.Comment == ' ' || d.Comment == '\t' {
			return "", false
		}
		s += " comment=" + string(d.Comment)
	}
	if d.Header {
		s += " header"
	}
	return s, true
}

var (
	Seps     = []rune{0, 0, 0, ';', '|', '\t', ' ', 'é', '→', ':'}
	Comments = []rune{0, 0, '#', '#', '§', ';', '/'}
)

// RandDialect draws a valid dialect (separator != comment, both valid delimiters).
func RandDialect(rng *rand.Rand) Dialect {
	d := Dialect{Mode: "csv", Via: "config"}
	if rng.Intn(4) == 0 {
		d.Mode = "tsv"
	}
	d.Sep = Seps[rng.Intn(len(Seps))]
	d.Comment = Comments[rng.Intn(len(Comments))]
	if d.Comment == d.SepRune() {
		d.Comment = 0
	}
	d.Header = rng.Intn(4) == 0
	if rng.Intn(4) == 0 {
		if _, ok := d.ModeString(); ok {
			d.Via = "var"
		}
	}
	return d
}

// ---- grammar-directed CSV text ---------------------------------------------------------------

type textGen struct {
	rng     *rand.Rand
	sep     string
	comment string // "" if none
	b       bytes.Buffer
}

func (g *textGen) pick(l []string) string { return l[g.rng.Intn(len(l))] }

var plainPieces = []string{"a", "b", "xy", "1", "42", "3.5", "-1e3", "abc", "Z", "_", "é", "日本", "\xf0\x9f\x98\x80"}
var hostilePieces = []string{" ", "  ", "\t", "\x00", "\xff", "\xc3", "\xa9", "\xe2\x86", "\r", "#", "'", "\\", "\\.", "\xef\xbb\xbf", "\xef\xbb", ";", ",", "|", ":"}

func (g *textGen) unquotedPiece() string {
	switch r := g.rng.Intn(100); {
	case r < 60:
		return g.pick(plainPieces)
	case r < 85:
		p := g.pick(hostilePieces)
		if p == g.sep {
			return "s"
		}
		return p
	case r < 92:
		return `"` // bare quote inside an unquoted field (lenient)
	case r < 96 && g.comment != "":
		return g.comment
	default:
		return " "
	}
}

func (g *textGen) quotedPiece() string {
	switch r := g.rng.Intn(100); {
	case r < 35:
		return g.pick(plainPieces)
	case r < 50:
		return g.sep
	case r < 62:
		return `""`
	case r < 72:
		return "\n"
	case r < 80:
		return "\r\n"
	case r < 84:
		return "\r"
	case r < 88 && g.comment != "":
		return "\n" + g.comment // a comment-looking line inside a quoted field is data
	case r < 92:
		return "\n\n" // a blank-looking line inside a quoted field is data
	default:
		return g.pick(hostilePieces)
	}
}

func (g *textGen) field() {
	switch r := g.rng.Intn(100); {
	case r < 12: // empty
	case r < 55: // unquoted
		for n := 1 + g.rng.Intn(3); n > 0; n-- {
			g.b.WriteString(g.unquotedPiece())
		}
	case r < 90: // quoted
		g.b.WriteByte('"')
		for n := g.rng.Intn(4); n > 0; n-- {
			g.b.WriteString(g.quotedPiece())
		}
		g.b.WriteByte('"')
	case r < 94: // text after the closing quote (bare quote inside a quoted field)
		g.b.WriteByte('"')
		g.b.WriteString(g.pick(plainPieces))
		g.b.WriteByte('"')
		g.b.WriteString(g.pick(plainPieces))
		if g.rng.Intn(2) == 0 {
			g.b.WriteByte('"')
		}
	case r < 97: // quote opened, never closed: runs over the following lines
		g.b.WriteByte('"')
		g.b.WriteString(g.pick(plainPieces))
	default: // blank-padded quoted field: the quote is NOT at the field start, so it is literal
		g.b.WriteString(` "`)
		g.b.WriteString(g.pick(plainPieces))
		g.b.WriteString(`" `)
	}
}

func (g *textGen) line(last bool) {
	switch r := g.rng.Intn(100); {
	case r < 8:
		g.b.WriteString("\n")
		return
	case r < 13:
		g.b.WriteString("\r\n")
		return
	case r < 22 && g.comment != "":
		g.b.WriteString(g.comment)
		for n := g.rng.Intn(4); n > 0; n-- {
			if g.rng.Intn(3) == 0 {
				g.b.WriteString(g.pick([]string{`"`, g.sep, `""`, " ", "\r"}))
			} else {
				g.b.WriteString(g.pick(plainPieces))
			}
		}
	case r < 25:
		g.b.WriteString(g.pick([]string{" ", "\t", "  ", "\r"})) // white-space-only line: a record, not a blank line
	default:
		for n := 1 + g.rng.Intn(4); n > 0; n-- {
			g.field()
			if n > 1 {
				g.b.WriteString(g.sep)
			}
		}
	}
	// terminator
	if last {
		switch g.rng.Intn(6) {
		case 0:
			return // final line without newline
		case 1:
			g.b.WriteString("\r") // lone CR before end of input
			return
		}
	}
	if g.rng.Intn(4) == 0 {
		g.b.WriteString("\r\n")
	} else {
		g.b.WriteString("\n")
	}
}

// GenText produces one CSV text for the dialect.  maxLines bounds the number of lines.
func GenText(rng *rand.Rand, d Dialect, maxLines int) []byte {
	g := &textGen{rng: rng, sep: string(d.SepRune())}
	if d.Comment != 0 {
		g.comment = string(d.Comment)
	}
	switch rng.Intn(10) {
	case 0, 1:
		g.b.WriteString(BOM)
	case 2:
		if rng.Intn(4) == 0 {
			g.b.WriteString(BOM + BOM) // only the first one is a mark
		}
	}
	n := rng.Intn(maxLines + 1)
	for i := 0; i < n; i++ {
		g.line(i == n-1)
	}
	return g.b.Bytes()
}

// TinyAlphabet is the symbol set for the exhaustive small-input family of a dialect.
func TinyAlphabet(d Dialect) []string {
	a := []string{"a", string(d.SepRune()), `"`, "\n", "\r"}
	if d.Comment != 0 {
		a = append(a, string(d.Comment))
	} else {
		a = append(a, " ")
	}
	return a
}

// TinyCount is the number of strings of length 1..maxLen over k symbols.
func TinyCount(k, maxLen int) int {
	n, p := 0, 1
	for l := 1; l <= maxLen; l++ {
		p *= k
		n += p
	}
	return n
}

// TinyString returns the i-th string (0-based) in length-then-lexicographic order.
func TinyString(alpha []string, i int) []byte {
	k := len(alpha)
	l, p := 1, k
	for i >= p {
		i -= p
		p *= k
		l++
	}
	var parts []string
	for j := 0; j < l; j++ {
		parts = append(parts, alpha[i%k])
		i /= k
	}
	return []byte(strings.Join(parts, ""))
}

// ---- 64 KiB buffer-edge inputs ---------------------------------------------------------------

// EdgeSize is goawk's initial input buffer size (interp.inputBufSize); inputs are built so
// that something interesting straddles this offset.
const EdgeSize = 64 * 1024

const EdgeShapes = 7

// Edge64K builds an input in which, depending on shape, the end of the first record, a CRLF
// inside a quoted field, a doubled quote, a multi-byte separator, a record terminator among
// many short records, or skipped lines fall at offset EdgeSize+delta.  It returns the input
// and the offsets worth cutting at.
func Edge64K(shape int, delta int, bom bool, d Dialect) (in []byte, interesting []int, desc string) {
	var b bytes.Buffer
	if bom {
		b.WriteString(BOM)
	}
	sep := string(d.SepRune())
	target := EdgeSize + delta
	pad := func(upTo int, fill string) {
		for b.Len() < upTo {
			b.WriteString(fill)
		}
	}
	tail := "x" + sep + "y\nlast" + sep + "\"q\"\"z\"\n"
	if d.Header {
		b.WriteString("h1" + sep + "h2\n")
	}
	switch shape % EdgeShapes {
	case 0:
		desc = "first record ends at the edge"
		b.WriteString("f" + sep)
		pad(target-1, "a")
		b.WriteString("\n")
		interesting = append(interesting, b.Len())
	case 1:
		desc = "CRLF inside a quoted field straddles the edge"
		b.WriteString("f" + sep + `"`)
		pad(target-1, "q")
		b.WriteString("\r\n")
		interesting = append(interesting, b.Len()-1)
		b.WriteString("rest\"" + sep + "g\r\n")
	case 2:
		desc = "doubled quote straddles the edge"
		b.WriteString(`"`)
		pad(target-1, "d")
		b.WriteString(`""`)
		interesting = append(interesting, b.Len()-1)
		b.WriteString("e\"" + sep + "g\n")
	case 3:
		desc = "separator straddles the edge"
		pad(target-1, "s")
		b.WriteString(sep)
		interesting = append(interesting, b.Len()-1, b.Len())
		b.WriteString("t\n")
	case 4:
		desc = "many short records, a CRLF terminator straddles the edge"
		i := 0
		for b.Len() < target-12 {
			fmt.Fprintf(&b, "r%05d%sv\r\n", i, sep)
			i++
		}
		pad(target-1, "m")
		b.WriteString("\r\n")
		interesting = append(interesting, b.Len()-1)
	case 5:
		desc = "blank and comment lines before a record straddle the edge"
		b.WriteString("f" + sep + "1\n")
		c := "\n"
		if d.Comment != 0 {
			c = string(d.Comment) + "c\n"
		}
		for b.Len() < target-3 {
			b.WriteString(c)
		}
		pad(target, "\n")
		interesting = append(interesting, b.Len())
		b.WriteString("g" + sep + "2\n")
	case 6:
		desc = "first line longer than the buffer, no newline before the edge"
		b.WriteString("f" + sep + `"`)
		pad(target+300, "L")
		b.WriteString("\"\n")
		interesting = append(interesting, EdgeSize, b.Len())
	}
	b.WriteString(tail)
	interesting = append(interesting, EdgeSize)
	return b.Bytes(), interesting, desc
}

// ---- rows for the write -> read round trip ---------------------------------------------------

// RowFieldPool is the systematic field set: every row of up to three of these is tried.
func RowFieldPool(sep rune) []string {
	return []string{"", "a", " ", " a", "a ", `"`, `a"b`, string(sep), "\n", "a\nb", "#", `""`}
}

var rowPieces = []string{"a", "b", "xyz", "1", " ", "  ", "\t", `"`, `""`, "\n", "\n\n", ",", ";", "|", "#", "\\", "\\.", "\x00", "\xff", "\xc3", "\xa9", "é", "→", "\xe2\x86", "\xef\xbb\xbf", "'"}

// GenRows draws 1..4 rows of 1..5 carriage-return-free fields.
func GenRows(rng *rand.Rand, sep rune) [][]string {
	nr := 1 + rng.Intn(4)
	rows := make([][]string, nr)
	for i := range rows {
		nf := 1 + rng.Intn(5)
		row := make([]string, nf)
		for j := range row {
			var sb strings.Builder
			for n := rng.Intn(4); n > 0; n-- {
				if rng.Intn(6) == 0 {
					sb.WriteRune(sep)
				} else {
					sb.WriteString(rowPieces[rng.Intn(len(rowPieces))])
				}
			}
			row[j] = sb.String()
		}
		rows[i] = row
	}
	return rows
}

// RowFeatures names what makes a row list interesting (evidence only).
func RowFeatures(rows [][]string, sep rune) []string {
	seen := map[string]bool{}
	for _, row := range rows {
		if len(row) == 1 && row[0] == "" {
			seen["single-empty-field"] = true
		}
		for _, f := range row {
			switch {
			case f == "":
				seen["empty-field"] = true
			case strings.HasPrefix(f, " ") || strings.HasPrefix(f, "\t"):
				seen["leading-blank"] = true
			}
			if strings.HasSuffix(f, " ") {
				seen["trailing-blank"] = true
			}
			if strings.Contains(f, `"`) {
				seen["quote"] = true
			}
			if strings.ContainsRune(f, sep) {
				seen["separator"] = true
			}
			if strings.Contains(f, "\n") {
				seen["lf"] = true
			}
			if strings.HasSuffix(f, "\n") || strings.HasPrefix(f, "\n") {
				seen["lf-at-edge"] = true
			}
			if !utf8.ValidString(f) {
				seen["invalid-utf8"] = true
			}
			if strings.Contains(f, "\x00") {
				seen["nul"] = true
			}
			if f == `\.` {
				seen["backslash-dot"] = true
			}
		}
	}
	var l []string
	for k := range seen {
		l = append(l, k)
	}
	return l
}
