// Package c08csv holds the oracle, the chunk-controlled reader and the input generators of
// property C08 (CSV/TSV input per RFC 4180 with lenient quotes; CSV output reads back).
//
// The oracle is encoding/csv itself (LazyQuotes, FieldsPerRecord=-1, Comma, Comment) run on the
// same bytes, plus the byte range of every record taken from Reader.InputOffset.  Nothing in
// this package looks at goawk.
package c08csv

import (
	"bytes"
	"encoding/csv"
	"fmt"
	"io"
	"strings"
	"unicode/utf8"
)

// BOM is the UTF-8 byte-order mark.
const BOM = "\xef\xbb\xbf"

// ExpRec is one record as the oracle sees it.
type ExpRec struct {
	Fields []string
	// Text is the record's own bytes: from its first byte (after any skipped blank/comment
	// lines) up to and including its line terminator.  Start/End index the ORIGINAL input.
	Text       string
	Start, End int
	AtEOF      bool // the record ends where the input ends
}

// HasBOM reports whether the input starts with a byte-order mark.
func HasBOM(in []byte) bool { return bytes.HasPrefix(in, []byte(BOM)) }

func newReader(b []byte, sep, comment rune) *csv.Reader {
	r := csv.NewReader(bytes.NewReader(b))
	r.Comma = sep
	r.Comment = comment
	r.LazyQuotes = true
	r.FieldsPerRecord = -1
	return r
}

// isSkippable reports whether a complete line (with its terminator, if any) is one the reader
// skips between records: a blank line ("\n" or "\r\n") or a line starting with the comment rune.
func isSkippable(line []byte, comment rune) bool {
	if len(line) == 0 {
		return true
	}
	if string(line) == "\n" || string(line) == "\r\n" {
		return true
	}
	if comment != 0 {
		if r, _ := utf8.DecodeRune(line); r == comment {
			return true
		}
	}
	return false
}

// Model parses the input with encoding/csv and returns every record with its byte range.
// stripBOM=true is the specification ("a leading byte-order mark is ignored"); stripBOM=false
// gives the reading in which the mark is (wrongly) treated as data, used only to CLASSIFY an
// observed disagreement as a BOM leak.
func Model(in []byte, sep, comment rune, stripBOM bool) ([]ExpRec, error) {
	off := 0
	body := in
	if stripBOM && HasBOM(in) {
		off = len(BOM)
		body = in[off:]
	}
	r := newReader(body, sep, comment)
	var recs []ExpRec
	for {
		start := int(r.InputOffset())
		fields, err := r.Read()
		if err == io.EOF {
			break
		}
		if err != nil {
			return nil, fmt.Errorf("encoding/csv refused the input: %v", err)
		}
		end := int(r.InputOffset())
		// The reader's range includes the blank and comment lines it skipped before the
		// record; skip them again here, line by line.
		p := start
		for p < end {
			le := bytes.IndexByte(body[p:end], '\n')
			if le < 0 {
				le = end
			} else {
				le = p + le + 1
			}
			if !isSkippable(body[p:le], comment) {
				break
			}
			p = le
		}
		rec := ExpRec{Fields: fields, Text: string(body[p:end]), Start: off + p, End: off + end, AtEOF: end == len(body)}
		// Self-check of the range: the record's own text, read alone, is exactly this record.
		r2 := newReader(body[p:end], sep, comment)
		f2, err2 := r2.Read()
		_, err3 := r2.Read()
		if err2 != nil || err3 != io.EOF || !EqualFields(f2, fields) {
			return nil, fmt.Errorf("model self-check failed for range [%d,%d) %q: %v / %q vs %q", p, end, body[p:end], err2, f2, fields)
		}
		recs = append(recs, rec)
	}
	return recs, nil
}

func EqualFields(a, b []string) bool {
	if len(a) != len(b) {
		return false
	}
	for i := range a {
		if a[i] != b[i] {
			return false
		}
	}
	return true
}

// Terminator returns the record's line terminator ("\n", "\r\n" or "").
func (e ExpRec) Terminator() string {
	switch {
	case strings.HasSuffix(e.Text, "\r\n"):
		return "\r\n"
	case strings.HasSuffix(e.Text, "\n"):
		return "\n"
	}
	return ""
}

// Body is the record's own text without its line terminator.
func (e ExpRec) Body() string { return strings.TrimSuffix(e.Text, e.Terminator()) }

// AcceptedDollar0 lists every value of $0 the property allows for the record:
//   - the record's own text without its terminator;
//   - the same with each CRLF *inside* the record normalised to LF (a line break inside the
//     text can only sit in a quoted field; the property says CRLF is accepted, not how $0
//     spells it, and encoding/csv normalises the field value);
//   - for an unterminated final record ending in CR: with or without that CR (RFC 4180 does
//     not make a lone CR a terminator, encoding/csv drops it "for backwards compatibility").
func (e ExpRec) AcceptedDollar0() []string {
	b := e.Body()
	out := []string{b}
	add := func(s string) {
		for _, o := range out {
			if o == s {
				return
			}
		}
		out = append(out, s)
	}
	add(strings.ReplaceAll(b, "\r\n", "\n"))
	if e.AtEOF && e.Terminator() == "" && strings.HasSuffix(b, "\r") {
		t := strings.TrimSuffix(b, "\r")
		add(t)
		add(strings.ReplaceAll(t, "\r\n", "\n"))
	}
	return out
}

// Accepts reports whether s is an allowed $0 for the record.
func (e ExpRec) Accepts(s string) bool {
	for _, a := range e.AcceptedDollar0() {
		if a == s {
			return true
		}
	}
	return false
}

// Features names the RFC 4180 situations present in an input (evidence only).
func Features(in []byte, sep, comment rune, recs []ExpRec) []string {
	var f []string
	add := func(ok bool, name string) {
		if ok {
			f = append(f, name)
		}
	}
	s := string(in)
	add(HasBOM(in), "bom")
	add(strings.Contains(s, `"`), "quote")
	add(strings.Contains(s, `""`), "doubled-quote")
	add(strings.Contains(s, "\r\n"), "crlf")
	add(strings.Contains(strings.ReplaceAll(s, "\r\n", ""), "\r"), "lone-cr")
	add(strings.Contains(s, "\x00"), "nul")
	add(!utf8.Valid(in), "invalid-utf8")
	add(len(in) > 0 && in[len(in)-1] != '\n', "no-final-newline")
	add(utf8.RuneLen(sep) > 1, "multibyte-sep")
	add(comment != 0 && utf8.RuneLen(comment) > 1, "multibyte-comment")
	skipped, multiline, sepInField, quoteInField, emptyField, leadingSpace := false, false, false, false, false, false
	prevEnd := 0
	if HasBOM(in) {
		prevEnd = len(BOM)
	}
	for _, r := range recs {
		if r.Start > prevEnd {
			skipped = true
		}
		prevEnd = r.End
		if strings.Contains(r.Body(), "\n") {
			multiline = true
		}
		for _, fl := range r.Fields {
			if strings.ContainsRune(fl, sep) {
				sepInField = true
			}
			if strings.Contains(fl, `"`) {
				quoteInField = true
			}
			if fl == "" {
				emptyField = true
			}
			if strings.HasPrefix(fl, " ") || strings.HasSuffix(fl, " ") {
				leadingSpace = true
			}
		}
	}
	add(skipped || prevEnd < len(in), "skipped-lines")
	add(multiline, "multiline-field")
	add(sepInField, "sep-in-field")
	add(quoteInField, "quote-in-field")
	add(emptyField, "empty-field")
	add(leadingSpace, "blank-edge-field")
	if comment != 0 {
		for _, line := range strings.SplitAfter(s, "\n") {
			if r, _ := utf8.DecodeRuneInString(line); r == comment && line != "" {
				f = append(f, "comment-line")
				break
			}
		}
	}
	return f
}
