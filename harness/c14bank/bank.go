// Package c14bank is the program bank of property C14 (a reused Interpreter behaves like a
// fresh one): 40 AWK programs that share one vocabulary of script-selectable actions, so that a
// history of Execute calls on ONE interpreter (one program) can be steered, run by run, through
// different endings (normal, exit, run-time error inside a nested call inside for-in, error in
// END, cancellation, error from a native function) and can leave different kinds of state behind
// (record and fields, NR/FNR/FILENAME, RSTART/RLENGTH, open files/commands, CSV header names,
// modes, separators, globals, arrays, random seed), while the same program, run once more as the
// probe, dumps every item the property names.
//
// Every run is controlled by "control variables" passed through Config.Vars (all of them in
// every run, so they never carry over by accident):
//
//	bact, ract, eact   space separated action lists executed in BEGIN, at record NR==at, in END
//	at                 record number at which ract runs
//	useat              non-empty: the CSV rule variant also evaluates @"name"
//	deepn              recursion depth used by the "deep" action
//	reseed             non-empty: BEGIN starts with srand(7)   (probe without ResetRand)
//	neutral            non-empty: BEGIN starts by overwriting every program variable and
//	                   deleting every array (probe without ResetVars: whatever is NOT a variable
//	                   or an array must then equal a fresh interpreter's)
//	cseq, cmark        carry-over bookkeeping (variables must carry over without ResetVars)
package c14bank

import (
	"fmt"
	"sort"
	"strings"
)

// ControlVars are passed through Config.Vars in every run and are therefore exempt from the
// "neutral" prologue.
var ControlVars = []string{"bact", "ract", "eact", "at", "useat", "deepn", "reseed", "neutral", "cseq", "cmark"}

// File names used by the programs (relative to the per-batch scratch directory the harness
// chdir()s into). Inputs are rewritten and outputs removed before every probe run.
const (
	In1     = "in1.txt" // plain text, five records
	In2     = "in2.csv" // CSV with a header row
	In3     = "in3.txt" // records separated by ';', fields by ':'
	Empty   = "empty.txt"
	Missing = "missing.txt" // never exists
	Out1    = "o1.txt"
	Out2    = "o2.txt"
	Out3    = "o3.txt"
)

// InputFiles are the fixed input files and their contents.
var InputFiles = map[string]string{
	In1:   "a 1 x\nb 2 y\nc 3 z\nd 4 w\ne 5 v\n",
	In2:   "name,b,c\nann,1,\"q,r\"\nbob,2,z\n",
	In3:   "a:1;b:2;stop:3;c:4",
	Empty: "",
}

// OutputFiles may be created by the programs.
var OutputFiles = []string{Out1, Out2, Out3}

// Action is one entry of the action vocabulary.
type Action struct {
	Name string
	Code string // AWK statement(s) executed when doact() is called with Name
	// Tags: ends (may end the run: exit/error/cancel), stream (opens/closes a stream),
	// cmd (runs a vsh command: slow), vars (changes a variable), rec (changes record state),
	// obs (prints an observation)
	Tags string
}

// Actions is the vocabulary. Names contain no spaces.
var Actions = []Action{
	// --- observations
	{"dump", `dumpstate("D")`, "obs"},
	{"closes", `print "close", close("o1.txt"), close("in1.txt"), close("emit:c1"), close("catto:o3.txt"), close("nope")`, "obs stream"},
	{"flush", `print "flush", fflush(), fflush("o1.txt")`, "obs"},
	{"rand", `print "rand", rand(), rand()`, "obs vars"},
	{"srand", `print "srand", srand(5), srand(9)`, "obs vars"},
	{"fields", `print "fields", length(FIELDS), FIELDS[1], FIELDS[2]`, "obs"},
	{"at", `print "at", @"name"`, "obs ends"},
	{"atb", `print "atb", @"b", @"nosuch"`, "obs ends"},
	{"chars", `print "chars", length("h\303\251llo"), substr("h\303\251llo", 2, 2), index("h\303\251llo", "l"), sprintf("%c", 233)`, "obs"},
	{"csvout", `print "a,b", "c\"d", 1.5, "p q"`, "obs"},
	{"deep", `print "deep", depth(deepn + 0)`, "obs ends"},
	{"loop", `{ for (i = 0; i < 2500; i++) x += i; print "loop", x }`, "obs"},
	// number <-> string conversions of the same few numbers in every run (a conversion remembered
	// from an earlier run, or made under an earlier run's CONVFMT/OFMT, shows here)
	{"numstr", `{ nsv = 3.14159265; nsw0 = nsv ""; nsa = (0.1 + 0.2) ""; nsb = 1e6 / 7 ""; nsA[nsv] = 1; for (nsk in nsA) nsk2 = nsk; delete nsA; nsw = nsv ""; print "numstr", nsw0, nsa, nsb, nsk2, nsw }`, "obs"},
	{"pnum", `print "pnum", 3.14159265, 2 / 3, 100 / 3`, "obs"},
	{"strnum", `print "strnum", "3.0" + 0, "1e3" * 1, " 12 " + 1, ("10" < "9"), ("10" + 0 < "9" + 0)`, "obs"},
	// --- endings
	{"exit3", `exit 3`, "ends"},
	{"exit0", `exit`, "ends"},
	{"exitv", `exit cnt + 1`, "ends"},
	{"div0", `{ t["k"] = 1; for (k in t) x = boom(3, t); print "notreached", x }`, "ends"},
	{"deeperr", `print "deeperr", depth(1200)`, "ends"},
	{"regerr", `{ x = "a("; print "re", ("a" ~ x) }`, "ends"},
	{"pferr", `printf "%z\n", 1`, "ends"},
	{"nferr", `NF = -1`, "ends"},
	{"fielderr", `$(10000000) = 1`, "ends"},
	{"nerr", `print "nerr", nerr(1)`, "ends"},
	{"nok", `print "nok", nerr(0), nid("z")`, "obs"},
	{"cancel", `{ cancel(); for (i = 1; i <= 1500; i++) { x += i; if (i % 25 == 0) print "c", i }; print "aftercancel", x }`, "ends"},
	{"imbad", `INPUTMODE = "bogus"`, "ends"},
	{"fsbad", `FS = "a("`, "ends vars"},
	{"rsbad", `RS = "a("`, "ends vars"},
	// --- record state
	{"set0", `$0 = "p q:r,s \"t u\""`, "rec"},
	{"setf", `$3 = "zz"`, "rec"},
	{"setnf", `NF = 2`, "rec"},
	{"match", `print "match", match("xxabccxx", /abc+/), RSTART, RLENGTH`, "rec obs"},
	{"nomatch", `print "nomatch", match("xx", /q/), RSTART, RLENGTH`, "rec obs"},
	{"getl", `{ r = getline; print "getl", r, $0, NR, FNR }`, "rec obs"},
	{"getlv", `{ r = getline line; print "getlv", r, line, NR }`, "rec obs vars"},
	{"setnr", `{ NR = 40; FNR = 30 }`, "rec"},
	{"setfn", `FILENAME = "fn"`, "rec"},
	// --- streams
	{"getf", `{ r = (getline line < "in1.txt"); print "getf", r, line }`, "stream obs"},
	{"getf0", `{ r = (getline < "in2.csv"); print "getf0", r, $0, NF }`, "stream rec obs"},
	{"getf3", `{ r = (getline line < "in3.txt"); print "getf3", r, line }`, "stream obs"},
	{"getfm", `{ r = (getline line < "missing.txt"); print "getfm", r }`, "stream obs"},
	{"getfo", `{ r = (getline line < "o1.txt"); print "getfo", r, line }`, "stream obs ends"},
	{"getstdin", `{ r = (getline line < "-"); print "getstdin", r, line }`, "stream obs"},
	{"pout", `print "o", NR, cnt > "o1.txt"`, "stream ends"},
	{"papp", `print "a", NR >> "o2.txt"`, "stream ends"},
	{"pin", `print "w" > "in1.txt"`, "stream ends"},
	{"pstdout", `print "so" > "/dev/stdout"`, "obs"},
	{"perr", `print "se" > "/dev/stderr"`, ""},
	{"closeo", `print "closeo", close("o1.txt")`, "stream obs"},
	{"closei", `print "closei", close("in1.txt")`, "stream obs"},
	// the command writes exactly one line, which the script reads: a command with unread output
	// ends either normally or by SIGPIPE when its pipe is closed, whichever comes first
	{"gcmd", `{ r = ("emit:c1" | getline line); print "gcmd", r, line }`, "stream cmd obs ends"},
	{"pcmd", `print "d", NR | "catto:o3.txt"`, "stream cmd ends"},
	{"closec", `print "closec", close("emit:c1"), close("catto:o3.txt")`, "stream obs"},
	{"sys", `print "sys", system("exit:2")`, "cmd obs ends"},
	// --- variables
	{"fs", `FS = ":"`, "vars"},
	{"fsre", `FS = "[:,]+"`, "vars"},
	{"fstab", `FS = "\t"`, "vars"},
	{"rs", `RS = ";"`, "vars"},
	{"rsre", `RS = "x+|;"`, "vars"},
	{"rspara", `RS = ""`, "vars"},
	{"ofs", `OFS = "-"`, "vars"},
	{"ors", `ORS = "|\n"`, "vars"},
	{"subsep", `SUBSEP = "#"`, "vars"},
	{"convfmt", `CONVFMT = "%.2g"`, "vars"},
	{"ofmt", `OFMT = "%.3f"`, "vars"},
	{"imcsv", `INPUTMODE = "csv header"`, "vars"},
	{"imtsv", `INPUTMODE = "tsv"`, "vars"},
	{"imoff", `INPUTMODE = ""`, "vars"},
	{"omcsv", `OUTPUTMODE = "csv"`, "vars"},
	{"omoff", `OUTPUTMODE = ""`, "vars"},
	// seeds the generator from the clock (nothing is printed: the value is not reproducible);
	// only ever part of a history, never of a probe
	{"srandclock", `srand()`, "vars"},
	{"glob", `{ cnt++; acc = acc "x"; last = "L" NR; seen["a"] = NR; seen[1, 2] = 1 }`, "vars"},
	{"delarr", `delete seen`, "vars"},
	{"argc", `ARGC = 1`, "vars"},
}

// ActionByName indexes Actions.
var ActionByName = func() map[string]Action {
	m := map[string]Action{}
	for _, a := range Actions {
		if strings.ContainsAny(a.Name, " \t") {
			panic("action name with blank: " + a.Name)
		}
		m[a.Name] = a
	}
	return m
}()

// HasTag reports whether the action carries the tag.
func (a Action) HasTag(tag string) bool {
	for _, t := range strings.Fields(a.Tags) {
		if t == tag {
			return true
		}
	}
	return false
}

// common functions of every bank program.
func funcsSource() string {
	var b strings.Builder
	b.WriteString(`# dumpstate prints every item of interpreter state that is visible to a script.
function dumpstate(tag,   i, s) {
	printf "%s rec [%s] NF=%d f1=[%s] f2=[%s] NR=%d FNR=%d FILENAME=[%s] RSTART=%d RLENGTH=%d ARGC=%d RT=[%s]\n", tag, $0, NF, $1, $2, NR, FNR, FILENAME, RSTART, RLENGTH, ARGC, RT
	printf "%s modes [%s] [%s]\n", tag, INPUTMODE, OUTPUTMODE
	printf "%s seps FS=[%s] OFS=[%s] ORS=[%s] RS=[%s] SUBSEP=[%s] CONVFMT=[%s] OFMT=[%s]\n", tag, FS, OFS, ORS, RS, SUBSEP, CONVFMT, OFMT
	printf "%s vars cnt=[%s] sum=[%s] acc=[%s] last=[%s] line=[%s] seen=%d/%s/%d null=%d%d\n", tag, cnt, sum, acc, last, line, length(seen), seen["a"], ((1, 2) in seen), (cnt == 0), (cnt == "")
	s = ""
	for (i = 0; i < ARGC && i < 8; i++) s = s "<" ARGV[i] ">"
	printf "%s argv %s env=[%s]\n", tag, s, ENVIRON["K"]
	print tag " fmt", 0.1 + 0.2, (0.1 + 0.2) "", 100000 * 30, length("h\303\251llo")
}
# boom fails with a division by zero inside a for-in inside a nested call (local arrays live).
function boom(d, arr,   la, k) {
	la[d] = d
	if (d > 0) return boom(d - 1, arr) + 1
	for (k in arr) return 1 / zero
	return 0
}
function depth(n) { return n <= 0 ? 0 : 1 + depth(n - 1) }
function doacts(list,   n, i, parts) {
	n = split(list, parts, " ")
	for (i = 1; i <= n; i++) doact(parts[i])
}
function doact(a,   r, i, t, k, x) {
	if (a == "") return
`)
	for _, a := range Actions {
		fmt.Fprintf(&b, "\telse if (a == %q) %s\n", a.Name, a.Code)
	}
	b.WriteString("\telse print \"unknown action\", a\n}\n")
	return b.String()
}

// beginSource is the BEGIN block shared by all programs; %PROLOGUE% is replaced by the
// generated variable-neutralising statements.
const beginSource = `BEGIN {
	if (bact != "carry" && cseq != "") { chist[cseq] = cseq; clast = cseq; if (cmark != "") SUBSEP = "<" cseq ">" }
	if (reseed != "") srand(7)
	if (neutral != "") {
%PROLOGUE%	}
	dumpstate("B")
	if (bact == "carry") { s = ""; for (i = 1; i <= 9; i++) if (i in chist) s = s i; printf "carry [%s] [%s] [%s]\n", clast, s, SUBSEP } else doacts(bact)
}
`

const atRule = "NR == at { doacts(ract) }\n"

// ruleVariants are the pattern-action sections.
var ruleVariants = []struct{ name, src string }{
	{"plain", atRule + `{ cnt++; sum += $2; last = $1; seen[$1] = NR; print NR ":" $1 "|" $NF "|" NF }` + "\n"},
	{"regex", `/b/` + "\n" + atRule + `$1 ~ /^[ac]/ { acc = acc $1; print "m", $1 }` + "\n"},
	{"range", `$1 == "b", $1 == "d" { print "r", NR, $0; cnt++ }` + "\n" + atRule + `!seen[$1]++ { print "first", $1 }` + "\n"},
	{"next", atRule + `NR % 3 == 0 { next }` + "\n" + `$1 == "stop" { nextfile }` + "\n" + `{ print FNR, FILENAME, $0 }` + "\n"},
	{"getline", `$1 == "a" { if ((getline line) > 0) print "nextline", line, NR }` + "\n" + atRule + `{ print "rec", $0; sum += NF }` + "\n"},
	{"csv", atRule + `{ print "F", FIELDS[1], FIELDS[2]; if (useat != "") print "at", @"name", @"b"; print $1, $2; last = $2 }` + "\n"},
	{"redirect", `{ print $1 > "o1.txt"; printf "%s-%d\n", $1, NF >> "o2.txt"; sum += NF }` + "\n" + atRule},
	{"fieldmod", atRule + `{ $2 = "X"; print; NF = 3; print; $0 = $1; print NF, $0; n = split("abcba", parts, "b"); print n, parts[1]; if (sub(/a/, "A")) print $0 }` + "\n"},
}

// endVariants are the END sections.
var endVariants = []struct{ name, src string }{
	{"acts-dump", `END { doacts(eact); dumpstate("E") }` + "\n"},
	{"dump-acts", `END { dumpstate("E"); doacts(eact) }` + "\n"},
	{"two-ends", `END { doacts(eact) }` + "\n" + `END { print "end2", NR, $0; dumpstate("E") }` + "\n"},
	{"forin", `END { n = 0; tot = 0; for (k in seen) { n++; tot += length(k) }; print "seen", n, tot; doacts(eact); dumpstate("E") }` + "\n"},
	{"no-end", ""},
}

// Program is one bank entry.
type Program struct {
	Index int
	Name  string
	Body  string // source without the neutral prologue (used to enumerate the variables)
}

// Programs returns the bank (a fixed list; it does not depend on the seed).
func Programs() []Program {
	var ps []Program
	fs := funcsSource()
	for ri, r := range ruleVariants {
		for ei, e := range endVariants {
			ps = append(ps, Program{Index: ri*len(endVariants) + ei, Name: r.name + "/" + e.name, Body: fs + beginSource + r.src + e.src})
		}
	}
	return ps
}

// WithPrologue returns the final source: Body with the neutral prologue filled in. scalars and
// arrays are the global variables of Body as reported by the resolver; control variables,
// ARGV and ENVIRON (set from the configuration in every run) are left alone.
func (p Program) WithPrologue(scalars, arrays []string) string {
	skip := map[string]bool{"ARGV": true, "ENVIRON": true}
	for _, c := range ControlVars {
		skip[c] = true
	}
	sort.Strings(scalars)
	sort.Strings(arrays)
	var b strings.Builder
	for _, s := range scalars {
		if !skip[s] {
			fmt.Fprintf(&b, "\t\t%s = \"\"\n", s)
		}
	}
	for _, a := range arrays {
		if !skip[a] {
			fmt.Fprintf(&b, "\t\tdelete %s\n", a)
		}
	}
	b.WriteString("\t\tsrand(7)\n")
	return strings.Replace(p.Body, "%PROLOGUE%", b.String(), 1)
}
