//go:build race

package props

// c13RaceBuild reports whether this binary was built with the race detector (vcheck-race).
const c13RaceBuild = true
