package props

// C04 — expressions group by the POSIX precedence and associativity table.
//
// Monitor: for an expression tree T built by the harness (package exprgen), the real parser is
// run on min(T) (only the parentheses the table requires) and on full(T) (every operand
// parenthesised), in several syntactic contexts; both parsed trees must equal the tree the
// harness built (grouping nodes ignored).

import (
	"encoding/json"
	"fmt"
	"math/rand"
	"strings"

	"verifharness/astx"
	"verifharness/core"
	x "verifharness/exprgen"
	"verifharness/run"
)

type c04Op struct {
	name  string
	arity int
	lval  []bool // which child positions must be lvalues
	build func(k []*x.E) *x.E
	inner []bool // child positions that are syntactically protected (brackets / call parens)
}

func c04Ops() []c04Op {
	var ops []c04Op
	bin := func(op string) {
		ops = append(ops, c04Op{name: "bin" + op, arity: 2, build: func(k []*x.E) *x.E { return x.Bin(op, k[0], k[1]) }})
	}
	for _, op := range []string{"=", "+=", "^="} {
		op := op
		ops = append(ops, c04Op{name: "assign" + op, arity: 2, lval: []bool{true, false}, build: func(k []*x.E) *x.E { return x.Assign(op, k[0], k[1]) }})
	}
	ops = append(ops, c04Op{name: "cond", arity: 3, build: func(k []*x.E) *x.E { return x.Cond(k[0], k[1], k[2]) }})
	for _, op := range []string{"||", "&&"} {
		bin(op)
	}
	ops = append(ops, c04Op{name: "in", arity: 1, build: func(k []*x.E) *x.E { return x.In("A", k[0]) }})
	ops = append(ops, c04Op{name: "in2", arity: 2, inner: []bool{true, true}, build: func(k []*x.E) *x.E { return x.In("A", k[0], k[1]) }})
	for _, op := range []string{"~", "!~", "<", "<=", "!=", "==", ">", ">=", "cat", "+", "-", "*", "/", "%", "^"} {
		bin(op)
	}
	for _, op := range []string{"+", "-", "!"} {
		op := op
		ops = append(ops, c04Op{name: "unary" + op, arity: 1, build: func(k []*x.E) *x.E { return x.Unary(op, k[0]) }})
	}
	for _, op := range []string{"++", "--"} {
		op := op
		ops = append(ops, c04Op{name: "pre" + op, arity: 1, lval: []bool{true}, build: func(k []*x.E) *x.E { return x.Incr(op, true, k[0]) }})
		ops = append(ops, c04Op{name: "post" + op, arity: 1, lval: []bool{true}, build: func(k []*x.E) *x.E { return x.Incr(op, false, k[0]) }})
	}
	ops = append(ops, c04Op{name: "field", arity: 1, build: func(k []*x.E) *x.E { return x.Field(k[0]) }})
	ops = append(ops, c04Op{name: "index", arity: 1, inner: []bool{true}, build: func(k []*x.E) *x.E { return x.Index("B", k[0]) }})
	ops = append(ops, c04Op{name: "call", arity: 1, inner: []bool{true}, build: func(k []*x.E) *x.E { return x.Call("length", k[0]) }})
	ops = append(ops, c04Op{name: "call2", arity: 2, inner: []bool{true, true}, build: func(k []*x.E) *x.E { return x.Call("substr", k[0], k[1]) }})
	ops = append(ops, c04Op{name: "ucall", arity: 1, inner: []bool{true}, build: func(k []*x.E) *x.E { return x.User("f", k[0]) }})
	ops = append(ops, c04Op{name: "group", arity: 1, inner: []bool{true}, build: func(k []*x.E) *x.E { return x.Group(k[0]) }})
	return ops
}

func (o c04Op) needsLval(pos int) bool { return o.lval != nil && o.lval[pos] }
func (o c04Op) isLvalOp() bool         { return o.name == "field" || o.name == "index" }

var c04LeafNames = []string{"x", "y", "z", "u", "v", "w", "p", "q", "r"}

type leafSrc struct{ n int }

func (l *leafSrc) next() *x.E {
	e := x.Var(c04LeafNames[l.n%len(c04LeafNames)])
	l.n++
	return e
}

func (o c04Op) leaves(l *leafSrc) []*x.E {
	k := make([]*x.E, o.arity)
	for i := range k {
		k[i] = l.next()
	}
	return k
}

// Contexts in which an expression is placed.
var c04Contexts = []string{"stmt", "print", "print>", "print|", "pattern", "if", "while", "subscript", "arg"}

const c04Prelude = "function f(a) { return a }\n"

// c04Source wraps expression text into a program for the context; exp is the expected canonical
// dump of the statement / pattern that carries it.
func c04Source(ctxName, text, dump string) (src, exp string) {
	switch ctxName {
	case "stmt":
		return c04Prelude + "BEGIN { " + text + " }\n", "{(expr " + dump + ")}"
	case "print":
		return c04Prelude + "BEGIN { print " + text + " }\n", "{(print [" + dump + "])}"
	case "print>":
		return c04Prelude + "BEGIN { print " + text + " > \"f\" }\n", "{(print [" + dump + "] > (str \"f\"))}"
	case "print|":
		return c04Prelude + "BEGIN { printf " + text + " | \"c\" }\n", "{(printf [" + dump + "] | (str \"c\"))}"
	case "pattern":
		return c04Prelude + text + " { t }\n", "PATTERN " + dump
	case "if":
		return c04Prelude + "BEGIN { if (" + text + ") t }\n", "{(if " + dump + " {(expr (var t))})}"
	case "while":
		return c04Prelude + "BEGIN { while (" + text + ") t }\n", "{(while " + dump + " {(expr (var t))})}"
	case "subscript":
		return c04Prelude + "BEGIN { t = C[" + text + "] }\n", "{(expr (= (var t) (index C [" + dump + "])))}"
	case "arg":
		return c04Prelude + "BEGIN { t = f(" + text + ") }\n", "{(expr (= (var t) (ucall f [" + dump + "])))}"
	}
	panic("bad context")
}

type c04Case struct {
	Desc    string `json:"desc"`
	Context string `json:"context"`
	Min     string `json:"min"`
	Full    string `json:"full"`
	Want    string `json:"want"`
}

// c04Parsed returns the canonical dump of the part of the program that carries the expression.
func c04Parsed(ctxName, src string) (string, error, string) {
	prog, err, pm := run.Parse(src, nil)
	if pm != "" {
		return "", nil, pm
	}
	if err != nil {
		return "", err, ""
	}
	tree := astx.Tree(prog)
	o := astx.DumpOpts{SkipGrouping: true}
	if ctxName == "pattern" {
		if len(tree.Actions) != 1 || len(tree.Actions[0].Pattern) != 1 {
			return fmt.Sprintf("PATTERN-SHAPE actions=%d", len(tree.Actions)), nil, ""
		}
		return "PATTERN " + astx.DumpExpr(tree.Actions[0].Pattern[0], o), nil, ""
	}
	if len(tree.Begin) != 1 {
		return "BEGIN-SHAPE", nil, ""
	}
	return astx.DumpStmts(tree.Begin[0], o), nil, ""
}

func c04Check(c *core.Ctx, desc string, e *x.E, ctxName string) {
	cx := x.Ctx{Print: strings.HasPrefix(ctxName, "print")}
	protected := ctxName == "if" || ctxName == "while" || ctxName == "subscript" || ctxName == "arg"
	if protected {
		cx = x.Ctx{}
	}
	minText, fullText, dump := x.Min(e, cx), x.Full(e, cx), x.Dump(e)
	minSrc, want := c04Source(ctxName, minText, dump)
	fullSrc, _ := c04Source(ctxName, fullText, dump)
	cs := c04Case{Desc: desc, Context: ctxName, Min: minSrc, Full: fullSrc, Want: want}
	c.Begin(cs)
	c.Eval(2)
	gotFull, errFull, pm := c04Parsed(ctxName, fullSrc)
	if pm != "" {
		c.Violation("parse-panic", "", "parser panicked on "+core.Q(fullSrc), "", pm, cs)
		return
	}
	if errFull != nil {
		// The fully parenthesised form is not accepted: a language restriction that is not
		// about grouping (or a generator slip) — not a case for this property.
		c.Count("skipped_full_rejected", 1)
		c.Cover("full_rejected_shapes", desc)
		return
	}
	if gotFull != want {
		c.Violation("full-tree", "", fmt.Sprintf("[%s] fully parenthesised %s parsed to a different tree", ctxName, core.Q(fullText)), want, gotFull, cs)
		return
	}
	gotMin, errMin, pm := c04Parsed(ctxName, minSrc)
	if pm != "" {
		c.Violation("parse-panic", "", "parser panicked on "+core.Q(minSrc), "", pm, cs)
		return
	}
	if errMin != nil {
		c.Violation("min-rejected", c04Class(e, ctxName), fmt.Sprintf("[%s] %s is rejected (%v) although %s is accepted", ctxName, core.Q(minText), errMin, core.Q(fullText)), want, errMin.Error(), cs)
		return
	}
	if gotMin != want {
		c.Violation("grouping", c04Class(e, ctxName), fmt.Sprintf("[%s] %s groups differently from %s", ctxName, core.Q(minText), core.Q(fullText)), want, gotMin, cs)
		return
	}
	if n := x.DroppedParens(e, cx); n > 0 {
		c.NonTrivial(ctxName + "|" + minText)
		c.Count("parens_dropped", n)
	}
	if c.WantSample() && len(minText) > 12 {
		c.Sample(map[string]any{"context": ctxName, "min": minText, "full": fullText, "tree": dump})
	}
}

// c04Class gives a narrow classifier: the top operator, the context and whether ?: in a print
// context with a redirection is involved (the one defect known at design time).
func c04Class(e *x.E, ctxName string) string {
	top := fmt.Sprintf("k%d%s", e.K, e.Op)
	return ctxName + ":" + top
}

func c04Pairs(ops []c04Op, visit func(desc string, e *x.E)) {
	for _, o1 := range ops {
		for p1 := 0; p1 < o1.arity; p1++ {
			for _, o2 := range ops {
				if o1.needsLval(p1) && !o2.isLvalOp() {
					continue
				}
				l := &leafSrc{}
				k1 := o1.leaves(l)
				k1[p1] = o2.build(o2.leaves(l))
				visit(fmt.Sprintf("%s[%d]<-%s", o1.name, p1, o2.name), o1.build(k1))
			}
		}
	}
}

// c04Triples enumerates chains o1[p1]<-o2[p2]<-o3 and siblings o1(o2, o3).
func c04Triples(ops []c04Op, visit func(i int, desc string, e *x.E)) {
	i := 0
	for _, o1 := range ops {
		for p1 := 0; p1 < o1.arity; p1++ {
			for _, o2 := range ops {
				if o1.needsLval(p1) && !o2.isLvalOp() {
					continue
				}
				for p2 := 0; p2 < o2.arity; p2++ {
					for _, o3 := range ops {
						if o2.needsLval(p2) && !o3.isLvalOp() {
							continue
						}
						l := &leafSrc{}
						k1 := o1.leaves(l)
						k2 := o2.leaves(l)
						k2[p2] = o3.build(o3.leaves(l))
						k1[p1] = o2.build(k2)
						visit(i, fmt.Sprintf("%s[%d]<-%s[%d]<-%s", o1.name, p1, o2.name, p2, o3.name), o1.build(k1))
						i++
					}
				}
			}
		}
		if o1.arity >= 2 {
			for _, o2 := range ops {
				if o1.needsLval(0) && !o2.isLvalOp() {
					continue
				}
				for _, o3 := range ops {
					l := &leafSrc{}
					k1 := o1.leaves(l)
					k1[0] = o2.build(o2.leaves(l))
					k1[o1.arity-1] = o3.build(o3.leaves(l))
					visit(i, fmt.Sprintf("%s(%s,%s)", o1.name, o2.name, o3.name), o1.build(k1))
					i++
				}
			}
		}
	}
}

func c04Random(rng *rand.Rand, ops []c04Op, depth int, needLval bool) *x.E {
	if needLval {
		switch rng.Intn(3) {
		case 0:
			return x.Var(c04LeafNames[rng.Intn(len(c04LeafNames))])
		case 1:
			return x.Index("B", c04Random(rng, ops, depth-1, false))
		default:
			return x.Field(c04Random(rng, ops, depth-1, false))
		}
	}
	if depth <= 0 || rng.Intn(6) == 0 {
		switch rng.Intn(8) {
		case 0:
			return x.Num(float64(rng.Intn(10)))
		case 1:
			return x.Str([]string{"s", "", "a b", "1"}[rng.Intn(4)])
		case 2:
			return x.Num(1.5)
		default:
			return x.Var(c04LeafNames[rng.Intn(len(c04LeafNames))])
		}
	}
	if rng.Intn(40) == 0 {
		// regex forms
		if rng.Intn(2) == 0 {
			return x.Bin([]string{"~", "!~"}[rng.Intn(2)], c04Random(rng, ops, depth-1, false), x.Regex("a+b"))
		}
		return x.Regex("re")
	}
	o := ops[rng.Intn(len(ops))]
	k := make([]*x.E, o.arity)
	for i := range k {
		k[i] = c04Random(rng, ops, depth-1, o.needsLval(i))
	}
	return o.build(k)
}

// getline forms: `expr | getline` binds looser than concatenation.
func c04GetlineCases(visit func(desc string, e *x.E)) {
	cmds := map[string]*x.E{
		"str":     x.Str("c"),
		"var":     x.Var("x"),
		"cat2":    x.Bin("cat", x.Str("c"), x.Var("x")),
		"cat3":    x.Bin("cat", x.Bin("cat", x.Str("c"), x.Var("x")), x.Str("d")),
		"catadd":  x.Bin("cat", x.Str("c"), x.Bin("+", x.Var("x"), x.Num(1))),
		"add":     x.Bin("+", x.Var("x"), x.Num(1)),
		"field":   x.Field(x.Num(1)),
		"catfld":  x.Bin("cat", x.Field(x.Num(1)), x.Field(x.Num(2))),
		"index":   x.Index("B", x.Num(1)),
		"call":    x.Call("substr", x.Var("x"), x.Num(2)),
		"catcall": x.Bin("cat", x.Str("c "), x.Call("length", x.Var("x"))),
	}
	targets := map[string]*x.E{"none": nil, "var": x.Var("y"), "field": x.Field(x.Num(2)), "index": x.Index("B", x.Var("z"))}
	for cn, cmd := range cmds {
		for tn, tgt := range targets {
			visit("getline-cmd-"+cn+"-"+tn, x.Getline(cmd, tgt, nil))
		}
	}
	files := map[string]*x.E{"str": x.Str("f"), "var": x.Var("x"), "cat": x.Bin("cat", x.Str("d/"), x.Var("x")), "field": x.Field(x.Num(1)), "group": x.Group(x.Bin("cat", x.Str("d/"), x.Var("x")))}
	for fn, file := range files {
		for tn, tgt := range targets {
			visit("getline-file-"+fn+"-"+tn, x.Getline(nil, tgt, file))
		}
	}
	for tn, tgt := range targets {
		visit("getline-plain-"+tn, x.Getline(nil, tgt, nil))
	}
}

// c04GroupedThenIncr: (operand) ++y and (operand) --y for every kind of primary operand.
func c04GroupedThenIncr(visit func(desc string, e *x.E, raw string)) {
	prim := map[string]*x.E{
		"var": x.Var("x"), "index": x.Index("B", x.Num(1)), "index2": x.Index("B", x.Var("x"), x.Num(2)), "field": x.Field(x.Num(1)), "fieldvar": x.Field(x.Var("x")),
		"num": x.Num(3), "str": x.Str("s"), "call": x.Call("length", x.Var("x")), "user": x.User("f", x.Var("x")), "group": x.Group(x.Index("B", x.Num(1))),
	}
	for pn, p := range prim {
		for _, op := range []string{"++", "--"} {
			for tn, tgt := range map[string]*x.E{"var": x.Var("y"), "index": x.Index("B", x.Var("z")), "field": x.Field(x.Num(2))} {
				raw := x.Min(x.Group(p), x.Ctx{}) + " " + op + x.Min(tgt, x.Ctx{})
				visit("grouped-"+pn+op+"pre-"+tn, x.Bin("cat", x.Group(p), x.Incr(op, true, tgt)), raw)
				visit("grouped-"+pn+op+"pre-"+tn+"-then", x.Bin("cat", x.Bin("cat", x.Group(p), x.Incr(op, true, tgt)), x.Var("w")), raw+" w")
			}
		}
	}
}

func init() {
	n := func(t core.Tier, q, th int) int {
		if t == core.Thorough {
			return th
		}
		return q
	}
	core.Register(&core.Property{
		ID:    "C04",
		Level: "exploration",
		Rule: "expression trees over the full operator set (3 assignments, ?:, ||, &&, in (1- and 2-dim), ~ !~, 6 relational, concatenation, + -, * / %, unary + - !, ^, pre/post ++ --, $, " +
			"subscript, builtin and user calls, grouping, getline forms): EVERY ordered operator pair in every nesting position, operator triples (chains and siblings; a seeded sample in quick, all in " +
			"thorough) and random trees to depth 7, each in 9 contexts (statement, print, print > file, printf | cmd, pattern, if, while, subscript, call argument); the real parser is run on the " +
			"minimally and the fully parenthesised spelling and both trees are compared with the tree the harness built; non-trivial = distinct (context, minimal spelling) that dropped >= 1 pair of parentheses",
		Explanation: "exhaustive applies to the operator-pair sub-space (every ordered pair x position x context) in both tiers and to the triple sub-space in the thorough tier only",
		Exhaustive:  func(t core.Tier) bool { return true },
		Assumptions: []string{
			"the POSIX table as restated in exprgen (levels and associativity from the property text) is the specification",
			"non-table grammar cases keep their parentheses and are never tested bare: right operand of concatenation starting with + - ++ --, operand of $ unless primary, unary under ^, assignment inside ?: branches, regex literal next to / or as a concatenation operand, getline forms as operands, file operand of getline < unless primary",
		},
		NBatches: func(t core.Tier) int { return n(t, 16, 32) },
		Floors: func(t core.Tier) map[string]int {
			return map[string]int{"evaluations": n(t, 100000, 2000000), "distinct_nontrivial": n(t, 20000, 400000), "operator_pairs": 1500, "contexts": 9}
		},
		Run: func(c *core.Ctx) {
			ops := c04Ops()
			idx := 0
			all := func(desc string, e *x.E) {
				for _, cxn := range c04Contexts {
					if c.Mine(idx) {
						c04Check(c, desc, e, cxn)
						c.Cover("contexts", cxn)
					}
					idx++
				}
			}
			c04Pairs(ops, func(desc string, e *x.E) {
				c.Cover("operator_pairs", desc)
				all("pair:"+desc, e)
			})
			c04GetlineCases(func(desc string, e *x.E) {
				for _, cxn := range []string{"stmt", "if", "while", "pattern"} {
					if c.Mine(idx) {
						c04Check(c, desc, e, cxn)
						c.Cover("getline_forms", desc+"|"+cxn)
					}
					idx++
				}
			})
			// an operand written in parentheses is not an lvalue: a following ++ / -- belongs to the next
			// operand of the concatenation (grouping yields a value, not a variable)
			c04GroupedThenIncr(func(desc string, e *x.E, raw string) {
				for _, cxn := range []string{"stmt", "if", "pattern", "subscript", "arg", "print"} {
					if c.Mine(idx) {
						c04Check(c, desc, e, cxn)
						c.Cover("grouped_then_incr", desc+"|"+cxn)
						// the spelling without the parentheses around the increment, as a programmer writes it
						src, want := c04Source(cxn, raw, x.Dump(e))
						cs := c04Case{Desc: "raw:" + desc, Context: cxn, Min: src, Want: want}
						c.Begin(cs)
						c.Eval(1)
						got, err, pm := c04Parsed(cxn, src)
						switch {
						case pm != "":
							c.Violation("parse-panic", "", "parser panicked on "+core.Q(raw)+": "+run.PanicSite(pm), want, pm, cs)
						case err != nil:
							c.Violation("min-rejected", "grouped-then-incr", fmt.Sprintf("[%s] %s is rejected (%v)", cxn, core.Q(raw), err), want, err.Error(), cs)
						case got != want:
							c.Violation("grouping", "grouped-then-incr", fmt.Sprintf("[%s] %s: the increment was attached to the parenthesised operand", cxn, core.Q(raw)), want, got, cs)
						default:
							c.NonTrivial("raw|" + cxn + "|" + raw)
							c.Count("grouped_then_incr_raw", 1)
						}
					}
					idx++
				}
			})
			// "relational non-assoc" (and ~ !~): a chain written without parentheses has no grouping
			// the table prescribes; it must be rejected, never silently grouped one way
			rel := []string{"<", "<=", "==", "!=", ">", ">="}
			for _, lvl := range [][]string{rel, {"~", "!~"}} {
				for _, o1 := range lvl {
					for _, o2 := range lvl {
						for _, cxn := range []string{"stmt", "if", "while", "pattern", "subscript", "arg"} {
							if c.Mine(idx) {
								text := "x " + o1 + " y " + o2 + " z"
								src, _ := c04Source(cxn, text, "")
								cs := c04Case{Desc: "chain:" + o1 + " " + o2, Context: cxn, Min: src, Want: "rejected"}
								c.Begin(cs)
								c.Eval(1)
								c.Count("nonassoc_chains", 1)
								got, err, pm := c04Parsed(cxn, src)
								if pm != "" {
									c.Violation("parse-panic", "", "parser panicked on "+core.Q(text)+": "+run.PanicSite(pm), "a parse error", pm, cs)
								} else if err == nil {
									c.Violation("nonassoc-chain-accepted", "", fmt.Sprintf("[%s] the non-associative chain %s is accepted and grouped as %s", cxn, core.Q(text), got), "a parse error", got, cs)
								} else {
									c.NonTrivial("chain|" + cxn + "|" + text)
								}
							}
							idx++
						}
					}
				}
			}
			// triples: all in thorough, a seeded 1-in-12 sample in quick
			pick := c.RandGlobal("triples")
			stride := n(c.Tier, 12, 1)
			offset := pick.Intn(stride)
			c04Triples(ops, func(i int, desc string, e *x.E) {
				if i%stride != offset {
					return
				}
				cxn := c04Contexts[(i/stride)%len(c04Contexts)]
				if c.Tier == core.Thorough {
					for _, cn := range c04Contexts {
						if c.Mine(idx) {
							c04Check(c, "triple:"+desc, e, cn)
						}
						idx++
					}
					c.Count("triples", 1)
					return
				}
				if c.Mine(idx) {
					c04Check(c, "triple:"+desc, e, cxn)
					c.Count("triples", 1)
				}
				idx++
			})
			// random deeper trees
			rng := c.Rand("random")
			total := n(c.Tier, 40000, 600000) / c.NBatches
			for i := 0; i < total; i++ {
				e := c04Random(rng, ops, 2+rng.Intn(6), false)
				c04Check(c, "random", e, c04Contexts[rng.Intn(len(c04Contexts))])
				c.Count("random_trees", 1)
			}
		},
		Replay: func(c *core.Ctx, raw json.RawMessage) {
			var cs c04Case
			if json.Unmarshal(raw, &cs) != nil {
				return
			}
			if cs.Want == "rejected" {
				got, err, pm := c04Parsed(cs.Context, cs.Min)
				fmt.Printf("chain: %s\n  got %s err=%v %s\n", core.Q(cs.Min), got, err, pm)
				if pm == "" && err == nil {
					c.Violation("nonassoc-chain-accepted", "", "the non-associative chain is accepted", "a parse error", got, cs)
				}
				return
			}
			for _, v := range []struct{ name, src string }{{"full", cs.Full}, {"min", cs.Min}} {
				got, err, pm := c04Parsed(cs.Context, v.src)
				fmt.Printf("%s: %s\n  want %s\n  got  %s err=%v %s\n", v.name, core.Q(v.src), cs.Want, got, err, pm)
				if pm != "" || (err == nil && got != cs.Want) || (err != nil && v.name == "min") {
					c.Violation("grouping", "", v.name+" spelling does not parse to the intended tree", cs.Want, got+fmt.Sprint(err), cs)
				}
			}
		},
	})
}
