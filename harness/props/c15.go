package props

// C15 — cancellation stops execution promptly and is otherwise invisible.
//
// Monitors (all run the real interpreter, see DESIGN.md section 4, C15):
//
//	diff     ExecuteContext with a context that never fires must equal Execute
//	script   the K-th tick() (or cancel()) of the script fires the context; the dispatch-step
//	         hook measures the work done afterwards
//	pre      the context is already cancelled / past its deadline when the call starts
//	timer    a real timer fires during a never-ending program; a per-step observer notes the
//	         first step at which the context is seen expired
//	blocked  the program waits for a child that never exits (`vsh block`); the harness fires the
//	         context once the child has been seen to start; the call must return
//	reuse    after a cancelled run, the same Interpreter runs the program again uncancelled
//
// Verdict after a fired context (s = dispatch steps after the cancellation point):
// s <= B, and either the returned error is the context's error, or the error is nil and the
// program really reached its end (same output and status as the uncancelled run); every line
// whose print statement completed has been delivered.

import (
	"bufio"
	"context"
	"encoding/json"
	"errors"
	"fmt"
	"math/rand"
	"os"
	"path/filepath"
	"regexp"
	"strconv"
	"strings"
	"sync"
	"syscall"
	"time"

	"github.com/benhoyt/goawk/interp"
	"github.com/benhoyt/goawk/parser"

	"verifharness/core"
	"verifharness/corpus"
	"verifharness/run"
)

const (
	c15B           = 1000 + 100 // bound on dispatch steps after the cancellation point
	c15Overrun     = 30 * c15B  // steps granted after the cancellation point before the run is cut off
	c15Budget      = 8_000_000  // step budget of a run (the largest template needs < 3M)
	c15TimerBudget = 2_000_000_000
)

// c15Watchdog bounds a blocked wait. The child blocks forever by construction, so this is
// not a tuned deadline (DESIGN 2.3); VERIF_C15_WATCHDOG_MS shortens it for development only.
func c15Watchdog() time.Duration {
	if s := os.Getenv("VERIF_C15_WATCHDOG_MS"); s != "" {
		if n, err := strconv.Atoi(s); err == nil && n > 0 {
			return time.Duration(n) * time.Millisecond
		}
	}
	return 60 * time.Second
}

// ---- the case ----------------------------------------------------------------------------

type c15Case struct {
	Family    string `json:"family"` // diff | script | pre | timer | blocked
	Construct string `json:"construct"`
	Src       string `json:"src"` // %OUT% %IN% %MARK% are replaced by scratch paths at run time
	NRec      int    `json:"nrec,omitempty"`
	NIn       int    `json:"nin,omitempty"`
	Dest      string `json:"dest,omitempty"` // "stdout" | "file": where the L<i> lines go
	Ctx       string `json:"ctx"`            // context kind, see c15MakeCtx
	K         int    `json:"k,omitempty"`    // fire at the K-th tick()
	TimeoutUS int    `json:"timeout_us,omitempty"`
	Mode      string `json:"mode,omitempty"`     // blocked: async | scripted | pre
	Reuse     string `json:"reuse,omitempty"`    // "" | "execute" | "context": second run on the same Interpreter
	Buffered  bool   `json:"buffered,omitempty"` // Config.Output is a bufio.Writer (goawk flushes it at the end of the call)
	Sandbox   bool   `json:"sandbox,omitempty"`  // diff over corpus programs: NoExec/NoFileWrites/NoFileReads
	Stdin     string `json:"stdin,omitempty"`    // diff over corpus programs
}

// ---- contexts ----------------------------------------------------------------------------

// c15Manual is a context the harness fires by hand, with a chosen error: it lets a "deadline"
// expire at an exact program point.
type c15Manual struct {
	done chan struct{}
	err  error // set before done is closed
	why  error
}

func (m *c15Manual) Deadline() (time.Time, bool) { return time.Time{}, false }
func (m *c15Manual) Done() <-chan struct{}       { return m.done }
func (m *c15Manual) Value(any) any               { return nil }
func (m *c15Manual) Err() error {
	select {
	case <-m.done:
		return m.err
	default:
		return nil
	}
}
func (m *c15Manual) fire() {
	select {
	case <-m.done:
	default:
		m.err = m.why
		close(m.done)
	}
}

type c15CtxKey struct{}

type c15Ctx struct {
	ctx     context.Context
	fire    func() // makes the context done (no-op for the kinds that are never fired)
	cleanup func()
	pre     bool // done before the call starts
}

var (
	c15NeverKinds = []string{"background", "todo", "cancel", "deadline-far", "value-only", "manual-deadline", "cancel-parent"}
	c15FireKinds  = []string{"cancel", "cancel-parent", "cancel-value", "cancel-cause", "manual-deadline", "manual-canceled", "deadline-far"}
	c15PreKinds   = []string{"pre-cancelled", "pre-expired", "pre-timeout0", "pre-manual-deadline", "pre-cancelled-parent"}
)

func c15MakeCtx(kind string, timeout time.Duration) c15Ctx {
	bg := context.Background()
	switch kind {
	case "background":
		return c15Ctx{ctx: bg, fire: func() {}, cleanup: func() {}}
	case "todo":
		return c15Ctx{ctx: context.TODO(), fire: func() {}, cleanup: func() {}}
	case "value-only": // Done() is a nil channel
		return c15Ctx{ctx: context.WithValue(bg, c15CtxKey{}, 1), fire: func() {}, cleanup: func() {}}
	case "cancel", "pre-cancelled":
		ctx, cancel := context.WithCancel(bg)
		if kind == "pre-cancelled" {
			cancel()
		}
		return c15Ctx{ctx: ctx, fire: cancel, cleanup: cancel, pre: kind == "pre-cancelled"}
	case "cancel-parent", "pre-cancelled-parent": // the parent is cancelled, the child carries a far deadline
		parent, cancel := context.WithCancel(bg)
		ctx, cancel2 := context.WithTimeout(parent, time.Hour)
		if kind == "pre-cancelled-parent" {
			cancel()
		}
		return c15Ctx{ctx: ctx, fire: cancel, cleanup: func() { cancel2(); cancel() }, pre: kind == "pre-cancelled-parent"}
	case "cancel-value":
		parent, cancel := context.WithCancel(bg)
		return c15Ctx{ctx: context.WithValue(parent, c15CtxKey{}, 2), fire: cancel, cleanup: cancel}
	case "cancel-cause":
		ctx, cancel := context.WithCancelCause(bg)
		return c15Ctx{ctx: ctx, fire: func() { cancel(errors.New("harness cause")) }, cleanup: func() { cancel(nil) }}
	case "deadline-far": // a real deadline context, fired through its cancel function
		ctx, cancel := context.WithDeadline(bg, time.Now().Add(time.Hour))
		return c15Ctx{ctx: ctx, fire: cancel, cleanup: cancel}
	case "manual-deadline", "pre-manual-deadline":
		m := &c15Manual{done: make(chan struct{}), why: context.DeadlineExceeded}
		if kind == "pre-manual-deadline" {
			m.fire()
		}
		return c15Ctx{ctx: m, fire: m.fire, cleanup: func() {}, pre: kind == "pre-manual-deadline"}
	case "manual-canceled":
		m := &c15Manual{done: make(chan struct{}), why: context.Canceled}
		return c15Ctx{ctx: m, fire: m.fire, cleanup: func() {}}
	case "pre-expired":
		ctx, cancel := context.WithDeadline(bg, time.Unix(1, 0))
		return c15Ctx{ctx: ctx, fire: func() {}, cleanup: cancel, pre: true}
	case "pre-timeout0":
		ctx, cancel := context.WithTimeout(bg, 0)
		return c15Ctx{ctx: ctx, fire: func() {}, cleanup: cancel, pre: true}
	case "timeout-real":
		ctx, cancel := context.WithTimeout(bg, timeout)
		return c15Ctx{ctx: ctx, fire: func() {}, cleanup: cancel}
	}
	panic("c15: unknown context kind " + kind)
}

// ---- probe: what the native functions record ---------------------------------------------------

type c15Probe struct {
	ip    *interp.Interpreter
	k     int    // fire at the k-th tick() (0 = never)
	fire  func() // nil in runs without a context
	ticks int
	marks int

	fired       bool
	stepsAtFire uint64
	marksAtFire int

	preSeen    bool
	stepsAtPre uint64
	marksAtPre int
	postSeen   bool
}

// doFire is the cancellation point: it notes the step counter, then cancels. From here on the
// run may use at most c15Overrun further steps (a monitor that waited for a run that never
// stops would learn nothing more).
func (p *c15Probe) doFire() {
	if p.fired || p.fire == nil {
		return
	}
	p.fired = true
	p.stepsAtFire = p.ip.VerifSteps()
	p.marksAtFire = p.marks
	p.ip.VerifSetStepLimit(p.stepsAtFire + c15Overrun)
	p.fire()
}

// c15Env binds the native functions of one parsed program to the probe of the current run.
type c15Env struct{ p *c15Probe }

func (e *c15Env) funcs() map[string]any {
	return map[string]any{
		"tick": func() int {
			p := e.p
			p.ticks++
			if p.ticks == p.k {
				p.doFire()
			}
			return p.ticks
		},
		"cancel": func() { e.p.doFire() },
		"mark": func() int {
			e.p.marks++
			return e.p.marks
		},
		"pre": func() int {
			p := e.p
			if !p.preSeen {
				p.preSeen = true
				p.stepsAtPre = p.ip.VerifSteps()
				p.marksAtPre = p.marks
				if p.k == 0 {
					// the harness cancels during the wait that follows: from here on the
					// run may use at most c15Overrun further steps
					p.ip.VerifSetStepLimit(p.stepsAtPre + c15Overrun)
				}
			}
			return 1
		},
		"post": func() int {
			e.p.postSeen = true
			return 1
		},
	}
}

// ---- one execution ---------------------------------------------------------------------------

// c15Sink is the Config.Output / Config.Error of every run: a locked byte sink WITHOUT a
// ReadFrom method. os/exec copies a child's stdout/stderr into these writers from its own
// goroutine while the interpreter writes to them too (the defect C13 owns); a bytes.Buffer
// there loses data (its ReadFrom truncates to the length seen before the blocking read),
// which has nothing to do with cancellation.
type c15Sink struct {
	mu  sync.Mutex
	buf []byte
}

func (s *c15Sink) Write(b []byte) (int, error) {
	s.mu.Lock()
	s.buf = append(s.buf, b...)
	s.mu.Unlock()
	return len(b), nil
}

func (s *c15Sink) String() string {
	s.mu.Lock()
	defer s.mu.Unlock()
	return string(s.buf)
}

// c15Config builds the execution config of a run and returns the sinks to read afterwards.
func (ld *c15Loaded) config(buffered bool) (*interp.Config, func(o *run.Outcome)) {
	stdout, stderr := &c15Sink{}, &c15Sink{}
	cfg := &interp.Config{
		Stdin:        strings.NewReader(ld.stdin),
		Output:       stdout,
		Error:        stderr,
		Funcs:        ld.env.funcs(),
		ShellCommand: []string{filepath.Join(core.BuildDir, "vsh")},
		NoExec:       ld.cs.Sandbox,
		NoFileWrites: ld.cs.Sandbox,
		NoFileReads:  ld.cs.Sandbox,
	}
	if buffered {
		// as the goawk command does: goawk must flush this writer before the call returns
		cfg.Output = bufio.NewWriterSize(stdout, 64*1024)
	}
	return cfg, func(o *run.Outcome) { o.Stdout, o.Stderr = stdout.String(), stderr.String() }
}

// c15Paths are the scratch files of a case.
type c15Paths struct{ out, in, mark string }

func c15PathsIn(dir string) c15Paths {
	return c15Paths{out: filepath.Join(dir, "out.txt"), in: filepath.Join(dir, "in.txt"), mark: filepath.Join(dir, "started")}
}

// c15HoldMS is the sleep time of this process's detached holders (vsh spawnhold); it doubles as
// their tag, so that a batch process kills only its own (batches run side by side).
func c15HoldMS() string { return strconv.Itoa(70000 + os.Getpid()%20000) }

func (ps c15Paths) subst(src string) string {
	src = strings.ReplaceAll(src, "%HOLD%", c15HoldMS())
	return strings.NewReplacer("%OUT%", ps.out, "%IN%", ps.in, "%MARK%", ps.mark).Replace(src)
}

// c15Loaded is a parsed case ready to run.
type c15Loaded struct {
	fileOut int // runs whose standard output was a file of the caller
	cs    c15Case
	env   *c15Env
	prog  *parser.Program
	paths c15Paths
	stdin string
}

func c15Load(c *core.Ctx, cs c15Case) (*c15Loaded, string) {
	ld := &c15Loaded{cs: cs, env: &c15Env{}, paths: c15PathsIn(c.WorkDir())}
	prog, err, pm := run.Parse(ld.paths.subst(cs.Src), ld.env.funcs())
	if pm != "" {
		return nil, "parse panic: " + pm
	}
	if err != nil {
		return nil, "parse error: " + err.Error()
	}
	ld.prog = prog
	ld.stdin = cs.Stdin
	if cs.NRec > 0 {
		ld.stdin = c15Stdin(cs.NRec)
	}
	if cs.NIn > 0 {
		var sb strings.Builder
		for i := 1; i <= cs.NIn; i++ {
			fmt.Fprintf(&sb, "in%d\n", i)
		}
		if err := os.WriteFile(ld.paths.in, []byte(sb.String()), 0o644); err != nil {
			return nil, "write input file: " + err.Error()
		}
	}
	return ld, ""
}

// c15Obs is what one execution showed.
type c15Obs struct {
	out    run.Outcome
	file   string // contents of %OUT% after the run
	probe  c15Probe
	ctxErr error // ctx.Err() after the run (nil without context)
}

// lines returns the text that must consist of L<i> lines.
func (o *c15Obs) lines(dest string) string {
	if dest == "file" {
		return o.file
	}
	return o.out.Stdout
}

// sig is the full observable result used by the differential monitors.
func (o *c15Obs) sig() string {
	return fmt.Sprintf("%s err=%q stderr=%q file=%q", o.out.Sig(), o.out.Err, o.out.Stderr, o.file)
}

// exec runs the loaded program once. kind "" means Execute (no context). If armed, the k-th
// tick() or a cancel() fires the context; otherwise both only count. ip != nil reuses that
// interpreter.
func (ld *c15Loaded) exec(kind string, k int, armed, buffered bool, timeout time.Duration, ip *interp.Interpreter, budget uint64) (obs c15Obs, used *interp.Interpreter, cx c15Ctx) {
	_ = os.Remove(ld.paths.out)
	_ = os.Remove(ld.paths.mark)
	if ip == nil {
		var err error
		ip, err = interp.New(ld.prog)
		if err != nil {
			obs.out.Err = err.Error()
			return obs, nil, cx
		}
	}
	probe := &c15Probe{ip: ip, k: k}
	ld.env.p = probe
	cfg, collect := ld.config(buffered)
	opts := run.Opts{Interp: ip, StepLimit: budget}
	if kind != "" {
		cx = c15MakeCtx(kind, timeout)
		if armed {
			probe.fire = cx.fire
		}
		opts.Ctx = cx.ctx
		if cx.pre { // the cancellation point is the start of the call
			probe.fired = true
		}
		if kind == "timeout-real" {
			ctx := cx.ctx
			ip.VerifOnStep(func(steps uint64) {
				if !probe.fired && ctx.Err() != nil {
					probe.fired = true
					probe.stepsAtFire = steps
					probe.marksAtFire = probe.marks
					ip.VerifSetStepLimit(steps + c15Overrun)
				}
			})
			defer ip.VerifOnStep(nil)
		}
	}
	if cx.pre {
		budget = c15Overrun
		opts.StepLimit = budget
	}
	obs.out = run.Exec(ld.prog, cfg, opts)
	collect(&obs.out)
	if cx.ctx != nil {
		obs.ctxErr = cx.ctx.Err()
	}
	obs.probe = *probe
	if b, err := os.ReadFile(ld.paths.out); err == nil {
		obs.file = string(b)
	}
	return obs, ip, cx
}

// ---- judging a run whose context fired --------------------------------------------------------

type c15Ref struct {
	obs   c15Obs
	lines int // number of L<i> lines of the complete run
}

// c15JudgeStopped applies the verdict to a run whose context is done. from/marksBefore
// describe the cancellation point. ref is the uncancelled run (nil where none exists).
// It returns "ctx-error" or "natural-end" for the evidence, "" after a violation.
func c15JudgeStopped(c *core.Ctx, cs c15Case, obs *c15Obs, from uint64, marksBefore int, ref *c15Ref) string {
	class := cs.Construct
	if obs.out.Panic != "" {
		c.Violation("panic", class, "interpreter panicked: "+run.PanicSite(obs.out.Panic), "status or error", obs.out.Panic, cs)
		return ""
	}
	s := obs.out.Steps - from
	c15RecordS(c, s)
	if obs.out.StepLimit {
		c.Violation("steps-after-cancel", class, fmt.Sprintf("%s/%s: still running %d dispatch steps after the cancellation point (run cut off)", cs.Construct, cs.Ctx, s),
			fmt.Sprintf("return within %d steps", c15B), fmt.Sprintf("> %d steps", s-1), cs)
		return ""
	}
	if s > c15B {
		c.Violation("steps-after-cancel", class, fmt.Sprintf("%s/%s: %d dispatch steps after the cancellation point (cancelled at step %d, returned at step %d, err=%q)",
			cs.Construct, cs.Ctx, s, from, obs.out.Steps, obs.out.Err),
			fmt.Sprintf("<= %d", c15B), fmt.Sprint(s), cs)
		return ""
	}
	ended := "ctx-error"
	if obs.out.ErrVal != nil {
		if obs.ctxErr == nil || !errors.Is(obs.out.ErrVal, obs.ctxErr) {
			c.Violation("error-identity", class, fmt.Sprintf("%s/%s: returned error %q, the context's error is %v", cs.Construct, cs.Ctx, obs.out.Err, obs.ctxErr),
				fmt.Sprint(obs.ctxErr), obs.out.Err, cs)
			return ""
		}
		c.Cover("returned_errors", obs.out.Err)
	} else {
		ended = "natural-end"
	}
	// output: every line whose print completed must have been delivered, nothing else
	text := obs.lines(cs.Dest)
	m, ok := c15Lines(text)
	switch {
	case !ok:
		c.Violation("output-garbled", class, fmt.Sprintf("%s/%s: output is not the sequence L1..Lm (first %d lines are)", cs.Construct, cs.Ctx, m),
			fmt.Sprintf("L1..L%d", obs.probe.marks), c15Tail(text), cs)
		return ""
	case m < marksBefore:
		c.Violation("output-lost", class+":before-cancel", fmt.Sprintf("%s/%s: %d lines were printed before the cancellation point, %d delivered", cs.Construct, cs.Ctx, marksBefore, m),
			fmt.Sprintf(">= %d lines", marksBefore), fmt.Sprintf("%d lines, tail %s", m, c15Tail(text)), cs)
		return ""
	case m < obs.probe.marks-1:
		c.Violation("output-lost", class+":after-cancel", fmt.Sprintf("%s/%s: %d lines were printed before the call returned, %d delivered", cs.Construct, cs.Ctx, obs.probe.marks-1, m),
			fmt.Sprintf(">= %d lines", obs.probe.marks-1), fmt.Sprintf("%d lines", m), cs)
		return ""
	case m > obs.probe.marks:
		c.Violation("output-garbled", class, fmt.Sprintf("%s/%s: %d lines delivered but only %d were produced", cs.Construct, cs.Ctx, m, obs.probe.marks), "", "", cs)
		return ""
	}
	if cs.Dest == "file" && obs.out.Stdout != "" {
		c.Violation("output-garbled", class, "unexpected standard output: "+core.Q(obs.out.Stdout), "", "", cs)
		return ""
	}
	if ended == "natural-end" {
		// a nil error is acceptable only if the program really finished
		if ref != nil {
			if obs.lines(cs.Dest) != ref.obs.lines(cs.Dest) || obs.out.Status != ref.obs.out.Status {
				c.Violation("silent-stop", class, fmt.Sprintf("%s/%s: returned a nil error %d steps after the cancellation point without finishing the program (%d of %d lines, status %d vs %d)",
					cs.Construct, cs.Ctx, s, m, ref.lines, obs.out.Status, ref.obs.out.Status),
					"the context's error, or the complete run", fmt.Sprintf("nil error, %d lines", m), cs)
				return ""
			}
		} else if m != obs.probe.marks {
			c.Violation("output-lost", class+":natural-end", fmt.Sprintf("%s/%s: returned nil but line L%d was not delivered", cs.Construct, cs.Ctx, obs.probe.marks), "", "", cs)
			return ""
		}
	}
	return ended
}

func c15RecordS(c *core.Ctx, s uint64) {
	c.Max("s_max", int64(s))
	var b string
	switch {
	case s == 0:
		b = "s_hist_0"
	case s < 100:
		b = "s_hist_0001_0099"
	case s < 500:
		b = "s_hist_0100_0499"
	case s < 900:
		b = "s_hist_0500_0899"
	case s < 1000:
		b = "s_hist_0900_0999"
	case s == 1000:
		b = "s_hist_1000"
	case s <= c15B:
		b = "s_hist_1001_1100"
	default:
		b = "s_hist_over_bound"
	}
	c.Count(b, 1)
}

// ---- families ------------------------------------------------------------------------------

// c15Reference runs the program with Execute and no cancellation.
func c15Reference(c *core.Ctx, ld *c15Loaded) (*c15Ref, bool) {
	obs, _, _ := ld.exec("", 0, false, false, 0, nil, c15Budget)
	if obs.out.Panic != "" {
		c.Violation("panic", ld.cs.Construct, "Execute panicked: "+run.PanicSite(obs.out.Panic), "", obs.out.Panic, ld.cs)
		return nil, false
	}
	if obs.out.StepLimit {
		if ld.cs.Construct == "corpus" {
			c.Count("diff_skipped_step_budget", 1)
		} else {
			c.Inconclusive("reference run exceeded the step budget: " + ld.cs.Construct)
		}
		return nil, false
	}
	ref := &c15Ref{obs: obs}
	if ld.cs.Family != "diff" || ld.cs.Dest != "" {
		m, ok := c15Lines(obs.lines(ld.cs.Dest))
		if !ok || m != obs.probe.marks || obs.out.Err != "" {
			// a generator mistake, not an interpreter fault: never judge against it
			c.Inconclusive(fmt.Sprintf("template %s: uncancelled run is not L1..L%d (err=%q)", ld.cs.Construct, obs.probe.marks, obs.out.Err))
			return nil, false
		}
		ref.lines = m
	}
	return ref, true
}

// c15Diff: a context that never fires must be invisible.
func c15Diff(c *core.Ctx, ld *c15Loaded, ref *c15Ref, kind string) {
	cs := ld.cs
	cs.Family, cs.Ctx, cs.K = "diff", kind, 0
	c.Begin(cs)
	c.Eval(1)
	c.Count("diff_runs", 1)
	c.Cover("diff_ctx_kinds", kind)
	obs, ip, cx := ld.exec(kind, 0, false, ld.cs.Buffered, 0, nil, c15Budget)
	cx.cleanup()
	if c15WaitDelayArtefact(c, &obs) {
		return
	}
	if obs.sig() == ref.obs.sig() {
		if ref.obs.out.Steps > 0 {
			c.NonTrivial("diff|" + kind + "|" + cs.Src + "|" + strconv.Itoa(cs.NRec))
		}
		// The call is over and its context has now been cancelled (cleanup): nothing of it may
		// remain in the Interpreter. Execute on the same Interpreter must equal a fresh Execute.
		if ip != nil && cx.ctx != nil {
			c.Eval(1)
			c.Count("reuse_after_unfired_runs", 1)
			ip.ResetVars()
			ip.ResetRand()
			o3, _, _ := ld.exec("", 0, false, ld.cs.Buffered, 0, ip, c15Budget)
			if c15WaitDelayArtefact(c, &o3) {
				return
			}
			if o3.sig() != ref.obs.sig() {
				c.Violation("reuse-after-unfired-context", cs.Construct+":"+kind, fmt.Sprintf("after ExecuteContext returned (%s context, never fired during the call, cancelled afterwards), Execute on the same Interpreter differs from a fresh Execute", kind),
					core.Clip(ref.obs.sig(), 1500), core.Clip(o3.sig(), 1500), cs)
			}
		}
		return
	}
	// Programs from the corpus may be nondeterministic on their own (for-in order): judge
	// only if Execute agrees with itself and ExecuteContext keeps disagreeing.
	for i := 0; i < 3; i++ {
		again, _, _ := ld.exec("", 0, false, false, 0, nil, c15Budget)
		if again.sig() != ref.obs.sig() {
			c.Count("diff_skipped_nondeterministic", 1)
			return
		}
		o2, _, cx2 := ld.exec(kind, 0, false, ld.cs.Buffered, 0, nil, c15Budget)
		cx2.cleanup()
		if o2.sig() == ref.obs.sig() {
			c.Count("diff_skipped_nondeterministic", 1)
			return
		}
	}
	c.Violation("never-cancelled-differs", cs.Construct+":"+kind, fmt.Sprintf("ExecuteContext with a %s context that is never cancelled differs from Execute", kind),
		core.Clip(ref.obs.sig(), 1500), core.Clip(obs.sig(), 1500), cs)
}

// c15WaitDelayArtefact: goawk gives os/exec's copier of a child's output 250 ms (WaitDelay)
// after the child's exit; on an overloaded machine that expires (system() = -1, a message on
// the error stream). A wall-clock effect that has nothing to do with contexts: not judged.
func c15WaitDelayArtefact(c *core.Ctx, o *c15Obs) bool {
	if strings.Contains(o.out.Stderr, "WaitDelay expired") {
		c.Count("waitdelay_timing_artefacts_not_judged", 1)
		return true
	}
	return false
}

// c15Placement runs one cancelled execution of a template program and judges it.
func c15Placement(c *core.Ctx, ld *c15Loaded, ref *c15Ref, cs c15Case) {
	c.Begin(cs)
	c.Eval(1)
	c.Count("placements", 1)
	c.Count("placements_"+cs.Construct, 1)
	c.Cover("constructs", cs.Construct)
	c.Cover("ctx_kinds", cs.Ctx)
	obs, ip, cx := ld.exec(cs.Ctx, cs.K, true, cs.Buffered, 0, nil, c15Budget)
	defer cx.cleanup()
	if !obs.probe.fired {
		// the cancellation point was never reached: the context never fired, so (a) applies
		c.Count("not_reached", 1)
		if obs.sig() != ref.obs.sig() {
			c.Violation("never-cancelled-differs", cs.Construct+":"+cs.Ctx, "cancellation point not reached, yet the run differs from Execute",
				core.Clip(ref.obs.sig(), 1500), core.Clip(obs.sig(), 1500), cs)
		}
		return
	}
	ended := c15JudgeStopped(c, cs, &obs, obs.probe.stepsAtFire, obs.probe.marksAtFire, ref)
	if ended == "" {
		return
	}
	c.Count("ended_"+ended, 1)
	c.NonTrivial(strings.Join([]string{cs.Family, cs.Ctx, strconv.Itoa(cs.K), strconv.Itoa(cs.NRec), cs.Src}, "|"))
	if !cx.pre {
		c.Cover("cancel_phase", fmt.Sprintf("%d00-%d99", obs.probe.stepsAtFire%1000/100, obs.probe.stepsAtFire%1000/100))
	}
	if c.WantSample() && cs.K > 1 {
		c.Sample(map[string]any{"construct": cs.Construct, "ctx": cs.Ctx, "k": cs.K, "src": cs.Src, "nrec": cs.NRec,
			"cancelled_at_step": obs.probe.stepsAtFire, "returned_at_step": obs.out.Steps, "steps_after_cancel": obs.out.Steps - obs.probe.stepsAtFire,
			"error": obs.out.Err, "lines_before_cancel": obs.probe.marksAtFire, "lines_delivered": strings.Count(obs.lines(cs.Dest), "\n"), "lines_of_full_run": ref.lines})
	}
	// reuse: the same Interpreter, variables reset, must now behave like a fresh one under a
	// context that never fires (or under Execute)
	if cs.Reuse != "" && ip != nil {
		c.Eval(1)
		c.Count("reuse_runs", 1)
		ip.ResetVars()
		ip.ResetRand()
		kind := ""
		if cs.Reuse == "context" {
			kind = "cancel"
		}
		o2, _, cx2 := ld.exec(kind, 0, false, cs.Buffered, 0, ip, c15Budget)
		if cx2.cleanup != nil {
			cx2.cleanup()
		}
		if o2.sig() != ref.obs.sig() {
			c.Violation("reuse-after-cancel", cs.Construct+":"+cs.Reuse, fmt.Sprintf("after a cancelled run (%s), the same Interpreter run again (%s) differs from a fresh uncancelled run", cs.Ctx, cs.Reuse),
				core.Clip(ref.obs.sig(), 1500), core.Clip(o2.sig(), 1500), cs)
		}
	}
}

// c15Timer: a real timer expires while a never-ending program runs.
func c15Timer(c *core.Ctx, cs c15Case) {
	c.Begin(cs)
	c.Eval(1)
	ld, msg := c15Load(c, cs)
	if ld == nil {
		c.Inconclusive("timer template: " + msg)
		return
	}
	obs, _, cx := ld.exec("timeout-real", 0, false, cs.Buffered, time.Duration(cs.TimeoutUS)*time.Microsecond, nil, c15TimerBudget)
	defer cx.cleanup()
	c.Count("timer_cases", 1)
	c.Cover("constructs", cs.Construct)
	c.Cover("ctx_kinds", cs.Ctx)
	if !obs.probe.fired {
		if obs.out.StepLimit {
			c.Inconclusive("timer case used its whole step budget before the timer fired")
			return
		}
		// returned before the observer saw the context expired: only legitimate with the context's error at step granularity
		if obs.out.ErrVal != nil && obs.ctxErr != nil && errors.Is(obs.out.ErrVal, obs.ctxErr) {
			c.Count("timer_returned_at_expiry_step", 1)
			return
		}
		c.Violation("error-identity", cs.Construct, fmt.Sprintf("never-ending program returned %q before its context expired", obs.out.Err), "context deadline exceeded", obs.out.Err, cs)
		return
	}
	if ended := c15JudgeStopped(c, cs, &obs, obs.probe.stepsAtFire, obs.probe.marksAtFire, nil); ended != "" {
		if ended == "natural-end" {
			c.Violation("silent-stop", cs.Construct, "never-ending program returned a nil error after its deadline", "context deadline exceeded", "nil", cs)
			return
		}
		c.Count("timer_ended_"+ended, 1)
		c.Max("timer_steps_before_expiry_max", int64(obs.probe.stepsAtFire))
		c.NonTrivial(fmt.Sprintf("timer|%s|%d|%d", cs.Construct, cs.TimeoutUS, cs.K))
	}
}

// c15ChildrenOfSelf lists the pids of live child processes (leftover `vsh block`).
func c15ChildrenOfSelf() []int {
	var pids []int
	me := strconv.Itoa(os.Getpid())
	ents, _ := os.ReadDir("/proc")
	for _, e := range ents {
		pid, err := strconv.Atoi(e.Name())
		if err != nil {
			continue
		}
		b, err := os.ReadFile("/proc/" + e.Name() + "/stat")
		if err != nil {
			continue
		}
		// pid (comm) state ppid ...
		s := string(b)
		i := strings.LastIndexByte(s, ')')
		if i < 0 {
			continue
		}
		f := strings.Fields(s[i+1:])
		if len(f) >= 2 && f[1] == me && f[0] != "Z" && strings.Contains(s[:i], "(vsh") {
			pids = append(pids, pid)
		}
	}
	return pids
}

// c15KillHolders kills the detached sleepers started by vsh's spawnhold (they are not children
// of this process any more).
func c15KillHolders() {
	ents, _ := os.ReadDir("/proc")
	for _, e := range ents {
		pid, err := strconv.Atoi(e.Name())
		if err != nil {
			continue
		}
		b, err := os.ReadFile("/proc/" + e.Name() + "/cmdline")
		if err == nil && strings.Contains(string(b), "vsh\x00sleep:"+c15HoldMS()+"\x00") && strings.Contains(string(b), core.BuildDir) {
			_ = syscall.Kill(pid, syscall.SIGKILL)
		}
	}
}

// c15Blocked: the call is blocked in a child wait when the context fires.
// Returns false if the watchdog fired (the caller then stops issuing blocked cases).
func c15BlockedCase(c *core.Ctx, cs c15Case) bool {
	c.Begin(cs)
	c.Eval(1)
	c.Count("blocked_cases", 1)
	c.Cover("blocked_forms", cs.Construct)
	c.Cover("ctx_kinds", cs.Ctx)
	ld, msg := c15Load(c, cs)
	if ld == nil {
		c.Inconclusive("blocked template: " + msg)
		return true
	}
	type result struct {
		obs c15Obs
		cx  c15Ctx
	}
	cxCh := make(chan c15Ctx, 1)
	done := make(chan result, 1)
	_ = os.Remove(ld.paths.mark)
	go func() {
		obs, _, cx := ld.execNotify(cs.Ctx, cs.K, cxCh)
		done <- result{obs, cx}
	}()
	cx := <-cxCh
	defer cx.cleanup()
	var res result
	returned := false
	start := time.Now()
	if cs.Mode == "async" {
		// wait until the child has been seen to start (or the run returned on its own)
		seen := false
		for !seen && !returned {
			if _, err := os.Stat(ld.paths.mark); err == nil {
				seen = true
				break
			}
			select {
			case res = <-done:
				returned = true
			case <-time.After(time.Millisecond):
			}
			if time.Since(start) > 60*time.Second { // only ever inconclusive
				break
			}
		}
		if !seen {
			c.Inconclusive(fmt.Sprintf("blocked case %s: the child was never seen to start (returned=%v)", cs.Construct, returned))
			for _, pid := range c15ChildrenOfSelf() {
				_ = syscall.Kill(pid, syscall.SIGKILL)
			}
			if !returned {
				<-done
			}
			return true
		}
		start = time.Now()
		cx.fire()
	}
	if !returned {
		select {
		case res = <-done:
		case <-time.After(c15Watchdog()):
			c.Violation("blocked-wait-no-return", cs.Construct, fmt.Sprintf("%s/%s: the call did not return within %s after the context fired while waiting for a child that never exits",
				cs.Construct, cs.Ctx, c15Watchdog()), "the call returns", "still blocked", cs)
			for _, pid := range c15ChildrenOfSelf() {
				_ = syscall.Kill(pid, syscall.SIGKILL)
			}
			c15KillHolders()
			select {
			case <-done:
			case <-time.After(10 * time.Second):
			}
			return false
		}
	}
	if strings.Contains(cs.Src, "spawnhold") {
		c15KillHolders()
	}
	lat := time.Since(start)
	obs := res.obs
	from, marksBefore := obs.probe.stepsAtPre, obs.probe.marksAtPre
	if cs.Mode == "scripted" {
		if !obs.probe.fired {
			c.Inconclusive("blocked scripted case: cancellation point not reached")
			return true
		}
		from, marksBefore = obs.probe.stepsAtFire, obs.probe.marksAtFire
	} else if cs.Mode == "pre" {
		from, marksBefore = 0, 0
	} else if !obs.probe.preSeen {
		c.Inconclusive("blocked case: pre() was never called: " + cs.Construct)
		return true
	}
	ended := c15JudgeStopped(c, cs, &obs, from, marksBefore, nil)
	if ended == "" {
		return true
	}
	c.Count("blocked_returned", 1)
	c.Count("blocked_with_file_stdout", ld.fileOut)
	c.Count("blocked_ended_"+ended, 1)
	// latency is reported, never judged
	c.Max("blocked_return_latency_ms_max", lat.Milliseconds())
	c.Count("blocked_return_latency_ms_sum", int(lat.Milliseconds()))
	c.NonTrivial(fmt.Sprintf("blocked|%s|%s|%s|%d|%s", cs.Construct, cs.Ctx, cs.Mode, cs.K, cs.Src))
	if left := c15ChildrenOfSelf(); len(left) > 0 {
		// A child that outlives the call: reported (the property speaks about the call returning).
		c.Count("blocked_children_alive_after_return", len(left))
		for _, pid := range left {
			_ = syscall.Kill(pid, syscall.SIGKILL)
		}
	}
	return true
}

// execNotify is exec for the blocked family: it publishes the context before the run starts.
func (ld *c15Loaded) execNotify(kind string, k int, cxCh chan<- c15Ctx) (c15Obs, *interp.Interpreter, c15Ctx) {
	ip, err := interp.New(ld.prog)
	if err != nil {
		cx := c15MakeCtx(kind, 0)
		cxCh <- cx
		return c15Obs{out: run.Outcome{Err: err.Error()}}, nil, cx
	}
	_ = os.Remove(ld.paths.out)
	probe := &c15Probe{ip: ip, k: k}
	ld.env.p = probe
	cx := c15MakeCtx(kind, 0)
	probe.fire = cx.fire
	if cx.pre {
		probe.fired = true
	}
	cfg, collect := ld.config(false) // never a bufio.Writer here: the child's copier would race on it (C13)
	if strings.Contains(ld.cs.Construct, "holds-stderr") {
		// standard output is a file of the caller (children inherit it directly); the error stream stays in memory
		if f, err := os.CreateTemp("", "c15-out-*"); err == nil {
			defer func() { _ = f.Close(); _ = os.Remove(f.Name()) }()
			cfg.Output = f
			ld.fileOut++
			inner := collect
			collect = func(o *run.Outcome) {
				inner(o)
				b, _ := os.ReadFile(f.Name())
				o.Stdout = string(b)
			}
		}
	}
	cxCh <- cx
	var obs c15Obs
	obs.out = run.Exec(ld.prog, cfg, run.Opts{Interp: ip, StepLimit: c15Budget, Ctx: cx.ctx})
	collect(&obs.out)
	obs.ctxErr = cx.ctx.Err()
	obs.probe = *probe
	if b, err := os.ReadFile(ld.paths.out); err == nil {
		obs.file = string(b)
	}
	return obs, ip, cx
}

// ---- batch ------------------------------------------------------------------------------------

var c15ForIn = regexp.MustCompile(`\(\s*[A-Za-z_][A-Za-z_0-9]*\s+in\s+[A-Za-z_]`)

func c15Pick(rng *rand.Rand, l []string) string { return l[rng.Intn(len(l))] }

// c15Program runs the reference, the differential and the placements of one generated program.
func c15Program(c *core.Ctx, rng *rand.Rand, p c15Prog, placements int, exhaustive int) {
	base := c15Case{Family: "script", Construct: p.Construct, Src: p.Src, NRec: p.NRec, NIn: p.NIn, Dest: p.Dest, Buffered: rng.Intn(2) == 0}
	c.Begin(base)
	ld, msg := c15Load(c, base)
	if ld == nil {
		c.Inconclusive("template " + p.Construct + ": " + msg)
		return
	}
	ref, ok := c15Reference(c, ld)
	if !ok {
		return
	}
	for _, cv := range p.Cover {
		set, item, _ := strings.Cut(cv, "=")
		c.Cover(set, item)
	}
	c.Max("program_steps_max", int64(ref.obs.out.Steps))
	c15Diff(c, ld, ref, c15Pick(rng, c15NeverKinds))
	total := ref.obs.probe.ticks
	if p.Explicit {
		cs := base
		cs.Ctx = c15Pick(rng, c15FireKinds)
		cs.Reuse = []string{"", "execute", "context"}[rng.Intn(3)]
		c15Placement(c, ld, ref, cs)
		return
	}
	if total == 0 {
		c.Inconclusive("template " + p.Construct + " never calls tick()")
		return
	}
	var ks []int
	if exhaustive > 0 {
		// every cancellation point of a window: covers every phase of the poll counter
		lo := 1
		if total > exhaustive {
			lo = 1 + rng.Intn(total-exhaustive)
		}
		for k := lo; k < lo+exhaustive && k <= total; k++ {
			ks = append(ks, k)
		}
		c.Count("exhaustive_windows", 1)
	} else {
		ks = append(ks, 1, total, total+1+rng.Intn(3)) // first point, last point, never reached
		for len(ks) < placements {
			ks = append(ks, 1+rng.Intn(total))
		}
	}
	for i, k := range ks {
		cs := base
		cs.K = k
		cs.Buffered = i%2 == 0
		cs.Ctx = c15Pick(rng, c15FireKinds)
		if exhaustive > 0 {
			cs.Ctx = "cancel"
		} else if i%3 == 2 {
			cs.Reuse = []string{"execute", "context"}[rng.Intn(2)]
		}
		c15Placement(c, ld, ref, cs)
	}
	// contexts that are done before the call starts
	if exhaustive == 0 {
		cs := base
		cs.Family, cs.Ctx = "pre", c15Pick(rng, c15PreKinds)
		c15Placement(c, ld, ref, cs)
	}
}

func init() {
	n := func(t core.Tier, q, th int) int {
		if t == core.Thorough {
			return th
		}
		return q
	}
	core.Register(&core.Property{
		ID:    "C15",
		Level: "exploration",
		Rule: "programs from " + strconv.Itoa(len(c15Templates)) + " templates (cancellation point = K-th tick() inside while/for/do loops, nested and mutual recursion up to depth 900, for-in over 10..1e5 keys, " +
			"patterns, range patterns, main-loop rules, END, a function called from a printf argument, between print and close, getline loops) x K (first, last, never reached, random; " +
			"exhaustive windows of consecutive K) x 7 context kinds; contexts done before the call; real timers on never-ending programs; " + strconv.Itoa(len(c15Blocked)) +
			" forms of waits on a child that never exits x 2 tails x context kinds; never-fired contexts vs Execute on templates and corpus programs. " +
			"non-trivial = distinct (program, context kind, K) whose cancellation point was reached and judged (for the differential: distinct program x kind that executed >= 1 step)",
		Assumptions: []string{
			"a dispatch step is one iteration of the interpreter's instruction loop (hook VerifSteps); B = 1000 + 100",
			"a nil error after cancellation is accepted only if the program reached its end (output and status equal to the uncancelled run) within B steps",
			"output written to a command that cancellation kills is not judged (the consumer is gone); standard output and files are",
			"after an interrupted child wait the call may return the context's error or let the script continue for <= B steps (don't-care)",
			"blocked waits: the child never exits by construction, so the 60 s watchdog is not a tuned deadline; latencies are reported, not judged",
		},
		NBatches: func(t core.Tier) int { return n(t, 16, 64) },
		Floors: func(t core.Tier) map[string]int {
			return map[string]int{
				"evaluations": n(t, 1500, 150000), "distinct_nontrivial": n(t, 900, 100000),
				"placements": n(t, 800, 40000), "constructs": len(c15Templates) + len(c15Infinite), "cancel_phase": 10,
				"ended_ctx-error": n(t, 500, 30000), "ended_natural-end": n(t, 30, 1000), "not_reached": n(t, 30, 1000),
				"ctx_kinds": 12, "diff_runs": n(t, 150, 3000), "reuse_after_unfired_runs": n(t, 100, 2000), "subprocess_programs": len(c15Subproc), "diff_ctx_kinds": len(c15NeverKinds), "reuse_runs": n(t, 100, 5000),
				"timer_cases": n(t, 10, 200), "blocked_returned": n(t, 60, 1000), "blocked_forms": len(c15Blocked),
				"blocked_ended_ctx-error": n(t, 10, 200), "blocked_ended_natural-end": n(t, 10, 200),
				"recursion_depths": 4, "forin_sizes": n(t, 3, 5), "returned_errors": 2,
			}
		},
		Exhaustive: func(t core.Tier) bool { return false },
		Run: func(c *core.Ctx) {
			rng := c.Rand("gen")
			sc := n(c.Tier, 1, 4)
			// 1. template programs: reference + differential + placements + pre-done contexts
			programs := n(c.Tier, 10*len(c15Templates), 600*len(c15Templates)) / c.NBatches
			perProgram := n(c.Tier, 6, 10)
			for i := 0; i < programs; i++ {
				// round-robin over the templates (offset by batch) so every construct is placed in every run
				p := c15Templates[(i+c.Batch)%len(c15Templates)](rng, sc)
				c15Program(c, rng, p, perProgram, 0)
			}
			// 2. exhaustive windows: every K of a window, so that every phase of the poll counter is met
			windows := n(c.Tier, 1, 12)
			for i := 0; i < windows; i++ {
				p := c15Templates[(i*7+c.Batch)%len(c15Templates)](rng, 1)
				if p.Explicit {
					continue
				}
				c15Program(c, rng, p, 0, n(c.Tier, 150, 1200))
			}
			// 3. real timers on never-ending programs
			timers := n(c.Tier, 32, 640)
			for i := 0; i < timers; i++ {
				if !c.Mine(i) {
					continue
				}
				t := c15Infinite[i%len(c15Infinite)]
				cs := c15Case{Family: "timer", Construct: t.construct, Src: t.src, Dest: "stdout", Ctx: "timeout-real", K: i, Buffered: i%2 == 0,
					TimeoutUS: 200 + 700*(i/len(c15Infinite)%12)}
				if t.construct == "timer-main-rule" || t.construct == "timer-end" {
					cs.NRec = 2
				}
				c15Timer(c, cs)
			}
			// 4. never-fired contexts on corpus programs (sandboxed)
			progs := corpus.All()
			if c.Tier == core.Quick && len(progs) > 160 {
				progs = progs[:160]
			}
			for i, src := range progs {
				if !c.Mine(i) || strings.Contains(src, "srand") || c15ForIn.MatchString(src) {
					continue
				}
				cs := c15Case{Family: "diff", Construct: "corpus", Src: src, Sandbox: true, Buffered: i%2 == 0, Stdin: "a b c\nfoo bar baz 1 2 3\n\n x  y \n10 20\n"}
				c.Begin(cs)
				ld, _ := c15Load(c, cs)
				if ld == nil {
					continue // not every corpus text parses
				}
				ref, ok := c15Reference(c, ld)
				if !ok {
					continue
				}
				for _, kind := range []string{"cancel", c15Pick(rng, c15NeverKinds)} {
					c15Diff(c, ld, ref, kind)
				}
			}
			// 4b. never-fired contexts on programs that start child processes
			for i, sp := range c15Subproc {
				if !c.Mine(1000 + i) {
					continue
				}
				cs := c15Case{Family: "diff", Construct: sp.construct, Src: sp.src, NRec: sp.nrec}
				c.Begin(cs)
				ld, msg := c15Load(c, cs)
				if ld == nil {
					c.Inconclusive("subprocess template " + sp.construct + ": " + msg)
					continue
				}
				ref, ok := c15Reference(c, ld)
				for try := 0; ok && try < 5 && c15WaitDelayArtefact(c, &ref.obs); try++ {
					ref, ok = c15Reference(c, ld) // an overloaded machine: take the reference again
				}
				if !ok {
					continue
				}
				if strings.Contains(ref.obs.out.Stderr, "WaitDelay expired") {
					c.Count("subprocess_programs_skipped_waitdelay", 1)
					continue
				}
				if strings.Contains(ref.obs.out.Stdout, "BAD") || ref.obs.out.Err != "" {
					c.Inconclusive("subprocess template " + sp.construct + ": the plain Execute run is not clean: " + core.Clip(ref.obs.sig(), 300))
					continue
				}
				c.Cover("subprocess_programs", sp.construct)
				for _, kind := range c15NeverKinds {
					c15Diff(c, ld, ref, kind)
				}
			}
			// 5. blocked waits
			blockedKinds := []string{"cancel", "manual-deadline", "cancel-parent", "cancel-cause", "deadline-far", "manual-canceled"}
			rounds := n(c.Tier, 3, 40)
			idx := 0
			watchdogs := 0
			for r := 0; r < rounds; r++ {
				for f := range c15Blocked {
					for tail := range c15Tails {
						idx++
						if !c.Mine(idx) {
							continue
						}
						if watchdogs >= 1 {
							c.Count("blocked_skipped_after_watchdog", 1)
							continue
						}
						b := c15Blocked[f]
						cs := c15Case{Family: "blocked", Construct: b.form + "+" + c15Tails[tail].name, Src: c15BlockedSrc(f, tail), NRec: b.nrec,
							Dest: "stdout", Ctx: blockedKinds[(r+f+tail)%len(blockedKinds)], Mode: b.mode}
						if !strings.Contains(b.src, "%TAIL%") {
							if tail > 0 {
								continue
							}
							cs.Construct = b.form
						}
						if b.mode == "scripted" {
							cs.K = 1 + rng.Intn(4000)
						}
						if r%5 == 4 && b.mode == "async" { // the context is already done: the child cannot even start
							cs.Mode, cs.Ctx = "pre", c15PreKinds[(r+f)%len(c15PreKinds)]
						}
						if !c15BlockedCase(c, cs) {
							watchdogs++
						}
					}
				}
			}
			for _, pid := range c15ChildrenOfSelf() {
				_ = syscall.Kill(pid, syscall.SIGKILL)
			}
		},
		Replay: func(c *core.Ctx, raw json.RawMessage) {
			var cs c15Case
			if err := json.Unmarshal(raw, &cs); err != nil {
				fmt.Println("bad case:", err)
				return
			}
			fmt.Printf("family=%s construct=%s ctx=%s k=%d nrec=%d mode=%s reuse=%s buffered=%v\nsource:\n%s\n", cs.Family, cs.Construct, cs.Ctx, cs.K, cs.NRec, cs.Mode, cs.Reuse, cs.Buffered, cs.Src)
			switch cs.Family {
			case "timer":
				for i := 0; i < 5; i++ { // the schedule is the timer's: try it a few times
					c15Timer(c, cs)
				}
			case "blocked":
				c15BlockedCase(c, cs)
			default:
				ld, msg := c15Load(c, cs)
				if ld == nil {
					fmt.Println("cannot load:", msg)
					return
				}
				ref, ok := c15Reference(c, ld)
				if !ok {
					fmt.Println("no reference run")
					return
				}
				fmt.Printf("uncancelled run: %d steps, %d ticks, %d lines, status %d, err %q\n", ref.obs.out.Steps, ref.obs.probe.ticks, ref.lines, ref.obs.out.Status, ref.obs.out.Err)
				if cs.Family == "diff" {
					c15Diff(c, ld, ref, cs.Ctx)
					return
				}
				c15Placement(c, ld, ref, cs)
			}
		},
	})
}
