package props

// C20 — the printed form of a program is a faithful AWK program.
//
// Monitor: for every accepted source P: s1 = Program.String(); ParseProgram(s1) must succeed; its
// tree must equal P's tree (grouping nodes ignored, numeric literals compared to six significant
// digits, a missing action kept distinct from an empty one); printing the re-parsed tree must
// give s1 again.

import (
	"encoding/json"
	"fmt"
	"math/rand"
	"strings"

	"verifharness/astx"
	"verifharness/core"
	"verifharness/corpus"
	x "verifharness/exprgen"
	"verifharness/gen"
	"verifharness/run"
)

type c20Case struct {
	Gen string `json:"gen"`
	Src string `json:"src"`
}

var c20DumpOpts = astx.DumpOpts{SkipGrouping: true, Num: func(f float64) string { return fmt.Sprintf("%.6g", f) }}

// c20Check returns false if src is not an accepted program (not a case for this property).
func c20Check(c *core.Ctx, cs c20Case) bool {
	c.Begin(cs)
	p1, err, pm := run.Parse(cs.Src, nil)
	if pm != "" || err != nil {
		return false
	}
	c.Eval(1)
	s1 := p1.String()
	t1 := astx.DumpProgram(astx.Tree(p1), c20DumpOpts)
	p2, err2, pm2 := run.Parse(s1, nil)
	if pm2 != "" {
		c.Violation("reparse-panic", "", "parser panicked on printed form: "+run.PanicSite(pm2), "", pm2, cs)
		return true
	}
	if err2 != nil {
		c.Violation("printed-form-rejected", c20Class(cs.Src, s1), fmt.Sprintf("the printed form is not accepted (%v); printed: %s", err2, core.Q(core.Clip(s1, 200))), "accepted", err2.Error(), cs)
		return true
	}
	t2 := astx.DumpProgram(astx.Tree(p2), c20DumpOpts)
	if t1 != t2 {
		c.Violation("different-tree", c20Class(cs.Src, s1), "the printed form parses to a different tree: "+firstDiff(t1, t2), t1, t2, cs)
		return true
	}
	s2 := p2.String()
	if s1 != s2 {
		c.Violation("not-idempotent", c20Class(cs.Src, s1), "printing the re-parsed tree gives different text: "+firstDiff(s1, s2), s1, s2, cs)
		return true
	}
	c.NonTrivial(t1)
	c.Count("gen_"+cs.Gen, 1)
	if c.WantSample() && len(cs.Src) < 300 && len(cs.Src) > 30 {
		c.Sample(map[string]any{"gen": cs.Gen, "source": cs.Src, "printed": s1})
	}
	return true
}

// c20Class names the lexical hazard involved, for known findings.
func c20Class(src, printed string) string {
	return ""
}

func c20Hazards() []string {
	exprs := []string{
		"- --x ^ 2", "+ ++x ^ y", "- --x ^ -y", "! --x ^ 2", "- --$1 ^ 2", "-(--x) ^ 2", "- -x ^ 2 ^ 3", "+ ++A[1] ^ 2", "- --x ^ 2 - --y ^ 2", "x - --y ^ 2", "x + ++y ^ 2", "- -$i ^ 2", "-x-- ^ 2", "- --x++",
		"- -x", "+ +x", "! !x", "- --x", "+ ++x", "-(-x)", "- +x", "+ -x", "!(-x)", "x - -y", "x + +y", "x - --y", "x + ++y", "x-- - y", "x++ + y", "x - - -y",
		"- - -x", "!-x", "-!x", "- -1", "-(-1)", "1 - -1", "2 ^ -x", "-x ^ 2", "(-x) ^ 2", "- -x ^ 2", "x ^ y ^ z", "(x ^ y) ^ z", "!x ~ y", "!(x ~ y)", "x ~ !y",
		"$- -i", "$-i", "$(-i)", "$i++", "$(i++)", "$$i", "$$i++", "$++i", "$(NF - 1)", "$NF - 1", "-$1", "!$1", "$x^2", "$(x^2)", "$x[1]",
		"a (b ~ c)", "a b ~ c", "a ~ b c", "a ~ (b c)", "(a, b) in arr", "((a, b) in arr) in arr2", "1 in arr", "x = (y, z) in arr", "a in arr ? 1 : 2",
		"a ? b : c ? d : e", "(a ? b : c) ? d : e", "a ? (b ? c : d) : e", "x = y = z", "x = y += z", "(x = y) + 1", "x = (y = 1) + (z = 2)", "a || b && c", "(a || b) && c", "a && (b || c)",
		"a < b", "(a < b) < c", "a < (b < c)", "(a == b) != c", "a ~ (b ~ c)", "(a ~ b) ~ c", "a (b c)", "(a b) c", "a b c d", "a - (b - c)", "(a - b) - c", "a / (b / c)", "a / b / c", "a % b * c",
		"x / y", "x /= 2", "x / /re/", "/re/ / x", "/re/ ~ x", "x ~ /a\\/b/", "x ~ /\\//", "x ~ /[/]/", "x ~ /=/", "/=/", "x ~ /a\\\\b/", "x ~ /\\\\\\//", "x ~ \"a/b\"", "/a\\.b/ ? 1 : 2",
		"length", "length()", "length(x)", "length x", "length + 1", "-length", "substr(s, 1)", "substr(s, 1, 2)", "split(s, arr)", "split(s, arr, /,/)", "split(s, arr, \",\")",
		"sub(/x/, \"y\")", "gsub(/x/, \"y\", z)", "gsub(\"x\", \"&&\", arr[1])", "sub(/x/, \"y\", $2)", "match(s, /r/)", "sprintf(\"%d\", x)", "index(s, t)", "atan2(1, 2)", "srand()", "srand(1)", "rand()",
		"fflush()", "fflush(\"f\")", "close(\"f\")", "system(\"c\")", "f(1, 2)", "f()", "f(f(1))", "f(x)(y)", "arr[1, 2]", "arr[1][2]",
		"getline", "getline x", "getline < \"f\"", "getline x < \"f\"", "getline x < \"f\" y", "getline < (\"f\" y)", "\"c\" | getline", "\"c\" | getline x", "\"c\" x | getline", "(\"c\" x) | getline y",
		"(getline x) > 0", "(\"c\" | getline x) > 0", "\"c\" | getline > 0", "getline arr[1]", "getline $1", "getline $(i + 1) < \"f\"", "x = getline", "!getline", "getline + 1",
		"1234567.8", "1000000.5", "999999.5", "12345678.9", "123456.78", "99999.95", "0.9999995", "1e17 + 0", "123456789012345678.5", "999999500000000000", "1e18 - 1",
		"9223372036854775807", "9223372036854775808", "9223372036854775806.5", "1e18", "999999999999999999", "1000000000000000000", "1e15", "1e16", "123456789012345678", "18446744073709551616", "4611686018427387904", "0.1234567", "123456.7",
		"@\"name\"", "@(x y)", "@x", "1e300", "1e-300", "1e999", "123456789012345678901234567890", ".5", "5.", "1e+5", "0.000001", "100000000000000000000", "1.5e300 * 1e300", "0x10", "011",
		"1e", "1e+", "1 e", "x 1", "1 x", "x 1e", "\"\" \"\"", "\"a\" \"b\"",
		"x ~ /a\\\nb/", "x ~ /a\\\rb/", "x ~ /\\\n/", "\"a\\\nb\"", "x ~ /a\\\r\nb/", "sub(/\\\n  z/, \"&\")",
	}
	var out []string
	for _, e := range exprs {
		out = append(out, "function f(a, b) { return a }\nBEGIN { r = "+e+" }\n")
		out = append(out, "function f(a, b) { return a }\nBEGIN { print "+e+" }\n")
		out = append(out, "function f(a, b) { return a }\nBEGIN { if ("+e+") y }\n")
		out = append(out, "function f(a, b) { return a }\n"+e+" { y }\n")
	}
	stmts := []string{
		"print", "print > \"f\"", "print >> \"f\"", "print | \"c\"", "print a, b > \"f\" x", "print a, b > (\"f\" x)", "print (a > b)", "print (a)(b)", "print (a, b) > \"f\"", "print(a, b)",
		"print a b > c d", "print a > b ? c : d", "print (a > b) ? c : d", "print a, (b > c) > \"f\"", "print -1", "print - 1", "print a -1", "print a, -1", "print !a", "print 1, 2 | \"c\" x",
		"print (a, b > c)", "print (a > b, c)", "print (a > b, c > d) > \"f\"", "printf(\"%d\", a > b)", "printf(\"%d %d\", a > b, c)", "print (a, b ? c > d : e)", "print (a, \"x\" | getline)", "print (a, (b > c))",
		"print (a, b > c) | \"cmd\"", "print (x = a > b, 1)", "print (a, !b > c)", "print (a, b c > d e)", "print (a, b) > c > d",
		"printf \"%d\", x", "printf(\"%d %d\", x, y) > \"f\"", "printf \"x\" | \"c\"", "printf (\"%s\", a)", "print > \"a\" \"b\"", "print $1, $2 > $3",
		"if (a) b", "if (a) b; else c", "if (a) { b } else { c }", "if (a) if (b) c; else d", "if (a) { if (b) c } else d", "if (a) ; else c", "if (a) b; else ;", "if (a) {} else {}",
		"while (a) b", "while (a) ;", "while (a) {}", "do b; while (a)", "do { b; c } while (a)", "do ; while (a)", "for (;;) break", "for (i = 0; i < 3; i++) ;", "for (i = 0; i < 3; i++) { continue }",
		"for (;a;) b", "for (x in arr) delete arr[x]", "for (x in arr) ;", "for ((x) in arr) y", "delete arr", "delete arr[1]", "delete arr[1, 2]", "exit", "exit 1 + 2", "exit (1)", "{ a; b }", "{ }", "{ { } }", ";",
		"a; b; c", "a\nb", "getline; getline x", "x = 1; ; y = 2", "next", "nextfile",
	}
	for _, s := range stmts {
		out = append(out, "{ "+s+" }\n")
		if !strings.Contains(s, "next") {
			out = append(out, "BEGIN { "+s+" }\nEND { "+s+" }\n")
			out = append(out, "function g(p, q) { "+s+"; return p }\n")
		}
	}
	items := []string{
		"BEGIN {}", "END {}", "BEGIN {} END {}", "{}", "x", "x {}", "x, y", "x, y {}", "/a/", "/a/, /b/ { print }", "!/a/", "NR == 1", "BEGIN { } { } END { }", "x\ny", "x;y", "function f() {}", "function f(a) { return }\nBEGIN { f() }",
		"function f(a,\n\tb) { return a b }", "function f(a) { a[1] = 1 }\nBEGIN { f(x) }", "BEGIN { getline < \"f\"; print }", "$1 ~ $2 { print $1 }", "BEGIN { printf \"a\" }",
	}
	out = append(out, items...)
	// strings: every byte, alone and followed by characters that could extend an escape
	for b := 0; b < 256; b++ {
		for _, follow := range []string{"", "1", "a", "f", "7", "0", "\\\\", "\\\""} {
			if b == 0 || b == '\n' || b == '\r' {
				// cannot appear raw in source; reached through escapes below
				continue
			}
			raw := string([]byte{byte(b)})
			if b == '"' || b == '\\' {
				raw = "\\" + raw
			}
			out = append(out, "BEGIN { s = \""+raw+follow+"\" }\n")
		}
		out = append(out, fmt.Sprintf("BEGIN { s = \"\\x%02x1\"; t = \"\\%03o7\" \"x\" }\n", b, b))
	}
	for _, r := range []rune{0x7f, 0x80, 0x85, 0xa0, 0xad, 0x200b, 0x2028, 0xfeff, 0xfffd, 0xffff, 0x10000, 0x1f600, 0xe0001, 0x10ffff, 0x378} {
		for _, follow := range []string{"", "1", "b", "F", "00"} {
			out = append(out, "BEGIN { s = \""+string(r)+follow+"\"; print s }\n")
			out = append(out, fmt.Sprintf("BEGIN { s = \"\\u%x\" \"%s\" }\n", r, follow))
			out = append(out, "$0 ~ /"+string(r)+follow+"/\n")
		}
	}
	for _, esc := range []string{"\\a", "\\b", "\\f", "\\n", "\\r", "\\t", "\\v", "\\/", "\\\"", "\\\\", "\\z", "\\0", "\\1234", "\\x4", "\\x41", "\\x414", "\\u41", "\\u0041", "\\u00e9", "\\'", "'"} {
		out = append(out, "BEGIN { s = \"a"+esc+"b\" \"1\" }\n")
		out = append(out, "BEGIN { s = \""+esc+"1\" }\n")
	}
	out = append(out, "BEGIN { s = 'single' \"double\" 'it\\'s' }\n")
	return out
}

func init() {
	n := func(t core.Tier, q, th int) int {
		if t == core.Thorough {
			return th
		}
		return q
	}
	core.Register(&core.Property{
		ID:    "C20",
		Level: "exploration",
		Rule: "accepted programs from five sources: a lexical-hazard list (unary chains, division vs regex, every byte and escape in strings followed by characters that could extend the escape, " +
			"non-printable and non-BMP runes, getline / redirection forms, empty bodies, extreme numbers) x 4 contexts, the seed and repository corpus and their mutations, exprgen trees in minimal " +
			"and full spelling, and generated programs in three spellings; each is printed, re-parsed, compared structurally and printed again; non-trivial = distinct canonical tree",
		Assumptions: []string{
			"tree equality ignores grouping nodes and compares numeric literals after %.6g formatting, as the property allows",
			"the parser itself is checked by C03/C04; a program the parser rejects is not a case for this property",
		},
		NBatches: func(t core.Tier) int { return n(t, 16, 32) },
		Floors: func(t core.Tier) map[string]int {
			return map[string]int{"evaluations": n(t, 80000, 2000000), "distinct_nontrivial": n(t, 40000, 800000), "gen_hazard": 2500, "gen_program": n(t, 10000, 250000), "gen_exprgen": n(t, 20000, 500000), "gen_numlit": n(t, 5000, 120000)}
		},
		Run: func(c *core.Ctx) {
			rng := c.Rand("c20")
			idx := 0
			for _, src := range c20Hazards() {
				if c.Mine(idx) {
					if !c20Check(c, c20Case{Gen: "hazard", Src: src}) {
						c.Count("hazard_not_accepted", 1)
					}
				}
				idx++
			}
			progs := corpus.All()
			for _, src := range progs {
				if c.Mine(idx) {
					c20Check(c, c20Case{Gen: "corpus", Src: src})
				}
				idx++
			}
			for _, cs := range systematicCases() {
				if c.Mine(idx) {
					c20Check(c, c20Case{Gen: "systematic", Src: cs.Src})
				}
				idx++
			}
			ops := c04Ops()
			total := n(c.Tier, 160000, 4000000) / c.NBatches
			for i := 0; i < total; i++ {
				switch r := rng.Intn(100); {
				case r < 45:
					e := c04Random(rng, ops, 1+rng.Intn(6), false)
					cxn := c04Contexts[rng.Intn(len(c04Contexts))]
					cx := x.Ctx{Print: strings.HasPrefix(cxn, "print")}
					text := x.Min(e, cx)
					if rng.Intn(3) == 0 {
						text = x.Full(e, cx)
					}
					src, _ := c04Source(cxn, text, "")
					if rng.Intn(4) == 0 {
						// several parenthesised print arguments: a bare > inside them is a comparison
						e2 := c04Random(rng, ops, 1+rng.Intn(3), false)
						kw := []string{"print", "printf"}[rng.Intn(2)]
						tail := []string{"", " > \"f\"", " | \"c\""}[rng.Intn(3)]
						src = c04Prelude + "BEGIN { " + kw + " (" + x.Min(e, x.Ctx{}) + ", " + x.Min(e2, x.Ctx{}) + ")" + tail + " }\n"
					}
					c20Check(c, c20Case{Gen: "exprgen", Src: src})
				case r < 70:
					fam := c01Families[rng.Intn(len(c01Families))]
					gc := c01Generate(rng.Int63(), fam)
					src := [3]string{gc.Src, gc.SrcB, gc.SrcC}[rng.Intn(3)]
					c20Check(c, c20Case{Gen: "program", Src: src})
				case r < 78:
					// numeric literals of every magnitude and spelling (the printer shows six digits)
					var lits []string
					for k := 0; k < 4; k++ {
						digits := 1 + rng.Intn(19)
						var sb strings.Builder
						for d := 0; d < digits; d++ {
							sb.WriteByte(byte('0' + rng.Intn(10)))
							if d == 0 && rng.Intn(3) > 0 && sb.String() == "0" {
								sb.Reset()
								sb.WriteByte(byte('1' + rng.Intn(9)))
							}
						}
						lit := sb.String()
						switch rng.Intn(5) {
						case 0:
							at := rng.Intn(len(lit) + 1)
							lit = lit[:at] + "." + lit[at:]
							if lit == "." {
								lit = ".5"
							}
						case 1:
							lit += fmt.Sprintf("e%d", rng.Intn(40)-20)
						case 2:
							at := rng.Intn(len(lit) + 1)
							lit = lit[:at] + "." + lit[at:] + fmt.Sprintf("E%+d", rng.Intn(330)-20)
							if strings.HasPrefix(lit, ".E") {
								lit = "1" + lit
							}
						case 3:
							lit = []string{"999999", "9999995", "99999950", "1000000", "999999.5", "0.9999995", "9.999995", "99999.95", "999999500000", "9.999995e17", "1e18", "9.999994e17"}[rng.Intn(12)] +
								[]string{"", "0", "00", "1", "9"}[rng.Intn(5)]
						}
						lits = append(lits, lit)
					}
					c20Check(c, c20Case{Gen: "numlit", Src: "BEGIN { x = " + lits[0] + "; print " + lits[1] + ", -" + lits[2] + " " + lits[3] + " }\n" + lits[0] + " < " + lits[1] + "\n"})
				default:
					src, g := genMutateCorpus(rng, progs)
					if c20Check(c, c20Case{Gen: "mutated-" + strings.TrimPrefix(g, "corpus-"), Src: string(src)}) {
						c.Count("mutated_accepted", 1)
					}
				}
			}
		},
		Replay: func(c *core.Ctx, raw json.RawMessage) {
			var cs c20Case
			if json.Unmarshal(raw, &cs) != nil {
				return
			}
			fmt.Printf("source: %s\n", core.Q(cs.Src))
			if p, err, _ := run.Parse(cs.Src, nil); err == nil && p != nil {
				fmt.Printf("printed: %s\n", core.Q(p.String()))
			}
			c20Check(c, cs)
		},
	})
	_ = rand.Int
	_ = gen.Style{}
}
