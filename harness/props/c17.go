package props

// C17 — Go functions exposed to AWK convert arguments and results as documented.
//
// Every case is a Config.Funcs map of recorder functions (built with reflect.FuncOf/MakeFunc
// from a data description, see package c17native) plus a generated AWK program that calls
// them. The program also prints, for every argument, what AWK itself says the value is
// (string form, number, truth value); the documented conversion table, re-stated in
// c17native.ExpectArg, is applied to those three and compared with what the recorder received.
// Results, error propagation, rejection of invalid shapes and the too-many-arguments parse
// error are checked the same way: a small model says what must be observed.

import (
	"context"
	"encoding/json"
	"fmt"
	"math"
	"math/rand"
	"strconv"
	"strings"

	"github.com/benhoyt/goawk/interp"
	"github.com/benhoyt/goawk/parser"

	nat "verifharness/c17native"
	"verifharness/core"
	"verifharness/run"
)

// ---- case description (pure data, replayable) ------------------------------------------------

type c17Arg struct {
	Pool  string   `json:"pool,omitempty"`  // id in c17native.Args
	Inner *c17Call `json:"inner,omitempty"` // or the result of another native call
}

type c17Call struct {
	Fn    int      `json:"fn"`    // index into Funcs
	Args  []c17Arg `json:"args"`  //
	Use   string   `json:"use"`   // assign | concat | cond | stmt | index | pattern (top-level calls only)
	Style string   `json:"style"` // var | inline | local: how pool arguments reach the call
}

type c17Case struct {
	Family   string         `json:"family"`
	Funcs    []nat.FuncSpec `json:"funcs"`
	Calls    []c17Call      `json:"calls,omitempty"`
	Block    string         `json:"block,omitempty"`    // begin | main | end | forin | while | userfunc
	ConvFmt  string         `json:"convfmt,omitempty"`  // CONVFMT for the run
	Override string         `json:"override,omitempty"` // a native name that is also defined in AWK (never called)
	UseCtx   bool           `json:"usectx,omitempty"`   // run through ExecuteContext
	Uncalled bool           `json:"uncalled,omitempty"` // invalid families: the program never calls Funcs[0]
	Expect   string         `json:"expect"`             // run | parse-error | reject
}

var (
	c17Blocks   = []string{"begin", "main", "end", "forin", "while", "userfunc"}
	c17Uses     = []string{"assign", "concat", "cond", "stmt", "index"}
	c17Styles   = []string{"var", "inline", "local"}
	c17ConvFmts = []string{"%.6g", "%.3g", "%.12g", "%.2f"}
	// names chosen so that byte order, case-folded order and numeric order all differ
	c17Names = []string{"f", "F", "g", "fa", "f1", "f10", "f2", "f_", "_f", "Fz", "zz", "G_1", "f1a", "ff", "Z", "a"}
	// reserved words and builtin function names (the lexer's keyword tokens)
	c17Keywords = []string{"BEGIN", "END", "break", "continue", "delete", "do", "else", "exit", "for", "function", "getline", "if", "in",
		"next", "nextfile", "print", "printf", "return", "while",
		"atan2", "close", "cos", "exp", "fflush", "gsub", "index", "int", "length", "log", "match", "rand", "sin", "split", "sprintf",
		"sqrt", "srand", "sub", "substr", "system", "tolower", "toupper"}
)

const (
	c17RS = "\x1e" // output record separator of the generated programs
	c17FS = "\x1f" // output field separator
)

// ---- program builder ---------------------------------------------------------------------------

type c17Prog struct {
	src    string
	stdin  string
	vars   []string
	nCalls int // call ids handed out (top-level and inner, pre-order)
}

type c17Builder struct {
	cs       *c17Case
	fields   []string
	vars     []string
	wrappers []string
	nextID   int
	rules    []string // finished pattern-action rules of the main block
	cur      []string // statements of the rule being built
}

// realize returns the AWK expression that produces pool argument a for call cid, position i.
func (b *c17Builder) realize(a nat.Arg, cid, i int) string {
	if a.IsIn {
		if b.cs.Block == "main" && (cid+i)%2 == 0 {
			b.fields = append(b.fields, a.Input)
			return "$" + strconv.Itoa(len(b.fields))
		}
		name := fmt.Sprintf("iv%d_%d", cid, i)
		b.vars = append(b.vars, name, a.Input)
		return name
	}
	return strings.ReplaceAll(a.Expr, "%U", fmt.Sprintf("u%d_%d", cid, i))
}

// callExpr emits assignments and probes for the pool arguments of call (and of its inner
// calls) into b.cur and returns the call expression. Call ids are handed out in pre-order.
func (b *c17Builder) callExpr(call *c17Call, top bool) string {
	cid := b.nextID
	b.nextID++
	style := call.Style
	var exprs []string
	for i, arg := range call.Args {
		if arg.Inner != nil {
			exprs = append(exprs, b.callExpr(arg.Inner, false))
			continue
		}
		a, ok := nat.ArgByID(arg.Pool)
		if !ok {
			a = nat.Args[0]
		}
		e := b.realize(a, cid, i)
		if style == "var" && a.Expr != "%U" {
			v := fmt.Sprintf("a%d_%d", cid, i)
			b.cur = append(b.cur, v+" = "+e)
			e = v
		}
		b.cur = append(b.cur, fmt.Sprintf(`print "A", %d, %d, (%s ""), sprintf("%%.17g", %s+0), (%s ? "T" : "F")`, cid, i, e, e, e))
		exprs = append(exprs, e)
	}
	name := "nofunc"
	if call.Fn >= 0 && call.Fn < len(b.cs.Funcs) {
		name = b.cs.Funcs[call.Fn].Name
	}
	if style == "local" {
		params := make([]string, len(exprs))
		for i := range params {
			params[i] = fmt.Sprintf("p%d", i)
		}
		w := fmt.Sprintf("w%d", cid)
		b.wrappers = append(b.wrappers, fmt.Sprintf("function %s(%s) { return %s(%s) }", w, strings.Join(params, ", "), name, strings.Join(params, ", ")))
		name = w
	}
	_ = top
	return name + "(" + strings.Join(exprs, ", ") + ")"
}

func c17Build(cs *c17Case) c17Prog {
	b := &c17Builder{cs: cs}
	for ci := range cs.Calls {
		call := &cs.Calls[ci]
		cid := b.nextID
		// callExpr appends assignments/probes to b.cur; the PRE marker must follow them
		expr := b.callExpr(call, true)
		b.cur = append(b.cur, fmt.Sprintf(`print "PRE", %d`, cid))
		switch call.Use {
		case "concat":
			b.cur = append(b.cur, fmt.Sprintf(`print "R", %d, (%s "")`, cid, expr))
		case "cond":
			b.cur = append(b.cur, fmt.Sprintf(`if (%s) print "R", %d, "T"; else print "R", %d, "F"`, expr, cid, cid))
		case "stmt":
			b.cur = append(b.cur, expr, fmt.Sprintf(`print "R", %d`, cid))
		case "index":
			b.cur = append(b.cur, "delete IX", fmt.Sprintf("IX[%s] = 1", expr), fmt.Sprintf(`for (k in IX) print "R", %d, k`, cid))
		case "pattern":
			// only in the main block: the call becomes the pattern of its own rule
			b.rules = append(b.rules, "{ "+strings.Join(b.cur, "\n  ")+" }")
			b.rules = append(b.rules, fmt.Sprintf(`%s { print "R", %d, "T" }`, expr, cid))
			b.cur = nil
		default: // assign
			b.cur = append(b.cur, fmt.Sprintf("r = %s", expr),
				fmt.Sprintf(`print "R", %d, (r ""), sprintf("%%.17g", r+0), (r ? "T" : "F")`, cid))
		}
		b.cur = append(b.cur, fmt.Sprintf(`print "Q", %d`, cid))
	}
	body := strings.Join(b.cur, "\n  ")
	var sb strings.Builder
	for _, w := range b.wrappers {
		sb.WriteString(w + "\n")
	}
	if cs.Override != "" {
		fmt.Fprintf(&sb, "function %s(x, y) { return \"awk-defined\" }\n", cs.Override)
	}
	switch cs.Block {
	case "main":
		for _, r := range b.rules {
			sb.WriteString(r + "\n")
		}
		sb.WriteString("{ " + body + " }\n")
	case "end":
		sb.WriteString("END { " + body + " }\n")
	case "forin":
		sb.WriteString("BEGIN { FA[\"k\"] = 1; for (fk in FA) { " + body + " } }\n")
	case "while":
		sb.WriteString("BEGIN { wn = 0; while (wn++ < 1) { " + body + " } }\n")
	case "userfunc":
		sb.WriteString("function blk() { " + body + " }\nBEGIN { blk() }\n")
	default:
		sb.WriteString("BEGIN { " + body + " }\n")
	}
	sb.WriteString("END { print \"END\" }\n")
	convfmt := cs.ConvFmt
	if convfmt == "" {
		convfmt = "%.6g"
	}
	vars := append([]string{"ORS", c17RS, "OFS", c17FS, "FS", ";", "CONVFMT", convfmt}, b.vars...)
	return c17Prog{src: sb.String(), stdin: strings.Join(b.fields, ";") + "\n", vars: vars, nCalls: b.nextID}
}

// ---- the model: what must be observed -----------------------------------------------------------

// c17Field matches one field of an output record.
type c17Field struct {
	any   bool
	isNum bool
	num   float64
	lit   string
}

func (f c17Field) String() string {
	switch {
	case f.any:
		return "*"
	case f.isNum:
		return "num:" + nat.RenderFloat(f.num)
	}
	return strconv.Quote(f.lit)
}

func (f c17Field) match(got string) bool {
	switch {
	case f.any:
		return true
	case f.isNum:
		g, err := strconv.ParseFloat(strings.TrimSpace(got), 64)
		if err != nil && !math.IsInf(g, 0) {
			return false
		}
		return g == f.num || (math.IsNaN(g) && math.IsNaN(f.num))
	}
	return got == f.lit
}

func c17Lit(s string) c17Field { return c17Field{lit: s} }

var c17Any = c17Field{any: true}

type c17ExpCall struct {
	fn   string
	args []string // "*" = don't-care
	why  []string // per entry: "arg" | "zero-fill" | "tail" | "tail-length"
}

type c17Sim struct {
	c        *core.Ctx
	cs       *c17Case
	convfmt  string
	probes   map[[2]int]nat.Probe
	counts   map[string]int
	nextID   int
	expLog   []c17ExpCall
	expOut   [][]c17Field
	aborted  bool
	abortErr error
	abortFn  string
	missing  string // a probe the output did not contain
	genErr   string // the case itself is malformed (generator error, never a verdict)
	// coverage is recorded only when the whole case compared equal
	cover [][2]string
	count map[string]int
	keys  []string // distinct (signature, call) keys
}

func (s *c17Sim) cov(set, item string) { s.cover = append(s.cover, [2]string{set, item}) }

// partial probe of a model value (inner call results), with per-component validity
func c17ModelProbe(v nat.Awk, convfmt string) (p nat.Probe, okS, okN, okT bool) {
	switch {
	case v.Unset:
		// a function without result: the property text does not say what the call yields
		return nat.Probe{}, false, false, false
	case !v.IsStr:
		str, ok := nat.NumStr(v.N, convfmt)
		return nat.Probe{S: str, N: v.N, T: v.N != 0}, ok, true, !math.IsNaN(v.N)
	}
	n, okNum := nat.PrefixNum(v.S)
	// whether a string result is a "numeric string" is not stated: truth only for strings
	// that do not look numeric at all
	looks, okL := nat.LooksNumeric(v.S)
	return nat.Probe{S: v.S, N: n, T: v.S != ""}, true, okNum, okL && !looks
}

// simCall models one call (inner calls first) and returns the AWK value it yields.
func (s *c17Sim) simCall(call *c17Call) nat.Awk {
	cid := s.nextID
	s.nextID++
	if call.Fn < 0 || call.Fn >= len(s.cs.Funcs) {
		s.missing = "bad function index"
		return nat.Awk{}
	}
	fn := s.cs.Funcs[call.Fn]
	type argv struct {
		p             nat.Probe
		okS, okN, okT bool
		class         string
	}
	vals := make([]argv, len(call.Args))
	for i, arg := range call.Args {
		if arg.Inner != nil {
			v := s.simCall(arg.Inner)
			if s.aborted || s.missing != "" {
				return nat.Awk{}
			}
			p, okS, okN, okT := c17ModelProbe(v, s.convfmt)
			vals[i] = argv{p, okS, okN, okT, "inner"}
			continue
		}
		p, ok := s.probes[[2]int{cid, i}]
		if !ok {
			s.missing = fmt.Sprintf("probe of argument %d of call %d", i, cid)
			return nat.Awk{}
		}
		a, _ := nat.ArgByID(arg.Pool)
		vals[i] = argv{p, true, true, true, a.Class}
		// Cross-check (evidence only, never a verdict of this property): the harness's own
		// value model against what AWK printed about the argument.
		if mp, ok := nat.ProbeOf(a.Model, s.convfmt); ok {
			if mp.S == p.S && mp.T == p.T && (mp.N == p.N || (math.IsNaN(mp.N) && math.IsNaN(p.N))) {
				s.count["value_model_agrees"]++
			} else {
				s.count["value_model_differs"]++
				s.cov("value_model_differs", fmt.Sprintf("%s: model %q/%s/%v awk %q/%s/%v", a.ID, mp.S, nat.RenderFloat(mp.N), mp.T, p.S, nat.RenderFloat(p.N), p.T))
			}
		} else {
			s.count["value_model_silent"]++
		}
	}
	// the documented table, position by position
	exp := c17ExpCall{fn: fn.Name}
	nFixed := len(fn.In)
	if fn.Variadic {
		nFixed--
	}
	conv := func(kind string, v argv, where string) string {
		b := nat.Base(kind)
		usable := v.okN
		switch {
		case b == "bool":
			usable = v.okT
		case nat.IsStringKind(b):
			usable = v.okS
		}
		if !usable {
			s.count["dontcare_inner_value_unmodelled"]++
			return "*"
		}
		want, care, why := nat.ExpectArg(kind, v.p)
		if !care {
			s.count["dontcare_"+why]++
			return "*"
		}
		s.count["args_compared"]++
		s.cov("param_kind_pos", kind+"@"+where)
		s.cov("argclass_kind", v.class+"|"+b)
		return want
	}
	for i := 0; i < nFixed; i++ {
		if i < len(call.Args) {
			exp.args = append(exp.args, conv(fn.In[i], vals[i], strconv.Itoa(i)))
			exp.why = append(exp.why, "arg")
		} else {
			exp.args = append(exp.args, nat.ZeroRender(fn.In[i]))
			exp.why = append(exp.why, "zero-fill")
			s.count["zero_filled_params"]++
			s.cov("zero_fill", fn.In[i])
		}
	}
	if fn.Variadic {
		n := len(call.Args) - nFixed
		if n < 0 {
			n = 0
		}
		exp.args = append(exp.args, fmt.Sprintf("...%d", n))
		exp.why = append(exp.why, "tail-length")
		for i := nFixed; i < len(call.Args); i++ {
			exp.args = append(exp.args, conv(fn.In[nFixed], vals[i], "tail"))
			exp.why = append(exp.why, "tail")
		}
		s.cov("variadic_tail_len", strconv.Itoa(n))
	}
	s.expLog = append(s.expLog, exp)
	s.cov("argc_shape", fmt.Sprintf("params=%d,variadic=%v,args=%d", nFixed, fn.Variadic, len(call.Args)))
	s.count["calls_checked"]++
	var ak []string
	for _, a := range call.Args {
		if a.Inner != nil {
			ak = append(ak, "<call>")
		} else {
			ak = append(ak, a.Pool)
		}
	}
	s.keys = append(s.keys, fn.Sig()+"|"+strings.Join(ak, ",")+"|"+call.Use+"|"+fn.Ret)
	s.counts[fn.Name]++
	if fn.ErrKind != "" && s.counts[fn.Name] == fn.ErrAt {
		s.aborted = true
		s.abortErr = nat.ErrByKind(fn.ErrKind)
		s.abortFn = fn.Name
		s.cov("error_kind_block", fn.ErrKind+"|"+s.cs.Block)
		return nat.Awk{}
	}
	if len(fn.Out) == 0 {
		return nat.Awk{Unset: true}
	}
	r, ok := nat.RetByID(fn.Out[0], fn.Ret)
	if !ok {
		s.missing = "result " + fn.Ret + " of kind " + fn.Out[0]
		return nat.Awk{}
	}
	s.cov("result_kind_shape", fmt.Sprintf("%s/%d", fn.Out[0], len(fn.Out)))
	return r.Awk
}

// resultFields says what the R record of a top-level call must hold.
func (s *c17Sim) resultFields(call *c17Call, v nat.Awk) []c17Field {
	p, okS, okN, okT := c17ModelProbe(v, s.convfmt)
	fs, fn, ft := c17Any, c17Any, c17Any
	if okS {
		fs = c17Lit(p.S)
	}
	if okN && !v.IsStr {
		fn = c17Field{isNum: true, num: p.N}
	}
	if okT {
		ft = c17Lit(map[bool]string{true: "T", false: "F"}[p.T])
	}
	if v.Unset {
		s.count["dontcare_void_result"]++
	} else {
		s.count["results_compared"]++
	}
	switch call.Use {
	case "concat", "index":
		return []c17Field{fs}
	case "cond", "pattern":
		return []c17Field{ft}
	case "stmt":
		return nil
	}
	return []c17Field{fs, fn, ft}
}

// simulate produces the expected recorder log and output records for the whole case.
func (s *c17Sim) simulate() {
	idRec := func(tag string, id int, rest ...c17Field) []c17Field {
		return append([]c17Field{c17Lit(tag), c17Lit(strconv.Itoa(id))}, rest...)
	}
	for ci := range s.cs.Calls {
		call := &s.cs.Calls[ci]
		cid := s.nextID
		// probes of every pool argument in the call tree, in emission order
		var walk func(c *c17Call, id *int)
		walk = func(c *c17Call, id *int) {
			my := *id
			*id++
			for i, a := range c.Args {
				if a.Inner != nil {
					walk(a.Inner, id)
				} else {
					s.expOut = append(s.expOut, idRec("A", my, c17Lit(strconv.Itoa(i)), c17Any, c17Any, c17Any))
				}
			}
		}
		tmp := cid
		walk(call, &tmp)
		s.expOut = append(s.expOut, idRec("PRE", cid))
		v := s.simCall(call)
		if s.missing != "" || s.aborted || s.genErr != "" {
			return
		}
		res := s.resultFields(call, v)
		s.cov("uses", call.Use)
		s.cov("styles", call.Style)
		if call.Use == "pattern" && len(res) == 1 && !res[0].any && res[0].lit == "F" {
			// a false pattern prints nothing
		} else if call.Use == "pattern" && len(res) == 1 && res[0].any {
			s.genErr = "pattern use of a result whose truth value is not modelled"
			return
		} else {
			s.expOut = append(s.expOut, idRec("R", cid, res...))
		}
		s.expOut = append(s.expOut, idRec("Q", cid))
	}
	s.expOut = append(s.expOut, []c17Field{c17Lit("END")})
}

// ---- running and judging one case -----------------------------------------------------------------

func c17HasNamed(cs *c17Case, results bool) bool {
	for _, f := range cs.Funcs {
		l := f.In
		if results {
			l = f.Out
		}
		for _, k := range l {
			if nat.IsNamed(k) {
				return true
			}
		}
	}
	return false
}

func c17PanicClass(cs *c17Case, p string) string {
	first := p
	if i := strings.IndexByte(p, '\n'); i >= 0 {
		first = p[:i]
	}
	switch {
	case (strings.HasPrefix(first, "reflect: Call using ") || (strings.HasPrefix(first, "reflect: cannot use ") && strings.HasSuffix(first, " in Call"))) && c17HasNamed(cs, false):
		return "named-type-param"
	case strings.HasPrefix(first, "unexpected return slice") && c17HasNamed(cs, true):
		return "named-bytes-result"
	}
	return ""
}

func c17Funcs(cs *c17Case, rec *nat.Recorder) (map[string]interface{}, error) {
	funcs := map[string]interface{}{}
	for _, f := range cs.Funcs {
		v, err := nat.Build(f, rec)
		if err != nil {
			return nil, err
		}
		funcs[f.Name] = v
	}
	return funcs, nil
}

func c17Describe(cs *c17Case) string {
	var l []string
	for _, f := range cs.Funcs {
		l = append(l, f.Name+"="+f.Sig())
	}
	return strings.Join(l, " ")
}

func c17FmtLog(log []nat.Call) string {
	var l []string
	for _, c := range log {
		l = append(l, c.String())
	}
	return strings.Join(l, " ; ")
}

func c17FmtExp(log []c17ExpCall) string {
	var l []string
	for _, c := range log {
		l = append(l, fmt.Sprintf("%s%v", c.fn, c.args))
	}
	return strings.Join(l, " ; ")
}

// c17Check runs one case and reports every disagreement with the model. It returns the
// number of (signature, call) pairs judged.
func c17Check(c *core.Ctx, cs *c17Case, verbose bool) int {
	rec := &nat.Recorder{}
	funcs, err := c17Funcs(cs, rec)
	if err != nil {
		c.Inconclusive("c17 generator error: " + err.Error())
		return 0
	}
	var pg c17Prog
	switch {
	case cs.Expect == "reject" && cs.Uncalled:
		pg = c17Prog{src: "BEGIN { print \"ran\" }\n", stdin: "\n"}
	case cs.Expect == "reject":
		pg = c17Prog{src: "BEGIN { print \"ran\"; " + cs.Funcs[0].Name + "() }\n", stdin: "\n"}
	default:
		pg = c17Build(cs)
	}
	if verbose {
		fmt.Printf("functions: %s\nprogram:\n%s\nstdin: %q\nvars: %q\n", c17Describe(cs), pg.src, pg.stdin, pg.vars)
	}
	prog, perr, pm := run.Parse(pg.src, funcs)
	if pm != "" {
		class := ""
		if cs.Expect == "reject" && cs.Funcs[0].NonFunc == "nil" {
			class = "nil-value-parse-panic"
		} else if cs.Expect == "reject" && cs.Funcs[0].NonFunc != "" {
			class = "non-function-parse-panic"
		}
		c.Violation("parse-panic", class, fmt.Sprintf("ParseProgram panicked with Funcs {%s}: %s", c17Describe(cs), c17FirstLine(pm)),
			"a program, a parse error, or rejection at setup", pm, cs)
		return 1
	}

	switch cs.Expect {
	case "parse-error":
		// too many arguments to a non-variadic function
		if perr == nil {
			o := run.Exec(prog, &interp.Config{Funcs: funcs, Stdin: strings.NewReader(pg.stdin), Vars: pg.vars}, run.Opts{})
			c.Violation("too-many-args-accepted", "", "a call with more arguments than the non-variadic Go function has parameters parsed without error ("+c17Describe(cs)+")",
				"*parser.ParseError", "parsed; running it gave: "+o.String(), cs)
			return 1
		}
		if _, ok := perr.(*parser.ParseError); !ok {
			c.Violation("too-many-args-error-type", "", fmt.Sprintf("too many arguments reported as %T, not *parser.ParseError", perr), "*parser.ParseError", perr.Error(), cs)
			return 1
		}
		c.Count("toomany_parse_errors", 1)
		for _, call := range cs.Calls {
			if call.Fn < len(cs.Funcs) && !cs.Funcs[call.Fn].Variadic && len(call.Args) > len(cs.Funcs[call.Fn].In) {
				c.Cover("toomany_shape", fmt.Sprintf("params=%d,args=%d,style=%s,block=%s", len(cs.Funcs[call.Fn].In), len(call.Args), call.Style, cs.Block))
			}
		}
		c.NonTrivial("toomany|" + c17Describe(cs) + "|" + pg.src)
		return 1

	case "reject":
		f0 := cs.Funcs[0]
		what := f0.Sig()
		if lexKeyword(f0.Name) {
			what = "keyword-name " + f0.Name
		}
		if perr != nil {
			// rejected even earlier than setup: nothing ran, which is what matters
			c.Count("rejected_at_parse", 1)
			c.Cover("invalid_rejected", what)
			c.NonTrivial("reject|" + what + fmt.Sprint(cs.Uncalled))
			return 1
		}
		o := run.Exec(prog, &interp.Config{Funcs: funcs, Stdin: strings.NewReader(pg.stdin)}, run.Opts{})
		switch {
		case o.Panic != "" && o.Stdout != "":
			c.Violation("invalid-accepted", "", "Funcs {"+c17Describe(cs)+"} was accepted at setup and the run then panicked: "+c17FirstLine(o.Panic),
				"an error at setup", o.String(), cs)
		case o.Panic != "":
			class := ""
			if f0.NonFunc == "nil" {
				class = "nil-value-setup-panic"
			}
			c.Violation("setup-panic", class, "setting up the interpreter with Funcs {"+c17Describe(cs)+"} panicked: "+c17FirstLine(o.Panic),
				"an error from New/Execute", o.Panic, cs)
		case o.Err == "":
			c.Violation("invalid-accepted", "", "Funcs {"+c17Describe(cs)+"} was accepted: the run ended without error", "an error at setup", o.String(), cs)
		case o.Stdout != "" || len(rec.Log) > 0:
			c.Violation("rejected-late", "", "Funcs {"+c17Describe(cs)+"} was rejected only after the program had started", "no output, no call", o.String()+" calls: "+c17FmtLog(rec.Log), cs)
		default:
			// a reusable Interpreter must reject the map on every Execute, not only on the first
			if ip, nerr := interp.New(prog); nerr == nil && ip != nil {
				for k := 1; k <= 3; k++ {
					rec.Log = nil
					ok := run.Exec(prog, &interp.Config{Funcs: funcs, Stdin: strings.NewReader(pg.stdin)}, run.Opts{Interp: ip})
					c.Count("rejections_on_reused_interpreter", 1)
					if ok.Panic != "" || ok.Err == "" || ok.Stdout != "" || len(rec.Log) > 0 {
						c.Violation("invalid-accepted", "reused-interpreter", fmt.Sprintf("Funcs {%s} is rejected by a first Execute but Execute #%d on the same Interpreter ran: %s", c17Describe(cs), k, core.Clip(ok.String(), 300)),
							"the same setup error on every Execute", ok.String()+" calls: "+c17FmtLog(rec.Log), cs)
						return 1
					}
				}
			}
			c.Count("rejected_at_setup", 1)
			c.Cover("invalid_rejected", what)
			c.Cover("reject_messages", msgClass(o.Err))
			c.NonTrivial("reject|" + what + fmt.Sprint(cs.Uncalled))
		}
		return 1
	}

	// Expect == "run": a valid map and a program within the argument limits.
	if perr != nil {
		c.Violation("valid-program-rejected", "", "ParseProgram rejected a program that calls valid native functions within their parameter counts: "+perr.Error(),
			"parses", perr.Error()+"\n"+pg.src, cs)
		return 1
	}
	cfg := &interp.Config{Funcs: funcs, Stdin: strings.NewReader(pg.stdin), Vars: pg.vars}
	opts := run.Opts{}
	if cs.UseCtx {
		// a live, cancellable context that is never cancelled: ExecuteContext then takes its
		// context-checking paths (context.Background() would switch them off)
		ctx, cancel := context.WithCancel(context.Background())
		defer cancel()
		opts.Ctx = ctx
	}
	o := run.Exec(prog, cfg, opts)
	if verbose {
		fmt.Printf("outcome: %s\nrecorded calls: %s\n", o.String(), c17FmtLog(rec.Log))
	}
	if o.Panic != "" {
		c.Violation("call-panic", c17PanicClass(cs, o.Panic), "panic while running a program that calls {"+c17Describe(cs)+"}: "+c17FirstLine(o.Panic)+" at "+run.PanicSite(o.Panic),
			"converted arguments and results, no panic", o.Panic+"\nrecorded calls: "+c17FmtLog(rec.Log), cs)
		return 1
	}
	if o.StepLimit {
		c.Inconclusive("c17 step limit")
		return 0
	}

	// Parse what the program printed; the A records carry AWK's own view of each argument.
	var records [][]string
	raw := o.Stdout
	if strings.HasSuffix(raw, c17RS) {
		raw = raw[:len(raw)-len(c17RS)]
	}
	if raw != "" {
		for _, r := range strings.Split(raw, c17RS) {
			records = append(records, strings.Split(r, c17FS))
		}
	}
	s := &c17Sim{c: c, cs: cs, convfmt: cs.ConvFmt, probes: map[[2]int]nat.Probe{}, counts: map[string]int{}, count: map[string]int{}}
	if s.convfmt == "" {
		s.convfmt = "%.6g"
	}
	for _, r := range records {
		if len(r) == 6 && r[0] == "A" {
			cid, e1 := strconv.Atoi(r[1])
			i, e2 := strconv.Atoi(r[2])
			n, e3 := strconv.ParseFloat(strings.TrimSpace(r[4]), 64)
			if e3 != nil && math.IsInf(n, 0) {
				e3 = nil // ParseFloat reports range errors together with ±Inf
			}
			if e1 == nil && e2 == nil && e3 == nil && (r[5] == "T" || r[5] == "F") {
				s.probes[[2]int{cid, i}] = nat.Probe{S: r[3], N: n, T: r[5] == "T"}
			}
		}
	}
	s.simulate()
	showOut := func() string {
		var l []string
		for _, r := range records {
			l = append(l, strings.Join(r, "|"))
		}
		return core.Clip(strings.Join(l, " ; "), 1500)
	}
	showExp := func() string {
		var l []string
		for _, r := range s.expOut {
			var f []string
			for _, x := range r {
				f = append(f, x.String())
			}
			l = append(l, strings.Join(f, "|"))
		}
		return core.Clip(strings.Join(l, " ; "), 1500)
	}
	bad := false
	viol := func(kind, class, summary, exp, obs string) {
		bad = true
		c.Violation(kind, class, summary, exp, obs, cs)
	}
	if s.genErr != "" {
		c.Inconclusive("c17 generator error: " + s.genErr)
		return 0
	}
	if o.Err != "" && len(records) == 0 && len(rec.Log) == 0 && len(s.expOut) > 0 && !(s.aborted && len(s.expLog) == 0) {
		c.Violation("valid-map-rejected", "", "the run failed before anything was executed although every function has a documented shape ("+c17Describe(cs)+"): "+o.Err,
			"runs", o.String(), cs)
		return 1
	}
	if s.missing != "" && !s.aborted {
		viol("output-sequence", "", "the program's output lacks "+s.missing+" ("+c17Describe(cs)+")", showExp(), showOut()+"\nerr="+o.Err)
		return 1
	}

	// 1. what the recorders received
	if len(rec.Log) != len(s.expLog) {
		kind := "call-sequence"
		sum := fmt.Sprintf("%d native calls recorded, the model expects %d", len(rec.Log), len(s.expLog))
		if s.aborted && len(rec.Log) > len(s.expLog) {
			kind = "error-did-not-abort"
			sum = fmt.Sprintf("native calls went on after %s returned a non-nil error (%d recorded, %d expected)", s.abortFn, len(rec.Log), len(s.expLog))
		}
		viol(kind, "", sum+" ("+c17Describe(cs)+")", c17FmtExp(s.expLog), c17FmtLog(rec.Log)+"\nerr="+o.Err)
	} else {
		for i, e := range s.expLog {
			g := rec.Log[i]
			if g.Fn != e.fn {
				viol("wrong-function", "", fmt.Sprintf("call %d reached native function %q, the program called %q (%s)", i, g.Fn, e.fn, c17Describe(cs)), c17FmtExp(s.expLog), c17FmtLog(rec.Log))
				break
			}
			if len(g.Args) != len(e.args) {
				viol("arg-count", "", fmt.Sprintf("%s received %d values, expected %d (zero-fill / variadic spreading)", g.Fn, len(g.Args), len(e.args)), fmt.Sprint(e.args), fmt.Sprint(g.Args))
				continue
			}
			for j := range e.args {
				if e.args[j] == "*" || e.args[j] == g.Args[j] {
					continue
				}
				spec := c17FuncByName(cs, g.Fn)
				kind, where := c17ParamAt(spec, j), e.why[j]
				class := ""
				if b := nat.Base(kind); (b == "uint64" || b == "uint") && g.Args[j] == "9223372036854775808" {
					if u, err := strconv.ParseUint(e.args[j], 10, 64); err == nil && u > 1<<63 {
						class = "uint64-arg-above-2^63"
					}
				}
				what := "arg-conversion"
				if where == "zero-fill" || where == "tail-length" {
					what = where
				}
				viol(what, class, fmt.Sprintf("%s (%s) received %s for %s parameter %d (%s), the documented rule gives %s", g.Fn, spec.Sig(), g.Args[j], kind, j, where, e.args[j]),
					fmt.Sprint(e.args), fmt.Sprint(g.Args)+"\noutput: "+showOut())
			}
		}
	}

	// 2. the error and the end of the run
	if s.aborted {
		switch {
		case o.ErrVal == nil:
			viol("error-lost", "", fmt.Sprintf("%s returned error %q but Execute returned nil", s.abortFn, s.abortErr), s.abortErr.Error(), o.String())
		case o.ErrVal != s.abortErr:
			viol("error-identity", "", fmt.Sprintf("%s returned error %q (%T) but Execute returned %q (%T)", s.abortFn, s.abortErr, s.abortErr, o.ErrVal, o.ErrVal),
				fmt.Sprintf("%T %q", s.abortErr, s.abortErr), fmt.Sprintf("%T %q", o.ErrVal, o.ErrVal))
		}
	} else if o.Err != "" {
		viol("unexpected-error", "", "the run ended with an error although no function returned one: "+o.Err, "nil", o.Err)
	}

	// 3. results and markers, record by record
	if len(records) != len(s.expOut) {
		kind := "output-sequence"
		if s.aborted && len(records) > len(s.expOut) {
			kind = "error-did-not-abort"
		}
		viol(kind, "", fmt.Sprintf("%d output records, the model expects %d (%s)", len(records), len(s.expOut), c17Describe(cs)), showExp(), showOut())
	} else {
		for i, e := range s.expOut {
			g := records[i]
			ok := len(g) == len(e)
			for j := 0; ok && j < len(e); j++ {
				ok = e[j].match(g[j])
			}
			if !ok {
				var f []string
				for _, x := range e {
					f = append(f, x.String())
				}
				kind := "output-sequence"
				if len(e) > 0 && e[0].lit == "R" && len(g) > 0 && g[0] == "R" {
					kind = "result-conversion"
				}
				viol(kind, "", fmt.Sprintf("output record %d is %q, expected %s (%s)", i, strings.Join(g, "|"), strings.Join(f, "|"), c17Describe(cs)), showExp(), showOut())
				break
			}
		}
	}

	// 4. evaluation-stack balance at block ends (verif hook)
	if len(o.Faults) > 0 {
		viol("stack-fault", "", "evaluation stack unbalanced after native calls: "+strings.Join(o.Faults, "; "), "balanced", strings.Join(o.Faults, "; "))
	}

	if !bad {
		for _, kv := range s.cover {
			c.Cover(kv[0], kv[1])
		}
		for k, n := range s.count {
			c.Count(k, n)
		}
		for _, k := range s.keys {
			c.NonTrivial(k)
		}
		c.Cover("blocks", cs.Block)
		if s.aborted {
			c.Count("error_aborts_checked", 1)
		}
		if cs.UseCtx {
			c.Count("runs_with_context", 1)
		}
		if len(cs.Funcs) > 1 {
			c.Count("multi_function_maps", 1)
		}
	}
	n := len(s.expLog)
	if n == 0 {
		n = 1
	}
	return n
}

func c17FirstLine(s string) string {
	if i := strings.IndexByte(s, '\n'); i >= 0 {
		s = s[:i]
	}
	return core.Clip(s, 200)
}

func lexKeyword(name string) bool {
	for _, k := range c17Keywords {
		if k == name {
			return true
		}
	}
	return false
}

func c17FuncByName(cs *c17Case, name string) nat.FuncSpec {
	for _, f := range cs.Funcs {
		if f.Name == name {
			return f
		}
	}
	return nat.FuncSpec{Name: name}
}

// c17ParamAt maps index j of a recorded argument list back to the parameter kind.
func c17ParamAt(f nat.FuncSpec, j int) string {
	nFixed := len(f.In)
	if f.Variadic {
		nFixed--
	}
	switch {
	case j < nFixed:
		return f.In[j]
	case f.Variadic && j > nFixed:
		return f.In[nFixed]
	}
	return "-"
}

// ---- generators -----------------------------------------------------------------------------------

func c17Pick(rng *rand.Rand, l []string) string { return l[rng.Intn(len(l))] }

func c17RandRet(rng *rand.Rand, kind string) string {
	r := nat.Rets(kind)
	return r[rng.Intn(len(r))].ID
}

// c17RandFunc makes a random valid signature with up to maxParams parameters.
func c17RandFunc(rng *rand.Rand, name string, maxParams int) nat.FuncSpec {
	f := nat.FuncSpec{Name: name}
	n := rng.Intn(maxParams + 1)
	for i := 0; i < n; i++ {
		f.In = append(f.In, c17Pick(rng, nat.Kinds))
	}
	if n > 0 && rng.Intn(10) < 3 {
		f.Variadic = true
	}
	switch rng.Intn(5) {
	case 0:
	case 1, 2:
		f.Out = []string{c17Pick(rng, nat.Kinds)}
	default:
		f.Out = []string{c17Pick(rng, nat.Kinds), "error"}
	}
	if len(f.Out) > 0 {
		f.Ret = c17RandRet(rng, f.Out[0])
	}
	return f
}

func c17RandArgs(rng *rand.Rand, n int) []c17Arg {
	args := make([]c17Arg, n)
	for i := range args {
		args[i] = c17Arg{Pool: nat.Args[rng.Intn(len(nat.Args))].ID}
	}
	return args
}

// c17Finish fills the remaining choices of a case.
func c17Finish(rng *rand.Rand, cs *c17Case) {
	if cs.Block == "" {
		cs.Block = c17Pick(rng, c17Blocks)
	}
	if cs.ConvFmt == "" {
		cs.ConvFmt = c17ConvFmts[0]
		if rng.Intn(3) == 0 {
			cs.ConvFmt = c17Pick(rng, c17ConvFmts)
		}
	}
	for i := range cs.Calls {
		if cs.Calls[i].Use == "" {
			cs.Calls[i].Use = c17Pick(rng, c17Uses)
		}
		if cs.Calls[i].Style == "" {
			cs.Calls[i].Style = c17Pick(rng, c17Styles)
		}
		for j := range cs.Calls[i].Args {
			if in := cs.Calls[i].Args[j].Inner; in != nil {
				if in.Style == "" {
					in.Style = c17Pick(rng, c17Styles)
				}
				in.Use = "inner"
			}
		}
	}
	if cs.Expect == "" {
		cs.Expect = "run"
		for _, call := range cs.Calls {
			if c17TooMany(cs, &call) {
				cs.Expect = "parse-error"
			}
		}
	}
}

func c17TooMany(cs *c17Case, call *c17Call) bool {
	f := cs.Funcs[call.Fn]
	if !f.Variadic && len(call.Args) > len(f.In) {
		return true
	}
	for _, a := range call.Args {
		if a.Inner != nil && c17TooMany(cs, a.Inner) {
			return true
		}
	}
	return false
}

// c17TruthModelled reports whether the truth value of f's result is pinned down (needed
// for the pattern use, where a false pattern prints nothing).
func c17TruthModelled(f nat.FuncSpec) bool {
	if len(f.Out) == 0 {
		return false
	}
	r, ok := nat.RetByID(f.Out[0], f.Ret)
	if !ok {
		return false
	}
	_, _, _, okT := c17ModelProbe(r.Awk, "%.6g")
	return okT
}

// systematic family 1: every kind in every parameter position, fixed and as variadic tail,
// with every argument count from 0 to n+2.
func c17GenKindPos(rng *rand.Rand, idx, maxPos int, longTails []int) []c17Case {
	kind := nat.Kinds[idx%len(nat.Kinds)]
	pos := (idx / len(nat.Kinds)) % maxPos
	variadic := (idx/(len(nat.Kinds)*maxPos))%2 == 1
	f := nat.FuncSpec{Name: c17Pick(rng, c17Names)}
	for i := 0; i < pos; i++ {
		f.In = append(f.In, c17Pick(rng, nat.Kinds))
	}
	f.In = append(f.In, kind)
	f.Variadic = variadic
	if !variadic {
		for i := rng.Intn(2); i > 0; i-- {
			f.In = append(f.In, c17Pick(rng, nat.Kinds))
		}
	}
	if rng.Intn(2) == 0 {
		f.Out = []string{c17Pick(rng, nat.Kinds)}
		f.Ret = c17RandRet(rng, f.Out[0])
	}
	n := len(f.In)
	var out []c17Case
	ok := c17Case{Family: "kindpos", Funcs: []nat.FuncSpec{f}}
	for m := 0; m <= n+2; m++ {
		call := c17Call{Fn: 0, Args: c17RandArgs(rng, m)}
		if m > n && !variadic {
			bad := c17Case{Family: "toomany", Funcs: []nat.FuncSpec{f}, Calls: []c17Call{call}}
			c17Finish(rng, &bad)
			out = append(out, bad)
			continue
		}
		ok.Calls = append(ok.Calls, call)
	}
	if variadic {
		// a long tail as well (beyond any small preallocated argument list)
		for _, m := range longTails {
			ok.Calls = append(ok.Calls, c17Call{Fn: 0, Args: c17RandArgs(rng, n-1+m)})
		}
	}
	c17Finish(rng, &ok)
	return append(out, ok)
}

// systematic family 2: every kind x every pool argument (5 pool entries per program), once
// as a fixed parameter and once spread over a variadic tail.
func c17GenArgKind(rng *rand.Rand, idx int) c17Case {
	const group = 5
	groups := (len(nat.Args) + group - 1) / group
	kind := nat.Kinds[idx%len(nat.Kinds)]
	g := (idx / len(nat.Kinds)) % groups
	variant := idx / (len(nat.Kinds) * groups)
	f := nat.FuncSpec{Name: "f", In: []string{kind}}
	cs := c17Case{Family: "argkind", Funcs: []nat.FuncSpec{f}}
	cs.ConvFmt = c17ConvFmts[(variant/2)%len(c17ConvFmts)]
	style := c17Styles[(variant/2+idx)%len(c17Styles)]
	var ids []string
	for i := g * group; i < (g+1)*group && i < len(nat.Args); i++ {
		ids = append(ids, nat.Args[i].ID)
	}
	if variant%2 == 1 {
		cs.Funcs[0].Variadic = true
		call := c17Call{Fn: 0, Style: style}
		for _, id := range ids {
			call.Args = append(call.Args, c17Arg{Pool: id})
		}
		cs.Calls = []c17Call{call}
	} else {
		for _, id := range ids {
			cs.Calls = append(cs.Calls, c17Call{Fn: 0, Style: style, Args: []c17Arg{{Pool: id}}})
		}
	}
	c17Finish(rng, &cs)
	return cs
}

// systematic family 3: every result value of every kind, as single result and with a nil
// error, observed through every use.
func c17GenResults(rng *rand.Rand) []c17Case {
	var out []c17Case
	for _, kind := range nat.Kinds {
		for _, r := range nat.Rets(kind) {
			for shape := 1; shape <= 2; shape++ {
				f := nat.FuncSpec{Name: c17Pick(rng, c17Names), Out: []string{kind}, Ret: r.ID}
				if shape == 2 {
					f.Out = append(f.Out, "error")
				}
				cs := c17Case{Family: "results", Funcs: []nat.FuncSpec{f}}
				for _, use := range c17Uses {
					cs.Calls = append(cs.Calls, c17Call{Fn: 0, Use: use})
				}
				if rng.Intn(2) == 0 {
					cs.Block = "main"
					if c17TruthModelled(f) {
						cs.Calls = append(cs.Calls, c17Call{Fn: 0, Use: "pattern"})
					}
				}
				// the result handed on to a second native function of every kind class
				for _, k2 := range []string{"bool", "int64", "float64", "string", c17Pick(rng, nat.Kinds)} {
					cs.Funcs = append(cs.Funcs, nat.FuncSpec{Name: "h" + strconv.Itoa(len(cs.Funcs)), In: []string{k2}})
					cs.Calls = append(cs.Calls, c17Call{Fn: len(cs.Funcs) - 1, Use: "stmt", Args: []c17Arg{{Inner: &c17Call{Fn: 0}}}})
				}
				c17Finish(rng, &cs)
				out = append(out, cs)
			}
		}
	}
	// functions without a result
	for _, blk := range c17Blocks {
		cs := c17Case{Family: "results", Block: blk, Funcs: []nat.FuncSpec{{Name: "v", In: []string{"int"}}, {Name: "h", In: []string{"string"}, Out: []string{"int"}, Ret: "42"}}}
		for _, use := range c17Uses {
			cs.Calls = append(cs.Calls, c17Call{Fn: 0, Use: use, Args: c17RandArgs(rng, 1)}, c17Call{Fn: 1, Use: "assign", Args: c17RandArgs(rng, 1)})
		}
		c17Finish(rng, &cs)
		out = append(out, cs)
	}
	return out
}

// systematic family 4: a non-nil error, of every kind, in every block, on the first or a
// later call, at top level / inside another native call / as a pattern / behind a wrapper.
func c17GenErrors(rng *rand.Rand) []c17Case {
	var out []c17Case
	for _, ek := range nat.ErrKinds {
		for _, blk := range c17Blocks {
			for errAt := 1; errAt <= 2; errAt++ {
				for shape := 0; shape < 4; shape++ {
					k := c17Pick(rng, nat.Kinds)
					fe := nat.FuncSpec{Name: "fe", In: []string{c17Pick(rng, nat.Kinds)}, Out: []string{k, "error"}, Ret: c17RandRet(rng, k), ErrKind: ek, ErrAt: errAt}
					k2 := c17Pick(rng, nat.Kinds)
					g := nat.FuncSpec{Name: "g", In: []string{c17Pick(rng, nat.Kinds)}, Out: []string{k2}, Ret: c17RandRet(rng, k2)}
					cs := c17Case{Family: "errors", Block: blk, Funcs: []nat.FuncSpec{fe, g}, UseCtx: rng.Intn(3) == 0}
					callG := func() c17Call { return c17Call{Fn: 1, Args: c17RandArgs(rng, 1)} }
					callE := func() c17Call { return c17Call{Fn: 0, Args: c17RandArgs(rng, 1)} }
					switch shape {
					case 0:
						cs.Calls = []c17Call{callG(), callE(), callG(), callE(), callG()}
					case 1: // the failing call is an argument of another native call
						in1, in2 := callE(), callE()
						cs.Calls = []c17Call{callG(), {Fn: 1, Args: []c17Arg{{Inner: &in1}}}, {Fn: 1, Args: []c17Arg{{Inner: &in2}}}, callG()}
					case 2: // behind an AWK wrapper function, result dropped
						e1, e2 := callE(), callE()
						e1.Style, e2.Style, e1.Use, e2.Use = "local", "local", "stmt", "cond"
						cs.Calls = []c17Call{e1, callG(), e2, callG()}
					default: // as a pattern (main block only)
						e1, e2 := callE(), callE()
						if blk == "main" && (errAt == 1 || c17TruthModelled(nat.FuncSpec{Out: fe.Out, Ret: fe.Ret})) {
							e1.Use, e2.Use = "pattern", "pattern"
						} else {
							e1.Use, e2.Use = "index", "concat"
						}
						cs.Calls = []c17Call{callG(), e1, e2, callG()}
					}
					c17Finish(rng, &cs)
					out = append(out, cs)
				}
			}
		}
	}
	return out
}

// systematic family 5: maps that must be rejected at setup.
func c17GenInvalid(rng *rand.Rand) []c17Case {
	var out []c17Case
	add := func(f nat.FuncSpec, extraValid bool) {
		for _, uncalled := range []bool{false, true} {
			cs := c17Case{Family: "invalid", Funcs: []nat.FuncSpec{f}, Uncalled: uncalled, Expect: "reject"}
			if extraValid {
				cs.Funcs = append(cs.Funcs, nat.FuncSpec{Name: "okfn", In: []string{"int"}, Out: []string{"int"}, Ret: "1"})
			}
			out = append(out, cs)
		}
	}
	for i, k := range nat.InvalidKinds {
		v := c17Pick(rng, nat.Kinds)
		add(nat.FuncSpec{Name: "f", In: []string{k}}, i%2 == 0)
		add(nat.FuncSpec{Name: "f", In: []string{v, k}}, false)
		add(nat.FuncSpec{Name: "f", In: []string{v, v, k, v}}, false)
		add(nat.FuncSpec{Name: "f", In: []string{v, k}, Variadic: true}, false)
		add(nat.FuncSpec{Name: "f", Out: []string{k}}, i%2 == 1)
		add(nat.FuncSpec{Name: "f", Out: []string{k, "error"}}, false)
		if k != "error" {
			add(nat.FuncSpec{Name: "f", In: []string{v}, Out: []string{v, k}}, false) // second result not error
		}
	}
	for _, v := range nat.Kinds {
		add(nat.FuncSpec{Name: "f", Out: []string{v, v}}, false)
		add(nat.FuncSpec{Name: "f", Out: []string{v, "*errT"}}, false) // implements error, is not error
		add(nat.FuncSpec{Name: "f", Out: []string{v, v, "error"}}, false)
		add(nat.FuncSpec{Name: "f", Out: []string{v, "error", "error"}}, false)
		add(nat.FuncSpec{Name: "f", Out: []string{"error", v}}, false)
	}
	add(nat.FuncSpec{Name: "f", Out: []string{"error", "error"}}, false)
	add(nat.FuncSpec{Name: "f", Out: []string{"int", "int", "int", "int"}}, false)
	for _, nf := range []string{"int", "string", "nil", "struct", "ptrfunc", "slice"} {
		add(nat.FuncSpec{Name: "f", NonFunc: nf}, false)
		add(nat.FuncSpec{Name: "f", NonFunc: nf}, true)
	}
	for _, kw := range c17Keywords {
		f := c17RandFunc(rng, kw, 3)
		out = append(out, c17Case{Family: "keyword", Funcs: []nat.FuncSpec{f}, Uncalled: true, Expect: "reject"})
	}
	return out
}

// systematic family 6: defined types of documented kinds (accepted at setup by kind).
func c17GenNamed(rng *rand.Rand) []c17Case {
	var out []c17Case
	for _, k := range nat.NamedKinds {
		v := c17Pick(rng, nat.Kinds)
		sigs := []nat.FuncSpec{
			{Name: "f", In: []string{k}},
			{Name: "f", In: []string{v, k}},
			{Name: "f", In: []string{v, k}, Variadic: true},
			{Name: "f", In: []string{v}, Out: []string{k}},
			{Name: "f", Out: []string{k, "error"}},
		}
		for _, f := range sigs {
			if len(f.Out) > 0 {
				f.Ret = c17RandRet(rng, f.Out[0])
			}
			cs := c17Case{Family: "named", Funcs: []nat.FuncSpec{f}}
			for i := 0; i < 2; i++ {
				n := len(f.In)
				if f.Variadic {
					n++
				}
				cs.Calls = append(cs.Calls, c17Call{Fn: 0, Args: c17RandArgs(rng, n)})
			}
			c17Finish(rng, &cs)
			out = append(out, cs)
		}
	}
	return out
}

// random family: several functions under order-hostile names, random calls.
func c17GenRandom(rng *rand.Rand, thorough bool) c17Case {
	maxParams, maxTail := 4, 8
	if thorough {
		maxParams, maxTail = 6, 40
	}
	cs := c17Case{Family: "random"}
	names := append([]string{}, c17Names...)
	rng.Shuffle(len(names), func(i, j int) { names[i], names[j] = names[j], names[i] })
	nf := 1 + rng.Intn(4)
	for i := 0; i < nf; i++ {
		f := c17RandFunc(rng, names[i], maxParams)
		if len(f.Out) == 2 && rng.Intn(6) == 0 {
			f.ErrKind = c17Pick(rng, nat.ErrKinds)
			f.ErrAt = 1 + rng.Intn(2)
		}
		cs.Funcs = append(cs.Funcs, f)
	}
	cs.Block = c17Pick(rng, c17Blocks)
	var mkCall func(depth int) c17Call
	mkCall = func(depth int) c17Call {
		fi := rng.Intn(len(cs.Funcs))
		f := cs.Funcs[fi]
		n := len(f.In)
		var m int
		switch {
		case f.Variadic && rng.Intn(8) == 0:
			m = n - 1 + rng.Intn(maxTail+1)
		case f.Variadic:
			m = rng.Intn(n + 3)
		case rng.Intn(25) == 0:
			m = n + 1 + rng.Intn(2) // too many: the whole program must fail to parse
		default:
			m = rng.Intn(n + 1)
			if rng.Intn(2) == 0 {
				m = n
			}
		}
		call := c17Call{Fn: fi, Args: c17RandArgs(rng, m)}
		if depth < 2 && m > 0 && rng.Intn(6) == 0 {
			in := mkCall(depth + 1)
			call.Args[rng.Intn(m)] = c17Arg{Inner: &in}
		}
		return call
	}
	nc := 1 + rng.Intn(4)
	for i := 0; i < nc; i++ {
		call := mkCall(0)
		if cs.Block == "main" && rng.Intn(6) == 0 && c17TruthModelled(cs.Funcs[call.Fn]) {
			call.Use = "pattern"
		}
		cs.Calls = append(cs.Calls, call)
	}
	cs.UseCtx = rng.Intn(5) == 0
	if rng.Intn(8) == 0 {
		// an AWK definition under the name of a native function that the program never calls
		used := map[int]bool{}
		var mark func(c *c17Call)
		mark = func(c *c17Call) {
			used[c.Fn] = true
			for _, a := range c.Args {
				if a.Inner != nil {
					mark(a.Inner)
				}
			}
		}
		for i := range cs.Calls {
			mark(&cs.Calls[i])
		}
		for i, f := range cs.Funcs {
			if !used[i] {
				cs.Override = f.Name
				break
			}
		}
		if cs.Override == "" && len(cs.Funcs) < len(names) {
			f := c17RandFunc(rng, names[len(cs.Funcs)], maxParams)
			cs.Funcs = append(cs.Funcs, f)
			cs.Override = f.Name
		}
	}
	c17Finish(rng, &cs)
	return cs
}

func c17SampleOf(cs *c17Case) map[string]interface{} {
	pg := c17Build(cs)
	return map[string]interface{}{"family": cs.Family, "funcs": c17Describe(cs), "program": pg.src, "stdin": pg.stdin, "expect": cs.Expect}
}

func init() {
	n := func(t core.Tier, q, th int) int {
		if t == core.Thorough {
			return th
		}
		return q
	}
	core.Register(&core.Property{
		ID:    "C17",
		Level: "exploration",
		Rule: "Funcs maps of recorder functions made with reflect.FuncOf/MakeFunc and generated programs calling them. Systematic families: every documented kind in " +
			"every parameter position (fixed and variadic tail) x argument counts 0..n+2; every kind x every pool argument (numbers incl. negative, fractional, huge, " +
			"nan, inf; numeric and other strings; input-provenance strings; unset); every result value of every kind with 1 and 2 results through every use; every error " +
			"value x block x first/later call x call shape; invalid shapes, non-function values and keyword names; defined types. Random family: 1-4 functions under " +
			"order-hostile names, 1-4 calls, nested calls, AWK wrappers, six program blocks. An evaluation is one (signature, call) pair judged (or one rejected map / " +
			"parse-error program); non-trivial = distinct (signature, argument ids, use, result id) whose case compared equal to the model",
		Assumptions: []string{
			"the reference for an argument is AWK's own view of the value printed by the same program (string form under CONVFMT, number via %.17g, truth via ?:); the conversion rule applied to it is re-stated in the harness",
			"integer kinds are compared only when the truncated number lies inside the kind's range; NaN to integer kinds, float32 beyond its range, the value of a call to a function without results, and numeric-string-ness of string results are don't-cares",
			"a map with an invalid entry may be rejected by ParseProgram or by New/Execute, but before any output or call; builtin function names count as keywords (lexer keyword tokens)",
		},
		NBatches: func(t core.Tier) int { return n(t, 16, 64) },
		// Every case builds a fresh interpreter (64 KiB buffers each), so the children are
		// allocation-bound; a laxer collector target cuts their CPU time.
		ChildEnv: func(t core.Tier) []string { return []string{"GOGC=400"} },
		Floors: func(t core.Tier) map[string]int {
			return map[string]int{
				"evaluations": n(t, 30000, 1500000), "distinct_nontrivial": n(t, 20000, 500000),
				// 15 kinds x (positions 0..3 + variadic tail); argument class x kind pairs the table pins down
				// (nan/inf/huge x narrow integer kinds are don't-cares and cannot be covered)
				"param_kind_pos": 15 * 5, "argclass_kind": 140, "result_kind_shape": 30, "zero_fill": 15, "variadic_tail_len": 8,
				"invalid_rejected": 200, "result_typing_rows": 40, "override_programs": 64, "rejected_at_setup": 350, "toomany_parse_errors": n(t, 800, 20000), "error_aborts_checked": n(t, 800, 20000),
				"error_kind_block": len(nat.ErrKinds) * len(c17Blocks), "blocks": len(c17Blocks), "uses": 6, "styles": 3,
				"args_compared": n(t, 30000, 1500000), "results_compared": n(t, 15000, 500000), "zero_filled_params": n(t, 8000, 300000),
				"multi_function_maps": n(t, 6000, 300000), "runs_with_context": n(t, 1500, 50000), "value_model_agrees": n(t, 30000, 1000000),
			}
		},
		Run: func(c *core.Ctx) {
			c17ResultTyping(c, false)
			c17Override(c, false)
			rng := c.Rand("gen")
			thorough := c.Tier == core.Thorough
			i := 0
			one := func(cs c17Case) {
				c.Begin(cs)
				c.Count("family_"+cs.Family, 1)
				c.Eval(c17Check(c, &cs, false))
				i++
				if i%997 == 1 && c.WantSample() {
					c.Sample(c17SampleOf(&cs))
				}
			}
			// Systematic families. Their case lists are drawn from a PRNG that is the same
			// in every batch, and partitioned with Mine.
			sys := c.RandGlobal("systematic")
			var all []c17Case
			maxPos := n(c.Tier, 4, 6)
			reps := n(c.Tier, 2, 12)
			longTails := []int{33}
			if thorough {
				longTails = []int{33, 300}
			}
			for r := 0; r < reps; r++ {
				for idx := 0; idx < len(nat.Kinds)*maxPos*2; idx++ {
					all = append(all, c17GenKindPos(sys, idx, maxPos, longTails)...)
				}
			}
			groups := (len(nat.Args) + 4) / 5
			variants := n(c.Tier, 2, 2*len(c17ConvFmts)*len(c17Styles))
			for idx := 0; idx < len(nat.Kinds)*groups*variants; idx++ {
				all = append(all, c17GenArgKind(sys, idx))
			}
			for r := 0; r < n(c.Tier, 1, 6); r++ {
				all = append(all, c17GenResults(sys)...)
				all = append(all, c17GenErrors(sys)...)
			}
			all = append(all, c17GenInvalid(sys)...)
			for r := 0; r < n(c.Tier, 1, 4); r++ {
				all = append(all, c17GenNamed(sys)...)
			}
			for k := range all {
				if c.Mine(k) {
					one(all[k])
				}
			}
			// Random family.
			total := n(c.Tier, 24000, 1600000) / c.NBatches
			for k := 0; k < total; k++ {
				one(c17GenRandom(rng, thorough))
			}
		},
		Replay: func(c *core.Ctx, raw json.RawMessage) {
			if strings.Contains(string(raw), `"family":"result-typing"`) || strings.Contains(string(raw), `"family": "result-typing"`) {
				c17ResultTyping(c, true)
				return
			}
			if strings.Contains(string(raw), `"family":"override"`) || strings.Contains(string(raw), `"family": "override"`) {
				c17Override(c, true)
				return
			}
			var cs c17Case
			if err := json.Unmarshal(raw, &cs); err != nil {
				fmt.Println("cannot decode case:", err)
				return
			}
			c17Check(c, &cs, true)
		},
	})
}
