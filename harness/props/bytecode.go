package props

// Compiled-program invariant ("B" in DESIGN.md): at the quiescent point between compile and
// run, every code block of prog.Compiled is walked with an arity / stack-effect table written
// from the comments in internal/compiler/opcodes.go and the VM's documented behaviour. It checks
// that every operand is present, every jump lands on an instruction boundary inside its block,
// every constant / variable / function index is in range, and the abstract evaluation-stack
// height is never negative, agrees on all paths into a join and is 0 at the end of statement
// blocks (1 at the end of pattern blocks). This is a structural invariant of a live data
// structure; it holds for all inputs of the program, including branches no input takes.

import (
	"fmt"
	"sync"

	"github.com/benhoyt/goawk/lexer"
	"github.com/benhoyt/goawk/parser"
	vh "github.com/benhoyt/goawk/verifhook"
)

type opInfo struct {
	operands int  // fixed operand words (CallUser has a variable tail)
	pop      int  // values consumed
	push     int  // values produced
	need     int  // minimum stack height required (>= pop)
	term     bool // ends the block (no fall-through)
	special  string
}

var (
	opTableOnce sync.Once
	opByName    map[string]opInfo
	opNames     []string // index = opcode number
)

func buildOpTable() {
	opByName = map[string]opInfo{
		"Nop": {}, "Num": {operands: 1, push: 1, special: "num"}, "Str": {operands: 1, push: 1, special: "str"},
		"Dupe": {push: 1, need: 1}, "Drop": {pop: 1}, "Swap": {need: 2}, "Rote": {need: 3},
		"Field": {pop: 1, push: 1}, "FieldInt": {operands: 1, push: 1}, "FieldByName": {pop: 1, push: 1},
		"FieldByNameStr": {operands: 1, push: 1, special: "str"},
		"Global":         {operands: 1, push: 1, special: "global"}, "Local": {operands: 1, push: 1, special: "local"},
		"Special":     {operands: 1, push: 1, special: "special"},
		"ArrayGlobal": {operands: 1, pop: 1, push: 1, special: "garray"}, "ArrayLocal": {operands: 1, pop: 1, push: 1, special: "larray"},
		"InGlobal": {operands: 1, pop: 1, push: 1, special: "garray"}, "InLocal": {operands: 1, pop: 1, push: 1, special: "larray"},
		"AssignField": {pop: 2}, "AssignFieldSub": {pop: 2, need: 3},
		"AssignGlobal": {operands: 1, pop: 1, special: "global"}, "AssignLocal": {operands: 1, pop: 1, special: "local"},
		"AssignSpecial":     {operands: 1, pop: 1, special: "special"},
		"AssignArrayGlobal": {operands: 1, pop: 2, special: "garray"}, "AssignArrayLocal": {operands: 1, pop: 2, special: "larray"},
		"Delete": {operands: 2, pop: 1, special: "scopedarray"}, "DeleteAll": {operands: 2, special: "scopedarray"},
		"IncrField": {operands: 1, pop: 1, special: "incr"}, "IncrGlobal": {operands: 2, special: "incr-global"}, "IncrLocal": {operands: 2, special: "incr-local"},
		"IncrSpecial":     {operands: 2, special: "incr-special"},
		"IncrArrayGlobal": {operands: 2, pop: 1, special: "incr-garray"}, "IncrArrayLocal": {operands: 2, pop: 1, special: "incr-larray"},
		"AugAssignField": {operands: 1, pop: 2, special: "aug"}, "AugAssignGlobal": {operands: 2, pop: 1, special: "aug-global"},
		"AugAssignLocal": {operands: 2, pop: 1, special: "aug-local"}, "AugAssignSpecial": {operands: 2, pop: 1, special: "aug-special"},
		"AugAssignArrayGlobal": {operands: 2, pop: 2, special: "aug-garray"}, "AugAssignArrayLocal": {operands: 2, pop: 2, special: "aug-larray"},
		"Regex":      {operands: 1, push: 1, special: "regex"},
		"IndexMulti": {operands: 1, special: "multi"}, "ConcatMulti": {operands: 1, special: "multi"},
		"Not": {pop: 1, push: 1}, "UnaryMinus": {pop: 1, push: 1}, "UnaryPlus": {pop: 1, push: 1}, "Boolean": {pop: 1, push: 1},
		"Jump": {operands: 1, special: "jump"}, "JumpFalse": {operands: 1, pop: 1, special: "cjump"}, "JumpTrue": {operands: 1, pop: 1, special: "cjump"},
		"Next": {term: true}, "Nextfile": {term: true}, "Exit": {term: true}, "ExitStatus": {pop: 1, term: true},
		"ForIn": {operands: 5, special: "forin"}, "BreakForIn": {term: true, special: "breakforin"},
		"CallBuiltin": {operands: 1, special: "builtin"}, "CallLengthArray": {operands: 2, push: 1, special: "scopedarray"},
		"CallSplit": {operands: 2, pop: 1, push: 1, special: "scopedarray"}, "CallSplitSep": {operands: 3, pop: 2, push: 1, special: "scopedarray"},
		"CallSprintf": {operands: 1, special: "sprintf"},
		"CallUser":    {operands: 2, special: "calluser"}, "CallNative": {operands: 2, special: "callnative"},
		"Return": {pop: 1, term: true}, "ReturnNull": {term: true}, "Nulls": {operands: 1, special: "nulls"},
		"Print": {operands: 2, special: "print"}, "Printf": {operands: 2, special: "print"},
		"Getline": {operands: 1, push: 1, special: "getline"}, "GetlineField": {operands: 1, pop: 1, push: 1, special: "getline"},
		"GetlineGlobal": {operands: 2, push: 1, special: "getline-global"}, "GetlineLocal": {operands: 2, push: 1, special: "getline-local"},
		"GetlineSpecial": {operands: 2, push: 1, special: "getline-special"}, "GetlineArray": {operands: 3, pop: 1, push: 1, special: "getline-array"},
	}
	for _, n := range []string{"Add", "Subtract", "Multiply", "Divide", "Power", "Modulo", "Equals", "NotEquals", "Less", "Greater", "LessOrEqual", "GreaterOrEqual", "Concat", "Match", "NotMatch"} {
		opByName[n] = opInfo{pop: 2, push: 1}
	}
	for _, n := range []string{"JumpEquals", "JumpNotEquals", "JumpLess", "JumpGreater", "JumpLessOrEqual", "JumpGreaterOrEqual"} {
		opByName[n] = opInfo{operands: 1, pop: 2, special: "cjump"}
	}
	for i := 0; i < int(vh.EndOpcode); i++ {
		opNames = append(opNames, vh.Opcode(i).String())
	}
}

func opcodeName(op int32) string {
	opTableOnce.Do(buildOpTable)
	if op < 0 || int(op) >= len(opNames) {
		return fmt.Sprintf("op%d", op)
	}
	return opNames[op]
}

func allOpcodeNames() []string {
	opTableOnce.Do(buildOpTable)
	var l []string
	for _, n := range opNames {
		if n != "Nop" && n != "EndOpcode" {
			l = append(l, n)
		}
	}
	return l
}

// builtin stack effects (pop, push) by BuiltinOp name.
var builtinEffect = map[string][2]int{
	"BuiltinAtan2": {2, 1}, "BuiltinClose": {1, 1}, "BuiltinCos": {1, 1}, "BuiltinExp": {1, 1}, "BuiltinFflush": {1, 1}, "BuiltinFflushAll": {0, 1},
	"BuiltinGsub": {3, 2}, "BuiltinIndex": {2, 1}, "BuiltinInt": {1, 1}, "BuiltinLength": {0, 1}, "BuiltinLengthArg": {1, 1}, "BuiltinLog": {1, 1},
	"BuiltinMatch": {2, 1}, "BuiltinRand": {0, 1}, "BuiltinSin": {1, 1}, "BuiltinSqrt": {1, 1}, "BuiltinSrand": {0, 1}, "BuiltinSrandSeed": {1, 1},
	"BuiltinSub": {3, 2}, "BuiltinSubstr": {2, 1}, "BuiltinSubstrLength": {3, 1}, "BuiltinSystem": {1, 1}, "BuiltinTolower": {1, 1}, "BuiltinToupper": {1, 1},
}

type codeEnv struct {
	prog       *parser.Program
	nGlobals   int
	nArrays    int
	fn         *vh.CompiledFunction // nil outside functions
	inForIn    bool
	unknownOps map[string]bool
}

// checkCompiled returns "" if the compiled program is well-formed, else a description.
func checkCompiled(prog *parser.Program) string {
	opTableOnce.Do(buildOpTable)
	cp := prog.Compiled
	env := &codeEnv{prog: prog, unknownOps: map[string]bool{}}
	prog.IterVars("", func(name string, info vh.VarInfo) {
		if info.Type == vh.TypeArray {
			env.nArrays++
		} else {
			env.nGlobals++
		}
	})
	if f := checkBlock(env, cp.Begin, 0, "BEGIN"); f != "" {
		return f
	}
	for i, a := range cp.Actions {
		for j, pat := range a.Pattern {
			if f := checkBlock(env, pat, 1, fmt.Sprintf("pattern %d.%d", i, j)); f != "" {
				return f
			}
		}
		if f := checkBlock(env, a.Body, 0, fmt.Sprintf("action %d", i)); f != "" {
			return f
		}
	}
	if f := checkBlock(env, cp.End, 0, "END"); f != "" {
		return f
	}
	for i := range cp.Functions {
		fn := &cp.Functions[i]
		if fn.NumScalars+fn.NumArrays != len(fn.Params) || len(fn.Arrays) != len(fn.Params) {
			return fmt.Sprintf("function %s: NumScalars+NumArrays != number of parameters", fn.Name)
		}
		env.fn = fn
		if f := checkBlock(env, fn.Body, 0, "function "+fn.Name); f != "" {
			return f
		}
		env.fn = nil
	}
	return ""
}

// checkBlock abstractly interprets one code block. endHeight is the required stack height when
// control falls off the end (relative to the height at entry).
func checkBlock(env *codeEnv, code []vh.Opcode, endHeight int, where string) string {
	n := len(code)
	height := make([]int, n+1)
	for i := range height {
		height[i] = -1
	}
	bad := func(ip int, format string, args ...any) string {
		return fmt.Sprintf("%s: at word %d (%s): ", where, ip, opcodeName(int32(code[min(ip, n-1)]))) + fmt.Sprintf(format, args...)
	}
	// instruction boundaries by linear decoding (a for-in body is inline code)
	boundary := make([]bool, n+1)
	for ip := 0; ip < n; {
		boundary[ip] = true
		name := opcodeName(int32(code[ip]))
		info, known := opByName[name]
		if !known {
			env.unknownOps[name] = true
			return "" // an opcode this table does not know: the invariant cannot be evaluated (not a violation)
		}
		size := 1 + info.operands
		if name == "CallUser" && ip+2 < n && code[ip+2] > 0 {
			size += 2 * int(code[ip+2])
		}
		ip += size
	}
	boundary[n] = true
	type item struct{ ip, h int }
	work := []item{{0, 0}}
	setHeight := func(ip, h int, from int) string {
		if ip < 0 || ip > n {
			return bad(from, "jump target %d outside the block [0,%d]", ip, n)
		}
		if !boundary[ip] {
			return bad(from, "jump target %d is not an instruction boundary", ip)
		}
		if height[ip] == -1 {
			height[ip] = h
			work = append(work, item{ip, h})
			return ""
		}
		if height[ip] != h {
			return bad(from, "stack height %d at word %d disagrees with %d on another path", h, ip, height[ip])
		}
		return ""
	}
	height[0] = 0
	starts := map[int]bool{}
	var jumpTargets []struct{ from, to int }
	for len(work) > 0 {
		it := work[len(work)-1]
		work = work[:len(work)-1]
		ip, h := it.ip, it.h
		if ip == n {
			if h != endHeight {
				return fmt.Sprintf("%s: stack height %d at the end of the block, want %d", where, h, endHeight)
			}
			continue
		}
		starts[ip] = true
		op := code[ip]
		name := opcodeName(int32(op))
		info, known := opByName[name]
		if !known {
			env.unknownOps[name] = true
			return "" // an opcode this table does not know: the invariant cannot be evaluated (not a violation)
		}
		if ip+1+info.operands > n {
			return bad(ip, "operand words missing (need %d, block has %d words)", info.operands, n)
		}
		arg := func(k int) int { return int(code[ip+1+k]) }
		next := ip + 1 + info.operands
		pop, push, need := info.pop, info.push, info.need
		var targets []int
		fall := !info.term
		inRange := func(v, limit int, what string) string {
			if v < 0 || v >= limit {
				return bad(ip, "%s index %d out of range [0,%d)", what, v, limit)
			}
			return ""
		}
		local := func(v int) string {
			if env.fn == nil {
				return bad(ip, "local variable access outside a function")
			}
			return inRange(v, env.fn.NumScalars, "local scalar")
		}
		larray := func(v int) string {
			if env.fn == nil {
				return bad(ip, "local array access outside a function")
			}
			return inRange(v, env.fn.NumArrays, "local array")
		}
		special := func(v int) string {
			if v < 1 || v > 17 {
				return bad(ip, "special variable index %d out of range", v)
			}
			return ""
		}
		scoped := func(scope, idx int) string {
			switch vh.Scope(scope) {
			case vh.ScopeGlobal:
				return inRange(idx, env.nArrays, "global array")
			case vh.ScopeLocal:
				return larray(idx)
			}
			return bad(ip, "array scope %d invalid", scope)
		}
		redirect := func(tok int, allowed ...lexer.Token) (int, string) {
			if lexer.Token(tok) == lexer.ILLEGAL {
				return 0, ""
			}
			for _, a := range allowed {
				if lexer.Token(tok) == a {
					return 1, ""
				}
			}
			return 0, bad(ip, "redirect token %d not allowed here", tok)
		}
		var f string
		switch info.special {
		case "num":
			f = inRange(arg(0), len(env.prog.Compiled.Nums), "number constant")
		case "str":
			f = inRange(arg(0), len(env.prog.Compiled.Strs), "string constant")
		case "regex":
			f = inRange(arg(0), len(env.prog.Compiled.Regexes), "regex constant")
		case "global":
			f = inRange(arg(0), env.nGlobals, "global scalar")
		case "local":
			f = local(arg(0))
		case "special":
			f = special(arg(0))
		case "garray":
			f = inRange(arg(0), env.nArrays, "global array")
		case "larray":
			f = larray(arg(0))
		case "scopedarray":
			f = scoped(arg(0), arg(1))
		case "incr", "incr-global", "incr-local", "incr-special", "incr-garray", "incr-larray":
			if a := arg(0); a != 1 && a != -1 {
				f = bad(ip, "increment amount %d", a)
			}
			if f == "" {
				switch info.special {
				case "incr-global":
					f = inRange(arg(1), env.nGlobals, "global scalar")
				case "incr-local":
					f = local(arg(1))
				case "incr-special":
					f = special(arg(1))
				case "incr-garray":
					f = inRange(arg(1), env.nArrays, "global array")
				case "incr-larray":
					f = larray(arg(1))
				}
			}
		case "aug", "aug-global", "aug-local", "aug-special", "aug-garray", "aug-larray":
			f = inRange(arg(0), 6, "augmented-assignment operation")
			if f == "" {
				switch info.special {
				case "aug-global":
					f = inRange(arg(1), env.nGlobals, "global scalar")
				case "aug-local":
					f = local(arg(1))
				case "aug-special":
					f = special(arg(1))
				case "aug-garray":
					f = inRange(arg(1), env.nArrays, "global array")
				case "aug-larray":
					f = larray(arg(1))
				}
			}
		case "multi":
			k := arg(0)
			if k < 2 {
				f = bad(ip, "multi operand count %d", k)
			}
			pop, push = k, 1
		case "sprintf":
			k := arg(0)
			if k < 1 {
				f = bad(ip, "sprintf argument count %d", k)
			}
			pop, push = k, 1
		case "nulls":
			k := arg(0)
			if k < 1 {
				f = bad(ip, "Nulls count %d", k)
			}
			push = k
		case "jump":
			targets = []int{next + arg(0)}
			fall = false
		case "cjump":
			targets = []int{next + arg(0)}
		case "forin":
			varScope, varIndex, arrScope, arrIndex, off := arg(0), arg(1), arg(2), arg(3), arg(4)
			switch vh.Scope(varScope) {
			case vh.ScopeGlobal:
				f = inRange(varIndex, env.nGlobals, "global scalar")
			case vh.ScopeLocal:
				f = local(varIndex)
			case vh.ScopeSpecial:
				f = special(varIndex)
			default:
				f = bad(ip, "for-in variable scope %d", varScope)
			}
			if f == "" {
				f = scoped(arrScope, arrIndex)
			}
			if f == "" && (off < 0 || next+off > n) {
				f = bad(ip, "for-in body length %d runs past the block", off)
			}
			if f == "" {
				sub := *env
				sub.inForIn = true
				if g := checkBlock(&sub, code[next:next+off], 0, where+" / for-in body"); g != "" {
					return g
				}
				for k := range sub.unknownOps {
					env.unknownOps[k] = true
				}
				for w := next; w < next+off; w++ {
					height[w] = -2 // belongs to the nested block
				}
				next += off
			}
		case "breakforin":
			if !env.inForIn {
				f = bad(ip, "BreakForIn outside a for-in body")
			}
		case "builtin":
			bname := vh.BuiltinOp(arg(0)).String()
			eff, ok := builtinEffect[bname]
			if !ok {
				env.unknownOps["builtin:"+bname] = true
				return ""
			}
			pop, push = eff[0], eff[1]
		case "calluser":
			fi, na := arg(0), arg(1)
			if f = inRange(fi, len(env.prog.Compiled.Functions), "function"); f == "" {
				callee := env.prog.Compiled.Functions[fi]
				if na < 0 || na > callee.NumArrays {
					f = bad(ip, "%d array arguments for a function with %d array parameters", na, callee.NumArrays)
				} else if next+2*na > n {
					f = bad(ip, "array argument words missing")
				} else {
					for j := 0; j < na && f == ""; j++ {
						f = scoped(int(code[next+2*j]), int(code[next+2*j+1]))
					}
					next += 2 * na
					pop, push = callee.NumScalars, 1
				}
			}
		case "callnative":
			if arg(0) < 0 || arg(1) < 0 {
				f = bad(ip, "native call operands negative")
			}
			pop, push = arg(1), 1
		case "print":
			k := arg(0)
			r, g := redirect(arg(1), lexer.GREATER, lexer.APPEND, lexer.PIPE)
			f = g
			if k < 0 || (name == "Printf" && k < 1) {
				f = bad(ip, "argument count %d", k)
			}
			pop = k + r
		case "getline", "getline-global", "getline-local", "getline-special", "getline-array":
			r, g := redirect(arg(0), lexer.PIPE, lexer.LESS)
			f = g
			pop += r
			if f == "" {
				switch info.special {
				case "getline-global":
					f = inRange(arg(1), env.nGlobals, "global scalar")
				case "getline-local":
					f = local(arg(1))
				case "getline-special":
					f = special(arg(1))
				case "getline-array":
					f = scoped(arg(1), arg(2))
				}
			}
		}
		if f != "" {
			return f
		}
		if need < pop {
			need = pop
		}
		if h < need {
			return bad(ip, "needs %d values on the stack, height is %d", need, h)
		}
		nh := h - pop + push
		for _, t := range targets {
			jumpTargets = append(jumpTargets, struct{ from, to int }{ip, t})
			if g := setHeight(t, nh, ip); g != "" {
				return g
			}
		}
		if fall {
			if g := setHeight(next, nh, ip); g != "" {
				return g
			}
		}
	}
	for _, jt := range jumpTargets {
		if jt.to != n && !starts[jt.to] {
			return bad(jt.from, "jump target %d is not an instruction boundary", jt.to)
		}
		if jt.to < n && height[jt.to] == -2 {
			return bad(jt.from, "jump target %d lies inside a for-in body", jt.to)
		}
	}
	return ""
}

func min(a, b int) int {
	if a < b {
		return a
	}
	return b
}
