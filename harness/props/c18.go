package props

// C18 — coverage instrumentation is transparent and its counts are exact.
//
// Monitors (all on the goawk binary): (1) transparency: the same program, input and operands with
// and without -covermode/-coverprofile give the same stdout and exit status; (2) counts: every
// reported block's count equals the number of times its first statement began executing according
// to the reference evaluator's statement-begin counter (set mode: 1 iff non-zero); (3) structure:
// every block lies inside its file with start before end, blocks do not overlap, every statement
// of every statement list lies in exactly one block and the per-block statement numbers add up;
// (4) -coverappend appends.

import (
	"bytes"
	"encoding/json"
	"fmt"
	"hash/fnv"
	"math/rand"
	"os"
	"os/exec"
	"path/filepath"
	"strconv"
	"strings"
	"time"

	"github.com/benhoyt/goawk/lexer"
	vh "github.com/benhoyt/goawk/verifhook"

	"verifharness/astx"
	"verifharness/core"
	"verifharness/diffrun"
	"verifharness/run"
)

type c18Case struct {
	Files  []string     `json:"files"` // program files in -f order
	Mode   string       `json:"mode"`
	Append bool         `json:"append"`
	Env    diffrun.Case `json:"env"`
	Family string       `json:"family"`
}

type cliResult struct {
	stdout, stderr string
	code           int
}

func c18RunCLI(dir string, args []string, stdin string) (cliResult, error) {
	cmd := exec.Command(filepath.Join(core.BuildDir, "goawk"), args...)
	cmd.Dir = dir
	cmd.Stdin = strings.NewReader(stdin)
	var so, se bytes.Buffer
	cmd.Stdout, cmd.Stderr = &so, &se
	cmd.Env = []string{"PATH=/nonexistent"}
	// watchdog only (the programs were checked to end within the step budget): firing is inconclusive
	timer := time.AfterFunc(10*time.Minute, func() { _ = cmd.Process.Kill() })
	err := cmd.Run()
	if !timer.Stop() {
		return cliResult{}, fmt.Errorf("goawk did not finish within the 10 minute watchdog")
	}
	res := cliResult{stdout: so.String(), stderr: se.String()}
	if ee, ok := err.(*exec.ExitError); ok {
		res.code = ee.ExitCode()
	} else if err != nil {
		return res, err
	}
	return res, nil
}

type covBlock struct {
	path                   string
	sl, sc, el, ec, n, cnt int
}

func parseProfile(text string) (mode string, blocks []covBlock, err error) {
	lines := strings.Split(strings.TrimSuffix(text, "\n"), "\n")
	if len(lines) == 0 || !strings.HasPrefix(lines[0], "mode: ") {
		return "", nil, fmt.Errorf("profile does not start with a mode line: %q", core.Clip(text, 80))
	}
	mode = strings.TrimPrefix(lines[0], "mode: ")
	for _, l := range lines[1:] {
		// path:sl.sc,el.ec n count
		i := strings.LastIndexByte(l, ':')
		if i < 0 {
			return mode, nil, fmt.Errorf("malformed profile line %q", l)
		}
		var b covBlock
		b.path = l[:i]
		if _, e := fmt.Sscanf(l[i+1:], "%d.%d,%d.%d %d %d", &b.sl, &b.sc, &b.el, &b.ec, &b.n, &b.cnt); e != nil {
			return mode, nil, fmt.Errorf("malformed profile line %q: %v", l, e)
		}
		if canon := fmt.Sprintf("%d.%d,%d.%d %d %d", b.sl, b.sc, b.el, b.ec, b.n, b.cnt); canon != l[i+1:] {
			return mode, nil, fmt.Errorf("malformed profile line %q: not plain decimal integers (read as %q)", l, canon)
		}
		blocks = append(blocks, b)
	}
	return mode, blocks, nil
}

// splitItems cuts a generated source into its top-level items (the generator's printer starts
// every item in column 0 and indents everything inside).
func splitItems(src string) []string {
	var items []string
	var cur strings.Builder
	for _, line := range strings.SplitAfter(src, "\n") {
		if line == "" {
			continue
		}
		cur.WriteString(line)
		t := strings.TrimSuffix(line, "\n")
		if t == "}" || (!strings.HasPrefix(t, "\t") && !strings.HasSuffix(t, "{") && t != "" && !strings.HasPrefix(t, "}")) {
			items = append(items, cur.String())
			cur.Reset()
		}
	}
	if cur.Len() > 0 {
		items = append(items, cur.String())
	}
	return items
}

func c18Check(c *core.Ctx, cs c18Case) {
	c.Begin(cs)
	dir := c.WorkDir()
	// program files, input files
	var fargs []string
	var concat strings.Builder
	lineOffset := []int{} // first global line of each file
	gl := 1
	for i, f := range cs.Files {
		name := fmt.Sprintf("p%d.awk", i)
		if err := os.WriteFile(filepath.Join(dir, name), []byte(f), 0o644); err != nil {
			c.Inconclusive("write: " + err.Error())
			return
		}
		fargs = append(fargs, "-f", name)
		lineOffset = append(lineOffset, gl)
		concat.WriteString(f)
		if !strings.HasSuffix(concat.String(), "\n") {
			concat.WriteString("\n")
		}
		gl = 1 + strings.Count(concat.String(), "\n")
	}
	prep := func() {
		for _, n := range cs.Env.OutFiles {
			_ = os.Remove(filepath.Join(dir, n))
		}
		for n, content := range cs.Env.Files {
			_ = os.WriteFile(filepath.Join(dir, n), []byte(content), 0o644)
		}
	}
	// The goawk command has no step budget: make sure in-process (where there is one) that the
	// program ends. Generated programs with a global loop counter and recursion can loop forever.
	if cs.Family != "hot" {
		if prog0, perr, pm := run.Parse(concat.String(), nil); perr == nil && pm == "" {
			if err := os.Chdir(dir); err == nil {
				env0 := cs.Env
				prep()
				if vm, verr := diffrun.VM(prog0, &env0, false); verr == nil && vm.Kind == "STEPLIMIT" {
					c.Count("skipped_not_terminating_within_step_budget", 1)
					return
				}
			}
		}
	}
	var vargs []string
	for i := 0; i+1 < len(cs.Env.Vars); i += 2 {
		vargs = append(vargs, "-v", cs.Env.Vars[i]+"="+cs.Env.Vars[i+1])
	}
	prep()
	plain, err := c18RunCLI(dir, append(append(append([]string{}, vargs...), fargs...), cs.Env.Args...), cs.Env.Stdin)
	if err != nil {
		c.Inconclusive("cli: " + err.Error())
		return
	}
	plainFiles := map[string]string{}
	for _, n := range cs.Env.OutFiles {
		if b, e := os.ReadFile(filepath.Join(dir, n)); e == nil {
			plainFiles[n] = string(b)
		}
	}
	prof, profArg := filepath.Join(dir, "prof.out"), "prof.out"
	// every fourth case (by a hash of the program) keeps its profile on another filesystem than the
	// work directory and the temporary directory, when the machine has one: where the profile
	// lives is the user's choice
	hs := fnv.New32a()
	hs.Write([]byte(strings.Join(cs.Files, "\x00") + cs.Mode))
	if hs.Sum32()%4 == 0 {
		alt := fmt.Sprintf("/dev/shm/verif-c18-%d-%08x.out", os.Getpid(), hs.Sum32())
		if f, e := os.Create(alt); e == nil {
			f.Close()
			prof, profArg = alt, alt
			defer os.Remove(alt)
			c.Count("profiles_on_dev_shm", 1)
		}
	}
	_ = os.Remove(prof)
	if !cs.Append {
		// an older, longer profile at the same path must be replaced, not partly overwritten
		stale := "mode: count\n" + strings.Repeat("/stale/old.awk:1.1,1.9 1 7\n", 400)
		_ = os.WriteFile(prof, []byte(stale), 0o644)
	}
	covArgs := []string{"-covermode", cs.Mode, "-coverprofile", profArg}
	if cs.Append {
		covArgs = append(covArgs, "-coverappend")
	}
	prep()
	cov, err := c18RunCLI(dir, append(append(append(covArgs, vargs...), fargs...), cs.Env.Args...), cs.Env.Stdin)
	if err != nil {
		c.Inconclusive("cli: " + err.Error())
		return
	}
	c.Eval(2)
	c.Count("mode_"+cs.Mode, 1)
	if strings.Contains(cov.stderr, "panic:") || strings.Contains(cov.stderr, "goroutine ") || strings.Contains(plain.stderr, "panic:") {
		c.Violation("cli-crash", "", "goawk crashed: "+firstLineOf(cov.stderr+plain.stderr), "", core.Clip(cov.stderr, 1500), cs)
		return
	}
	// (1) transparency
	if plain.stdout != cov.stdout || plain.code != cov.code {
		c.Violation("transparency", c18Class(cs), fmt.Sprintf("with coverage (%s): exit %d, without: exit %d; stdout %s", cs.Mode, cov.code, plain.code, firstDiff(plain.stdout, cov.stdout)),
			fmt.Sprintf("exit=%d stdout=%q stderr=%q", plain.code, plain.stdout, plain.stderr), fmt.Sprintf("exit=%d stdout=%q stderr=%q", cov.code, cov.stdout, cov.stderr), cs)
		return
	}
	for _, n := range cs.Env.OutFiles {
		b, _ := os.ReadFile(filepath.Join(dir, n))
		if string(b) != plainFiles[n] {
			c.Violation("transparency", c18Class(cs), "file "+n+" differs with coverage on", plainFiles[n], string(b), cs)
			return
		}
	}
	if (plain.stderr == "") != (cov.stderr == "") {
		c.Violation("transparency", c18Class(cs), "error message present in only one of the two runs", plain.stderr, cov.stderr, cs)
		return
	}
	c.Count("transparent_runs", 1)
	if plain.stderr != "" {
		// the run ended with an error message: goawk exits before writing a profile
		c.Count("error_runs_without_profile", 1)
		return
	}
	ptext, perr := os.ReadFile(prof)
	if perr != nil {
		if plain.stderr == "" {
			c.Violation("no-profile", "", "run succeeded but no profile was written", "", perr.Error(), cs)
		} else {
			c.Count("error_runs_without_profile", 1)
		}
		return
	}
	mode, blocks, err := parseProfile(string(ptext))
	if err != nil {
		c.Violation("profile-format", "", err.Error(), "", string(ptext), cs)
		return
	}
	if mode != cs.Mode {
		c.Violation("profile-format", "", "mode line says "+mode, cs.Mode, mode, cs)
	}
	// reference: parse the concatenated source in-process
	prog, perr2, pm := run.Parse(concat.String(), nil)
	if pm != "" || perr2 != nil {
		c.Inconclusive("in-process parse disagrees with the CLI")
		return
	}
	// (3) structure
	fileOf := func(b covBlock) int {
		for i := range cs.Files {
			if b.path == filepath.Join(dir, fmt.Sprintf("p%d.awk", i)) {
				return i
			}
		}
		return -1
	}
	type span struct{ file, s, e int } // positions as line*100000+col within the file
	var spans []span
	total := 0
	for _, b := range blocks {
		fi := fileOf(b)
		if fi < 0 {
			c.Violation("block-file", "", "block names a file that is not part of the program: "+b.path, "", "", cs)
			return
		}
		nlines := strings.Count(cs.Files[fi], "\n") + 1
		if b.sl < 1 || b.el < 1 || b.sl > nlines || b.el > nlines+1 || b.sc < 1 || b.ec < 1 || b.n < 1 {
			c.Violation("block-range", "", fmt.Sprintf("block %d.%d,%d.%d (n=%d) is not inside %s (%d lines)", b.sl, b.sc, b.el, b.ec, b.n, filepath.Base(b.path), nlines), "", "", cs)
			return
		}
		s, e := b.sl*100000+b.sc, b.el*100000+b.ec
		if s >= e {
			c.Violation("block-range", "", fmt.Sprintf("block %d.%d,%d.%d does not start before it ends", b.sl, b.sc, b.el, b.ec), "", "", cs)
			return
		}
		spans = append(spans, span{fi, s, e})
		total += b.n
	}
	// statements in statement lists (not for-loop init/post clauses)
	toLocal := func(p lexer.Position) (int, int) {
		fi := 0
		for i := range lineOffset {
			if p.Line >= lineOffset[i] {
				fi = i
			}
		}
		return fi, (p.Line-lineOffset[fi]+1)*100000 + p.Column
	}
	var listStmts []vh.Stmt
	var walkList func(ss []vh.Stmt)
	walkList = func(ss []vh.Stmt) {
		for _, s := range ss {
			listStmts = append(listStmts, s)
			switch s := s.(type) {
			case *vh.IfStmt:
				walkList(s.Body)
				walkList(s.Else)
			case *vh.ForStmt:
				walkList(s.Body)
			case *vh.ForInStmt:
				walkList(s.Body)
			case *vh.WhileStmt:
				walkList(s.Body)
			case *vh.DoWhileStmt:
				walkList(s.Body)
			case *vh.BlockStmt:
				walkList(s.Body)
			}
		}
	}
	tree := astx.Tree(prog)
	for _, ss := range tree.Begin {
		walkList(ss)
	}
	for _, a := range tree.Actions {
		walkList(a.Stmts)
	}
	for _, ss := range tree.End {
		walkList(ss)
	}
	for _, f := range tree.Functions {
		walkList(f.Body)
	}
	if total != len(listStmts) {
		c.Violation("statement-partition", "", fmt.Sprintf("blocks account for %d statements, the program has %d", total, len(listStmts)), fmt.Sprint(len(listStmts)), fmt.Sprint(total), cs)
		return
	}
	for _, s := range listStmts {
		fi, p := toLocal(s.StartPos())
		// (ranges of nested blocks may lie inside the range of the block that holds a do-while or a
		// bare { } statement; "counted in exactly one block" is the numStmts accounting above)
		in := 0
		for _, sp := range spans {
			if sp.file == fi && sp.s <= p && p < sp.e {
				in++
			}
		}
		if in < 1 {
			c.Violation("statement-partition", "", fmt.Sprintf("statement %T at %v lies in no reported block", s, s.StartPos()), ">=1", fmt.Sprint(in), cs)
			return
		}
	}
	stmtStarts := map[[2]int]bool{}
	for _, s := range listStmts {
		fi, p := toLocal(s.StartPos())
		stmtStarts[[2]int{fi, p}] = true
	}
	for _, sp := range spans {
		if !stmtStarts[[2]int{sp.file, sp.s}] {
			c.Violation("block-range", "", fmt.Sprintf("a reported block starts at %d.%d where no statement starts", sp.s/100000, sp.s%100000), "", "", cs)
			return
		}
	}
	c.Count("blocks_checked", len(blocks))
	// (2) counts against the reference evaluator
	if plain.stderr == "" && !cs.Append {
		env := cs.Env
		ref, ok, _, res := diffrun.Ref(prog, &env, false)
		if ok && ref.Kind == "ok" && ref.Stdout == plain.stdout {
			begins := map[[2]int]int{}
			for pos, n := range res.StmtBegins {
				fi, p := toLocal(pos)
				begins[[2]int{fi, p}] = n
			}
			for _, b := range blocks {
				want := begins[[2]int{fileOf(b), b.sl*100000 + b.sc}]
				if cs.Mode == "set" && want > 0 {
					want = 1
				}
				if b.cnt != want {
					c.Violation("block-count", "", fmt.Sprintf("block %s:%d.%d reports count %d, its first statement began %d time(s) (%s mode)", filepath.Base(b.path), b.sl, b.sc, b.cnt, want, cs.Mode),
						fmt.Sprint(want), fmt.Sprint(b.cnt), cs)
					return
				}
			}
			c.Count("count_checked_programs", 1)
			if cs.Family == "hot" {
				c.Count("hot_loop_counts_checked", 1)
			}
			c.Count("count_checked_blocks", len(blocks))
		} else {
			c.Count("count_oracle_unavailable", 1)
		}
	}
	// (4) append
	if cs.Append {
		prep()
		cov2, err := c18RunCLI(dir, append(append(append(covArgs, vargs...), fargs...), cs.Env.Args...), cs.Env.Stdin)
		if err == nil && cov2.stderr == "" {
			p2, _ := os.ReadFile(prof)
			body := strings.SplitN(string(ptext), "\n", 2)
			if len(body) == 2 && string(p2) != string(ptext)+body[1] {
				c.Violation("append", "", "second run with -coverappend did not append its block lines to the profile", string(ptext)+body[1], string(p2), cs)
				return
			}
			c.Count("append_checked", 1)
		}
	}
	c.NonTrivial(strings.Join(cs.Files, "\x00") + cs.Mode + cs.Env.Stdin)
	if c.WantSample() && len(concat.String()) < 700 && len(blocks) > 2 {
		c.Sample(map[string]any{"files": cs.Files, "mode": cs.Mode, "stdin": cs.Env.Stdin, "profile": string(ptext)})
	}
}

func c18Class(cs c18Case) string { return "" }

var c18Special = []string{
	"/a/ {}\nEND { print NR }\n", "/a/ { }\n{ n++ }\nEND { print n }\n", "NR == 1, NR == 2 {}\n", "{}\n", "BEGIN {}\n", "END {}\n", "BEGIN {} END {} {}\n",
	"/a/\n", "/a/\n/b/ {}\n/c/ { print \"c\" }\n", "BEGIN { if (x) ; else ; print 1 }\n", "BEGIN { if (1) {} else {}; print 2 }\n", "BEGIN { while (i++ < 2) ; print i }\n",
	"BEGIN { for (;;) break; print 3 }\n", "BEGIN { for (i = 0; i < 3; i++) {}; print i }\n", "BEGIN { do {} while (i++ < 2); print i }\n", "function f() {}\nBEGIN { f(); print 4 }\n",
	"function f() { return }\nBEGIN { f() }\n", "BEGIN { { } { print 5 } }\n", "BEGIN { for (k in a) {}; print 6 }\n", "BEGIN { exit } END { print 7 }\n", "BEGIN { exit 3 }\n",
	"{ print; next; print \"x\" }\nEND { print \"e\" }\n", "{ if (NR == 2) exit 4; print }\nEND { print \"e\", NR }\n", "BEGIN { x = 1 / 0; print \"unreachable\" }\n", "{ print $(-9) }\n",
	"BEGIN { print 1\nprint 2\n\nprint 3 }\n", "BEGIN {\n\tif (1)\n\t\tprint \"a\"\n\telse\n\t\tprint \"b\"\n}\n", "BEGIN { while (i < 3) i++; print i }\n", "BEGIN { if (1) print 1; print 2; if (0) print 3; print 4 }\n",
	"BEGIN { i = 5; do i--; while (i > 0); print i }\n", "function f(n) { if (n > 0) return f(n - 1) + 1; return 0 }\nBEGIN { print f(3) }\n",
	"BEGIN { for (i = 0; i < 4; i++) { if (i == 1) continue; if (i == 3) break; print i } }\n", "{ n++ } END { print n; for (i = 0; i < n; i++) s += i; print s }\n",
}

var c18Hot = []string{
	"BEGIN { while (i < 1200000) i++; print i }\n",
	"function f() { n++ }\nBEGIN { for (i = 0; i < 1000000; i++) f(); print n }\n",
	"END { for (i = 0; i < 999999; i++) { k++ }; for (j = 0; j < 1000001; j++) { m++ }; print k, m, NR }\n",
}

func c18Generate(seed int64) c18Case {
	rng := rand.New(rand.NewSource(seed))
	cs := c18Case{Mode: []string{"set", "count", "count"}[rng.Intn(3)], Append: rng.Intn(8) == 0}
	switch r := rng.Intn(10); {
	case r < 2:
		cs.Family = "special"
		cs.Files = []string{c18Special[rng.Intn(len(c18Special))]}
		cs.Env.Stdin = "a b\nc\nabc\n\nb a\n"
	case r < 4:
		sys := systematicCases()
		g := sys[rng.Intn(len(sys))]
		cs.Family, cs.Files, cs.Env = "systematic", []string{g.Src}, g.Env
	default:
		fam := []string{"pure", "main", "main", "files", "errors"}[rng.Intn(5)]
		g := c01Generate(rng.Int63(), fam)
		cs.Family, cs.Env = fam, g.Env
		items := splitItems(g.Src)
		nf := 1 + rng.Intn(3)
		if nf > len(items) {
			nf = len(items)
		}
		// cut the item list into nf consecutive groups
		cuts := map[int]bool{}
		for len(cuts) < nf-1 {
			cuts[1+rng.Intn(len(items)-1)] = true
		}
		var cur strings.Builder
		for i, it := range items {
			if cuts[i] {
				cs.Files = append(cs.Files, cur.String())
				cur.Reset()
			}
			cur.WriteString(it)
		}
		f := cur.String()
		if rng.Intn(4) == 0 {
			f = strings.TrimSuffix(f, "\n") // a file without final newline
		}
		cs.Files = append(cs.Files, f)
	}
	return cs
}

func init() {
	n := func(t core.Tier, q, th int) int {
		if t == core.Thorough {
			return th
		}
		return q
	}
	core.Register(&core.Property{
		ID:    "C18",
		Level: "exploration",
		Rule: "generated programs (random families, systematic families, and a list of empty-body / early-exit shapes) split into 1-3 -f files at item boundaries, with inputs and operands, run through the goawk " +
			"binary with and without -covermode set|count -coverprofile (and -coverappend); non-trivial = distinct (program files, mode, input) whose profile was structurally checked",
		Assumptions: []string{
			"the statement-begin counter of the reference evaluator is the specification of a block's count; it is used only when the reference's stdout equals the binary's",
			"programs whose result depends on for-in order are not generated",
		},
		NBatches: func(t core.Tier) int { return n(t, 16, 64) },
		Floors: func(t core.Tier) map[string]int {
			return map[string]int{"evaluations": n(t, 1500, 30000), "distinct_nontrivial": n(t, 600, 12000), "count_checked_programs": n(t, 300, 5000), "transparent_runs": n(t, 700, 14000), "append_checked": n(t, 30, 400), "hot_loop_counts_checked": len(c18Hot)}
		},
		Run: func(c *core.Ctx) {
			rng := c.Rand("cases")
			for i, s := range c18Special {
				for mi, mode := range []string{"set", "count"} {
					if c.Mine(i*2 + mi) {
						c18Check(c, c18Case{Family: "special", Files: []string{s}, Mode: mode, Env: diffrun.Case{Stdin: "a b\nc\nabc\n\nb a\n"}})
					}
				}
			}
			// counts far above what generated programs reach (a million and more), checked against the
			// reference evaluator running with a larger budget
			for i, s := range c18Hot {
				if c.Mine(100 + i) {
					c18Check(c, c18Case{Family: "hot", Files: []string{s}, Mode: "count", Env: diffrun.Case{Stdin: "a\nb\n", Fuel: 40_000_000}})
					c.Count("hot_loop_cases", 1)
				}
			}
			total := n(c.Tier, 1200, 24000) / c.NBatches // three process starts per program: 24000 is ~15 min on 16 cores
			for i := 0; i < total; i++ {
				c18Check(c, c18Generate(rng.Int63()))
			}
		},
		Replay: func(c *core.Ctx, raw json.RawMessage) {
			var cs c18Case
			if json.Unmarshal(raw, &cs) != nil {
				return
			}
			for i, f := range cs.Files {
				fmt.Printf("--- p%d.awk\n%s\n", i, f)
			}
			fmt.Printf("mode=%s append=%v stdin=%q args=%q\n", cs.Mode, cs.Append, cs.Env.Stdin, cs.Env.Args)
			c18Check(c, cs)
		},
	})
	_ = strconv.Itoa
}
