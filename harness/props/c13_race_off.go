//go:build !race

package props

const c13RaceBuild = false
