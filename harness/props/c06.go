package props

// C06 — $0, the fields and NF stay mutually consistent under every update.
//
// Monitor: generated record-operation scripts (c06rec) are rendered as one AWK program each
// whose every step prints a marker, the value the operation read/returned, and (usually) a
// dump of NF, $0, every field, $(NF+1), $-1, $(-NF), $0 and NF again.  The program runs on
// the real interpreter; the printed item stream is compared, item by item, with the
// executable record model REC written from the property text.

import (
	"encoding/json"
	"fmt"
	"os"
	"path/filepath"
	"runtime/debug"
	"sort"
	"strings"
	"time"

	"github.com/benhoyt/goawk/interp"

	rec "verifharness/c06rec"
	"verifharness/core"
	"verifharness/run"
)

type c06Case struct {
	Script *rec.Script `json:"script"`
	Prog   string      `json:"prog,omitempty"` // informational: the rendered program (replay re-renders)
}

// c06Events forwards model events to the evidence counters.
type c06Events struct{ c *core.Ctx }

func (e c06Events) Count(name string, n int) { e.c.Count(name, n) }
func (e c06Events) Cover(set, item string)   { e.c.Cover(set, item) }

// c06Verdict decides whether a model run accepts the observed execution.
func c06Verdict(res rec.Result, out run.Outcome) (ok bool, why string) {
	if res.Mis != nil {
		return false, fmt.Sprintf("step %d (%s/%d): %s", res.Mis.Step, res.Mis.Op, res.Mis.Form, res.Mis.What)
	}
	switch res.Stop {
	case "dontcare", "unsupported":
		return true, "" // the prefix up to where the property (or the model) stops speaking agreed
	case "error":
		if res.Leftover > 0 {
			return false, fmt.Sprintf("step %d must fail with an error (index/NF outside the limits), the program went on", res.StopStep)
		}
		if out.Err == "" {
			return false, fmt.Sprintf("step %d must fail with an error, Execute returned nil", res.StopStep)
		}
		return true, ""
	}
	if res.Leftover > 0 {
		return false, "the program printed more than the model expects"
	}
	if out.StepLimit {
		return false, fmt.Sprintf("the program did not finish within %d dispatch steps (the model finishes)", run.DefaultStepLimit)
	}
	if out.Err != "" {
		return false, "unexpected error: " + out.Err
	}
	return true, ""
}

func c06Modifies(s *rec.Script) (mod, dumps int) {
	each := func(l []rec.Step) {
		for i := range l {
			switch l[i].Op {
			case "setf", "aug", "incr", "setnf", "sub", "getline":
				mod++
			}
			for _, d := range l[i].Dumps {
				if d != 3 {
					dumps++
				}
			}
		}
	}
	each(s.Begin)
	for i := range s.Rules {
		each(s.Rules[i].Steps)
	}
	return
}

// c06Run executes one script on the real interpreter and judges it. report=false is used by
// nothing yet; replay prints details.
func c06Run(c *core.Ctx, s *rec.Script, verbose bool) {
	prog := rec.Render(s)
	cs := c06Case{Script: s}
	c.Begin(cs)
	c.Eval(1)
	c.Count("gen_"+s.Gen, 1)
	cs.Prog = prog
	parsed, perr, pm := run.Parse(prog, nil)
	if pm != "" {
		c.Violation("parse-panic", "", "parser panicked on a generated program: "+run.PanicSite(pm), "", pm, cs)
		return
	}
	if perr != nil {
		c.Inconclusive("c06-render:" + perr.Error())
		if verbose {
			fmt.Println(prog)
		}
		return
	}
	cfg := &interp.Config{Stdin: strings.NewReader(rec.InputText(s)), Vars: append([]string{}, s.Vars...)}
	if rec.UsesFile(s) {
		path := filepath.Join(c.WorkDir(), "side.txt")
		if err := os.WriteFile(path, []byte(rec.FileText(s)), 0o644); err != nil {
			c.Inconclusive("c06-side-file:" + err.Error())
			return
		}
		cfg.Vars = append(cfg.Vars, "F", path)
	}
	out := run.Exec(parsed, cfg, run.Opts{})
	if verbose {
		fmt.Printf("---- program ----\n%s---- input ----\n%q\n---- side file ----\n%q\n---- vars ----\n%q\n", prog, rec.InputText(s), rec.FileText(s), s.Vars)
	}
	if out.Panic != "" {
		c.Violation("panic", "", "interpreter panicked: "+run.PanicSite(out.Panic), "", out.Panic, cs)
		return
	}
	items, ierr := rec.ParseItems(out.Stdout)
	if ierr != "" && out.Stdout != "" {
		c.Violation("record-model", "", "output is not an item stream: "+ierr, "", core.Clip(out.Stdout, 500), cs)
		return
	}
	if items == nil {
		items = []rec.Item{}
	}
	res := rec.Run(s, false, nil, items, c06Events{c})
	ok, why := c06Verdict(res, out)
	c.Count("steps_applied", res.Steps)
	c.Count("items_compared", res.Items)
	c.Count("csv_texts_adopted", res.Adopted)
	if ok && s.Wide {
		c.Count("wide_scripts_accepted_narrow", 1)
	}
	if !ok && s.Wide {
		// ambiguity switch: blanks of the default FS may be all of Unicode white space
		resW := rec.Run(s, true, nil, items, nil)
		if okW, _ := c06Verdict(resW, out); okW {
			ok, res = true, resW
			c.Count("wide_scripts_accepted_wide", 1)
		}
	}
	if !ok {
		// ambiguity switch: after NF = <not the decimal count>, NF may read back that value
		for _, wide := range []bool{false, true} {
			if wide && !s.Wide {
				break
			}
			resK := rec.Run(s, wide, map[string]bool{rec.AmbNFKept: true}, items, nil)
			if okK, _ := c06Verdict(resK, out); okK && resK.QuirkUsed[rec.AmbNFKept] {
				ok, res = true, resK
				c.Count("nf_kept_value_accepted", 1)
				break
			}
		}
	}
	if ok && strings.Contains(prog+strings.Join(s.Vars, " "), "OUTPUTMODE") && !strings.ContainsAny(out.Stdout, "\r\n") &&
		!strings.Contains(prog, "\\n") && !strings.Contains(prog, "\\r") && !strings.Contains(prog, "\\01") && !strings.Contains(prog, "RS") {
		// The newline output mode concerns line ends written to streams, not how $0 is rebuilt:
		// with no CR or LF in any value, the same script must observe the same items under CRLF.
		cfg2 := &interp.Config{Stdin: strings.NewReader(rec.InputText(s)), Vars: append([]string{}, cfg.Vars...), NewlineOutput: interp.CRLFNewlineMode}
		out2 := run.Exec(parsed, cfg2, run.Opts{})
		c.Count("crlf_output_reruns", 1)
		if out2.Panic != "" {
			c.Violation("panic", "", "interpreter panicked (CRLF newline output): "+run.PanicSite(out2.Panic), "", out2.Panic, cs)
			return
		}
		if out2.Stdout != out.Stdout || out2.Err != out.Err {
			c.Violation("record-model", "crlf-newline-output", "with CRLF newline output the rebuilt record differs: "+firstDiff(out.Stdout, out2.Stdout), out.Stdout+"\nerror: "+out.Err, out2.Stdout+"\nerror: "+out2.Err, cs)
			return
		}
	}
	if ok {
		switch res.Stop {
		case "error":
			c.Count("ended_by_expected_error", 1)
			c.Cover("expected_error_ops", res.StopOp)
		case "dontcare":
			c.Count("stopped_at_dontcare", 1)
		case "unsupported":
			c.Count("stopped_at_unsupported", 1)
		}
		mod, dumps := c06Modifies(s)
		if mod > 0 && dumps > 0 && res.Steps > 0 {
			c.NonTrivial(prog + "\x00" + rec.InputText(s) + "\x00" + rec.FileText(s))
		}
		if c.WantSample() && res.Steps >= 4 && mod >= 2 {
			c.Sample(map[string]any{"gen": s.Gen, "program": prog, "input": rec.InputText(s), "file": rec.FileText(s), "vars": s.Vars,
				"observed": rec.FormatItems(items), "ended": res.Stop})
		}
		if verbose {
			fmt.Printf("---- observed ----\n%s\nerr=%q\nmodel agrees (stop=%q)\n", rec.FormatItems(items), out.Err, res.Stop)
		}
		return
	}

	// The runner keeps at most 200 witnesses per batch; on a badly broken tree do not spend time
	// classifying and formatting thousands more (they are still counted).
	// Disagreement. Is it fully explained by already-known defects? (classification only)
	classes := c06Classify(s, items, out)
	if !verbose {
		// The runner keeps at most 200 witnesses per batch. Keep room for new kinds: record only
		// the first 20 witnesses of each emulated class (the rest are counted), and on a badly
		// broken tree stop formatting after 200 unclassified ones.
		if len(classes) > 0 {
			key := strings.Join(classes, "+")
			c06ClassSeen[key]++
			if c06ClassSeen[key] > 20 {
				c.Count("witnesses_counted_only_"+key, 1)
				return
			}
		} else if c06Unclassified++; c06Unclassified > 200 {
			c.Violation("record-model", "", why, "", "", nil)
			return
		}
	}
	pred := rec.Run(s, false, nil, nil, nil)
	expected := rec.FormatItems(pred.Out)
	if pred.Stop == "error" {
		expected += fmt.Sprintf("\nthen an error at step %d", pred.StopStep)
	}
	observed := rec.FormatItems(items)
	if out.Err != "" {
		observed += "\nerror: " + out.Err
	}
	summary := why
	if res.Mis != nil {
		summary = fmt.Sprintf("%s: want %s, got %s; statement: %s; model state: %s", why, core.Q(res.Mis.Want), core.Q(res.Mis.Got),
			c06StepSource(s, res.Mis.Step), core.Clip(res.State, 300))
	}
	if verbose {
		fmt.Printf("---- expected ----\n%s\n---- observed ----\n%s\n", expected, observed)
	}
	if len(classes) == 0 {
		c.Violation("record-model", "", summary, expected, observed, cs)
		return
	}
	for _, cl := range classes {
		c.Violation("record-model", cl, summary, expected, observed, cs)
	}
}

// Witness bookkeeping of this batch (child process).
var (
	c06ClassSeen    = map[string]int{}
	c06Unclassified int
)

// c06Classify returns the known-defect emulations ("quirks") that explain the whole observed
// stream, or nil.  A witness that needs anything else stays unclassified (reported as new).
func c06Classify(s *rec.Script, items []rec.Item, out run.Outcome) []string {
	try := func(q ...string) []string {
		set := map[string]bool{}
		for _, k := range q {
			set[k] = true
		}
		for _, wide := range []bool{false, true} {
			if wide && !s.Wide {
				break
			}
			res := rec.Run(s, wide, set, items, nil)
			if ok, _ := c06Verdict(res, out); ok {
				var used []string
				for k := range res.QuirkUsed {
					if k != rec.AmbNFKept { // an accepted ambiguity, not a defect
						used = append(used, k)
					}
				}
				sort.Strings(used)
				if len(used) > 0 {
					return used
				}
			}
		}
		return nil
	}
	for _, q := range rec.AllQuirks {
		if u := try(q); u != nil {
			return u
		}
		if u := try(q, rec.AmbNFKept); u != nil {
			return u
		}
	}
	return try(append([]string{rec.AmbNFKept}, rec.AllQuirks...)...)
}

func c06StepSource(s *rec.Script, id int) string {
	n := 0
	find := func(l []rec.Step) string {
		for i := range l {
			n++
			if n == id {
				return rec.StepSrc(&l[i], id)
			}
		}
		return ""
	}
	if src := find(s.Begin); src != "" {
		return src
	}
	for i := range s.Rules {
		if src := find(s.Rules[i].Steps); src != "" {
			return src
		}
	}
	return "?"
}

func init() {
	n := func(t core.Tier, q, th int) int {
		if t == core.Thorough {
			return th
		}
		return q
	}
	core.Register(&core.Property{
		ID:    "C06",
		Level: "exploration",
		Rule: "record-operation scripts (<=12 steps over read/assign $i, NF, $0, FS, OFS, OUTPUTMODE, sub/gsub, getline forms, ++/op=; indexes positive, zero, " +
			"negative, beyond NF, fractional, string, huge) rendered as one AWK program with a dump of NF/$0/fields/$(NF+1)/$-1 after most steps; three generators: " +
			"random scripts, all sequences of length k over a 22-operation alphabet x 3 start records x 2 dump policies, every text of length <= L over {a,b,space,comma,tab} x 23 FS values; " +
			"non-trivial = distinct (program, input) with >= 1 record-modifying step and >= 1 full dump, whose item stream the model accepted",
		Assumptions: []string{
			"REC is the specification: eager split with the FS in force when $0 is set; field/NF assignment rebuilds with the current OFS; reads are pure",
			"blanks of FS=\" \" are space, tab, newline; other Unicode white space is an ambiguity switch (both settings accepted)",
			"after NF = v with v not the decimal spelling of the new count (2.7, \"3x\", \"\"), NF may read as the count or as v (every AWK and goawk's own tests keep v): ambiguity switch, counted in nf_kept_value_accepted",
			"in CSV output mode any RFC 4180 encoding of the fields is accepted for the rebuilt $0 (checked by decoding), then adopted",
			"assignment to an index below -NF, reads below -NF, FS=\"\" and paragraph mode are don't-care; indexes/NF above 1000000 must raise an error",
			"number<->string conversion of field values is restricted to plain decimal forms (C05 owns the rest)",
		},
		NBatches: func(t core.Tier) int { return n(t, 16, 64) },
		// generous: the machine may be shared; a firing is inconclusive, never a verdict
		BatchTimeout: func(t core.Tier) time.Duration { return time.Duration(n(t, 1, 8)) * time.Hour },
		Floors: func(t core.Tier) map[string]int {
			return map[string]int{
				"evaluations":                          n(t, 100000, 2000000),
				"distinct_nontrivial":                  n(t, 60000, 1500000),
				"items_compared":                       n(t, 4000000, 100000000),
				"ops":                                  30,
				"assign_index_classes":                 8,
				"read_index_classes":                   10,
				"op_pairs":                             140,
				"split_fs_kinds":                       7,
				"fs_changed_before_first_field_access": n(t, 300, 10000),
				"rebuilds_csv":                         n(t, 1000, 50000),
				"sub_no_match":                         n(t, 500, 20000),
				"nf_shrink":                            n(t, 1000, 50000),
				"nf_grow":                              n(t, 1000, 50000),
				"ended_by_expected_error":              n(t, 50, 2000),
			}
		},
		Exhaustive: func(t core.Tier) bool { return true },
		Run: func(c *core.Ctx) {
			debug.SetGCPercent(400) // many short-lived interpreters: collect less often
			rng := c.Rand("gen")
			c06Lazy(c)
			// 1. systematic: all operation sequences of length k
			k := n(c.Tier, 2, 3)
			total := rec.SysOpsCount(k)
			for i := 0; i < total; i++ {
				if c.Mine(i) {
					c06Run(c, rec.SysOpsScript(k, i), false)
				}
			}
			if c.Tier == core.Thorough { // a deterministic sample of the length-4 family
				total4 := rec.SysOpsCount(4)
				srng := c.Rand("sys4")
				for i := 0; i < 200000/c.NBatches; i++ {
					c06Run(c, rec.SysOpsScript(4, srng.Intn(total4)), false)
				}
			}
			for i, s := range rec.SysLimits() {
				if c.Mine(i) {
					c06Run(c, s, false)
				}
			}
			// 2. systematic: splitting of every short text under every FS of the family
			recs := rec.SysSplitRecords(n(c.Tier, 4, 6))
			per := 12
			total = rec.SysSplitCount(recs, per)
			for i := 0; i < total; i++ {
				if c.Mine(i) {
					c06Run(c, rec.SysSplitScript(recs, per, i), false)
				}
			}
			// 3. random scripts
			for i := n(c.Tier, 120000, 2000000) / c.NBatches; i > 0; i-- {
				s := rec.Random(rng)
				c06OpPairs(c, s)
				c06Run(c, s, false)
			}
		},
		Replay: func(c *core.Ctx, raw json.RawMessage) {
			var lz c06LazyCase
			if json.Unmarshal(raw, &lz) == nil && lz.Lazy == "split-agree" {
				fmt.Printf("split-agree: FS=%q input %q\n", lz.FS1, lz.Input)
				o := c06LazyRun(lz, `{ printf "%d", NF; for (i = 1; i <= NF; i++) printf "[%s]", $i; printf "\n"; n = split($0, A, FS); printf "%d", n; for (i = 1; i <= n; i++) printf "[%s]", A[i]; printf "\n" }`+"\n")
				fmt.Print(o.Stdout, o.Err)
				if l := strings.Split(strings.TrimSuffix(o.Stdout, "\n"), "\n"); len(l) == 2 && l[0] != l[1] {
					c.Violation("record-model", "split-agree", "fields and split($0, A, FS) differ", l[1], l[0], lz)
				}
				return
			}
			if json.Unmarshal(raw, &lz) == nil && lz.Lazy != "" {
				first, after := c06LazyPrograms(lz)
				a, b := c06LazyRun(lz, first), c06LazyRun(lz, after)
				fmt.Printf("looked first: %s%q %s\nchanged first: %s%q %s\n", first, a.Stdout, a.Err, after, b.Stdout, b.Err)
				if a.Stdout != b.Stdout || (a.Err == "") != (b.Err == "") {
					c.Violation("record-model", "lazy-split", "changing a separator before the first look at the fields re-interprets the current record", a.Stdout, b.Stdout, lz)
				}
				return
			}
			var cs c06Case
			if json.Unmarshal(raw, &cs) != nil || cs.Script == nil {
				fmt.Println("replay: case has no script")
				return
			}
			c06Run(c, cs.Script, true)
		},
	})
}

// c06OpPairs records which operation kinds followed which (interaction coverage).
func c06OpPairs(c *core.Ctx, s *rec.Script) {
	each := func(l []rec.Step) {
		for i := 1; i < len(l); i++ {
			c.Cover("op_pairs", l[i-1].Op+">"+l[i].Op)
		}
	}
	each(s.Begin)
	for i := range s.Rules {
		each(s.Rules[i].Steps)
	}
}
