package props

// C12 — NoExec, NoFileWrites and NoFileReads confine every program.
//
// Monitors (all observe executions of the real interpreter):
//   - a recording Config.OpenFile wrapper (every call: name, flags, result);
//   - the fake shell vsh as Config.ShellCommand, whose commands always create a sentinel file;
//   - a snapshot of the sandbox directory before and after the run (names, content, mtimes);
//   - for "traced" cases, the strace log of a separate harness process that runs the cases with
//     real descriptors: every execve and every open/creat/unlink/rename/mkdir inside a case window.
// Oracle: the flag table, applied to the straight-line I/O program by the model in package
// c12io (first forbidden operation => the run returns an error there; everything before it
// happened, nothing after it did).

import (
	"bufio"
	"bytes"
	"context"
	"encoding/json"
	"fmt"
	"hash/fnv"
	"io/fs"
	"os"
	"os/exec"
	"path/filepath"
	"regexp"
	"sort"
	"strconv"
	"strings"
	"sync"

	"github.com/benhoyt/goawk/interp"

	"verifharness/c12io"
	"verifharness/core"
	"verifharness/run"
)

// ---- observations ------------------------------------------------------------------------

// c12Call is one call of the Config.OpenFile wrapper.
type c12Call struct {
	Name string `json:"name"`           // as passed by the interpreter
	Real string `json:"real,omitempty"` // the path the wrapper opened ("" if it refused)
	Flag int    `json:"flag"`
	Err  string `json:"err,omitempty"`
}

func (k c12Call) write() bool {
	return k.Flag&(os.O_WRONLY|os.O_RDWR|os.O_CREATE|os.O_TRUNC|os.O_APPEND) != 0
}

type c12File struct {
	Content string `json:"content"`
	Mtime   int64  `json:"mtime"`
}

// c12Obs is everything recorded about one run.
type c12Obs struct {
	ParseErr  string             `json:"parse_err,omitempty"`
	Err       string             `json:"err,omitempty"`
	Panic     string             `json:"panic,omitempty"`
	StepLimit bool               `json:"step_limit,omitempty"`
	Status    int                `json:"status"`
	Stdout    string             `json:"stdout"`
	Stderr    string             `json:"stderr"`
	Calls     []c12Call          `json:"calls,omitempty"`
	Before    map[string]c12File `json:"before"`
	After     map[string]c12File `json:"after"`
	PriorErr  string             `json:"prior_err,omitempty"`
	UnderCtx  bool               `json:"under_context,omitempty"` // judged run went through ExecuteContext with a context that is never cancelled
}

// c12SafeBuf is the Output/Error writer of in-process cases: a locked buffer without
// ReadFrom. While a command is open, os/exec copies the command's stdout/stderr into
// Config.Output/Config.Error from its own goroutine; with a plain bytes.Buffer that copier
// (parked in ReadFrom) truncates what the interpreter writes meanwhile. That race belongs to
// C13 (it is listed there); a goroutine-safe writer keeps it out of C12's verdicts.
type c12SafeBuf struct {
	mu sync.Mutex
	b  bytes.Buffer
}

func (s *c12SafeBuf) Write(p []byte) (int, error) {
	s.mu.Lock()
	defer s.mu.Unlock()
	return s.b.Write(p)
}

func (s *c12SafeBuf) String() string {
	s.mu.Lock()
	defer s.mu.Unlock()
	return s.b.String()
}

func c12Snapshot(dir string) map[string]c12File {
	snap := map[string]c12File{}
	_ = filepath.WalkDir(dir, func(path string, d fs.DirEntry, err error) error {
		if err != nil || path == dir {
			return nil
		}
		rel := strings.TrimPrefix(path, dir+"/")
		if d.IsDir() {
			snap[rel+"/"] = c12File{}
			return nil
		}
		info, ierr := d.Info()
		b, _ := os.ReadFile(path)
		f := c12File{Content: string(b)}
		if ierr == nil {
			f.Mtime = info.ModTime().UnixNano()
		}
		snap[rel] = f
		return nil
	})
	return snap
}

func c12ResetSandbox(sb string, files map[string]string) error {
	if err := os.RemoveAll(sb); err != nil {
		return err
	}
	if err := os.MkdirAll(sb, 0o755); err != nil {
		return err
	}
	for name, content := range files {
		if content == c12io.DirMarker {
			if err := os.Mkdir(filepath.Join(sb, name), 0o755); err != nil {
				return err
			}
			continue
		}
		if err := os.WriteFile(filepath.Join(sb, name), []byte(content), 0o644); err != nil {
			return err
		}
	}
	return nil
}

// c12Dir is the directory prefix under which the program sees its files.
func c12Dir(cs *c12io.Case, sb string) string {
	if cs.OpenFile == c12io.OFRooted {
		return c12io.VRoot
	}
	return sb
}

// c12OpenFile builds the Config.OpenFile value of a case and the place its calls are recorded.
func c12OpenFile(cs *c12io.Case, sb string, calls *[]c12Call) interp.OpenFileFunc {
	switch cs.OpenFile {
	case c12io.OFRecorder:
		return func(name string, flag int, perm os.FileMode) (*os.File, error) {
			f, err := os.OpenFile(name, flag, perm)
			k := c12Call{Name: name, Real: name, Flag: flag}
			if err != nil {
				k.Err = err.Error()
			}
			*calls = append(*calls, k)
			return f, err
		}
	case c12io.OFRooted:
		// os.Root needs Go 1.24; this is the same idea done by hand: names are only
		// meaningful relative to a root that nothing but this function knows.
		return func(name string, flag int, perm os.FileMode) (*os.File, error) {
			k := c12Call{Name: name, Flag: flag}
			if name == "/dev/null" { // the one name outside the root the wrapper lets through
				k.Real = name
				*calls = append(*calls, k)
				return os.OpenFile(name, flag, perm)
			}
			rel := strings.TrimPrefix(name, c12io.VRoot+"/")
			if rel == name || rel == "" || strings.Contains(rel, "/") || strings.HasPrefix(rel, ".") {
				k.Err = "outside root"
				*calls = append(*calls, k)
				return nil, &fs.PathError{Op: "open", Path: name, Err: fs.ErrPermission}
			}
			k.Real = filepath.Join(sb, rel)
			f, err := os.OpenFile(k.Real, flag, perm)
			if err != nil {
				k.Err = err.Error()
			}
			*calls = append(*calls, k)
			return f, err
		}
	}
	return nil
}

// c12RunCase executes one case. sb is the sandbox directory (recreated), scratch a directory
// outside it for standard input/output files, marker is called right before and right after
// the judged Execute (the traced child opens a marker path there to delimit the syscall log).
func c12RunCase(cs *c12io.Case, sb, scratch string, marker func(tag string)) *c12Obs {
	obs := &c12Obs{}
	prog, perr, pm := run.Parse(c12io.Source(cs), nil)
	if pm != "" || perr != nil {
		obs.ParseErr = fmt.Sprint(perr, pm)
		return obs
	}
	d := c12Dir(cs, sb)
	var args []string
	for _, a := range cs.Operands {
		if a == "-" || strings.Contains(a, "=") {
			args = append(args, a)
		} else {
			args = append(args, d+"/"+a)
		}
	}
	stdinPath := filepath.Join(scratch, "stdin")
	if err := os.WriteFile(stdinPath, []byte(cs.Stdin), 0o644); err != nil {
		obs.ParseErr = "harness: " + err.Error()
		return obs
	}
	ip, err := interp.New(prog)
	if err != nil {
		obs.ParseErr = "interp.New: " + err.Error()
		return obs
	}
	hsum := fnv.New32a()
	hsum.Write([]byte(c12io.Source(cs) + "|" + strings.Join(cs.Operands, "|")))
	underCtx := cs.Mode != "traced" && hsum.Sum32()%2 == 1
	obs.UnderCtx = underCtx
	exec1 := func(fl c12io.Flags, calls *[]c12Call, mark bool) run.Outcome {
		stdin, err := os.Open(stdinPath)
		if err != nil {
			return run.Outcome{Err: "harness: " + err.Error()}
		}
		defer stdin.Close()
		cfg := &interp.Config{
			Stdin: stdin, Args: args, Argv0: "goawk",
			Vars:         []string{"D", d, "RD", sb},
			ShellCommand: []string{filepath.Join(core.BuildDir, "vsh")},
			NoExec:       fl.NoExec, NoFileWrites: fl.NoFileWrites, NoFileReads: fl.NoFileReads,
			OpenFile: c12OpenFile(cs, sb, calls),
		}
		var outF, errF *os.File
		var outB, errB c12SafeBuf
		if cs.Mode != "traced" {
			cfg.Output, cfg.Error = &outB, &errB
		} else {
			// real descriptors, as the command-line tool has them: commands inherit them directly
			outF, _ = os.Create(filepath.Join(scratch, "stdout"))
			errF, _ = os.Create(filepath.Join(scratch, "stderr"))
			if outF == nil || errF == nil {
				return run.Outcome{Err: "harness: cannot create output files"}
			}
			cfg.Output, cfg.Error = outF, errF
		}
		if mark {
			marker("begin")
		}
		opts := run.Opts{Interp: ip}
		if underCtx {
			// a caller with a cancellable context that never fires: the refusal must reach it all the same
			ctx, cancel := context.WithCancel(context.Background())
			defer cancel()
			opts.Ctx = ctx
		}
		out := run.Exec(prog, cfg, opts)
		if mark {
			marker("end")
		}
		if outF != nil {
			outF.Close()
			errF.Close()
			b, _ := os.ReadFile(filepath.Join(scratch, "stdout"))
			out.Stdout = string(b)
			b, _ = os.ReadFile(filepath.Join(scratch, "stderr"))
			out.Stderr = string(b)
		} else {
			out.Stdout, out.Stderr = outB.String(), errB.String()
		}
		return out
	}
	if cs.Prior != nil {
		if err := c12ResetSandbox(sb, cs.Files); err != nil {
			obs.ParseErr = "harness: " + err.Error()
			return obs
		}
		var ignored []c12Call
		po := exec1(*cs.Prior, &ignored, false)
		obs.PriorErr = po.Err
		if po.Panic != "" {
			obs.Panic = "prior run: " + po.Panic
		}
		ip.ResetVars() // Execute keeps variables by design; the judged run starts from a clean slate
	}
	if err := c12ResetSandbox(sb, cs.Files); err != nil {
		obs.ParseErr = "harness: " + err.Error()
		return obs
	}
	obs.Before = c12Snapshot(sb)
	out := exec1(cs.Flags, &obs.Calls, true)
	for try := 0; try < 4 && strings.Contains(out.Stderr, "WaitDelay expired"); try++ {
		// goawk abandons os/exec's output copier 250 ms after a child's exit; on an overloaded
		// machine that fires although the child wrote nothing (system() = -1). Wall-clock, not
		// confinement: run the case again from a clean sandbox.
		if err := c12ResetSandbox(sb, cs.Files); err != nil {
			break
		}
		obs.Calls = nil
		obs.Before = c12Snapshot(sb)
		ip.ResetVars() // the abandoned attempt left the program's variables behind
		out = exec1(cs.Flags, &obs.Calls, true)
	}
	obs.After = c12Snapshot(sb)
	obs.Err, obs.Status, obs.Stdout, obs.Stderr, obs.StepLimit = out.Err, out.Status, out.Stdout, out.Stderr, out.StepLimit
	if out.Panic != "" {
		obs.Panic = out.Panic
	}
	return obs
}

// ---- strace log --------------------------------------------------------------------------

const c12Trace = "execve,execveat,openat,open,creat,unlink,unlinkat,rename,renameat,renameat2,mkdir,mkdirat"

// c12Sys is one syscall of the log that falls inside a case window.
type c12Sys struct {
	Pid   int    `json:"pid"`
	Call  string `json:"call"`
	Path  string `json:"path"`
	Flags string `json:"flags,omitempty"`
	Comm  string `json:"comm"`
	Execd bool   `json:"execd,omitempty"` // issued by a thread whose command name is not the harness's: a started command, not the interpreter
	Raw   string `json:"raw"`
}

func (s c12Sys) isExec() bool { return s.Call == "execve" || s.Call == "execveat" }

func (s c12Sys) write() bool {
	if s.Call == "creat" {
		return true
	}
	for _, f := range []string{"O_WRONLY", "O_RDWR", "O_CREAT", "O_TRUNC", "O_APPEND"} {
		if strings.Contains(s.Flags, f) {
			return true
		}
	}
	return false
}

// strace -Y prints "PID<comm> syscall(args) = ret". The command name is per thread, inherited
// on clone and replaced by exec, so it tells the interpreter's threads (and a forked child
// that has not exec'ed yet) from the threads of a started command without tracking clone.
var c12LineRe = regexp.MustCompile(`^(\d+)<([^>]*)>\s+([a-z0-9_]+)\((.*)$`)

// c12Quoted returns the first C-quoted string of s and what follows it.
func c12Quoted(s string) (string, string, bool) {
	i := strings.IndexByte(s, '"')
	if i < 0 {
		return "", s, false
	}
	var b strings.Builder
	for j := i + 1; j < len(s); j++ {
		switch s[j] {
		case '\\':
			if j+1 < len(s) {
				j++
				b.WriteByte(s[j])
			}
		case '"':
			return b.String(), s[j+1:], true
		default:
			b.WriteByte(s[j])
		}
	}
	return b.String(), "", false
}

// c12ParseStrace splits the log into the windows delimited by the marker opens of the traced
// child. Resumed halves of interrupted calls are ignored: the attempt (entry line) is what counts.
func c12ParseStrace(log []byte, n int, selfComm string) (wins [][]c12Sys, lines int) {
	wins = make([][]c12Sys, n)
	cur := -1
	sc := bufio.NewScanner(bytes.NewReader(log))
	sc.Buffer(make([]byte, 1<<20), 1<<24)
	for sc.Scan() {
		m := c12LineRe.FindStringSubmatch(sc.Text())
		if m == nil {
			continue
		}
		lines++
		pid, _ := strconv.Atoi(m[1])
		ev := c12Sys{Pid: pid, Comm: m[2], Call: m[3], Raw: core.Clip(sc.Text(), 600)}
		rest := m[4]
		var ok bool
		ev.Path, rest, ok = c12Quoted(rest)
		if !ok && ev.Path == "" {
			continue
		}
		switch ev.Call {
		case "openat", "open":
			rest = strings.TrimPrefix(rest, ", ")
			if i := strings.IndexAny(rest, ",)"); i >= 0 {
				ev.Flags = rest[:i]
			} else {
				ev.Flags = strings.TrimSpace(strings.TrimSuffix(rest, "<unfinished ...>"))
			}
		}
		base := filepath.Base(ev.Path)
		if strings.HasPrefix(base, "c12-marker-begin-") {
			cur, _ = strconv.Atoi(strings.TrimPrefix(base, "c12-marker-begin-"))
			continue
		}
		if strings.HasPrefix(base, "c12-marker-end-") {
			cur = -1
			continue
		}
		ev.Execd = ev.Comm != selfComm
		if cur >= 0 && cur < n {
			wins[cur] = append(wins[cur], ev)
		}
	}
	return
}

// ---- judge -------------------------------------------------------------------------------

type c12Fault struct {
	Kind, Class, Summary, Expected, Observed string
}

// c12FormOf names the I/O form through which the program uses path (for classifier keys).
func c12FormOf(cs *c12io.Case, path, sb string, write bool) string {
	if strings.HasPrefix(path, "/dev/") {
		return "dev"
	}
	name := filepath.Base(path)
	want := "R"
	if write {
		want = "W"
	}
	for _, op := range cs.AllOps() {
		if op.F == name && c12io.Class(op.K) == want {
			return op.K
		}
	}
	for _, a := range cs.Operands {
		if a == name {
			return c12io.KOperand
		}
	}
	for _, op := range cs.AllOps() {
		if op.F == name && op.K == c12io.KSetArgv {
			return c12io.KOperand
		}
	}
	return "other"
}

var c12DigitsRe = regexp.MustCompile(`[0-9]+`)

func c12FormOfCmd(cs *c12io.Case, text string) string {
	m := regexp.MustCompile(`/ran([0-9]+)`).FindStringSubmatch(text)
	if m != nil {
		n, _ := strconv.Atoi(m[1])
		for _, op := range cs.AllOps() {
			if op.N == n {
				return op.K
			}
		}
	}
	return "other"
}

func c12FlagWord(write bool) string {
	if write {
		return "NoFileWrites"
	}
	return "NoFileReads"
}

// c12Confinement checks what must hold whatever the model says: no forbidden open reached
// the OpenFile wrapper, no command ran under NoExec, no forbidden syscall in the case window,
// no open of a sandbox path that bypassed a configured OpenFile.
func c12Confinement(c *core.Ctx, cs *c12io.Case, obs *c12Obs, sb string, win []c12Sys) (faults []c12Fault) {
	add := func(kind, class, summary, expected, observed string) {
		faults = append(faults, c12Fault{kind, class, summary, expected, observed})
	}
	fl := cs.Flags
	if obs.Panic != "" {
		add("panic", "", "interpreter panicked: "+run.PanicSite(obs.Panic), "status or error", obs.Panic)
	}
	for _, k := range obs.Calls {
		w := k.write()
		if (w && fl.NoFileWrites) || (!w && fl.NoFileReads) {
			add("recorder-forbidden-open", c12FlagWord(w)+":"+c12FormOf(cs, k.Name, sb, w),
				fmt.Sprintf("with %s set, Config.OpenFile was called for %s with flags %#x", c12FlagWord(w), k.Name, k.Flag),
				"no such call", fmt.Sprintf("%+v", k))
		}
	}
	if fl.NoExec {
		var names []string
		for name := range obs.After {
			if strings.HasPrefix(name, "ran") || strings.HasPrefix(name, "sink") {
				names = append(names, name)
			}
		}
		sort.Strings(names)
		if len(names) > 0 {
			add("exec-under-noexec", "NoExec:"+c12FormOfCmd(cs, "/"+strings.Replace(names[0], "sink", "ran", 1)),
				"with NoExec set, a command ran (its sentinel file exists): "+strings.Join(names, ","), "no sentinel", strings.Join(names, ","))
		}
	}
	if win == nil {
		return
	}
	// syscall level
	used := make([]bool, len(obs.Calls))
	custom := cs.OpenFile != c12io.OFDefault
	usesDevNull := false // os/exec may open /dev/null itself; it only counts when the program names it
	for _, op := range cs.AllOps() {
		usesDevNull = usesDevNull || op.K == c12io.KDevNull
	}
	for _, ev := range win {
		c.Count("strace_syscalls_inspected", 1)
		if ev.isExec() {
			c.Count("strace_execs_seen", 1)
			if fl.NoExec {
				add("strace-exec", "NoExec:"+c12FormOfCmd(cs, ev.Raw), "with NoExec set, the process tree executed a program", "no execve after start-up", ev.Raw)
			}
			continue
		}
		if ev.Execd {
			c.Count("strace_command_syscalls", 1)
			continue // what a command does is its own business when NoExec is off (and NoExec forbids the command itself)
		}
		inSandbox := strings.HasPrefix(ev.Path, sb+"/") || ev.Path == sb || strings.HasPrefix(ev.Path, c12io.VRoot) ||
			ev.Path == "/dev/stdout" || ev.Path == "/dev/stderr"
		switch ev.Call {
		case "openat", "open", "creat":
			w := ev.write()
			if ev.Path == "/dev/null" && usesDevNull {
				inSandbox = true
			}
			if !inSandbox && !(w && ev.Path != "/dev/null") {
				c.Cover("strace_other_paths", c12DigitsRe.ReplaceAllString(ev.Path, "N"))
				continue
			}
			if (w && fl.NoFileWrites) || (!w && fl.NoFileReads) {
				add("strace-forbidden-open", c12FlagWord(w)+":"+c12FormOf(cs, ev.Path, sb, w),
					fmt.Sprintf("with %s set, the interpreter process opened %s (%s)", c12FlagWord(w), ev.Path, ev.Flags), "no such open", ev.Raw)
			}
			if custom {
				matched := false
				for i, k := range obs.Calls {
					if !used[i] && k.Real == ev.Path && k.write() == w {
						used[i], matched = true, true
						break
					}
				}
				if matched {
					c.Count("strace_opens_attributed", 1)
				} else {
					add("strace-bypass", c12FormOf(cs, ev.Path, sb, w), "a custom OpenFile is configured but the interpreter process opened "+ev.Path+" without calling it",
						"every open matched by an OpenFile call", ev.Raw)
				}
			} else {
				c.Count("strace_opens_default", 1)
			}
		default: // unlink, rename, mkdir families
			if inSandbox {
				c.Count("strace_mutations_seen", 1)
				if fl.NoFileWrites {
					add("strace-forbidden-mutation", ev.Call, "with NoFileWrites set, the interpreter process changed the sandbox: "+ev.Raw, "none", ev.Raw)
				}
			}
		}
	}
	return
}

var c12PathRe = regexp.MustCompile(`/[^ :"]*`)
var c12StderrLineRe = regexp.MustCompile(`^d[0-9]+\n$`)

// c12Against compares the run with one variant of the model.
func c12Against(cs *c12io.Case, obs *c12Obs, exp *c12io.Expectation, sb string) (faults []c12Fault) {
	add := func(kind, class, summary, expected, observed string) {
		faults = append(faults, c12Fault{kind, class, summary, expected, observed})
	}
	formKey := ""
	if exp.Forbidden != nil {
		formKey = exp.Forbidden.Flag + ":" + exp.Forbidden.Form
	}
	// "Each attempt ends the run with an error": the run must stop at the forbidden operation
	// (nothing the program prints afterwards may appear) and must return an error.
	ranOn := exp.Err && obs.Stdout != exp.Stdout && strings.HasPrefix(obs.Stdout, exp.Stdout)
	switch {
	case exp.Err && (obs.Err == "" || ranOn):
		how := "the run returned no error"
		if obs.Err != "" {
			how = "the program kept running past it (the run ended later with: " + obs.Err + ")"
		} else if ranOn {
			how = "the program kept running past it and the run returned no error"
		}
		add("forbidden-attempt-not-fatal", formKey,
			fmt.Sprintf("%s is set and the program reached %s (op %d), but %s", exp.Forbidden.Flag, exp.Forbidden.Kind, exp.Forbidden.N, how),
			fmt.Sprintf("an error, stdout=%q", exp.Stdout), fmt.Sprintf("status=%d err=%q stdout=%q", obs.Status, obs.Err, obs.Stdout))
	case !exp.Err && obs.Err != "":
		msg := c12DigitsRe.ReplaceAllString(c12PathRe.ReplaceAllString(obs.Err, "PATH"), "N")
		add("unexpected-error", "error:"+core.Clip(msg, 60),
			"no operation of the program is forbidden by the flags "+cs.Flags.String()+", but the run returned an error: "+obs.Err, "no error", obs.Err)
	}
	if obs.Stdout != exp.Stdout && !ranOn {
		class := "flags-" + cs.Flags.String()
		if exp.Err {
			class = formKey
		}
		add("outcome-mismatch", class, "standard output differs from the model", exp.Stdout, obs.Stdout)
	}
	// Standard error: only the lines the program itself prints to /dev/stderr are compared;
	// anything else there is a diagnostic of the interpreter (e.g. "error closing ...: exec:
	// WaitDelay expired" on a loaded machine), which the property does not speak about.
	var progErr strings.Builder
	for _, l := range strings.SplitAfter(obs.Stderr, "\n") {
		if c12StderrLineRe.MatchString(l) {
			progErr.WriteString(l)
		}
	}
	if progErr.String() != exp.Stderr {
		add("stderr-mismatch", "flags-"+cs.Flags.String(), "the program's /dev/stderr lines differ from the model", exp.Stderr, obs.Stderr)
	}
	role := func(name string) string { return c12DigitsRe.ReplaceAllString(name, "") }
	var names []string
	for name := range exp.Files {
		names = append(names, name)
	}
	for name := range obs.After {
		if _, ok := exp.Files[name]; !ok {
			names = append(names, name)
		}
	}
	sort.Strings(names)
	for _, name := range names {
		want, wok := exp.Files[name]
		got, gok := obs.After[name]
		switch {
		case wok && !gok:
			add("fs-mismatch", role(name)+":missing", "file "+name+" should exist after the run", core.Q(want), "absent")
		case !wok && gok:
			add("fs-mismatch", role(name)+":extra", "file "+name+" must not exist after the run", "absent", core.Q(got.Content))
		case want != got.Content:
			add("fs-mismatch", role(name)+":content", "content of "+name+" differs from the model", core.Q(want), core.Q(got.Content))
		default:
			if b, ok := obs.Before[name]; ok && !exp.Written[name] && b.Mtime != got.Mtime {
				add("fs-mismatch", role(name)+":mtime", "file "+name+" was not written by the model program but its mtime changed", fmt.Sprint(b.Mtime), fmt.Sprint(got.Mtime))
			}
		}
	}
	if cs.OpenFile != c12io.OFDefault {
		// every file the program touched must have gone through the wrapper
		used := make([]bool, len(obs.Calls))
		for _, o := range exp.Opens {
			found := false
			for i, k := range obs.Calls {
				if used[i] || filepath.Base(k.Name) != o.F || k.write() != (o.Mode != "r") {
					continue
				}
				if o.Mode == "w" && k.Flag&os.O_TRUNC == 0 || o.Mode == "a" && k.Flag&os.O_APPEND == 0 {
					continue
				}
				used[i], found = true, true
				break
			}
			if !found {
				add("open-not-through-openfile", o.Mode+":"+c12FormOf(cs, o.F, sb, o.Mode != "r"),
					"the program opened "+o.F+" (mode "+o.Mode+") but the configured OpenFile saw no such call", fmt.Sprintf("%+v", exp.Opens), fmt.Sprintf("%+v", obs.Calls))
			}
		}
	}
	return
}

// c12Result is the verdict on one case.
type c12Result struct {
	Faults      []c12Fault
	Exp         *c12io.Expectation
	DevAlt      bool   // accepted through the other side of the /dev/stdout don't-care
	Unsupported string // outside the modelled fragment (generator slip) or harness trouble
}

func c12Judge(c *core.Ctx, cs *c12io.Case, obs *c12Obs, sb string, win []c12Sys) c12Result {
	d := c12Dir(cs, sb)
	exp := c12io.Expect(cs, cs.Flags, d, false)
	res := c12Result{Exp: exp}
	if obs.ParseErr != "" {
		res.Unsupported = "program not runnable: " + obs.ParseErr
		return res
	}
	if exp.Unsupported != "" {
		res.Unsupported = exp.Unsupported
		return res
	}
	if obs.StepLimit {
		res.Unsupported = "step limit"
		return res
	}
	res.Faults = c12Confinement(c, cs, obs, sb, win)
	mf := c12Against(cs, obs, exp, sb)
	if len(mf) > 0 && exp.DevReached {
		// don't-care: /dev/stdout-style names under NoFileWrites may be refused or allowed
		exp2 := c12io.Expect(cs, cs.Flags, d, true)
		if exp2.Unsupported == "" && len(c12Against(cs, obs, exp2, sb)) == 0 {
			mf = nil
			res.Exp, res.DevAlt = exp2, true
		}
	}
	res.Faults = append(res.Faults, mf...)
	return res
}

// ---- driver ------------------------------------------------------------------------------

func c12Key(cs *c12io.Case) string {
	b, _ := json.Marshal([]any{cs.Flags, cs.OpenFile, cs.Mode, cs.Prior, cs.Operands, cs.Begin, cs.Main, cs.End, cs.HasMain, cs.HasEnd, cs.Files})
	return string(b)
}

// c12Report turns the verdict on one case into counters, cover sets and (at most one)
// violation: the most severe fault is the witness, the others are listed with it.
func c12Report(c *core.Ctx, cs *c12io.Case, obs *c12Obs, res c12Result) {
	c.Eval(1)
	if res.Unsupported != "" {
		c.Count("outside_fragment", 1)
		c.Note("outside fragment: %s", res.Unsupported)
		if strings.HasPrefix(res.Unsupported, "program not runnable") {
			c.Inconclusive("c12 generator produced an unrunnable program: " + core.Clip(res.Unsupported, 200))
		}
		return
	}
	exp := res.Exp
	c.Cover("flag_combos", cs.Flags.String())
	c.Cover("openfile_kinds", cs.OpenFile)
	c.Cover("modes", cs.Mode)
	c.Count("cases_"+cs.Mode, 1)
	c.Count("recorder_calls", len(obs.Calls))
	if cs.Prior != nil {
		c.Count("reused_interpreter_cases", 1)
	}
	if res.DevAlt {
		c.Count("dev_dontcare_other_side", 1)
	}
	if exp.DevReached {
		c.Count("dev_dontcare_reached", 1)
	}
	if cs.Flags.Any() && len(exp.Attempts) > 0 {
		c.NonTrivial(c12Key(cs))
	}
	for _, op := range cs.AllOps() {
		if c12io.Class(op.K) == "W" || c12io.Class(op.K) == "R" || op.K == c12io.KSetArgv {
			c.Cover("name_spellings", fmt.Sprint(op.Sp%c12io.NSpell))
		}
	}
	if len(res.Faults) == 0 {
		for _, a := range exp.Attempts {
			c.Cover("attempts_verified", a)
		}
		if exp.Forbidden != nil {
			c.Count("forbidden_attempts_refused", 1)
			c.Cover("refused_forms", exp.Forbidden.Flag+":"+exp.Forbidden.Form+":"+cs.Mode)
			c.Cover("refused_by_openfile", exp.Forbidden.Flag+":"+exp.Forbidden.Form+":"+cs.OpenFile)
		} else if cs.Flags.Any() {
			c.Count("flagged_runs_without_forbidden_attempt", 1)
		}
		if c.WantSample() && exp.Forbidden != nil && len(exp.Opens)+len(exp.Execs) > 0 {
			c.Sample(map[string]any{"flags": cs.Flags.String(), "openfile": cs.OpenFile, "mode": cs.Mode, "operands": cs.Operands,
				"source": c12io.Source(cs), "first_forbidden": exp.Forbidden, "error": obs.Err, "stdout": obs.Stdout,
				"openfile_calls": obs.Calls, "files_after": c12Names(obs.After), "compared": "error presence, stdout, stderr, sandbox snapshot, OpenFile calls, syscalls (traced)"})
		}
		return
	}
	f := res.Faults[0]
	var others []string
	for _, o := range res.Faults[1:] {
		others = append(others, o.Kind+"/"+o.Class)
	}
	summary := fmt.Sprintf("[%s %s %s] %s", cs.Flags, cs.OpenFile, cs.Mode, f.Summary)
	if len(others) > 0 {
		summary += " (also: " + strings.Join(others, ", ") + ")"
	}
	cs.Source = c12io.Source(cs)
	c.Violation(f.Kind, f.Class, summary, f.Expected, f.Observed, cs)
}

func c12Names(snap map[string]c12File) []string {
	var l []string
	for n := range snap {
		l = append(l, n)
	}
	sort.Strings(l)
	return l
}

// c12RunAPI runs and judges one case inside the batch process.
func c12RunAPI(c *core.Ctx, cs *c12io.Case) {
	c.Begin(cs)
	wd := c.WorkDir()
	sb, scratch := filepath.Join(wd, "sb"), filepath.Join(wd, "scratch")
	_ = os.MkdirAll(scratch, 0o755)
	obs := c12RunCase(cs, sb, scratch, func(string) {})
	if obs.UnderCtx {
		c.Count("api_runs_under_never_cancelled_context", 1)
	}
	res := c12Judge(c, cs, obs, sb, nil)
	c12Report(c, cs, obs, res)
	if c.Replay {
		c12Show(cs, obs, res)
	}
}

// chunk file handed to the traced child
type c12Chunk struct {
	Sandbox string        `json:"sandbox"`
	Scratch string        `json:"scratch"`
	Cases   []*c12io.Case `json:"cases"`
}

// c12TracedMain is the traced child: `vcheck --c12-traced <chunk.json>`. It runs the cases of
// the chunk one after the other; right before and after each judged Execute it opens a marker
// path (which does not exist) so that the parent can cut the strace log into case windows.
// Everything the harness itself does to the sandbox happens outside the windows.
func c12TracedMain(chunkPath string) int {
	b, err := os.ReadFile(chunkPath)
	if err != nil {
		fmt.Fprintln(os.Stderr, err)
		return 2
	}
	var ch c12Chunk
	if err := json.Unmarshal(b, &ch); err != nil {
		fmt.Fprintln(os.Stderr, err)
		return 2
	}
	resF, err := os.Create(filepath.Join(ch.Scratch, "results.jsonl"))
	if err != nil {
		fmt.Fprintln(os.Stderr, err)
		return 2
	}
	defer resF.Close()
	for i, cs := range ch.Cases {
		obs := c12RunCase(cs, ch.Sandbox, ch.Scratch, func(tag string) {
			f, err := os.Open(filepath.Join(ch.Scratch, fmt.Sprintf("c12-marker-%s-%d", tag, i)))
			if err == nil {
				f.Close()
			}
		})
		line, _ := json.Marshal(obs)
		_, _ = resF.Write(append(line, '\n'))
	}
	return 0
}

func init() {
	if len(os.Args) == 3 && os.Args[1] == "--c12-traced" {
		os.Exit(c12TracedMain(os.Args[2]))
	}
}

// c12RunTraced runs a chunk of cases in a child process under strace and judges each with
// its window of the syscall log.
func c12RunTraced(c *core.Ctx, cases []*c12io.Case, chunkNo int) {
	if len(cases) == 0 {
		return
	}
	wd := filepath.Join(c.WorkDir(), fmt.Sprintf("t%d", chunkNo))
	ch := c12Chunk{Sandbox: filepath.Join(wd, "sb"), Scratch: filepath.Join(wd, "scratch"), Cases: cases}
	_ = os.RemoveAll(wd)
	if err := os.MkdirAll(ch.Scratch, 0o755); err != nil {
		c.Inconclusive("mkdir: " + err.Error())
		return
	}
	c.Begin(cases[0])
	chunkPath := filepath.Join(wd, "chunk.json")
	b, _ := json.Marshal(ch)
	_ = os.WriteFile(chunkPath, b, 0o644)
	logPath := filepath.Join(wd, "strace.log")
	self, _ := os.Executable()
	selfComm := filepath.Base(self)
	if len(selfComm) > 15 {
		selfComm = selfComm[:15] // TASK_COMM_LEN
	}
	cmd := exec.Command("strace", "-f", "-qq", "-Y", "--seccomp-bpf", "-s", "8192", "-e", "signal=none", "-e", "trace="+c12Trace, "-o", logPath, self, "--c12-traced", chunkPath)
	var stderr bytes.Buffer
	cmd.Stderr = &stderr
	cmd.Stdout = &stderr
	runErr := cmd.Run()
	var obsList []*c12Obs
	if rb, err := os.ReadFile(filepath.Join(ch.Scratch, "results.jsonl")); err == nil {
		for _, line := range bytes.Split(rb, []byte("\n")) {
			if len(line) == 0 {
				continue
			}
			o := &c12Obs{}
			if json.Unmarshal(line, o) == nil {
				obsList = append(obsList, o)
			}
		}
	}
	logB, _ := os.ReadFile(logPath)
	wins, nlines := c12ParseStrace(logB, len(cases), selfComm)
	c.Count("strace_log_lines", nlines)
	if runErr != nil || len(obsList) != len(cases) {
		c.Inconclusive(fmt.Sprintf("traced child: %v, %d of %d results: %s", runErr, len(obsList), len(cases), core.Clip(stderr.String(), 300)))
	}
	for i, obs := range obsList {
		if i >= len(cases) {
			break
		}
		cs := cases[i]
		c.Begin(cs)
		win := wins[i]
		if win == nil {
			win = []c12Sys{}
		}
		res := c12Judge(c, cs, obs, ch.Sandbox, win)
		c.Count("strace_windows", 1)
		if len(win) > 0 {
			c.Count("strace_windows_nonempty", 1)
		}
		c12Report(c, cs, obs, res)
		if c.Replay {
			c12Show(cs, obs, res)
			for _, ev := range win {
				fmt.Printf("  syscall: %s\n", ev.Raw)
			}
		}
	}
	_ = os.RemoveAll(wd)
}

func c12Show(cs *c12io.Case, obs *c12Obs, res c12Result) {
	fmt.Printf("flags=%s openfile=%s mode=%s operands=%v prior=%v\n%s", cs.Flags, cs.OpenFile, cs.Mode, cs.Operands, cs.Prior, c12io.Source(cs))
	if res.Unsupported != "" {
		fmt.Println("outside the modelled fragment:", res.Unsupported)
		return
	}
	fmt.Printf("model:    err=%v forbidden=%+v\n          stdout=%q stderr=%q\n          files=%v opens=%+v\n", res.Exp.Err, res.Exp.Forbidden, res.Exp.Stdout, res.Exp.Stderr, res.Exp.Files, res.Exp.Opens)
	after := map[string]string{}
	for n, f := range obs.After {
		after[n] = f.Content
	}
	fmt.Printf("observed: err=%q status=%d\n          stdout=%q stderr=%q\n          files=%v calls=%+v\n", obs.Err, obs.Status, obs.Stdout, obs.Stderr, after, obs.Calls)
	for _, f := range res.Faults {
		fmt.Printf("  fault %s/%s: %s\n", f.Kind, f.Class, f.Summary)
	}
}

func init() {
	n := func(t core.Tier, q, th int) int {
		if t == core.Thorough {
			return th
		}
		return q
	}
	const chunkSize = 40
	core.Register(&core.Property{
		ID:    "C12",
		Level: "exploration",
		Rule: "straight-line I/O programs built from an IR (forms: print/printf > >> |, cmd|getline [v], getline [v] <file, system, plain getline [v] and the main loop over file " +
			"operands, close+reopen, /dev/stdout, /dev/stderr, \"-\", ARGV set at run time; names computed by concatenation, sprintf, array element, field, variable, function) x 8 flag " +
			"combinations x OpenFile {default, recorder, rooted} x {in-process with buffers, own process under strace with real descriptors} (+ a reused Interpreter whose earlier run had other flags); " +
			"a systematic family (every form x flags x OpenFile x section) plus random programs; non-trivial = distinct case with at least one flag set whose model reaches at least one I/O attempt",
		Explanation: "the systematic family (18 I/O forms x 8 flag combinations x 3 OpenFile kinds x 3 program sections = 1296 programs) is enumerated completely in-process in both tiers " +
			"(and completely under strace in thorough, one third of it in quick); everything else is sampled",
		Assumptions: []string{
			"the fake shell vsh stands for /bin/sh: a process start is a process start whatever the shell is",
			"print > \"/dev/stdout\" and \"/dev/stderr\" under NoFileWrites are a don't-care (refused or allowed), but must never reach an open with write flags",
			"what a started command does to the file system is not restricted by NoFileWrites/NoFileReads (flags are independent)",
			"os.Root needs Go 1.24 (toolchain here is 1.23): the rooted OpenFile is a hand-written equivalent over a virtual directory",
			"strace sees the syscalls of the whole process tree; calls by a process that has exec'ed are attributed to the command, all others to the interpreter",
		},
		Setup: func(t core.Tier) error {
			out, err := exec.Command("strace", "-f", "-qq", "-Y", "--seccomp-bpf", "-e", "trace=execve", "-o", "/dev/null", filepath.Join(core.BuildDir, "vsh"), "emit:ok").CombinedOutput()
			if err != nil || !strings.Contains(string(out), "ok") {
				return fmt.Errorf("strace unusable: %v %s", err, core.Clip(string(out), 200))
			}
			return nil
		},
		NBatches: func(t core.Tier) int { return n(t, 16, 64) },
		Floors: func(t core.Tier) map[string]int {
			return map[string]int{
				"evaluations": n(t, 4500, 100000), "distinct_nontrivial": n(t, 3000, 60000),
				"flag_combos": 8, "openfile_kinds": 3, "modes": 2, "name_spellings": c12io.NSpell,
				"refused_forms": 30, "attempts_verified": 110, "forbidden_attempts_refused": n(t, 1200, 30000),
				"cases_traced": n(t, 600, 15000), "strace_syscalls_inspected": n(t, 900, 20000),
				"strace_opens_attributed": n(t, 250, 5000), "strace_execs_seen": n(t, 150, 3000),
				"reused_interpreter_cases": n(t, 200, 6000),
			}
		},
		Run: func(c *core.Ctx) {
			rng := c.Rand("gen")
			// systematic family: in-process always; under strace a third of it in quick, all in thorough
			var traced []*c12io.Case
			chunkNo := 0
			flush := func(force bool) {
				for len(traced) >= chunkSize || (force && len(traced) > 0) {
					k := chunkSize
					if k > len(traced) {
						k = len(traced)
					}
					c12RunTraced(c, traced[:k], chunkNo)
					chunkNo++
					traced = traced[k:]
				}
			}
			for i := 0; i < c12io.NSystematic; i++ {
				if !c.Mine(i) {
					continue
				}
				c12RunAPI(c, c12io.Systematic(i, "api"))
				if c.Tier == core.Thorough || (i/c.NBatches)%3 == int(c.Seed%3+3)%3 {
					traced = append(traced, c12io.Systematic(i, "traced"))
					flush(false)
				}
			}
			nAPI := n(c.Tier, 3200, 96000) / c.NBatches
			nTraced := n(c.Tier, 480, 16000) / c.NBatches
			for i := 0; i < nAPI; i++ {
				c12RunAPI(c, c12io.Random(rng, "api"))
			}
			trng := c.Rand("gen-traced")
			for i := 0; i < nTraced; i++ {
				traced = append(traced, c12io.Random(trng, "traced"))
				flush(false)
			}
			flush(true)
		},
		Replay: func(c *core.Ctx, raw json.RawMessage) {
			cs := &c12io.Case{}
			if err := json.Unmarshal(raw, cs); err != nil {
				fmt.Println("bad case:", err)
				return
			}
			if cs.Mode == "traced" {
				c12RunTraced(c, []*c12io.Case{cs}, 0)
			} else {
				c12RunAPI(c, cs)
			}
		},
	})
}
