package props

// C03 — parsing is total; errors carry a position inside the source; token positions are true.

import (
	"bytes"
	"encoding/json"
	"fmt"
	"math/rand"
	"os"
	"os/exec"
	"path/filepath"
	"strings"

	"github.com/benhoyt/goawk/lexer"
	"github.com/benhoyt/goawk/parser"
	vh "github.com/benhoyt/goawk/verifhook"

	"verifharness/astx"
	"verifharness/core"
	"verifharness/corpus"
	"verifharness/run"
)

// ---- independent position map ------------------------------------------------------------

type posMap struct {
	src       []byte
	lineStart []int   // offset of the first byte of each line
	lineAt    []int32 // 1-based line of each offset (len(src)+1 entries)
	colAt     []int32 // 1-based column of each offset
}

func newPosMap(src []byte) *posMap {
	m := &posMap{src: src, lineStart: []int{0}}
	m.lineAt = make([]int32, len(src)+1)
	m.colAt = make([]int32, len(src)+1)
	line, col := int32(1), int32(1)
	for i, b := range src {
		m.lineAt[i], m.colAt[i] = line, col
		if b == '\n' {
			m.lineStart = append(m.lineStart, i+1)
			line++
			col = 1
		} else if b != '\r' {
			col++
		}
	}
	m.lineAt[len(src)], m.colAt[len(src)] = line, col
	return m
}

// pos returns the (line, column) of offset off: line = 1 + newlines before it, column =
// 1 + non-CR bytes since the line start.
func (m *posMap) pos(off int) (int, int) {
	if off > len(m.src) {
		return int(m.lineAt[len(m.src)]), int(m.colAt[len(m.src)]) + off - len(m.src)
	}
	return int(m.lineAt[off]), int(m.colAt[off])
}

func (m *posMap) lineBytes(line int) []byte {
	start := m.lineStart[line-1]
	end := len(m.src)
	if line < len(m.lineStart) {
		end = m.lineStart[line] - 1
	}
	return m.src[start:end]
}

// valid reports whether (line, col) designates a byte position of the source (or the
// position just past the end of a line).
func (m *posMap) valid(line, col int) bool {
	if line < 1 || line > len(m.lineStart) || col < 1 {
		return false
	}
	n := 0
	for _, b := range m.lineBytes(line) {
		if b != '\r' {
			n++
		}
	}
	return col <= n+1
}

// offset returns the offset of the col-th non-CR byte of the line (or end of line).
func (m *posMap) offset(line, col int) (int, bool) {
	if !m.valid(line, col) {
		return 0, false
	}
	start := m.lineStart[line-1]
	lb := m.lineBytes(line)
	n := 0
	for i, b := range lb {
		if b != '\r' {
			n++
			if n == col {
				return start + i, true
			}
		}
	}
	return start + len(lb), true
}

// ---- lexer-level monitor -----------------------------------------------------------------

// skipBlank advances over what the lexer is allowed to skip between tokens. ok=false means
// a stray backslash (the lexer reports ILLEGAL there; only validity is checked then).
func skipBlank(src []byte, i int) (int, bool) {
	for i < len(src) {
		switch src[i] {
		case ' ', '\t', '\r':
			i++
		case '\\':
			j := i + 1
			if j < len(src) && src[j] == '\r' {
				j++
			}
			if j < len(src) && src[j] == '\n' {
				i = j + 1
			} else {
				return i, false
			}
		case '#':
			for i < len(src) && src[i] != '\n' && src[i] != 0 {
				i++
			}
			return i, true
		default:
			return i, true
		}
	}
	return i, true
}

func tokenSpellings(tok lexer.Token) []string {
	switch tok {
	case lexer.POW:
		return []string{"**", "^"}
	case lexer.POW_ASSIGN:
		return []string{"**=", "^="}
	case lexer.NEWLINE:
		return []string{"\n"}
	}
	return []string{tok.String()}
}

// stringExtent returns the length of a string literal starting at src[i] (opening quote).
func stringExtent(src []byte, i int) int {
	q := src[i]
	j := i + 1
	for j < len(src) {
		c := src[j]
		if c == q {
			return j + 1 - i
		}
		if c == '\\' {
			j++
		}
		j++
	}
	return len(src) - i
}

type lexReport struct {
	tokens int
	fault  string
}

// checkLexer scans src with the real lexer and checks every reported token position against
// the independent map. regexAfterDiv decides (deterministically) where ScanRegex is driven.
func checkLexer(src []byte, rng *rand.Rand, cover func(kind string)) (rep lexReport) {
	m := newPosMap(src)
	lx := lexer.NewLexer(src)
	prevEnd := 0
	prevKind := "start"
	for n := 0; n < len(src)+4; n++ {
		pos, tok, val := lx.Scan()
		rep.tokens++
		if tok == lexer.ILLEGAL {
			if !m.valid(pos.Line, pos.Column) {
				rep.fault = fmt.Sprintf("ILLEGAL token (%s) reported at %d:%d which is not a position of the source", val, pos.Line, pos.Column)
			}
			return
		}
		start, ok := skipBlank(src, prevEnd)
		if !ok {
			rep.fault = fmt.Sprintf("lexer produced token %s after a stray backslash at offset %d", tok, start)
			return
		}
		sepKind := "none"
		if start > prevEnd {
			sepKind = sepClass(src[prevEnd:start])
		}
		if tok == lexer.EOF {
			if start < len(src) && src[start] != 0 {
				rep.fault = fmt.Sprintf("EOF token while source continues at offset %d (%q)", start, clipB(src[start:]))
				return
			}
			el, ec := m.pos(start)
			if pos.Line != el || pos.Column != ec {
				// past-the-end quirk: allow one column past when there is no final byte to stand on
				rep.fault = fmt.Sprintf("EOF token reported at %d:%d, true position %d:%d", pos.Line, pos.Column, el, ec)
			}
			return
		}
		if start >= len(src) {
			rep.fault = fmt.Sprintf("token %s %q reported after the end of the source", tok, val)
			return
		}
		el, ec := m.pos(start)
		if pos.Line != el || pos.Column != ec {
			rep.fault = fmt.Sprintf("token %s %q (after %s, separator %s) reported at %d:%d, true position of its first byte is %d:%d (offset %d)",
				tok, val, prevKind, sepKind, pos.Line, pos.Column, el, ec, start)
			return
		}
		// extent
		var ext int
		switch tok {
		case lexer.NAME, lexer.NUMBER:
			if !bytes.HasPrefix(src[start:], []byte(val)) {
				rep.fault = fmt.Sprintf("token %s value %q does not spell the source at %d:%d (%q)", tok, val, el, ec, clipB(src[start:]))
				return
			}
			ext = len(val)
		case lexer.STRING:
			if src[start] != '"' && src[start] != '\'' {
				rep.fault = fmt.Sprintf("STRING token at %d:%d but source there is %q", el, ec, clipB(src[start:]))
				return
			}
			ext = stringExtent(src, start)
		default:
			found := false
			for _, sp := range tokenSpellings(tok) {
				if bytes.HasPrefix(src[start:], []byte(sp)) {
					ext = len(sp)
					found = true
					break
				}
			}
			if !found {
				rep.fault = fmt.Sprintf("token %s at %d:%d but source there is %q", tok, el, ec, clipB(src[start:]))
				return
			}
		}
		cover(tok.String() + "|" + sepKind)
		prevEnd = start + ext
		prevKind = tok.String()
		if (tok == lexer.DIV || tok == lexer.DIV_ASSIGN) && rng.Intn(3) == 0 {
			rpos, rtok, rval := lx.ScanRegex()
			rep.tokens++
			if rtok == lexer.ILLEGAL {
				if !m.valid(rpos.Line, rpos.Column) {
					rep.fault = fmt.Sprintf("ILLEGAL regex (%s) reported at %d:%d which is not a position of the source", rval, rpos.Line, rpos.Column)
				}
				return
			}
			if rpos.Line != el || rpos.Column != ec {
				rep.fault = fmt.Sprintf("REGEX token %q reported at %d:%d, its opening slash is at %d:%d", rval, rpos.Line, rpos.Column, el, ec)
				return
			}
			// extent: up to the closing unescaped slash
			j := start + 1
			for j < len(src) && src[j] != '/' {
				if src[j] == '\\' {
					j++
				}
				j++
			}
			prevEnd = j + 1
			prevKind = "regex"
			cover("regex|" + sepKind)
		}
	}
	return
}

func sepClass(sep []byte) string {
	var parts []string
	has := func(s string) bool { return bytes.Contains(sep, []byte(s)) }
	if has(" ") {
		parts = append(parts, "sp")
	}
	if has("\t") {
		parts = append(parts, "tab")
	}
	if has("\\") {
		parts = append(parts, "cont")
	}
	if has("#") {
		parts = append(parts, "comment")
	}
	if has("\r") {
		parts = append(parts, "cr")
	}
	return strings.Join(parts, "+")
}

func clipB(b []byte) string {
	if len(b) > 24 {
		b = b[:24]
	}
	return string(b)
}

// ---- parser-level monitor ----------------------------------------------------------------

type c03Case struct {
	Gen string `json:"gen"`
	Src []byte `json:"src"` // base64 in JSON
}

type c03Result struct {
	parsedOK bool
	errMsg   string
	errLine  int
	errCol   int
}

func c03ParseCheck(c *core.Ctx, cs c03Case, rng *rand.Rand) c03Result {
	src := cs.Src
	var res c03Result
	prog, err, pm := run.Parse(string(src), nil)
	m := newPosMap(src)
	if pm != "" {
		c.Violation("parse-panic", "", "ParseProgram panicked: "+run.PanicSite(pm), "program or *ParseError", pm, cs)
		return res
	}
	if err != nil {
		pe, ok := err.(*parser.ParseError)
		if !ok {
			// compile-time "program too large" is an error value too; anything else is unexpected
			c.Cover("error_types", fmt.Sprintf("%T", err))
			return res
		}
		res.errMsg, res.errLine, res.errCol = pe.Message, pe.Position.Line, pe.Position.Column
		c.Cover("error_messages", msgClass(pe.Message))
		if !m.valid(pe.Position.Line, pe.Position.Column) {
			c.Violation("error-position", "", fmt.Sprintf("parse error %q at %d:%d is not a position of the source (%d lines)",
				pe.Message, pe.Position.Line, pe.Position.Column, len(m.lineStart)),
				"1<=line<=lines, 1<=col<=len(line)+1", fmt.Sprintf("%d:%d", pe.Position.Line, pe.Position.Column), cs)
		}
		return res
	}
	res.parsedOK = true
	// AST name positions must spell the name.
	checkName := func(what, name string, pos lexer.Position) {
		if pos.Line == 0 && pos.Column == 0 {
			return
		}
		off, ok := m.offset(pos.Line, pos.Column)
		if !ok || !bytes.HasPrefix(src[off:], []byte(name)) {
			c.Violation("ast-position", "", fmt.Sprintf("%s %q recorded at %d:%d but the source there does not spell it", what, name, pos.Line, pos.Column),
				name, fmt.Sprintf("valid=%v", ok), cs)
		}
		c.Count("ast_positions_checked", 1)
	}
	tree := astx.Tree(prog)
	v := astx.Visitor{
		Expr: func(e vh.Expr) {
			switch e := e.(type) {
			case *vh.VarExpr:
				checkName("variable", e.Name, e.Pos)
			case *vh.IndexExpr:
				checkName("array", e.Array, e.ArrayPos)
			case *vh.InExpr:
				checkName("array", e.Array, e.ArrayPos)
			case *vh.UserCallExpr:
				checkName("function call", e.Name, e.Pos)
			}
		},
		Stmt: func(s vh.Stmt) {
			sp := s.StartPos()
			if sp.Line != 0 && !m.valid(sp.Line, sp.Column) {
				c.Violation("ast-position", "", fmt.Sprintf("statement %T start %d:%d is not a position of the source", s, sp.Line, sp.Column), "", "", cs)
			}
			ep := s.EndPos()
			if ep.Line != 0 && !m.valid(ep.Line, ep.Column) {
				c.Violation("ast-position", "", fmt.Sprintf("statement %T end %d:%d is not a position of the source", s, ep.Line, ep.Column), "", "", cs)
			}
			if fi, ok := s.(*vh.ForInStmt); ok {
				checkName("for-in variable", fi.Var, fi.VarPos)
				checkName("for-in array", fi.Array, fi.ArrayPos)
			}
			if ds, ok := s.(*vh.DeleteStmt); ok {
				checkName("delete array", ds.Array, ds.ArrayPos)
			}
		},
	}
	v.Program(tree)
	for _, f := range tree.Functions {
		checkName("function", f.Name, f.Pos)
	}
	return res
}

func msgClass(m string) string {
	// collapse quoted/variable parts so the set stays small
	var sb strings.Builder
	inq := false
	for _, r := range m {
		if r == '"' || r == '\'' {
			inq = !inq
			sb.WriteByte('"')
			continue
		}
		if !inq && !(r >= '0' && r <= '9') {
			sb.WriteRune(r)
		}
	}
	s := sb.String()
	if len(s) > 60 {
		s = s[:60]
	}
	return s
}

// ---- CLI monitor -------------------------------------------------------------------------

func c03CLICheck(c *core.Ctx, cs c03Case, res c03Result) {
	src := cs.Src
	if bytes.IndexByte(src, 0) >= 0 {
		return // a NUL cannot be passed on a command line or survive -f the same way; API covers it
	}
	dir := c.WorkDir()
	pf := filepath.Join(dir, "prog.awk")
	if err := os.WriteFile(pf, src, 0o644); err != nil {
		return
	}
	// -d: parse, print the tree and exit — the program itself is never run here (C03 is about
	// parsing; a valid program may loop forever or read input).
	cmd := exec.Command(filepath.Join(core.BuildDir, "goawk"), "-d", "-f", pf)
	cmd.Stdin = strings.NewReader("")
	var stdout, stderr bytes.Buffer
	cmd.Stdout, cmd.Stderr = &stdout, &stderr
	cmd.Env = []string{"PATH=/nonexistent"}
	err := cmd.Run()
	code := 0
	if ee, ok := err.(*exec.ExitError); ok {
		code = ee.ExitCode()
	} else if err != nil {
		c.Inconclusive("cli-run:" + err.Error())
		return
	}
	c.Count("cli_runs", 1)
	es := stderr.String()
	if code == 2 || code < 0 || strings.Contains(es, "panic:") || strings.Contains(es, "goroutine ") || strings.Contains(es, "fatal error:") {
		c.Violation("cli-crash", "", fmt.Sprintf("goawk -f crashed (exit %d): %s", code, firstLineOf(es)), "exit 0/1 with a message", core.Clip(es, 1500), cs)
		return
	}
	seen := src // the text the CLI parses
	if len(src) > 0 && src[len(src)-1] != '\n' {
		seen = append(append([]byte{}, src...), '\n')
		// The CLI appends a newline to a program file that lacks one, so what it parses is that
		// text: a final backslash becomes a line continuation, a final comment gets its end.
		// Judge the CLI against the parse of the text it really sees.
		res = c03Result{}
		if _, err, pm := run.Parse(string(src)+"\n", nil); pm != "" {
			return // the in-process monitors report parser panics
		} else if err == nil {
			res.parsedOK = true
		} else if pe, ok := err.(*parser.ParseError); ok {
			res.errMsg, res.errLine, res.errCol = pe.Message, pe.Position.Line, pe.Position.Column
		}
		c.Count("cli_newline_appended", 1)
	}
	if res.parsedOK || res.errMsg == "" {
		if res.parsedOK && code != 0 {
			c.Violation("cli-exit", "", fmt.Sprintf("the program parses but goawk -d exited with status %d: %s", code, firstLineOf(es)), "0", fmt.Sprint(code), cs)
		}
		return
	}
	// The CLI appends a newline if the file lacks one; positions are unchanged by that.
	m := newPosMap(seen)
	lines := strings.SplitN(es, "\n", 3)
	first := lines[0]
	// Error at the very end of the program text: the CLI has appended a newline to a file
	// lacking one and names that position differently (don't-care, see DESIGN.md C03).
	errOff, okOff := m.offset(res.errLine, res.errCol)
	eofLine := okOff && errOff >= len(seen)
	wantPrefix := fmt.Sprintf("%s:%d:%d: ", pf, res.errLine, res.errCol)
	if eofLine {
		c.Count("cli_eof_position_dontcare", 1)
	} else if !strings.HasPrefix(first, wantPrefix) {
		c.Violation("cli-position", "", fmt.Sprintf("CLI reported %q, API position is %d:%d", core.Clip(first, 200), res.errLine, res.errCol), wantPrefix+res.errMsg, first, cs)
		return
	} else if len(lines) >= 2 {
		want := strings.ReplaceAll(string(m.lineBytes(res.errLine)), "\t", "    ")
		if lines[1] != want {
			c.Violation("cli-source-line", "", "CLI echoed a different source line than the one at the error position", want, lines[1], cs)
		}
	}
	if code != 1 {
		c.Violation("cli-exit", "", fmt.Sprintf("parse error but exit status %d", code), "1", fmt.Sprint(code), cs)
	}
}

func firstLineOf(s string) string {
	for _, l := range strings.Split(s, "\n") {
		if strings.HasPrefix(l, "panic:") || strings.HasPrefix(l, "fatal error:") {
			return l
		}
	}
	if i := strings.IndexByte(s, '\n'); i >= 0 {
		return s[:i]
	}
	return s
}

// ---- generators --------------------------------------------------------------------------

var c03Vocab = []string{
	"+", "+=", "&&", ">>", "=", "@", ":", ",", "--", "/", "/=", "$", "==", ">=", ">", "++", "{", "[", "<", "(", "<=", "~", "%", "%=",
	"*", "*=", "!~", "!", "!=", "||", "|", "^", "^=", "**", "**=", "?", "}", "]", ")", ";", "-", "-=", "\n",
	"BEGIN", "break", "continue", "delete", "do", "else", "END", "exit", "for", "function", "getline", "if", "in", "next", "nextfile",
	"print", "printf", "return", "while", "atan2", "close", "cos", "exp", "fflush", "gsub", "index", "int", "length", "log", "match",
	"rand", "sin", "split", "sprintf", "sqrt", "srand", "sub", "substr", "system", "tolower", "toupper",
	"x", "y1", "_z", "arr", "NF", "NR", "FS", "foo", "e", "E", "e5",
	"0", "1", "42", "1.5", ".5", "1.", "1e5", "1e+5", "1E-5", "1e", "1e+", "1E-", "1.e", "1.e+", ".5e", "1..2", "0x1F", "1e5e5",
	`"s"`, `"a\"b"`, `"a\nb"`, `'q'`, `"\x41\101é"`, `""`, `"é日本"`,
	"/re/", "/a\\/b/", "/[/]/", "/=x/",
	"#c", "# comment ; { (", "&", "\\", ".", "`", "\x80", "\xff\xfe", "é",
}

var c03Seps = []string{"", "", " ", " ", "  ", "\t", "\r", " \r", "\n", "\r\n", "\\\n", "\\\r\n", " \\\n ", " # c\n", "#c\r\n", " \t "}

func genTokenSoup(rng *rand.Rand) []byte {
	var b bytes.Buffer
	n := 1 + rng.Intn(24)
	for i := 0; i < n; i++ {
		b.WriteString(c03Seps[rng.Intn(len(c03Seps))])
		b.WriteString(c03Vocab[rng.Intn(len(c03Vocab))])
	}
	b.WriteString(c03Seps[rng.Intn(len(c03Seps))])
	return b.Bytes()
}

var c03NumForms = []string{"1e", "1e+", "1E-", "1.e", "1.e+", ".5e", ".5E-", "12e", "1e+x", "1e5", "1.", ".", "1..2", "1e+5e", "0e", "9E+"}
var c03Terms = []string{"", " ", "\n", "\r\n", "\r", ";", "}", "\t", "\\\n", "#c\n", "x", "+", "-1", "\n\n", " \n }\n}"}

func genNumberForm(i int, rng *rand.Rand) []byte {
	f := c03NumForms[i%len(c03NumForms)]
	t := c03Terms[(i/len(c03NumForms))%len(c03Terms)]
	ctx := (i / (len(c03NumForms) * len(c03Terms))) % 5
	switch ctx {
	case 0:
		return []byte("BEGIN { x = " + f + t + " }\nEND { y }\n")
	case 1:
		return []byte("BEGIN {\n  print " + f + t + "\n  print 2 +\n}\n")
	case 2:
		return []byte(f + t)
	case 3:
		return []byte("{ a[" + f + t + "] = 1; $" + f + t + " }\n( \n")
	default:
		return []byte("BEGIN { x = 1\n y = " + f + t + "\n z = = }\n")
	}
}

// genSemantic builds programs that are syntactically fine but rejected by the resolver
// (scalar/array conflicts through every syntactic form that names an array or a scalar,
// special variables and function names misused, undefined functions, too many arguments), so
// that error positions produced after parsing proper are exercised too.
var c03ArrayUses = []string{
	"N[1] = 1", "x = N[i]", "if (1 in N) x = 1", "if ((1, 2) in N) x = 1", "for (k in N) x = k", "delete N", "delete N[1]",
	"split(\"a b\", N)", "fa(N)", "getline N[1]", "N[1]++", "++N[1]", "sub(/a/, \"b\", N[1])", "x = (i, j) in N", "x = length(N) + N[1]",
}
var c03ScalarUses = []string{
	"N = 1", "x = N + 1", "N++", "print N", "getline N", "fs(N)", "for (N in arr) x = 1", "x = $N", "x = N ~ /a/", "N += 2", "x = -N", "printf \"%s\", N",
}

func genSemantic(i int, rng *rand.Rand) []byte {
	a := c03ArrayUses[i%len(c03ArrayUses)]
	sc := c03ScalarUses[(i/len(c03ArrayUses))%len(c03ScalarUses)]
	variant := (i / (len(c03ArrayUses) * len(c03ScalarUses))) % 8
	name := "v"
	pre := "function fa(a) { a[1] = 1 }\nfunction fs(s) { s = 1 }\n"
	first, second := a, sc
	if variant&1 == 1 {
		first, second = sc, a
	}
	switch variant >> 1 {
	case 1:
		name = "NR" // special variable used as an array
	case 2:
		name = "fa" // function name used as a variable
	case 3:
		name = "p" // parameter: conflict inside a function body
	}
	first = strings.ReplaceAll(first, "N", name)
	second = strings.ReplaceAll(second, "N", name)
	seps := []string{"; ", "\n  ", "\r\n\t", " ;\n\n    ", "\n# c\n  "}
	sep := seps[rng.Intn(len(seps))]
	pad := strings.Repeat(" ", rng.Intn(4))
	if variant>>1 == 3 {
		return []byte(pre + "function g(p) {" + pad + first + sep + second + " }\nBEGIN { g(1) }\n")
	}
	extra := []string{"", "BEGIN { undefined_fn(1) }\n", "BEGIN { fs(1, 2) }\n", "function fa(z) { }\n", "function h(q, q) { }\n", "BEGIN { x = 1; x() }\n"}[rng.Intn(6)]
	if rng.Intn(3) > 0 {
		extra = ""
	}
	return []byte(pre + "BEGIN {" + pad + first + sep + second + " }\n" + extra)
}

// c03NamesAndLists: (a) names with a fixed role (special variables, the predefined arrays,
// keywords, functions) used in every other role; (b) parenthesised comma lists in every place
// an expression can stand, with and without anything after them. Both are reported by passes
// that run after parsing proper (resolver, stray-list check): their positions come from side
// tables, not from the token stream.
func c03NamesAndLists() []string {
	var out []string
	names := []string{"ARGV", "ENVIRON", "FIELDS", "NR", "NF", "FS", "RSTART", "SUBSEP", "length", "getline", "f", "in", "BEGIN", "substr", "x"}
	roles := []string{
		"function N() { return 1 }\n", "function N() { return 1 }\nBEGIN { print N() }\n", "function g(N) { return N }\nBEGIN { g(1) }\n", "function g(a, N) { N[1] = 1 }\n",
		"function g() { }\nBEGIN { N() }\n", "BEGIN { N = 1 }\n", "BEGIN { N[1] = 1 }\n", "BEGIN { N(1) }\n", "function g(a) { a[1] }\nBEGIN { g(N) }\n", "function g(a) { a = 1 }\nBEGIN { g(N) }\n",
		"function N(N) { }\n", "function N() { }\nfunction N() { }\n", "BEGIN { N = 1 }\n\nfunction N() { }\n", "\n\n  function g(q,\n\t N, N) { }\n", "BEGIN { delete N }\n", "BEGIN { for (N in N) ; }\n",
		"BEGIN { for (k in N) N[k] = N }\n", "BEGIN { getline N < \"f\" }\n", "BEGIN { split(\"a\", N); N = 1 }\n", "BEGIN { x = N[1]; y = N + 1 }\n", "{ N++ }\nEND { N[1]++ }\n", "BEGIN { print length(N), N }\nEND { N[1] }\n",
	}
	for _, n := range names {
		for _, r := range roles {
			out = append(out, strings.ReplaceAll(r, "N", n))
		}
	}
	lists := []string{"(1,2)", "!(3,4)", "(1,2), (3,4)", "$1 ~ (1,2)", "(1,2) in a", "((1,2))", "-(1,2)", "(1,2) (3,4)", "(1,\n2)", "x = (1,2)", "(a,b) ? 1 : 2", "1 ? (a,b) : 2", "(1,2) > 1", "f((1,2))"}
	prefixes := []string{"", "BEGIN { print (1,2) }\n", "BEGIN { x = (1,2) in a }\n", "function f(p) { return p }\n", "\n\n   "}
	suffixes := []string{"", "\n", " { print }\n", "\nEND { x = 1 }\n", " { }", "\n\n# c\n"}
	for _, l := range lists {
		for _, pre := range prefixes {
			for _, suf := range suffixes {
				out = append(out, pre+l+suf)
			}
		}
	}
	// a name that is a scalar or a function used as the array of a parenthesised "in"
	for _, n := range []string{"x", "NR", "f", "ARGV"} {
		out = append(out, "BEGIN { "+n+" = 1\n  if ((1, 2) in "+n+") z }\n", "function "+n+"() { }\n\nBEGIN { if ((1,\n2) in "+n+") z }\n", "function g(p) { p = 1; return (1, 2) in p }\nBEGIN { g("+n+") }\n",
			"BEGIN { if ((1, 2) in "+n+") z; "+n+" = 1 }\n")
	}
	// regex literals holding bytes that are not UTF-8, with and without metacharacters
	for _, b := range []string{"\x80", "\xe9", "\xff", "\xc3", "\xf0\x9f", "caf\xe9", "\xc3\xa9"} {
		for _, t := range []string{"/X/", "/aXb/ { print }", "$1 ~ /X+/", "BEGIN { if (x ~ /X/) y }", "/[X]/", "/X|b/", "BEGIN { n = gsub(/X/, \"-\") }", "BEGIN { split(s, a, /X/) }", "!/X/", "/X/, /b/"} {
			out = append(out, strings.ReplaceAll(t, "X", b)+"\n")
		}
	}
	stmts := []string{"(1,2)", "x = (1,2)", "f((1,2))", "print (1,2)(3)", "print (1,2) > \"f\"", "print (1,2), 3", "printf (\"%s\", 1)", "getline (1,2)", "((1,2))", "for ((1,2);;) ;", "for (;(1,2);) ;", "(1,2) in a",
		"return (1,2)", "x[(1,2)] = 1", "$(1,2) = 1", "if ((1,2)) x", "while ((1,2)) x", "do x; while ((1,2))", "delete a[(1,2)]", "exit (1,2)", "x = 1 + (1,2)", "x = (1,2) in a in b", "print > (1,2)", "(1,2) | getline",
		"\"c\" | getline (1,2)", "x = y ? (1,2) : 3", "f(1, (2,3), 4)", "x = !(1,2)", "x = -(1,\n\n2)", "print (1,2) (3,4)", "print ((1,2), 3)"}
	for _, st := range stmts {
		out = append(out, "function f(p) { return p }\nBEGIN { "+st+" }\n", "function f(p) {\n\t"+st+"\n}\n", "{ "+st+" }", "BEGIN {\n\n    "+st+"\n}\nEND { "+st+" }\n")
	}
	return out
}

func genMutateCorpus(rng *rand.Rand, progs []string) ([]byte, string) {
	p := []byte(progs[rng.Intn(len(progs))])
	if len(p) > 4096 {
		s := rng.Intn(len(p) - 4096)
		p = p[s : s+4096]
	}
	if len(p) == 0 {
		return p, "corpus-empty"
	}
	switch rng.Intn(7) {
	case 0: // prefix
		return append([]byte{}, p[:rng.Intn(len(p)+1)]...), "corpus-prefix"
	case 1: // single byte deletion
		i := rng.Intn(len(p))
		return append(append([]byte{}, p[:i]...), p[i+1:]...), "corpus-delete"
	case 2: // byte replace
		q := append([]byte{}, p...)
		q[rng.Intn(len(q))] = byte(rng.Intn(256))
		return q, "corpus-replace"
	case 3: // insert hostile fragment
		frags := []string{"\r", "\n", "\\\n", "1e\n", "1e+\r\n", "\"", "/", "(", "{", "\x00", "\xff", "é", "\t", "#", "}", "in", "getline", "1.e\r"}
		i := rng.Intn(len(p) + 1)
		f := frags[rng.Intn(len(frags))]
		return append(append(append([]byte{}, p[:i]...), f...), p[i:]...), "corpus-insert"
	case 4: // LF -> CRLF
		return bytes.ReplaceAll(p, []byte("\n"), []byte("\r\n")), "corpus-crlf"
	case 5: // splice two programs
		q := []byte(progs[rng.Intn(len(progs))])
		i, j := rng.Intn(len(p)+1), 0
		if len(q) > 0 {
			j = rng.Intn(len(q))
		}
		return append(append([]byte{}, p[:i]...), q[j:]...), "corpus-splice"
	default: // suffix
		return append([]byte{}, p[rng.Intn(len(p)):]...), "corpus-suffix"
	}
}

func genRandomBytes(rng *rand.Rand) []byte {
	n := rng.Intn(64)
	b := make([]byte, n)
	alphabet := []byte(" \t\r\n\\#\"'/(){}[]$+-*%^!~<>=|&?:;,.@_aeE0159xX\x00\x80\xc3\xa9\xff")
	for i := range b {
		if rng.Intn(4) == 0 {
			b[i] = byte(rng.Intn(256))
		} else {
			b[i] = alphabet[rng.Intn(len(alphabet))]
		}
	}
	return b
}

func genUnterminated(rng *rand.Rand) []byte {
	heads := []string{"BEGIN { x = ", "{ print ", "BEGIN {\n  s = ", "/", "$1 ~ ", "BEGIN { gsub(", "function f(a) { return "}
	bodies := []string{`"abc`, `"ab\`, `"a\"`, `'x`, `/re`, `/a\/`, `/[`, `"a` + "\n" + `b"`, `/a` + "\n/", `"x\u`, `"x\x`, `"\400"`, `"\ud800"`, `"é`, `"a` + "\r"}
	tails := []string{"", "\n", "\r\n", " }", "\n}\n"}
	return []byte(heads[rng.Intn(len(heads))] + bodies[rng.Intn(len(bodies))] + tails[rng.Intn(len(tails))])
}

func genDeep(i int) []byte {
	units := []string{"(", "{", "[", "!", "-", "$", "x[", "f(", "- -", "++", "1?", "a=", "if(1)", "{{", "\n"}
	u := units[i%len(units)]
	n := []int{50, 1000, 10000, 32768 / len(u)}[(i/len(units))%4]
	if n*len(u) > 32768 {
		n = 32768 / len(u)
	}
	var b bytes.Buffer
	switch i % 3 {
	case 0:
		b.WriteString("BEGIN { x = ")
	case 1:
		b.WriteString("BEGIN ")
	}
	b.WriteString(strings.Repeat(u, n))
	if i%2 == 0 {
		b.WriteString("1")
	}
	if b.Len() > 32768 {
		b.Truncate(32768)
	}
	return b.Bytes()
}

func init() {
	n := func(t core.Tier, q, th int) int {
		if t == core.Thorough {
			return th
		}
		return q
	}
	core.Register(&core.Property{
		ID:    "C03",
		Level: "exploration",
		Rule: "sources from six generators (token soups with every separator kind, prefixes/deletions/replacements/insertions/CRLF/splices of corpus programs, " +
			"number forms x terminators x contexts, unterminated strings/regexes, random bytes, deep nests up to 32 KiB); each is scanned by the lexer (positions " +
			"checked against an independent offset map), parsed (error position validity, AST name positions) and a sample is run through the CLI; " +
			"non-trivial = distinct source whose scan produced >=2 tokens or whose parse produced an error",
		Assumptions: []string{
			"the independent offset<->(line,col) map is the specification of a position: line = 1 + newlines before, column = 1 + non-CR bytes since line start",
			"a NUL byte ends the program text (as built); EOF-line error position naming in the CLI is a don't-care",
		},
		NBatches: func(t core.Tier) int { return n(t, 16, 64) },
		Floors: func(t core.Tier) map[string]int {
			return map[string]int{"evaluations": n(t, 20000, 500000), "distinct_nontrivial": n(t, 10000, 200000), "token_sep_pairs": 150, "cli_runs": n(t, 200, 5000), "error_messages": 25}
		},
		Run: func(c *core.Ctx) {
			rng := c.Rand("gen")
			lexRng := c.Rand("lex")
			progs := corpus.All()
			total := n(c.Tier, 60000, 3000000) / c.NBatches
			cliEvery := n(c.Tier, 100, 150)
			one := func(gen string, src []byte, i int) {
				if len(src) > 32768 {
					src = src[:32768]
				}
				cs := c03Case{Gen: gen, Src: src}
				c.Begin(cs)
				c.Eval(1)
				c.Count("gen_"+gen, 1)
				rep := checkLexer(src, lexRng, func(k string) { c.Cover("token_sep_pairs", k) })
				c.Count("tokens_checked", rep.tokens)
				if rep.fault != "" {
					c.Violation("token-position", "", rep.fault, "", "", cs)
				}
				res := c03ParseCheck(c, cs, rng)
				if res.parsedOK {
					c.Count("parsed_ok", 1)
				} else {
					c.Count("parse_errors", 1)
				}
				if rep.tokens >= 2 || !res.parsedOK {
					c.NonTrivial(string(src))
				}
				if i%cliEvery == 0 {
					c03CLICheck(c, cs, res)
				}
				if i%5000 == 0 && c.WantSample() {
					c.Sample(map[string]any{"gen": gen, "src": string(src), "tokens": rep.tokens, "parsed_ok": res.parsedOK,
						"error": fmt.Sprintf("%d:%d %s", res.errLine, res.errCol, res.errMsg)})
				}
			}
			// systematic families first (partitioned over batches)
			nf := len(c03NumForms) * len(c03Terms) * 5
			for i := 0; i < nf; i++ {
				if c.Mine(i) {
					one("numform", genNumberForm(i, rng), i)
				}
			}
			for i := 0; i < 60; i++ {
				if c.Mine(i) {
					one("deep", genDeep(i), i*cliEvery) // every deep case also through the CLI
				}
			}
			ns := len(c03ArrayUses) * len(c03ScalarUses) * 8
			for i := 0; i < ns; i++ {
				if c.Mine(i) {
					one("semantic", genSemantic(i, rng), i*(cliEvery/4)) // every 4th also through the CLI
				}
			}
			for i, src := range c03NamesAndLists() {
				if c.Mine(i) {
					one("names-lists", []byte(src), i*(cliEvery/2)) // every 2nd also through the CLI
				}
			}
			for i, src := range c03BOMSources(progs) {
				if c.Mine(i) {
					one("bom", []byte(src), i*(cliEvery/4))
				}
			}
			for i, src := range c03LateTyping() {
				if c.Mine(i) {
					one("late-typing", []byte(src), i*(cliEvery/10))
				}
			}
			for i := 0; i < total; i++ {
				switch r := rng.Intn(100); {
				case r < 40:
					one("soup", genTokenSoup(rng), i)
				case r < 80:
					src, g := genMutateCorpus(rng, progs)
					one(g, src, i)
				case r < 88:
					one("unterminated", genUnterminated(rng), i)
				default:
					one("bytes", genRandomBytes(rng), i)
				}
			}
		},
		Replay: func(c *core.Ctx, raw json.RawMessage) {
			var cs c03Case
			if json.Unmarshal(raw, &cs) != nil {
				return
			}
			rep := checkLexer(cs.Src, c.Rand("lex"), func(string) {})
			if rep.fault != "" {
				c.Violation("token-position", "", rep.fault, "", "", cs)
			}
			// try both regex-driving choices
			for s := 0; s < 8 && rep.fault == ""; s++ {
				rep = checkLexer(cs.Src, rand.New(rand.NewSource(int64(s))), func(string) {})
				if rep.fault != "" {
					c.Violation("token-position", "", rep.fault, "", "", cs)
				}
			}
			res := c03ParseCheck(c, cs, c.Rand("gen"))
			c03CLICheck(c, cs, res)
			fmt.Printf("source: %q\nparsed_ok=%v error=%d:%d %s\n", core.Clip(string(cs.Src), 400), res.parsedOK, res.errLine, res.errCol, res.errMsg)
		},
	})
}

// c03BOMSources: program text that begins with (or contains) a UTF-8 byte order mark, as saved by
// some editors. Whatever the lexer makes of those three bytes, every later token and every error
// position must still be the true byte position in the text that was given.
func c03BOMSources(progs []string) []string {
	bom := "\xef\xbb\xbf"
	tails := []string{
		"BEGIN { foo = bar*; }\n", "BEGIN { print 1 }\n", "{ print $1 }\n", "BEGIN { x = 1\n  y = \n}\n", "function f(a) { a[1] }\nBEGIN { f(1) }\n",
		"# comment\nBEGIN { print \"a\" }\n", "\nBEGIN { print }\n", "  BEGIN{x=\"unterminated\n}", "/re/ { n++ } END { print n }\n", "BEGIN { $ }", "",
	}
	for i, p := range progs {
		if i%7 == 0 && len(p) < 600 {
			tails = append(tails, p)
		}
	}
	var out []string
	for _, t := range tails {
		out = append(out, bom+t, bom+bom+t, "\xef\xbb"+t, "\xef"+t, "\xbb\xbf"+t, " "+bom+t, "\n"+bom+t, bom+"\r\n"+t, "\xfe\xff"+t, "\xff\xfe"+t)
		if len(t) > 8 {
			out = append(out, t[:8]+bom+t[8:])
		}
	}
	return out
}

// c03LateTyping: programs whose scalar/array conflict becomes visible only after several
// propagation rounds of the resolver (a parameter nothing in the body types, called with a
// constant in one place and with a variable that is used as an array elsewhere), in every
// order of the statements involved. The outcome must be an error with a position (or an
// accepted program), never a panic from a later stage that trusted the typing.
func c03LateTyping() []string {
	bodies := []string{"", "return 1", "g(a)", "if (0) a = a", "return length(a)"}
	arrUses := []string{"arr[1] = 2", "split(\"x y\", arr)", "delete arr", "for (k in arr) n++", "x = (1 in arr)", "h(arr)"}
	consts := []string{"f(1)", "f(\"s\")", "f(x + 1)", "f($1)", "f(NR)", "f(f(2))"}
	perms := [][3]int{{0, 1, 2}, {0, 2, 1}, {1, 0, 2}, {1, 2, 0}, {2, 0, 1}, {2, 1, 0}}
	var out []string
	for bi, b := range bodies {
		for ai, au := range arrUses {
			for ci, cu := range consts {
				if (bi+ai+ci)%2 == 1 {
					continue
				}
				for _, pm := range perms {
					st := [3]string{cu, "f(arr)", au}
					src := "function f(a) { " + b + " }\nfunction g(b) { }\nfunction h(c) { c[1] = 1 }\nBEGIN { " + st[pm[0]] + "; " + st[pm[1]] + "; " + st[pm[2]] + " }\n"
					out = append(out, src)
				}
			}
		}
	}
	// the same through a chain of forwarding functions and through two parameters
	out = append(out,
		"function f(a) { }\nfunction k(p) { f(p) }\nBEGIN { k(1); k(arr); arr[1] = 2 }\n",
		"function f(a, b) { }\nBEGIN { f(1, q); f(q, 1); q[1] = 1 }\n",
		"function f(a, b) { }\nBEGIN { f(u, v); f(v, u); f(1, 2); u[1]; }\n",
		"function f(a) { }\nBEGIN { f(1) }\nEND { f(arr); arr[1] = 2 }\n",
		"function f(a) { }\n{ f($0); f(arr) }\nEND { delete arr }\n",
	)
	return out
}
