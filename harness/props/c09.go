package props

// C09 — printf and sprintf format like C printf; print uses OFMT.
//
// Monitor: probe programs run on the real interpreter (sprintf, printf to stdout, printf to
// a file; byte and character mode); every conversion's output is compared with what libc's
// snprintf (.build/printf_oracle) produces for the argument converted the AWK way by the
// harness (c09printf.Model).  Error-expected families (too few arguments, unknown
// conversion, '%' at the end) must end in an error value, never a panic or output.
// print is checked against "integral -> integer, else OFMT" with libc formatting OFMT.

import (
	"bytes"
	"encoding/json"
	"fmt"
	"math"
	"math/rand"
	"os"
	"path/filepath"
	"sort"
	"strconv"
	"strings"

	"github.com/benhoyt/goawk/interp"

	cp "verifharness/c09printf"
	"verifharness/core"
	"verifharness/run"
)

// c09Sep ends every probe's output (ORS); the pools never produce these bytes.
const c09Sep = "\x01\x02\n"

// c09OFS separates print arguments.
const c09OFS = "\x03"

// c09Prog is one probe program: a list of printf/sprintf calls run on one interpreter.
type c09Prog struct {
	Mode  string    `json:"mode"` // "sprintf" | "printf" | "printf-file"
	Chars bool      `json:"chars,omitempty"`
	Items []cp.Item `json:"items"`
	// CONVFMT/OFMT set in BEGIN (nil = left at "%.6g"): %s of a number must use CONVFMT,
	// never OFMT.
	ConvFmt *cp.Spec `json:"convfmt,omitempty"`
	OFMT    *cp.Spec `json:"ofmt,omitempty"`
}

// c09Print is one print/OFMT probe program.
type c09Print struct {
	OFMT    *cp.Spec   `json:"ofmt,omitempty"` // nil = default "%.6g" left untouched
	CONVFMT string     `json:"convfmt,omitempty"`
	Groups  [][]cp.Arg `json:"groups"` // one print statement per group
	ToFile  bool       `json:"tofile,omitempty"`
	// Extension (see c09ext.go): any of these set makes it an "extended" print probe.
	OutMode string  `json:"outmode,omitempty"` // "" | "csv" | "tsv" | "csv;" (CSV with separator ';')
	ViaVar  bool    `json:"viavar,omitempty"`  // OUTPUTMODE assigned in BEGIN instead of Config.OutputMode
	Dest    string  `json:"dest,omitempty"`    // "" stdout | "file" | "devstdout" | "pipe"
	ORS     *string `json:"ors,omitempty"`     // user-set ORS / OFS (default output mode only)
	OFS     *string `json:"ofs,omitempty"`
}

// c09Case is the replayable case: exactly one of the two is set.
type c09Case struct {
	Gen   string    `json:"gen"`
	Prog  *c09Prog  `json:"prog,omitempty"`
	Print *c09Print `json:"print,omitempty"`
}

// ---- building and running probe programs ---------------------------------------------------

func c09CallArgs(it cp.Item, fields *[]string) string {
	var sb strings.Builder
	sb.WriteString(cp.AwkString([]byte(it.Format())))
	for _, a := range it.Args() {
		sb.WriteString(", ")
		sb.WriteString(a.Awk(fields))
	}
	return sb.String()
}

func (p *c09Prog) source(file string) (src, stdin string) {
	var sb strings.Builder
	var fields []string
	sb.WriteString("BEGIN { FS = \"|\"; ORS = " + cp.AwkString([]byte(c09Sep)))
	if p.ConvFmt != nil {
		sb.WriteString("; CONVFMT = " + cp.AwkString([]byte(p.ConvFmt.Awk())))
	}
	if p.OFMT != nil {
		sb.WriteString("; OFMT = " + cp.AwkString([]byte(p.OFMT.Awk())))
	}
	sb.WriteString(" }\n{\n")
	for i, it := range p.Items {
		args := c09CallArgs(it, &fields)
		switch p.Mode {
		case "sprintf":
			sb.WriteString("  print sprintf(" + args + ")\n")
		case "printf":
			if i%2 == 0 {
				sb.WriteString("  printf " + args + "; print \"\"\n")
			} else {
				sb.WriteString("  printf(" + args + "); print \"\"\n")
			}
		default:
			f := cp.AwkString([]byte(file))
			sb.WriteString("  printf " + args + " > " + f + "; print \"\" > " + f + "\n")
		}
	}
	sb.WriteString("}\n")
	return sb.String(), strings.Join(fields, "|") + "\n"
}

type c09Run struct {
	out     []byte
	err     string
	panicky string
	steplim bool
	src     string
}

func c09Exec(c *core.Ctx, src, stdin string, chars bool, file string) c09Run {
	return c09ExecCfg(c, src, stdin, file, &interp.Config{Chars: chars})
}

// c09ExecCfg runs src with the given configuration (Stdin is filled in here).
func c09ExecCfg(c *core.Ctx, src, stdin string, file string, cfg *interp.Config) c09Run {
	r := c09Run{src: src}
	prog, err, pm := run.Parse(src, nil)
	if pm != "" {
		r.panicky = "parse: " + pm
		return r
	}
	if err != nil {
		r.err = "parse error: " + err.Error()
		return r
	}
	if file != "" {
		_ = os.Remove(file)
	}
	cfg.Stdin = strings.NewReader(stdin)
	o := run.Exec(prog, cfg, run.Opts{})
	r.out = []byte(o.Stdout)
	r.err, r.panicky, r.steplim = o.Err, o.Panic, o.StepLimit
	if file != "" {
		b, _ := os.ReadFile(file)
		r.out = b
	}
	return r
}

func (p *c09Prog) exec(c *core.Ctx) c09Run {
	file := ""
	if p.Mode == "printf-file" {
		file = filepath.Join(c.WorkDir(), "out.txt")
	}
	src, stdin := p.source(file)
	return c09Exec(c, src, stdin, p.Chars, file)
}

// c09Split cuts the output into per-item records; ok=false if it does not end with the
// separator.
func c09Split(out []byte) (recs [][]byte, ok bool) {
	parts := bytes.Split(out, []byte(c09Sep))
	if len(parts[len(parts)-1]) != 0 {
		return parts, false
	}
	return parts[:len(parts)-1], true
}

// ---- the comparator ------------------------------------------------------------------------

type c09Checker struct {
	c       *core.Ctx
	m       *cp.Model
	gen     string
	emitted map[string]int // kind|class -> witnesses emitted by this batch
}

// c09EmitCap bounds the witnesses of one (kind, class) a batch hands to the parent (all are
// counted in div_<class>); it keeps the known classes from crowding out a new one.
const c09EmitCap = 3

func (k *c09Checker) violation(kind, class, summary, expected, observed string, cs c09Case) {
	k.c.Count("div_"+kind+"/"+class, 1)
	k.c.Cover("divergence_classes", kind+"/"+class)
	key := kind + "|" + class
	limit := c09EmitCap
	if class == "" {
		limit = 12
	}
	if !k.c.Replay && k.emitted[key] >= limit {
		return
	}
	k.emitted[key]++
	k.c.Violation(kind, class, summary, expected, observed, cs)
}

func c09Alts(w cp.Want) string {
	var l []string
	for _, a := range w.Alts {
		l = append(l, core.Q(string(a)))
	}
	s := strings.Join(l, " or ")
	for _, r := range w.Reqs {
		s += "  <- " + r.String()
	}
	return s
}

func (k *c09Checker) single(p *c09Prog, it cp.Item) *c09Prog {
	return &c09Prog{Mode: p.Mode, Chars: p.Chars, Items: []cp.Item{it}, ConvFmt: p.ConvFmt, OFMT: p.OFMT}
}

// observeOne runs a one-item program and returns its single output record.
func (k *c09Checker) observeOne(p *c09Prog) (rec []byte, r c09Run, ok bool) {
	r = p.exec(k.c)
	if r.panicky != "" || r.err != "" {
		return nil, r, false
	}
	recs, fine := c09Split(r.out)
	if !fine || len(recs) != 1 {
		return nil, r, false
	}
	return recs[0], r, true
}

// mismatch handles one call of a program whose output differs from every acceptable one.
// It narrows the witness to a single conversion where that reproduces, and classifies it.
func (k *c09Checker) mismatch(p *c09Prog, idx int, observed []byte, want cp.Want) {
	it := p.Items[idx]
	sp := k.single(p, it)
	if len(it.Pieces) == 1 && it.Pieces[0].Spec != nil && !k.c.Replay {
		// fast path: a bare conversion of a class this batch has already handed enough
		// confirmed witnesses of is only counted (no confirmation re-run)
		pc := it.Pieces[0]
		if class := cp.Classify(k.m, *pc.Spec, pc.Stars, *pc.Arg, p.Chars, want, observed); class != "" && k.emitted["printf-vs-libc|"+class] >= c09EmitCap {
			k.violation("printf-vs-libc", class, "", "", "", c09Case{})
			return
		}
	}
	if len(p.Items) > 1 {
		alone, r, ok := k.observeOne(sp)
		if !ok || !bytes.Equal(alone, observed) {
			k.violation("batch-vs-single", "", fmt.Sprintf("call %d (%s) gives %s inside a %d-call program but %s (err=%q) when it is the only call",
				idx, it.Key(), core.Q(string(observed)), len(p.Items), core.Q(string(alone)), r.err),
				c09Alts(want), core.Q(string(observed)), c09Case{Gen: k.gen, Prog: p})
			return
		}
	}
	if it.NConv() == 1 {
		for _, pc := range it.Pieces {
			if pc.Spec != nil {
				// strip literal text so that the witness is the conversion alone
				bare := cp.Item{Pieces: []cp.Piece{pc}}
				bp := k.single(p, bare)
				w, _, err := k.m.Item(bare, p.Chars)
				obs, _, ok := k.observeOne(bp)
				if err == nil && ok && !w.Matches(obs) {
					k.report(bp, pc, obs, w)
					return
				}
			}
		}
		k.violation("printf-vs-libc", "", fmt.Sprintf("%s(%s) = %s, libc gives %s; the conversion alone agrees with libc", p.Mode, it.Key(), core.Q(string(observed)), c09Alts(want)),
			c09Alts(want), core.Q(string(observed)), c09Case{Gen: k.gen, Prog: sp})
		return
	}
	// several conversions: run each alone; the call must be the concatenation of its parts
	var recomposed []byte
	type bad struct {
		bp  *c09Prog
		pc  cp.Piece
		obs []byte
		w   cp.Want
	}
	var bads []bad
	okAll := true
	for _, pc := range it.Pieces {
		switch {
		case pc.Spec != nil:
			bare := cp.Item{Pieces: []cp.Piece{pc}}
			bp := k.single(p, bare)
			w, _, err := k.m.Item(bare, p.Chars)
			obs, _, ok := k.observeOne(bp)
			if err != nil || !ok {
				okAll = false
				break
			}
			recomposed = append(recomposed, obs...)
			if !w.Matches(obs) {
				bads = append(bads, bad{bp, pc, obs, w})
			}
		case pc.Pct:
			recomposed = append(recomposed, '%')
		default:
			recomposed = append(recomposed, pc.Lit...)
		}
	}
	if !okAll || !bytes.Equal(recomposed, observed) || len(bads) == 0 {
		k.violation("printf-vs-libc", "", fmt.Sprintf("%s(%s) = %s, libc gives %s, and the call is not the concatenation of its conversions run alone (%s)",
			p.Mode, it.Key(), core.Q(string(observed)), c09Alts(want), core.Q(string(recomposed))),
			c09Alts(want), core.Q(string(observed)), c09Case{Gen: k.gen, Prog: sp})
		return
	}
	for _, b := range bads {
		k.report(b.bp, b.pc, b.obs, b.w)
	}
}

// report emits the violation for a single conversion, with its divergence class.
func (k *c09Checker) report(bp *c09Prog, pc cp.Piece, obs []byte, w cp.Want) {
	class := cp.Classify(k.m, *pc.Spec, pc.Stars, *pc.Arg, bp.Chars, w, obs)
	it := bp.Items[0]
	if f := os.Getenv("VERIF_C09_DUMP"); f != "" {
		// development aid: one line per mismatching conversion
		if fh, err := os.OpenFile(f, os.O_APPEND|os.O_CREATE|os.O_WRONLY, 0o644); err == nil {
			fmt.Fprintf(fh, "%s\t%s\t%s\tchars=%v\t%s\tgoawk=%q\tlibc=%s\n", class, pc.Spec.Conv, pc.Spec.Awk(), bp.Chars, it.Key(), obs, c09Alts(w))
			fh.Close()
		}
	}
	k.violation("printf-vs-libc", class, fmt.Sprintf("%s(%s)%s = %s, libc gives %s", bp.Mode, it.Key(), c09CharsTag(bp.Chars), core.Q(string(obs)), c09Alts(w)),
		c09Alts(w), core.Q(string(obs)), c09Case{Gen: k.gen, Prog: bp})
}

func c09CharsTag(chars bool) string {
	if chars {
		return " [char mode]"
	}
	return ""
}

// checkProg runs one probe program and compares every call.
func (k *c09Checker) checkProg(p *c09Prog) {
	c := k.c
	cs := c09Case{Gen: k.gen, Prog: p}
	c.Begin(cs)
	c.Count("programs", 1)
	c.Cover("modes", fmt.Sprintf("%s chars=%v", p.Mode, p.Chars))
	k.m.ConvFmt = p.ConvFmt
	if p.ConvFmt != nil {
		c.Count("programs_with_CONVFMT_set", 1)
	}
	wants := make([]cp.Want, len(p.Items))
	pers := make([][]*cp.Want, len(p.Items))
	errIdx := -1
	formats := map[string]bool{}
	for i, it := range p.Items {
		formats[it.Format()] = true
		if it.WantErr != "" {
			if errIdx < 0 {
				errIdx = i
			}
			continue
		}
		w, per, err := k.m.Item(it, p.Chars)
		if err != nil {
			c.Inconclusive("oracle:" + err.Error())
			return
		}
		wants[i] = w
		pers[i] = per
		k.coverItem(p, it, per)
	}
	if len(formats) > 100 {
		c.Count("cache_overflow_programs", 1)
	}
	c.Max("max_formats_in_one_program", int64(len(formats)))
	r := p.exec(c)
	c.Eval(len(p.Items))
	if r.panicky != "" {
		k.violation("panic", "", "probe program panicked: "+run.PanicSite(r.panicky), "output or an error value", r.panicky, cs)
		return
	}
	if r.steplim {
		c.Inconclusive("step-limit in a straight-line probe program")
		return
	}
	recs, terminated := c09Split(r.out)
	if errIdx >= 0 {
		it := p.Items[errIdx]
		c.Count("error_expected_cases", 1)
		c.Cover("error_kinds", it.WantErr)
		for _, prev := range p.Items[:errIdx] {
			if prev.Format() == it.Format() {
				// the failing format was used before on this interpreter (format cache)
				if len(formats) > 100 {
					c.Count("error_after_same_format_used_cache_full", 1)
				} else {
					c.Count("error_after_same_format_used", 1)
				}
				break
			}
		}
		c.NonTrivial(p.Mode + "|err|" + it.Key())
		switch {
		case r.err == "":
			got := ""
			if errIdx < len(recs) {
				got = string(recs[errIdx])
			}
			k.violation("error-expected", "", fmt.Sprintf("%s(%s): %s must be a run-time error, but the program ended normally with output %s",
				p.Mode, it.Key(), it.WantErr, core.Q(got)), "an error value", core.Q(got), c09Case{Gen: k.gen, Prog: p})
			return
		case !terminated || len(recs) > errIdx:
			k.violation("error-expected", "", fmt.Sprintf("%s(%s): error %q reported, but output was produced for the failing call: %s",
				p.Mode, it.Key(), r.err, core.Q(string(r.out))), "no output from the failing call", core.Q(string(r.out)), c09Case{Gen: k.gen, Prog: p})
			return
		}
		// calls before the failing one are compared as usual (as far as their output got out)
	} else {
		if r.err != "" {
			if len(p.Items) == 1 {
				k.violation("unexpected-error", "", fmt.Sprintf("%s(%s) failed: %s", p.Mode, p.Items[0].Key(), r.err), c09Alts(wants[0]), "error: "+r.err, cs)
				return
			}
			// find the culprit by running the calls one by one
			found := false
			for _, it := range p.Items {
				sp := k.single(p, it)
				if _, r1, ok := k.observeOne(sp); !ok && r1.err != "" {
					k.violation("unexpected-error", "", fmt.Sprintf("%s(%s) failed: %s", p.Mode, it.Key(), r1.err), "output", "error: "+r1.err, c09Case{Gen: k.gen, Prog: sp})
					found = true
					break
				}
			}
			if !found {
				k.violation("batch-vs-single", "", fmt.Sprintf("program of %d calls failed (%s) but every call succeeds alone", len(p.Items), r.err), "", r.err, cs)
			}
			return
		}
		if !terminated || len(recs) != len(p.Items) {
			k.violation("output-shape", "", fmt.Sprintf("%d calls produced %d terminated records", len(p.Items), len(recs)), "", core.Q(string(r.out)), cs)
			return
		}
	}
	for i, it := range p.Items {
		if i >= len(recs) || (errIdx >= 0 && i >= errIdx) {
			break
		}
		w := wants[i]
		if w.DontCare != "" && it.Seg && it.NConv() > 1 {
			// a segmented call is compared conversion by conversion (c09ext.go)
			k.checkSegmented(p, i, recs[i], pers[i])
			continue
		}
		if w.DontCare != "" {
			c.Count("dontcare_calls", 1)
			c.Cover("dontcare_reasons", w.DontCare)
			continue
		}
		c.Count("compared_calls", 1)
		c.Count("compared_conversions", it.NConv())
		c.NonTrivial(fmt.Sprintf("%s|%v|%s", p.Mode, p.Chars, it.Key()))
		if it.NConv() > 1 {
			c.Count("multi_conversion_calls", 1)
			k.coverMulti(p, it, pers[i])
		}
		if w.Matches(recs[i]) {
			if c.WantSample() && i == len(p.Items)/2 && len(it.Key()) < 120 {
				c.Sample(map[string]any{"gen": k.gen, "mode": p.Mode, "chars": p.Chars, "call": it.Key(), "goawk": string(recs[i]), "libc": c09Alts(w)})
			}
			continue
		}
		k.mismatch(p, i, recs[i], w)
	}
}

// coverItem records the coverage keys of one call.
func (k *c09Checker) coverItem(p *c09Prog, it cp.Item, per []*cp.Want) {
	c := k.c
	for i, pc := range it.Pieces {
		if pc.Spec == nil {
			if pc.Pct {
				c.Count("percent_percent", 1)
			}
			continue
		}
		if per[i] != nil && per[i].DontCare != "" {
			continue
		}
		sp := pc.Spec
		c.Cover("conv_flagset", sp.Conv+"|"+sp.FlagSet())
		c.Cover("conv_width_prec", sp.Conv+"|"+c09WidthKind(sp.Width)+"|"+c09PrecKind(sp.Prec))
		c.Cover("conv_argclass", sp.Conv+"|"+c09ArgClass(*pc.Arg))
		for _, s := range pc.Stars {
			if s.Val().N < 0 {
				c.Count("negative_star_args", 1)
			}
		}
	}
}

func c09WidthKind(w string) string {
	switch {
	case w == "":
		return "none"
	case w == "*":
		return "*"
	case len(w) >= 7:
		return "huge"
	case len(w) == 1:
		return "1digit"
	default:
		return "multi"
	}
}

func c09PrecKind(p string) string {
	switch {
	case p == "":
		return "none"
	case p == ".*":
		return ".*"
	case p == ".":
		return "."
	case p == ".0":
		return ".0"
	case len(p) >= 8:
		return "huge"
	default:
		return ".n"
	}
}

// c09ArgClass buckets an argument for the coverage set.
func c09ArgClass(a cp.Arg) string {
	v := a.Val()
	switch a.K {
	case "num":
		x := v.N
		switch {
		case math.IsNaN(x):
			return "nan"
		case math.IsInf(x, 1):
			return "+inf"
		case math.IsInf(x, -1):
			return "-inf"
		case x == 0:
			if math.Signbit(x) {
				return "-0"
			}
			return "0"
		case x != math.Trunc(x):
			switch {
			case math.Abs(x) < 1e-300:
				return "subnormal"
			case math.Abs(x) < 1e-4:
				return "tiny-frac"
			case x < 0:
				return "neg-frac"
			}
			return "pos-frac"
		case math.Abs(x) >= 9223372036854775808.0:
			if x == -9223372036854775808.0 {
				return "int64-min"
			}
			return "beyond-int64"
		case math.Abs(x) >= 1<<53:
			return "int-2^53+"
		case math.Abs(x) >= 1<<31:
			return "int-2^31+"
		case x < 0:
			return "neg-int"
		}
		return "pos-int"
	case "fld":
		if v.IsStrNum {
			return "field-numeric"
		}
		return "field-string"
	}
	switch {
	case len(v.S) == 0:
		return "str-empty"
	case !strings.HasPrefix(strconv.Quote(string(v.S)), `"`) || !isValidUTF8(v.S):
		return "str-invalid-utf8"
	case !isASCIIBytes(v.S):
		return "str-multibyte"
	case v.N != 0:
		return "str-numeric-prefix"
	}
	return "str-ascii"
}

func isASCIIBytes(b []byte) bool {
	for _, x := range b {
		if x >= 0x80 {
			return false
		}
	}
	return true
}

func isValidUTF8(b []byte) bool { return strings.ToValidUTF8(string(b), "\x00") == string(b) }

// ---- print / OFMT --------------------------------------------------------------------------

func (p *c09Print) source(file string) (src, stdin string) {
	var sb strings.Builder
	var fields []string
	sb.WriteString("BEGIN { FS = \"|\"; ORS = " + cp.AwkString([]byte(c09Sep)) + "; OFS = " + cp.AwkString([]byte(c09OFS)))
	if p.OFMT != nil {
		sb.WriteString("; OFMT = " + cp.AwkString([]byte(p.OFMT.Awk())))
	}
	if p.CONVFMT != "" {
		sb.WriteString("; CONVFMT = " + cp.AwkString([]byte(p.CONVFMT)))
	}
	sb.WriteString(" }\n{\n")
	for _, g := range p.Groups {
		var l []string
		for _, a := range g {
			l = append(l, a.Awk(&fields))
		}
		sb.WriteString("  print " + strings.Join(l, ", "))
		if p.ToFile {
			sb.WriteString(" > " + cp.AwkString([]byte(file)))
		}
		sb.WriteString("\n")
	}
	sb.WriteString("}\n")
	return sb.String(), strings.Join(fields, "|") + "\n"
}

// printWant is what print must write for one argument: a string as it is, an integral
// number as an integer, any other number formatted by libc with OFMT.
func (k *c09Checker) printWant(p *c09Print, a cp.Arg) (cp.Want, error) {
	v := a.Val()
	if !v.IsNum {
		return cp.Want{Alts: [][]byte{v.S}}, nil
	}
	x := v.N
	switch {
	case math.IsNaN(x) || math.IsInf(x, 0):
		return cp.Want{DontCare: "print-of-nonfinite"}, nil
	case x == 0 && math.Signbit(x):
		return cp.Want{DontCare: "print-of-negative-zero"}, nil
	case x == math.Trunc(x):
		if math.Abs(x) >= 9223372036854775808.0 {
			// integral but beyond int64: the exact integer or the OFMT rendering are both
			// accepted (the text says "as integers"; goawk uses OFMT there) - nothing else is
			of := cp.Spec{Prec: ".6", Conv: "g"}
			if p.OFMT != nil {
				of = *p.OFMT
			}
			w, err := k.m.Conv(of, nil, a, false)
			if err != nil || w.DontCare != "" {
				return cp.Want{DontCare: "print-of-integral-beyond-int64"}, nil
			}
			w.Alts = append(w.Alts, []byte(strconv.FormatFloat(x, 'f', 0, 64)))
			k.c.Count("print_integral_beyond_int64_judged", 1)
			return w, nil
		}
		return k.m.Conv(cp.Spec{Conv: "d"}, nil, a, false)
	}
	of := cp.Spec{Prec: ".6", Conv: "g"}
	if p.OFMT != nil {
		of = *p.OFMT
	}
	return k.m.Conv(of, nil, a, false)
}

func (k *c09Checker) checkPrint(p *c09Print) {
	c := k.c
	cs := c09Case{Gen: k.gen, Print: p}
	c.Begin(cs)
	c.Count("print_programs", 1)
	file := ""
	if p.ToFile {
		file = filepath.Join(c.WorkDir(), "print.txt")
	}
	src, stdin := p.source(file)
	r := c09Exec(c, src, stdin, false, file)
	c.Eval(len(p.Groups))
	if r.panicky != "" {
		k.violation("panic", "", "print probe panicked: "+run.PanicSite(r.panicky), "", r.panicky, cs)
		return
	}
	if r.err != "" {
		k.violation("unexpected-error", "", "print probe failed: "+r.err, "", r.err, cs)
		return
	}
	recs, ok := c09Split(r.out)
	if !ok || len(recs) != len(p.Groups) {
		k.violation("output-shape", "", fmt.Sprintf("%d print statements produced %d terminated records", len(p.Groups), len(recs)), "", core.Q(string(r.out)), cs)
		return
	}
	ofmt := "%.6g"
	if p.OFMT != nil {
		ofmt = p.OFMT.Awk()
		c.Cover("ofmt_values", ofmt)
	}
	for gi, g := range p.Groups {
		parts := bytes.Split(recs[gi], []byte(c09OFS))
		if len(parts) != len(g) {
			k.violation("output-shape", "", fmt.Sprintf("print of %d arguments wrote %d OFS-separated parts: %s", len(g), len(parts), core.Q(string(recs[gi]))), "", "", cs)
			continue
		}
		for ai, a := range g {
			w, err := k.printWant(p, a)
			if err != nil {
				c.Inconclusive("oracle:" + err.Error())
				return
			}
			if w.DontCare != "" {
				c.Count("dontcare_calls", 1)
				c.Cover("dontcare_reasons", w.DontCare)
				continue
			}
			c.Count("print_values_compared", 1)
			c.Cover("print_argclass", c09ArgClass(a))
			c.NonTrivial("print|" + ofmt + "|" + a.String())
			if w.Matches(parts[ai]) {
				continue
			}
			// narrow to a one-argument program
			one := &c09Print{OFMT: p.OFMT, CONVFMT: p.CONVFMT, Groups: [][]cp.Arg{{a}}, ToFile: p.ToFile}
			class := ""
			if v := a.Val(); v.IsNum && v.N != math.Trunc(v.N) && p.OFMT != nil {
				class = cp.Classify(k.m, *p.OFMT, nil, a, false, w, parts[ai])
			}
			k.violation("print-ofmt", class, fmt.Sprintf("OFMT=%q: print %s wrote %s, expected %s", ofmt, a.String(), core.Q(string(parts[ai])), c09Alts(w)),
				c09Alts(w), core.Q(string(parts[ai])), c09Case{Gen: k.gen, Print: one})
		}
	}
}

// ---- pools ---------------------------------------------------------------------------------

const c09MaxBelow2_63 = 9223372036854774784.0 // largest float64 below 2^63

var c09Nums = []float64{
	0, math.Copysign(0, -1), 1, -1, 7, 65, 97, 123, -123, 255, 256, 1000, 100000, 999999, 1000000, 1234567,
	2147483647, 2147483648, -2147483648, 4294967296, 9007199254740992, -9007199254740992, 1e15, 1e16, 1e18,
	c09MaxBelow2_63, -c09MaxBelow2_63, -9223372036854775808.0, 9223372036854775808.0, 1e19, 1.8446744073709552e19,
	0.5, -0.5, 0.1, 2.5, 3.5, 0.125, 9.995, 99999.5, 999999.5, 0.0001, 0.00001234, 1e-5, 123456.789, 123456789.123, -3.999,
	1e100, -1e100, 1e308, 1e-320, 5e-324, math.NaN(), math.Inf(1), math.Inf(-1),
}

var c09Strs = []string{
	"", "abc", "12abc", "-3.7xyz", " 42 ", "1e3", ".5", "+7", "a b", "é", "日本", "héllo wörld", "3日", "\xff\xfeab", "a\xc3", "x%dy",
	"A", "0", "-", "9223372036854775807", "\t5", strings.Repeat("x", 600), "😀z",
}

var c09Flds = []string{"42", "-1.5", " 12 ", "1e2", "abc", "", "é", "65", "3x", "0", "+0.5", "007", ".", "233", "-0", "日本語"}

// c09Pool is the argument pool of the systematic cross-product.
func c09Pool() []cp.Arg {
	var l []cp.Arg
	for _, x := range c09Nums {
		l = append(l, cp.Num(x))
	}
	for _, s := range c09Strs {
		l = append(l, cp.Str(s))
	}
	for _, s := range c09Flds {
		l = append(l, cp.Fld(s))
	}
	return l
}

var c09Convs = []string{"d", "i", "o", "x", "X", "u", "c", "s", "e", "E", "f", "g", "G"}

// c09FlagSubset returns the i-th subset (0..31) of "-+ #0".
func c09FlagSubset(i int) string {
	s := ""
	for b, f := range "-+ #0" {
		if i&(1<<b) != 0 {
			s += string(f)
		}
	}
	return s
}

var (
	c09WidthsQ   = []string{"", "1", "8", "*"}
	c09PrecsQ    = []string{"", ".0", ".1", ".5", ".*"}
	c09WidthsT   = []string{"", "1", "8", "*", "13", "40"}
	c09PrecsT    = []string{"", ".0", ".1", ".5", ".*", ".", ".12", ".30"}
	c09StarWidth = []float64{8, -8, 0, 1, 13, -64, 64, 3}
	c09StarPrec  = []float64{0, 1, 5, -1, 17, 64, -64, 3}
)

// ---- generators ----------------------------------------------------------------------------

// c09CrossUnit builds the program of one unit of the cross-product: one (flag subset,
// width, precision) with every C-defined conversion, over one chunk of the argument pool.
// All conversions share the program so that formats differing only in the conversion
// letter meet in one format cache.
func c09CrossUnit(unit int, widths, precs []string, pool []cp.Arg, chunk int) *c09Prog {
	nch := (len(pool) + chunk - 1) / chunk
	ch := unit % nch
	u := unit / nch
	p := precs[u%len(precs)]
	u /= len(precs)
	w := widths[u%len(widths)]
	u /= len(widths)
	flags := c09FlagSubset(u % 32)
	prog := &c09Prog{Mode: []string{"sprintf", "printf", "printf-file"}[unit%3], Chars: unit%5 == 4}
	lo, hi := ch*chunk, (ch+1)*chunk
	if hi > len(pool) {
		hi = len(pool)
	}
	for ai := lo; ai < hi; ai++ {
		for ci, conv := range c09Convs {
			sp := cp.Spec{Flags: flags, Width: w, Prec: p, Conv: conv}
			if !sp.Defined() {
				continue
			}
			pc := cp.Piece{Spec: &sp}
			if w == "*" {
				pc.Stars = append(pc.Stars, cp.Num(c09StarWidth[(ai+ci+unit)%len(c09StarWidth)]))
			}
			if p == ".*" {
				pc.Stars = append(pc.Stars, cp.Num(c09StarPrec[(ai+2*ci+unit)%len(c09StarPrec)]))
			}
			a := pool[ai]
			pc.Arg = &a
			prog.Items = append(prog.Items, cp.Item{Pieces: []cp.Piece{pc}})
		}
	}
	return prog
}

func c09CrossUnits(widths, precs []string, pool []cp.Arg, chunk int) int {
	return 32 * len(widths) * len(precs) * ((len(pool) + chunk - 1) / chunk)
}

func c09RandFlags(rng *rand.Rand) string {
	fl := []byte(c09FlagSubset(rng.Intn(32)))
	rng.Shuffle(len(fl), func(i, j int) { fl[i], fl[j] = fl[j], fl[i] })
	if len(fl) > 0 && rng.Intn(8) == 0 {
		fl = append(fl, fl[rng.Intn(len(fl))]) // a repeated flag is still defined
	}
	return string(fl)
}

func c09RandSpec(rng *rand.Rand) (cp.Spec, []cp.Arg) {
	for {
		sp := cp.Spec{Flags: c09RandFlags(rng), Conv: c09Convs[rng.Intn(len(c09Convs))]}
		var stars []cp.Arg
		switch r := rng.Intn(10); {
		case r < 3:
		case r < 7:
			sp.Width = strconv.Itoa(1 + rng.Intn(24))
		case r < 8:
			sp.Width = strconv.Itoa([]int{64, 100, 255, 512}[rng.Intn(4)])
		default:
			sp.Width = "*"
			stars = append(stars, c09RandStar(rng))
		}
		switch r := rng.Intn(10); {
		case r < 3:
		case r < 4:
			sp.Prec = "."
		case r < 7:
			sp.Prec = "." + strconv.Itoa(rng.Intn(22))
		case r < 8:
			sp.Prec = "." + strconv.Itoa([]int{40, 64, 100, 300}[rng.Intn(4)])
		default:
			sp.Prec = ".*"
			stars = append(stars, c09RandStar(rng))
		}
		if sp.Conv == "c" {
			if sp.Prec == ".*" {
				stars = stars[:len(stars)-1]
			}
			sp.Prec = ""
		}
		if sp.Defined() {
			return sp, stars
		}
	}
}

// c09RandStar draws a '*' argument: an int in [-64, 64], sometimes spelled as a fraction
// (truncated the AWK way) or as a string with a numeric prefix.
func c09RandStar(rng *rand.Rand) cp.Arg {
	n := rng.Intn(129) - 64
	switch rng.Intn(12) {
	case 0:
		f := float64(n)
		if n >= 0 {
			f += 0.75
		} else {
			f -= 0.75
		}
		return cp.Num(f)
	case 1:
		return cp.Str(strconv.Itoa(n) + "px")
	case 2:
		return cp.Fld(strconv.Itoa(n))
	}
	return cp.Num(float64(n))
}

var c09Alphabets = []string{"abcWYZ 09", "aé日😀 ", "0123456789.-+e ", "a\xff\xc3b\x80"}

func c09RandArg(rng *rand.Rand, pool []cp.Arg) cp.Arg {
	switch r := rng.Intn(20); {
	case r < 8:
		return pool[rng.Intn(len(pool))]
	case r < 12: // integers across the int64 range, every magnitude equally likely
		bits := rng.Intn(64)
		v := int64(rng.Uint64() >> (63 - uint(bits)) >> 1)
		if bits == 0 {
			v = int64(rng.Intn(300))
		}
		if rng.Intn(2) == 0 {
			v = -v
		}
		f := float64(v)
		if f >= 9223372036854775808.0 {
			f = c09MaxBelow2_63
		}
		return cp.Num(f)
	case r < 15: // floats of every decimal magnitude
		m := float64(rng.Int63n(2_000_000_000)-1_000_000_000) / 1e9
		digits := rng.Intn(10)
		m = math.Round(m*math.Pow10(digits)) / math.Pow10(digits)
		return cp.Num(m * math.Pow10(rng.Intn(50)-25))
	case r < 16: // decimal ties and near-ties
		return cp.Num(float64(rng.Intn(2000)-1000)/8 + []float64{0, 0.0625, 0.005, 0.5}[rng.Intn(4)])
	case r < 19:
		al := []rune(c09Alphabets[rng.Intn(len(c09Alphabets)-1)])
		if rng.Intn(6) == 0 {
			b := []byte(c09Alphabets[3])
			n := rng.Intn(6)
			s := make([]byte, n)
			for i := range s {
				s[i] = b[rng.Intn(len(b))]
			}
			return cp.Str(string(s))
		}
		n := rng.Intn(12)
		var sb strings.Builder
		for i := 0; i < n; i++ {
			sb.WriteRune(al[rng.Intn(len(al))])
		}
		if rng.Intn(4) == 0 {
			s := strings.ReplaceAll(sb.String(), "|", "")
			return cp.Fld(s)
		}
		return cp.Str(sb.String())
	default:
		return cp.Fld(c09Flds[rng.Intn(len(c09Flds))])
	}
}

// c09ConvFmts are CONVFMT/OFMT values for printf probe programs (all with an explicit
// precision, so that the %g default-precision divergence stays out of this sub-check).
var c09ConvFmts = []cp.Spec{{Prec: ".3", Conv: "g"}, {Prec: ".8", Conv: "g"}, {Prec: ".2", Conv: "f"}, {Prec: ".10", Conv: "e"}, {Prec: ".12", Conv: "G"}}

var c09Lits = []string{"", " ", "x=", "[", "]", ", ", "é:", "\t", "100", "日本 ", "a\\b", "\"q\"", "\n"}

func c09RandItem(rng *rand.Rand, pool []cp.Arg) cp.Item {
	nconv := 1
	if rng.Intn(6) == 0 {
		nconv = 2 + rng.Intn(4)
	}
	var it cp.Item
	lit := func() {
		switch rng.Intn(6) {
		case 0:
			it.Pieces = append(it.Pieces, cp.Piece{Pct: true})
		case 1, 2:
			if l := c09Lits[rng.Intn(len(c09Lits))]; l != "" {
				it.Pieces = append(it.Pieces, cp.Piece{Lit: l})
			}
		}
	}
	for i := 0; i < nconv; i++ {
		if nconv > 1 || rng.Intn(4) == 0 {
			lit()
		}
		sp, stars := c09RandSpec(rng)
		a := c09RandArg(rng, pool)
		it.Pieces = append(it.Pieces, cp.Piece{Spec: &sp, Stars: stars, Arg: &a})
	}
	if nconv > 1 || rng.Intn(4) == 0 {
		lit()
	}
	if rng.Intn(10) == 0 {
		it.Extra = append(it.Extra, c09RandArg(rng, pool))
	}
	return it
}

func c09RandProg(rng *rand.Rand, pool []cp.Arg) *c09Prog {
	n := []int{1, 4, 12, 40, 40, 130}[rng.Intn(6)]
	p := &c09Prog{Mode: []string{"sprintf", "sprintf", "printf", "printf-file"}[rng.Intn(4)], Chars: rng.Intn(4) == 0}
	if rng.Intn(4) == 0 {
		i := rng.Intn(len(c09ConvFmts))
		cf, of := c09ConvFmts[i], c09ConvFmts[(i+1+rng.Intn(len(c09ConvFmts)-1))%len(c09ConvFmts)]
		p.ConvFmt, p.OFMT = &cf, &of
	}
	for i := 0; i < n; i++ {
		if i > 0 && rng.Intn(5) == 0 {
			// the same format again with another argument (format-cache hit with other types)
			prev := p.Items[rng.Intn(len(p.Items))]
			cpy := cp.Item{Extra: prev.Extra}
			for _, pc := range prev.Pieces {
				if pc.Spec != nil {
					a := c09RandArg(rng, pool)
					pc.Arg = &a
				}
				cpy.Pieces = append(cpy.Pieces, pc)
			}
			p.Items = append(p.Items, cpy)
			continue
		}
		p.Items = append(p.Items, c09RandItem(rng, pool))
	}
	return p
}

// c09AliasProg: formats that differ only in the conversion letter, in a random order and
// each twice, on one interpreter — a cache keyed on the rewritten format would confuse them.
func c09AliasProg(rng *rand.Rand, pool []cp.Arg) *c09Prog {
	p := &c09Prog{Mode: "sprintf", Chars: rng.Intn(4) == 0}
	flags := c09RandFlags(rng)
	width := []string{"", "6", "12"}[rng.Intn(3)]
	prec := []string{"", ".3"}[rng.Intn(2)]
	order := rng.Perm(len(c09Convs))
	for round := 0; round < 2; round++ {
		for _, ci := range order {
			sp := cp.Spec{Flags: flags, Width: width, Prec: prec, Conv: c09Convs[ci]}
			if sp.Conv == "c" {
				sp.Prec = ""
			}
			if !sp.Defined() {
				// drop the flags C leaves undefined for this conversion
				sp.Flags = strings.Map(func(r rune) rune {
					if r == '#' || r == '0' {
						return -1
					}
					return r
				}, sp.Flags)
			}
			a := c09RandArg(rng, pool)
			p.Items = append(p.Items, cp.Item{Pieces: []cp.Piece{{Spec: &sp, Arg: &a}}})
		}
	}
	return p
}

// c09HugeProgs: widths and precisions around and beyond Go's fmt limit of 1e6 (C has no such
// limit; outputs above 4095 bytes are beyond what ISO C guarantees, which the notes discuss).
func c09HugeProgs() []*c09Prog {
	var l []*c09Prog
	mk := func(sp cp.Spec, stars []cp.Arg, a cp.Arg) {
		l = append(l, &c09Prog{Mode: "sprintf", Items: []cp.Item{{Pieces: []cp.Piece{{Spec: &sp, Stars: stars, Arg: &a}}}}})
	}
	for _, w := range []string{"4095", "4096", "100000", "1000000", "1000001", "2000000"} {
		mk(cp.Spec{Width: w, Conv: "d"}, nil, cp.Num(42))
		mk(cp.Spec{Flags: "-", Width: w, Conv: "s"}, nil, cp.Str("ab"))
		mk(cp.Spec{Width: w, Prec: ".2", Conv: "f"}, nil, cp.Num(-1.5))
		mk(cp.Spec{Width: w, Conv: "c"}, nil, cp.Num(65))
		mk(cp.Spec{Flags: "-", Width: w, Conv: "x"}, nil, cp.Num(255))
	}
	for _, w := range []float64{4096, 1000000, 1000001, -1000001} {
		mk(cp.Spec{Width: "*", Conv: "d"}, []cp.Arg{cp.Num(w)}, cp.Num(42))
		mk(cp.Spec{Width: "*", Conv: "s"}, []cp.Arg{cp.Num(w)}, cp.Str("ab"))
		mk(cp.Spec{Width: "*", Prec: ".3", Conv: "e"}, []cp.Arg{cp.Num(w)}, cp.Num(0.5))
	}
	for _, p := range []string{".1000000", ".1000001", ".9999999", ".10000000", ".99999999"} {
		mk(cp.Spec{Prec: p, Conv: "s"}, nil, cp.Str("abc"))
		mk(cp.Spec{Width: "5", Prec: p, Conv: "s"}, nil, cp.Str("é"))
		mk(cp.Spec{Prec: p, Conv: "g"}, nil, cp.Num(0.5))
	}
	for _, p := range []float64{1000000, 1000001, 16777216} {
		mk(cp.Spec{Prec: ".*", Conv: "s"}, []cp.Arg{cp.Num(p)}, cp.Str("abc"))
		mk(cp.Spec{Flags: "-", Width: "6", Prec: ".*", Conv: "s"}, []cp.Arg{cp.Num(p)}, cp.Str("日本"))
		mk(cp.Spec{Prec: ".*", Conv: "g"}, []cp.Arg{cp.Num(p)}, cp.Num(0.5))
	}
	return l
}

// c09ErrorProgs: the error-expected families. Every program has a few valid calls first.
func c09ErrorProgs(rng *rand.Rand, pool []cp.Arg, perKind int) []*c09Prog {
	var l []*c09Prog
	modes := []string{"sprintf", "printf", "printf-file"}
	add := func(it cp.Item) {
		p := &c09Prog{Mode: modes[len(l)%3], Chars: len(l)%4 == 3}
		for i := rng.Intn(3); i > 0; i-- {
			p.Items = append(p.Items, c09RandItem(rng, pool))
		}
		p.Items = append(p.Items, it)
		if rng.Intn(2) == 0 {
			p.Items = append(p.Items, c09RandItem(rng, pool)) // never reached
		}
		l = append(l, p)
	}
	// unknown conversion letters: every byte that is not a conversion, a flag, a digit, '.', '*'
	// or '%'; %a and %A are a documented don't-care (C99 conversions goawk accepts).
	for b := 1; b < 256; b++ {
		ch := byte(b)
		if strings.IndexByte("diouxXcseEfgGaA%-+ #0123456789.*", ch) >= 0 {
			continue
		}
		if b >= 0x80 && b != 0x80 && b != 0xc3 && b != 0xff {
			continue
		}
		pre := []string{"", "5", "-", ".3", "+08.2", "*"}[b%6]
		raw := "%" + pre + string([]byte{ch})
		it := cp.Item{RawFmt: "v=" + raw + ";", Extra: []cp.Arg{cp.Num(5), cp.Num(7), cp.Str("s")}, WantErr: "unknown-conv"}
		add(it)
	}
	// a second '%' after flags/width is not "%%"
	for _, raw := range []string{"%5%", "%-%", "%.3%", "% %", "%0%", "%*%", "x%5%y%d"} {
		add(cp.Item{RawFmt: raw, Extra: []cp.Arg{cp.Num(1), cp.Num(2)}, WantErr: "unknown-conv"})
	}
	// format ends inside a specification
	for _, raw := range []string{"%", "abc%", "%5", "%-", "%.", "%.3", "%*", "%d%", "%%%", "%+08.2", "100% "[:4]} {
		add(cp.Item{RawFmt: raw, Extra: []cp.Arg{cp.Num(1), cp.Num(2), cp.Num(3)}, WantErr: "incomplete"})
	}
	// too few arguments
	for i := 0; i < perKind; i++ {
		var it cp.Item
		for {
			it = c09RandItem(rng, pool)
			it.Extra = nil
			if i%4 == 0 {
				// make sure '*' arguments take part
				sp := cp.Spec{Width: "*", Prec: ".*", Conv: "d"}
				a := cp.Num(5)
				it.Pieces = append(it.Pieces, cp.Piece{Spec: &sp, Stars: []cp.Arg{cp.Num(4), cp.Num(2)}, Arg: &a})
			}
			if len(it.Args()) > 0 {
				break
			}
		}
		n := len(it.Args())
		it.Drop = 1 + rng.Intn(n)
		if i%5 == 0 {
			it.Drop = n // no argument at all
		}
		it.WantErr = "too-few-args"
		add(it)
	}
	return l
}

var c09OFMTs = []cp.Spec{
	{Prec: ".6", Conv: "g"}, {Prec: ".2", Conv: "f"}, {Prec: ".10", Conv: "g"}, {Conv: "e"}, {Width: "5", Prec: ".1", Conv: "f"},
	{Conv: "g"}, {Conv: "G"}, {Prec: ".0", Conv: "f"}, {Flags: "+", Prec: ".3", Conv: "e"}, {Flags: "#", Prec: ".3", Conv: "g"},
	{Flags: "0", Width: "12", Prec: ".4", Conv: "f"}, {Flags: " ", Conv: "f"}, {Prec: ".3", Conv: "E"}, {Flags: "-", Width: "9", Prec: ".2", Conv: "G"},
	{Prec: ".17", Conv: "g"}, {Conv: "f"},
}

func c09PrintProg(rng *rand.Rand, i int, pool []cp.Arg) *c09Print {
	p := &c09Print{CONVFMT: []string{"", "%.3g", "%.8g", "%d"}[i%4], ToFile: i%3 == 2}
	if i%len(c09OFMTs) != 0 || i%2 == 1 {
		of := c09OFMTs[i%len(c09OFMTs)]
		p.OFMT = &of
	}
	ng := 4 + rng.Intn(12)
	for g := 0; g < ng; g++ {
		n := 1 + rng.Intn(3)
		var grp []cp.Arg
		for j := 0; j < n; j++ {
			a := c09RandArg(rng, pool)
			if a.K != "num" && rng.Intn(2) == 0 {
				a = cp.Num(c09Nums[rng.Intn(len(c09Nums))])
			}
			if bytes.Contains(a.S, []byte("|")) || bytes.Contains(a.S, []byte("\n")) {
				a = cp.Str("s")
			}
			grp = append(grp, a)
		}
		p.Groups = append(p.Groups, grp)
	}
	return p
}

// ---- registration --------------------------------------------------------------------------

func c09NewChecker(c *core.Ctx) (*c09Checker, func(), error) {
	o, err := cp.StartOracle(filepath.Join(core.BuildDir, "printf_oracle"))
	if err != nil {
		return nil, nil, err
	}
	k := &c09Checker{c: c, m: &cp.Model{O: o}, emitted: map[string]int{}}
	return k, func() {
		c.Count("libc_calls", o.Calls)
		c.Count("glibc_sharp_g_carry_corrected", k.m.GlibcSharpGFixes)
		o.Close()
	}, nil
}

func init() {
	n := func(t core.Tier, q, th int) int {
		if t == core.Thorough {
			return th
		}
		return q
	}
	core.Register(&core.Property{
		ID:    "C09",
		Level: "exploration",
		Rule: "probe programs of printf/sprintf calls: (a) the cross-product flag subsets (32) x width x precision x 13 conversions x argument pool " +
			"(complete at thorough, a seeded sample of its units at quick), (b) a random layer (flag order/repetition, widths <=512, precisions <=300, '*' in [-64,64], " +
			"integers of every int64 magnitude, floats of every decimal magnitude, ASCII/multi-byte/invalid-UTF-8 strings, numeric-string fields, several conversions and %% per format, " +
			"repeated formats, >100 formats per interpreter), (c) conversion-letter alias programs, (d) widths/precisions above 1e6, (e) error-expected formats, (f) print with 16 OFMT values, " +
			"(g) calls with 2-5 %c conversions (numbers of 1-4-byte and invalid codes, numeric fields, strings; flags/widths/'*'), (h) calls with 2-6 mixed conversions with at least one %c, " +
			"(i) one format used 4-9 times on one interpreter with arguments of other provenances and counts, ending in half of the programs with too few arguments (cached and cache-full), " +
			"(j) print in CSV/TSV output mode (Config.OutputMode and OUTPUTMODE in BEGIN, separator , tab ;) and with user ORS/OFS, to stdout, a file, a pipe and /dev/stdout, OFMT != CONVFMT; " +
			"sprintf, printf to stdout and printf to a file, byte and character mode; non-trivial = distinct (mode, char mode, format, arguments) whose output was compared with libc " +
			"(don't-care calls and repeated calls do not count)",
		Assumptions: []string{
			"libc snprintf (glibc, C locale) is the specification of C printf; the AWK-way argument conversion is done by the harness (trunc to long long, two's complement for o x X u, double, bytes, code -> character)",
			"only ISO-C-defined specifications are generated: '#' only with o x X e E f g G; '0' not with c s; no precision with c",
			"don't-care (run, not compared): sign of a printed NaN (either accepted); integer conversions of values outside int64; %c of \"\", of a non-integral/negative number, of a code >255 in byte mode or an invalid code point in char mode; width with a multi-byte %c or %s in char mode; %s of a non-finite or beyond-int64 number; strings containing NUL; print of non-finite, -0 or beyond-int64 integral numbers; %a/%A",
			"string-to-number conversion of arguments is restricted to plain decimal prefixes (hex, inf/nan spellings and non-ASCII blanks belong to C05)",
			"CSV/TSV output mode: a print argument is first formatted as in the default mode (string as is, integral number as integer, other number with OFMT by libc) and then encoded as one field by encoding/csv's quoting rules; how a lone empty field is written is C08's question (don't-care); a don't-care number next to an empty or number-like OFS makes the whole statement a don't-care",
			"segmented calls (conversions separated by \\x04) are compared conversion by conversion, so a don't-care conversion does not hide its neighbours",
		},
		NBatches: func(t core.Tier) int { return n(t, 16, 64) },
		// each batch is a single-threaded workload; 16 batches x 16 GC workers only fight each other
		ChildEnv:   func(t core.Tier) []string { return []string{"GOMAXPROCS=2", "GOGC=200"} },
		Exhaustive: func(t core.Tier) bool { return t == core.Thorough },
		Floors: func(t core.Tier) map[string]int {
			return map[string]int{
				"evaluations": n(t, 100000, 3000000), "distinct_nontrivial": n(t, 90000, 2500000),
				"conv_flagset": 300, "conv_width_prec": 230, "conv_argclass": 220, "modes": 6,
				"error_expected_cases": n(t, 300, 2500), "error_kinds": 3, "print_values_compared": n(t, 4000, 80000), "ofmt_values": 15,
				"multi_conversion_calls": n(t, 6000, 200000), "cache_overflow_programs": n(t, 150, 5000), "negative_star_args": n(t, 15000, 400000),
				"libc_calls": n(t, 100000, 3000000), "programs_with_CONVFMT_set": n(t, 200, 8000),
				// extension (c09ext.go)
				"multi_numeric_c_calls_charmode": n(t, 2500, 60000), "multi_numeric_c_calls_bytemode": n(t, 2000, 50000), "multi_c_classes": 20,
				"segmented_conversions_compared": n(t, 4000, 100000), "mixed_c_calls_charmode": n(t, 2500, 60000), "mixed_c_calls_bytemode": n(t, 2200, 55000),
				"star_with_c_calls": n(t, 2500, 60000), "error_after_same_format_used": n(t, 150, 4000), "error_after_same_format_used_cache_full": n(t, 15, 400),
				"print_csv_values_compared": n(t, 3000, 45000), "print_tsv_values_compared": n(t, 2000, 30000), "print_default_values_compared": n(t, 2000, 30000),
				"print_csv_nonintegral_OFMT_ne_CONVFMT": n(t, 800, 12000), "print_tsv_nonintegral_OFMT_ne_CONVFMT": n(t, 500, 8000),
				"print_ext_modes": 7, "print_ext_dests": 12, "print_ext_ofmt_values": 16,
			}
		},
		Run: func(c *core.Ctx) {
			k, done, err := c09NewChecker(c)
			if err != nil {
				c.Inconclusive("oracle-start:" + err.Error())
				return
			}
			defer done()
			pool := c09Pool()
			rng := c.Rand("gen")

			// (a) cross-product
			k.gen = "cross"
			if c.Tier == core.Thorough {
				units := c09CrossUnits(c09WidthsT, c09PrecsT, pool, 10)
				for u := 0; u < units; u++ {
					if c.Mine(u) {
						k.checkProg(c09CrossUnit(u, c09WidthsT, c09PrecsT, pool, 10))
					}
				}
			} else {
				units := c09CrossUnits(c09WidthsQ, c09PrecsQ, pool, 10)
				perm := c.RandGlobal("cross-sample").Perm(units)
				for i, u := range perm[:560] {
					if c.Mine(i) {
						k.checkProg(c09CrossUnit(u, c09WidthsQ, c09PrecsQ, pool, 10))
					}
				}
			}
			// (b) random layer
			k.gen = "random"
			for i, total := 0, n(c.Tier, 1440, 60000)/c.NBatches; i < total; i++ {
				k.checkProg(c09RandProg(rng, pool))
			}
			// (c) alias programs
			k.gen = "alias"
			for i, total := 0, n(c.Tier, 480, 12000)/c.NBatches; i < total; i++ {
				k.checkProg(c09AliasProg(rng, pool))
			}
			// (d) huge widths / precisions
			k.gen = "huge"
			for i, p := range c09HugeProgs() {
				if c.Mine(i) {
					k.checkProg(p)
				}
			}
			// (e) error-expected families (same list in every batch, partitioned)
			k.gen = "errors"
			for i, p := range c09ErrorProgs(c.RandGlobal("errors"), pool, n(c.Tier, 200, 3000)) {
				if c.Mine(i) {
					k.checkProg(p)
				}
			}
			// (f) print / OFMT
			k.gen = "print"
			prng := c.RandGlobal("print")
			for i, total := 0, n(c.Tier, 320, 6400); i < total; i++ {
				p := c09PrintProg(prng, i, pool)
				if c.Mine(i) {
					k.checkPrint(p)
				}
			}
			// ---- extension (c09ext.go) ----
			xrng := c.Rand("gen-ext")
			k.m.ConvFmt = nil
			// (g) 2-5 %c conversions in one call, byte and character mode
			k.gen = "multi-c"
			for i, total := 0, n(c.Tier, 640, 16000)/c.NBatches; i < total; i++ {
				k.checkProg(c09MultiCProg(xrng, k.m))
			}
			// (h) mixed conversions in one call (%c %s %d %c, %*d with %c, ...)
			k.gen = "multi-mixed"
			for i, total := 0, n(c.Tier, 480, 12000)/c.NBatches; i < total; i++ {
				k.checkProg(c09MixedProg(xrng, k.m))
			}
			// (i) one format string used repeatedly with other argument types and counts
			k.gen = "repeat-format"
			for i, total := 0, n(c.Tier, 640, 16000)/c.NBatches; i < total; i++ {
				k.checkProg(c09RepeatProg(xrng, k.m))
			}
			// (j) print in CSV/TSV output mode, to file / pipe / "/dev/stdout", with user ORS/OFS
			k.gen = "print-ext"
			xprng := c.RandGlobal("print-ext")
			for i, total := 0, n(c.Tier, 640, 9600); i < total; i++ {
				p := c09PrintXProg(xprng, i, pool)
				if c.Mine(i) {
					k.checkPrintX(p)
				}
			}
		},
		Replay: func(c *core.Ctx, raw json.RawMessage) {
			var cs c09Case
			if err := json.Unmarshal(raw, &cs); err != nil {
				fmt.Println("bad case:", err)
				return
			}
			k, done, err := c09NewChecker(c)
			if err != nil {
				fmt.Println("oracle:", err)
				return
			}
			defer done()
			k.gen = cs.Gen
			switch {
			case cs.Prog != nil:
				file := ""
				if cs.Prog.Mode == "printf-file" {
					file = filepath.Join(c.WorkDir(), "out.txt")
				}
				src, stdin := cs.Prog.source(file)
				fmt.Printf("program (chars=%v):\n%sstdin: %q\n", cs.Prog.Chars, src, stdin)
				r := cs.Prog.exec(c)
				fmt.Printf("goawk: err=%q output=%s\n", r.err, core.Q(string(r.out)))
				k.checkProg(cs.Prog)
			case cs.Print != nil && cs.Print.extended():
				src, stdin := cs.Print.sourceX(filepath.Join(c.WorkDir(), "printx.txt"))
				fmt.Printf("program (%s):\n%sstdin: %q\n", cs.Print.modeTag(), src, stdin)
				r := cs.Print.execX(c)
				fmt.Printf("goawk: err=%q output=%s\n", r.err, core.Q(string(r.out)))
				k.checkPrintX(cs.Print)
			case cs.Print != nil:
				src, stdin := cs.Print.source(filepath.Join(c.WorkDir(), "print.txt"))
				fmt.Printf("program:\n%sstdin: %q\n", src, stdin)
				k.checkPrint(cs.Print)
			}
			var keys []string
			for key := range k.emitted {
				keys = append(keys, key)
			}
			sort.Strings(keys)
			fmt.Println("violations by kind|class:", keys)
		},
	})
}
