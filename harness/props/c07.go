package props

// C07 — record reading is lossless and independent of how the input bytes arrive.
//
// Monitor: the real interpreter reads its input through a chunk-controlled io.Reader
// (c07split.ChunkReader) and prints a binary-safe trace of (NR, FNR, $0, RT).  Oracles:
//   (a) metamorphic   — the trace under any delivery equals the trace under one single read
//                       (kind "chunk-dependence");
//   (b) equations     — regex RS: concat(record+RT) == input; one-byte RS: records joined by
//                       RS == input up to one optional final RS (kind "lossless-equation");
//   (c) reference SPL — c07split.Reference on the whole input (kind "reference-split"), which
//                       also judges the single-read run (the scanner's own 64 KiB buffer edge
//                       is a delivery boundary nobody chose);
//   numbering         — NR/FNR count records, not reads (kind "nr-fnr").
// A violation gets a class only if c07split.Explain shows the trace is byte-for-byte what a
// known defect predicts for the reads that were logged.

import (
	"bytes"
	"encoding/json"
	"fmt"
	"math/rand"
	"os"
	"os/exec"
	"path/filepath"
	"regexp"
	"sort"
	"strings"
	"syscall"
	"time"
	"unsafe"

	"github.com/benhoyt/goawk/interp"
	"github.com/benhoyt/goawk/parser"

	sp "verifharness/c07split"
	"verifharness/core"
	"verifharness/run"
)

// ---- the case ----------------------------------------------------------------------------

// c07Case is one replayable (input, RS, program mode, delivery) case.  The input is
// Input with FillUnit repeated FillCount times inserted at offset FillAt (keeps the 64 KiB
// buffer-edge cases small on disk).
type c07Case struct {
	Fam         string `json:"fam"`
	Mode        string `json:"mode"` // main | getline | getline-var | getline-file | file+stdin | cli-stdin | cli-fifo-arg | cli-fifo-getline
	RS          []byte `json:"rs"`
	RSVia       string `json:"rs_via"`              // vars | begin
	RS2         []byte `json:"rs2,omitempty"`       // assigned while record SwitchAt is processed
	SwitchAt    int    `json:"switch_at,omitempty"` // 0 = RS never changes
	Input       []byte `json:"input"`
	FillUnit    []byte `json:"fill_unit,omitempty"`
	FillCount   int    `json:"fill_count,omitempty"`
	FillAt      int    `json:"fill_at,omitempty"`
	FilePart    int    `json:"file_part,omitempty"` // file+stdin: this many leading bytes come from a file operand
	Cuts        []int  `json:"cuts"`                // offsets where a delivery ends
	EOFWithLast bool   `json:"eof_with_last,omitempty"`
}

func (cs *c07Case) materialize() []byte {
	if cs.FillCount == 0 || len(cs.FillUnit) == 0 {
		return cs.Input
	}
	b := make([]byte, 0, len(cs.Input)+cs.FillCount*len(cs.FillUnit))
	b = append(b, cs.Input[:cs.FillAt]...)
	b = append(b, bytes.Repeat(cs.FillUnit, cs.FillCount)...)
	b = append(b, cs.Input[cs.FillAt:]...)
	return b
}

// ---- probe programs ------------------------------------------------------------------------

const c07Fmt = `"%d %d %d %d:%s%s\n"`

// awkQuote spells a byte string as an AWK string literal (octal escapes for everything that
// is not printable ASCII).
func awkQuote(s string) string {
	var sb strings.Builder
	sb.WriteByte('"')
	for i := 0; i < len(s); i++ {
		b := s[i]
		switch {
		case b == '"' || b == '\\':
			sb.WriteByte('\\')
			sb.WriteByte(b)
		case b == '\n':
			sb.WriteString(`\n`)
		case b >= 0x20 && b < 0x7f:
			sb.WriteByte(b)
		default:
			fmt.Fprintf(&sb, `\%03o`, b)
		}
	}
	sb.WriteByte('"')
	return sb.String()
}

// c07Program returns the AWK source of the probe for a case. fifo is the path used by the
// cli-fifo-getline mode.
func c07Program(cs *c07Case, fifo string) string {
	var sb strings.Builder
	begin := ""
	if cs.RSVia == "begin" {
		begin = "RS = " + awkQuote(string(cs.RS)) + "; "
	}
	sw := ""
	if cs.SwitchAt > 0 {
		sw = fmt.Sprintf("if (NR == %d) RS = %s; ", cs.SwitchAt, awkQuote(string(cs.RS2)))
	}
	switch cs.Mode {
	case "main", "file+stdin", "cli-stdin", "cli-fifo-arg":
		if begin != "" {
			sb.WriteString("BEGIN { " + begin + "}\n")
		}
		sb.WriteString("{ printf " + c07Fmt + ", NR, FNR, length($0), length(RT), $0, RT; " + sw + "}\n")
		sb.WriteString(`END { printf "E %d\n", NR }` + "\n")
	case "getline":
		sb.WriteString("BEGIN { " + begin + "while ((getline) > 0) { printf " + c07Fmt + ", NR, FNR, length($0), length(RT), $0, RT; " + sw + "}\n")
		sb.WriteString(`printf "E %d\n", NR }` + "\n")
	case "getline-var":
		sb.WriteString("BEGIN { " + begin + "while ((getline v) > 0) { printf " + c07Fmt + ", NR, FNR, length(v), length(RT), v, RT; " + sw + "}\n")
		sb.WriteString(`printf "E %d\n", NR }` + "\n")
	case "getline-file", "cli-fifo-getline":
		src := `"-"`
		if cs.Mode == "cli-fifo-getline" {
			src = awkQuote(fifo)
		}
		sw2 := ""
		if cs.SwitchAt > 0 {
			sw2 = fmt.Sprintf("if (n == %d) RS = %s; ", cs.SwitchAt, awkQuote(string(cs.RS2)))
		}
		sb.WriteString("BEGIN { n = 0; " + begin + "while ((getline v < " + src + ") > 0) { n++; printf " + c07Fmt + ", n, n, length(v), length(RT), v, RT; " + sw2 + "}\n")
		sb.WriteString(`printf "E %d\n", n }` + "\n")
	}
	return sb.String()
}

// ---- environment of a batch (caches) -------------------------------------------------------

type c07Env struct {
	c     *core.Ctx
	progs map[string]*parser.Program
	res   map[string]*regexp.Regexp
	// rsOK[via+rs]: setting RS this way works and reads back unchanged (probe); a single
	// byte >= 0x80 panics today (C02 finding) and is skipped here.
	rsOK map[string]bool
	// file+stdin: the file operand currently on disk
	fileFor  *c07Case
	fileData []byte
	emitted  map[string]int // classified witnesses emitted per kind|class
}

func newC07Env(c *core.Ctx) *c07Env {
	return &c07Env{c: c, progs: map[string]*parser.Program{}, res: map[string]*regexp.Regexp{}, rsOK: map[string]bool{}, emitted: map[string]int{}}
}

func (e *c07Env) prog(src string) *parser.Program {
	if p, ok := e.progs[src]; ok {
		return p
	}
	p, err, pm := run.Parse(src, nil)
	if err != nil || pm != "" {
		panic(fmt.Sprintf("c07: probe program does not parse: %v %s\n%s", err, pm, src))
	}
	e.progs[src] = p
	return p
}

func (e *c07Env) re(rs string) *regexp.Regexp {
	if r, ok := e.res[rs]; ok {
		return r
	}
	r, err := sp.CompileRS(rs)
	if err != nil {
		r = nil
	}
	e.res[rs] = r
	return r
}

// rsUsable probes whether RS can be set to rs by the given route and reads back unchanged.
func (e *c07Env) rsUsable(rs, via string) bool {
	key := via + "|" + rs
	if ok, seen := e.rsOK[key]; seen {
		return ok
	}
	var out run.Outcome
	if via == "begin" {
		prog, err, pm := run.Parse("BEGIN { RS = "+awkQuote(rs)+`; printf "%s", RS }`, nil)
		if err != nil || pm != "" {
			e.rsOK[key] = false
			return false
		}
		out = run.Exec(prog, &interp.Config{Stdin: strings.NewReader("")}, run.Opts{})
	} else {
		out = run.Exec(e.prog(`BEGIN { printf "%s", RS }`), &interp.Config{Stdin: strings.NewReader(""), Vars: []string{"RS", rs}}, run.Opts{})
	}
	ok := out.Panic == "" && out.Err == "" && out.Stdout == rs
	e.rsOK[key] = ok
	if !ok {
		e.c.Count("rs_setting_unusable_skipped", 1)
		e.c.Cover("rs_unusable", fmt.Sprintf("%s:%q", via, rs))
	}
	return ok
}

// ---- one execution -----------------------------------------------------------------------

type c07Obs struct {
	trace sp.Trace
	reads []int  // offsets at which the Reads of the chunked stream ended
	fail  string // execution error / panic / step limit ("" if the run completed)
}

func (o c07Obs) String() string {
	if o.fail != "" {
		return "FAILED: " + o.fail
	}
	return o.trace.String()
}

// c07Exec runs the case in-process with the given delivery. ip == nil: on a fresh interpreter.
func c07Exec(e *c07Env, cs *c07Case, input []byte, cuts []int, eofWithLast bool, ip *interp.Interpreter) c07Obs {
	stdin := input
	cfg := &interp.Config{}
	if cs.RSVia != "begin" {
		cfg.Vars = []string{"RS", string(cs.RS)}
	}
	if cs.Mode == "file+stdin" {
		f := filepath.Join(e.c.WorkDir(), "part1")
		if e.fileFor != cs || !bytes.Equal(e.fileData, input[:cs.FilePart]) {
			if err := os.WriteFile(f, input[:cs.FilePart], 0o644); err != nil {
				return c07Obs{fail: "harness: " + err.Error()}
			}
			e.fileFor, e.fileData = cs, append([]byte{}, input[:cs.FilePart]...)
		}
		cfg.Args = []string{f, "-"}
		stdin = input[cs.FilePart:]
	}
	rd := sp.NewChunkReader(stdin, cuts, eofWithLast)
	cfg.Stdin = rd
	out := run.Exec(e.prog(c07Program(cs, "")), cfg, run.Opts{StepLimit: 20_000_000, Interp: ip})
	obs := c07Obs{reads: rd.Reads}
	switch {
	case out.Panic != "":
		obs.fail = "panic: " + run.PanicSite(out.Panic)
	case out.StepLimit:
		obs.fail = "step limit"
	case out.Err != "":
		obs.fail = "error: " + out.Err
	}
	obs.trace = sp.ParseTrace(out.Stdout)
	return obs
}

// ---- CLI execution through a pipe / FIFO written in pieces ----------------------------------

const fionread = 0x541B

func pipePending(f *os.File) (int, error) {
	var n int32
	_, _, errno := syscall.Syscall(syscall.SYS_IOCTL, f.Fd(), fionread, uintptr(unsafe.Pointer(&n)))
	if errno != 0 {
		return 0, errno
	}
	return int(n), nil
}

// feedPieces writes the pieces to w, waiting before each write (and before returning)
// until the reader has drained the pipe, so that every read(2) of the reader returns exactly
// one piece.  The wait is a handshake on the pipe's fill level, not a timing assumption; the
// 90 s bound only turns a stuck (or, on an overloaded machine, not yet started) reader into an
// inconclusive case.
func feedPieces(w *os.File, data []byte, cuts []int) error {
	prev := 0
	bounds := append(append([]int{}, cuts...), len(data))
	for _, b := range bounds {
		if b <= prev {
			continue
		}
		if _, err := w.Write(data[prev:b]); err != nil {
			return err
		}
		prev = b
		deadline := time.Now().Add(90 * time.Second)
		for {
			n, err := pipePending(w)
			if err != nil {
				return err
			}
			if n == 0 {
				break
			}
			if time.Now().After(deadline) {
				return fmt.Errorf("reader did not drain the pipe")
			}
			time.Sleep(50 * time.Microsecond)
		}
	}
	return nil
}

// c07ExecCLI runs the goawk binary with the input arriving through a pipe (stdin) or a FIFO
// (file operand / getline source) in the chosen pieces.
func c07ExecCLI(e *c07Env, cs *c07Case, input []byte, cuts []int) (obs c07Obs, inconclusive string) {
	for _, c := range cuts {
		if c%65536 == 0 {
			return obs, "cli-cut-at-pipe-capacity"
		}
	}
	if len(input) == 0 {
		return obs, "cli-empty-input"
	}
	dir := e.c.WorkDir()
	fifo := filepath.Join(dir, "fifo")
	prog := c07Program(cs, fifo)
	args := []string{prog}
	cmd := exec.Command(filepath.Join(core.BuildDir, "goawk"))
	cmd.Env = []string{"PATH=/nonexistent"}
	var stdout, stderr bytes.Buffer
	cmd.Stdout, cmd.Stderr = &stdout, &stderr
	var w *os.File
	switch cs.Mode {
	case "cli-stdin":
		r, pw, err := os.Pipe()
		if err != nil {
			return obs, "pipe:" + err.Error()
		}
		cmd.Stdin = r
		w = pw
		defer r.Close()
	default:
		_ = os.Remove(fifo)
		if err := syscall.Mkfifo(fifo, 0o600); err != nil {
			return obs, "mkfifo:" + err.Error()
		}
		defer os.Remove(fifo)
		if cs.Mode == "cli-fifo-arg" {
			args = append(args, fifo)
		}
		cmd.Stdin = strings.NewReader("")
	}
	cmd.Args = append(cmd.Args, args...)
	if err := cmd.Start(); err != nil {
		return obs, "start:" + err.Error()
	}
	done := make(chan error, 1)
	go func() { done <- cmd.Wait() }()
	if w == nil {
		// opening the FIFO for writing blocks until goawk opens it for reading
		opened := make(chan *os.File, 1)
		go func() {
			f, err := os.OpenFile(fifo, os.O_WRONLY, 0)
			if err != nil {
				opened <- nil
				return
			}
			opened <- f
		}()
		select {
		case w = <-opened:
		case err := <-done:
			// goawk ended without opening the FIFO: unblock the opener
			if f, e2 := os.OpenFile(fifo, os.O_RDONLY|syscall.O_NONBLOCK, 0); e2 == nil {
				if wf := <-opened; wf != nil {
					wf.Close()
				}
				f.Close()
			}
			obs.fail = fmt.Sprintf("goawk exited before reading (%v): %s", err, core.Clip(stderr.String(), 300))
			obs.trace = sp.ParseTrace(stdout.String())
			return obs, ""
		case <-time.After(90 * time.Second):
			_ = cmd.Process.Kill()
			<-done
			return obs, "cli-fifo-open-timeout"
		}
		if w == nil {
			_ = cmd.Process.Kill()
			<-done
			return obs, "cli-fifo-open-failed"
		}
	}
	ferr := feedPieces(w, input, cuts)
	w.Close()
	var werr error
	select {
	case werr = <-done:
	case <-time.After(90 * time.Second):
		_ = cmd.Process.Kill()
		<-done
		return obs, "cli-timeout"
	}
	if ferr != nil {
		if strings.Contains(ferr.Error(), "drain") {
			return obs, "cli-feed:" + ferr.Error()
		}
		obs.fail = "writing to goawk failed: " + ferr.Error()
	}
	if werr != nil || stderr.Len() > 0 {
		obs.fail = fmt.Sprintf("goawk: %v %s", werr, core.Clip(stderr.String(), 300))
	}
	obs.trace = sp.ParseTrace(stdout.String())
	obs.reads = append(append([]int{}, cuts...), len(input))
	return obs, ""
}

// ---- judging -----------------------------------------------------------------------------

// c07Judge holds what is fixed for a group of deliveries of one (input, RS, mode).
type c07Judge struct {
	e              *c07Env
	cs             c07Case // Cuts/EOFWithLast are filled per delivery
	input          []byte
	streamIn       []byte // the bytes that arrive through the chunked stream
	rs             string
	kind           sp.Kind
	re, re2        *regexp.Regexp
	ref            *sp.Ref             // nil: no reference defined (RS switches that leave the regex splitter)
	preRecs        int                 // file+stdin: records that come from the file operand
	ip             *interp.Interpreter // shared by the deliveries of the group (see exec)
	nDeliv         int
	nonTrivialDone bool
	whole          c07Obs
	wholeOK        bool
	wholeCls       []string
	wholeExp       bool
}

func (j *c07Judge) caseFor(cuts []int, eofLast bool) c07Case {
	cs := j.cs
	cs.Cuts = cuts
	if cs.Cuts == nil {
		cs.Cuts = []int{}
	}
	cs.EOFWithLast = eofLast
	return cs
}

// numbering checks NR, FNR and the END line against "one per record".
func (j *c07Judge) numbering(t sp.Trace) string {
	for i, r := range t.Recs {
		wantFNR := i + 1
		if j.cs.Mode == "file+stdin" && i >= j.preRecs {
			wantFNR = i + 1 - j.preRecs
		}
		if j.cs.Mode == "file+stdin" && !j.ref.RecDemanded {
			wantFNR = r.FNR // where the file part ends is not pinned (RS="" with CR)
		}
		if r.NR != i+1 || r.FNR != wantFNR {
			return fmt.Sprintf("record %d carries NR=%d FNR=%d, want NR=%d FNR=%d", i+1, r.NR, r.FNR, i+1, wantFNR)
		}
	}
	if !t.HasEnd {
		return "END line missing"
	}
	if t.EndNR != len(t.Recs) {
		return fmt.Sprintf("NR at the end is %d after %d records", t.EndNR, len(t.Recs))
	}
	return ""
}

// equation checks the losslessness equation the property states for this RS kind.
func (j *c07Judge) equation(t sp.Trace) string {
	if j.cs.Mode == "file+stdin" {
		return "" // two streams; the reference covers them separately
	}
	switch {
	case j.kind == sp.KindRegex && (j.cs.SwitchAt == 0 || (j.ref != nil && j.ref.RecDemanded)):
		var b bytes.Buffer
		for _, r := range t.Recs {
			b.WriteString(r.Rec)
			b.WriteString(r.RT)
		}
		if !bytes.Equal(b.Bytes(), j.input) {
			return fmt.Sprintf("concat(record+RT) is %d bytes %s, input is %d bytes %s", b.Len(), core.Q(b.String()), len(j.input), core.Q(string(j.input)))
		}
	case j.kind == sp.KindByte && j.cs.SwitchAt == 0:
		var b bytes.Buffer
		for i, r := range t.Recs {
			if i > 0 {
				b.WriteString(j.rs)
			}
			b.WriteString(r.Rec)
		}
		if !bytes.Equal(b.Bytes(), j.input) && !bytes.Equal(append(b.Bytes(), j.rs...), j.input) {
			return fmt.Sprintf("records joined by RS give %s, input is %s", core.Q(b.String()), core.Q(string(j.input)))
		}
	}
	return ""
}

// explain classifies a deviating trace (records of the chunked stream only).
func (j *c07Judge) explain(o c07Obs, eofLast bool) ([]string, bool) {
	if o.fail != "" || o.trace.Garbled != "" || j.ref == nil {
		return nil, false
	}
	t := o.trace
	if j.cs.Mode == "file+stdin" {
		// the file operand (read in one piece) and the chunked stream are explained separately
		if len(t.Recs) < j.preRecs {
			return nil, false
		}
		filePart := j.input[:j.cs.FilePart]
		ft := sp.Trace{Recs: t.Recs[:j.preRecs]}
		fcls, fok := []string(nil), true
		if len(filePart) > 0 {
			fcls, fok = sp.Explain(filePart, j.rs, j.re, nil, 0, []int{len(filePart)}, false, ft)
		}
		t.Recs = t.Recs[j.preRecs:]
		scls, sok := sp.Explain(j.streamIn, j.rs, j.re, nil, 0, o.reads, eofLast, t)
		return append(fcls, scls...), fok && sok
	}
	return sp.Explain(j.streamIn, j.rs, j.re, j.re2, j.cs.SwitchAt, o.reads, eofLast, t)
}

func c07NewJudge(e *c07Env, cs c07Case) *c07Judge {
	j := &c07Judge{e: e, cs: cs, input: cs.materialize(), rs: string(cs.RS)}
	j.streamIn = j.input
	j.kind = sp.KindOf(j.rs)
	if j.kind == sp.KindRegex {
		j.re = e.re(j.rs)
	}
	switch {
	case cs.SwitchAt > 0:
		// Reference only where the stream keeps its regular-expression splitter and the new RS
		// is again a regular expression or a literal character (not "" and not "\n", whose
		// special meanings cannot take effect mid-stream as built; the property is silent).
		rs2 := string(cs.RS2)
		if j.kind == sp.KindRegex && rs2 != "" {
			if rs2 == "\n" {
				j.re2 = regexp.MustCompile("\n")
			} else {
				j.re2 = e.re(rs2)
			}
			if j.re != nil && j.re2 != nil {
				j.ref = sp.ReferenceSwitch(j.input, j.re, j.re2, cs.SwitchAt)
				if rs2 == "\n" {
					// as built the stream goes on with a literal-newline regular expression (no CR
					// dropping); kept as a model for classification only, nothing is demanded
					j.ref.RecDemanded, j.ref.RTDemanded = false, false
				}
			}
		}
	case cs.Mode == "file+stdin":
		a := sp.Reference(j.input[:cs.FilePart], j.rs, j.re)
		b := sp.Reference(j.input[cs.FilePart:], j.rs, j.re)
		j.preRecs = len(a.Recs)
		j.streamIn = j.input[cs.FilePart:]
		j.ref = &sp.Ref{Kind: a.Kind, RecDemanded: a.RecDemanded && b.RecDemanded, RTDemanded: a.RTDemanded && b.RTDemanded}
		j.ref.Recs = append(append([]sp.RefRec{}, a.Recs...), b.Recs...)
	default:
		j.ref = sp.Reference(j.input, j.rs, j.re)
	}
	return j
}

// exec runs one delivery. fresh=false lets the group's deliveries share one Interpreter
// (Execute resets it; this avoids allocating a VM and a 64 KiB input buffer per run, and
// exercises the documented buffer reuse). The single-read run, every 8th delivery and every
// delivery that disagrees are run on a fresh interpreter, so no verdict rests on reuse.
func (j *c07Judge) exec(cuts []int, eofLast bool, fresh bool) (c07Obs, string) {
	if strings.HasPrefix(j.cs.Mode, "cli-") {
		obs, inc := c07ExecCLI(j.e, &j.cs, j.input, cuts)
		if strings.HasPrefix(inc, "cli-feed") || strings.HasSuffix(inc, "timeout") {
			// a watchdog fired (overloaded machine?): one more try before the case is given up
			j.e.c.Count("cli_watchdog_retries", 1)
			obs, inc = c07ExecCLI(j.e, &j.cs, j.input, cuts)
		}
		return obs, inc
	}
	var ip *interp.Interpreter
	if !fresh {
		if j.ip == nil {
			j.ip, _ = interp.New(j.e.prog(c07Program(&j.cs, "")))
		}
		ip = j.ip
		if ip != nil {
			ip.ResetVars() // Execute keeps globals (and RS, RT) of the previous run otherwise
		}
	}
	return c07Exec(j.e, &j.cs, j.input, cuts, eofLast, ip), ""
}

// runWhole performs the single-read run and judges it against the reference, the equation and
// the numbering rule. It returns false if the group cannot be judged further.
func (j *c07Judge) runWhole() bool {
	c := j.e.c
	cs := j.caseFor(nil, false)
	obs, inc := j.exec(nil, false, true)
	if inc != "" {
		c.Inconclusive(inc)
		return false
	}
	c.Eval(1)
	j.whole = obs
	if obs.fail != "" || obs.trace.Garbled != "" {
		c.Violation("exec-failure", "", fmt.Sprintf("RS=%s mode=%s: the run over the input delivered in one piece did not complete: %s", core.Q(j.rs), cs.Mode, obs),
			"a record trace", obs.String(), cs)
		return false
	}
	j.wholeOK = true
	j.wholeCls, j.wholeExp = nil, true
	if j.ref != nil {
		// any deviation from the model (also in parts the text does not pin) is classified, so
		// that a later chunk-dependence against this run can name the defect behind it
		if j.ref.FirstDiff(obs.trace, j.kind == sp.KindRegex || j.kind == sp.KindPara) != "" {
			j.wholeCls, j.wholeExp = j.explain(obs, false)
		}
		diff := ""
		if j.ref.RecDemanded {
			diff = j.ref.FirstDiff(obs.trace, j.ref.RTDemanded)
		}
		if diff != "" {
			j.violate("reference-split", j.wholeCls, j.wholeExp,
				fmt.Sprintf("RS=%s mode=%s input=%s delivered in one piece (reads end at %v): %s", core.Q(j.rs), cs.Mode, core.Q(string(j.input)), clipInts(obs.reads), diff),
				j.ref.String(), obs.trace.String(), cs)
		} else if len(j.wholeCls) > 0 || !j.wholeExp {
			c.Count("dontcare_single_read_differs_from_model", 1)
		}
	}
	if eq := j.equation(obs.trace); eq != "" {
		c.Violation("lossless-equation", "", fmt.Sprintf("RS=%s mode=%s delivered in one piece: %s", core.Q(j.rs), cs.Mode, eq), string(j.input), obs.trace.String(), cs)
	}
	if nb := j.numbering(obs.trace); nb != "" {
		c.Violation("nr-fnr", "", fmt.Sprintf("RS=%s mode=%s delivered in one piece: %s", core.Q(j.rs), cs.Mode, nb), "", obs.trace.String(), cs)
	}
	c.Count("records_observed", len(obs.trace.Recs))
	return true
}

// violate emits one violation per defect class (so that each known finding is matched on its
// own), or one unclassified violation.
func (j *c07Judge) violate(kind string, classes []string, explained bool, summary, expected, observed string, cs c07Case) {
	if !explained || len(classes) == 0 {
		j.e.c.Violation(kind, "", summary, expected, observed, cs)
		return
	}
	for _, cl := range classes {
		// A known defect produces thousands of witnesses; keep a few per (kind, class) and batch
		// and count the rest, so that they never crowd an unclassified violation out of the
		// runner's per-batch witness list.
		key := kind + "|" + cl
		j.e.c.Count("witnesses:"+key, 1)
		if j.e.emitted[key] < 3 {
			j.e.emitted[key]++
			j.e.c.Violation(kind, cl, summary, expected, observed, cs)
		}
	}
}

// runDelivery runs one delivery and compares it with the single-read run.
func (j *c07Judge) runDelivery(cuts []int, eofLast bool) {
	c := j.e.c
	j.nDeliv++
	fresh := j.nDeliv%8 == 0
	obs, inc := j.exec(cuts, eofLast, fresh)
	if inc != "" {
		c.Inconclusive(inc)
		return
	}
	if !fresh && !(obs.fail == "" && obs.trace.Equal(j.whole.trace)) && !strings.HasPrefix(j.cs.Mode, "cli-") {
		// confirm on a fresh interpreter; a difference that exists only on the reused one is
		// a reuse artefact (property C14), not a statement about record reading
		again, _ := j.exec(cuts, eofLast, true)
		if again.fail != obs.fail || !again.trace.Equal(obs.trace) {
			c.Count("differs_only_on_reused_interpreter", 1)
			c.Note("reused interpreter gave %s, fresh one %s (RS=%q input=%q cuts=%v)", obs, again, j.rs, core.Clip(string(j.input), 80), clipInts(cuts))
		}
		obs = again
	}
	c.Eval(1)
	n := len(j.streamIn)
	if j.ref != nil {
		refForStream := j.ref
		if j.preRecs > 0 {
			// touch statistics over the stdin part only (its offsets are relative to that part)
			refForStream = &sp.Ref{Kind: j.ref.Kind, Recs: j.ref.Recs[j.preRecs:]}
		}
		inside, touching := refForStream.TouchStats(obs.reads, n)
		if touching > 0 {
			c.Count("deliveries_touching_a_separator", 1)
			if !j.nonTrivialDone {
				j.nonTrivialDone = true
				c.NonTrivial(fmt.Sprintf("%s|%s|%q|%d|%q|%s", j.cs.Mode, j.cs.RSVia, j.rs, j.cs.SwitchAt, j.cs.RS2, core.HashKey(string(j.input))))
			}
		}
		if inside > 0 {
			c.Count("deliveries_cutting_inside_a_separator", 1)
			c.Count("cuts_inside_a_separator", inside)
		}
	}
	c.Max("max_reads_in_one_run", int64(len(obs.reads)))
	if obs.fail == "" && obs.trace.Equal(j.whole.trace) {
		return
	}
	cs := j.caseFor(cuts, eofLast)
	cls, exp := j.explain(obs, eofLast)
	all := append(append([]string{}, cls...), j.wholeCls...)
	sort.Strings(all)
	all = uniqStrings(all)
	diff := ""
	if j.ref != nil && j.ref.RecDemanded {
		diff = j.ref.FirstDiff(obs.trace, j.ref.RTDemanded)
		if diff != "" {
			diff = "; against the reference: " + diff
		} else {
			diff = "; this delivery agrees with the reference, the single-read run does not"
		}
	}
	j.violate("chunk-dependence", all, exp && j.wholeExp,
		fmt.Sprintf("RS=%s mode=%s input=%s: records differ between one read and reads ending at %v%s", core.Q(j.rs), cs.Mode, core.Q(string(j.input)), clipInts(obs.reads), diff),
		j.whole.trace.String(), obs.String(), cs)
}

func uniqStrings(l []string) []string {
	var out []string
	for i, s := range l {
		if i == 0 || s != l[i-1] {
			out = append(out, s)
		}
	}
	return out
}

func clipInts(l []int) string {
	if len(l) <= 12 {
		return fmt.Sprint(l)
	}
	return fmt.Sprintf("%v...(%d reads)", l[:12], len(l))
}

// ---- workload ------------------------------------------------------------------------------

// c07Spec is an RS together with the alphabet its small inputs are drawn from and the pieces
// longer inputs are composed of (separator occurrences of several lengths, partial
// separators, fillers).
type c07Spec struct {
	rs       string
	alphabet string
	seps     []string // terminator occurrences (and look-alikes)
	fill     []string
	random   bool // only in the random families (no exhaustive enumeration)
}

var c07Specs = []c07Spec{
	{rs: "\n", alphabet: "a\n\r", seps: []string{"\n", "\r\n", "\r", "\n\n", "\r\r\n"}, fill: []string{"a", "bc", "", "x y"}},
	{rs: ";", alphabet: "a;\n", seps: []string{";", ";;", "\n", ";\n"}, fill: []string{"a", "bc", "", "x y"}},
	{rs: " ", alphabet: "a \n", seps: []string{" ", "  ", "\n", "\t"}, fill: []string{"a", "bc", ""}},
	{rs: "a", alphabet: "ab", seps: []string{"a", "aa", "A"}, fill: []string{"b", "bc", ""}},
	{rs: "\x00", alphabet: "a\x00", seps: []string{"\x00", "\x00\x00"}, fill: []string{"a", "bc", ""}},
	{rs: ".", alphabet: "a.\n", seps: []string{".", "..", "x"}, fill: []string{"a", "bc", ""}},
	{rs: "\\", alphabet: "a\\", seps: []string{"\\", "\\\\"}, fill: []string{"a", "n", ""}},
	{rs: "", alphabet: "a\n", seps: []string{"\n", "\n\n", "\n\n\n", "\n\n\n\n"}, fill: []string{"a", "bc", "a\nb"}},
	{rs: "", alphabet: "a\n\r", seps: []string{"\n", "\n\n", "\r\n", "\r\n\r\n", "\n\r\n", "\r", "\n\n\r\n"}, fill: []string{"a", "bc", "a\nb"}},
	{rs: "é", alphabet: "\xc3\xa9a", seps: []string{"é", "éé", "\xc3", "\xa9", "\xc3\xc3\xa9"}, fill: []string{"a", "bc", "", "è"}},
	{rs: "€", alphabet: "\xe2\x82\xaca", seps: []string{"€", "€€", "\xe2\x82", "\xe2", "\x82\xac"}, fill: []string{"a", "bc", ""}},
	{rs: "a+", alphabet: "ax", seps: []string{"a", "aa", "aaa", "aaaaa"}, fill: []string{"x", "xy", ""}},
	{rs: "ab|a", alphabet: "abx", seps: []string{"a", "ab", "aab", "b"}, fill: []string{"x", "xy", ""}},
	{rs: "a|abc", alphabet: "abcx", seps: []string{"a", "abc", "ab", "aabc"}, fill: []string{"x", "xy", ""}},
	// a short alternative inside a longer one that starts earlier: a deferred match of the short one
	// must not hide the long one once its bytes arrive
	{rs: "abc|b", alphabet: "abcx", seps: []string{"abc", "b", "ab", "bc", "abcb", "a", "abb"}, fill: []string{"x", "xy", ""}},
	{rs: "-\n-|\n", alphabet: "-\nx", seps: []string{"-\n-", "\n", "-\n", "-", "\n-", "-\n-\n"}, fill: []string{"x", "xy", ""}},
	{rs: "xyz|y|zz", alphabet: "xyzw", seps: []string{"xyz", "y", "xy", "zz", "yz", "xyzz"}, fill: []string{"w", "ww", ""}},
	{rs: "\n\n+", alphabet: "\nx", seps: []string{"\n", "\n\n", "\n\n\n", "\n\n\n\n\n"}, fill: []string{"x", "xy", ""}},
	{rs: "[0-9]+", alphabet: "12x", seps: []string{"1", "12", "2021", "0"}, fill: []string{"x", "xy", ""}},
	{rs: "x*y", alphabet: "xyz", seps: []string{"y", "xy", "xxy", "x", "xx"}, fill: []string{"z", "zw", ""}},
	{rs: "(ab)+", alphabet: "abx", seps: []string{"ab", "abab", "ababab", "a", "aba", "b"}, fill: []string{"x", "xy", ""}},
	{rs: "\r?\n", alphabet: "\r\nx", seps: []string{"\n", "\r\n", "\r", "\r\r\n", "\n\r"}, fill: []string{"x", "xy", ""}},
	{rs: "ab", alphabet: "abx", seps: []string{"ab", "abab", "a", "b", "aab"}, fill: []string{"x", "xy", ""}},
	{rs: "a{2,3}", alphabet: "ax", seps: []string{"a", "aa", "aaa", "aaaa", "aaaaa"}, fill: []string{"x", "xy", ""}},
	{rs: "a.c", seps: []string{"abc", "a\nc", "ab", "a", "aac", "abcc"}, fill: []string{"x", "c", ""}, random: true},
	{rs: ";|,|\n", seps: []string{";", ",", "\n", ";,", "\n\n"}, fill: []string{"x", "xy", ""}, random: true},
	{rs: "[ab]+c?", seps: []string{"a", "b", "abba", "ac", "abc", "c"}, fill: []string{"x", "xy", ""}, random: true},
	{rs: "(x|xy)z?", seps: []string{"x", "xy", "xz", "xyz", "y", "z"}, fill: []string{"w", "ww", ""}, random: true},
	{rs: "<[^>]*>", seps: []string{"<>", "<a>", "<ab>", "<", "<a", ">"}, fill: []string{"x", "xy", ""}, random: true},
	{rs: "--+\n", seps: []string{"--\n", "---\n", "-\n", "--", "-----\n"}, fill: []string{"x", "x\ny", ""}, random: true},
	// single bytes >= 0x80: skipped by the probe while setting them panics (C02 finding)
	{rs: "\xff", alphabet: "a\xff", seps: []string{"\xff", "\xff\xff"}, fill: []string{"a", "bc", ""}},
	{rs: "\xe9", alphabet: "a\xe9\xc3", seps: []string{"\xe9", "\xc3\xa9", "\xe9\xe9"}, fill: []string{"a", "bc", ""}},
	{rs: "\x80", alphabet: "a\x80", seps: []string{"\x80", "\xc2\x80"}, fill: []string{"a", "bc", ""}},
}

// c07Compose builds an input of about target bytes from the spec's pieces.
func c07Compose(rng *rand.Rand, s *c07Spec, target int) []byte {
	var b []byte
	for len(b) < target {
		switch r := rng.Intn(10); {
		case r < 5:
			b = append(b, s.seps[rng.Intn(len(s.seps))]...)
		case r < 9:
			b = append(b, s.fill[rng.Intn(len(s.fill))]...)
		default:
			// a long separator run
			sep := s.seps[rng.Intn(len(s.seps))]
			for k := rng.Intn(4); k >= 0; k-- {
				b = append(b, sep...)
			}
		}
	}
	return b
}

// nthString returns the idx-th string of length n over the alphabet.
func nthString(alphabet string, n, idx int) []byte {
	b := make([]byte, n)
	k := len(alphabet)
	for i := n - 1; i >= 0; i-- {
		b[i] = alphabet[idx%k]
		idx /= k
	}
	return b
}

func ipow(b, e int) int {
	r := 1
	for ; e > 0; e-- {
		r *= b
	}
	return r
}

var c07Modes = []string{"getline", "getline-var", "getline-file"}

// c07ExhaustiveLen is the length up to which ALL strings over an alphabet are enumerated
// with ALL partitions.
func c07ExhaustiveLen(t core.Tier, k int) int {
	if t == core.Thorough {
		switch {
		case k <= 2:
			return 10
		case k == 3:
			return 8
		default:
			return 6
		}
	}
	switch {
	case k <= 2:
		return 8
	case k == 3:
		return 6
	default:
		return 5
	}
}

func c07Tier(t core.Tier, q, th int) int {
	if t == core.Thorough {
		return th
	}
	return q
}

// c07AllPartitions runs every partition of the judge's input.
func c07AllPartitions(j *c07Judge, salt int) {
	n := len(j.streamIn)
	if n < 2 {
		return
	}
	total := uint64(1) << uint(n-1)
	for mask := uint64(1); mask < total; mask++ {
		eofLast := (int(mask)+salt)%4 == 3
		j.runDelivery(sp.CutsFromMask(mask, n), eofLast)
	}
	j.e.c.Count("inputs_with_all_partitions", 1)
	j.e.c.Max("max_len_all_partitions", int64(n))
}

// c07SplitsAndBytes runs every single split point, the 1-byte delivery and some fixed sizes.
func c07SplitsAndBytes(j *c07Judge, rng *rand.Rand, randomN int) {
	n := len(j.streamIn)
	for p := 1; p < n; p++ {
		j.runDelivery([]int{p}, p%5 == 0)
	}
	for _, size := range []int{1, 2, 3, 7, 64} {
		if size >= n {
			continue
		}
		var cuts []int
		for p := size; p < n; p += size {
			cuts = append(cuts, p)
		}
		j.runDelivery(cuts, size == 2)
		if size == 1 {
			j.e.c.Count("one_byte_deliveries", 1)
		}
	}
	for i := 0; i < randomN && n > 2; i++ {
		j.runDelivery(c07RandomCuts(rng, n), rng.Intn(4) == 0)
	}
	j.e.c.Count("inputs_with_every_single_split", 1)
	j.e.c.Max("max_len_every_single_split", int64(n))
}

func c07RandomCuts(rng *rand.Rand, n int) []int {
	density := []int{2, 3, 5, 10, 30}[rng.Intn(5)]
	var cuts []int
	for p := 1; p < n; p++ {
		if rng.Intn(density) == 0 {
			cuts = append(cuts, p)
		}
	}
	if len(cuts) == 0 {
		cuts = []int{1 + rng.Intn(n-1)}
	}
	return cuts
}

// c07Group judges one (input, RS, mode) with the given deliveries.
func c07Group(e *c07Env, cs c07Case, deliveries func(j *c07Judge)) {
	c := e.c
	if !e.rsUsable(string(cs.RS), cs.RSVia) {
		return
	}
	if cs.SwitchAt > 0 && !e.rsUsable(string(cs.RS2), "begin") {
		return
	}
	c.Begin(cs)
	j := c07NewJudge(e, cs)
	c.Cover("families", cs.Fam)
	c.Cover("modes", cs.Mode)
	c.Cover("rs_kinds", j.kind.String())
	c.Cover("rs_values", fmt.Sprintf("%q", j.rs))
	c.Cover("rs_via", cs.RSVia)
	c.Count("groups_"+cs.Fam, 1)
	if !j.runWhole() {
		return
	}
	deliveries(j)
	if c.WantSample() && len(j.input) > 3 && len(j.input) < 200 && len(j.whole.trace.Recs) > 1 {
		c.Sample(map[string]any{"family": cs.Fam, "mode": cs.Mode, "rs": j.rs, "rs_via": cs.RSVia, "input": string(j.input),
			"program": c07Program(&cs, ""), "single_read_trace": j.whole.trace.String(), "reference": fmt.Sprint(j.ref),
			"compared": "trace of every delivery == single-read trace; single-read trace == reference split; losslessness equation; NR/FNR"})
	}
}

func c07Run(c *core.Ctx) {
	e := newC07Env(c)
	rng := c.Rand("gen")
	gidx := 0 // global group index: the same sequence in every batch, partitioned by Mine
	mine := func() bool {
		gidx++
		return c.Mine(gidx - 1)
	}
	via := func(i int) string {
		if i%5 == 0 {
			return "begin"
		}
		return "vars"
	}

	// F1a: all strings over the RS's alphabet up to a length, all partitions.
	for si := range c07Specs {
		s := &c07Specs[si]
		if s.random {
			continue
		}
		k := len(s.alphabet)
		maxLen := c07ExhaustiveLen(c.Tier, k)
		for n := 0; n <= maxLen; n++ {
			cnt := ipow(k, n)
			for idx := 0; idx < cnt; idx++ {
				if !mine() {
					continue
				}
				in := nthString(s.alphabet, n, idx)
				cs := c07Case{Fam: "exhaustive-small", Mode: "main", RS: []byte(s.rs), RSVia: via(gidx), Input: in}
				c07Group(e, cs, func(j *c07Judge) { c07AllPartitions(j, idx) })
				if gidx%3 == 0 {
					cs.Mode = c07Modes[(gidx/3)%3]
					c07Group(e, cs, func(j *c07Judge) { c07AllPartitions(j, idx) })
				}
			}
		}
	}

	// F1b: composed inputs of 9..12 bytes (separator runs, separators at start/end, partial
	// separator at the end), all partitions.
	grng := c.RandGlobal("compose12")
	per12 := c07Tier(c.Tier, 3, 60)
	for si := range c07Specs {
		s := &c07Specs[si]
		for i := 0; i < per12; i++ {
			in := c07Compose(grng, s, 9+grng.Intn(4))
			if len(in) > 12 {
				in = in[:12]
			}
			if !mine() {
				continue
			}
			mode := "main"
			if i%3 == 2 {
				mode = c07Modes[(i/3)%3]
			}
			cs := c07Case{Fam: "all-partitions-12", Mode: mode, RS: []byte(s.rs), RSVia: via(gidx), Input: in}
			c07Group(e, cs, func(j *c07Judge) { c07AllPartitions(j, i) })
		}
	}

	// F2: longer inputs, every single split point, 1-byte delivery, fixed sizes, random cuts.
	lrng := c.RandGlobal("long")
	perLong := c07Tier(c.Tier, 2, 8)
	for si := range c07Specs {
		s := &c07Specs[si]
		for i := 0; i < perLong; i++ {
			target := []int{40, 300, 700, 1500, 2500, 4000, 120, 900}[i%8]
			if c.Tier == core.Quick {
				target = []int{60, 400}[i%2]
			}
			in := c07Compose(lrng, s, target)
			if !mine() {
				continue
			}
			mode := "main"
			if i%2 == 1 {
				mode = c07Modes[(si+i/2)%3]
			}
			cs := c07Case{Fam: "long-single-splits", Mode: mode, RS: []byte(s.rs), RSVia: via(gidx), Input: in}
			c07Group(e, cs, func(j *c07Judge) { c07SplitsAndBytes(j, rng, 20) })
		}
	}

	// F3: the scanner's 64 KiB buffer edge (and the 128 KiB edge after one growth).
	c07EdgeFamily(e, mine, via, rng)

	// F4: RS assigned mid-stream.
	c07SwitchFamily(e, mine, rng)

	// F5: a file operand followed by chunked standard input (FNR restarts, NR continues, no
	// record spans the two).
	frng := c.RandGlobal("file+stdin")
	perFile := c07Tier(c.Tier, 1, 6)
	for si := range c07Specs {
		s := &c07Specs[si]
		for i := 0; i < perFile; i++ {
			in := c07Compose(frng, s, 12+frng.Intn(30))
			part := frng.Intn(len(in) + 1)
			if !mine() {
				continue
			}
			cs := c07Case{Fam: "file+stdin", Mode: "file+stdin", RS: []byte(s.rs), RSVia: via(gidx), Input: in, FilePart: part}
			c07Group(e, cs, func(j *c07Judge) { c07SplitsAndBytes(j, rng, 10) })
		}
	}

	// F6: the goawk binary fed through a pipe / FIFO in pieces.
	crng := c.RandGlobal("cli")
	perCLI := c07Tier(c.Tier, 1, 8)
	cliModes := []string{"cli-stdin", "cli-fifo-arg", "cli-fifo-getline"}
	for si := range c07Specs {
		s := &c07Specs[si]
		if strings.IndexByte(s.rs, 0) >= 0 {
			continue
		}
		for i := 0; i < perCLI; i++ {
			in := c07Compose(crng, s, 8+crng.Intn(24))
			if !mine() {
				continue
			}
			cs := c07Case{Fam: "cli-pipe", Mode: cliModes[(si+i)%3], RS: []byte(s.rs), RSVia: "begin", Input: in}
			c07Group(e, cs, func(j *c07Judge) {
				n := len(j.input)
				var all []int
				for p := 1; p < n; p++ {
					all = append(all, p)
				}
				j.runDelivery(all, false)
				for k := 0; k < c07Tier(c.Tier, 4, 8); k++ {
					j.runDelivery(c07RandomCuts(rng, n), false)
				}
				c.Count("cli_groups", 1)
			})
		}
	}

	// F7: random inputs of 13..64 bytes with random deliveries.
	total := c07Tier(c.Tier, 6000, 240000) / c.NBatches
	for i := 0; i < total; i++ {
		s := &c07Specs[rng.Intn(len(c07Specs))]
		in := c07Compose(rng, s, 13+rng.Intn(52))
		mode := "main"
		if rng.Intn(3) == 0 {
			mode = c07Modes[rng.Intn(3)]
		}
		v := "vars"
		if rng.Intn(5) == 0 {
			v = "begin"
		}
		cs := c07Case{Fam: "random", Mode: mode, RS: []byte(s.rs), RSVia: v, Input: in}
		c07Group(e, cs, func(j *c07Judge) {
			n := len(j.input)
			for k := 0; k < 24 && n > 2; k++ {
				j.runDelivery(c07RandomCuts(rng, n), rng.Intn(4) == 0)
			}
		})
	}
}

// c07EdgeFamily places separator occurrences across the 65 536-byte edge of the scanner's
// buffer (and the 131 072-byte edge reached after one growth) and delivers the input whole,
// split at/around the edge and in blocks.
func c07EdgeFamily(e *c07Env, mine func() bool, via func(int) string, rng *rand.Rand) {
	c := e.c
	const edge = 65536
	for si := range c07Specs {
		s := &c07Specs[si]
		straddlers := append([]string{}, s.seps...)
		if c.Tier == core.Quick && len(straddlers) > 2 {
			straddlers = straddlers[:2]
		}
		// the longest separator run is the most interesting straddler
		straddlers = append(straddlers, strings.Repeat(s.seps[0], 6))
		for sti, st := range straddlers {
			for _, big := range []bool{false, true} {
				if big && (c.Tier == core.Quick && sti != len(straddlers)-1) {
					continue
				}
				for k := -1; k <= len(st)+1; k++ {
					if !mine() {
						continue
					}
					// prefix of (edge-k) bytes: either short records or one long record
					at := edge - k
					if big {
						at = 2*edge - k
					}
					unit := []byte("z") // one record as long as the buffer
					if !big && (sti+k+si)%4 == 0 {
						unit = []byte("zzzzzzz" + s.seps[0]) // thousands of short records
					}
					count := (at - 3) / len(unit)
					pad := bytes.Repeat([]byte("q"), at-count*len(unit))
					tail := c07Compose(rng, s, 6)
					in := append(append(append([]byte{}, pad...), st...), tail...)
					cs := c07Case{Fam: "buffer-edge", Mode: "main", RS: []byte(s.rs), RSVia: via(k + 7), Input: in,
						FillUnit: unit, FillCount: count, FillAt: 0}
					if (sti+k)%4 == 1 {
						cs.Mode = c07Modes[(sti+k+8)%3]
					}
					c07Group(e, cs, func(j *c07Judge) {
						n := len(j.input)
						dels := [][]int{{edge}, {at}, {at + 1}, {edge - 1, edge + 1}}
						var blocks []int
						for p := 4096; p < n; p += 4096 {
							blocks = append(blocks, p)
						}
						dels = append(dels, blocks)
						var odd []int
						for p := 65535; p < n; p += 65535 {
							odd = append(odd, p)
						}
						dels = append(dels, odd)
						for di, d := range dels {
							var cuts []int
							for _, p := range d {
								if p > 0 && p < n {
									cuts = append(cuts, p)
								}
							}
							if len(cuts) > 0 {
								j.runDelivery(cuts, di == 1)
							}
						}
						c.Count("buffer_edge_cases", 1)
						if j.ref != nil {
							inside, touching := j.ref.TouchStats([]int{edge}, n)
							if big {
								inside, touching = j.ref.TouchStats([]int{2 * edge}, n)
							}
							if touching > 0 {
								c.Count("buffer_edge_touching_a_separator", 1)
							}
							if inside > 0 {
								c.Count("buffer_edge_inside_a_separator", 1)
							}
						}
					})
				}
			}
		}
	}
}

// c07SwitchFamily: the program assigns RS while it processes record k.
func c07SwitchFamily(e *c07Env, mine func() bool, rng *rand.Rand) {
	c := e.c
	type sw struct {
		rs1, rs2 string
		pieces   c07Spec
	}
	sws := []sw{
		{"a+", "b+", c07Spec{seps: []string{"a", "aa", "b", "bb", "ab", "bbb"}, fill: []string{"x", "xy", ""}}},
		{"a+", ";", c07Spec{seps: []string{"a", "aa", ";", ";;", "a;"}, fill: []string{"x", "xy", ""}}},
		{"ab|a", "é", c07Spec{seps: []string{"a", "ab", "é", "\xc3", "éé"}, fill: []string{"x", "xy", ""}}},
		{"x*y", "[0-9]+", c07Spec{seps: []string{"y", "xxy", "1", "12", "x"}, fill: []string{"z", "zw", ""}}},
		{"é", "a+", c07Spec{seps: []string{"é", "a", "aa", "\xc3"}, fill: []string{"x", "xy", ""}}},
		// the stream keeps its first splitter (as built); only delivery-independence is judged
		{"\n", "x+", c07Spec{seps: []string{"\n", "x", "xx", "\r\n"}, fill: []string{"a", "bc", ""}}},
		{";", "a+", c07Spec{seps: []string{";", "a", "aa"}, fill: []string{"x", "xy", ""}}},
		{";", ",", c07Spec{seps: []string{";", ",", ";,"}, fill: []string{"x", "xy", ""}}},
		{"a+", "\n", c07Spec{seps: []string{"a", "aa", "\n", "\r\n"}, fill: []string{"x", "xy", ""}}},
	}
	grng := c.RandGlobal("switch")
	per := c07Tier(c.Tier, 3, 40)
	for wi, w := range sws {
		for i := 0; i < per; i++ {
			target := 6 + grng.Intn(5)
			long := i%4 == 3
			if long {
				target = 40 + grng.Intn(200)
			}
			in := c07Compose(grng, &w.pieces, target)
			if !long && len(in) > 11 {
				in = in[:11]
			}
			k := 1 + grng.Intn(3)
			if !mine() {
				continue
			}
			mode := "main"
			if (wi+i)%4 == 0 {
				mode = c07Modes[i%3]
			}
			cs := c07Case{Fam: "rs-switch", Mode: mode, RS: []byte(w.rs1), RSVia: "vars", RS2: []byte(w.rs2), SwitchAt: k, Input: in}
			c07Group(e, cs, func(j *c07Judge) {
				if long {
					c07SplitsAndBytes(j, rng, 10)
				} else {
					c07AllPartitions(j, i)
				}
				if j.ref != nil {
					c.Count("rs_switch_with_reference", 1)
				} else {
					c.Count("rs_switch_metamorphic_only", 1)
				}
			})
		}
	}
}

// ---- replay -------------------------------------------------------------------------------

func c07Replay(c *core.Ctx, raw json.RawMessage) {
	var cs c07Case
	if err := json.Unmarshal(raw, &cs); err != nil {
		fmt.Println("cannot decode case:", err)
		return
	}
	e := newC07Env(c)
	if !e.rsUsable(string(cs.RS), cs.RSVia) {
		fmt.Printf("RS %q cannot be set via %s on this tree (probe failed)\n", cs.RS, cs.RSVia)
		return
	}
	j := c07NewJudge(e, cs)
	fmt.Printf("mode=%s RS=%q via=%s input(%d bytes)=%s cuts=%v eof_with_last=%v\nprogram:\n%s", cs.Mode, cs.RS, cs.RSVia, len(j.input), core.Q(string(j.input)),
		clipInts(cs.Cuts), cs.EOFWithLast, c07Program(&cs, "<fifo>"))
	if j.ref != nil {
		fmt.Printf("reference (records demanded=%v, RT demanded=%v): %s\n", j.ref.RecDemanded, j.ref.RTDemanded, j.ref)
	} else {
		fmt.Println("reference: none (delivery-independence only)")
	}
	if !j.runWhole() {
		fmt.Printf("single read: %s\n", j.whole)
		return
	}
	fmt.Printf("single read (reads end at %s): %s\n", clipInts(j.whole.reads), j.whole)
	if len(cs.Cuts) > 0 || cs.EOFWithLast {
		obs, inc := j.exec(cs.Cuts, cs.EOFWithLast, true)
		if inc == "" {
			fmt.Printf("this delivery (reads end at %s): %s\n", clipInts(obs.reads), obs)
		}
		j.runDelivery(cs.Cuts, cs.EOFWithLast)
	} else if !strings.HasPrefix(cs.Mode, "cli-") {
		// a group-level case (recorded before its deliveries ran, e.g. for a process-fatal
		// crash): re-run the systematic deliveries of the group
		if len(j.streamIn) <= 12 {
			c07AllPartitions(j, 0)
		} else {
			c07SplitsAndBytes(j, c.Rand("replay"), 20)
		}
	}
}

func init() {
	core.Register(&core.Property{
		ID:    "C07",
		Level: "exploration",
		Rule: "groups (input, RS, program mode) from seven families: all strings over a per-RS alphabet up to a length with ALL partitions; composed 9..12-byte inputs with ALL partitions; " +
			"longer inputs (to 4 KiB) with every single split point, 1-byte delivery and block sizes; inputs placing a separator occurrence across the 64 KiB / 128 KiB scanner buffer edge; " +
			"RS assigned mid-stream; file operand followed by chunked stdin; the goawk binary fed through a pipe/FIFO in pieces; random inputs and partitions. Every delivery is one evaluation. " +
			"non-trivial = distinct group (mode, RS and how it is set, input) with at least one delivery in which a read ends at the start of, inside, or at the end of a separator occurrence of the reference split " +
			"(the deliveries themselves are counted in counters.deliveries_touching_a_separator / deliveries_cutting_inside_a_separator; within a group they are distinct by construction)",
		Explanation: "exhaustive sub-spaces: every partition of every string over each RS's alphabet up to the length in maxima.max_len_all_partitions (quick: 8/6/5 for alphabets of 2/3/4 letters; thorough: 10/8/6), " +
			"and every partition of the composed inputs of up to 12 bytes; everything else is sampled",
		Assumptions: []string{
			"RT is pinned by the property only for regular-expression RS (record+RT reproduces the input) and RS=\"\" (the newline run that ended the paragraph); for RS=\"\\n\" and one-byte RS only delivery-independence of RT is checked",
			"RS=\"\" on inputs containing CR: only delivery-independence is demanded (the text is silent on CR in paragraph mode)",
			"regular expressions that can match the empty string, anchors and word boundaries in RS are outside the workload (don't-care)",
			"a single byte >= 0x80 as RS is used only if setting it does not panic (C02 finding); zero-byte reads are never delivered",
			"mid-stream RS assignment has a reference only while the stream keeps a regular-expression splitter and the new RS is a regex or a literal character; other transitions are judged for delivery-independence only",
			"the CLI pipe/FIFO feeder waits until the reader has drained the pipe before each write (FIONREAD handshake), so each read(2) returns exactly one piece",
		},
		Exhaustive: func(t core.Tier) bool { return true },
		NBatches:   func(t core.Tier) int { return c07Tier(t, 32, 128) },
		Floors: func(t core.Tier) map[string]int {
			return map[string]int{
				"evaluations":                           c07Tier(t, 300000, 10000000),
				"distinct_nontrivial":                   c07Tier(t, 15000, 300000),
				"deliveries_cutting_inside_a_separator": c07Tier(t, 50000, 1000000),
				"deliveries_touching_a_separator":       c07Tier(t, 150000, 5000000),
				"buffer_edge_cases":                     c07Tier(t, 300, 1000),
				"buffer_edge_inside_a_separator":        c07Tier(t, 50, 200),
				"inputs_with_all_partitions":            c07Tier(t, 5000, 100000),
				"inputs_with_every_single_split":        c07Tier(t, 60, 300),
				"one_byte_deliveries":                   c07Tier(t, 60, 300),
				"rs_switch_with_reference":              c07Tier(t, 10, 150),
				"cli_groups":                            c07Tier(t, 15, 150),
				"rs_kinds":                              4,
				"modes":                                 8,
				"families":                              8,
				"rs_values":                             22,
			}
		},
		Run:    c07Run,
		Replay: c07Replay,
	})
}
