package props

// C11 — input bookkeeping: NR, FNR, FILENAME, operands, getline, ranges, next, exit.
//
// Monitor: bookkeeping programs assembled from rule templates (each printing a trace of NR, FNR,
// FILENAME, NF, $0 and selected variables) over multi-file operand lists are run on the VM and
// on the reference evaluator, whose operand walk, getline forms, range rule and exit rule are
// written from the property text.

import (
	"encoding/json"
	"fmt"
	"math/rand"
	"strings"
	"syscall"

	"verifharness/core"
	"verifharness/diffrun"
	"verifharness/run"
)

var c11Trace = `print "T", NR, FNR, FILENAME, NF, "[" $0 "]", v, w`

var c11RuleBodies = []string{
	"%T",
	"%T; next; print \"unreachable\"",
	"if (FNR == 2) nextfile; %T",
	"if (NR == %K) exit %K; %T",
	"if (NR == %K) exit; %T",
	"r = getline; print \"g\", r; %T",
	"r = getline line; print \"gv\", r, line; %T",
	"r = (getline < \"in1\"); print \"gf\", r; %T",
	"r = (getline line < \"in1\"); print \"gfv\", r, line; %T",
	"r = (getline line < \"nofile\"); print \"gfm\", r, \"[\" line \"]\"; %T",
	"r = (\"lines:c:2\" | getline); print \"gc\", r; %T",
	"r = (\"lines:c:2\" | getline line); print \"gcv\", r, line; %T",
	"r = getline $2; print \"g2\", r; %T",
	"r = getline arr[NR]; print \"ga\", r, arr[NR - 1], arr[NR]; %T",
	"while ((getline line) > 0 && ++n < %K) print \"loop\", line, NR, FNR; %T",
	// a getline that reads nothing (end of input, empty file, silent command) leaves its target alone
	"arr[\"keep\"] = \"kept\"; r = (getline arr[\"keep\"] < \"in2\"); print \"gak\", r, arr[\"keep\"], length(arr); %T",
	"r = (getline fresh[NR] < \"in2\"); print \"gae\", r, length(fresh), (NR in fresh); %T",
	"kv = \"kept\"; r = (getline kv < \"in2\"); $3 = \"f3\"; r2 = (getline $3 < \"in2\"); print \"gkv\", r, r2, kv, $3, NF; %T",
	"r = (\"lines:c:0\" | getline carr[1]); print \"gca\", r, length(carr), (1 in carr); close(\"lines:c:0\"); %T",
	"if (FNR == 1) { ns = 0; delete S; while ((getline S[++ns] < \"in1\") > 0) ; close(\"in1\"); print \"slurp\", ns, length(S), (ns in S) }; %T",
	"skip(); %T",
	"x = \"a\" skipif(%K) \"b\"; print x; %T",
	"y = 1 + quitif(%K); %T",
	"nf(); %T",
	"c++; %T",
	"if (NR %% 2) next; %T",
	"close(\"in1\"); %T",
	"NR = NR + 10; %T",
	"FNR = 0; %T",
	"$0 = \"reset \" NR; %T",
	"NF = 1; %T",
	"FILENAME = \"changed\"; %T",
	"if (FNR == 1) { print \"first of\", FILENAME; if ((getline tmp) > 0) print \"ate\", tmp }; %T",
	"for (i = 0; i < 2; i++) if ((getline line) <= 0) break; print \"for\", i, line; %T",
}

var c11Patterns = []string{
	"", "", "", "NR == %K", "FNR == %K", "FNR == 1", "/%W/", "!/%W/", "$1 == \"%W\"", "NF > %K", "NR > 1 && FNR < 3", "FILENAME == \"in1\"", "v", "NR %% 2",
	"NR == %K, NR == %K", "FNR == %K, FNR == %K", "/%W/, /%W/", "/%W/, FNR == %K", "NR == %K, /%W/", "FNR == 1, FNR == 1", "/%W/, /nomatch/", "$1 ~ /%W/, $NF ~ /%W/", "(c++ %% 3) == 0, c > %K",
	"NR == %K, (getline line) > 0", "v == 1, v == 2", "1, 0", "0, 1", "NR >= %K, NR >= %K", "NF == 0", "NF, !NF",
}

var c11Begin = []string{
	"", "", "", "ARGV[1] = \"in1\"", "ARGV[2] = \"\"", "ARGC = 2", "ARGC = 1", "ARGV[ARGC++] = \"in2\"", "ARGV[ARGC] = \"in0\"; ARGC++", "delete ARGV[1]", "ARGV[1] = \"v=7\"",
	"if ((getline line) > 0) print \"B\", line, NR, FNR, FILENAME", "getline; print \"B0\", $0, NR, NF", "while ((getline line < \"in0\") > 0) nb++; print \"B\", nb, NR",
	"v = 5", "FS = \",\"", "exit", "exit 3", "print \"B\", NR, NF, \"[\" $0 \"]\", FILENAME", "nf()", "x = ARGV[1]; ARGV[1] = ARGV[2]; ARGV[2] = x", "for (i = 1; i < ARGC; i++) print \"A\", i, ARGV[i]",
	"ARGV[1] = \"-\"", "ARGC = 10", "ARGV[3] = \"in3\"; if (ARGC < 4) ARGC = 4",
}

var c11End = []string{
	"print \"E\", NR, FNR, FILENAME, NF, \"[\" $0 \"]\", $1, v, w, c",
	"print \"E\", NR, NF, $0; r = getline; print \"Eg\", r, NR, $0",
	"print \"E\", NR; exit",
	"print \"E\", $0; exit 4",
	"print \"E\", NF; $0 = \"a b c\"; print NF, $2",
	"print \"E\"; while ((getline line < \"in1\") > 0) n1++; print n1, NR, FNR",
	"if (NR > 2) exit 5; print \"E\", NR",
	"print \"E\", NR, FNR, FILENAME; nf()",
	"last[1] = \"saved\"; r = getline last[1]; r2 = getline lv; print \"E\", r, r2, last[1], length(last), \"[\" lv \"]\"",
	"while ((getline EA[++ne] < \"in1\") > 0) ; print \"E\", ne, length(EA), (ne in EA); r = getline EA[\"end\"]; print r, (\"end\" in EA)",
	"",
}

const c11Funcs = `function skip() { if (FNR == 2) next; return 1 }
function skipif(k) { if (NR == k) next; return NR }
function quitif(k) { if (NR == k) exit k; return 0 }
function nf() { if (FNR == 3) nextfile; w++ }
`

var c11Words = []string{"a", "b", "foo", "x", "1", "2", "zz", "ab", "beta", "7"}

func c11Fill(rng *rand.Rand, t string) string {
	for strings.Contains(t, "%K") {
		t = strings.Replace(t, "%K", fmt.Sprint(1+rng.Intn(5)), 1)
	}
	for strings.Contains(t, "%W") {
		t = strings.Replace(t, "%W", c11Words[rng.Intn(len(c11Words))], 1)
	}
	t = strings.ReplaceAll(t, "%T", c11Trace)
	return strings.ReplaceAll(t, "%%", "%")
}

func c11Input(rng *rand.Rand, n int, finalNewline bool) string {
	var sb strings.Builder
	for i := 0; i < n; i++ {
		nf := rng.Intn(4)
		for j := 0; j < nf; j++ {
			if j > 0 {
				sb.WriteString(" ")
			}
			sb.WriteString(c11Words[rng.Intn(len(c11Words))])
		}
		if i < n-1 || finalNewline {
			sb.WriteString("\n")
		}
	}
	return sb.String()
}

func c11Generate(seed int64) genCase {
	rng := rand.New(rand.NewSource(seed))
	var sb strings.Builder
	sb.WriteString(c11Funcs)
	usesCmd := false
	if b := c11Begin[rng.Intn(len(c11Begin))]; b != "" {
		sb.WriteString("BEGIN { " + c11Fill(rng, b) + " }\n")
		if rng.Intn(6) == 0 {
			sb.WriteString("BEGIN { " + c11Fill(rng, c11Begin[rng.Intn(len(c11Begin))]) + " }\n")
		}
	}
	nr := 1 + rng.Intn(3)
	for i := 0; i < nr; i++ {
		pat := c11Fill(rng, c11Patterns[rng.Intn(len(c11Patterns))])
		body := c11Fill(rng, c11RuleBodies[rng.Intn(len(c11RuleBodies))])
		if rng.Intn(12) == 0 && pat != "" {
			sb.WriteString(pat + "\n")
			continue
		}
		if pat != "" {
			pat += " "
		}
		sb.WriteString(pat + "{ " + body + " }\n")
	}
	if e := c11End[rng.Intn(len(c11End))]; e != "" {
		sb.WriteString("END { " + c11Fill(rng, e) + " }\n")
	}
	src := sb.String()
	usesCmd = strings.Contains(src, "lines:c")
	if usesCmd {
		// standard input shared with a command is outside the fragment (os/exec drains a non-file
		// Stdin into the child): no "-" operand through ARGV either
		src = strings.ReplaceAll(src, `ARGV[1] = "-"`, `ARGV[1] = "in1"`)
	}
	cs := genCase{Family: "bookkeeping", Src: src}
	cs.Env.Files = map[string]string{
		"in0": c11Input(rng, rng.Intn(6), true),
		"in1": c11Input(rng, 1+rng.Intn(4), true),
		"in2": "",
		"in3": c11Input(rng, 1+rng.Intn(3), false),
	}
	ops := []string{"in0", "in1", "in2", "in3", "in0", "-", "", "v=1", "v=2", "FS=,", "w=x y", "nofile", "in1", "c=10"}
	n := rng.Intn(6)
	for i := 0; i < n; i++ {
		op := ops[rng.Intn(len(ops))]
		if (op == "nofile" && rng.Intn(4) > 0) || (op == "-" && usesCmd) {
			op = "in0"
		}
		cs.Env.Args = append(cs.Env.Args, op)
	}
	hasFile := false
	for _, a := range cs.Env.Args {
		if a != "" && !strings.Contains(a, "=") {
			hasFile = true
		}
	}
	if !(usesCmd && !hasFile) {
		// (with commands the main input must not be stdin: see C01's note on os/exec draining it)
		cs.Env.Stdin = c11Input(rng, rng.Intn(5), rng.Intn(4) > 0)
	} else {
		cs.Env.Args = append(cs.Env.Args, "in0")
	}
	cs.Env.Shell = usesCmd
	if rng.Intn(5) == 0 {
		cs.Env.Vars = []string{"v", fmt.Sprint(rng.Intn(3))}
	}
	return cs
}

// c11Long: long inputs with next/nextfile/exit taken from inside functions thousands of times
// (leaks of call depth or stack slots only show after about a thousand such exits).
func c11Long(i int) genCase {
	progs := []string{
		"function skip() { next }\n/^#/ { skip() }\n{ n++ }\nEND { print n, NR }",
		"function f(x) { if (x %% 2) next; return x }\n{ s += f(NR) }\nEND { print s, NR }",
		"function g() { nextfile }\nFNR == 2 { g() }\n{ c++ }\nEND { print c, NR }",
		"function f(a, b, c) { a = 1; b = 2; if (NR %% 3) next; return a + b }\n{ t += 1 + f() }\nEND { print t }",
		"function h(d) { if (d > 3) next; return h(d + 1) }\n{ h(0); print \"never\" }\nEND { print NR }",
		"{ x = \"a\" (NR %% 2 ? skipper() : \"b\"); c++ }\nfunction skipper() { next }\nEND { print c }",
		"function r(n, l1, l2, l3) { l1 = n; if (n > 0) return r(n - 1) + 1; return 0 }\n{ print r(40 + NR %% 5) }",
		"NR %% 7 == 0, NR %% 11 == 0 { c++; next }\n{ d++ }\nEND { print c, d }",
		// local arrays of a call that is left through next / nextfile / exit: the next call starts with empty ones
		"function f(x,   loc) { loc[NR] = 1; loc[\"k\"]; if (x %% 2) next; return length(loc) }\n{ s += f(NR) }\nEND { print s, NR }",
		"function g(   seen, k, n) { for (k in seen) n++; seen[FNR] = 1; seen[FNR, 2] = 2; if (FNR == 2) nextfile; return n + 0 }\n{ t += g() }\nEND { print t, NR }",
		"function fill(   m) { m[1]; m[2]; m[3]; exit 3 }\nfunction cnt(   m2, k, n) { for (k in m2) n++; return (1 in m2) \":\" n + 0 \":\" length(m2) }\nNR == 5 { fill() }\nEND { print cnt(), NR }",
	}
	var sb strings.Builder
	for k := 0; k < 2400; k++ {
		if k%3 == 0 {
			sb.WriteString("# comment\n")
		} else {
			fmt.Fprintf(&sb, "row %d\n", k)
		}
	}
	cs := genCase{Family: "long", Src: strings.ReplaceAll(progs[i%len(progs)], "%%", "%") + "\n"}
	cs.Env.Stdin = sb.String()
	if i%len(progs) == 2 || i%len(progs) == 9 {
		cs.Env.Files = map[string]string{}
		for f := 0; f < 1200; f++ {
			name := fmt.Sprintf("f%04d", f)
			cs.Env.Files[name] = "a\nb\nc\n"
			cs.Env.Args = append(cs.Env.Args, name)
		}
		cs.Env.Stdin = ""
	}
	return cs
}

// c11ExitMatrix: where the first exit happens (BEGIN, a rule, a function, a getline loop) and with
// what value, against what END does (nothing, plain exit, exit with a literal, an expression, an
// unset variable): the status is the value of the LAST exit that gave one.
func c11ExitMatrix() []genCase {
	firsts := []string{
		"BEGIN { %X }", "NR == 2 { %X }", "function q() { %X }\nNR == 1 { q() }", "BEGIN { while ((getline l < \"in0\") > 0) if (l ~ /b/) %X }", "{ n++ }", "BEGIN { if (0) %X }",
		"function q(d) { if (d > 3) %X; q(d + 1) }\n{ q(0) }", "NR == 1, NR == 3 { if (NR == 2) %X }",
	}
	vals := []string{"exit", "exit 0", "exit 3", "exit 1 - 1", "exit z", "exit \"7x\"", "exit 256 + 4", "exit -1", "exit 2.9"}
	ends := []string{"", "END { print \"E\", NR }", "END { print \"E\"; exit }", "END { exit 0 }", "END { print \"E\"; exit 0 }", "END { exit 2 }", "END { exit 1 - 1 }", "END { exit z }", "END { if (NR > 1) exit 0; exit 9 }",
		"function fin() { exit 0 }\nEND { fin(); print \"never\" }", "END { exit 0 }\nEND { print \"second END\" }", "END { exit \"\" }"}
	var out []genCase
	for _, f := range firsts {
		for _, v := range vals {
			for _, e := range ends {
				cs := genCase{Family: "exit-matrix", Src: strings.ReplaceAll(f, "%X", v) + "\n" + e + "\n"}
				cs.Env.Stdin = "a\nb\nc\n"
				cs.Env.Files = map[string]string{"in0": "a\nb\nc\n"}
				out = append(out, cs)
			}
		}
	}
	return out
}

// c11Shapes: program shapes the template generator never produces: no pattern-action rule at all
// (the main loop still reads the input: END sees the last record), very many rules (a range
// pattern far down the list), the same operand named twice in a row.
func c11Shapes() []genCase {
	var out []genCase
	files := map[string]string{"in0": "a:b:c\nd:e\n", "in1": "x y z\n"}
	add := func(src string, args []string, vars []string, stdin string) {
		cs := genCase{Family: "shapes", Src: src}
		cs.Env.Files, cs.Env.Args, cs.Env.Vars, cs.Env.Stdin = files, args, vars, stdin
		out = append(out, cs)
	}
	end := `END { print "E", NR, FNR, FILENAME, NF, "[" $0 "]", $1, $2, $NF }`
	for _, pre := range []string{"", `BEGIN { FS = ":" }`, `BEGIN { getline; print "B", NF, $1; n = NF }`, `BEGIN { FS = ":"; getline; $2 = "w"; print "B", NF, $0 }`, `BEGIN { getline line; FS = ":" }`} {
		for _, args := range [][]string{nil, {"in0"}, {"FS=:", "in0"}, {"in0", "in1"}, {"in0", "FS= ", "in1"}, {"in1", "FS=:", "in0"}} {
			for _, vars := range [][]string{nil, {"FS", ":"}} {
				add(pre+"\n"+end+"\n", args, vars, "s:t u\nv:w:x y\n")
				add(pre+"\n"+end+"\nEND { $0 = $0; print NF; NF = 1; print }\n", args, vars, "s:t u\n")
			}
		}
	}
	// the same operand twice, thrice; and with an assignment or an empty operand in between
	twopass := `NR == FNR { seen[$1]++; next } { print "P2", FNR, NR, $1, seen[$1] } END { print "E", NR, FNR, FILENAME }`
	for _, args := range [][]string{{"in0", "in0"}, {"in0", "in0", "in0"}, {"in0", "v=1", "in0"}, {"in0", "", "in0"}, {"in1", "in0", "in0", "in1"}, {"-", "-"}, {"in0", "in1", "in0"}} {
		add(twopass+"\n", args, nil, "st 1\nst 2\n")
		add(`FNR == 1 { print "first of", FILENAME, NR } END { print NR, FNR }`+"\n", args, nil, "st 1\nst 2\n")
	}
	// the counters after they were assigned text that came from outside the program (an operand
	// NR=10, -v, a field, a getline variable): they hold a numeric string then, and must go on counting
	cnt := `{ print "R", NR, FNR, $1 } END { print "E", NR, FNR }`
	for _, args := range [][]string{{"in0", "NR=10", "in1"}, {"NR=5", "in0"}, {"in0", "FNR=0", "in1"}, {"in0", "FNR=7", "NR=0", "in0"}, {"in0", "NR=1e1", "in1"}, {"in0", "NR= 3 ", "in1"}, {"in0", "NR=0x10", "in1"}, {"in0", "NR=abc", "in1"}, {"in0", "NR=2.5", "in1"}} {
		add(cnt+"\n", args, nil, "st 1\nst 2\n")
		add(`FNR == 2 { getline; print "G", NR, FNR } `+cnt+"\n", args, nil, "st 1\nst 2\n")
	}
	for _, vars := range [][]string{{"NR", "10"}, {"FNR", "3"}, {"NR", "1e2", "FNR", "0"}, {"NR", "x"}} {
		add(cnt+"\n", []string{"in0", "in1"}, vars, "")
		add(cnt+"\n", nil, vars, "st 1\nst 2\nst 3\n")
	}
	for _, asg := range []string{"NR = $2", "FNR = $2", "NR = $2; FNR = $2", "getline v < \"in1\"; NR = v", "split(\"40 50\", P); NR = P[1]; FNR = P[2]", "NR = $2 \"\"", "NR = $2 + 0", "$3 = 9; NR = $3"} {
		add(`FNR == 2 { `+asg+` } `+cnt+"\n", []string{"in0", "in0"}, nil, "")
		add(`NR == 1 { `+asg+` } `+cnt+"\n", nil, nil, "a 20\nb 30\nc 40\n")
	}
	// a range pattern, a next, an exit and a getline far down a long rule list
	for _, nrules := range []int{0, 10, 62, 63, 64, 65, 100, 130} {
		var sb strings.Builder
		for i := 0; i < nrules; i++ {
			fmt.Fprintf(&sb, "NR == %d { c%d++ }\n", 1000+i, i)
		}
		sb.WriteString("/b/, /d/ { print \"R\", NR, $0 }\n$1 == \"c\", $1 == \"c\" { print \"S\", NR }\nNR == 2, NR == 4 { r++ }\nEND { print \"E\", NR, r }\n")
		add(sb.String(), nil, nil, "a\nb\nc\nd\ne\nb\n")
	}
	return out
}

func init() {
	n := func(t core.Tier, q, th int) int {
		if t == core.Thorough {
			return th
		}
		return q
	}
	core.Register(&core.Property{
		ID:    "C11",
		Level: "exploration",
		Rule: "bookkeeping programs assembled from 29 rule-body templates (the five getline forms, next/nextfile/exit at every nesting incl. inside functions called from expressions, NR/FNR/FILENAME/$0/NF " +
			"updates) x 30 pattern templates (incl. range patterns whose ends may be the same record) x 25 BEGIN templates (ARGV/ARGC edits, getline in BEGIN, exit) x 9 END templates, over operand lists of 0-5 items " +
			"from {files with/without final newline, empty file, -, empty string, var=value, missing file, the same file twice} and stdin; plus long-input cases (2400 records / 1200 files) where next/nextfile " +
			"leave functions thousands of times; every record prints a trace; non-trivial = distinct (program, operands, inputs) that dispatched more than 5 instructions",
		Assumptions: []string{
			"the reference evaluator's operand walk, getline forms, range and exit rules (written from the property text) are the specification",
			"whether cmd | getline increments NR is a don't-care (both settings accepted)",
			"standard input opened a second time with unread data, and stdin shared with a command, are outside the fragment",
		},
		NBatches: func(t core.Tier) int { return n(t, 16, 64) },
		Floors: func(t core.Tier) map[string]int {
			return map[string]int{"evaluations": n(t, 9000, 150000), "distinct_nontrivial": n(t, 7500, 100000), "ref_agreed": n(t, 7500, 100000), "long_cases": 22, "exit_matrix_cases": 800, "shape_cases": 140}
		},
		Run: func(c *core.Ctx) {
			if err := diffrun.Prepare(c.WorkDir()); err != nil {
				c.Inconclusive("chdir: " + err.Error())
				return
			}
			// A small descriptor budget for this batch process: a file that is abandoned (nextfile,
			// end of file, close) but not closed shows as "too many open files" on the long cases
			// (1200 operands) instead of passing unnoticed under the system's generous default.
			var rl syscall.Rlimit
			if syscall.Getrlimit(syscall.RLIMIT_NOFILE, &rl) == nil && rl.Cur > 300 {
				rl.Cur = 300
				_ = syscall.Setrlimit(syscall.RLIMIT_NOFILE, &rl)
				c.Count("descriptor_limit_300", 1)
			}
			for i := 0; i < 22; i++ {
				if c.Mine(i) {
					c01RunCase(c, c11Long(i), "C11")
					c.Count("long_cases", 1)
				}
			}
			for i, cs := range c11Shapes() {
				if c.Mine(i) {
					c01RunCase(c, cs, "C11")
					c.Count("shape_cases", 1)
				}
			}
			for i, cs := range c11ExitMatrix() {
				if c.Mine(i) {
					c01RunCase(c, cs, "C11")
					c.Count("exit_matrix_cases", 1)
				}
			}
			rng := c.Rand("cases")
			total := n(c.Tier, 12000, 200000) / c.NBatches
			for i := 0; i < total; i++ {
				c01RunCase(c, c11Generate(rng.Int63()), "C11")
			}
		},
		Replay: func(c *core.Ctx, raw json.RawMessage) {
			var cs genCase
			if json.Unmarshal(raw, &cs) != nil {
				return
			}
			if err := diffrun.Prepare(c.WorkDir()); err != nil {
				return
			}
			fmt.Printf("program:\n%s\nstdin: %q args: %q vars: %q\n", cs.Src, core.Clip(cs.Env.Stdin, 300), cs.Env.Args, cs.Env.Vars)
			c01RunCase(c, cs, "C11")
		},
	})
	_ = run.DefaultStepLimit
}
