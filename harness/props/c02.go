package props

// C02 — running any accepted program never crashes the host.
//
// Monitor: recover() around parse/New/Execute (plus the parent's process-fatal detection, and the
// normal build: goawk has no unsafe code, and one execution is single-threaded) under hostile workloads: hostile values in every
// numeric and string argument position, hostile configurations (Chars, CSV/TSV modes, odd
// separators, special variables set through Vars), byte-mutated corpus programs and inputs, deep
// recursion, repeated execution on one interpreter (cache poisoning) and input delivered in tiny
// chunks. Every accepted program also goes through the compiled-program invariant, and runs that
// complete normally through the stack-balance hook. Three named error cases are asserted: runaway
// recursion, oversized field numbers and invalid dynamic regexes must end in an error value.

import (
	"context"
	"encoding/json"
	"fmt"
	"io"
	"math/rand"
	"path/filepath"
	"strings"

	"github.com/benhoyt/goawk/interp"

	"verifharness/core"
	"verifharness/corpus"
	"verifharness/run"
)

type c02Case struct {
	Gen       string   `json:"gen"`
	Src       string   `json:"src"`
	Stdin     []byte   `json:"stdin"`
	Vars      []string `json:"vars,omitempty"`
	Args      []string `json:"args,omitempty"`
	Chars     bool     `json:"chars,omitempty"`
	InMode    int      `json:"in_mode,omitempty"`
	OutMode   int      `json:"out_mode,omitempty"`
	Sep       string   `json:"sep,omitempty"`
	Comment   string   `json:"comment,omitempty"`
	Header    bool     `json:"header,omitempty"`
	Chunk     int      `json:"chunk,omitempty"` // deliver stdin in pieces of this size (0 = whole)
	BadShell  bool     `json:"bad_shell,omitempty"` // commands are allowed but the configured shell does not exist: every start fails
	DoneCtx   bool     `json:"done_ctx,omitempty"`  // commands are allowed, the run goes through ExecuteContext with a context that is already cancelled
	WantError bool     `json:"want_error,omitempty"`
}

// chunkReader delivers data in pieces of at most n bytes.
type chunkReader struct {
	data []byte
	n    int
}

func (r *chunkReader) Read(p []byte) (int, error) {
	if len(r.data) == 0 {
		return 0, io.EOF
	}
	k := r.n
	if k > len(r.data) {
		k = len(r.data)
	}
	if k > len(p) {
		k = len(p)
	}
	copy(p, r.data[:k])
	r.data = r.data[k:]
	return k, nil
}

func firstRune(s string) rune {
	for _, r := range s {
		return r
	}
	return 0
}

func (cs *c02Case) config() *interp.Config {
	cfg := &interp.Config{Vars: cs.Vars, Args: cs.Args, Chars: cs.Chars, NoExec: true, NoFileWrites: true, NoFileReads: true,
		InputMode: interp.IOMode(cs.InMode), OutputMode: interp.IOMode(cs.OutMode), Environ: []string{"HOME", "/"}}
	if cs.InMode != 0 {
		cfg.CSVInput = interp.CSVInputConfig{Separator: firstRune(cs.Sep), Comment: firstRune(cs.Comment), Header: cs.Header}
	}
	if cs.OutMode != 0 {
		cfg.CSVOutput = interp.CSVOutputConfig{Separator: firstRune(cs.Sep)}
	}
	if cs.BadShell {
		cfg.NoExec = false
		cfg.ShellCommand = []string{"/nonexistent/verif-no-such-shell", "-c"}
	}
	if cs.DoneCtx {
		cfg.NoExec = false
		cfg.ShellCommand = []string{filepath.Join(core.BuildDir, "vsh")}
	}
	if cs.Chunk > 0 {
		cfg.Stdin = &chunkReader{data: cs.Stdin, n: cs.Chunk}
	} else {
		cfg.Stdin = strings.NewReader(string(cs.Stdin))
	}
	return cfg
}

func c02Check(c *core.Ctx, cs c02Case) {
	c.Begin(cs)
	prog, err, pm := run.Parse(cs.Src, nil)
	if pm != "" {
		c.Violation("panic", "parse:"+run.PanicSite(pm), "ParseProgram panicked: "+run.PanicSite(pm), "program or error", pm, cs)
		return
	}
	if err != nil {
		c.Count("rejected_sources", 1)
		return
	}
	c.Eval(1)
	c.Count("gen_"+cs.Gen, 1)
	if fault := checkCompiled(prog); fault != "" {
		c.Violation("compiled-invariant", "", fault, "well-formed code", fault, cs)
	}
	ip, nerr := interp.New(prog)
	if nerr != nil {
		return
	}
	sawError := false
	for round := 0; round < 2; round++ {
		if round > 0 {
			ip.ResetVars() // variables start over; caches (regexes, formats) and buffers carry over
		}
		cfg := cs.config()
		opts := run.Opts{StepLimit: 400000, Interp: ip}
		if cs.DoneCtx {
			ctx, cancel := context.WithCancel(context.Background())
			cancel()
			opts.Ctx = ctx
		}
		o := run.Exec(prog, cfg, opts)
		c.Eval(1)
		if o.Panic != "" {
			c.Violation("panic", "exec:"+run.PanicSite(o.Panic), fmt.Sprintf("Execute panicked (run %d on the interpreter): %s", round+1, run.PanicSite(o.Panic)), "status or error", o.Panic, cs)
			return
		}
		if len(o.Faults) > 0 {
			c.Violation("stack-balance", "", "evaluation stack not balanced: "+strings.Join(o.Faults, "; "), "", "", cs)
			return
		}
		switch {
		case o.StepLimit:
			c.Count("outcome_steplimit", 1)
		case o.Err != "":
			c.Count("outcome_error", 1)
			c.Cover("error_messages", msgClass(o.Err))
			sawError = true
		default:
			c.Count("outcome_ok", 1)
		}
		if cs.WantError && !o.StepLimit && o.Err == "" {
			c.Violation("error-expected", "", "the run must end in an error value (runaway recursion / oversized field number / invalid dynamic regex) but returned normally", "error", o.Sig(), cs)
			return
		}
	}
	_ = sawError
	c.NonTrivial(cs.Src + "\x00" + string(cs.Stdin) + fmt.Sprint(cs.Vars, cs.Chars, cs.InMode, cs.OutMode, cs.Sep, cs.Chunk))
	if c.WantSample() && len(cs.Src) < 200 && cs.Gen == "hostile" {
		c.Sample(map[string]any{"gen": cs.Gen, "src": cs.Src, "stdin": string(cs.Stdin), "vars": cs.Vars, "chars": cs.Chars})
	}
}

// hostile values written as AWK expressions
var c02Nums = []string{"log(-1)", "-log(0)", "log(0)", "1e30", "-1e30", "2^63", "-2^63", "2^53", "2^31", "2^31-1", "2^32", "1e6", "1e6+1", "1e6-1", "999999", "-1", "0", "0.5", "-0.5",
	"\"\"", "\"x\"", "1e308*10", "-0", "1e18", "9223372036854775807", "-9223372036854775808", "1e19", "2^64", "\"1e400\"", "\"0x7fffffffffffffff\"", "\"nan\"", "\"-inf\"", "3", "NF", "-NF", "NF+1", "u"}

var c02Strs = []string{"\"\\xff\\xfe\"", "\"\\x80\"", "\"a\\000b\"", "\"\\000\"", "\"\\r\\n\"", "\"\\n\"", "big", "\"(\"", "\")\"", "\"[\"", "\"*\"", "\"+\"", "\"?\"", "\"\\\\\"", "\"a{1000}\"", "\"a{1001}\"",
	"\"(((((\"", "\"[[:foo:]]\"", "\"%\"", "\"%d\"", "\"%s%s\"", "\"%*d\"", "\"%.\"", "\"%5\"", "\"%c\"", "\"\\xc3\"", "\"é\"", "\"日本\"", "\"\"", "\" \"", "\"csv\"", "\"csv separator=\\xff\"", "\"csv separator=\"",
	"\"tsv header comment=#\"", "\"csv separator=a comment=a\"", "\"csv header=maybe\"", "\"xml\"", "\"csv separator=\\\"\"", "\"a|b\"", "\"^\"", "\"$\"", "\"x*\"", "\"()\"", "\"\\\\1\"", "\"(?i)a\"", "\"\\\\pL\"", "\"[a-\"", "\"\\\\\"",
	"\"&\"", "\"\\\\&\"", "\"%.99999999s\"", "\"%99999999d\"", "\"%+-0 #d\"", "\"%lld\"", "\"%5%\"", "\"\\xf0\\x9f\\x98\"", "\"\\xed\\xa0\\x80\"", "\"é\\xff日\"", "u", "$0", "$1"}

var c02NumTemplates = []string{
	"x = $(%N)", "$(%N) = 1", "NF = %N", "ARGC = %N", "x = substr(\"hello\", %N)", "x = substr(\"hello\", %N, %M)", "x = substr(\"héllo日本\", %N, %M)", "printf \"%*d\", %N, 1", "printf \"%.*f\", %N, 1",
	"printf \"%c\", %N", "n = split(\"a b\", a, %N)", "srand(%N); x = rand()", "exit %N", "x = int(%N)", "a[%N] = 1; x = a[%N]", "++$(%N)", "$(%N)++", "$(%N) += 1", "getline $(%N)", "x = %N %% %M",
	"x = %N ^ %M", "x = sprintf(\"%d %x %o %u %c %i\", %N, %N, %N, %N, %N, %N)", "x = sprintf(\"%e %f %g %5.3s\", %N, %N, %N, %N)", "x = index(%N, %M)", "x = length(%N)", "NR = %N; FNR = %M; x = NR + FNR",
	"RSTART = %N; RLENGTH = %M", "x = close(%N)", "x = fflush(%N)", "x = %N < %M; y = %N == %M", "x = -%N; y = !%N; z = +%N", "x = %N / (%M + 1e-300)", "x = atan2(%N, %M) + exp(%N) + log(%N) + sqrt(%N) + sin(%N) + cos(%N)",
	"delete a[%N]; x = (%N in a)", "x = %N \"\" %M", "CONVFMT = \"%d\"; a[%N] = 1", "$0 = \"a b c\"; NF = %N; x = $0", "$0 = \"a b c\"; $(%N) = \"z\"; x = NF", "x = substr($0, %N, %M); y = $(%N)",
	"for (i = 0; i < 3; i++) $(%N + i) = i", "printf \"%s\", substr(\"abc\", %N)", "x = toupper(%N) tolower(%M)", "n = match(%N, %M); x = RSTART RLENGTH", "x = sprintf(\"%c%c\", %N, %M)", "x = sprintf(%N)", "print %N, %M",
	"x[%N, %M] = 1; for (k in x) y = k", "OFMT = \"%.3f\"; print %N, %N \"\"", "x = system(%N)", "getline x < %N", "print \"a\" > %N", "x = %N; x++; x += %M; x = x ^ 2; print x", "while ((getline line) > 0 && %N) n++",
}

var c02StrTemplates = []string{
	"x = $0 ~ %S", "n = match($0, %S)", "n = split($0, a, %S)", "n = sub(%S, \"r\")", "n = gsub(%S, %T)", "n = gsub(/a/, %S)", "FS = %S; $0 = \"a b,c\"; x = $1", "RS = %S; getline; x = $0", "SUBSEP = %S; a[1, 2] = 1",
	"CONVFMT = %S; x = 0.1 \"\"; a[0.1] = 1", "OFMT = %S; print 0.1, 1e300", "ORS = %S; OFS = %T; print 1, 2; $2 = 3; print", "INPUTMODE = %S; getline; x = $1", "OUTPUTMODE = %S; print 1, \"a,b\"; $2 = \"q\"; print",
	"printf %S, 1, 2", "printf %S", "x = sprintf(%S, \"a\", 2, 3.5)", "x = toupper(%S) tolower(%S)", "x = index(%S, %T)", "x = substr(%S, 2, 3)", "x = length(%S)", "x = %S + 0; y = %S < 1; z = !%S", "$0 = %S; x = NF; y = $1",
	"getline x < %S", "print \"a\" > %S", "print \"a\" | %S", "%S | getline", "x = close(%S)", "x = system(%S)", "$3 = %S; x = $0", "n = split(%S, a); m = split(%S, b, \"\")", "x = %S %T; y = x x x x", "x = sprintf(\"%c\", %S)",
	"x = sprintf(\"%5s|%-5s|%.2s\", %S, %S, %S)", "a[%S] = 1; for (k in a) x = k", "x = (%S in a); delete a[%S]", "FILENAME = %S; NR = %S", "x = @%S", "x = match(%S, %T) substr(%S, RSTART, RLENGTH)", "n = gsub(%S, \"&&\", $0); print",
	"n = split(%S, a, %T); x = a[1]", "FS = %S; RS = %T; while ((getline l) > 0) n++", "x = %S ~ %T ? %S : %T", "RS = %S; $0 = %T; x = NF", "x = substr(%S, -1, 2) substr(%S, 2)", "printf(\"%s %d\\n\", %S, %S)",
	"BEGINFILE = %S", "ENVIRON[%S] = 1; ARGV[%S] = %T", "n = sub(/$/, %S); m = sub(/^/, %T)", "n = gsub(//, %S)", "n = gsub(\"\", %S, x)",
}

func c02Hostile(rng *rand.Rand) c02Case {
	cs := c02Case{Gen: "hostile"}
	pickN := func() string { return c02Nums[rng.Intn(len(c02Nums))] }
	pickS := func() string { return c02Strs[rng.Intn(len(c02Strs))] }
	var t string
	if rng.Intn(2) == 0 {
		t = c02NumTemplates[rng.Intn(len(c02NumTemplates))]
		t = strings.ReplaceAll(t, "%N", pickN())
		t = strings.ReplaceAll(t, "%M", pickN())
	} else {
		t = c02StrTemplates[rng.Intn(len(c02StrTemplates))]
		s1, s2 := pickS(), pickS()
		if strings.Contains(t, "sub(") || strings.Contains(t, "x x") {
			// a 64 KiB operand in a substitution that is repeated per record multiplies the
			// subject each time (allocation chosen by the script, not a crash): keep it out
			for s1 == "big" || s2 == "big" {
				s1, s2 = pickS(), pickS()
			}
		}
		t = strings.ReplaceAll(t, "%S", s1)
		t = strings.ReplaceAll(t, "%T", s2)
	}
	t = strings.ReplaceAll(t, "%%", "%")
	pre := "big = \"ab\"; for (i = 0; i < 15; i++) big = big big; "
	if !strings.Contains(t, "big") {
		pre = ""
	}
	switch rng.Intn(4) {
	case 0:
		cs.Src = "BEGIN { " + pre + t + "; print x, y, n }\n"
	case 1:
		cs.Src = "{ " + pre + t + "; print x, y, n; print }\nEND { print NR, NF, $0 }\n"
	case 2:
		cs.Src = "function f(p, q, l) { " + pre + strings.ReplaceAll(strings.ReplaceAll(t, "x", "l"), "a[", "q[") + "; return l }\n{ print f($1, arr) }\n"
	default:
		cs.Src = "BEGIN { " + pre + t + " }\n{ " + t + " }\nEND { " + t + "; print x }\n"
	}
	inputs := []string{"a b c\n1 2 3\n", "", "\n\n\n", "x", "a\x00b \xff\xfe\n", "é,\"q\"\"q\",日本\r\n\"un\nterminated", "a,b\n1,2\n", "  lead  trail  \n\t\ttabs\n", "\xef\xbb\xbfbom,line\n", "1e400 -1e400 nan inf 0x10\n", "\r\n\r\n\n\r", "a\n\n\nb\n\n"}
	cs.Stdin = []byte(inputs[rng.Intn(len(inputs))])
	cs.Chars = rng.Intn(2) == 0
	if rng.Intn(3) == 0 {
		cs.InMode = 1 + rng.Intn(2)
		cs.Sep = []string{"", ",", "\t", ";", "|", "é", "a"}[rng.Intn(7)]
		cs.Comment = []string{"", "#", "é", ";"}[rng.Intn(4)]
		cs.Header = rng.Intn(2) == 0
	}
	if rng.Intn(4) == 0 {
		cs.OutMode = 1 + rng.Intn(2)
		if cs.Sep == "" {
			cs.Sep = []string{"", ",", "|"}[rng.Intn(3)]
		}
	}
	if rng.Intn(3) == 0 {
		names := []string{"RS", "FS", "SUBSEP", "CONVFMT", "OFMT", "INPUTMODE", "OUTPUTMODE", "NF", "NR", "ARGC", "ORS", "OFS", "RT", "RSTART", "FILENAME", "x"}
		vals := []string{"\xff", "\x80", "", "é", "a+", "(", "%d", "%s%s", "csv", "tsv header", "csv separator=\xff", "1e30", "-1", "nan", "\x00", "\n\n", "[", "日", "%.3f", "bogus mode"}
		cs.Vars = []string{names[rng.Intn(len(names))], vals[rng.Intn(len(vals))]}
	}
	if rng.Intn(6) == 0 {
		cs.Args = []string{[]string{"RS=\xff", "NF=-1", "FS=(", "x=1", "-", "", "INPUTMODE=csv separator=\xff", "nofile"}[rng.Intn(8)]}
	}
	if rng.Intn(4) == 0 {
		cs.Chunk = 1 + rng.Intn(3)
	}
	return cs
}

// c02TinyFields: every string of up to three characters over a numeric-looking alphabet, as an
// input field, a -v style variable and a getline variable, put to every use that parses or
// classifies its text (comparison, truth, arithmetic, subscript, printf, substr, index, split
// separator, regex).
func c02TinyFields() []c02Case {
	const alphabet = "-+0.1eEx a"
	var all []string
	var gen func(prefix string, n int)
	gen = func(prefix string, n int) {
		all = append(all, prefix)
		if n == 0 {
			return
		}
		for i := 0; i < len(alphabet); i++ {
			gen(prefix+string(alphabet[i]), n-1)
		}
	}
	gen("", 3)
	progs := []string{
		`{ a = ($1 < 1); b = ($1 == $2); if ($1) c++; d = $1 + 0; e = !$1; f = ($1 >= $2); g = ($1 != 0); h = ($2 > $1 ? $1 : $2); i = -$1; j = $1 ^ 2; k = int($1); l = ($1 < "a"); m = ($1 == "") }
END { print NR, c, a b e f g h i j k l m }`,
		`{ A[$1] = $2; if (($1, $2) in A) z++; s = substr("hello world", $1, $2); t = sprintf("%d %i %c %s %5.2f %e %x %o %u", $1, $2, $1, $1, $1, $1, $1, $1, $1); u = index($1, $2); v = length($1) }
END { n = 0; for (k in A) n++; print NR, n, z, length(t) }`,
		`{ if (index($0, "+") == 0) { n = split("a b" $1 "c", P, $1); m = ($0 ~ $1 "*"); gsub($2, "[&]"); r = match($0, "^" $2) } $3 = $1; NF = NF; x = $1 $2; y = x + 0; q = (x < $1); if (!(NR % 97)) print n, m, r, y, q }
END { print NR }`,
		`BEGIN { FS = "," } { while ((getline line < "nofile") > 0) ; w = $1; w++; w += $2; w = w ""; if (w < 5) lo++; CONVFMT = "%.3g"; v = ($1 + 0.1) ""; OFMT = "%.2f"; if (!(NR % 89)) print $1 + 0, v, w }
END { print NR, lo }`,
	}
	var out []c02Case
	const per = 250
	for pi, prog := range progs {
		for start := 0; start < len(all); start += per {
			var sb strings.Builder
			for k := start; k < start+per && k < len(all); k++ {
				sb.WriteString(all[k] + "," + all[(k*7+pi)%len(all)] + "\n")
			}
			out = append(out, c02Case{Gen: "tiny-fields", Src: prog + "\n", Stdin: []byte(sb.String()), Vars: []string{"FS", ","}, Chars: (start/per)%2 == 1})
		}
	}
	return out
}

// c02Named: the three situations the property names must end in an error value.
func c02Named() []c02Case {
	var out []c02Case
	for _, src := range []string{
		"function f(n) { return f(n + 1) }\nBEGIN { f(0) }\n",
		"function f(n, a, b, c) { a = n; return g(n + 1) }\nfunction g(n, x) { return f(n) }\nBEGIN { print f(0) }\n",
		"function f(arr, n) { arr[n] = n; f(arr, n + 1) }\nBEGIN { f(A, 0) }\n",
		"BEGIN { $(1000001) = 1 }\n", "BEGIN { $(1e7) = \"x\" }\n", "BEGIN { NF = 1000001 }\n", "BEGIN { NF = -1 }\n", "{ $(2^31) = 1 }\n", "BEGIN { $(1e6 + 1)++ }\n", "BEGIN { $(1e6 + 1) += 2 }\n", "BEGIN { ARGC = 1e7 }\n",
		"BEGIN { x = \"a\" ~ \"(\" }\n", "BEGIN { n = match(\"a\", \"[\") }\n", "BEGIN { n = split(\"a\", arr, \"a{2000}\") }\n", "BEGIN { n = sub(\"(\", \"x\") }\n", "BEGIN { n = gsub(\"*a\", \"x\", y) }\n", "BEGIN { FS = \"((\"; $0 = \"a\" }\n",
		"BEGIN { RS = \"a(\" }\n", "{ x = $0 ~ $1 }\n", "BEGIN { printf \"%d\" }\n", "BEGIN { printf \"%z\", 1 }\n", "BEGIN { x = sprintf(\"%d %d\", 1) }\n", "BEGIN { x = 1 / 0 }\n", "BEGIN { x = 1 % 0 }\n",
		// a format that was used correctly before (the translated format is cached) and then with too few arguments
		"BEGIN { f = \"%s-%s\\n\"; printf f, \"a\", \"b\"; printf f, \"a\" }\n", "BEGIN { x = sprintf(\"%d %d\", 1, 2); y = sprintf(\"%d %d\", 1) }\n",
		"{ printf \"%s %s %s\\n\", $1, $2, $3 }\nEND { printf \"%s %s %s\\n\", $1 }\n", "BEGIN { for (i = 3; i >= 0; i--) x = x sprintf(\"%c%*d\", 65, i, i) ; y = sprintf(\"%c%*d\", 65, 1) }\n",
	} {
		for _, chars := range []bool{false, true} {
			out = append(out, c02Case{Gen: "named-error", Src: src, Stdin: []byte("[ (\n"), Chars: chars, WantError: true})
		}
	}
	// deep but legal recursion with locals (stack growth far below the call-depth limit)
	for depth := 10; depth <= 990; depth += 70 {
		for locals := 0; locals <= 6; locals += 3 {
			params := "n"
			for i := 0; i < locals; i++ {
				params += fmt.Sprintf(", l%d", i)
			}
			src := fmt.Sprintf("function r(%s) { if (n <= 0) return 0; l0 = n; return 1 + r(n - 1) }\nBEGIN { print r(%d) }\n", params, depth)
			if locals == 0 {
				src = fmt.Sprintf("function r(n) { if (n <= 0) return 0; return 1 + r(n - 1) }\nBEGIN { print r(%d) }\n", depth)
			}
			out = append(out, c02Case{Gen: "deep-recursion", Src: src})
			src2 := fmt.Sprintf("function r(%s, arr) { if (n <= 0) return 0; arr[n] = n; return r(n - 1) + length(arr) }\nBEGIN { print r(%d) }\n", params, depth)
			out = append(out, c02Case{Gen: "deep-recursion", Src: src2})
		}
	}
	return out
}

// c02Splitters: every record splitter (newline, single byte incl. non-UTF-8, paragraph mode,
// multi-byte rune, regexes) and the CSV/TSV splitter on EVERY string of length <= 5 over a
// separator-heavy alphabet, delivered whole and byte by byte (index faults in a splitter show
// only for particular tails such as "\n\r" at a read boundary).
func c02Splitters(visit func(i int, cs c02Case)) {
	rss := []string{"", "\n", "x", "\xff", "ab", "a+", "é", "\r\n", "\n\n+", "(ab)+|\r"}
	alpha := []string{"a", "\n", "\r", "x", "b"}
	csvAlpha := []string{"a", ",", "\"", "\n", "\r"}
	prog := "{ n++; m += length($0) + length(RT) + NF }\nEND { print n, m, length($0) }\n"
	i := 0
	var rec func(prefix string, depth int, alphabet []string, emit func(in string))
	rec = func(prefix string, depth int, alphabet []string, emit func(in string)) {
		emit(prefix)
		if depth == 0 {
			return
		}
		for _, a := range alphabet {
			rec(prefix+a, depth-1, alphabet, emit)
		}
	}
	for _, rs := range rss {
		rs := rs
		rec("", 5, alpha, func(in string) {
			for _, chunk := range []int{0, 1, 2} {
				visit(i, c02Case{Gen: "splitter", Src: prog, Stdin: []byte(in), Vars: []string{"RS", rs}, Chunk: chunk})
				i++
			}
		})
	}
	for _, mode := range []int{1, 2} {
		mode := mode
		rec("", 5, csvAlpha, func(in string) {
			for _, chunk := range []int{0, 1} {
				visit(i, c02Case{Gen: "splitter", Src: "{ n++; m += length($0) + NF; x = x $1 $NF }\nEND { print n, m, x }\n", Stdin: []byte("\xef\xbb\xbf"[:3*(i%2)] + in), InMode: mode, Sep: ",", Header: i%3 == 0, Chunk: chunk})
				i++
			}
		})
	}
}

func c02Mutated(rng *rand.Rand, progs []string) c02Case {
	src, g := genMutateCorpus(rng, progs)
	cs := c02Case{Gen: "mutated", Src: string(src)}
	_ = g
	in := []byte("a b c\n1 2 3\nfoo,bar \"q\"\n\n10 -3 4.5\n")
	for k := rng.Intn(4); k > 0 && len(in) > 0; k-- {
		in[rng.Intn(len(in))] = byte(rng.Intn(256))
	}
	cs.Stdin = in
	cs.Chars = rng.Intn(2) == 0
	if rng.Intn(5) == 0 {
		cs.InMode = 1
		cs.Header = rng.Intn(2) == 0
	}
	if rng.Intn(5) == 0 {
		cs.Chunk = 1 + rng.Intn(4)
	}
	return cs
}

func c02Generated(rng *rand.Rand) c02Case {
	fam := c01Families[rng.Intn(len(c01Families))]
	g := c01Generate(rng.Int63(), fam)
	src := []byte(g.Src)
	// hostile edits of a valid generated program: swap literals for hostile values
	for k := rng.Intn(3); k > 0; k-- {
		s := string(src)
		lits := []string{"0.5", "2.25", "100000", "1e+06", "\"abc\"", "\"a\"", "\"10\"", " 1)", " 2)"}
		l := lits[rng.Intn(len(lits))]
		h := c02Nums[rng.Intn(len(c02Nums))]
		if strings.HasPrefix(l, "\"") {
			h = c02Strs[rng.Intn(len(c02Strs))]
			if h == "big" {
				h = "\"\\xff\""
			}
		}
		if strings.HasPrefix(l, " ") {
			h = " (" + h + "))"
		}
		src = []byte(strings.Replace(s, l, h, 1))
	}
	cs := c02Case{Gen: "generated", Src: string(src), Stdin: []byte(g.Env.Stdin), Vars: g.Env.Vars, Chars: rng.Intn(2) == 0}
	if rng.Intn(4) == 0 {
		cs.Chunk = 1 + rng.Intn(3)
	}
	return cs
}

func init() {
	n := func(t core.Tier, q, th int) int {
		if t == core.Thorough {
			return th
		}
		return q
	}
	core.Register(&core.Property{
		ID:    "C02",
		Level: "exploration",
		Rule: "hostile programs: 53 numeric-position templates x 37 hostile numbers and 51 string-position templates x 61 hostile strings, each in BEGIN / main / function / all-sections form, with hostile inputs and " +
			"configurations (Chars, CSV/TSV with odd separators, special variables through Vars and operands, input in 1-3 byte chunks); byte-mutated corpus programs; generated programs with literals swapped for hostile " +
			"values; named error cases (runaway recursion, oversized field numbers, invalid dynamic regexes) and legal deep recursion with locals; every program is executed twice on one interpreter; " +
			"non-trivial = distinct (program, input, configuration) that was accepted and executed",
		Assumptions: []string{
			"a run that ends with an error value, a status, or the step budget is fine; only panics, fatal errors, stack-balance faults and malformed compiled code are violations",
			"all runs are sandboxed (NoExec, NoFileWrites, NoFileReads) with a 400k-step budget",
		},
		NBatches: func(t core.Tier) int { return n(t, 16, 64) },
		Floors: func(t core.Tier) map[string]int {
			return map[string]int{"evaluations": n(t, 300000, 1500000), "distinct_nontrivial": n(t, 100000, 500000), "gen_hostile": n(t, 8000, 250000), "gen_named-error": 40, "gen_tiny-fields": 16, "gen_deep-recursion": 70, "gen_splitter": 100000, "error_messages": 30}
		},
		Run: func(c *core.Ctx) {
			rng := c.Rand("cases")
			for i, cs := range c02Named() {
				if c.Mine(i) {
					c02Check(c, cs)
				}
			}
			for i, cs := range c02TinyFields() {
				if c.Mine(i) {
					c02Check(c, cs)
					c.Count("gen_tiny-fields", 1)
				}
			}
			c02Splitters(func(i int, cs c02Case) {
				if c.Mine(i) {
					c02Check(c, cs)
				}
			})
			for i, cs := range c02BrokenShell() {
				if c.Mine(i) {
					c02Check(c, cs)
					c.Count("gen_broken-shell", 1)
				}
			}
			progs := corpus.All()
			total := n(c.Tier, 22000, 600000) / c.NBatches
			for i := 0; i < total; i++ {
				switch r := rng.Intn(10); {
				case r < 6:
					c02Check(c, c02Hostile(rng))
				case r < 8:
					c02Check(c, c02Mutated(rng, progs))
				default:
					c02Check(c, c02Generated(rng))
				}
			}
		},
		Replay: func(c *core.Ctx, raw json.RawMessage) {
			var cs c02Case
			if json.Unmarshal(raw, &cs) != nil {
				return
			}
			fmt.Printf("source: %s\nstdin: %q vars=%q args=%q chars=%v inmode=%d outmode=%d sep=%q chunk=%d\n", core.Q(cs.Src), cs.Stdin, cs.Vars, cs.Args, cs.Chars, cs.InMode, cs.OutMode, cs.Sep, cs.Chunk)
			c02Check(c, cs)
		},
	})
}

// c02BrokenShell: programs that start commands in every way the language has, under a
// configuration in which no command can be started (the shell does not exist; or the context of
// the call is already done). A start that fails is a status or an error for the program - also
// when the name is used again, closed, flushed, or simply left to the end of the run.
func c02BrokenShell() []c02Case {
	bodies := []string{
		`"cmd" | getline; print "after"`, `"cmd" | getline x; print x; close("cmd")`, `r = ("cmd" | getline x); print r`, `print "a" | "cmd"; close("cmd")`, `print "a" | "cmd"`,
		`x = system("cmd"); print x`, `"cmd" | getline a; "cmd" | getline b; print a b`, `while (("cmd" | getline l) > 0) n++; print n`, `"cmd" | getline; print "x" | "cmd"; close("cmd")`,
		`printf "x" | "cmd"; fflush("cmd"); fflush()`, `"cmd" | getline; "cmd2" | getline; close("cmd2"); close("cmd")`, `"cmd" | getline $2; print NF`, `"cmd" | getline A[1]; print length(A)`,
		`close("cmd"); "cmd" | getline; close("cmd"); "cmd" | getline`, `for (i = 0; i < 40; i++) ("cmd" i) | getline v[i]`, `print "a" | "cmd"; "cmd" | getline q`, `"cmd" | getline; exit 3`, `"cmd" | getline; $(-1) = 1`,
		`print "z" > "/dev/stderr"; "cmd" | getline; system("")`, `system("cmd"); "cmd" | getline; print "p" | "cmd"; system("cmd")`,
	}
	wraps := []string{"BEGIN { %B }", "{ %B }", "END { %B }", "function f() { %B }\nBEGIN { f(); f() }", "BEGIN { %B }\nEND { %B }"}
	var out []c02Case
	for _, b := range bodies {
		for _, w := range wraps {
			src := strings.ReplaceAll(w, "%B", b) + "\n"
			out = append(out, c02Case{Gen: "broken-shell", Src: src, Stdin: []byte("r1 a\nr2 b\n"), BadShell: true})
			out = append(out, c02Case{Gen: "broken-shell", Src: src, Stdin: []byte("r1 a\nr2 b\n"), DoneCtx: true})
		}
	}
	return out
}
