//go:build race

package props

// c19RaceEnabled reports whether this binary was built with the race detector.
const c19RaceEnabled = true
