package props

// C01 — compiled execution preserves the meaning of the parsed program.
//
// Monitors: (a) differential: VM outcome vs the independent reference evaluator; (b) metamorphic:
// three spellings of the same generated program (minimal; fully parenthesised with
// statement-position expressions and conditions wrapped, which defeats the compiler's shortcuts;
// negated conditions + long-hand increments) must behave identically on the VM; (c) the
// evaluation-stack balance hook; (d) the compiled-program invariant (see bytecode.go).

import (
	"encoding/json"
	"fmt"
	"math/rand"
	"sort"
	"strings"

	"github.com/benhoyt/goawk/interp"
	"github.com/benhoyt/goawk/parser"

	"verifharness/core"
	"verifharness/diffrun"
	"verifharness/gen"
	"verifharness/run"
)

type genCase struct {
	Family string       `json:"family"`
	Src    string       `json:"src"`             // minimal spelling
	SrcB   string       `json:"src_b,omitempty"` // fully parenthesised spelling
	SrcC   string       `json:"src_c,omitempty"` // negated conditions, long-hand increments
	Env    diffrun.Case `json:"env"`
}

var c01InFiles = map[string]string{
	"in0": "alpha 1\nbeta 22\n\ngamma 3.5 x\n",
	"in1": "10 20 30\nfoo,bar:baz\n 7 \n",
	"in2": "",
}

func c01Env(rng *rand.Rand, g *gen.G, files, main, shell bool) diffrun.Case {
	cs := diffrun.Case{}
	if files {
		cs.Files = map[string]string{}
		for n, c := range c01InFiles {
			cs.Files[n] = c
		}
		cs.OutFiles = []string{"out0", "out1"}
	}
	if main && shell {
		// A command started by system() or `cmd | getline` inherits the interpreter's standard
		// input; through the API (a Reader, not a file) os/exec drains it eagerly, so what the
		// main loop still sees afterwards is an artefact of the embedding. Programs with commands
		// therefore read their main input from file operands only.
		cs.Files = map[string]string{"in0": g.Input(1 + rng.Intn(6)), "in1": c01InFiles["in1"], "in2": ""}
		cs.Args = []string{"in0"}
		if rng.Intn(2) == 0 {
			cs.Args = append(cs.Args, []string{"in1", "in2", "g0=4", ""}[rng.Intn(4)])
		}
	} else if main {
		cs.Stdin = g.Input(rng.Intn(8))
		if files && rng.Intn(3) == 0 {
			ops := []string{"in0", "in1", "in2", "-", "", "g0=5", "s0=hello world", "FS=,", "in0"}
			n := 1 + rng.Intn(3)
			for i := 0; i < n; i++ {
				cs.Args = append(cs.Args, ops[rng.Intn(len(ops))])
			}
		}
	}
	if rng.Intn(4) == 0 {
		cs.Vars = []string{"g1", []string{"7", "abc", "0.5", " 3 "}[rng.Intn(4)]}
	}
	return cs
}

// c01Generate builds one random case from the per-case seed.
func c01Generate(seed int64, family string) genCase {
	rng := rand.New(rand.NewSource(seed))
	f := gen.Features{Funcs: true, Specials: true}
	switch family {
	case "pure":
		f.Specials = rng.Intn(2) == 0
	case "main":
		f.MainLoop, f.Exit = true, true
	case "files":
		f.Files, f.MainLoop, f.Exit = true, rng.Intn(2) == 0, true
	case "cmds":
		f.Commands, f.Files, f.MainLoop = true, rng.Intn(2) == 0, rng.Intn(2) == 0
	case "errors":
		f.Errors, f.MainLoop, f.Exit = true, rng.Intn(2) == 0, true
	}
	env := gen.Env{}
	if f.Files {
		env = gen.Env{InFiles: []string{"in0", "in1", "in2"}, OutFiles: []string{"out0", "out1"}, Missing: "nofile"}
	}
	g := gen.New(rng, f, env)
	p := g.Program()
	cs := genCase{Family: family, Src: p.Source(gen.Style{}), SrcB: p.Source(gen.Style{Full: true}), SrcC: p.Source(gen.Style{NegateCond: true, LongIncr: true})}
	cs.Env = c01Env(rng, g, f.Files, f.MainLoop, f.Commands)
	cs.Env.Shell = f.Commands
	return cs
}

var c01Families = []string{"pure", "pure", "main", "main", "files", "cmds", "errors"}

// opName names an opcode key for the coverage set.
func opKeyName(k interp.VerifOpKey) string {
	return fmt.Sprintf("%s/%d", opcodeName(k.Op), k.Sub)
}

// c01RunCase evaluates one case with all monitors; returns false if it was unusable.
func c01RunCase(c *core.Ctx, cs genCase, prop string) {
	c.Begin(cs)
	prog, err, pm := run.Parse(cs.Src, nil)
	if pm != "" {
		c.Violation("parse-panic", "", "parser panicked on a generated program: "+run.PanicSite(pm), "", pm, cs)
		return
	}
	if err != nil {
		c.Count("generator_rejected", 1)
		c.Cover("generator_rejected_messages", msgClass(err.Error()))
		return
	}
	c.Eval(1)
	if fault := checkCompiled(prog); fault != "" {
		c.Violation("compiled-invariant", "", fault, "well-formed code", fault, cs)
	}
	c.Count("compiled_programs_checked", 1)
	vm, ferr := diffrun.VM(prog, &cs.Env, true)
	if ferr != nil {
		c.Inconclusive("workdir: " + ferr.Error())
		return
	}
	for k := range vm.Hist {
		c.Cover("opcode_pairs", opKeyName(k))
	}
	c.Max("max_steps", int64(vm.Steps))
	if vm.Kind == "PANIC" {
		c.Violation("vm-panic", "", "VM panicked: "+run.PanicSite(vm.Detail), "status or error", vm.Detail, cs)
		return
	}
	if len(vm.Faults) > 0 {
		c.Violation("stack-balance", c01FaultClass(cs.Src), "evaluation stack not balanced at a block boundary: "+strings.Join(vm.Faults, "; "), "sp restored", strings.Join(vm.Faults, "; "), cs)
	}
	if vm.Kind == "STEPLIMIT" {
		c.Count("steplimit_cases", 1)
	}
	if vm.TimingArtefact {
		c.Count("waitdelay_timing_artefacts_skipped", 1)
		return
	}
	// (a) reference evaluator
	agree, ref, supported := diffrun.Agree(prog, &cs.Env, vm)
	switch {
	case !supported:
		c.Count("ref_unsupported", 1)
		c.Cover("ref_unsupported_reasons", msgClass(ref.Detail))
	case vm.Kind == "STEPLIMIT":
		// the reference finished within its fuel but the VM did not finish in 3M steps
		c.Violation("no-termination", "", "VM exceeded the step budget on a program the reference evaluator finishes", ref.Sig(), vm.Sig(), cs)
	case !agree:
		c.Violation("ref-diff", c01DiffClass(cs.Src, vm, ref), "VM and reference evaluator disagree: "+firstDiff(ref.Sig(), vm.Sig()), ref.Sig()+" ["+ref.Detail+"]", vm.Sig()+" ["+vm.Detail+"]", cs)
	default:
		c.Count("ref_agreed", 1)
		c.Count("outcome_"+vm.Kind, 1)
	}
	// (b) metamorphic spellings
	for name, src := range map[string]string{"full": cs.SrcB, "negated": cs.SrcC} {
		if src == "" || src == cs.Src {
			continue
		}
		p2, err2, pm2 := run.Parse(src, nil)
		if pm2 != "" || err2 != nil {
			c.Violation("spelling-rejected", "", fmt.Sprintf("the %s spelling of an accepted program is rejected: %v %s", name, err2, run.PanicSite(pm2)), "", "", cs)
			continue
		}
		c.Eval(1)
		vm2, _ := diffrun.VM(p2, &cs.Env, true)
		for k := range vm2.Hist {
			c.Cover("opcode_pairs", opKeyName(k))
		}
		if vm2.TimingArtefact {
			c.Count("waitdelay_timing_artefacts_skipped", 1)
			continue
		}
		if len(vm2.Faults) > 0 {
			c.Violation("stack-balance", c01FaultClass(src), "evaluation stack not balanced ("+name+" spelling): "+strings.Join(vm2.Faults, "; "), "", "", cs)
		}
		if vm2.Sig() != vm.Sig() && vm.Kind != "STEPLIMIT" && vm2.Kind != "STEPLIMIT" {
			c.Violation("spelling-diff", c01DiffClass(cs.Src, vm, vm2), "two equivalent spellings behave differently ("+name+"): "+firstDiff(vm.Sig(), vm2.Sig()), vm.Sig(), vm2.Sig(), cs)
		}
		c.Count("spellings_compared", 1)
		if differentCode(prog, p2) {
			c.Count("spellings_with_different_code", 1)
		}
	}
	if vm.Steps > 5 {
		c.NonTrivial(cs.Src + "\x00" + cs.Env.Stdin)
	}
	if c.WantSample() && len(cs.Src) < 900 && supported {
		c.Sample(map[string]any{"family": cs.Family, "program": cs.Src, "stdin": cs.Env.Stdin, "args": cs.Env.Args, "vm": core.Clip(vm.Sig(), 300), "reference": core.Clip(ref.Sig(), 300)})
	}
}

func differentCode(a, b *parser.Program) bool {
	var sa, sb strings.Builder
	_ = a.Disassemble(&sa)
	_ = b.Disassemble(&sb)
	return sa.String() != sb.String()
}

func firstDiff(a, b string) string {
	i := 0
	for i < len(a) && i < len(b) && a[i] == b[i] {
		i++
	}
	lo := i - 30
	if lo < 0 {
		lo = 0
	}
	hiA, hiB := i+40, i+40
	if hiA > len(a) {
		hiA = len(a)
	}
	if hiB > len(b) {
		hiB = len(b)
	}
	return fmt.Sprintf("at byte %d: expected ...%q got ...%q", i, a[lo:hiA], b[lo:hiB])
}

// c01DiffClass classifies a disagreement narrowly for known findings: it names constructs known
// to be defective on the unchanged tree when the program contains them.
func c01DiffClass(src string, a, b diffrun.Outcome) string {
	if strings.Contains(src, "getline $") {
		return "getline-field-target"
	}
	return ""
}

func c01FaultClass(src string) string {
	if strings.Contains(src, "getline $") {
		return "getline-field-target"
	}
	return ""
}

func init() {
	n := func(t core.Tier, q, th int) int {
		if t == core.Thorough {
			return th
		}
		return q
	}
	core.Register(&core.Property{
		ID:    "C01",
		Level: "exploration",
		Rule: "grammar-directed random programs (families: pure, main-loop, files, commands, run-time errors) plus systematic families (every lvalue kind x assignment form x statement/expression " +
			"position; every comparison x control construct x operand typing) with generated inputs; each program is run on the VM in three equivalent spellings and compared with the reference " +
			"evaluator; non-trivial = distinct (program, input) whose run dispatched more than 5 instructions",
		Assumptions: []string{
			"the reference evaluator (harness/refeval) is the specification of AWK semantics for the modelled fragment; cases outside it are counted as ref_unsupported, not judged",
			"lexer and parser are shared between both sides (checked by C03/C04/C20)",
			"for-in bodies are order-insensitive; rand/srand/time/environment are not generated",
		},
		NBatches: func(t core.Tier) int { return n(t, 16, 64) },
		Floors: func(t core.Tier) map[string]int {
			return map[string]int{"evaluations": n(t, 15000, 200000), "distinct_nontrivial": n(t, 6000, 60000), "ref_agreed": n(t, 4500, 50000),
				"opcode_pairs": 150, "spellings_with_different_code": n(t, 3000, 30000)}
		},
		Run: func(c *core.Ctx) {
			if err := diffrun.Prepare(c.WorkDir()); err != nil {
				c.Inconclusive("chdir: " + err.Error())
				return
			}
			rng := c.Rand("cases")
			sysCases := systematicCases()
			for i, cs := range sysCases {
				if c.Mine(i) {
					c01RunCase(c, cs, "C01")
					c.Count("systematic_cases", 1)
				}
			}
			total := n(c.Tier, 9600, 120000) / c.NBatches
			for i := 0; i < total; i++ {
				fam := c01Families[rng.Intn(len(c01Families))]
				cs := c01Generate(rng.Int63(), fam)
				c.Count("family_"+fam, 1)
				c01RunCase(c, cs, "C01")
			}
		},
		Finish: func(a *core.Agg, t core.Tier) {
			// report the defined (opcode, sub-op) pairs never reached
			var missing []string
			seen := map[string]bool{}
			for _, it := range a.CoverItems("opcode_pairs") {
				seen[strings.SplitN(it, "/", 2)[0]] = true
			}
			for _, name := range allOpcodeNames() {
				if !seen[name] {
					missing = append(missing, name)
				}
			}
			sort.Strings(missing)
			a.Notes = append(a.Notes, "opcodes never executed in this run: "+strings.Join(missing, " "))
		},
		Replay: func(c *core.Ctx, raw json.RawMessage) {
			var cs genCase
			if json.Unmarshal(raw, &cs) != nil {
				return
			}
			if err := diffrun.Prepare(c.WorkDir()); err != nil {
				return
			}
			fmt.Printf("program:\n%s\nstdin: %q args: %q vars: %q\n", cs.Src, cs.Env.Stdin, cs.Env.Args, cs.Env.Vars)
			c01RunCase(c, cs, "C01")
		},
	})
}
