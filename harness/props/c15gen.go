package props

// C15 workload: AWK programs with script-callable cancellation points.
//
// Every program talks to the harness through native functions (see c15Env.funcs):
//
//	tick()   counts calls; the K-th call cancels the context (the cancellation point)
//	cancel() cancels the context immediately
//	mark()   counts calls and returns the count; every output line of a program is "L" mark(),
//	         so the harness knows, without a model of the program, that lines L1..L<marks> have
//	         been printed by statements that completed before the cancellation point
//	pre()    records the step counter just before a statement that will block in a child wait
//	post()   records that the blocking statement returned
//
// Rule the templates obey: no tick()/cancel() is evaluated between a mark() and the print
// that consumes it (arguments are evaluated left to right, so a ticking argument comes first).
// All programs are finite, so the uncancelled run is the reference for the cancelled one.
//
// %OUT%, %IN%, %MARK% in a source are replaced by scratch paths at run time.

import (
	"fmt"
	"math/rand"
	"strings"

	"verifharness/core"
)

// c15Prog is one generated program.
type c15Prog struct {
	Construct string   // where the cancellation point sits (evidence: placements by construct)
	Src       string   // AWK source
	NRec      int      // records on stdin
	NIn       int      // lines in the %IN% file (0 = file not used)
	Dest      string   // "stdout" or "file": where the L<i> lines go
	Explicit  bool     // the program calls cancel() itself (K is not used)
	Cover     []string // extra coverage items "set=item"
}

// c15P returns one spelling of "print the next numbered line on standard output".
func c15P(rng *rand.Rand) string {
	switch rng.Intn(5) {
	case 0:
		return `printf "%s\n", "L" mark()`
	case 1:
		return `printf("L%d\n", mark())`
	case 2:
		return `print "L" mark() > "/dev/stdout"`
	default:
		return `print "L" mark()`
	}
}

// c15Every returns "if (<v> % D == 0) P" with a random density, or nothing.
func c15Every(rng *rand.Rand, v string) string {
	switch rng.Intn(4) {
	case 0:
		return ""
	case 1:
		return "; " + c15P(rng)
	default:
		return fmt.Sprintf("; if (%s %% %d == 0) %s", v, 1+rng.Intn(200), c15P(rng))
	}
}

func c15Between(rng *rand.Rand, lo, hi int) int {
	if hi <= lo {
		return lo
	}
	return lo + rng.Intn(hi-lo+1)
}

func c15Bucket(n int) string {
	switch {
	case n < 10:
		return "1-9"
	case n < 100:
		return "10-99"
	case n < 500:
		return "100-499"
	case n < 1000:
		return "500-999"
	case n < 10000:
		return "1e3-1e4"
	case n < 100000:
		return "1e4-1e5"
	default:
		return ">=1e5"
	}
}

// c15Templates is the list of program generators; sc scales loop bounds (1 = quick).
var c15Templates = []func(rng *rand.Rand, sc int) c15Prog{
	// ---- loops in BEGIN -------------------------------------------------------------------
	func(rng *rand.Rand, sc int) c15Prog {
		t := c15Between(rng, 300, 3000*sc)
		return c15Prog{Construct: "while-tight", Dest: "stdout",
			Src: fmt.Sprintf(`BEGIN { while (i < %d) { i++; tick(); x = x + i%s } %s }`, t, c15Every(rng, "i"), c15P(rng))}
	},
	func(rng *rand.Rand, sc int) c15Prog {
		a, b := c15Between(rng, 5, 60), c15Between(rng, 5, 60*sc)
		return c15Prog{Construct: "for-nested", Dest: "stdout",
			Src: fmt.Sprintf(`BEGIN { for (i = 0; i < %d; i++) { for (j = 0; j < %d; j++) { tick(); s += j } %s } }`, a, b, c15P(rng))}
	},
	func(rng *rand.Rand, sc int) c15Prog {
		t := c15Between(rng, 300, 3000*sc)
		return c15Prog{Construct: "do-while", Dest: "stdout",
			Src: fmt.Sprintf(`BEGIN { do { tick(); n++%s } while (n < %d); %s }`, c15Every(rng, "n"), t, c15P(rng))}
	},
	func(rng *rand.Rand, sc int) c15Prog {
		t := c15Between(rng, 300, 2000*sc)
		return c15Prog{Construct: "while-break-continue", Dest: "stdout",
			Src: fmt.Sprintf(`BEGIN { while (1) { i++; if (i %% 3 == 0) continue; tick(); if (i > %d) break%s } %s }`, t, c15Every(rng, "i"), c15P(rng))}
	},
	func(rng *rand.Rand, sc int) c15Prog {
		t := c15Between(rng, 200, 1500*sc)
		return c15Prog{Construct: "builtins-loop", Dest: "stdout",
			Src: fmt.Sprintf(`BEGIN { s = "aaaa bbbb cccc"; for (i = 0; i < %d; i++) { tick(); n += split(s, parts, " "); t = s; gsub(/b+/, "x", t); u = sprintf("%%05d", i) substr(t, 2, 3); if (length(u) < 0) n = 0%s } %s }`,
				t, c15Every(rng, "i"), c15P(rng))}
	},
	func(rng *rand.Rand, sc int) c15Prog {
		t := c15Between(rng, 100, 800*sc)
		return c15Prog{Construct: "fields-loop", Dest: "stdout", NRec: c15Between(rng, 1, 4),
			Src: fmt.Sprintf(`{ for (i = 0; i < %d; i++) { $((i %% 5) + 1) = i; tick(); n += NF } %s }`, t, c15P(rng))}
	},
	// ---- nested calls ---------------------------------------------------------------------
	func(rng *rand.Rand, sc int) c15Prog {
		t := c15Between(rng, 300, 3000*sc)
		return c15Prog{Construct: "call-in-tight-loop", Dest: "stdout",
			Src: fmt.Sprintf(`function g() { tick(); return 1 }
BEGIN { while (i < %d) { i += g()%s } %s }`, t, c15Every(rng, "i"), c15P(rng))}
	},
	func(rng *rand.Rand, sc int) c15Prog {
		d := []int{1, 2, 5, 20, 100, 400, 900}[rng.Intn(7)]
		d = c15Between(rng, (d+1)/2, d)
		t := c15Between(rng, 3, 4+20000*sc/(10*d+10))
		return c15Prog{Construct: "recursion-leaf", Dest: "stdout", Cover: []string{"recursion_depths=" + c15Bucket(d)},
			Src: fmt.Sprintf(`function r(d) { if (d > 0) return r(d - 1) + 1; tick(); return 0 }
BEGIN { for (i = 0; i < %d; i++) { v = r(%d); %s } }`, t, d, c15P(rng))}
	},
	func(rng *rand.Rand, sc int) c15Prog {
		d := []int{1, 3, 10, 50, 200, 600, 900}[rng.Intn(7)]
		d = c15Between(rng, (d+1)/2, d)
		t := c15Between(rng, 3, 4+20000*sc/(10*d+10))
		return c15Prog{Construct: "recursion-descent", Dest: "stdout", Cover: []string{"recursion_depths=" + c15Bucket(d)},
			Src: fmt.Sprintf(`function r(d) { tick(); if (d > 0) r(d - 1); return d }
BEGIN { for (i = 0; i < %d; i++) { r(%d); %s } }`, t, d, c15P(rng))}
	},
	func(rng *rand.Rand, sc int) c15Prog {
		d := c15Between(rng, 1, 220) // even(2d) -> odd(2d-1) -> even(2d-1) -> ...: call depth 4d
		t := c15Between(rng, 3, 4+10000*sc/(40*d+10))
		return c15Prog{Construct: "recursion-mutual", Dest: "stdout", Cover: []string{"recursion_depths=" + c15Bucket(4*d)},
			Src: fmt.Sprintf(`function even(d) { if (d == 0) { tick(); return 1 } return odd(d - 1) }
function odd(d) { tick(); return even(d) }
BEGIN { for (i = 0; i < %d; i++) { if (even(%d)) %s } }`, t, 2*d, c15P(rng))}
	},
	func(rng *rand.Rand, sc int) c15Prog {
		t := c15Between(rng, 100, 1500*sc)
		return c15Prog{Construct: "printf-argument", Dest: "stdout",
			Src: fmt.Sprintf(`function f(x) { tick(); return x * 2 }
BEGIN { for (i = 0; i < %d; i++) printf "%%.0s%%s\n", f(i), "L" mark() }`, t)}
	},
	// ---- for-in ---------------------------------------------------------------------------
	func(rng *rand.Rand, sc int) c15Prog {
		m := []int{10, 100, 1000, 5000}[rng.Intn(4)]
		if sc > 1 && rng.Intn(4) == 0 {
			m = []int{20000, 100000}[rng.Intn(2)]
		}
		m = c15Between(rng, m/2+5, m)
		return c15Prog{Construct: "for-in", Dest: "stdout", Cover: []string{"forin_sizes=" + c15Bucket(m)},
			Src: fmt.Sprintf(`BEGIN { for (i = 0; i < %d; i++) a[i] = i; %s; for (k in a) { tick(); n++%s } %s }`, m, c15P(rng), c15Every(rng, "n"), c15P(rng))}
	},
	func(rng *rand.Rand, sc int) c15Prog {
		m1, m2 := c15Between(rng, 10, 100), c15Between(rng, 10, 60*sc)
		return c15Prog{Construct: "for-in-nested-short-bodies", Dest: "stdout", Cover: []string{"forin_sizes=" + c15Bucket(m1)},
			Src: fmt.Sprintf(`BEGIN { for (i = 0; i < %d; i++) a[i]; for (i = 0; i < %d; i++) b[i]; for (k in a) for (j in b) tick(); %s }`, m1, m2, c15P(rng))}
	},
	func(rng *rand.Rand, sc int) c15Prog {
		m, r := c15Between(rng, 10, 400), c15Between(rng, 3, 10*sc)
		return c15Prog{Construct: "for-in-in-function", Dest: "stdout", Cover: []string{"forin_sizes=" + c15Bucket(m)},
			Src: fmt.Sprintf(`function walk(arr,   k, c) { for (k in arr) { tick(); c++ } return c }
BEGIN { for (i = 0; i < %d; i++) a[i] = i; for (r = 0; r < %d; r++) { n += walk(a); %s } }`, m, r, c15P(rng))}
	},
	func(rng *rand.Rand, sc int) c15Prog {
		m, r := c15Between(rng, 20, 200), c15Between(rng, 50, 400*sc)
		return c15Prog{Construct: "for-in-break", Dest: "stdout", Cover: []string{"forin_sizes=" + c15Bucket(m)},
			Src: fmt.Sprintf(`BEGIN { for (i = 0; i < %d; i++) a[i]; for (r = 0; r < %d; r++) { c = 0; for (k in a) { tick(); if (++c > 5) break } %s } }`, m, r, c15P(rng))}
	},
	// ---- main loop: patterns, ranges, rules --------------------------------------------------
	func(rng *rand.Rand, sc int) c15Prog {
		return c15Prog{Construct: "pattern-expression", Dest: "stdout", NRec: c15Between(rng, 300, 2500*sc),
			Src: fmt.Sprintf(`tick() > 0 { n++ }
$1 ~ /^r/ && n %% %d == 0 { %s }
END { %s }`, 1+rng.Intn(100), c15P(rng), c15P(rng))}
	},
	func(rng *rand.Rand, sc int) c15Prog {
		return c15Prog{Construct: "range-pattern", Dest: "stdout", NRec: c15Between(rng, 300, 2000*sc),
			Src: fmt.Sprintf(`tick() %% 7 == 3, tick() %% 5 == 0 { %s }
END { %s }`, c15P(rng), c15P(rng))}
	},
	func(rng *rand.Rand, sc int) c15Prog {
		return c15Prog{Construct: "main-rule", Dest: "stdout", NRec: c15Between(rng, 300, 2500*sc),
			Src: fmt.Sprintf(`{ x = $1; tick(); if (NR %% 3 == 0) next%s }
END { %s }`, c15Every(rng, "NR"), c15P(rng))}
	},
	func(rng *rand.Rand, sc int) c15Prog {
		// One tick early on, then thousands of records whose actions are a few instructions each:
		// the poll has to carry across records.
		n := c15Between(rng, 1500, 4000*sc)
		return c15Prog{Construct: "main-short-actions", Dest: "stdout", NRec: n,
			Src: fmt.Sprintf(`NR == %d { tick() }
{ n += NF }
NR %% 500 == 0 { %s }
END { %s }`, 1+rng.Intn(n/3), c15P(rng), c15P(rng))}
	},
	func(rng *rand.Rand, sc int) c15Prog {
		return c15Prog{Construct: "begin-then-main", Dest: "stdout", NRec: c15Between(rng, 1500, 4000*sc),
			Src: fmt.Sprintf(`BEGIN { %s; tick() }
{ n++ }
END { %s }`, c15P(rng), c15P(rng))}
	},
	func(rng *rand.Rand, sc int) c15Prog {
		return c15Prog{Construct: "next-in-function", Dest: "stdout", NRec: c15Between(rng, 300, 2000*sc),
			Src: fmt.Sprintf(`function h() { tick(); if (NR %% 2) next }
{ h(); %s }`, c15P(rng))}
	},
	func(rng *rand.Rand, sc int) c15Prog {
		return c15Prog{Construct: "getline-stdin", Dest: "stdout", NRec: c15Between(rng, 300, 2500*sc),
			Src: fmt.Sprintf(`BEGIN { while ((getline line) > 0) { tick(); n++%s } %s }`, c15Every(rng, "n"), c15P(rng))}
	},
	func(rng *rand.Rand, sc int) c15Prog {
		return c15Prog{Construct: "getline-file", Dest: "stdout", NIn: c15Between(rng, 300, 2500*sc),
			Src: fmt.Sprintf(`BEGIN { while ((getline line < "%%IN%%") > 0) { tick(); n++%s } close("%%IN%%"); %s }`, c15Every(rng, "n"), c15P(rng))}
	},
	// ---- END ------------------------------------------------------------------------------
	func(rng *rand.Rand, sc int) c15Prog {
		t := c15Between(rng, 300, 3000*sc)
		return c15Prog{Construct: "end-block", Dest: "stdout", NRec: c15Between(rng, 0, 30),
			Src: fmt.Sprintf(`{ n++ }
NR %% 7 == 0 { %s }
END { for (i = 0; i < %d; i++) { tick(); x += n%s } %s }`, c15P(rng), t, c15Every(rng, "i"), c15P(rng))}
	},
	func(rng *rand.Rand, sc int) c15Prog {
		t1, t2 := c15Between(rng, 1, 300), c15Between(rng, 300, 2500*sc)
		return c15Prog{Construct: "exit-then-end", Dest: "stdout",
			Src: fmt.Sprintf(`BEGIN { for (i = 0; i < %d; i++) tick(); %s; exit 3 }
END { for (i = 0; i < %d; i++) { tick(); x++ } %s }`, t1, c15P(rng), t2, c15P(rng))}
	},
	func(rng *rand.Rand, sc int) c15Prog {
		// for-in inside a function called from END, reading a file inside: deep mix
		return c15Prog{Construct: "end-function-forin-getline", Dest: "stdout", NRec: c15Between(rng, 5, 40*sc), NIn: c15Between(rng, 5, 40),
			Src: fmt.Sprintf(`function inner(arr,   k, line, c) { for (k in arr) { while ((getline line < "%%IN%%") > 0) { tick(); c++ } close("%%IN%%") } return c }
{ a[NR] = $1 }
END { n = inner(a); %s }`, c15P(rng))}
	},
	// ---- output to a file: between print and close ----------------------------------------------
	func(rng *rand.Rand, sc int) c15Prog {
		t := c15Between(rng, 200, 2000*sc)
		return c15Prog{Construct: "print-file-then-close", Dest: "file",
			Src: fmt.Sprintf(`BEGIN { for (i = 0; i < %d; i++) { print "L" mark() > "%%OUT%%"; tick() } close("%%OUT%%"); for (j = 0; j < 300; j++) x++ }`, t)}
	},
	func(rng *rand.Rand, sc int) c15Prog {
		t := c15Between(rng, 100, 500*sc)
		d := c15Between(rng, 1, 40)
		return c15Prog{Construct: "print-append-close-reopen", Dest: "file",
			Src: fmt.Sprintf(`BEGIN { for (i = 0; i < %d; i++) { printf "L%%d\n", mark() >> "%%OUT%%"; tick(); if (i %% %d == 0) close("%%OUT%%") } }`, t, d)}
	},
	// ---- the script cancels by itself ---------------------------------------------------------
	func(rng *rand.Rand, sc int) c15Prog {
		t := c15Between(rng, 1500, 4000*sc)
		return c15Prog{Construct: "explicit-cancel", Dest: "stdout", Explicit: true,
			Src: fmt.Sprintf(`BEGIN { for (i = 0; i < %d; i++) { if (i == %d) cancel(); x += i%s } %s }`, t, rng.Intn(t), c15Every(rng, "i"), c15P(rng))}
	},
}

// c15Infinite are never-ending programs for real timer expiry (no reference run exists).
var c15Infinite = []struct{ construct, src string }{
	{"timer-while", `BEGIN { while (1) { i++; if (i % 1000 == 0) print "L" mark() } }`},
	{"timer-recursion", `function f(d) { if (d > 0) return f(d - 1); return 0 }
BEGIN { while (1) { f(50); if (++i % 100 == 0) print "L" mark() } }`},
	{"timer-for-in", `BEGIN { for (i = 0; i < 500; i++) a[i]; while (1) { for (k in a) n++; print "L" mark() } }`},
	{"timer-main-rule", `{ while (1) n++ }`},
	{"timer-end", `END { while (1) { n++; if (n % 5000 == 0) print "L" mark() } }`},
}

// c15Blocked are the programs that block in a child wait. %CMD% is `mark:%MARK%;block`
// (the child creates the marker file, then never exits), %TAIL% is the work after the wait.
var c15Blocked = []struct {
	form string
	src  string
	nrec int
	mode string // "async": cancelled by the harness after the marker exists; "scripted": by tick()
}{
	{"system-begin", `BEGIN { print "L" mark(); pre(); r = system("%CMD%"); post(); %TAIL% }`, 0, "async"},
	{"system-function-forin", `function f(a,   k, r) { for (k in a) { pre(); r = system("%CMD%"); post() } return r }
BEGIN { a[1]; print "L" mark(); f(a); %TAIL% }`, 0, "async"},
	{"system-main-rule", `NR == 3 { pre(); system("%CMD%"); post() }
{ print "L" mark() }
END { %TAIL% }`, 5, "async"},
	{"system-end", `{ print "L" mark() }
END { pre(); system("%CMD%"); post(); %TAIL% }`, 3, "async"},
	{"system-printf-argument", `BEGIN { pre(); printf "%.0s%s\n", system("%CMD%"), "L" mark(); post(); %TAIL% }`, 0, "async"},
	{"system-pattern", `NR == 2 && pre() && system("%CMD%") > 0 { print "L" mark() }
END { post(); %TAIL% }`, 4, "async"},
	{"pipe-close", `BEGIN { print "L" mark(); pre(); print "x" | "%CMD%"; r = close("%CMD%"); post(); %TAIL% }`, 0, "async"},
	{"pipe-end-of-run", `BEGIN { print "L" mark(); pre(); print "x" | "%CMD%"; post() }`, 0, "async"},
	{"pipe-end-of-run-END", `{ print "L" mark() }
END { pre(); printf "y\n" | "%CMD%"; post() }`, 3, "async"},
	{"pipe-then-work", `BEGIN { pre(); print "x" | "%CMD%"; post(); for (i = 0; i < 5000; i++) { tick(); if (i % 100 == 0) print "L" mark() } }`, 0, "scripted"},
	{"getline-pipe", `BEGIN { print "L" mark(); pre(); r = ("%CMD%" | getline x); post(); %TAIL% }`, 0, "async"},
	{"getline-pipe-main-rule", `NR == 2 { pre(); "%CMD%" | getline; post() }
{ print "L" mark() }
END { %TAIL% }`, 4, "async"},
	{"getline-pipe-while", `BEGIN { pre(); while (("%CMD%" | getline line) > 0) n++; post(); %TAIL% }`, 0, "async"},
	{"getline-pipe-after-first-line", `BEGIN { pre(); while (("emit:hello;%CMD%" | getline line) > 0) { n++; print "L" mark() } post(); %TAIL% }`, 0, "async"},
	{"getline-pipe-in-recursion", `function r(d,   x) { if (d > 0) return r(d - 1); pre(); "%CMD%" | getline x; post(); return 0 }
BEGIN { print "L" mark(); r(50); %TAIL% }`, 0, "async"},
	{"getline-pipe-then-close", `BEGIN { pre(); "%CMD%" | getline x; post(); close("%CMD%"); %TAIL% }`, 0, "async"},
	// the child never reads: the interpreter blocks in the write once the pipe is full; killing the
	// child turns the write into EPIPE, a secondary error that must not replace the context's
	{"pipe-write-blocked", `BEGIN { s = sprintf("%70000s", "x"); print "L" mark(); pre(); for (i = 0; i < 60; i++) print s | "%CMD%"; post(); %TAIL% }`, 0, "async"},
	// the same in END, in a function called from END, and in a main rule: the secondary error
	// surfaces on the error path of those blocks
	{"pipe-write-blocked-END", `{ print "L" mark() }
END { s = sprintf("%70000s", "x"); pre(); for (i = 0; i < 60; i++) print s | "%CMD%"; post(); %TAIL% }`, 3, "async"},
	{"pipe-write-blocked-END-function", `function w(   i, s) { s = sprintf("%70000s", "x"); pre(); for (i = 0; i < 60; i++) printf "%s\n", s | "%CMD%"; post() }
END { print "L" mark(); w(); %TAIL% }`, 0, "async"},
	{"pipe-write-blocked-main-rule", `NR == 2 { s = sprintf("%70000s", "x"); pre(); for (i = 0; i < 60; i++) print s | "%CMD%"; post() }
{ print "L" mark() }
END { %TAIL% }`, 4, "async"},
	// a background grandchild keeps the command's stdout/stderr open after the command is killed:
	// the call must still return (goawk bounds its wait for the output copier)
	{"system-grandchild-holds-pipe", `BEGIN { print "L" mark(); pre(); r = system("spawnhold:%HOLD%;mark:%MARK%;block"); post(); %TAIL% }`, 0, "async"},
	{"pipe-close-grandchild-holds-pipe", `BEGIN { print "L" mark(); pre(); print "x" | "spawnhold:%HOLD%;mark:%MARK%;block"; r = close("spawnhold:%HOLD%;mark:%MARK%;block"); post(); %TAIL% }`, 0, "async"},
	// the same with standard output being a file of the caller: only the error stream goes through a copier
	{"system-grandchild-holds-stderr", `BEGIN { print "L" mark(); pre(); r = system("spawnhold:%HOLD%;mark:%MARK%;block"); post(); %TAIL% }`, 0, "async"},
	{"two-children", `BEGIN { print "L" mark(); pre(); print "x" | "%CMD%"; "block" | getline y; post(); %TAIL% }`, 0, "async"},
}

// c15Subproc are short programs that start child processes (through vsh); they are run under
// contexts that never fire, and again with Execute on the same Interpreter after that context has
// been cancelled (a finished call must leave nothing of its context behind).
var c15Subproc = []struct {
	construct, src string
	nrec           int
}{
	{"sub-system", `BEGIN { for (i = 0; i < 3; i++) { r = system("mark:%MARK%;exit:" i); print "L" mark(); if (r != i) print "BAD " r } }`, 0},
	{"sub-getline-pipe", `BEGIN { while (("lines:x:5" | getline v) > 0) { n++; print "L" mark() } close("lines:x:5"); if (n != 5) print "BAD " n }`, 0},
	{"sub-print-pipe", `{ print $1 | "catto:%OUT%" }
END { r = close("catto:%OUT%"); print "L" mark(); if (r != 0) print "BAD " r }`, 4},
	{"sub-print-pipe-end-of-run", `{ print $1 | "catto:%OUT%" }`, 5},
	{"sub-mixed-main-rule", `NR % 2 { system("mark:%MARK%") }
{ "emit:k" NR | getline v; close("emit:k" NR); print "L" mark(); if (v != "k" NR) print "BAD " v }`, 6},
	{"sub-process-group", `BEGIN { "pgrp" | getline g; close("pgrp"); print "L" mark(); if (g != "pgrp-same") print "BAD " g; r = system("pgrp"); print "L" mark() }`, 0},
	{"sub-in-function-END", `function f(   v) { "emit:z" | getline v; close("emit:z"); return v system("exit:0") }
END { print "L" mark(); if (f() != "z0") print "BAD" }`, 2},
}

var c15Tails = []struct{ name, src string }{
	{"short", `print "L" mark()`},
	{"long", `for (i = 0; i < 100000; i++) x++; print "L" mark()`},
}

func c15BlockedSrc(form, tail int) string {
	s := c15Blocked[form].src
	s = strings.ReplaceAll(s, "%TAIL%", c15Tails[tail].src)
	return strings.ReplaceAll(s, "%CMD%", "mark:%MARK%;block")
}

// c15Stdin builds n input records.
func c15Stdin(n int) string {
	var sb strings.Builder
	for i := 1; i <= n; i++ {
		fmt.Fprintf(&sb, "r%d a b\n", i)
	}
	return sb.String()
}

// c15Lines parses "L1\nL2\n...Lm\n" and returns m; ok=false if the text is anything else.
func c15Lines(s string) (m int, ok bool) {
	for len(s) > 0 {
		want := fmt.Sprintf("L%d\n", m+1)
		if !strings.HasPrefix(s, want) {
			return m, false
		}
		s = s[len(want):]
		m++
	}
	return m, true
}

func c15Tail(s string) string {
	if len(s) > 120 {
		s = "..." + s[len(s)-120:]
	}
	return core.Q(s)
}
