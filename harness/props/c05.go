package props

// C05 — number/string conversion and comparison typing follow the AWK value model.
//
// Monitor: probe programs (package c05probe) run on the real interpreter; every value is
// delivered as DATA in each provenance (field, $0, getline forms, split, ARGV, ENVIRON, Vars,
// var=value operand, CSV field, literals, computed strings, numbers, unset) and a fixed battery
// of ~600 boolean probes plus text/arithmetic probes is printed length-prefixed.  Oracles:
// (1) consistency laws checked on the real outputs alone — all comparison and truth probes of a
// value must be explained by ONE comparison mode and ONE number, every arithmetic use sees the
// same number, the algebraic laws between the six operators hold for pairs; (2) the value model
// of package c05model written from the property text (exact decimal prefix conversion with
// math/big, "looks numeric" grammar, integer-exact / libc-printf number formatting).

import (
	"encoding/json"
	"fmt"
	"math"
	"math/rand"
	"path/filepath"
	"runtime/debug"
	"strconv"
	"strings"

	"verifharness/c05model"
	"verifharness/c05probe"
	"verifharness/core"
)

// ---- value generators ---------------------------------------------------------------------

// The numeric alphabet of the exhaustive family (DESIGN.md C05).
const c05Alphabet = "019.+-eEx \ta"

func c05ExhaustiveTotal(maxLen int) int {
	t, p := 0, 1
	for l := 0; l <= maxLen; l++ {
		t += p
		p *= len(c05Alphabet)
	}
	return t
}

// c05ExhaustiveString maps i (0 <= i < total) to the i-th string in length-then-lexicographic order.
func c05ExhaustiveString(i int) []byte {
	l, p := 0, 1
	for i >= p {
		i -= p
		p *= len(c05Alphabet)
		l++
	}
	b := make([]byte, l)
	for k := l - 1; k >= 0; k-- {
		b[k] = c05Alphabet[i%len(c05Alphabet)]
		i /= len(c05Alphabet)
	}
	return b
}

// Curated strings: every spelling class the property and DESIGN.md name.
var c05Curated = []string{
	"", " ", "\t", "0", "1", "5", "-5", "+5", " 5", "5 ", " 5 ", "\t5\t", "- 5", "+ 5", "5.", ".5", "5.0", "0.5", "-.5", "+.5e1", ".", "+", "-", "e", "e5", ".e5",
	"1e5", "1E5", "1e+5", "1e-5", "1e", "1e+", "1e-", "1.e5", "1.5e3x", "1e5e5", "1.2.3", "1..2", "++1", "+-1", "-+1", "--1", "1 e5", "1e 5", "1E+05", "1e05",
	"007", "0.0", "-0", "-0.0", "+0", "0e0", "0e999", ".0", "0.", "00", "-0e5", "1,5", "1,000", "$5", "5%", "1d5", "1f", "1L", "0b1", "0o7", "10", "10 ", "010", "1 0", "1 2",
	"abc", "a1", "1a", "5x", "x5", "  12abc", "12 abc",
	// control characters that strtod-style readers skip as blanks (the model is silent; one notion of a blank is demanded)
	"\n5", "\r5", "\f5", "\v5", "\n100", " \n5", "\n 5", "5\n", "5\r", "\n0", "\n-3.5e1 ", "\r\n12", "\n9.5", "\v+7", "\f.5", "\n5x", "\n", "\r\n",
	// magnitudes
	"9007199254740992", "9007199254740993", "9007199254740994", "-9007199254740993", "9223372036854775807", "9223372036854775808", "-9223372036854775808",
	"-9223372036854775809", "18446744073709551615", "18446744073709551616", "1e15", "1e16", "999999999999999999999", "123456789012345678901234567890",
	"0.1", "0.30000000000000004", "0.1e1", "1e300", "1e308", "1.7976931348623157e308", "1.7976931348623158e308", "1.7976931348623159e308", "1e309", "1e400", "-1e400", "1e999999999",
	"1e-300", "2.2250738585072014e-308", "2.2250738585072011e-308", "4.9e-324", "2.4703282292062327e-324", "2.4703282292062328e-324", "2.5e-324", "1e-400", "1e-999999999", "-1e-400",
	"0.000000000000000000000000000001", "100000000000000000000.0000000001", "3.141592653589793238462643383279", "1000000", "1e6", "999999.5", "0.50", "0.5000000000", "5e-1",
	// don't-care spellings (laws only)
	"nan", "+nan", "-nan", "NaN", "NAN", "nano", "inf", "-inf", "+inf", "Inf", "INF", "infinity", "-Infinity", "Infinityx", "info", "in", "na", " nan ", " inf ",
	"0x", "0X1", "0x1A", "0x1a", "-0x1A", "+0x10", "0x1p3", "0x1P-2", "0x.8", "0x1.", "0x1.8p1", "0xg", "0x1g", " 0x11 ", "0x1e+5", "0x_1", "0x1_0", "1_0", "1_000", "_1", "1_",
	"\n1", "1\n", "\r1", "1\r", "\v1", "\f1", "1\v", "1\f", " \n 1 \n ", "1\r\n", "\n", "\r",
	// non-ASCII blanks and look-alikes
	"\u00a05", "5\u00a0", "\u00a05\u00a0", "\u00a0", "\u00855", "5\u0085", "\u16805", "\u20005", "\u20035", "5\u2003", "\u20285", "\u20295", "\u202f5", "\u205f5", "\u30005", "5\u3000",
	" \u00a05", "\u00a0 5", "\u00a05x", "\u00a0abc", "\u00a0-1.5e3\u00a0", "\u00a00x1A", "\u00a0nan", "\u00a0 ", "\ufeff5", "\u200b5", "\u180e5", "5\ufeff", "\u00a0\u00a0", "\u3000+0",
	"\xa05", "\x855", "\xc25", "5\xc2", "\xff", "\xff5", "5\xff", "\xe3\x805",
	"\uff11\uff12", "\u0663", "1\x005", "\x005", "5\x00", "\x00", "1\x00", "\uff15",
}

var c05Tokens = []string{
	" ", " ", "\t", "\n", "\r", "\v", "\f", "\u00a0", "\u0085", "\u2003", "\u3000", "\u1680", "\u2028", "\u202f", "\ufeff", "\u200b", "\xa0", "\xc2", "\x00",
	"+", "-", "+", "-", ".", ".", "e", "E", "e+", "e-", "E+", "0", "1", "5", "9", "00", "10", "123", "999", "0", "7",
	"9007199254740993", "9223372036854775808", "4.9", "324", "308", "400", "17976931348623157", "000000000000", "99999999999999999999",
	"0x", "0X", "a", "f", "p", "P", "p3", "x", "inf", "nan", "INF", "NaN", "infinity", "_", ",", "abc", "L", "d",
}

func c05RandomString(rng *rand.Rand) []byte {
	var sb strings.Builder
	switch rng.Intn(4) {
	case 0: // number-shaped: [blanks][sign]digits[.digits][e[sign]digits][blanks] with defects
		blank := func() {
			for n := rng.Intn(3); n > 0; n-- {
				sb.WriteString(c05Tokens[rng.Intn(19)])
			}
		}
		digits := func(max int) {
			for n := rng.Intn(max + 1); n > 0; n-- {
				sb.WriteByte(byte('0' + rng.Intn(10)))
			}
		}
		if rng.Intn(2) == 0 {
			blank()
		}
		if rng.Intn(3) == 0 {
			sb.WriteString([]string{"+", "-", "-", "+-", " "}[rng.Intn(5)])
		}
		if rng.Intn(12) == 0 {
			sb.WriteString([]string{"0x", "0X", "inf", "nan"}[rng.Intn(4)])
		}
		digits([]int{1, 3, 8, 20, 40}[rng.Intn(5)])
		if rng.Intn(2) == 0 {
			sb.WriteByte('.')
			digits([]int{1, 3, 8, 20, 40}[rng.Intn(5)])
		}
		if rng.Intn(3) == 0 {
			sb.WriteString([]string{"e", "E", "e+", "e-", "E-", "p"}[rng.Intn(6)])
			sb.WriteString(strconv.Itoa(rng.Intn([]int{5, 40, 330, 5000}[rng.Intn(4)])))
		}
		if rng.Intn(6) == 0 {
			sb.WriteString(c05Tokens[rng.Intn(len(c05Tokens))])
		}
		if rng.Intn(2) == 0 {
			blank()
		}
	default: // token soup
		for n := 1 + rng.Intn(7); n > 0; n-- {
			sb.WriteString(c05Tokens[rng.Intn(len(c05Tokens))])
		}
	}
	b := []byte(sb.String())
	for i := range b { // the two separator bytes are never part of a value
		if b[i] == c05probe.RS || b[i] == c05probe.FS {
			b[i] = '?'
		}
	}
	return b
}

// ---- numbers --------------------------------------------------------------------------------

// CONVFMT / OFMT values: the six of DESIGN.md first, then more of the e/f/g family with flags,
// width and precision.
var c05Formats = []string{"%.6g", "%.3g", "%.10g", "%.2f", "%e", "%5.1f",
	"%.17g", "%g", "%G", "%E", "%.0f", "%10.3e", "%-8.2f", "%+.4g", "% .3f", "%08.3f", "%#.3g", "%.0e", "%.1g", "%.20g", "<%.3f>", "%.30f", "%f", "%.15g"}

type c05NumSpec struct {
	src string
	val float64
}

func c05Lit(x float64) string {
	s := strconv.FormatFloat(x, 'g', 17, 64)
	if x < 0 || (x == 0 && math.Signbit(x)) {
		return "(" + s + ")"
	}
	return s
}

// c05ExprNumbers are numbers made by AWK expressions (value computed here with the same
// float64 operations).
func c05ExprNumbers() []c05NumSpec {
	p := math.Pow
	one, ten := 1.0, 10.0
	return []c05NumSpec{
		{"2^53", p(2, 53)}, {"2^53+1", p(2, 53) + one}, {"2^53+2", p(2, 53) + 2*one}, {"2^53-1", p(2, 53) - one}, {"-(2^53)-2", -p(2, 53) - 2*one},
		{"2^63", p(2, 63)}, {"-(2^63)", -p(2, 63)}, {"2^63-1024", p(2, 63) - 1024*one}, {"-(2^63)-2048", -p(2, 63) - 2048*one}, {"2^64", p(2, 64)}, {"2^62", p(2, 62)},
		{"1e15+1", 1e15 + one}, {"1e15-1", 1e15 - one}, {"1e15+0.5", 1e15 + 0.5*one}, {"1e16", 1e16}, {"1e17", 1e17}, {"1e18", 1e18}, {"1e19", 1e19}, {"1e30", 1e30}, {"-1e30", -1e30},
		{"2^-1074", p(2, -1074)}, {"2^-1022", p(2, -1022)}, {"2^-1030", p(2, -1030)}, {"1e300*10", 1e300 * ten}, {"1e300*1e10", math.Inf(1)}, {"-1e300*1e10", math.Inf(-1)},
		{"log(-1)", math.NaN()}, {"-log(0)", math.Inf(1)}, {"log(0)", math.Inf(-1)}, {"-log(-1)", math.NaN()},
		{"0.1+0.2", 0.1*one + 0.2*one}, {"1/3", one / 3}, {"2/3", 2 * one / 3}, {"-1/3", -one / 3}, {"1e6", 1e6}, {"100000*10", 100000 * ten}, {"999999+0.5", 999999 + 0.5*one},
		{"-0", math.Copysign(0, -1)}, {"0*-1", math.Copysign(0, -1)}, {"0", 0}, {"1-1", 0}, {"100", 100}, {"-100", -100}, {"0.5", 0.5}, {"2.5", 2.5}, {"0.125", 0.125}, {"1e-5", 1e-5}, {"123456.7", 123456.7},
		{"1234567.8", 1234567.8}, {"int(3.9)", 3}, {"length(\"abc\")", 3}, {"index(\"abc\", \"c\")", 3}, {"(1<2)", 1}, {"!1", 0}, {"substr(\"x\", 1) == \"x\"", 1}, {"3 % 2", 1}, {"2 ^ 0.5", math.Sqrt2},
		{"1e100", 1e100}, {"1.7976931348623157e308", math.MaxFloat64}, {"4.9e-324", 4.9e-324}, {"123456789012", 123456789012}, {"0.000001", 0.000001}, {"0.0000001", 0.0000001},
		{"100000.5", 100000.5}, {"1000000.5", 1000000.5}, {"99999.95", 99999.95}, {"0.00001234565", 0.00001234565}, {"1.0000005", 1.0000005}, {"9.9999995", 9.9999995},
	}
}

func c05RandomNumber(rng *rand.Rand) float64 {
	for {
		var x float64
		switch rng.Intn(8) {
		case 0: // integer of random magnitude
			x = float64(int64(rng.Uint64() >> uint(rng.Intn(64))))
			if rng.Intn(2) == 0 {
				x = -x
			}
		case 1: // random bits
			x = math.Float64frombits(rng.Uint64())
		case 2: // short decimal
			x, _ = strconv.ParseFloat(fmt.Sprintf("%d.%0*de%d", rng.Intn(10), 1+rng.Intn(6), rng.Intn(1000000)%int(math.Pow10(1+rng.Intn(6))), rng.Intn(30)-9), 64)
		case 3: // half-way and near-integer values
			x = float64(rng.Intn(2000000)) + []float64{0.5, 0.25, 0.05, 0.005, 0.0005, 0.999999, 0.0000001}[rng.Intn(7)]
		case 4: // powers of ten and neighbours
			x = math.Pow10(rng.Intn(45) - 12)
			x = math.Float64frombits(math.Float64bits(x) + uint64(rng.Intn(3)) - 1)
		case 5: // powers of two and neighbours
			x = math.Ldexp(1, rng.Intn(140)-40)
			x = math.Float64frombits(math.Float64bits(x) + uint64(rng.Intn(3)) - 1)
		case 6: // around the int64 and 2^53 edges
			x = []float64{9223372036854775808, 9007199254740992, 1e15, 1e16, 4294967296}[rng.Intn(5)]
			x = math.Float64frombits(math.Float64bits(x) + uint64(rng.Intn(5)) - 2)
			if rng.Intn(2) == 0 {
				x = -x
			}
		default: // six or seven significant digits: the %.6g rounding edge
			x = float64(rng.Intn(20000000)) / math.Pow10(rng.Intn(9))
		}
		if !math.IsNaN(x) && !math.IsInf(x, 0) {
			return x
		}
	}
}

// ---- running cases --------------------------------------------------------------------------

type c05Runner struct {
	c       *core.Ctx
	env     *c05probe.Env
	perKey  map[string]int
	verbose bool
}

func newC05Runner(c *core.Ctx) (*c05Runner, error) {
	libc, err := c05model.StartLibc(filepath.Join(core.BuildDir, "printf_oracle"))
	if err != nil {
		return nil, err
	}
	return &c05Runner{c: c, env: c05probe.NewEnv(libc, c.WorkDir(), filepath.Join(core.BuildDir, "goawk")), perKey: map[string]int{}}, nil
}

// single returns the case reduced to the item a finding is about.
func c05Single(cs *c05probe.Case, item int) c05probe.Case {
	one := *cs
	p := c05probe.Provs[cs.Prov]
	switch {
	case p.Single:
	case p.Pair:
		one.Values = cs.Values[2*item : 2*item+2]
	case p.Class == c05probe.ClassNumber:
		one.Nums = cs.Nums[item : item+1]
	default:
		one.Values = cs.Values[item : item+1]
	}
	return one
}

func (r *c05Runner) run(cs *c05probe.Case) c05probe.Result {
	c := r.c
	c.Begin(cs)
	res := c05probe.Run(cs, r.env)
	if res.RunErr != "" {
		if strings.HasPrefix(res.RunErr, "libc oracle:") || strings.HasPrefix(res.RunErr, "build:") {
			c.Inconclusive("c05:" + res.RunErr)
		} else {
			c.Violation("probe-run", "", fmt.Sprintf("%s/%s: %s", cs.Family, cs.Prov, res.RunErr), "the probe program runs to completion and prints one battery per value", res.RunErr, cs)
		}
	}
	p := c05probe.Provs[cs.Prov]
	c.Eval(len(res.Reports))
	c.Count("interpreter_runs", 1)
	c.Count("batteries_"+cs.Family, len(res.Reports))
	c.Cover("provenances", cs.Prov)
	for _, rep := range res.Reports {
		c.NonTrivial(cs.Prov + "\x00" + cs.ConvFmt + "\x00" + rep.Fmt + "\x00" + rep.Text + "\x00" + strconv.FormatUint(math.Float64bits(rep.N), 16))
		c.Cover("provenance_mode", cs.Prov+"|"+rep.Modes)
		c.Count("mode_"+rep.Modes, 1)
		if rep.Model == "dont-care" {
			c.Count("model_dont_care", 1)
		}
		for _, cl := range rep.Classes {
			c.Cover("spelling_classes", cl)
		}
		if rep.NumCls != "" {
			conv, ofmt, _ := strings.Cut(rep.Fmt, "|")
			c.Cover("format_x_number_class", "CONVFMT="+conv+"|"+rep.NumCls)
			c.Cover("format_x_number_class", "OFMT="+ofmt+"|"+rep.NumCls)
		}
		if rep.PairKey != "" {
			c.Cover("pair_operand_modes", rep.PairKey)
		}
		if p.Class == c05probe.ClassInput && (rep.Modes == "numeric" || rep.Modes == "string") {
			c.Count("input_values_with_decided_mode", 1)
		}
	}
	for _, f := range res.Findings {
		key := f.Kind + "|" + f.Class
		r.perKey[key]++
		if r.perKey[key] > 12 { // a few witnesses per class and batch are enough
			c.Count("findings_not_recorded_beyond_12_per_class", 1)
			continue
		}
		one := c05Single(cs, f.Item)
		c.Violation(f.Kind, f.Class, f.Summary, f.Expected, f.Observed, one)
	}
	if c.WantSample() && len(res.Reports) > 0 && r.c.Rand("sample"+cs.Prov).Intn(3) == 0 {
		rep := res.Reports[len(res.Reports)/2]
		c.Sample(map[string]any{"family": cs.Family, "provenance": cs.Prov, "convfmt": cs.ConvFmt, "text": rep.Text, "number": strconv.FormatFloat(rep.N, 'g', 17, 64),
			"observed_mode": rep.Modes, "model": rep.Model, "spelling": rep.Classes, "probes_per_value": len(c05probe.Battery)})
	}
	return res
}

func (r *c05Runner) finish() {
	for _, k := range r.env.SortedCover() {
		r.c.Cover("probe_outcomes", k)
	}
	r.c.Count("boolean_probes", int(r.env.Probes))
	r.c.Count("libc_printf_calls", r.env.Libc.Calls)
	r.c.Count("glibc_hash_g_answers_replaced", r.env.Libc.HashGBug)
	r.env.Libc.Close()
}

// filter keeps the values a provenance can carry.
func c05Filter(prov string, values [][]byte) [][]byte {
	p := c05probe.Provs[prov]
	var out [][]byte
	for _, v := range values {
		if p.Accepts == nil || p.Accepts(v) {
			out = append(out, v)
		}
	}
	return out
}

func c05FilterPairs(prov string, values [][]byte) [][]byte {
	p := c05probe.Provs[prov]
	var out [][]byte
	for i := 0; i+1 < len(values); i += 2 {
		if p.Accepts(values[i]) && p.Accepts(values[i+1]) {
			out = append(out, values[i], values[i+1])
		}
	}
	return out
}

func c05Tier(t core.Tier, q, th int) int {
	if t == core.Thorough {
		return th
	}
	return q
}

// c05Run is the batch body: it enumerates the units of every family in a fixed order and runs
// the ones that belong to this batch.
func c05Run(c *core.Ctx) {
	r, err := newC05Runner(c)
	if err != nil {
		c.Inconclusive("c05: cannot start the libc printf oracle: " + err.Error())
		return
	}
	defer r.finish()
	debug.SetGCPercent(400) // the probe programs allocate many short strings; trade memory for time
	unit := 0
	mine := func() bool { unit++; return c.Mine(unit) }
	allValueProvs := c05probe.ProvNames(c05probe.ClassInput, c05probe.ClassString, c05probe.ClassLawOnly)
	// the cli-* provenances start a process per run: curated and random families only
	var valueProvs []string
	for _, pn := range allValueProvs {
		if !strings.HasPrefix(pn, "cli-") {
			valueProvs = append(valueProvs, pn)
		}
	}
	stringConvs := []string{"%.6g", "%.2f", "%e", "%.3g"}

	// -- family 1: unset values (tiny, every format) --
	for _, prov := range c05probe.ProvNames(c05probe.ClassUnset) {
		for _, f := range c05Formats[:8] {
			if mine() {
				r.run(&c05probe.Case{Family: "unset", Prov: prov, ConvFmt: f, OFmt: "%.4g"})
			}
		}
	}

	// -- family 2: curated strings x every provenance x CONVFMT --
	var curated [][]byte
	for _, s := range c05Curated {
		curated = append(curated, []byte(s))
	}
	for _, prov := range allValueProvs {
		vals := c05Filter(prov, curated)
		for _, f := range stringConvs[:c05Tier(c.Tier, 2, 4)] {
			if mine() {
				r.run(&c05probe.Case{Family: "curated", Prov: prov, ConvFmt: f, OFmt: "%.4g", Values: vals})
			}
		}
	}

	// -- family 3: all strings up to length L over the numeric alphabet --
	maxLen := c05Tier(c.Tier, 4, 5)
	total := c05ExhaustiveTotal(maxLen)
	const chunk = 300
	perChunk := c05Tier(c.Tier, 3, 8) // provenances per chunk beyond the two fixed ones
	for ci := 0; ci*chunk < total; ci++ {
		provs := []string{"field", "record"}
		for k := 0; k < perChunk && len(provs) < len(valueProvs); k++ {
			pn := valueProvs[(ci*perChunk+k)%len(valueProvs)]
			if pn != "field" && pn != "record" {
				provs = append(provs, pn)
			}
		}
		for _, prov := range provs {
			if !mine() {
				continue
			}
			var vals [][]byte
			for i := ci * chunk; i < (ci+1)*chunk && i < total; i++ {
				vals = append(vals, c05ExhaustiveString(i))
			}
			conv := "%.6g"
			if ci%5 == 4 {
				conv = "%.2f"
			}
			r.run(&c05probe.Case{Family: "exhaustive", Prov: prov, ConvFmt: conv, OFmt: "%.4g", Values: c05Filter(prov, vals)})
			c.Count("exhaustive_strings_x_provenances", len(vals))
		}
	}

	// -- family 4: random longer strings --
	nRandom := c05Tier(c.Tier, 60, 1500) // chunks of 200
	grng := c.RandGlobal("strings")
	for ci := 0; ci < nRandom; ci++ {
		seed := grng.Int63()
		for k := 0; k < 3; k++ {
			if !mine() {
				continue
			}
			rng := rand.New(rand.NewSource(seed))
			vals := make([][]byte, 200)
			for i := range vals {
				vals[i] = c05RandomString(rng)
			}
			prov := allValueProvs[(ci*3+k)%len(allValueProvs)]
			r.run(&c05probe.Case{Family: "random", Prov: prov, ConvFmt: stringConvs[(ci+k)%len(stringConvs)], OFmt: "%.4g", Values: c05Filter(prov, vals)})
		}
	}

	// -- family 5: numbers x CONVFMT x OFMT --
	exprs := c05ExprNumbers()
	nFmt := c05Tier(c.Tier, 10, len(c05Formats))
	for fi := 0; fi < nFmt; fi++ {
		for _, prov := range []string{"n-expr", "n-inline"} {
			if !mine() {
				continue
			}
			var nums []c05probe.Num
			for i, e := range exprs {
				// formats change from value to value inside one run
				conv := c05Formats[(fi+i)%nFmt]
				ofmt := c05Formats[(fi+i+1+i%3)%nFmt]
				nums = append(nums, c05probe.Num{Src: e.src, Bits: math.Float64bits(e.val), ConvFmt: conv, OFmt: ofmt})
			}
			r.run(&c05probe.Case{Family: "numbers", Prov: prov, Nums: nums})
		}
	}
	nNumChunks := c05Tier(c.Tier, 40, 600) // chunks of 150 numbers
	nrng := c.RandGlobal("numbers")
	for ci := 0; ci < nNumChunks; ci++ {
		seed := nrng.Int63()
		if !mine() {
			continue
		}
		rng := rand.New(rand.NewSource(seed))
		prov := []string{"n-field", "n-field", "n-expr"}[ci%3]
		var nums []c05probe.Num
		for i := 0; i < 150; i++ {
			x := c05RandomNumber(rng)
			conv := c05Formats[rng.Intn(nFmt)]
			ofmt := c05Formats[rng.Intn(nFmt)]
			if rng.Intn(3) > 0 { // most of the time the six formats of the design
				conv, ofmt = c05Formats[rng.Intn(6)], c05Formats[rng.Intn(6)]
			}
			src := strconv.FormatFloat(x, 'g', 17, 64)
			if prov == "n-expr" {
				src = c05Lit(x)
			}
			nums = append(nums, c05probe.Num{Src: src, Bits: math.Float64bits(x), ConvFmt: conv, OFmt: ofmt})
		}
		r.run(&c05probe.Case{Family: "numbers", Prov: prov, Nums: nums})
	}

	// -- family 6: pairs of values --
	nPairChunks := c05Tier(c.Tier, 60, 900) // chunks of 150 pairs
	prng := c.RandGlobal("pairs")
	numericish := []string{"0", "1", "10", "9", "1.0", "1e0", "+1", " 1", "1 ", "01", "0.1e1", "-1", "-0", "0.0", "", " ", "a", "1a", "abc", "10a", "2", "1e1", "10.0",
		"9007199254740993", "9007199254740992", "1e400", "nan", "inf", "0x1", "0xA", "\u00a01", "1\u00a0", "\n1", ".", "+", "1e", "100", "1e2", "1E2", "  100  "}
	for ci := 0; ci < nPairChunks; ci++ {
		seed := prng.Int63()
		if !mine() {
			continue
		}
		rng := rand.New(rand.NewSource(seed))
		var vals [][]byte
		pick := func() []byte {
			switch rng.Intn(4) {
			case 0:
				return c05RandomString(rng)
			case 1:
				return c05ExhaustiveString(rng.Intn(c05ExhaustiveTotal(4)))
			case 2:
				return []byte(c05Curated[rng.Intn(len(c05Curated))])
			default:
				return []byte(numericish[rng.Intn(len(numericish))])
			}
		}
		for i := 0; i < 150; i++ {
			a := pick()
			b := pick()
			switch rng.Intn(5) {
			case 0:
				b = a // equal texts
			case 1: // another spelling of the same number
				if rd := c05model.Read(string(a)); rd.Mode == c05model.ModeNumeric && !math.IsInf(rd.Num, 0) {
					b = []byte(strconv.FormatFloat(rd.Num, "eEfgG"[rng.Intn(5)], -1, 64))
				}
			}
			vals = append(vals, a, b)
		}
		prov := c05probe.PairProvNames[ci%len(c05probe.PairProvNames)]
		r.run(&c05probe.Case{Family: "pairs", Prov: prov, ConvFmt: stringConvs[ci%len(stringConvs)], OFmt: "%.4g", Values: c05FilterPairs(prov, vals)})
	}
}

func c05Replay(c *core.Ctx, raw json.RawMessage) {
	var cs c05probe.Case
	if err := json.Unmarshal(raw, &cs); err != nil {
		fmt.Println("cannot decode case:", err)
		return
	}
	r, err := newC05Runner(c)
	if err != nil {
		fmt.Println("cannot start libc oracle:", err)
		return
	}
	defer r.env.Libc.Close()
	res := r.run(&cs)
	fmt.Printf("provenance=%s family=%s CONVFMT=%q OFMT=%q items=%d\n", cs.Prov, cs.Family, cs.ConvFmt, cs.OFmt, res.Items)
	for i, v := range cs.Values {
		fmt.Printf("  value[%d] = %q\n", i, v)
	}
	for i, n := range cs.Nums {
		fmt.Printf("  num[%d] = %s (%s) CONVFMT=%q OFMT=%q\n", i, n.Src, strconv.FormatFloat(math.Float64frombits(n.Bits), 'g', 17, 64), n.ConvFmt, n.OFmt)
	}
	for _, rep := range res.Reports {
		fmt.Printf("  item %d: text=%q number=%s observed mode=%s model=%s classes=%v\n", rep.Item, rep.Text, strconv.FormatFloat(rep.N, 'g', 17, 64), rep.Modes, rep.Model, rep.Classes)
	}
	if res.RunErr != "" {
		fmt.Println("  run error:", res.RunErr)
	}
	if len(res.Findings) == 0 && res.RunErr == "" {
		fmt.Println("  no finding on this case")
	}
	if len(cs.Values)+len(cs.Nums) <= 2 {
		fmt.Printf("  raw output: %q\n", core.Clip(res.Outcome.Stdout, 1500))
	}
}

func init() {
	core.Register(&core.Property{
		ID:    "C05",
		Level: "exploration",
		Rule: "values (all strings up to length 4/5 over {0 1 9 . + - e E x space tab a}, ~330 curated spellings, random number-shaped and token-soup strings with ASCII/non-ASCII blanks, hex, inf, nan, " +
			"huge/tiny magnitudes; curated and random float64 incl. 2^53, 2^63, subnormals, inf, nan) are delivered as data in each provenance and a fixed battery of boolean, text and " +
			"arithmetic probes is run on each; an evaluation is one battery (one value in one provenance under one CONVFMT/OFMT); non-trivial = distinct (provenance, formats, observed text, " +
			"observed number) whose battery output was fully decoded and judged by the consistency laws and, outside the don't-care spellings, by the value model",
		Assumptions: []string{
			"blanks around a numeric string are space and tab; \\n \\v \\f \\r there, hex / inf / nan spellings and magnitudes beyond float64 are don't-cares for the model (the consistency laws still apply)",
			"number -> string for a non-integral or out-of-int64-range number is whatever the C library's printf gives for CONVFMT/OFMT (formats of the e/f/g family); the spelling of non-finite numbers and the sign of an integral zero are don't-cares",
			"comparison mode of for-in keys, of fields beyond NF and of fields assigned by the program is not fixed by the property: laws only",
			"the text a probe program sees for a value (V \"\") is taken as the value; that it equals the delivered bytes is checked separately (kind value-text)",
		},
		Explanation: "runtime monitoring: the real interpreter evaluates the probes; outputs are judged by algebraic laws on the outputs themselves and by an independent value model (math/big decimal conversion, libc printf)",
		NBatches:    func(t core.Tier) int { return c05Tier(t, 16, 64) },
		Exhaustive:  func(t core.Tier) bool { return true },
		Floors: func(t core.Tier) map[string]int {
			return map[string]int{
				"evaluations":                      c05Tier(t, 150000, 3000000),
				"distinct_nontrivial":              c05Tier(t, 100000, 2500000),
				"provenances":                      len(c05probe.Provs),
				"probe_outcomes":                   2*(6*7+6*3+6*3+6*4+9) + 2*6*4 - 8,
				"spelling_classes":                 18,
				"format_x_number_class":            c05Tier(t, 150, 400),
				"pair_operand_modes":               20,
				"input_values_with_decided_mode":   c05Tier(t, 60000, 2000000),
				"mode_numeric":                     c05Tier(t, 15000, 200000),
				"mode_string":                      c05Tier(t, 60000, 2000000),
				"exhaustive_strings_x_provenances": c05Tier(t, 2*22621, 8*271453),
			}
		},
		Run:    c05Run,
		Replay: c05Replay,
	})
}
