package props

// Systematic case families for C01 (also reused by C02/C18/C20): finite cross-products that the
// property names — lvalue kinds x assignment forms x position x scope, comparisons x control
// constructs x operand typing, loop/break/continue shapes, call shapes, getline forms x target
// kinds, builtins x argument counts, concatenation chains under several CONVFMTs.

import (
	"fmt"
	"strings"
	"sync"

	"verifharness/diffrun"
)

var (
	sysOnce  sync.Once
	sysCases []genCase
)

func systematicCases() []genCase {
	sysOnce.Do(func() {
		sysCases = append(sysCases, famLvalues()...)
		sysCases = append(sysCases, famComparisons()...)
		sysCases = append(sysCases, famLoops()...)
		sysCases = append(sysCases, famCalls()...)
		sysCases = append(sysCases, famGetline()...)
		sysCases = append(sysCases, famBuiltins()...)
		sysCases = append(sysCases, famConcat()...)
		sysCases = append(sysCases, famEvalOrder()...)
		sysCases = append(sysCases, famLogicValues()...)
		sysCases = append(sysCases, famInputTyping()...)
		sysCases = append(sysCases, famRecursionLocals()...)
		sysCases = append(sysCases, famSignedLiterals()...)
	})
	return sysCases
}

func mk(family, src, stdin string) genCase {
	return genCase{Family: family, Src: src, Env: diffrun.Case{Stdin: stdin,
		Files: map[string]string{"in0": c01InFiles["in0"], "in1": c01InFiles["in1"], "in2": ""}, OutFiles: []string{"out0", "out1"}}}
}

// famLvalues: every lvalue kind x every assignment form x statement/expression position x scope,
// from several initial values.
func famLvalues() []genCase {
	type lv struct{ name, text, setup, dump string }
	global := []lv{
		{"gvar", "x", "", "print x"},
		{"garr-str", "a[\"k\"]", "", "print a[\"k\"], length(a)"},
		{"garr-int", "a[1]", "", "print a[1], (1 in a), (\"1\" in a)"},
		{"garr-var", "a[i]", "i = 2", "print a[2], a[i], i"},
		{"garr-multi", "a[1, \"z\"]", "", "print a[1, \"z\"], ((1, \"z\") in a)"},
		{"garr-float", "a[0.1 + 0.2]", "", "for (k in a) print k, a[k]"},
		// constant subscripts at and beyond the int64 range: the same element whether named by the literal, a variable or a string
		{"garr-huge-1e19", "a[1e19]", "k = 1e19", "print a[1e19], a[k], (k in a), (1e19 in a), (\"1e+19\" in a), length(a); for (q in a) print q"},
		{"garr-huge-2p63", "a[9223372036854775808]", "k = 2 ^ 63", "print a[9223372036854775808], a[k], (k in a), length(a); for (q in a) print q"},
		{"garr-huge-max", "a[18446744073709551615]", "k = 18446744073709551615", "print a[k], (k in a), (-9223372036854775808 in a), length(a); for (q in a) print q"},
		{"garr-neg-2p63", "a[-9223372036854775808]", "k = -(2 ^ 63)", "print a[k], (k in a), (2 ^ 63 in a), length(a); for (q in a) print q"},
		{"garr-int53", "a[9007199254740993]", "k = 9007199254740993", "print a[k], (k in a), length(a); for (q in a) print q"},
		{"garr-1e6", "a[1e6]", "k = 1000000", "print a[k], a[\"1000000\"], (\"1e6\" in a), length(a)"},
		{"field-const", "$2", "", "print $2; print; print NF"},
		{"field-var", "$(i)", "i = 3", "print $3; print; print NF"},
		{"field-beyond", "$(NF + 2)", "", "print; print NF"},
		{"field-zero", "$0", "", "print; print NF; print $1"},
		{"field-neg", "$(-1)", "", "print; print NF"},
		{"special-NF", "NF", "", "print NF; print"},
		{"special-NR", "NR", "", "print NR"},
		{"special-RSTART", "RSTART", "", "print RSTART"},
	}
	local := []lv{
		{"lvar", "p", "", "print p"},
		{"larr", "la[\"k\"]", "", "print la[\"k\"], length(la)"},
		{"parr", "pa[2]", "", "print pa[2], length(pa)"},
	}
	forms := []string{"%s = 7", "%s = \"str\"", "%s += 2", "%s -= 2", "%s *= 3", "%s /= 4", "%s %%= 3", "%s ^= 2", "++%s", "%s++", "--%s", "%s--"}
	inits := []string{"", "%s = 5", "%s = \"3x\"", "%s = \"abc\"", "%s = 2.5"}
	var out []genCase
	for _, l := range global {
		for _, f := range forms {
			op := fmt.Sprintf(f, l.text)
			for ii, init := range inits {
				if (strings.HasPrefix(l.name, "special") || l.name == "field-neg" || l.name == "field-beyond") && ii > 1 {
					continue
				}
				pre := "$0 = \"10 20 30 40\"; " + l.setup
				if init != "" {
					pre += "; " + fmt.Sprintf(init, l.text)
				}
				// statement position
				out = append(out, mk("lvalue", fmt.Sprintf("BEGIN { %s\n\t%s\n\t%s\n}\n", pre, op, l.dump), ""))
				// expression position (value of the expression is observed too)
				out = append(out, mk("lvalue", fmt.Sprintf("BEGIN { %s\n\ty = (%s)\n\tprint y\n\t%s\n\tprint (%s) + 1\n\t%s\n}\n", pre, op, l.dump, op, l.dump), ""))
				// main-rule position with input-derived initial values
				if ii == 0 && (strings.HasPrefix(l.name, "field") || l.name == "gvar" || l.name == "special-NF") {
					out = append(out, mk("lvalue", fmt.Sprintf("{ %s\n\t%s\n\t%s\n\tprint (%s)\n\t%s\n}\n", l.setup, op, l.dump, op, l.dump), "1 2 3\n a  b \n\n4.5 x 7 8 9\n"))
				}
			}
		}
	}
	for _, l := range local {
		for _, f := range forms {
			op := fmt.Sprintf(f, l.text)
			for _, init := range inits {
				pre := ""
				if init != "" {
					pre = fmt.Sprintf(init, l.text)
				}
				src := fmt.Sprintf("function f(p, pa, la) {\n\t%s\n\t%s\n\t%s\n\ty = (%s)\n\tprint y\n\t%s\n\treturn p\n}\nBEGIN { A[2] = 9; print f(1, A); print A[2], length(A); print f(); print f(\"q\", A) }\n", pre, op, l.dump, op, l.dump)
				out = append(out, mk("lvalue-local", src, ""))
			}
		}
	}
	return out
}

// famComparisons: 6 operators x control constructs x operand typing; inputs make <, == and >
// each occur for number/number, string/string, numeric-string/number and unset operands.
func famComparisons() []genCase {
	ops := []string{"<", "<=", "==", "!=", ">", ">="}
	input := "1 2\n2 2\n3 2\na b\nb b\nc b\n10 9\n9 10\nabc 5\n5 abc\n 5 5.0\n1e1 10\n10 1e1\n+3 3\n3x 3\n\n0 -0\n.5 0.5\n"
	operands := [][2]string{
		{"$1", "$2"}, {"$1", "2"}, {"2", "$2"}, {"$1", "\"2\""}, {"$1 \"\"", "$2"}, {"$1 + 0", "$2"}, {"u", "$1"}, {"$1", "u"}, {"u", "v"},
		{"x", "$2"}, {"substr($1, 1)", "$2"}, {"$1", "$2 \"\""}, {"a[$1]", "$2"}, {"NF", "$1"}, {"length($1)", "length($2)"},
	}
	var out []genCase
	for _, op := range ops {
		for _, od := range operands {
			l, r := od[0], od[1]
			c := l + " " + op + " " + r
			progs := []string{
				fmt.Sprintf("{ x = $1; if (%s) print \"T\", NR; else print \"F\", NR }", c),
				fmt.Sprintf("{ x = $1; if (!(%s)) print \"F\", NR; else print \"T\", NR }", c),
				fmt.Sprintf("{ x = $1; print (%s), ((%s) ? \"y\" : \"n\"), !(%s) }", c, c, c),
				fmt.Sprintf("{ x = $1; n = 0; while (%s) { if (++n >= 2) break }; print n }", c),
				fmt.Sprintf("{ x = $1; n = 0; do { n++ } while ((%s) && n < 3); print n }", c),
				fmt.Sprintf("{ x = $1; for (n = 0; %s; n++) if (n >= 2) break; print n }", c),
				fmt.Sprintf("{ x = $1; print ((%s) && 1) + ((%s) || 0), (1 && %s), (0 || %s) }", c, c, c, c),
				fmt.Sprintf("%s { print \"P\", NR }", strings.ReplaceAll(c, "x", "$1")),
				fmt.Sprintf("{ x = $1; t = %s; print t; if (t) print \"t\" }", c),
			}
			for _, p := range progs {
				out = append(out, mk("comparison", p+"\n", input))
			}
		}
	}
	return out
}

func famLoops() []genCase {
	var out []genCase
	bodies := []string{
		"print i, j",
		"if (j == 1) continue; print i, j",
		"if (j == 2) break; print i, j",
		"if (i == 1) { if (j == 1) continue; if (j == 2) break }; print i, j",
		"for (k in a) { if (k == 2) continue; s += a[k] }; print i, j, s",
		"for (k in a) { if (a[k] > 1) break_seen++ ; s += a[k] }; print s, break_seen",
		"n = 0; while (n < 5) { n++; if (n == 2) continue; if (n == 4) break; t = t n }; print i, j, t",
		"do { m++; if (m %% 2) continue } while (m < 3); print i, j, m",
		"c = 0; for (k in a) { c++; break }; print i, j, c",
		"c = 0; for (k in a) { for (k2 in a) { c++; if (c %% 2) break; c += 10 }; if (c > 40) break }; print (c > 0)",
	}
	outers := []string{
		"for (i = 0; i < 3; i++) { for (j = 0; j < 3; j++) { %s } }",
		"i = 0; while (i < 3) { i++; j = 0; while (j < 3) { j++; %s } }",
		"i = 0; do { j = 0; do { j++; %s } while (j < 3); i++ } while (i < 2)",
		"for (i = 0; i < 2; i++) { j = 0; while (j++ < 3) { %s } }",
		"for (;;) { if (++i > 2) break; for (j = 0; ; j++) { if (j > 2) break; %s } }",
		"for (i = 0; i < 2; i++) for (j = 3; j > 0; j--) { %s }",
	}
	for _, o := range outers {
		for _, b := range bodies {
			out = append(out, mk("loops", "BEGIN { a[1] = 1; a[2] = 2; a[3] = 3; "+fmt.Sprintf(o, strings.ReplaceAll(b, "%%", "%"))+"; print \"done\", i, j }\n", ""))
		}
	}
	return out
}

func famCalls() []genCase {
	progs := []string{
		"function f(a, b, c) { return a + b + c }\nBEGIN { print f(1, 2, 3), f(1, 2), f(1), f() }",
		"function f(a, b) { b[a] = a; return length(b) }\nBEGIN { print f(1, X), f(2, X), f(\"q\", X); for (k in X) n++; print n }",
		"function fib(n) { return n < 2 ? n : fib(n - 1) + fib(n - 2) }\nBEGIN { print fib(12) }",
		"function f(n) { if (n <= 0) return; print n; f(n - 1); print -n }\nBEGIN { f(3); print f(0) \"|\" }",
		"function g(x) { return x \"!\" }\nfunction f(x) { return g(g(x)) g(x) }\nBEGIN { print f(\"a\"), f(f(1)) }",
		"function f(x) { x = 5; return x }\nBEGIN { y = 1; print f(y), y }",
		"function f(x) { x[1] = 5 }\nBEGIN { f(y); print y[1], length(y) }",
		"function f(x) { return g(x) }\nfunction g(y) { y[\"k\"]++; return 0 }\nBEGIN { f(z); f(z); print z[\"k\"] }",
		"function f(a, b, loc) { loc = a * b; a = 0; return loc }\nBEGIN { p = 3; print f(p, 4), p, loc }",
		"function f(a, loc) { loc[a] = 1; return length(loc) }\nBEGIN { print f(1), f(2), f(3) }",
		"function skip() { next }\n{ if ($1 == 2) x = 1 + skip(); print }\nEND { print NR }",
		"function quit(n) { exit n }\n{ print; if (NR == 2) y = \"a\" quit(3) }\nEND { print \"end\" }",
		"function f(n) { return n > 0 ? n + f(n - 1) : 0 }\nBEGIN { print f(50), f(400) }",
		"function deep(n) { return deep(n + 1) }\nBEGIN { print \"before\"; deep(0); print \"after\" }",
		"function f(a, b) { return a \":\" b }\nBEGIN { i = 1; print f(i++, i++), i; print f(x = 3, x + 1) }",
		"function f(s) { sub(/a/, \"b\", s); return s }\nBEGIN { t = \"aaa\"; print f(t), t }",
		"function f(arr, k) { delete arr[k]; return (k in arr) }\nBEGIN { A[1]; A[2]; print f(A, 1), length(A) }",
		"function f(arr) { split(\"x y z\", arr); return arr[2] }\nBEGIN { B[9] = 1; print f(B), length(B), (9 in B) }",
		"function noret(x) { x++ }\nBEGIN { v = noret(1); print \"[\" v \"]\", v + 0, length(v) }",
		"function f(x, y) { return x y }\nBEGIN { print f(f(\"a\", \"b\"), f(\"c\")) f() }",
	}
	var out []genCase
	for _, p := range progs {
		out = append(out, mk("calls", p+"\n", "1 a\n2 b\n3 c\n"))
	}
	return out
}

func famGetline() []genCase {
	targets := []struct{ t, dump string }{
		{"", "print $0, NF"}, {"v", "print v, $0, NF"}, {"a[1]", "print a[1], $0"}, {"a[NR]", "print a[NR], a[NR - 1], NR"},
		{"$2", "print $2; print $0; print NF"}, {"$0", "print $0, NF"}, {"$(NF + 1)", "print $0; print NF"}, {"NF", "print NF; print $0"}, {"NR", "print NR, FNR"},
	}
	sources := []string{"", "< \"in0\"", "< \"nofile\"", "< (\"in\" \"1\")"}
	var out []genCase
	for _, tg := range targets {
		for _, src := range sources {
			gl := strings.TrimSpace("getline " + tg.t + " " + src)
			progs := []string{
				fmt.Sprintf("{ r = (%s); print r; %s; print NR, FNR }", gl, tg.dump),
				fmt.Sprintf("BEGIN { $0 = \"p q r\"; while ((%s) > 0 && ++n < 4) { %s }; print n, NR }", gl, tg.dump),
				fmt.Sprintf("NR == 1 { %s; %s }\nEND { print NR, $0 }", gl, tg.dump),
			}
			for _, p := range progs {
				out = append(out, mk("getline", p+"\n", "l1 x y\nl2\nl3 z\nl4\n"))
			}
		}
	}
	return out
}

func famBuiltins() []genCase {
	exprs := []string{
		"length", "length()", "length($0)", "length(x)", "length(12345)", "length(A)",
		"substr($0, 2)", "substr($0, 2, 3)", "substr($0, 0)", "substr($0, -1, 3)", "substr($0, 1.9, 1.9)", "substr($0, 4, 100)", "substr(\"\", 1)",
		"index($0, \"b\")", "index($0, $2)", "index($0, \"zz\")", "match($0, /[a-z]+/) \":\" RSTART \":\" RLENGTH", "match($0, \"q\") \":\" RSTART \":\" RLENGTH",
		"split($0, A)", "split($0, A, \" \")", "split($0, A, \"b\")", "split($0, A, /[ab]+/)", "split(\"\", A)", "split($0, A, \"\\\\.\")",
		"sub(/b/, \"X\")", "gsub(/[a-z]/, \"<&>\")", "sub(/b/, \"\\\\&\", $2)", "gsub(\"o\", \"0\", x)", "gsub(/x*/, \"-\", x)", "sub(/^/, \">\")", "gsub(/$/, \"<\")",
		"tolower($0)", "toupper($0) tolower(\"ÀB\")", "sprintf(\"%5.2f|%-4s|%03d|%c|%x\", $1, $2, $1, 65, 255)", "sprintf(\"%s\")", "sprintf(\"%d%%\", 5)", "sprintf(\"%z\", 1)",
		"int($1)", "int(-3.9)", "int(\"4.7abc\")", "sqrt(16) exp(0) log(1) sin(0) cos(0) atan2(0, 1)", "2 ^ 10", "2 ** 3 ** 2", "-2 ^ 2", "7 % 3", "-7 % 3", "7.5 % 2",
		"1 / 4", "1 / 0", "5 % 0", "x++ + ++x", "x-- - --x", "!x + !!x", "1 - - 1", "\"a\" > \"B\"", "10 < 9", "\"10\" < \"9\"", "$1 < $2",
		"(1, 2) in A", "1 in A", "\"\" in A",
	}
	var out []genCase
	for _, e := range exprs {
		p := fmt.Sprintf("{ x = \"foo boo\"; A[1] = 1; r = %s; print r; print; print x; print NF; n = 0; for (k in A) n++; print n }", e)
		out = append(out, mk("builtins", p+"\n", "3 b cab\n7.6 .b. obo\n\n"))
	}
	return out
}

func famConcat() []genCase {
	var out []genCase
	vals := []string{"1", "0.1", "1e6", "1e-7", "123456789", "0.000001234", "100000 * 10", "3.0", "-0", "2 ^ 53", "2 ^ 53 + 1", "1 / 3", "\"s\"", "x", "$1", "u"}
	for _, cf := range []string{"", "CONVFMT = \"%.2g\"; ", "CONVFMT = \"%.3f\"; ", "OFMT = \"%.2f\"; ", "CONVFMT = \"%d\"; "} {
		for n := 2; n <= 6; n++ {
			var parts []string
			for i := 0; i < n; i++ {
				parts = append(parts, vals[(i*3+n)%len(vals)])
			}
			chain := strings.Join(parts, " ")
			grouped := "(" + strings.Join(parts[:n/2+1], " ") + ") " + strings.Join(parts[n/2+1:], " ")
			if n/2+1 >= n {
				grouped = chain
			}
			p := fmt.Sprintf("{ %sx = 0.25; r = %s; print r; print %s; s = %s; print (r == s), length(r); a[%s] = 1; for (k in a) print k; print %s }", cf, chain, chain, grouped, chain, strings.Join(parts, ", "))
			out = append(out, mk("concat", p+"\n", "2.50 y\n"))
		}
	}
	return out
}

// famEvalOrder: operands with side effects on each other. The order in which a subscript, a
// field index and a right-hand side are evaluated is part of the program's meaning as the tree
// defines it; the compiler has separate lowerings for statement and expression position, for
// globals, locals, array elements and fields, and they must all agree with it.
func famEvalOrder() []genCase {
	var out []genCase
	ops := []string{"=", "+=", "-=", "*=", "/=", "%=", "^="}
	funcs := "function f() { print \"f\"; return ++c }\nfunction g() { print \"g\"; return ++c }\n"
	type tgt struct{ name, lhs, rhs, reset, dump string }
	targets := []tgt{
		{"arr-incr-sub", "A[i++]", "i", "i = 1; delete A; A[1] = 10; A[2] = 20", "print i; for (k = 0; k < 4; k++) print k, (k in A), A[k]"},
		{"arr-incr-rhs", "A[n]", "n++", "n = 1; delete A; A[1] = 10; A[2] = 20", "print n; for (k = 0; k < 4; k++) print k, (k in A), A[k]"},
		{"arr-calls", "A[f()]", "g()", "c = 0; delete A; A[1] = 10; A[2] = 20", "print c; for (k = 0; k < 4; k++) print k, (k in A), A[k]"},
		{"arr-multi-calls", "A[f(), g()]", "f() g()", "c = 0; delete A", "print c, length(A); for (k = 1; k < 9; k++) for (m = 1; m < 9; m++) if ((k, m) in A) print k, m, A[k, m]"},
		{"field-incr-idx", "$(i++)", "i", "i = 1; $0 = \"10 20 30\"", "print i; print; print NF"},
		{"field-incr-rhs", "$(n)", "n++", "n = 1; $0 = \"10 20 30\"", "print n; print; print NF"},
		{"field-calls", "$(f())", "g()", "c = 0; $0 = \"10 20 30\"", "print c; print; print NF"},
		{"field-rhs-sets-record", "$2", "($0 = \"7 8 9 10\")", "$0 = \"10 20 30\"", "print; print NF"},
		{"var-self", "x", "(x = 5)", "x = 2", "print x"},
		{"var-postincr", "x", "x++", "x = 2", "print x"},
		{"var-nf", "NF", "(NF = 2)", "$0 = \"1 2 3 4\"", "print; print NF"},
		{"arr-rhs-deletes", "A[1]", "h()", "delete A; A[1] = 10", "print length(A), A[1]"},
		{"arr-sub-getline", "A[NR]", "(getline line < \"in0\")", "delete A", "for (k in A) print k, A[k]; print line"},
	}
	for _, t := range targets {
		for _, op := range ops {
			asg := t.lhs + " " + op + " " + t.rhs
			src := funcs + "function h() { delete A; return 3 }\n" +
				"BEGIN {\n\t" + t.reset + "\n\t" + asg + "\n\t" + t.dump + "\n" +
				"\t" + t.reset + "\n\ty = (" + asg + ")\n\tprint \"value\", y\n\t" + t.dump + "\n" +
				"\t" + t.reset + "\n\tprint (" + asg + ") \"\"\n\t" + t.dump + "\n" +
				"\t" + t.reset + "\n\tif ((" + asg + ") || 1) " + asg + "\n\t" + t.dump + "\n}\n"
			out = append(out, mk("evalorder", src, ""))
			// the same inside a function, on locals
			if strings.HasPrefix(t.name, "arr-") && !strings.Contains(t.rhs, "h()") && !strings.Contains(t.lhs, "NR") {
				body := strings.NewReplacer("A[", "L[", " A", " L", "(A", "(L").Replace
				lsrc := funcs + "function t(L, i, n, k, y, m) {\n\t" + body(t.reset) + "\n\t" + body(asg) + "\n\t" + body(t.dump) + "\n" +
					"\t" + body(t.reset) + "\n\ty = (" + body(asg) + ")\n\tprint \"value\", y\n\t" + body(t.dump) + "\n}\nBEGIN { t(Q); t(Q) }\n"
				out = append(out, mk("evalorder-local", lsrc, ""))
			}
		}
	}
	// an assignment to NF (or to a field) rebuilds $0 with OFS even when the value does not change
	for _, asg := range []string{"NF = NF", "NF = 3", "NF += 0", "NF *= 1", "NF -= 0", "x = (NF = NF)", "$1 = $1", "$3 = $3", "$(NF) = $(NF)", "$2 = $2 \"\"", "NF = NF + 0", "NF++; NF--", "$(NF + 1) = \"\"; NF--"} {
		for _, touch := range []string{"", "n = NF; ", "f = $2; ", "$0 = $0; "} {
			src := "BEGIN { OFS = \",\" }\n{ " + touch + asg + "; print; print NF, $1, $3; $0 = $0; print NF }\n"
			out = append(out, mk("nf-rebuild", src, "a  b   c\n  x\ty z  \n1 2 3\n\np q r s\n"))
		}
	}
	// operators and calls: left operand before right one, every argument once
	exprs := []string{"f() + g()", "f() - g() * f()", "f() g()", "f() g() f()", "f() < g()", "f() ~ g()", "(f(), g()) in A", "f() in A", "h2(f(), g(), f())", "f() ? g() : f()",
		"(f() > 5) ? g() : f()", "f() && g()", "(f() > 5) && g()", "f() || g()", "(f() > 5) || g()", "substr(\"abcdef\", f(), g())", "index(f() \"x\", g())", "split(f() \" \" g(), A)",
		"sprintf(\"%s-%s-%s\", f(), g(), f())", "A[f()] A[g()]", "A[f()]++ + A[g()]++", "$(f()) $(g())", "-f() ^ g()", "f() ^ g() ^ f()", "!f() g()", "f() % g() / f()"}
	for _, e := range exprs {
		src := funcs + "function h2(a, b, d) { return a \":\" b \":\" d }\nBEGIN { $0 = \"p q r s t u v w\"; A[1] = \"one\"; A[2] = \"two\"; A[1, 2] = \"pair\"\n\tprint (" + e + ")\n\tprint c\n\tx = " + e + "\n\tprint x, c\n\tif (" + e + ") print \"T\", c; else print \"F\", c\n}\n"
		out = append(out, mk("evalorder-expr", src, ""))
	}
	return out
}

// famLogicValues: the value of && || ! is the number 1 or 0 whatever the operands are (unset, empty,
// numeric strings from input that are false, strings), in every place a value can be used.
func famLogicValues() []genCase {
	var out []genCase
	lefts := []string{"u", "\"\"", "$1", "$2", "0", "\"0\"", "\"a\"", "1", "$3", "A[\"nokey\"]", "substr(\"x\", 2)", "$9", "-0", "\"0.0\"", "$1 + 0"}
	rights := []string{"1 < 2", "2 < 1", "$3 ~ /x/", "$3 !~ /x/", "!u", "(\"k\" in A)", "\"s\"", "0", "u", "/ab/", "(1 < 2 && 2 < 3)", "(u || 0)", "$2", "$1", "!$2", "(1 < 2)", "1", "\"\"", "x = 5", "$1 == 0"}
	input := "0.0 +0 abx\n0 1 x\n  zero\n1e0 0x1 ab\n"
	for _, l := range lefts {
		for _, r := range rights {
			for _, op := range []string{"&&", "||"} {
				e := l + " " + op + " " + r
				src := "function show(v) { print \"[\" v \"]\", length(v), (v == \"\"), (v == 0), v + 0 }\n" +
					"BEGIN { A[\"k\"] }\n{ x = 0; v = (" + e + "); show(v)\n\tshow(" + e + ")\n\tprint (" + e + "), !(" + e + "), (" + e + ") \"\", -(" + e + ")\n" +
					"\tdelete C; C[" + e + "]++; for (k in C) print \"key\", k\n\tif (" + e + ") print \"T\"; else print \"F\"\n\tw = !(" + l + "); show(w); show(!!(" + l + "))\n}\n"
				out = append(out, mk("logic-values", src, input))
			}
		}
	}
	return out
}

// famInputTyping: text that arrives through getline (into $0, a variable, an array element, a
// field; from the main input, a file, a command) and through split() is input: a numeric-looking
// line compares as a number wherever it was stored. And the fields of a record under an FS with
// alternatives are the leftmost-longest split, like split() with the same separator.
func famInputTyping() []genCase {
	var out []genCase
	numeric := "10\n9\n0\n+5\n 7 \n1e1\nabc\n0.0\n-0\n10.0\n"
	obs := func(x string) string {
		return fmt.Sprintf(`print "o", (%s < 9), (%s == 10), (%s ? "T" : "F"), (%s == "10.0"), (%s < "a"), %s + 0, length(%s)`, x, x, x, x, x, x, x)
	}
	targets := [][2]string{{"", "$0"}, {"v", "v"}, {"A[1]", "A[1]"}, {"A[NR, 2]", "A[NR, 2]"}, {"$2", "$2"}, {"$0", "$0"}}
	sources := []string{"", `< "in0"`, `< ("in" 0)`}
	for _, tg := range targets {
		for _, src := range sources {
			gl := strings.TrimSpace("getline " + tg[0] + " " + src)
			p := fmt.Sprintf("BEGIN { $0 = \"p q\"; while ((%s) > 0) { %s; w = %s; %s; B[1] = %s; %s } }\n", gl, obs(tg[1]), tg[1], obs("w"), tg[1], obs("B[1]"))
			cs := mk("input-typing", p, numeric)
			cs.Env.Files = map[string]string{"in0": numeric, "in1": "", "in2": ""}
			out = append(out, cs)
			fp := fmt.Sprintf("function f(   l, L) { while ((%s) > 0) { }; return 0 }\nfunction g(   l, L, n) { while ((getline l %s) > 0) { L[++n] = l; %s; %s } }\nBEGIN { g() }\n", gl, src, obs("l"), obs("L[n]"))
			cs2 := mk("input-typing", fp, numeric)
			cs2.Env.Files = map[string]string{"in0": numeric, "in1": "", "in2": ""}
			out = append(out, cs2)
		}
	}
	for _, st := range []string{`n = split($0, S); for (i = 1; i <= n; i++) { ` + obs("S[i]") + ` }`, `n = split($0, S, ","); ` + obs("S[1]"), `$3 = $1; ` + obs("$3") + `; x = $1 ""; ` + obs("x"), `y = substr($1, 1); ` + obs("y")} {
		out = append(out, mk("input-typing", "{ "+st+" }\n", "10 9\n9,10 0\n1e1 abc\n0.0 -0\n 7  +5\n"))
	}
	fss := []string{",|, ", "a|ab", "-|--", "x|xy|xyz", ", *", "(ab)+|a", ":|::", "b|ab|abc", "[ ,]+|;"}
	input := "a, b,c\n1ab2a3abab4\np--q-r---s\n1xyz2xy3x4\nu,   v,w\nabab1a2ababab3\nk::v:w\nzabcab9b\na ,;b;,c\n"
	for _, fs := range fss {
		q := strings.ReplaceAll(fs, `\`, `\\`)
		out = append(out, mk("fs-alternation", fmt.Sprintf("BEGIN { FS = \"%s\" }\n{ printf \"%%d\", NF; for (i = 1; i <= NF; i++) printf \"[%%s]\", $i; print \"\"; n = split($0, A, FS); printf \"%%d\", n; for (i = 1; i <= n; i++) printf \"[%%s]\", A[i]; print \"\"; $1 = $1; print }\n", q), input))
		out = append(out, mk("fs-alternation", fmt.Sprintf("{ n = split($0, A, \"%s\"); printf \"%%d\", n; for (i = 1; i <= n; i++) printf \"[%%s]\", A[i]; print \"\" }\n", q), input))
	}
	return out
}

// famRecursionLocals: a function with local arrays that is entered again while an outer activation
// is still live (tree recursion with 1-3 children, children called from a loop, from an expression,
// mutual recursion through a second function with its own local array). Every activation must find
// its local arrays empty on entry and unchanged after its children return; nothing is iterated with
// for-in, so the output is determined by the tree alone.
func famRecursionLocals() []genCase {
	var out []genCase
	add := func(src string) { out = append(out, mk("recursion-locals", src+"\n", "1 a\n2 b\n")) }
	for depth := 1; depth <= 3; depth++ {
		for branch := 1; branch <= 3; branch++ {
			for locals := 1; locals <= 2; locals++ {
				decl, fill, show := "loc", `loc[tag] = n; loc["d" n] = tag`, `length(loc) ":" ((tag in loc) ? "kept" : "lost") ":" loc[tag]`
				if locals == 2 {
					decl = "loc, aux"
					fill += `; aux[n] = tag; aux[n, 1] = n`
					show += ` ":" length(aux) ":" aux[n]`
				}
				entry := `e = length(loc)`
				// children called as statements
				kids := ""
				for b := 0; b < branch; b++ {
					kids += fmt.Sprintf(` t(n - 1, tag "%c");`, 'L'+b)
				}
				add(fmt.Sprintf("function t(n, tag,   %s, e) { %s; %s; if (n > 0) {%s } printf \"%%s:%%s:%%s;\", tag, e, %s }\nBEGIN { t(%d, \"t\"); print \"\"; t(1, \"u\"); print \"\" }",
					decl, entry, fill, kids, show, depth))
				// children called from a loop, value returned and summed
				add(fmt.Sprintf("function t(n, tag,   %s, e, i, s) { %s; %s; if (n > 0) for (i = 0; i < %d; i++) s += t(n - 1, tag i); printf \"%%s:%%s:%%s;\", tag, e, %s; return s + length(loc) }\nBEGIN { print t(%d, \"t\") }",
					decl, entry, fill, branch, show, depth))
				// children called inside one expression
				expr := "0"
				for b := 0; b < branch; b++ {
					expr += fmt.Sprintf(` + t(n - 1, tag "%c")`, 'a'+b)
				}
				add(fmt.Sprintf("function t(n, tag,   %s, e, s) { %s; %s; if (n > 0) s = %s; return s + length(loc) * 100 + e * 10000 + ((tag in loc) ? 1 : 0) }\n{ print t(%d, $2) }",
					decl, entry, fill, expr, depth))
				// mutual recursion: f -> g -> f, g has its own local array
				mk2 := ""
				for b := 0; b < branch; b++ {
					mk2 += fmt.Sprintf(` g(n - 1, tag "%c");`, 'x'+b)
				}
				add(fmt.Sprintf("function f(n, tag,   %s, e) { %s; %s; if (n > 0) {%s } printf \"f%%s:%%s:%%s;\", tag, e, %s }\nfunction g(n, tag,   mine) { mine[tag] = 1; f(n, tag \"g\"); f(n, tag \"h\"); printf \"g%%s:%%d:%%s;\", tag, length(mine), (tag in mine) }\nBEGIN { f(%d, \"t\"); print \"\" }",
					decl, entry, fill, mk2, show, depth))
			}
		}
	}
	// a local array handed down as the child's parameter while the parent keeps another one
	add("function w(n, arr,   own) { own[n] = n; arr[n] = n; if (n > 0) { w(n - 1, own); w(n - 1, arr) } return length(own) \":\" length(arr) }\nBEGIN { print w(3, G), length(G) }")
	add("function w(n, arr,   own, r) { own[\"o\" n]; if (n > 0) { r = w(n - 1, own) \",\" w(n - 1, own) } return r \"[\" length(own) \"/\" length(arr) \"]\" }\nBEGIN { print w(3, G), length(G) }")
	// delete of the whole local array in a child must not empty the parent's
	add("function d(n,   loc) { loc[1]; loc[2]; if (n > 0) { d(n - 1); d(n - 1) } else delete loc; return length(loc) }\nBEGIN { print d(0), d(1), d(2) }")
	return out
}

// famSignedLiterals: a sign in front of a number literal is an operator applied to the literal;
// the literal itself, elsewhere in the program, keeps its own value (-0 and 0 are different
// numbers under printf and atan2; -1 and 1, -0.5 and 0.5 share digits only).
func famSignedLiterals() []genCase {
	var out []genCase
	lits := []string{"0", "0.0", "0e0", "1", "0.5", "1e300", "2"}
	for _, l := range lits {
		for _, sign := range []string{"-", "+", "- -", "-+"} {
			for _, order := range []int{0, 1} {
				a, b := sign+l, l
				if order == 1 {
					a, b = l, sign+l
				}
				out = append(out, mk("signed-literals", fmt.Sprintf("BEGIN { printf \"%%g %%g %%.2f %%e|\", %s, %s, %s, %s; x = %s; y = %s; printf \"%%g %%g %%s %%s|\", x, y, x, y; print atan2(%s, -1) < 0, atan2(%s, -1) < 0, (x == y), %s %s }\n", a, b, b, a, a, b, a, b, l, l), ""))
				out = append(out, mk("signed-literals", fmt.Sprintf("function f(p) { return sprintf(\"%%g\", p) }\n{ print f(%s), f(%s), f($1 * %s), f(%s * $1) }\n", a, b, a, b), "0\n-1\n"))
			}
		}
	}
	return out
}
