package props

// C14 — a reused Interpreter behaves like a fresh one.
//
// Monitor: random (and systematic) histories of Execute/ExecuteContext calls on ONE Interpreter,
// each with its own configuration and ending, followed by a probe run whose observable outcome
// (stdout, exit status, error, files written) is compared with the same run on interp.New(prog).
//
//   mode "reset"     ResetVars + ResetRand, then any probe configuration at all;
//   mode "resetvars" ResetVars only; the probe re-seeds the generator itself (reseed);
//   mode "noreset"   no reset; the probe first overwrites every variable and deletes every array
//                    ("neutral" prologue) and names every separator variable in Vars, so whatever
//                    still differs from a fresh interpreter is NOT a variable or an array — the
//                    record, NR/FNR/FILENAME, RSTART/RLENGTH, open streams, CSV header names,
//                    modes and the exit status must never carry over.  Before that, an optional
//                    "carry" run checks the other half: variables and arrays DO carry over.
//
// The programs and their action vocabulary live in harness/c14bank.

import (
	"context"
	"encoding/json"
	"errors"
	"fmt"
	"math/rand"
	"os"
	"path/filepath"
	"sort"
	"strconv"
	"strings"
	"time"

	"github.com/benhoyt/goawk/interp"
	"github.com/benhoyt/goawk/parser"
	vh "github.com/benhoyt/goawk/verifhook"

	bank "verifharness/c14bank"
	"verifharness/core"
	"verifharness/run"
)

// ---- case description ----------------------------------------------------------------------

// c14Step is the complete configuration of one Execute/ExecuteContext call.
type c14Step struct {
	Stdin     string   `json:"stdin"`
	StdinFile bool     `json:"stdin_file,omitempty"` // Stdin, Output and Error are *os.File (steps that run commands: see c14RunStep)
	Args      []string `json:"args,omitempty"`
	// control variables (see c14bank)
	Bact    string `json:"bact,omitempty"`
	Ract    string `json:"ract,omitempty"`
	Eact    string `json:"eact,omitempty"`
	At      int    `json:"at,omitempty"`
	UseAt   bool   `json:"useat,omitempty"`
	DeepN   int    `json:"deepn,omitempty"`
	Reseed  bool   `json:"reseed,omitempty"`
	Neutral bool   `json:"neutral,omitempty"`
	CMark   bool   `json:"cmark,omitempty"`
	// Vars are appended after the control variables: separators, user variables; invalid on
	// purpose in some history steps (odd length, bad value)
	Vars         []string `json:"vars,omitempty"`
	Environ      []string `json:"environ,omitempty"`
	InMode       int      `json:"inmode,omitempty"`
	OutMode      int      `json:"outmode,omitempty"`
	InSep        int32    `json:"insep,omitempty"`
	InComment    int32    `json:"incomment,omitempty"`
	OutSep       int32    `json:"outsep,omitempty"`
	Header       bool     `json:"header,omitempty"`
	Chars        bool     `json:"chars,omitempty"`
	NoExec       bool     `json:"noexec,omitempty"`
	NoFileWrites bool     `json:"nofilewrites,omitempty"`
	NoFileReads  bool     `json:"nofilereads,omitempty"`
	NoArgVars    bool     `json:"noargvars,omitempty"`
	Newline      int      `json:"newline,omitempty"`
	// Ctx: "" Execute; "bg" ExecuteContext(Background); "cc" cancellable context (the script's
	// cancel() cancels it); "pre" context cancelled before the call
	Ctx     string `json:"ctx,omitempty"`
	Invalid string `json:"invalid,omitempty"` // generator's label of a deliberately invalid configuration
}

type c14Case struct {
	Gen     string    `json:"gen"`
	Prog    string    `json:"prog"` // bank program name (information only)
	Src     string    `json:"src"`  // full program text (replay does not depend on the bank)
	History []c14Step `json:"history"`
	Mode    string    `json:"mode"`            // reset | resetvars | noreset
	Carry   bool      `json:"carry,omitempty"` // noreset: run the carry-over check before the probe
	Probe   c14Step   `json:"probe"`
}

// ---- native functions (the same map for the parser and every run, as the API requires) ------

// c14CurCancel is the cancel function of the run in progress (nil: not cancellable). Children are
// single-threaded with respect to interpreters, so a package variable is enough.
var c14CurCancel context.CancelFunc

var c14Funcs = map[string]any{
	"cancel": func() {
		if c14CurCancel != nil {
			c14CurCancel()
		}
	},
	"nerr": func(x float64) (float64, error) {
		if x > 0 {
			return 0, errors.New("native failure")
		}
		return x + 1, nil
	},
	"nid": func(s string) string { return s },
}

// ---- program bank, parsed once per process ---------------------------------------------------

type c14Prog struct {
	name    string
	src     string
	prog    *parser.Program
	deepMax int // largest depth(n) a fresh interpreter completes from doact()
}

var c14BankCache []c14Prog

func c14ParseBody(body string) (string, *parser.Program, error) {
	// first pass without prologue to enumerate the global variables
	p0, err, pm := run.Parse(strings.Replace(body, "%PROLOGUE%", "", 1), c14Funcs)
	if pm != "" {
		return "", nil, errors.New("parse panic: " + pm)
	}
	if err != nil {
		return "", nil, err
	}
	var scalars, arrays []string
	p0.IterVars("", func(name string, info vh.VarInfo) {
		if info.Type == vh.TypeArray {
			arrays = append(arrays, name)
		} else {
			scalars = append(scalars, name)
		}
	})
	src := bank.Program{Body: body}.WithPrologue(scalars, arrays)
	p1, err, pm := run.Parse(src, c14Funcs)
	if pm != "" {
		return "", nil, errors.New("parse panic: " + pm)
	}
	return src, p1, err
}

func c14Bank() ([]c14Prog, error) {
	if c14BankCache != nil {
		return c14BankCache, nil
	}
	var out []c14Prog
	for _, bp := range bank.Programs() {
		src, prog, err := c14ParseBody(bp.Body)
		if err != nil {
			return nil, fmt.Errorf("bank program %s: %v", bp.Name, err)
		}
		p := c14Prog{name: bp.Name, src: src, prog: prog}
		if len(out) == 0 {
			// Largest recursion depth a fresh interpreter completes (so that a call depth leaking
			// by even one frame per aborted run is visible). Every program reaches depth() the
			// same way (top level -> doacts -> doact), so it is measured once: a run 1000 calls
			// deep costs tens of milliseconds.
			lo, hi := 900, 1100 // invariant: lo succeeds, hi fails
			ok := func(n int) bool {
				o := c14RunStep(nil, prog, c14Step{Bact: "deep", DeepN: n}, 0)
				return o.Err == "" && o.Panic == ""
			}
			if !ok(lo) || ok(hi) {
				return nil, fmt.Errorf("bank program %s: recursion limit not in (900,1100)", bp.Name)
			}
			for hi-lo > 1 {
				mid := (lo + hi) / 2
				if ok(mid) {
					lo = mid
				} else {
					hi = mid
				}
			}
			p.deepMax = lo
		} else {
			p.deepMax = out[0].deepMax
		}
		out = append(out, p)
	}
	c14BankCache = out
	return out, nil
}

// ---- scratch directory ------------------------------------------------------------------------

var c14Dir string

// c14EnterDir makes the batch's scratch directory the working directory: the programs use
// relative file names (so that FILENAME and error texts are the same everywhere).
func c14EnterDir(c *core.Ctx) error {
	if c14Dir != "" {
		return nil
	}
	d := c.WorkDir()
	if err := os.Chdir(d); err != nil {
		return err
	}
	c14Dir = d
	return nil
}

// c14ResetDir restores the canonical file-system state: fixed inputs, no outputs. Called before
// the history and before each probe run, so that what earlier runs left ON DISK (which is
// environment, not interpreter state) never enters a comparison. It does nothing while no run
// that can write files has happened since the last reset (c14DirDirty).
func c14ResetDir() {
	if !c14DirDirty {
		return
	}
	for name, want := range bank.InputFiles {
		if have, err := os.ReadFile(name); err != nil || string(have) != want {
			_ = os.WriteFile(name, []byte(want), 0o644)
		}
	}
	for _, name := range bank.OutputFiles {
		_ = os.Remove(name)
	}
	_ = os.Remove(bank.Missing)
	c14DirDirty = false
}

var (
	c14DirDirty   = true  // the scratch directory may differ from the canonical state
	c14ProgWrites = false // the program being run writes files from its rules (bank variant "redirect")
)

// c14WriteActs are the actions that can create or change a file.
var c14WriteActs = map[string]bool{"pout": true, "papp": true, "pin": true, "pcmd": true}

func c14MayWrite(st c14Step) bool {
	if c14ProgWrites {
		return true
	}
	for _, l := range []string{st.Bact, st.Ract, st.Eact} {
		for _, a := range strings.Fields(l) {
			if c14WriteActs[a] {
				return true
			}
		}
	}
	return false
}

// c14Files snapshots every file a program can have touched. After a run that has no writing
// action only the existence of the output files is looked at (three stats instead of eight
// reads); if one exists after all, everything is read.
func c14Files(st c14Step) map[string]string {
	if !c14MayWrite(st) {
		unexpected := false
		for _, name := range bank.OutputFiles {
			if _, err := os.Lstat(name); err == nil {
				unexpected = true
			}
		}
		if !unexpected {
			return nil
		}
		c14DirDirty = true
	}
	m := map[string]string{}
	for name := range bank.InputFiles {
		if b, err := os.ReadFile(name); err == nil {
			m[name] = string(b)
		} else {
			m[name] = "<absent>"
		}
	}
	for _, name := range append(append([]string{}, bank.OutputFiles...), bank.Missing) {
		if b, err := os.ReadFile(name); err == nil {
			m[name] = string(b)
		}
	}
	return m
}

// ---- running one step ----------------------------------------------------------------------------

func c14Config(st c14Step, seq int) *interp.Config {
	b2s := func(b bool) string {
		if b {
			return "1"
		}
		return ""
	}
	cseq := ""
	if seq > 0 {
		cseq = strconv.Itoa(seq)
	}
	vars := []string{
		"cseq", cseq, "cmark", b2s(st.CMark),
		"bact", st.Bact, "ract", st.Ract, "eact", st.Eact, "at", strconv.Itoa(st.At),
		"useat", b2s(st.UseAt), "deepn", strconv.Itoa(st.DeepN), "reseed", b2s(st.Reseed), "neutral", b2s(st.Neutral),
	}
	vars = append(vars, st.Vars...)
	env := st.Environ
	if env == nil {
		env = []string{"K", "k0"}
	}
	return &interp.Config{
		Argv0:         "c14",
		Args:          st.Args,
		Vars:          vars,
		Environ:       env,
		Funcs:         c14Funcs,
		InputMode:     interp.IOMode(st.InMode),
		CSVInput:      interp.CSVInputConfig{Separator: rune(st.InSep), Comment: rune(st.InComment), Header: st.Header},
		OutputMode:    interp.IOMode(st.OutMode),
		CSVOutput:     interp.CSVOutputConfig{Separator: rune(st.OutSep)},
		Chars:         st.Chars,
		NoExec:        st.NoExec,
		NoFileWrites:  st.NoFileWrites,
		NoFileReads:   st.NoFileReads,
		NoArgVars:     st.NoArgVars,
		NewlineOutput: interp.NewlineMode(st.Newline),
		ShellCommand:  []string{filepath.Join(core.BuildDir, "vsh")},
	}
}

// c14RunStep runs one step on ip (nil: a fresh interpreter).
//
// Stdin/Output/Error are in-memory readers and writers, except in steps that may start a command
// (StdinFile): goawk hands its stdin, output and error writers to every command, and for values
// that are not *os.File os/exec starts goroutines that drain the reader, and append to the
// writers, concurrently with the interpreter's own reads and writes — scheduling-dependent
// outcomes (lost input, lost output: the data race C13 reports) that have nothing to do with
// this property. With real files, as under the CLI, the descriptors are simply inherited.
func c14RunStep(ip *interp.Interpreter, prog *parser.Program, st c14Step, seq int) run.Outcome {
	cfg := c14Config(st, seq)
	if st.StdinFile {
		_ = os.WriteFile("stdin.dat", []byte(st.Stdin), 0o644)
		in, err := os.Open("stdin.dat")
		if err != nil {
			return run.Outcome{Panic: "harness: " + err.Error()}
		}
		defer in.Close()
		out, err := os.Create("stdout.dat")
		if err != nil {
			return run.Outcome{Panic: "harness: " + err.Error()}
		}
		defer out.Close()
		errOut, err := os.Create("stderr.dat")
		if err != nil {
			return run.Outcome{Panic: "harness: " + err.Error()}
		}
		defer errOut.Close()
		cfg.Stdin, cfg.Output, cfg.Error = in, out, errOut
	} else {
		cfg.Stdin = strings.NewReader(st.Stdin)
	}
	opts := run.Opts{Interp: ip}
	c14CurCancel = nil
	switch st.Ctx {
	case "bg":
		opts.Ctx = context.Background()
	case "cc":
		ctx, cancel := context.WithCancel(context.Background())
		opts.Ctx, c14CurCancel = ctx, cancel
		defer cancel()
	case "pre":
		ctx, cancel := context.WithCancel(context.Background())
		cancel()
		opts.Ctx = ctx
	}
	if c14MayWrite(st) {
		c14DirDirty = true
	}
	o := run.Exec(prog, cfg, opts)
	c14CurCancel = nil
	if st.StdinFile {
		b, _ := os.ReadFile("stdout.dat")
		o.Stdout = string(b)
		b, _ = os.ReadFile("stderr.dat")
		o.Stderr = string(b)
	}
	return o
}

// c14Ending names how a run ended (coverage only).
func c14Ending(o run.Outcome) string {
	switch {
	case o.Panic != "":
		return "panic"
	case o.StepLimit:
		return "steplimit"
	case o.Err == "" && o.Status == 0:
		return "ok"
	case o.Err == "":
		return fmt.Sprintf("exit:%d", o.Status)
	case errors.Is(o.ErrVal, context.Canceled):
		return "cancelled"
	case o.Steps == 0:
		return "config-error:" + c14ErrClass(o.Err)
	}
	return "error:" + c14ErrClass(o.Err)
}

// c14ErrClass shortens an error message to its constant part.
func c14ErrClass(m string) string {
	var sb strings.Builder
	inq := false
	for _, r := range m {
		if r == '"' {
			inq = !inq
			continue
		}
		if inq || (r >= '0' && r <= '9') {
			continue
		}
		sb.WriteRune(r)
	}
	s := strings.Join(strings.Fields(sb.String()), " ")
	if len(s) > 48 {
		s = s[:48]
	}
	return s
}

// ---- the check ---------------------------------------------------------------------------------

type c14Obs struct {
	run.Outcome
	Files map[string]string
}

func (o c14Obs) String() string {
	var names []string
	for n := range o.Files {
		names = append(names, n)
	}
	sort.Strings(names)
	var fs []string
	for _, n := range names {
		if want, isInput := bank.InputFiles[n]; isInput && want == o.Files[n] {
			continue
		}
		fs = append(fs, fmt.Sprintf("%s=%q", n, o.Files[n]))
	}
	return o.Outcome.String() + " files{" + strings.Join(fs, " ") + "}"
}

// c14Classify gives the narrow class of a probe divergence, "" if it matches no known shape.
//
// "fieldnames-survive:at-resolves-without-header": the fresh interpreter stops with "no field
// names for @" where the reused one goes on (its output up to that point being the same) — the
// CSV header names of an earlier run are still there.
func c14Classify(fresh, reused c14Obs) string {
	const noNames = "no field names for @"
	if strings.Contains(fresh.Err, noNames) && !strings.Contains(reused.Err, noNames) &&
		strings.HasPrefix(reused.Stdout, fresh.Stdout) && reused.Panic == "" {
		return "fieldnames-survive:at-resolves-without-header"
	}
	return ""
}

// c14Compare reports every difference between the probe on the reused interpreter and on a
// fresh one. It returns true if they agree.
func c14Compare(c *core.Ctx, cs c14Case, prog *parser.Program, fresh, reused c14Obs) bool {
	where := fmt.Sprintf("mode=%s prog=%s after %d run(s)", cs.Mode, cs.Prog, len(cs.History))
	if fresh.Panic != "" {
		// the probe panics on a fresh interpreter too: not this property's business (C02)
		c.Count("probe_panics_on_fresh", 1)
		c.Cover("panic_sites_on_fresh", run.PanicSite(fresh.Panic))
		return true
	}
	if fresh.StepLimit && reused.StepLimit {
		c.Count("probe_steplimit_both", 1)
		return true
	}
	if strings.Contains(fresh.Stderr, "WaitDelay expired") || strings.Contains(reused.Stderr, "WaitDelay expired") {
		// goawk abandoned os/exec's output copier 250 ms after a command's exit (overloaded machine):
		// a wall-clock effect in one of the two runs, not a trace of history
		c.Count("waitdelay_timing_artefacts_not_judged", 1)
		return true
	}
	if reused.Panic != "" {
		c.Violation("probe-panic", "", where+": probe panics on the reused interpreter only: "+run.PanicSite(reused.Panic),
			fresh.String(), reused.Panic, cs)
		return false
	}
	if fresh.Sig() != reused.Sig() {
		class := c14Classify(fresh, reused)
		if class == "" {
			class = c14ClassifyByIntervention(cs, prog)
		}
		c.Violation("probe-differs", class, where+": stdout/status/error of the probe differ from a fresh interpreter: "+c14FirstDiff(fresh.Stdout, reused.Stdout),
			fresh.String(), reused.String(), cs)
		return false
	}
	if fresh.Err != reused.Err {
		c.Violation("probe-error-text", "", where+": the probe fails on both, with different errors", fresh.Err, reused.Err, cs)
		return false
	}
	if !c14SameFiles(fresh.Files, reused.Files) {
		c.Violation("probe-files", c14ClassifyByIntervention(cs, prog), where+": files written by the probe differ from a fresh interpreter's", fresh.String(), reused.String(), cs)
		return false
	}
	if len(reused.Faults) > 0 && len(fresh.Faults) == 0 {
		c.Violation("probe-stack-fault", "", where+": evaluation-stack balance fault on the reused interpreter only", "", strings.Join(reused.Faults, "; "), cs)
		return false
	}
	if fresh.Steps != reused.Steps {
		// not part of the property (same output, different amount of work); reported as a counter
		c.Count("probe_step_count_differs", 1)
	}
	return true
}

// c14Diagnose re-runs the whole case with a transformed probe and returns the two observations
// of the probe (ok=false if the history panicked). It reports nothing; it exists to classify a
// divergence by intervention ("does it go away when the probe does not do X?").
func c14Diagnose(cs c14Case, prog *parser.Program, transform func(*c14Step)) (fresh, reused c14Obs, ok bool) {
	ip, err := interp.New(prog)
	if err != nil {
		return
	}
	c14ResetDir()
	for i, st := range cs.History {
		if o := c14RunStep(ip, prog, st, i+1); o.Panic != "" {
			return
		}
	}
	probe := cs.Probe
	transform(&probe)
	switch cs.Mode {
	case "reset":
		ip.ResetVars()
		ip.ResetRand()
	case "resetvars":
		ip.ResetVars()
		probe.Reseed = true
	case "noreset":
		probe.Neutral = true
		if cs.Carry {
			c14ResetDir()
			c14RunStep(ip, prog, c14Step{Bact: "carry"}, 0)
		}
	}
	c14ResetDir()
	reused = c14Obs{c14RunStep(ip, prog, probe, 0), c14Files(probe)}
	c14ResetDir()
	fresh = c14Obs{c14RunStep(nil, prog, probe, 0), c14Files(probe)}
	return fresh, reused, true
}

// c14StripActions removes the named actions from the three action lists of a step.
func c14StripActions(st *c14Step, names ...string) {
	strip := func(l string) string {
		var keep []string
	next:
		for _, a := range strings.Fields(l) {
			for _, n := range names {
				if a == n {
					continue next
				}
			}
			keep = append(keep, a)
		}
		return strings.Join(keep, " ")
	}
	st.Bact, st.Ract, st.Eact = strip(st.Bact), strip(st.Ract), strip(st.Eact)
}

// c14ClassifyByIntervention gives the class of a probe divergence that c14Classify does not
// recognise from the two outcomes alone.
//
//   - "...:masked-by-context-error": under a cancelled context goawk reports the context's error
//     in place of any run-time error, which hides the text c14Classify needs: the same case with
//     the probe run by plain Execute (and without cancel actions) shows the known shape.
//   - "csvfields-survive:INPUTMODE-assigned-while-reading": the probe assigns INPUTMODE = "csv..."
//     or "tsv" at run time, so records keep coming from a scanner that is not a CSV scanner while
//     setLine installs interp.csvFields — the field list of the last CSV record of an EARLIER run
//     (nil on a fresh interpreter). Recognised by: the probe contains imcsv/imtsv, and without
//     those actions the same case shows no difference at all (or only the header-name shape of
//     c14Classify: "+fieldnames-survive...", both known leaks in one probe).
func c14ClassifyByIntervention(cs c14Case, prog *parser.Program) string {
	if prog == nil {
		return ""
	}
	if cs.Probe.Ctx == "pre" || cs.Probe.Ctx == "cc" {
		fresh, reused, ok := c14Diagnose(cs, prog, func(p *c14Step) {
			p.Ctx = ""
			c14StripActions(p, "cancel")
		})
		if ok {
			if class := c14Classify(fresh, reused); class != "" {
				return class + ":masked-by-context-error"
			}
		}
	}
	p := cs.Probe
	if c14HasAction(p.Bact, "imcsv") || c14HasAction(p.Bact, "imtsv") || c14HasAction(p.Ract, "imcsv") || c14HasAction(p.Ract, "imtsv") ||
		c14HasAction(p.Eact, "imcsv") || c14HasAction(p.Eact, "imtsv") {
		fresh, reused, ok := c14Diagnose(cs, prog, func(p *c14Step) { c14StripActions(p, "imcsv", "imtsv") })
		if ok && fresh.Panic == "" && reused.Panic == "" {
			if fresh.Sig() == reused.Sig() && fresh.Err == reused.Err && c14SameFiles(fresh.Files, reused.Files) {
				return "csvfields-survive:INPUTMODE-assigned-while-reading"
			}
			// both known leaks in one probe: without the INPUTMODE assignment what remains is
			// exactly the header-name shape
			if class := c14Classify(fresh, reused); class != "" {
				return "csvfields-survive:INPUTMODE-assigned-while-reading+" + class
			}
		}
	}
	return ""
}

func c14SameFiles(a, b map[string]string) bool {
	if len(a) != len(b) {
		return false
	}
	for k, v := range a {
		if w, ok := b[k]; !ok || w != v {
			return false
		}
	}
	return true
}

// c14FirstDiff shows the first differing line of two outputs.
func c14FirstDiff(a, b string) string {
	la, lb := strings.SplitAfter(a, "\n"), strings.SplitAfter(b, "\n")
	for i := 0; i < len(la) || i < len(lb); i++ {
		var x, y string
		if i < len(la) {
			x = la[i]
		}
		if i < len(lb) {
			y = lb[i]
		}
		if x != y {
			return fmt.Sprintf("line %d: fresh %s reused %s", i+1, core.Q(x), core.Q(y))
		}
	}
	return "stdout equal (status or error differs)"
}

// c14ObsLabels are the first words of the lines the observing actions print.
var c14ObsLabels = map[string]bool{"close": true, "flush": true, "rand": true, "srand": true, "fields": true, "at": true, "atb": true,
	"chars": true, "deep": true, "loop": true, "match": true, "nomatch": true, "getl": true, "getlv": true, "getf": true, "getf0": true,
	"getf3": true, "getfm": true, "getfo": true, "getstdin": true, "closeo": true, "closei": true, "closec": true, "gcmd": true, "sys": true,
	"nok": true, "so": true, "aftercancel": true, "carry": true}

func c14HasAction(list, name string) bool {
	for _, a := range strings.Fields(list) {
		if a == name {
			return true
		}
	}
	return false
}

func (st c14Step) touchesSUBSEP() bool {
	for i := 0; i+1 < len(st.Vars); i += 2 {
		if st.Vars[i] == "SUBSEP" {
			return true
		}
	}
	for _, a := range st.Args {
		if strings.HasPrefix(a, "SUBSEP=") {
			return true
		}
	}
	return c14HasAction(st.Bact, "subsep") || c14HasAction(st.Ract, "subsep") || c14HasAction(st.Eact, "subsep")
}

// c14RunCase runs one case completely. verbose prints the history (replay).
func c14RunCase(c *core.Ctx, cs c14Case, prog *parser.Program, verbose bool) {
	c.Eval(1)
	c14ProgWrites = strings.HasPrefix(cs.Prog, "redirect/") || !strings.Contains(cs.Prog, "/") // unknown program name (hand-edited replay): assume it writes
	ip, err := interp.New(prog)
	if err != nil {
		c.Inconclusive("interp.New: " + err.Error())
		return
	}
	c14ResetDir()
	executed := make([]bool, len(cs.History))
	anyExecuted := false
	lastEnding := "none"
	for i, st := range cs.History {
		o := c14RunStep(ip, prog, st, i+1)
		ending := c14Ending(o)
		lastEnding = ending
		if verbose {
			fmt.Printf("history run %d: %s\n   stdout=%s err=%q\n", i+1, ending, core.Q(o.Stdout), o.Err)
		}
		c.Count("history_runs", 1)
		c.Cover("history_endings", ending)
		if o.Panic != "" {
			c14HistoryPanic(c, cs, i, st, prog, o)
			return
		}
		if o.StepLimit {
			c.Count("history_steplimit", 1)
			return
		}
		executed[i] = o.Steps > 0
		if executed[i] != (st.Invalid == "") {
			c.Count("invalid_label_mismatch", 1)
			c.Note("step labelled invalid=%q executed=%v err=%q", st.Invalid, executed[i], o.Err)
		}
		anyExecuted = anyExecuted || executed[i]
		for _, ph := range []struct{ p, l string }{{"B", st.Bact}, {"R", st.Ract}, {"E", st.Eact}} {
			for _, a := range strings.Fields(ph.l) {
				c.Cover("actions_history", ph.p+":"+a)
			}
		}
		c14CoverConfig(c, "history_config", st)
	}
	c.Cover("last_ending_x_mode", c14EndingKind(lastEnding)+"->"+cs.Mode)

	// the reset (or not) the mode asks for
	probe := cs.Probe
	switch cs.Mode {
	case "reset":
		ip.ResetVars()
		ip.ResetRand()
	case "resetvars":
		ip.ResetVars()
		probe.Reseed = true
	case "noreset":
		probe.Neutral = true
		if cs.Carry && !c14CarryCheck(c, cs, ip, prog, executed, verbose) {
			return // the carry run panicked
		}
	default:
		c.Inconclusive("unknown mode " + cs.Mode)
		return
	}
	c.Count("cases_"+cs.Mode, 1)

	c14ResetDir()
	ro := c14RunStep(ip, prog, probe, 0)
	reused := c14Obs{ro, c14Files(probe)}
	c14ResetDir()
	fo := c14RunStep(nil, prog, probe, 0)
	fresh := c14Obs{fo, c14Files(probe)}
	if verbose {
		fmt.Printf("probe on fresh : %s\nprobe on reused: %s\n", fresh, reused)
	}
	same := c14Compare(c, cs, prog, fresh, reused)
	if same {
		c.Count("probes_equal", 1)
	}
	c.Cover("probe_endings", c14Ending(fo))
	for _, ph := range []struct{ p, l string }{{"B", probe.Bact}, {"R", probe.Ract}, {"E", probe.Eact}} {
		for _, a := range strings.Fields(ph.l) {
			c.Cover("actions_probe", ph.p+":"+a)
		}
	}
	c14CoverConfig(c, "probe_config", probe)
	if n := len(cs.History); n > 0 {
		c.Cover("input_mode_transitions", c14InKind(cs.History[n-1])+"->"+c14InKind(probe))
	}
	c.Cover("programs", cs.Prog)
	c.Max("history_len", int64(len(cs.History)))
	// observations the fresh probe actually printed: dump lines by tag and kind, action lines
	// by their label
	for _, line := range strings.Split(fo.Stdout, "\n") {
		if len(line) > 2 && line[1] == ' ' && strings.IndexByte("BDE", line[0]) >= 0 {
			for _, kind := range []string{"rec", "modes", "seps", "vars", "argv", "fmt"} {
				if strings.HasPrefix(line[2:], kind) {
					c.Cover("probe_observations", line[:2]+kind)
				}
			}
			continue
		}
		end := 0
		for end < len(line) && line[end] >= 'a' && line[end] <= 'z' || end < len(line) && line[end] >= '0' && line[end] <= '9' {
			end++
		}
		if c14ObsLabels[line[:end]] {
			c.Cover("probe_observations", "action "+line[:end])
		}
	}
	if anyExecuted && (fo.Stdout != "" || fo.Err != "") {
		key, _ := json.Marshal(struct {
			P string
			H []c14Step
			M string
			Q c14Step
		}{cs.Prog, cs.History, cs.Mode, cs.Probe})
		c.NonTrivial(string(key))
	}
	if c.WantSample() && same && len(cs.History) >= 2 {
		c.Sample(map[string]any{"prog": cs.Prog, "mode": cs.Mode, "history": cs.History, "last_history_ending": lastEnding,
			"probe": cs.Probe, "probe_outcome_fresh_and_reused": core.Clip(fresh.Outcome.String(), 600)})
	}
}

// c14HistoryPanic handles a panic in run i (0-based) of the history (i == len(History): the
// carry run). A panic is outside the histories the property quantifies over (C02 owns "never
// panics"), unless reuse itself causes it: the same run on a fresh interpreter decides.
func c14HistoryPanic(c *core.Ctx, cs c14Case, i int, st c14Step, prog *parser.Program, o run.Outcome) {
	c14ResetDir()
	f := c14RunStep(nil, prog, st, i+1)
	if f.Panic != "" || i == 0 {
		c.Count("history_panics_on_fresh", 1)
		c.Cover("panic_sites_on_fresh", run.PanicSite(o.Panic))
		return
	}
	c.Violation("history-panic", c14ClassifyHistoryPanic(cs, i, o.Panic),
		fmt.Sprintf("run %d on the reused interpreter panics (%s); the same run on a fresh interpreter ends with: %s", i+1, run.PanicSite(o.Panic), c14Ending(f)),
		f.String(), o.Panic, cs)
}

// c14ClassifyHistoryPanic: narrow classes of known panics on reuse.
//
// "invalid-FS-kept-after-error:nil-regexp" / "invalid-RS-kept-after-error:nil-regexp": an earlier
// run was stopped by an invalid regex assigned to FS (RS); goawk stored the string before
// compiling it, so the next run splits with a nil *regexp.Regexp.
func c14ClassifyHistoryPanic(cs c14Case, i int, panicText string) string {
	if !strings.Contains(panicText, "nil pointer dereference") {
		return ""
	}
	assignedBad := func(name string) bool {
		for j := 0; j < i && j < len(cs.History); j++ {
			st := cs.History[j]
			for k := 0; k+1 < len(st.Vars); k += 2 {
				if st.Vars[k] == name && st.Vars[k+1] == c14BadRegex {
					return true
				}
			}
			act := strings.ToLower(name) + "bad"
			if c14HasAction(st.Bact, act) || c14HasAction(st.Ract, act) || c14HasAction(st.Eact, act) {
				return true
			}
		}
		return false
	}
	switch {
	case strings.Contains(panicText, "splitOnFieldSepRegex") && assignedBad("FS"):
		return "invalid-FS-kept-after-error:nil-regexp"
	case strings.Contains(panicText, "regexSplitter") && assignedBad("RS"):
		return "invalid-RS-kept-after-error:nil-regexp"
	}
	return ""
}

// c14BadRegex is the invalid regular expression used by the var-FS-bad-regex configuration and
// by the fsbad/rsbad actions.
const c14BadRegex = "a("

// c14CarryCheck: without ResetVars the program's variables and arrays carry over. Every run
// that started executing recorded its sequence number in a scalar and in an array (first
// statement of BEGIN); runs marked cmark also set SUBSEP. The carry run prints them.
func c14CarryCheck(c *core.Ctx, cs c14Case, ip *interp.Interpreter, prog *parser.Program, executed []bool, verbose bool) bool {
	last, keys := "", ""
	wantSubsep, knowSubsep := "", false
	for i, st := range cs.History {
		if st.touchesSUBSEP() {
			knowSubsep = false
		}
		if !executed[i] {
			continue
		}
		last = strconv.Itoa(i + 1)
		keys += last
		if st.CMark && !st.touchesSUBSEP() {
			wantSubsep, knowSubsep = "<"+last+">", true
		}
	}
	c14ResetDir()
	o := c14RunStep(ip, prog, c14Step{Bact: "carry"}, 0)
	c.Count("history_runs", 1)
	if o.Panic != "" {
		c14HistoryPanic(c, cs, len(cs.History), c14Step{Bact: "carry"}, prog, o)
		return false
	}
	var got string
	for _, line := range strings.Split(o.Stdout, "\n") {
		if strings.HasPrefix(line, "carry ") {
			got = line
		}
	}
	if verbose {
		fmt.Printf("carry run: %s\n", core.Q(got))
	}
	want := fmt.Sprintf("carry [%s] [%s] ", last, keys)
	if !strings.HasPrefix(got, want) {
		c.Violation("carry-lost", "", "without ResetVars a scalar/array set by earlier runs did not carry over", want+"[SUBSEP]", got, cs)
		return true
	}
	if knowSubsep && got != want+"["+wantSubsep+"]" {
		c.Violation("carry-lost", "", "without ResetVars SUBSEP set by an earlier run did not carry over", want+"["+wantSubsep+"]", got, cs)
		return true
	}
	c.Count("carry_checks", 1)
	if knowSubsep {
		c.Count("carry_checks_with_SUBSEP", 1)
	}
	return true
}

func c14EndingKind(e string) string {
	if i := strings.IndexByte(e, ':'); i >= 0 {
		return e[:i]
	}
	return e
}

func c14InKind(st c14Step) string {
	k := []string{"default", "csv", "tsv"}[st.InMode%3]
	if st.Header {
		k += "+header"
	}
	for i := 0; i+1 < len(st.Vars); i += 2 {
		if st.Vars[i] == "INPUTMODE" {
			k += "+var(" + st.Vars[i+1] + ")"
		}
	}
	return k
}

func c14CoverConfig(c *core.Ctx, set string, st c14Step) {
	c.Cover(set, "in="+c14InKind(st))
	c.Cover(set, "out="+[]string{"default", "csv", "tsv"}[st.OutMode%3])
	c.Cover(set, "ctx="+st.Ctx)
	flag := func(name string, b bool) {
		if b {
			c.Cover(set, name)
		}
	}
	flag("chars", st.Chars)
	flag("noexec", st.NoExec)
	flag("nofilewrites", st.NoFileWrites)
	flag("nofilereads", st.NoFileReads)
	flag("noargvars", st.NoArgVars)
	flag("crlf", st.Newline == int(interp.CRLFNewlineMode))
	flag("stdin-file", st.StdinFile)
	flag("invalid="+st.Invalid, st.Invalid != "")
	for _, a := range st.Args {
		switch {
		case strings.Contains(a, "="):
			c.Cover(set, "arg=assignment")
		case a == "-" || a == "":
			c.Cover(set, "arg="+a)
		default:
			c.Cover(set, "arg=file:"+a)
		}
	}
	for i := 0; i+1 < len(st.Vars); i += 2 {
		c.Cover(set, "var="+st.Vars[i])
	}
}

// ---- generators ----------------------------------------------------------------------------------

var (
	c14PlainInputs = []string{
		"a 1 x\nb 2 y\nc 3 z\nd 4 w\ne 5 v\n",
		"b 7\nstop 1\nc 2\na 9\n",
		"",
		"one",
		"a:1:x\nb:2:y\nc:3:z\n",
		"a;b;c;d",
		"p1 l1\np1 l2\n\np2 l1\n\n\np3\n",
		"x,1\ny,2\n",
		"é 1\nü 2\nb 3\n",
		"a 1\r\nb 2\r\nc 3\r\n",
		"axxb;c\nd\n",
	}
	c14CSVInputs = []string{
		"name,b,c\nann,1,\"q,r\"\nbob,2,z\n",
		"b,name\n1,x\n2,y\n3,a\n",
		"name;b\nx;1\n#c\ny;2\n",
		"h1,h2\n",
		"",
		"name,b\n\"multi\nline\",2\nz,3\n",
		"name\tb\nt1\t2\nt2\t3\n",
		"c,b,name,extra\n1,2,3,4\n",
	}
	c14ArgPool    = []string{bank.In1, bank.In1, bank.In2, bank.In2, bank.In3, bank.Empty, bank.Missing, "-", "cnt=5", "FS=:", "", "acc=zz", "OFS=+", "RS=;"}
	c14SpecialVal = map[string][]string{
		"FS":      {" ", ":", ",", "\t", "[:,]+", "|"},
		"OFS":     {" ", "-", ",", "\t"},
		"ORS":     {"\n", "|\n", ";\n"},
		"RS":      {"\n", ";", "", "x+|;"},
		"SUBSEP":  {"\x1c", "#", ":"},
		"CONVFMT": {"%.6g", "%.2g", "%.3f"},
		"OFMT":    {"%.6g", "%.3f", "%.2g"},
	}
	c14Specials = []string{"FS", "OFS", "ORS", "RS", "SUBSEP", "CONVFMT", "OFMT"}
	c14UserVars = [][2]string{{"cnt", "7"}, {"acc", "q"}, {"last", "z"}, {"sum", "2.5"}, {"zero", "0"}, {"line", "L"}}
	c14Invalid  = []string{"oddvars", "oddenviron", "csvconfig-in-default-mode", "outconfig-in-default-mode", "bad-separator",
		"separator-equals-comment", "var-INPUTMODE-bogus", "var-OUTPUTMODE-bogus", "var-FS-bad-regex", "var-NF-negative", "bad-newline-mode"}
)

// action pools by purpose
var (
	c14ObsActs   []string // observations that do not end the run
	c14EndActs   []string // may end the run (exit, error, cancel)
	c14StateActs []string // leave state behind (streams, record, variables)
	c14SlowActs  []string // cost a process (vsh command) or ~1000 nested calls each: drawn rarely
	c14CmdActs   = map[string]bool{}
	c14IsSlow    = map[string]bool{"deep": true, "deeperr": true}
)

func init() {
	for _, a := range bank.Actions {
		if a.HasTag("cmd") {
			c14CmdActs[a.Name] = true
			c14IsSlow[a.Name] = true
		}
		switch {
		case c14IsSlow[a.Name]:
			c14SlowActs = append(c14SlowActs, a.Name)
		case a.HasTag("ends") && !a.HasTag("stream") && a.Name != "at" && a.Name != "atb":
			c14EndActs = append(c14EndActs, a.Name)
		case a.HasTag("obs") && !a.HasTag("vars") && !a.HasTag("rec"):
			c14ObsActs = append(c14ObsActs, a.Name)
		default:
			c14StateActs = append(c14StateActs, a.Name)
		}
	}
}

func c14Pick(rng *rand.Rand, l []string) string { return l[rng.Intn(len(l))] }

// c14GenActs draws an action list: up to max actions, each an observation, a state change, (with
// probability pEnd) an ending, or (rarely) one of the slow actions.
func c14GenActs(rng *rand.Rand, max int, pEnd float64) string {
	n := rng.Intn(max + 1)
	var l []string
	for i := 0; i < n; i++ {
		var a string
		switch r := rng.Float64(); {
		case r < 0.004:
			a = c14Pick(rng, c14SlowActs)
		case r < pEnd:
			a = c14Pick(rng, c14EndActs)
		case r < pEnd+(1-pEnd)*0.45:
			a = c14Pick(rng, c14ObsActs)
		default:
			a = c14Pick(rng, c14StateActs)
		}
		l = append(l, a)
	}
	return strings.Join(l, " ")
}

// c14GenStep draws a run configuration. probe=true lowers the rate of endings and never makes
// the configuration invalid on purpose (an invalid probe would observe nothing).
func c14GenStep(rng *rand.Rand, p c14Prog, probe bool) c14Step {
	var st c14Step
	pEnd := 0.22
	if probe {
		pEnd = 0.06
	}
	st.Bact = c14GenActs(rng, 3, pEnd)
	st.Ract = c14GenActs(rng, 3, pEnd)
	st.Eact = c14GenActs(rng, 2, pEnd)
	if probe {
		// a probe never seeds from the clock: what it prints has to be reproducible
		noClock := func(l string) string {
			return strings.Join(strings.Fields(strings.ReplaceAll(" "+l+" ", " srandclock ", " ")), " ")
		}
		st.Bact, st.Ract, st.Eact = noClock(st.Bact), noClock(st.Ract), noClock(st.Eact)
	}
	if probe && rng.Intn(3) == 0 {
		// a probe that looks at everything first
		st.Bact = strings.TrimSpace("closes getf getstdin fields " + st.Bact)
	}
	st.At = 1 + rng.Intn(4)
	st.UseAt = rng.Intn(4) == 0
	st.DeepN = p.deepMax - rng.Intn(2)*rng.Intn(50)
	st.CMark = rng.Intn(3) == 0
	// input mode and matching input
	switch r := rng.Intn(100); {
	case r < 55:
	case r < 88:
		st.InMode, st.Header = int(interp.CSVMode), rng.Intn(10) < 6
		if rng.Intn(6) == 0 {
			st.InSep = ';'
			if rng.Intn(2) == 0 {
				st.InComment = '#'
			}
		}
	default:
		st.InMode, st.Header = int(interp.TSVMode), rng.Intn(2) == 0
	}
	if st.InMode != 0 && rng.Intn(10) < 8 {
		st.Stdin = c14Pick(rng, c14CSVInputs)
	} else if rng.Intn(10) < 9 {
		st.Stdin = c14Pick(rng, c14PlainInputs)
	} else {
		st.Stdin = c14Pick(rng, c14CSVInputs)
	}
	switch r := rng.Intn(100); {
	case r < 78:
	case r < 95:
		st.OutMode = int(interp.CSVMode)
		if rng.Intn(5) == 0 {
			st.OutSep = '|'
		}
	default:
		st.OutMode = int(interp.TSVMode)
	}
	if rng.Intn(100) < 40 {
		for n := 1 + rng.Intn(3); n > 0; n-- {
			st.Args = append(st.Args, c14Pick(rng, c14ArgPool))
		}
	}
	for _, sp := range c14Specials {
		if rng.Intn(10) == 0 {
			st.Vars = append(st.Vars, sp, c14Pick(rng, c14SpecialVal[sp]))
		}
	}
	if rng.Intn(12) == 0 {
		st.Vars = append(st.Vars, "INPUTMODE", c14Pick(rng, []string{"csv header", "tsv", "csv separator=; header", "csv", ""}))
	}
	if rng.Intn(20) == 0 {
		st.Vars = append(st.Vars, "OUTPUTMODE", c14Pick(rng, []string{"csv", "tsv", "csv separator=|", ""}))
	}
	if rng.Intn(4) == 0 {
		uv := c14UserVars[rng.Intn(len(c14UserVars))]
		st.Vars = append(st.Vars, uv[0], uv[1])
	}
	if rng.Intn(25) == 0 {
		st.Vars = append(st.Vars, c14Pick(rng, []string{"NR", "FNR", "NF", "RSTART", "RLENGTH", "FILENAME"}), "3")
	}
	if rng.Intn(3) == 0 {
		st.Environ = []string{"K", c14Pick(rng, []string{"k1", "k2", ""})}
	}
	st.Chars = rng.Intn(5) == 0
	st.NoExec = rng.Intn(10) == 0
	st.NoFileWrites = rng.Intn(10) == 0
	st.NoFileReads = rng.Intn(10) == 0
	st.NoArgVars = rng.Intn(10) == 0
	switch rng.Intn(10) {
	case 0:
		st.Newline = int(interp.CRLFNewlineMode)
	case 1:
		st.Newline = int(interp.RawNewlineMode)
	}
	switch r := rng.Intn(100); {
	case r < 50:
	case r < 62:
		st.Ctx = "bg"
	case r < 90:
		st.Ctx = "cc"
	default:
		st.Ctx = "pre"
	}
	if !probe && rng.Intn(100) < 9 {
		c14MakeInvalid(rng, &st)
	}
	c14AvoidB1(&st, p.name)
	c14Finish(&st)
	if probe && st.StdinFile {
		// A probe that starts a command never cancels its context afterwards: whether the kill
		// reaches the command before it has created its output file, or before it exits by
		// itself, is a race between two processes (C15 judges cancellation of commands).
		strip := func(l string) string {
			var keep []string
			for _, a := range strings.Fields(l) {
				if a != "cancel" {
					keep = append(keep, a)
				}
			}
			return strings.Join(keep, " ")
		}
		st.Bact, st.Ract, st.Eact = strip(st.Bact), strip(st.Ract), strip(st.Eact)
	}
	return st
}

// c14GetlineVarActs read a record into a variable through a redirected or plain getline. In
// CSV/TSV input mode goawk's CSV splitter then overwrites the current record's field list
// without its bookkeeping, and a later field access panics (index out of range in getField,
// setField or the NF assignment) — on a fresh interpreter just the same, so it is not this
// property's business (by-catch B1 in notes/C14.md, for C02/C06). Whether such a run panics
// depends on the program's control flow, hence on variables that legitimately carry over, so the
// combination would make "panics on the reused interpreter only" unsound: the generators never
// produce it.
var c14GetlineVarActs = map[string]bool{"getf": true, "getf3": true, "getstdin": true, "getfo": true, "gcmd": true, "getlv": true}

// c14AvoidB1 removes the combination CSV/TSV input mode + `getline var` from a step: the actions
// are replaced by getf0 (getline into $0 is well defined in CSV mode); with a bank program whose
// rules themselves do `getline line` the step falls back to the default input mode.
func c14AvoidB1(st *c14Step, progName string) {
	if st.Invalid != "" {
		return // never executes
	}
	csv := st.InMode != 0
	for i := 0; i+1 < len(st.Vars); i += 2 {
		if st.Vars[i] == "INPUTMODE" && st.Vars[i+1] != "" {
			csv = true
		}
	}
	for _, l := range []string{st.Bact, st.Ract, st.Eact} {
		if c14HasAction(l, "imcsv") || c14HasAction(l, "imtsv") {
			csv = true
		}
	}
	if !csv {
		return
	}
	rulesGetline := strings.HasPrefix(progName, "getline/")
	if rulesGetline {
		st.InMode, st.Header, st.InSep, st.InComment = 0, false, 0, 0
		c14DropVar(st, "INPUTMODE")
	}
	filter := func(l string) string {
		var keep []string
		for _, a := range strings.Fields(l) {
			switch {
			case rulesGetline && (a == "imcsv" || a == "imtsv"):
				a = "imoff"
			case !rulesGetline && c14GetlineVarActs[a]:
				a = "getf0"
			}
			keep = append(keep, a)
		}
		return strings.Join(keep, " ")
	}
	st.Bact, st.Ract, st.Eact = filter(st.Bact), filter(st.Ract), filter(st.Eact)
}

// c14Finish derives the fields that follow from the others.
func c14Finish(st *c14Step) {
	st.StdinFile = false
	for _, l := range []string{st.Bact, st.Ract, st.Eact} {
		for _, a := range strings.Fields(l) {
			if c14CmdActs[a] {
				st.StdinFile = true
			}
		}
	}
}

// c14MakeInvalid turns the configuration into one that Execute rejects before running anything.
func c14MakeInvalid(rng *rand.Rand, st *c14Step) {
	st.Invalid = c14Pick(rng, c14Invalid)
	switch st.Invalid {
	case "oddvars":
		st.Vars = append(st.Vars, "dangling")
	case "oddenviron":
		st.Environ = []string{"K", "k1", "X"}
	case "csvconfig-in-default-mode":
		st.InMode, st.InSep, st.InComment, st.Header = 0, 0, 0, true
		c14DropVar(st, "INPUTMODE")
	case "outconfig-in-default-mode":
		st.OutMode, st.OutSep = 0, ';'
		c14DropVar(st, "OUTPUTMODE")
	case "bad-separator":
		st.InMode, st.InSep = int(interp.CSVMode), '"'
		c14DropVar(st, "INPUTMODE")
	case "separator-equals-comment":
		st.InMode, st.InSep, st.InComment = int(interp.CSVMode), ';', ';'
		c14DropVar(st, "INPUTMODE")
	case "var-INPUTMODE-bogus":
		st.Vars = append(st.Vars, "INPUTMODE", "bogus")
	case "var-OUTPUTMODE-bogus":
		st.Vars = append(st.Vars, "OUTPUTMODE", "csv nosuchkey=1")
	case "var-FS-bad-regex":
		st.Vars = append(st.Vars, "FS", c14BadRegex)
	case "var-NF-negative":
		st.Vars = append(st.Vars, "NF", "-1")
	case "bad-newline-mode":
		st.Newline = 7
	}
}

func c14DropVar(st *c14Step, name string) {
	var v []string
	for i := 0; i+1 < len(st.Vars); i += 2 {
		if st.Vars[i] != name {
			v = append(v, st.Vars[i], st.Vars[i+1])
		}
	}
	st.Vars = v
}

// c14Neutralise makes a probe configuration name every separator variable (and RT) in Vars, as
// the "noreset" mode requires: variables may carry over, so the probe must not depend on them.
func c14Neutralise(rng *rand.Rand, st *c14Step) {
	have := map[string]bool{}
	for i := 0; i+1 < len(st.Vars); i += 2 {
		have[st.Vars[i]] = true
	}
	var pre []string
	for _, sp := range c14Specials {
		if !have[sp] {
			v := c14SpecialVal[sp][0] // the default value
			if rng != nil && rng.Intn(4) == 0 {
				v = c14Pick(rng, c14SpecialVal[sp])
			}
			pre = append(pre, sp, v)
		}
	}
	if !have["RT"] {
		pre = append(pre, "RT", "")
	}
	st.Vars = append(pre, st.Vars...)
	st.Neutral = true
	if st.Environ == nil {
		st.Environ = []string{"K", "k0"}
	}
}

func c14GenRandomCase(rng *rand.Rand, progs []c14Prog) c14Case {
	p := progs[rng.Intn(len(progs))]
	cs := c14Case{Gen: "random", Prog: p.name, Src: p.src}
	n := 1 + rng.Intn(6)
	if rng.Intn(3) == 0 {
		n = 1 + rng.Intn(2)
	}
	for i := 0; i < n; i++ {
		cs.History = append(cs.History, c14GenStep(rng, p, false))
	}
	cs.Probe = c14GenStep(rng, p, true)
	switch r := rng.Intn(100); {
	case r < 40:
		cs.Mode = "reset"
	case r < 55:
		cs.Mode = "resetvars"
		cs.Probe.Reseed = true
	default:
		cs.Mode = "noreset"
		cs.Carry = rng.Intn(2) == 0
		c14Neutralise(rng, &cs.Probe)
	}
	return cs
}

// ---- systematic family: one-run histories (every action x every phase x every program) followed
// by three fixed, wide probes in each mode.

const (
	c14PlainStd = "a 1 x\nb 2 y\nc 3 z\nd 4 w\ne 5 v\n"
	c14CSVStd   = "name,b,c\nann,1,\"q,r\"\nbob,2,z\ncat,3,y\n"
)

func c14SysProbes(p c14Prog, deep bool) []c14Step {
	// number/string conversions come first: a conversion remembered from the history run would
	// be the first thing the probe meets
	wide := "numstr pnum strnum closes getf getstdin rand srand fields chars"
	if deep {
		wide += " deep"
	}
	return []c14Step{
		// everything that must be "as new", no @ (so the probe runs to its end)
		{Stdin: c14PlainStd, Bact: wide, Ract: "dump match", At: 2, Eact: "getf3 pout closeo loop", DeepN: p.deepMax},
		// @"name" without a header must fail as on a fresh interpreter
		{Stdin: c14PlainStd, Bact: "closes fields csvout", At: 1, Eact: "at"},
		// header mode: a new header replaces the old names
		{Stdin: "b,name\n1,x\n2,y\n", InMode: int(interp.CSVMode), Header: true, UseAt: true, OutMode: int(interp.CSVMode),
			Bact: "getf0 closes", Ract: "dump", At: 1, Eact: "fields atb csvout"},
	}
}

// c14SysCases enumerates the systematic family: program x action x phase (BEGIN, record 2, END)
// x history variant (plain input / CSV with header) x probe x mode. The slow actions (commands,
// 1000-deep recursion) are taken with every 8th program only, and only there does the wide
// probe recurse to the limit after a history run that may have ended inside nested calls.
func c14SysCases(progs []c14Prog, visit func(k int, mk func() c14Case)) {
	k := 0
	for pi, p := range progs {
		for _, a := range bank.Actions {
			if c14IsSlow[a.Name] && pi%8 != 0 {
				continue
			}
			for phase := 0; phase < 3; phase++ {
				for variant := 0; variant < 2; variant++ {
					for probeIdx := 0; probeIdx < 3; probeIdx++ {
						for _, mode := range []string{"reset", "resetvars", "noreset"} {
							p, act, phase, variant, probeIdx, mode := p, a.Name, phase, variant, probeIdx, mode
							deep := pi%8 == 0 && a.HasTag("ends")
							visit(k, func() c14Case { return c14SysCase(p, act, phase, variant, probeIdx, mode, deep) })
							k++
						}
					}
				}
			}
		}
	}
}

func c14SysCase(p c14Prog, act string, phase, variant, probeIdx int, mode string, deep bool) c14Case {
	h := c14Step{Stdin: c14PlainStd, At: 2, DeepN: p.deepMax, CMark: true}
	if variant == 1 {
		h = c14Step{Stdin: c14CSVStd, At: 2, DeepN: p.deepMax, InMode: int(interp.CSVMode), Header: true, UseAt: true, OutMode: int(interp.CSVMode)}
	}
	if act == "convfmt" || act == "ofmt" {
		act += " numstr pnum numstr" // convert under the changed format; the last conversion is the probe's first
	}
	switch phase {
	case 0:
		h.Bact = act
	case 1:
		h.Ract = "glob " + act
	default:
		h.Eact = act
	}
	if act == "cancel" {
		h.Ctx = "cc"
	}
	c14AvoidB1(&h, p.name)
	c14Finish(&h)
	cs := c14Case{Gen: "systematic", Prog: p.name, Src: p.src, History: []c14Step{h}, Mode: mode, Probe: c14SysProbes(p, deep)[probeIdx]}
	c14AvoidB1(&cs.Probe, p.name)
	c14Finish(&cs.Probe)
	switch mode {
	case "resetvars":
		cs.Probe.Reseed = true
	case "noreset":
		cs.Carry = true
		c14Neutralise(nil, &cs.Probe)
	}
	return cs
}

// ---- registration --------------------------------------------------------------------------------

func init() {
	n := func(t core.Tier, q, th int) int {
		if t == core.Thorough {
			return th
		}
		return q
	}
	core.Register(&core.Property{
		ID:    "C14",
		Level: "exploration",
		Rule: "a case = one bank program (40 programs: 8 rule sections x 5 END sections sharing ~70 script-selectable actions), a history of 1-6 Execute/ExecuteContext " +
			"calls on one Interpreter (each with its own stdin, Args, Vars, input/output mode, header, sandbox flags, Chars, context kind; ending normally, by exit, " +
			"by a run-time error in BEGIN/a rule/END (among them division by zero inside a for-in inside a nested call), by a native function's error, by script-driven " +
			"cancellation, or rejected as an invalid configuration), then ResetVars+ResetRand / ResetVars / nothing, then a probe run compared with the same run on " +
			"interp.New(prog) (stdout, status, error text, files written); systematic family: every action x phase x program as a one-run history before three wide probes in " +
			"each mode; non-trivial = distinct case in which at least one history run executed program code and the fresh probe produced output or an error",
		Assumptions: []string{
			"the probe is judged only against a fresh interpreter running the same program with the same configuration (no model of AWK semantics is involved)",
			"without ResetVars, 'variables and arrays' = global scalars, global arrays (incl. ARGV/ENVIRON/FIELDS elements), FS OFS ORS RS SUBSEP CONVFMT OFMT, RT and the random seed; the probe overwrites all of them before observing, so that only non-variable state can make a difference",
			"the file system is restored to a fixed state before the history and before each probe run: what earlier runs left on disk is environment, not interpreter state",
			"panics and step-limit hits inside a history are outside the quantifier (C02) unless a fresh interpreter does not show them",
		},
		NBatches: func(t core.Tier) int { return n(t, 16, 64) },
		// generous watchdog (inconclusive when it fires): a batch is ~15 s (quick) / ~70 s (thorough)
		// of CPU, but the development machine was shared and up to 40x oversubscribed
		BatchTimeout: func(t core.Tier) time.Duration { return time.Duration(n(t, 2, 8)) * time.Hour },
		// one interpreter per child and nothing concurrent in the harness: two OS threads (one for
		// the garbage collector) are enough, and 16 children x 16 idle Ps only fight each other
		ChildEnv: func(core.Tier) []string { return []string{"GOMAXPROCS=2"} },
		Floors: func(t core.Tier) map[string]int {
			return map[string]int{
				"evaluations":            n(t, 25000, 400000),
				"fixed_sequences":        len(c14FixedCases()),
				"distinct_nontrivial":    n(t, 20000, 350000),
				"cases_reset":            n(t, 7000, 120000),
				"cases_resetvars":        n(t, 4000, 70000),
				"cases_noreset":          n(t, 7000, 120000),
				"carry_checks":           n(t, 4000, 80000),
				"history_endings":        30,
				"last_ending_x_mode":     15,
				"actions_history":        200,
				"actions_probe":          200,
				"programs":               40,
				"input_mode_transitions": 100,
				"probe_observations":     35,
			}
		},
		Run: func(c *core.Ctx) {
			progs, err := c14Bank()
			if err == nil {
				err = c14EnterDir(c)
			}
			if err != nil {
				c.Inconclusive("setup: " + err.Error())
				return
			}
			one := func(cs c14Case, p c14Prog) {
				c.Begin(cs)
				c.Count("gen_"+cs.Gen, 1)
				c14RunCase(c, cs, p.prog, false)
			}
			byName := map[string]c14Prog{}
			for _, p := range progs {
				byName[p.name] = p
			}
			c14Fixed(c)
			c14RejectedFuncs(c)
			// systematic family: quick takes every 10th case (offset by the seed), thorough all
			stride := n(c.Tier, 10, 1)
			off := int(c.Seed % int64(stride))
			if off < 0 {
				off += stride
			}
			c14SysCases(progs, func(k int, mk func() c14Case) {
				if k%stride == off && c.Mine(k/stride) {
					cs := mk()
					one(cs, byName[cs.Prog])
				}
			})
			// random histories
			rng := c.Rand("histories")
			for i := n(c.Tier, 16000, 300000) / c.NBatches; i > 0; i-- {
				cs := c14GenRandomCase(rng, progs)
				one(cs, byName[cs.Prog])
			}
		},
		Replay: func(c *core.Ctx, raw json.RawMessage) {
			if c14FixedReplay(c, raw) {
				return
			}
			if c14FuncsReplay(c, raw) {
				return
			}
			var cs c14Case
			if err := json.Unmarshal(raw, &cs); err != nil {
				fmt.Println("bad case:", err)
				return
			}
			prog, err, pm := run.Parse(cs.Src, c14Funcs)
			if err != nil || pm != "" {
				fmt.Println("program does not parse:", err, pm)
				return
			}
			if err := c14EnterDir(c); err != nil {
				fmt.Println(err)
				return
			}
			b, _ := json.MarshalIndent(struct {
				History []c14Step
				Mode    string
				Probe   c14Step
			}{cs.History, cs.Mode, cs.Probe}, "", " ")
			fmt.Printf("program %s, mode %s\n%s\n", cs.Prog, cs.Mode, b)
			c14RunCase(c, cs, prog, true)
		},
	})
}
