package props

// C06, lazy-split family: "a change of FS does not re-split the current record". goawk splits a
// record into fields on first need, with the FS that was in force when the record was read. The
// monitor is metamorphic and needs no model: for a single-record input, a rule that changes FS
// BEFORE its first look at NF or a field must observe the same NF, fields and rebuilt $0
// as the same rule looking first and changing afterwards.

import (
	"fmt"
	"strings"

	"github.com/benhoyt/goawk/interp"

	"verifharness/core"
	"verifharness/run"
)

type c06LazyCase struct {
	Lazy  string `json:"lazy"` // name of the family member
	RS    string `json:"rs"`
	FS1   string `json:"fs1"`
	FS2   string `json:"fs2"`
	Input string `json:"input"`
	Chg   string `json:"chg"` // statement that changes a separator
}

func c06LazyPrograms(cs c06LazyCase) (first, after string) {
	dump := `n = NF; printf "%d|", n; for (i = 1; i <= n; i++) printf "[%s]", $i; printf "|%s|", $(NF); $1 = $1; printf "<%s>%d\n", $0, NF`
	first = "NR == 1 { " + dump + "; " + cs.Chg + " }\n"
	after = "NR == 1 { " + cs.Chg + "; " + dump + " }\n"
	return
}

func c06LazyRun(cs c06LazyCase, src string) run.Outcome {
	prog, err, pm := run.Parse(src, nil)
	if err != nil || pm != "" {
		return run.Outcome{Err: fmt.Sprint("parse: ", err, pm)}
	}
	return run.Exec(prog, &interp.Config{Stdin: strings.NewReader(cs.Input), Vars: []string{"RS", cs.RS, "FS", cs.FS1, "NEWFS", cs.FS2}}, run.Opts{})
}

func c06LazyCases() []c06LazyCase {
	var out []c06LazyCase
	fss := []string{" ", ":", "::", "[:,]", "\t", "a", "|", ": *", "\n"}
	inputs := map[string][]string{
		"\n": {"a:b c::d,e\tf | g", " x : y ", "aa:a::a"},
		"":   {"a:b\nc::d e\n", "x y\n z:w\n\n", ":\n:\n", "a\tb\nc|d\n"},
		";":  {"a:b\nc::d e;", "x y\n:z;"},
		"x+": {"a:b\nc::dxx", "p q\nr:sx"},
	}
	for rs, ins := range inputs {
		for _, in := range ins {
			for _, f1 := range fss {
				for _, f2 := range fss {
					if f1 == f2 {
						continue
					}
					out = append(out, c06LazyCase{Lazy: "fs", RS: rs, FS1: f1, FS2: f2, Input: in, Chg: "FS = NEWFS"})
				}
				out = append(out, c06LazyCase{Lazy: "ofs", RS: rs, FS1: f1, FS2: f1, Input: in, Chg: `x = OFS; OFS = OFS`})
			}
		}
	}
	return out
}

// c06SplitAgree: the fields of a record are what split($0, A, FS) gives for the same text and the
// same FS (one splitting rule, one regular-expression semantics: leftmost-longest).
func c06SplitAgree(c *core.Ctx) {
	fss := []string{",|, ", "a|ab", "-|--", "x|xy|xyz", ", *", "[ ,]+|;", "(ab)+|a", ":|::", "\t|\t\t", "b|ab|abc"}
	inputs := []string{"a, b,c", "1ab2a3abab4", "p--q-r---s", "1xyz2xy3x4", "u,   v,w", "a ,;b;,c", "abab1a2ababab3", "k::v:w", "m\t\tn\to", "zabcab9b"}
	for i, fs := range fss {
		for j, in := range inputs {
			if !c.Mine(9500 + i*len(inputs) + j) {
				continue
			}
			cs := c06LazyCase{Lazy: "split-agree", RS: "\n", FS1: fs, FS2: fs, Input: in + "\n"}
			c.Begin(cs)
			c.Eval(1)
			src := `{ printf "%d", NF; for (i = 1; i <= NF; i++) printf "[%s]", $i; printf "\n"; n = split($0, A, FS); printf "%d", n; for (i = 1; i <= n; i++) printf "[%s]", A[i]; printf "\n" }` + "\n"
			o := c06LazyRun(cs, src)
			c.Count("split_agree_cases", 1)
			if o.Panic != "" {
				c.Violation("panic", "", "interpreter panicked (split-agree family): "+run.PanicSite(o.Panic), "", o.Panic, cs)
				continue
			}
			lines := strings.Split(strings.TrimSuffix(o.Stdout, "\n"), "\n")
			if o.Err != "" || len(lines) != 2 {
				continue // an FS the interpreter refuses: not this family's subject
			}
			if lines[0] != lines[1] {
				c.Violation("record-model", "split-agree", fmt.Sprintf("FS=%q record %q: the fields are %s but split($0, A, FS) gives %s", fs, in, lines[0], lines[1]), lines[1], lines[0], cs)
				continue
			}
			c.NonTrivial("splitagree|" + fs + "|" + in)
		}
	}
}

func c06Lazy(c *core.Ctx) {
	c06SplitAgree(c)
	for i, cs := range c06LazyCases() {
		if !c.Mine(9000 + i) {
			continue
		}
		c.Begin(cs)
		c.Eval(1)
		first, after := c06LazyPrograms(cs)
		a, b := c06LazyRun(cs, first), c06LazyRun(cs, after)
		c.Count("lazy_split_cases", 1)
		if a.Panic != "" || b.Panic != "" {
			c.Violation("panic", "", "interpreter panicked (lazy-split family): "+run.PanicSite(a.Panic+b.Panic), "", a.Panic+b.Panic, cs)
			continue
		}
		if a.Err != "" || b.Err != "" {
			if (a.Err == "") != (b.Err == "") {
				c.Violation("record-model", "lazy-split", fmt.Sprintf("RS=%q FS=%q: one order of (look at the fields, %s) fails, the other does not: %q / %q", cs.RS, cs.FS1, cs.Chg, a.Err, b.Err), a.Err, b.Err, cs)
			}
			continue
		}
		if a.Stdout != b.Stdout {
			c.Violation("record-model", "lazy-split", fmt.Sprintf("RS=%q FS=%q input %q: changing a separator (%s) before the first look at the fields re-interprets the current record: looked first %q, changed first %q",
				cs.RS, cs.FS1, cs.Input, strings.ReplaceAll(cs.Chg, "NEWFS", fmt.Sprintf("%q", cs.FS2)), a.Stdout, b.Stdout), a.Stdout, b.Stdout, cs)
			continue
		}
		c.NonTrivial("lazy|" + cs.Lazy + "|" + cs.RS + "|" + cs.FS1 + "|" + cs.FS2 + "|" + cs.Input)
	}
}
