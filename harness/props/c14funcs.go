package props

// C14, rejected configurations: a Config whose Funcs holds a Go function the interpreter refuses
// is refused by a fresh Interpreter with an error. The same Interpreter, asked again (with or
// without ResetVars/ResetRand in between), must refuse again with the same error: "whatever errors
// came before". The state that could remember the first refusal is the native function table,
// which is built once per Interpreter.

import (
	"encoding/json"
	"fmt"
	"sort"
	"strings"

	"github.com/benhoyt/goawk/interp"

	"verifharness/core"
	"verifharness/run"
)

type c14FuncsCase struct {
	FuncsCase string `json:"funcs_case"`
	Bad       string `json:"bad"`    // which unsupported signature
	Layout    string `json:"layout"` // alone | bad-first | bad-last | bad-middle
	Src       string `json:"src"`
	Reset     string `json:"reset"` // none | vars | vars+rand
}

var c14BadSigs = map[string]any{
	"float32-param":      func(x float32) int { return 1 },
	"map-param":          func(m map[string]int) int { return 1 },
	"two-values":         func(x int) (int, int) { return 1, 2 },
	"chan-result":        func(x int) chan int { return nil },
	"variadic-float32":   func(xs ...float32) int { return len(xs) },
	"second-not-error":   func(x int) (int, string) { return x, "" },
	"struct-param":       func(s struct{ A int }) int { return 1 },
	"pointer-result":     func(x int) *int { return nil },
	"three-results":      func(x int) (int, int, error) { return 0, 0, nil },
	"interface-param":    func(x any) int { return 1 },
	"func-typed-param":   func(f func()) int { return 1 },
	"complex-param":      func(x complex128) int { return 1 },
	"array-param":        func(a [2]int) int { return 1 },
	"slice-of-int-param": func(a []int) int { return 1 },
}

func c14FuncsCases() []c14FuncsCase {
	var names []string
	for n := range c14BadSigs {
		names = append(names, n)
	}
	sort.Strings(names)
	srcs := []string{
		`BEGIN { print "result", mbad(1) }`,
		`BEGIN { print "only the good one", aok(2) + zok(3) }`,
		`BEGIN { print "no call at all" }`,
		`{ print mbad($1) } END { print NR }`,
	}
	var out []c14FuncsCase
	for _, b := range names {
		for _, layout := range []string{"alone", "bad-first", "bad-last", "bad-middle"} {
			for si, src := range srcs {
				if layout == "alone" && si == 1 {
					continue // needs the valid siblings
				}
				for _, reset := range []string{"none", "vars", "vars+rand"} {
					out = append(out, c14FuncsCase{FuncsCase: b + "/" + layout + "/" + fmt.Sprint(si) + "/" + reset, Bad: b, Layout: layout, Src: src, Reset: reset})
				}
			}
		}
	}
	return out
}

func c14FuncsMap(cs c14FuncsCase) (map[string]any, string) {
	good1 := func(x float64) float64 { return x + 1 }
	good2 := func(s string) string { return s + "!" }
	bad := c14BadSigs[cs.Bad]
	// the program text always says mbad, aok, zok; the layout decides under which names the bad
	// function sorts relative to the valid ones
	switch cs.Layout {
	case "alone":
		return map[string]any{"mbad": bad}, cs.Src
	case "bad-first":
		return map[string]any{"mbad": bad, "nok": good1, "zok": good2}, replaceName(cs.Src, "aok", "nok")
	case "bad-last":
		return map[string]any{"mbad": bad, "aok": good1, "bok": good2}, replaceName(cs.Src, "zok", "bok")
	default:
		return map[string]any{"mbad": bad, "aok": good1, "zok": good2}, cs.Src
	}
}

func replaceName(src, from, to string) string {
	out := ""
	for i := 0; i < len(src); {
		if i+len(from) <= len(src) && src[i:i+len(from)] == from {
			out += to
			i += len(from)
			continue
		}
		out += string(src[i])
		i++
	}
	return out
}

// c14FuncsRunOne: outcome of a fresh interpreter, and of the 2nd, 3rd and 4th call on one interpreter.
func c14FuncsRunOne(cs c14FuncsCase) (fresh string, later []string, bad string) {
	funcs, src := c14FuncsMap(cs)
	prog, err, pm := run.Parse(src, funcs)
	if err != nil || pm != "" {
		return "", nil, fmt.Sprintf("does not parse: %v %s", err, pm)
	}
	sig := func(o run.Outcome) string {
		if o.Panic != "" {
			return "PANIC " + run.PanicSite(o.Panic)
		}
		return fmt.Sprintf("status=%d err=%q stdout=%q", o.Status, o.Err, o.Stdout)
	}
	cfg := func() *interp.Config {
		return &interp.Config{Funcs: funcs, Stdin: strings.NewReader("4\n5\n"), Environ: []string{}}
	}
	ipF, err := interp.New(prog)
	if err != nil {
		return "", nil, "interp.New: " + err.Error()
	}
	fresh = sig(run.Exec(prog, cfg(), run.Opts{Interp: ipF}))
	ip, _ := interp.New(prog)
	_ = run.Exec(prog, cfg(), run.Opts{Interp: ip})
	for k := 0; k < 3; k++ {
		switch cs.Reset {
		case "vars":
			ip.ResetVars()
		case "vars+rand":
			ip.ResetVars()
			ip.ResetRand()
		}
		later = append(later, sig(run.Exec(prog, cfg(), run.Opts{Interp: ip})))
	}
	return fresh, later, ""
}

func c14RejectedFuncs(c *core.Ctx) {
	for i, cs := range c14FuncsCases() {
		if !c.Mine(9000 + i) {
			continue
		}
		c.Begin(cs)
		c.Eval(4)
		fresh, later, bad := c14FuncsRunOne(cs)
		if bad != "" {
			c.Inconclusive("c14 rejected-funcs case " + cs.FuncsCase + ": " + bad)
			continue
		}
		c.Count("rejected_funcs_cases", 1)
		c.Cover("rejected_funcs_signatures", cs.Bad)
		c.Cover("rejected_funcs_layouts", cs.Layout+"/"+cs.Reset)
		ok := true
		for k, l := range later {
			if l != fresh {
				c.Violation("probe-differs", "funcs:"+cs.Bad, fmt.Sprintf("rejected Funcs (%s, %s): call %d on the same Interpreter (reset: %s) differs from a fresh one: fresh %s / reused %s", cs.Bad, cs.Layout, k+2, cs.Reset, fresh, l), fresh, l, cs)
				ok = false
				break
			}
		}
		if ok {
			c.NonTrivial("funcs|" + cs.FuncsCase)
			if len(fresh) > 7 && fresh[:7] != "status=" {
				continue
			}
			c.Cover("rejected_funcs_fresh_outcomes", trunc80(fresh))
		}
	}
}

func trunc80(s string) string {
	if len(s) > 80 {
		return s[:80]
	}
	return s
}

func c14FuncsReplay(c *core.Ctx, raw json.RawMessage) bool {
	var cs c14FuncsCase
	if json.Unmarshal(raw, &cs) != nil || cs.FuncsCase == "" {
		return false
	}
	fresh, later, bad := c14FuncsRunOne(cs)
	fmt.Printf("rejected-funcs case %s\nprogram: %s\nfresh : %s\nlater : %v\n%s\n", cs.FuncsCase, cs.Src, fresh, later, bad)
	for k, l := range later {
		if bad == "" && l != fresh {
			c.Violation("probe-differs", "funcs:"+cs.Bad, fmt.Sprintf("rejected Funcs: call %d differs from a fresh interpreter", k+2), fresh, l, cs)
			break
		}
	}
	return true
}
