package props

// C16 — scalar/array typing is sound, exact and independent of declaration order.
//
// Monitors: (1) verdict: the parser's accept/reject of a generated call-graph program is compared
// with an independent union-find type inference over the generator's own constraint list (not over
// goawk's tree); (2) soundness at run time: accepted programs run on the VM without panic, internal
// error or stack fault, and their output (arrays shared by reference, scalars copied) equals the
// dynamically typed reference evaluator's; (3) order independence: every permutation (sampled when
// many) of the top-level items, two consistent renamings and repeated parses give the same verdict
// and, for accepted programs, the same output.

import (
	"encoding/json"
	"fmt"
	"math/rand"
	"sort"
	"strings"

	"verifharness/core"
	"verifharness/diffrun"
	"verifharness/run"
)

// ---- independent typing model ------------------------------------------------------------

type tyNode struct {
	parent *tyNode
	scalar bool
	array  bool
	why    []string
}

func (n *tyNode) find() *tyNode {
	for n.parent != nil {
		n = n.parent
	}
	return n
}

type tyModel struct{ nodes map[string]*tyNode }

func (m *tyModel) node(fn, v string) *tyNode {
	k := fn + "/" + v
	n := m.nodes[k]
	if n == nil {
		n = &tyNode{}
		m.nodes[k] = n
	}
	return n.find()
}

func (m *tyModel) use(fn, v string, array bool, why string) {
	n := m.node(fn, v)
	if array {
		n.array = true
	} else {
		n.scalar = true
	}
	n.why = append(n.why, why)
}

func (m *tyModel) unify(a, b *tyNode) {
	a, b = a.find(), b.find()
	if a == b {
		return
	}
	b.parent = a
	a.scalar = a.scalar || b.scalar
	a.array = a.array || b.array
	a.why = append(a.why, b.why...)
}

// conflict returns a description of a class that must be both scalar and array, or "".
func (m *tyModel) conflict() string {
	var keys []string
	for k := range m.nodes {
		keys = append(keys, k)
	}
	sort.Strings(keys)
	for _, k := range keys {
		r := m.nodes[k].find()
		if r.scalar && r.array {
			return k + ": " + strings.Join(r.why, "; ")
		}
	}
	return ""
}

// ---- generator ---------------------------------------------------------------------------

type c16Func struct {
	name   string // placeholder, e.g. @f0@
	params []string
	body   []string
}

type c16Prog struct {
	funcs  []*c16Func
	begins [][]string
	model  *tyModel
}

type c16Case struct {
	Items   []string `json:"items"` // top-level items with @placeholders@, canonical order
	Reject  bool     `json:"model_rejects"`
	Why     string   `json:"model_conflict,omitempty"`
	Shape   string   `json:"shape"`
	Seed    int64    `json:"seed"`
	NBegins int      `json:"n_begins"`
}

var c16Globals = []string{"@G0@", "@G1@", "@G2@", "@G3@"}

type c16Gen struct {
	rng   *rand.Rand
	p     *c16Prog
	stamp int
}

func (g *c16Gen) tag() string { g.stamp++; return fmt.Sprintf("t%d", g.stamp) }

// vars visible in function fi (nil = main): its parameters and the globals.
func (g *c16Gen) vars(f *c16Func) []string {
	var vs []string
	if f != nil {
		vs = append(vs, f.params...)
	}
	return append(vs, c16Globals...)
}

func (g *c16Gen) scope(f *c16Func, v string) string {
	if f != nil {
		for _, p := range f.params {
			if p == v {
				return f.name
			}
		}
	}
	return ""
}

// stmt emits one statement in f (nil = main block) and records its constraints.
func (g *c16Gen) stmt(f *c16Func, callees []*c16Func, intended map[string]string, forceCall bool) string {
	m := g.p.model
	vs := g.vars(f)
	fn := ""
	if f != nil {
		fn = f.name
	}
	pick := func(want string) string {
		// prefer a variable whose intended type matches, to keep most programs well-typed
		for tries := 0; tries < 6; tries++ {
			v := vs[g.rng.Intn(len(vs))]
			it := intended[g.scope(f, v)+"/"+v]
			if it == want || it == "" || g.rng.Intn(12) == 0 {
				if it == "" && g.rng.Intn(2) == 0 {
					intended[g.scope(f, v)+"/"+v] = want
				}
				return v
			}
		}
		return vs[g.rng.Intn(len(vs))]
	}
	t := g.tag()
	r := g.rng.Intn(100)
	if forceCall && len(callees) > 0 {
		r = 60
	}
	switch {
	case r < 22:
		v := pick("S")
		m.use(g.scope(f, v), v, false, "scalar use in "+fn)
		switch g.rng.Intn(4) {
		case 0:
			return fmt.Sprintf("%s = %s + %d; print \"%s\", %s", v, v, 1+g.rng.Intn(3), t, v)
		case 1:
			return fmt.Sprintf("%s = %s \"%s\"; print \"%s\", %s", v, v, t, t, v)
		case 2:
			return fmt.Sprintf("print \"%s\", %s, length(%s)", t, v, v)
		}
		return fmt.Sprintf("%s++; print \"%s\", %s", v, t, v)
	case r < 48:
		v := pick("A")
		m.use(g.scope(f, v), v, true, "array use in "+fn)
		k := []string{"1", "\"k\"", "2", "\"" + t + "\""}[g.rng.Intn(4)]
		switch g.rng.Intn(7) {
		case 0:
			return fmt.Sprintf("%s[%s] = \"%s\"; print \"%s\", length(%s)", v, k, t, t, v)
		case 1:
			return fmt.Sprintf("print \"%s\", (%s in %s), length(%s)", t, k, v, v)
		case 2:
			return fmt.Sprintf("%s[%s]++; print \"%s\", %s[%s]", v, k, t, v, k)
		case 3:
			return fmt.Sprintf("delete %s[%s]; print \"%s\", length(%s)", v, k, t, v)
		case 4:
			return fmt.Sprintf("@n@ = 0; for (@k@ in %s) @n@ += length(@k@); print \"%s\", @n@", v, t)
		case 5:
			return fmt.Sprintf("print \"%s\", split(\"a b c\", %s), %s[2]", t, v, v)
		}
		return fmt.Sprintf("%s[1, 2] = 3; print \"%s\", ((1, 2) in %s)", v, t, v)
	case r < 54:
		v := vs[g.rng.Intn(len(vs))]
		return fmt.Sprintf("print \"%s\", length(%s)", t, v) // length(x) constrains nothing
	case r < 90 && len(callees) > 0:
		callee := callees[g.rng.Intn(len(callees))]
		nargs := len(callee.params)
		if g.rng.Intn(4) == 0 {
			nargs = g.rng.Intn(nargs + 1) // fewer arguments than parameters
		}
		var args []string
		for i := 0; i < nargs; i++ {
			pn := callee.params[i]
			pit := intended[callee.name+"/"+pn]
			if g.rng.Intn(6) == 0 && pit != "A" {
				// a non-variable argument makes the parameter scalar
				e := []string{"1", "\"s\"", "1 + 1", "(" + c16Globals[0] + ")"}[g.rng.Intn(4)]
				if strings.HasPrefix(e, "(") {
					m.use("", c16Globals[0], false, "parenthesised variable as argument")
				}
				m.use(callee.name, pn, false, "non-variable argument to "+callee.name)
				args = append(args, e)
				continue
			}
			want := pit
			v := pick(want)
			m.unify(m.node(g.scope(f, v), v), m.node(callee.name, pn))
			m.node(g.scope(f, v), v).why = append(m.node(g.scope(f, v), v).why, fmt.Sprintf("%s passed to %s of %s", v, pn, callee.name))
			args = append(args, v)
		}
		if g.rng.Intn(2) == 0 {
			return fmt.Sprintf("@r@ = %s(%s); print \"%s\", @r@", callee.name, strings.Join(args, ", "), t)
		}
		return fmt.Sprintf("%s(%s)", callee.name, strings.Join(args, ", "))
	}
	return fmt.Sprintf("print \"%s\"", t)
}

// c16Generate builds a program of a given call-graph shape.
func c16Generate(seed int64) c16Case {
	rng := rand.New(rand.NewSource(seed))
	g := &c16Gen{rng: rng, p: &c16Prog{model: &tyModel{nodes: map[string]*tyNode{}}}}
	shapes := []string{"chain", "diamond", "selfrec", "mutual", "forward-only", "unused-params", "random", "star"}
	shape := shapes[rng.Intn(len(shapes))]
	nf := 2 + rng.Intn(4)
	intended := map[string]string{"/@G0@": "S", "/@G1@": "S", "/@G2@": "A", "/@G3@": "A"}
	if rng.Intn(3) == 0 {
		intended = map[string]string{}
	}
	g.p.model.use("", "@r@", false, "result variable")
	g.p.model.use("", "@n@", false, "counter")
	g.p.model.use("", "@k@", false, "loop variable")
	for i := 0; i < nf; i++ {
		f := &c16Func{name: fmt.Sprintf("@f%d@", i)}
		np := rng.Intn(4)
		if shape == "unused-params" && np == 0 {
			np = 2
		}
		for j := 0; j < np; j++ {
			p := fmt.Sprintf("@p%d_%d@", i, j)
			f.params = append(f.params, p)
			if rng.Intn(3) > 0 {
				intended[f.name+"/"+p] = []string{"S", "A"}[rng.Intn(2)]
			}
		}
		g.p.funcs = append(g.p.funcs, f)
	}
	calleesOf := func(i int) []*c16Func {
		fs := g.p.funcs
		switch shape {
		case "chain":
			if i+1 < len(fs) {
				return []*c16Func{fs[i+1]}
			}
			return nil
		case "diamond":
			if i == 0 && len(fs) > 2 {
				return []*c16Func{fs[1], fs[2]}
			}
			if i > 0 && i < len(fs)-1 {
				return []*c16Func{fs[len(fs)-1]}
			}
			return nil
		case "selfrec":
			return []*c16Func{fs[i]}
		case "mutual":
			return []*c16Func{fs[(i+1)%len(fs)]}
		case "star":
			if i == 0 {
				return fs[1:]
			}
			return nil
		case "forward-only", "unused-params":
			if i+1 < len(fs) {
				return fs[i+1:]
			}
			return nil
		}
		return fs
	}
	for i, f := range g.p.funcs {
		ns := 1 + rng.Intn(3)
		if shape == "forward-only" || shape == "unused-params" {
			// parameters only forwarded (or not used at all)
			ns = rng.Intn(2)
		}
		callees := calleesOf(i)
		recursive := false
		for _, c := range callees {
			if c == f || shape == "mutual" || shape == "random" {
				recursive = true
			}
		}
		var body []string
		for s := 0; s < ns; s++ {
			body = append(body, g.stmt(f, nil, intended, false))
		}
		ncalls := 0
		if len(callees) > 0 {
			ncalls = 1 + rng.Intn(2)
		}
		for s := 0; s < ncalls; s++ {
			st := g.stmt(f, callees, intended, true)
			if recursive {
				st = "if (@depth@++ < 3) { " + st + " }"
			}
			body = append(body, st)
		}
		if rng.Intn(2) == 0 {
			body = append(body, "return "+[]string{"1", "\"v\"", "@depth@"}[rng.Intn(3)])
		}
		f.body = body
	}
	g.p.model.use("", "@depth@", false, "recursion fuel")
	nb := 1 + rng.Intn(2)
	for b := 0; b < nb; b++ {
		var blk []string
		ns := 2 + rng.Intn(4)
		for s := 0; s < ns; s++ {
			blk = append(blk, g.stmt(nil, g.p.funcs, intended, false))
		}
		blk = append(blk, fmt.Sprintf("print \"end%d\", length(@G2@), length(@G3@), @G0@, @G1@", b))
		g.p.begins = append(g.p.begins, blk)
	}
	g.p.model.use("", "@G0@", false, "printed")
	g.p.model.use("", "@G1@", false, "printed")
	cs := c16Case{Shape: shape, Seed: seed, NBegins: nb}
	for _, f := range g.p.funcs {
		cs.Items = append(cs.Items, fmt.Sprintf("function %s(%s) {\n\t%s\n}\n", f.name, strings.Join(f.params, ", "), strings.Join(f.body, "\n\t")))
	}
	for _, blk := range g.p.begins {
		cs.Items = append(cs.Items, "BEGIN {\n\t"+strings.Join(blk, "\n\t")+"\n}\n")
	}
	cs.Why = g.p.model.conflict()
	cs.Reject = cs.Why != ""
	return cs
}

// c16Names instantiates the placeholders with one of several naming schemes.
func c16Names(text string, scheme int) string {
	var sb strings.Builder
	for {
		i := strings.IndexByte(text, '@')
		if i < 0 {
			sb.WriteString(text)
			break
		}
		j := strings.IndexByte(text[i+1:], '@')
		if j < 0 {
			sb.WriteString(text)
			break
		}
		name := text[i+1 : i+1+j]
		sb.WriteString(text[:i])
		switch scheme {
		case 0:
			sb.WriteString(name)
		case 1:
			// reversed alphabetical order of names (affects sorted-name index assignment)
			sb.WriteString("z" + strings.NewReplacer("0", "9", "1", "8", "2", "7", "3", "6", "4", "5", "5", "4").Replace(name) + "q")
		case 3:
			// every function calls its parameters q0, q1, ...: the same name in many scopes
			if strings.HasPrefix(name, "p") && strings.Contains(name, "_") {
				sb.WriteString("q" + name[strings.IndexByte(name, '_')+1:])
			} else {
				sb.WriteString(name)
			}
		default:
			h := 0
			for _, c := range name {
				h = h*31 + int(c)
			}
			sb.WriteString(fmt.Sprintf("v%dx%s", (h%97+97)%97, strings.ToUpper(name)))
		}
		text = text[i+2+j:]
	}
	return sb.String()
}

func c16Source(items []string, order []int, scheme int) string {
	var sb strings.Builder
	for _, i := range order {
		sb.WriteString(c16Names(items[i], scheme))
	}
	return sb.String()
}

type c16Result struct {
	accepted bool
	errMsg   string
	out      string
	bad      string // panic / internal error / stack fault
}

func c16Run(src string) c16Result {
	prog, err, pm := run.Parse(src, nil)
	if pm != "" {
		return c16Result{bad: "parser/resolver/compiler panic: " + run.PanicSite(pm)}
	}
	if err != nil {
		return c16Result{errMsg: err.Error()}
	}
	if fault := checkCompiled(prog); fault != "" {
		return c16Result{accepted: true, bad: "compiled-program invariant: " + fault}
	}
	vm, _ := diffrun.VM(prog, &diffrun.Case{}, false)
	r := c16Result{accepted: true, out: vm.Sig()}
	if vm.Kind == "PANIC" {
		r.bad = "VM panic: " + run.PanicSite(vm.Detail)
	} else if len(vm.Faults) > 0 {
		r.bad = "stack fault: " + strings.Join(vm.Faults, ";")
	} else if vm.Kind == "error" {
		r.bad = "run-time error in an accepted, well-typed program: " + vm.Detail
	}
	return r
}

func c16Check(c *core.Ctx, cs c16Case) {
	c.Begin(cs)
	n := len(cs.Items)
	ident := make([]int, n)
	for i := range ident {
		ident[i] = i
	}
	base := c16Source(cs.Items, ident, 0)
	r0 := c16Run(base)
	c.Eval(1)
	c.Cover("shapes", cs.Shape)
	witness := map[string]any{"case": cs, "source": base}
	if r0.bad != "" {
		c.Violation("typing-crash", "", r0.bad, "accepted programs run without scalar/array failures", r0.bad, witness)
		return
	}
	// (1) verdict against the independent inference
	if r0.accepted == cs.Reject {
		exp := "accept"
		if cs.Reject {
			exp = "reject: " + cs.Why
		}
		c.Violation("verdict", "", fmt.Sprintf("parser %s, the usage constraints say %s", map[bool]string{true: "accepts", false: "rejects (" + r0.errMsg + ")"}[r0.accepted], exp), exp, r0.errMsg, witness)
		return
	}
	if cs.Reject {
		c.Count("rejected_programs", 1)
		c.Cover("reject_messages", msgClass(r0.errMsg))
	} else {
		c.Count("accepted_programs", 1)
		// (2) by-reference / by-value semantics against the dynamically typed reference
		prog, _, _ := run.Parse(base, nil)
		vm, _ := diffrun.VM(prog, &diffrun.Case{}, false)
		agree, ref, supported := diffrun.Agree(prog, &diffrun.Case{}, vm)
		if supported && !agree {
			c.Violation("semantics", "", "accepted program behaves differently from the reference (arrays by reference, scalars by value): "+firstDiff(ref.Sig(), vm.Sig()), ref.Sig(), vm.Sig(), witness)
			return
		}
		if supported {
			c.Count("semantics_agreed", 1)
		} else {
			c.Count("ref_unsupported", 1)
		}
	}
	// (3) permutations, renamings, repeated parses
	rng := rand.New(rand.NewSource(cs.Seed ^ 0x5eed))
	var orders [][]int
	if n <= 4 {
		permute(ident, func(p []int) { orders = append(orders, append([]int{}, p...)) })
	} else {
		for k := 0; k < 12; k++ {
			p := append([]int{}, ident...)
			rng.Shuffle(n, func(i, j int) { p[i], p[j] = p[j], p[i] })
			orders = append(orders, p)
		}
		rev := make([]int, n)
		for i := range rev {
			rev[i] = n - 1 - i
		}
		orders = append(orders, rev)
	}
	for _, ord := range orders {
		// BEGIN blocks keep their relative order (their order is semantic)
		ord = keepBeginOrder(ord, n-cs.NBegins)
		for scheme := 0; scheme < 4; scheme++ {
			src := c16Source(cs.Items, ord, scheme)
			r := c16Run(src)
			c.Eval(1)
			w := map[string]any{"case": cs, "source": src, "order": ord, "naming": scheme}
			if r.bad != "" {
				c.Violation("typing-crash", "", r.bad+" (after reordering/renaming)", "", r.bad, w)
				return
			}
			if r.accepted != r0.accepted {
				c.Violation("order-dependence", "", fmt.Sprintf("verdict changes with item order %v / naming scheme %d: %v vs %v (%s | %s)", ord, scheme, r0.accepted, r.accepted, r0.errMsg, r.errMsg), fmt.Sprint(r0.accepted), fmt.Sprint(r.accepted), w)
				return
			}
			if r.accepted && scheme == 0 && r.out != r0.out {
				c.Violation("order-dependence", "", "output changes with item order: "+firstDiff(r0.out, r.out), r0.out, r.out, w)
				return
			}
			c.Count("variants_compared", 1)
		}
	}
	for k := 0; k < 10; k++ {
		r := c16Run(base)
		// (the stability of the error text itself belongs to C19; here only verdict and behaviour)
		if r.accepted != r0.accepted || r.out != r0.out || r.bad != "" {
			c.Violation("repeat-dependence", "", "a repeated parse of the same source gives a different result", r0.errMsg+r0.out, r.errMsg+r.out, witness)
			return
		}
	}
	c.NonTrivial(base)
	if c.WantSample() && len(base) < 900 {
		c.Sample(map[string]any{"shape": cs.Shape, "source": base, "model_rejects": cs.Reject, "conflict": cs.Why, "parser_error": r0.errMsg})
	}
}

// c16Sharing: arrays are shared by reference, scalars are copied, and the local arrays and
// scalars of a call are new for every call - also when an earlier call of the function (or of
// another one) was left through next, nextfile, exit, getline errors or deep recursion.
// c16ParenArgs: a call argument written in parentheses is an expression, hence a scalar use of a
// variable it names; on an array parameter (directly, through forwarding, or because the variable is
// an array elsewhere) that is a conflict, on a scalar parameter it is fine.
type c16Fixed struct {
	src    string
	accept bool
}

func c16ParenArgs() []c16Fixed {
	var out []c16Fixed
	for _, arg := range []string{"(x)", "((x))", "(((x)))"} {
		rej := []string{
			"function f(a) { a[1] = 5 }\nBEGIN { f(%A) }",
			"function f(a) { a[1] = 5 }\nBEGIN { f(%A); print x[1] }",
			"function g(b) { f(b) }\nfunction f(a) { a[1] }\nBEGIN { g(%A) }",
			"function f(a) { g(a) }\nfunction g(b) { delete b }\nBEGIN { f(%A) }",
			"function f(a) { }\nBEGIN { f(%A); x[1] = 1 }",
			"function f(a) { }\nBEGIN { x[1] = 1; f(%A) }",
			"function f(a) { return length(a) }\nBEGIN { split(\"p q\", x); print f(%A) }",
			"function f(a, b) { b[1] = a }\nBEGIN { f(1, %A) }",
			"function f(a) { for (k in a) n++ }\nEND { f(%A) }",
			"function f(a) { return 1 in a }\n{ f(%A) }",
			"function f(a) { a[1] = 5 }\nfunction h(x) { f(%A) }\nBEGIN { h(1) }",
		}
		acc := []string{
			"function f(a) { return a + 1 }\nBEGIN { x = 3; print f(%A) }",
			"function f(a) { a = 7; return a }\nBEGIN { x = 3; print f(%A), x }",
			"function f(a) { return length(a) }\nBEGIN { x = \"abc\"; print f(%A) }",
			"function f(a) { }\nBEGIN { f(%A); x = 1 }",
			"function f(a, b) { b[1] = a }\nBEGIN { f(%A, y); print y[1] }",
			"function f(a) { a[1] = 5 }\nBEGIN { f(x); print x[1] }",
		}
		for _, r := range rej {
			out = append(out, c16Fixed{strings.ReplaceAll(r, "%A", arg) + "\n", false})
		}
		for _, a := range acc {
			out = append(out, c16Fixed{strings.ReplaceAll(a, "%A", arg) + "\n", true})
		}
	}
	return out
}

func c16Sharing() []genCase {
	input := ""
	for k := 1; k <= 40; k++ {
		input += fmt.Sprintf("r%d %d x\n", k, k)
	}
	progs := []string{
		"function f(x,   loc) { loc[NR] = 1; loc[\"k\"]; if (x % 2) next; return length(loc) }\n{ s = s f(NR) }\nEND { print s, NR }",
		"function g(   seen, k, n) { for (k in seen) n++; seen[NR] = 1; seen[NR, 2] = 2; if (NR % 3 == 0) next; return n + 0 }\n{ t = t g() }\nEND { print t, NR }",
		"function fill(   m) { m[1]; m[2]; m[3]; exit 3 }\nfunction cnt(   m2, k, n) { for (k in m2) n++; return (1 in m2) \":\" n + 0 \":\" length(m2) }\nNR == 5 { fill() }\nEND { print cnt(), NR }",
		"function a(   l1, l2) { l1[1] = 1; l2[\"x\"] = 2; b(); return 0 }\nfunction b(   m1, m2, m3) { m1[9]; if (NR % 2) next; return length(m1) length(m2) length(m3) }\nfunction c(   n1, n2, n3) { return length(n1) length(n2) length(n3) (1 in n1) (\"x\" in n2) (9 in n1) }\n{ a() }\n{ print NR, c() }\nEND { print c() }",
		"function r(d,   loc) { loc[d] = d; if (d < 5) return r(d + 1) + length(loc); if (NR % 2) next; return length(loc) }\n{ print r(0) }",
		"function inc(s, arr) { s++; arr[\"n\"]++; return s }\n{ v = 1; w = inc(v, A); print v, w, A[\"n\"] }",
		"function set(arr, k, v) { arr[k] = v }\nfunction get(arr, k) { return arr[k] }\nfunction both(a1, a2) { set(a1, 1, \"one\"); return get(a2, 1) }\nBEGIN { print both(X, X); print both(Y, Z) \"|\" length(Z) }",
		"function clear(arr) { delete arr }\nfunction size(arr) { return length(arr) }\nBEGIN { split(\"a b c\", T); print size(T); clear(T); print size(T); T[5]; print size(T) }",
		"function mk(arr,   i) { for (i = 0; i < 3; i++) arr[i] = i * i }\nfunction sum(arr,   k, t) { for (k in arr) t += arr[k]; return t }\nfunction wrap(   local) { mk(local); return sum(local) }\nBEGIN { print wrap(), wrap(); mk(G); print sum(G), length(G) }",
		"function f(p) { p = 5; return p }\nBEGIN { q = 1; print f(q), q; print f($1), $1; A[1] = 2; print f(A[1]), A[1] }",
		"function outer(   o) { o[1] = \"o\"; inner(o); return o[1] o[2] }\nfunction inner(arr,   own) { own[1] = \"i\"; arr[2] = own[1]; arr[1] = arr[1] \"!\" }\nBEGIN { print outer(), outer() }",
		"function unset_then_array(u) { u[1] = 1; return length(u) }\nfunction fwd(v) { return unset_then_array(v) }\nBEGIN { print fwd(fresh), length(fresh), (1 in fresh) }",
		"function unset_scalar(u) { u = 3; return u }\nfunction fwd(v) { return unset_scalar(v) }\nBEGIN { print fwd(never) \"[\" never \"]\" }",
		"function deep(n, arr,   loc) { loc[n]; arr[n] = length(loc); if (n > 0) deep(n - 1, arr); return length(loc) }\nBEGIN { print deep(30, R), length(R), R[0], R[30] }",
		"function g2(   tmp) { tmp[NR]; if ((getline line < \"nofile\") < 0 && NR % 2) next; return length(tmp) }\n{ out = out g2() }\nEND { print out }",
		"function many(a, b, c, d, e, f2, g3, h) { h[1]; f2[2]; if (NR == 2) nextfile; return length(h) length(f2) length(a) }\n{ print many() }",
		"function lvl1(   x1) { x1[1]; return lvl2() length(x1) }\nfunction lvl2(   x2, y2) { x2[1]; y2[1]; y2[2]; if (NR == 3) next; return length(x2) length(y2) }\n{ print lvl1() }\nEND { print lvl1() }",
		"function e(   m) { m[NR]; if (NR == 4) exit; return length(m) }\n{ print e() }\nEND { print \"end\", e(), e() }",
		"function swap(arr, i, j,   t) { t = arr[i]; arr[i] = arr[j]; arr[j] = t }\nBEGIN { n = split(\"c a b\", S); swap(S, 1, 3); swap(S, 1, 2); print S[1] S[2] S[3], n, t }",
		"function count(s,   parts, n) { n = split(s, parts); if (n > 2) next; return n }\n{ print count($0), length(parts) }\nEND { print count(\"a b\") }",
	}
	var out []genCase
	for _, p := range progs {
		cs := genCase{Family: "sharing", Src: p + "\n"}
		cs.Env.Stdin = input
		out = append(out, cs)
	}
	return out
}

func permute(a []int, f func([]int)) {
	var rec func(k int)
	p := append([]int{}, a...)
	rec = func(k int) {
		if k == len(p) {
			f(p)
			return
		}
		for i := k; i < len(p); i++ {
			p[k], p[i] = p[i], p[k]
			rec(k + 1)
			p[k], p[i] = p[i], p[k]
		}
	}
	rec(0)
}

// keepBeginOrder rewrites a permutation so that the BEGIN items (indexes >= firstBegin) appear
// in ascending order at the positions the permutation gives to BEGIN items.
func keepBeginOrder(ord []int, firstBegin int) []int {
	out := append([]int{}, ord...)
	var pos, vals []int
	for i, v := range out {
		if v >= firstBegin {
			pos = append(pos, i)
			vals = append(vals, v)
		}
	}
	sort.Ints(vals)
	for i, p := range pos {
		out[p] = vals[i]
	}
	return out
}

func init() {
	n := func(t core.Tier, q, th int) int {
		if t == core.Thorough {
			return th
		}
		return q
	}
	core.Register(&core.Property{
		ID:    "C16",
		Level: "exploration",
		Rule: "call-graph programs of eight shapes (chains, diamonds, self and mutual recursion, star, parameters only forwarded, unused parameters, random) with scalar uses, array uses (subscript, in, delete, " +
			"split, for-in, multi-dimensional), length(x), calls with variable / non-variable / missing arguments; the parser's verdict is compared with an independent union-find inference over the generator's " +
			"constraints; accepted programs are run (VM vs reference evaluator); every permutation of the top-level items (<= 4 items; 13 sampled otherwise) x 3 naming schemes and 10 repeated parses must agree; " +
			"non-trivial = distinct program",
		Assumptions: []string{
			"the union-find inference over the generator's own constraint list is the specification of the verdict (a non-variable argument makes the parameter scalar; length(x) constrains nothing)",
			"only the verdict (not the error text) has to be stable under reordering and renaming",
		},
		NBatches: func(t core.Tier) int { return n(t, 16, 64) },
		Floors: func(t core.Tier) map[string]int {
			return map[string]int{"evaluations": n(t, 80000, 1500000), "distinct_nontrivial": n(t, 4000, 80000), "accepted_programs": n(t, 1600, 30000), "rejected_programs": n(t, 800, 15000), "semantics_agreed": n(t, 1300, 25000), "shapes": 8, "sharing_cases": 20}
		},
		Run: func(c *core.Ctx) {
			if err := diffrun.Prepare(c.WorkDir()); err != nil {
				c.Inconclusive("chdir: " + err.Error())
				return
			}
			for i, cs := range c16Sharing() {
				if c.Mine(i) {
					c01RunCase(c, cs, "C16")
					c.Count("sharing_cases", 1)
				}
			}
			for i, fc := range c16ParenArgs() {
				if !c.Mine(500 + i) {
					continue
				}
				w := map[string]any{"paren_args": fc.src, "want_accepted": fc.accept}
				c.Begin(w)
				c.Eval(1)
				r := c16Run(fc.src)
				c.Count("paren_arg_cases", 1)
				switch {
				case r.bad != "":
					c.Violation("typing-crash", "", r.bad, "accepted programs run without scalar/array failures", r.bad, w)
				case r.accepted != fc.accept:
					c.Violation("verdict", "paren-args", fmt.Sprintf("parser %s, the usage constraints say %s: an argument in parentheses is an expression (a scalar use of the variable inside), never a variable passed by reference", map[bool]string{true: "accepts", false: "rejects (" + r.errMsg + ")"}[r.accepted], map[bool]string{true: "accepted", false: "rejected"}[fc.accept]), fmt.Sprint(fc.accept), fmt.Sprint(r.accepted)+" "+r.errMsg, w)
				default:
					c.NonTrivial("paren|" + fc.src)
				}
			}
			rng := c.Rand("cases")
			total := n(c.Tier, 6400, 120000) / c.NBatches
			for i := 0; i < total; i++ {
				c16Check(c, c16Generate(rng.Int63()))
			}
		},
		Replay: func(c *core.Ctx, raw json.RawMessage) {
			var w struct {
				Case   c16Case `json:"case"`
				Source string  `json:"source"`
				Src    string  `json:"src"`
			}
			if json.Unmarshal(raw, &w) != nil {
				return
			}
			if err := diffrun.Prepare(c.WorkDir()); err != nil {
				return
			}
			if w.Src != "" { // a sharing case (VM vs reference evaluator)
				var cs genCase
				if json.Unmarshal(raw, &cs) == nil {
					fmt.Printf("program:\n%s\n", cs.Src)
					c01RunCase(c, cs, "C16")
				}
				return
			}
			fmt.Printf("source:\n%s\nmodel rejects: %v %s\n", w.Source, w.Case.Reject, w.Case.Why)
			r := c16Run(w.Source)
			fmt.Printf("parser: accepted=%v err=%q bad=%q\nout=%s\n", r.accepted, r.errMsg, r.bad, core.Clip(r.out, 500))
			c16Check(c, w.Case)
		},
	})
}
