package props

// C10 — string, regex and int() builtins obey their defining equations.
//
// Shape of the monitor: thousands of probe cases are delivered AS DATA to one generic AWK
// driver program per interpreter run (native Go functions hand the driver its arguments as
// exact strings/float64s and take the results back, so no print/CONVFMT formatting stands
// between the builtin and the oracle). Every case is run in byte mode and in character
// mode; each observation is judged by the models in c10model (written from the property
// text), by direct evaluation with Go's regexp, and — for patterns drawn from the grammar —
// by an independent set-based leftmost-longest matcher. Patterns are passed both as
// dynamic regex strings and as /regex literals/ compiled into the driver text, because the
// two are compiled at different goawk code sites.

import (
	"encoding/json"
	"fmt"
	"math"
	"math/rand"
	"regexp"
	"strconv"
	"strings"

	"github.com/benhoyt/goawk/interp"

	m10 "verifharness/c10model"
	"verifharness/core"
	"verifharness/run"
)

// ---- the case ------------------------------------------------------------------------------

// c10Case is one probe, independent of the mode (it is always run in both).
type c10Case struct {
	Op      string    `json:"op"` // substr | match | index | split | gsub | sub | int | length
	S       []byte    `json:"s,omitempty"`
	P       []byte    `json:"p,omitempty"`       // pattern / needle / separator
	R       []byte    `json:"r,omitempty"`       // replacement
	M       string    `json:"m,omitempty"`       // numeric argument 1 (strconv 'g' form: NaN, +Inf, 1e+30 ...)
	N       string    `json:"n,omitempty"`       // numeric argument 2 ("" = omitted)
	Lit     bool      `json:"lit,omitempty"`     // pattern compiled as a /regex literal/ of the driver
	Dollar0 bool      `json:"dollar0,omitempty"` // sub/gsub on $0 (two-argument form)
	NumStr  bool      `json:"numstr,omitempty"`  // numeric arguments handed over as strings
	Prof    string    `json:"prof,omitempty"`    // generator profile (evidence only)
	Tree    *m10.Node `json:"tree,omitempty"`    // syntax tree of P when it came from the grammar
}

func (cs *c10Case) key() string {
	return fmt.Sprintf("%s|%q|%q|%q|%s|%s|%v|%v|%v", cs.Op, cs.S, cs.P, cs.R, cs.M, cs.N, cs.Lit, cs.Dollar0, cs.NumStr)
}

func c10Fmt(x float64) string { return strconv.FormatFloat(x, 'g', -1, 64) }

func c10Parse(s string) float64 {
	x, err := strconv.ParseFloat(s, 64)
	if err != nil {
		return math.NaN()
	}
	return x
}

// c10Obs is one value the driver reported for a case.
type c10Obs struct {
	IsNum bool
	N     float64
	S     string
}

func (o c10Obs) String() string {
	if o.IsNum {
		return c10Fmt(o.N)
	}
	return core.Q(o.S)
}

func c10ObsString(l []c10Obs) string {
	parts := make([]string, len(l))
	for i, o := range l {
		parts[i] = o.String()
	}
	return "[" + strings.Join(parts, " ") + "]"
}

func c10ObsEqual(a, b []c10Obs) bool {
	if len(a) != len(b) {
		return false
	}
	for i := range a {
		if a[i].IsNum != b[i].IsNum || a[i].S != b[i].S {
			return false
		}
		if a[i].IsNum && a[i].N != b[i].N && !(math.IsNaN(a[i].N) && math.IsNaN(b[i].N)) {
			return false
		}
	}
	return true
}

// ---- the driver program --------------------------------------------------------------------

const (
	c10kSubstr2  = 1
	c10kSubstr3  = 2
	c10kMatch    = 3
	c10kIndex    = 4
	c10kSplit    = 5
	c10kGsub     = 6
	c10kSub      = 7
	c10kGsub0    = 8
	c10kSub0     = 9
	c10kInt      = 10
	c10kLength   = 11
	c10kMatchLit = 13
	c10kGsubLit  = 16
	c10kSubLit   = 17
)

const c10Driver = `
BEGIN {
	while ((k = c10next()) > 0) {
		ns = c10f(0)
		if (k == 1 || k == 2) {
			s = c10s(0)
			if (ns) { m = c10s(3); n = c10s(4) } else { m = c10n(0); n = c10n(1) }
			if (k == 1) {
				c10rs(substr(s, m))
			} else {
				c10rs(substr(s, m, n))
			}
		} else if (k == 3) {
			s = c10s(0); r = c10s(1)
			c10rn(match(s, r)); c10rn(RSTART); c10rn(RLENGTH); c10rs(substr(s, RSTART, RLENGTH))
		} else if (k == 13) {
			s = c10s(0)
			c10rn(lm(c10f(1), s)); c10rn(RSTART); c10rn(RLENGTH); c10rs(substr(s, RSTART, RLENGTH))
			$0 = s; c10rn(lb(c10f(1)))
		} else if (k == 4) {
			s = c10s(0); t = c10s(1)
			i = index(s, t)
			c10rn(i); c10rn(length(t)); c10rs(substr(s, i, length(t)))
		} else if (k == 5) {
			s = c10s(0)
			n = split(s, arr, c10s(1))
			c10rn(n); c10rn(length(arr))
			for (i = 1; i <= n; i++) c10rs(arr[i])
		} else if (k == 6) {
			T = c10s(0); n = gsub(c10s(1), c10s(2), T); c10rn(n); c10rs(T)
		} else if (k == 7) {
			T = c10s(0); n = sub(c10s(1), c10s(2), T); c10rn(n); c10rs(T)
		} else if (k == 16) {
			T = c10s(0); n = lg(c10f(1), c10s(2)); c10rn(n); c10rs(T)
		} else if (k == 17) {
			T = c10s(0); n = lu(c10f(1), c10s(2)); c10rn(n); c10rs(T)
		} else if (k == 8) {
			$0 = c10s(0); n = gsub(c10s(1), c10s(2)); c10rn(n); c10rs($0)
		} else if (k == 9) {
			$0 = c10s(0); n = sub(c10s(1), c10s(2)); c10rn(n); c10rs($0)
		} else if (k == 10) {
			if (ns) { x = c10s(3) } else { x = c10n(0) }
			y = int(x)
			c10rn(y); c10rs(sprintf("%.0f", y))
		} else if (k == 11) {
			c10rn(length(c10s(0)))
		}
	}
}
`

// c10RegexLiteral spells pattern p between slashes, or ok=false if it cannot be a literal
// (newline, CR, NUL, or a backslash directly before a slash, which the lexer would read
// differently).
func c10RegexLiteral(p string) (string, bool) {
	var b strings.Builder
	b.WriteByte('/')
	for i := 0; i < len(p); i++ {
		c := p[i]
		switch c {
		case '\n', '\r', 0:
			return "", false
		case '\\':
			if i+1 >= len(p) || p[i+1] == '/' {
				return "", false
			}
			b.WriteByte(c)
			b.WriteByte(p[i+1])
			i++
		case '/':
			b.WriteString(`\/`)
		default:
			b.WriteByte(c)
		}
	}
	b.WriteByte('/')
	return b.String(), true
}

// c10Program builds the driver for a pool of literal patterns.
func c10Program(pool []string) string {
	var b strings.Builder
	fn := func(name, params, call string) {
		fmt.Fprintf(&b, "function %s(%s) {\n", name, params)
		for j, p := range pool {
			lit, _ := c10RegexLiteral(p)
			fmt.Fprintf(&b, "\tif (j == %d) return %s\n", j, fmt.Sprintf(call, lit))
		}
		b.WriteString("\treturn -99\n}\n")
	}
	fn("lm", "j, s", "match(s, %s)")
	fn("lb", "j", "%s") // the bare literal: does $0 match? (compiled by the compiler, not at run time)
	fn("lg", "j, r", "gsub(%s, r, T)")
	fn("lu", "j, r", "sub(%s, r, T)")
	b.WriteString(c10Driver)
	return b.String()
}

// ---- running a list of cases -----------------------------------------------------------------

type c10Session struct {
	cases []*c10Case
	pool  map[string]int
	cur   int // index of the case being run (-1 before the first)
	obs   [][]c10Obs
	begin func(cs *c10Case)
}

func (se *c10Session) funcs() map[string]any {
	cur := func() *c10Case { return se.cases[se.cur] }
	return map[string]any{
		"c10next": func() float64 {
			se.cur++
			if se.cur >= len(se.cases) {
				return 0
			}
			cs := cur()
			if se.begin != nil {
				se.begin(cs)
			}
			se.obs[se.cur] = []c10Obs{}
			switch cs.Op {
			case "substr":
				if cs.N == "" {
					return c10kSubstr2
				}
				return c10kSubstr3
			case "match":
				if cs.Lit {
					return c10kMatchLit
				}
				return c10kMatch
			case "index":
				return c10kIndex
			case "split":
				return c10kSplit
			case "gsub":
				if cs.Lit {
					return c10kGsubLit
				} else if cs.Dollar0 {
					return c10kGsub0
				}
				return c10kGsub
			case "sub":
				if cs.Lit {
					return c10kSubLit
				} else if cs.Dollar0 {
					return c10kSub0
				}
				return c10kSub
			case "int":
				return c10kInt
			case "length":
				return c10kLength
			}
			return 99 // unknown op: the driver does nothing
		},
		"c10s": func(i float64) string {
			cs := cur()
			switch int(i) {
			case 0:
				return string(cs.S)
			case 1:
				return string(cs.P)
			case 2:
				return string(cs.R)
			case 3:
				return cs.M
			case 4:
				return cs.N
			}
			return ""
		},
		"c10n": func(i float64) float64 {
			cs := cur()
			if int(i) == 0 {
				return c10Parse(cs.M)
			}
			if cs.N == "" {
				return 0
			}
			return c10Parse(cs.N)
		},
		"c10f": func(i float64) float64 {
			cs := cur()
			if int(i) == 0 {
				if cs.NumStr {
					return 1
				}
				return 0
			}
			return float64(se.pool[string(cs.P)])
		},
		"c10rs": func(s string) {
			if se.cur < len(se.cases) && len(se.obs[se.cur]) < 1<<16 {
				se.obs[se.cur] = append(se.obs[se.cur], c10Obs{S: s})
			}
		},
		"c10rn": func(x float64) {
			if se.cur < len(se.cases) && len(se.obs[se.cur]) < 1<<16 {
				se.obs[se.cur] = append(se.obs[se.cur], c10Obs{IsNum: true, N: x})
			}
		},
	}
}

// c10Fault is what happened to a case other than normal completion.
type c10Fault struct {
	Panic string
	Err   string
}

// c10RunCases runs all cases in one mode. obs[i] == nil means case i produced nothing.
func c10RunCases(c *core.Ctx, cases []*c10Case, chars bool) (obs [][]c10Obs, faults map[int]c10Fault, inconclusive string) {
	se := &c10Session{cases: cases, pool: map[string]int{}, cur: -1, obs: make([][]c10Obs, len(cases))}
	se.begin = func(cs *c10Case) { c.Begin(cs) }
	var pool []string
	for _, cs := range cases {
		if cs.Lit {
			if _, ok := se.pool[string(cs.P)]; !ok {
				se.pool[string(cs.P)] = len(pool)
				pool = append(pool, string(cs.P))
			}
		}
	}
	funcs := se.funcs()
	src := c10Program(pool)
	prog, err, pm := run.Parse(src, funcs)
	if pm != "" || err != nil {
		return nil, nil, fmt.Sprintf("driver does not parse (pool %q): %v %s", pool, err, core.Clip(pm, 300))
	}
	faults = map[int]c10Fault{}
	steps := uint64(0)
	for _, cs := range cases {
		steps += 2000 + 12*uint64(len(cs.S))
	}
	// A fault ends the run at the case that was executing; the rest is run afresh.
	for se.cur < len(cases)-1 {
		out := run.Exec(prog, &interp.Config{Funcs: funcs, Chars: chars, Stdin: strings.NewReader("")}, run.Opts{StepLimit: steps + 100000})
		c.Count("interpreter_runs", 1)
		at := se.cur
		if at < 0 {
			return se.obs, faults, "driver ended before its first case: " + out.String()
		}
		if len(out.Faults) > 0 {
			c.Violation("stack-balance", "", "evaluation stack unbalanced after the C10 driver: "+strings.Join(out.Faults, ";"), "", "",
				c10Witness{Case: cases[c10Min(at, len(cases)-1)], Chars: chars})
		}
		if at >= len(cases) {
			break
		}
		switch {
		case out.Panic != "":
			faults[at] = c10Fault{Panic: out.Panic}
		case out.StepLimit:
			return se.obs, faults, "step budget exhausted at case " + cases[at].key()
		case out.Err != "":
			faults[at] = c10Fault{Err: out.Err}
		default:
			// normal end: c10next returned 0, se.cur == len(cases)
		}
	}
	return se.obs, faults, ""
}

func c10Min(a, b int) int {
	if a < b {
		return a
	}
	return b
}

// ---- judges ------------------------------------------------------------------------------------

// c10Verdict is one disagreement between an observation and the oracle.
type c10Verdict struct {
	kind, class, summary, want, got string
}

var c10Two63 = math.Ldexp(1, 63)

func c10Mode(chars bool) string {
	if chars {
		return "chars"
	}
	return "bytes"
}

// c10Regexp compiles p the way the property's "direct evaluation" oracle does: dot matches
// newline, leftmost-longest.
func c10Regexp(p string) (*regexp.Regexp, error) {
	re, err := regexp.Compile("(?s:" + p + ")")
	if err != nil {
		return nil, err
	}
	re.Longest()
	return re, nil
}

func c10Num(o []c10Obs, i int) (float64, bool) {
	if i < len(o) && o[i].IsNum {
		return o[i].N, true
	}
	return 0, false
}

func c10Str(o []c10Obs, i int) (string, bool) {
	if i < len(o) && !o[i].IsNum {
		return o[i].S, true
	}
	return "", false
}

func c10PosClass(x float64, L int) string {
	switch {
	case math.IsNaN(x):
		return "nan"
	case math.IsInf(x, 1):
		return "+inf"
	case math.IsInf(x, -1):
		return "-inf"
	case x >= c10Two63:
		return ">=2^63"
	case x < -c10Two63:
		return "<-2^63"
	case x >= math.Ldexp(1, 31):
		return "2^31..2^63"
	case x <= -math.Ldexp(1, 31):
		return "-2^63..-2^31"
	}
	frac := ""
	if x != math.Trunc(x) {
		frac = "+frac"
	}
	t := math.Trunc(x)
	switch {
	case t < 0:
		return "neg" + frac
	case t == 0:
		return "zero" + frac
	case t == 1:
		return "one" + frac
	case t < float64(L):
		return "inside" + frac
	case t == float64(L):
		return "len" + frac
	case t == float64(L)+1:
		return "len+1" + frac
	}
	return "beyond" + frac
}

func c10JudgeSubstr(cs *c10Case, chars bool, o []c10Obs) *c10Verdict {
	got, ok := c10Str(o, 0)
	if !ok || len(o) != 1 {
		return &c10Verdict{"substr-equation", "substr:shape", "driver reported " + c10ObsString(o), "one string", c10ObsString(o)}
	}
	t := m10.NewText(string(cs.S), chars)
	m := c10Parse(cs.M)
	hasN := cs.N != ""
	n := 0.0
	if hasN {
		n = c10Parse(cs.N)
	}
	want, weak := m10.Substr(t, m, hasN, n)
	call := fmt.Sprintf("substr(%s, %s", core.Q(t.S), cs.M)
	if hasN {
		call += ", " + cs.N
	}
	call += ") [" + c10Mode(chars) + "]"
	if weak {
		if !strings.Contains(t.S, got) || (chars && m10.WellFormed(t.S) && !m10.WellFormed(got)) {
			return &c10Verdict{"substr-equation", "substr:nan-not-a-piece", call + " is not a contiguous piece of s", "a contiguous piece of s", core.Q(got)}
		}
		return nil
	}
	if got == want {
		return nil
	}
	// Narrow classes of the known float->int conversion defect; anything else keeps a
	// descriptive class that no known finding matches.
	class := "substr:" + c10PosClass(m, t.N())
	if hasN {
		class += "/" + c10PosClass(n, t.N())
	}
	if m >= c10Two63 {
		if alt, _ := m10.Substr(t, 1, hasN, n); got == alt && !(hasN && n >= c10Two63) {
			class = "substr:start>=2^63-taken-as-1"
		}
	} else if hasN && n >= c10Two63 && got == "" {
		class = "substr:length>=2^63-taken-as-0"
	}
	return &c10Verdict{"substr-equation", class, call + " = " + core.Q(got) + ", the equation gives " + core.Q(want), core.Q(want), core.Q(got)}
}

// c10MatchExpect is what match() must report for a leftmost-longest match at bytes [b,e)
// (none if !found).
func c10MatchExpect(t *m10.Text, sp m10.Span, found bool) ([]c10Obs, bool) {
	if !found {
		return []c10Obs{{IsNum: true, N: 0}, {IsNum: true, N: 0}, {IsNum: true, N: -1}, {S: ""}}, true
	}
	u0, u1 := t.UnitAt(sp.B), t.UnitAt(sp.E)
	if u0 < 0 || u1 < 0 {
		return nil, false
	}
	return []c10Obs{{IsNum: true, N: float64(u0 + 1)}, {IsNum: true, N: float64(u0 + 1)}, {IsNum: true, N: float64(u1 - u0)}, {S: t.S[sp.B:sp.E]}}, true
}

func c10PatDesc(cs *c10Case) string {
	if cs.Lit {
		return "/" + string(cs.P) + "/"
	}
	return core.Q(string(cs.P))
}

func c10JudgeMatch(c *core.Ctx, cs *c10Case, chars bool, o []c10Obs) *c10Verdict {
	t := m10.NewText(string(cs.S), chars)
	re, err := c10Regexp(string(cs.P))
	if err != nil {
		return nil
	}
	call := fmt.Sprintf("match(%s, %s) [%s] -> (result RSTART RLENGTH substr(s,RSTART,RLENGTH))", core.Q(t.S), c10PatDesc(cs), c10Mode(chars))
	loc := re.FindStringIndex(t.S)
	var sp m10.Span
	if loc != nil {
		sp = m10.Span{B: loc[0], E: loc[1]}
	}
	want, ok := c10MatchExpect(t, sp, loc != nil)
	if !ok {
		c.Inconclusive("match oracle: regexp match not on a unit boundary for " + cs.key())
		return nil
	}
	if cs.Lit {
		// the literal driver also reports whether the bare /literal/ matches $0 = s
		wantBare := 0.0
		if loc != nil {
			wantBare = 1
		}
		if bare, ok := c10Num(o, 4); !ok || len(o) != 5 || bare != wantBare {
			return &c10Verdict{"match-equation", "match:bare-literal", fmt.Sprintf("$0 = %s; %s as a condition [%s] gave %s although match() must report %s", core.Q(t.S), c10PatDesc(cs), c10Mode(chars), c10ObsString(o), c10ObsString(want)),
				fmt.Sprint(wantBare), c10ObsString(o)}
		}
		o = o[:4]
	}
	if !c10ObsEqual(o, want) {
		class := "match:" + c10Mode(chars)
		if cs.Lit {
			class += ":literal"
		}
		return &c10Verdict{"match-equation", class, call + " = " + c10ObsString(o) + ", direct evaluation gives " + c10ObsString(want), c10ObsString(want), c10ObsString(o)}
	}
	if cs.Tree != nil && len(cs.S) <= m10.MaxMatchLen {
		isp, found := m10.NewMatcher(cs.Tree, t.S).Find(0)
		c.Count("independent_matcher_checks", 1)
		iwant, ok := c10MatchExpect(t, isp, found)
		if ok && !c10ObsEqual(o, iwant) {
			return &c10Verdict{"leftmost-longest-independent", c10IndependentClass(cs, "match"), call + " = " + c10ObsString(o) + ", the leftmost-longest match by exhaustive search is " + c10ObsString(iwant), c10ObsString(iwant), c10ObsString(o)}
		}
	}
	return nil
}

// c10IndependentClass names the class of a disagreement between goawk (which agreed with
// Go's regexp) and the exhaustive matcher. One cause is known and lies in the standard
// library of the toolchain, not in goawk: regexp/syntax (go1.23) merges a case-sensitive
// literal with a following branch that starts with the bracket set of the same letter's two
// cases — `A|[Aa]b` is compiled as `A(|b)` and no longer matches "ab". The diagnosis is
// differential: if spelling every such set as (A|a) makes Go's regexp agree with the
// exhaustive matcher on this subject, the class is the narrow standard-library one.
func c10IndependentClass(cs *c10Case, class string) string {
	if rw, changed := cs.Tree.RewriteCasePairs(); changed {
		if re, err := c10Regexp(rw.String()); err == nil {
			s := string(cs.S)
			want := m10.NewMatcher(cs.Tree, s).All()
			got := c10SpansOf(re.FindAllStringIndex(s, -1))
			same := len(want) == len(got)
			for i := 0; same && i < len(want); i++ {
				same = want[i] == got[i]
			}
			if same {
				return "regex:go-stdlib-casefold-set-merged-with-literal"
			}
		}
	}
	return class + ":independent-matcher"
}

func c10JudgeIndex(c *core.Ctx, cs *c10Case, chars bool, o []c10Obs) *c10Verdict {
	t := m10.NewText(string(cs.S), chars)
	needle := string(cs.P)
	call := fmt.Sprintf("index(%s, %s) [%s]", core.Q(t.S), core.Q(needle), c10Mode(chars))
	i, ok0 := c10Num(o, 0)
	ln, ok1 := c10Num(o, 1)
	piece, ok2 := c10Str(o, 2)
	if !ok0 || !ok1 || !ok2 || len(o) != 3 {
		return &c10Verdict{"index-equation", "index:shape", "driver reported " + c10ObsString(o), "number number string", c10ObsString(o)}
	}
	if wantLen := m10.NewText(needle, chars).N(); ln != float64(wantLen) {
		return &c10Verdict{"length-equation", "length:" + c10Mode(chars), fmt.Sprintf("length(%s) [%s] = %s", core.Q(needle), c10Mode(chars), c10Fmt(ln)), fmt.Sprint(wantLen), c10Fmt(ln)}
	}
	if needle == "" {
		c.Count("dontcare_index_empty_needle", 1)
		return nil
	}
	want, byteOnly := m10.Index(t, needle)
	if i != float64(want) {
		class := "index:" + c10Mode(chars)
		if byteOnly && chars {
			class = "index:chars-needle-found-inside-utf8-sequence"
		}
		return &c10Verdict{"index-equation", class, fmt.Sprintf("%s = %s, the first occurrence is at %d", call, c10Fmt(i), want), fmt.Sprint(want), c10Fmt(i)}
	}
	if want > 0 && piece != needle {
		return &c10Verdict{"index-equation", "index:substr-relation:" + c10Mode(chars), fmt.Sprintf("%s = %d but substr(s, %d, length(t)) = %s", call, want, want, core.Q(piece)), core.Q(needle), core.Q(piece)}
	}
	return nil
}

func c10JudgeSplit(c *core.Ctx, cs *c10Case, chars bool, o []c10Obs) *c10Verdict {
	s, sep := string(cs.S), string(cs.P)
	call := fmt.Sprintf("split(%s, a, %s) [%s]", core.Q(s), core.Q(sep), c10Mode(chars))
	n, ok0 := c10Num(o, 0)
	alen, ok1 := c10Num(o, 1)
	if !ok0 || !ok1 {
		return &c10Verdict{"split-equation", "split:shape", "driver reported " + c10ObsString(o), "count, length(a), pieces", c10ObsString(o)}
	}
	var pieces []string
	for i := 2; i < len(o); i++ {
		p, ok := c10Str(o, i)
		if !ok {
			return &c10Verdict{"split-equation", "split:shape", "driver reported " + c10ObsString(o), "count, length(a), pieces", c10ObsString(o)}
		}
		pieces = append(pieces, p)
	}
	class := "split:" + c10Mode(chars)
	if n != float64(len(pieces)) || alen != n {
		return &c10Verdict{"split-equation", class + ":count", fmt.Sprintf("%s returned %s, array has %s elements", call, c10Fmt(n), c10Fmt(alen)), "equal counts", c10ObsString(o)}
	}
	if s == "" {
		// the text only says the pieces joined give back s: no piece, or one empty piece
		if len(pieces) == 0 || (len(pieces) == 1 && pieces[0] == "") {
			c.Cover("split_outcomes", fmt.Sprintf("empty-subject-%d-pieces", len(pieces)))
			return nil
		}
		return &c10Verdict{"split-equation", class + ":empty-subject", call + " gave " + c10ObsString(o), "no piece (or one empty piece)", c10ObsString(o)}
	}
	if joined := strings.Join(pieces, sep); joined != s {
		return &c10Verdict{"split-equation", class + ":join", call + " gave pieces " + c10ObsString(o[2:]) + " which joined by the separator give " + core.Q(joined), core.Q(s), core.Q(joined)}
	}
	for _, p := range pieces {
		// a piece must not still contain the separator (as a unit-level occurrence)
		if pos, _ := m10.Index(m10.NewText(p, chars), sep); pos > 0 {
			return &c10Verdict{"split-equation", class + ":unsplit", call + " left the separator inside piece " + core.Q(p), "pieces free of the separator", c10ObsString(o[2:])}
		}
	}
	if chars && m10.WellFormed(s) {
		for _, p := range pieces {
			if !m10.WellFormed(p) {
				c.Count("dontcare_split_chars_cut_sequence", 1) // the text speaks of positions and lengths only
				break
			}
		}
	}
	return nil
}

// c10SpansOf converts regexp's match list.
func c10SpansOf(locs [][]int) []m10.Span {
	out := make([]m10.Span, len(locs))
	for i, l := range locs {
		out[i] = m10.Span{B: l[0], E: l[1]}
	}
	return out
}

// c10SubExpect is what sub/gsub must report given the list of all matches: the count and the
// accepted result strings (two readings of the replacement where the text is silent).
func c10SubExpect(cs *c10Case, spans []m10.Span) (float64, []string) {
	if cs.Op == "sub" && len(spans) > 1 {
		spans = spans[:1]
	}
	s, repl := string(cs.S), string(cs.R)
	outs := []string{m10.Replace(s, spans, repl, true)}
	if !m10.ReplStrict(repl) {
		if alt := m10.Replace(s, spans, repl, false); alt != outs[0] {
			outs = append(outs, alt)
		}
	}
	return float64(len(spans)), outs
}

func c10JudgeSub(c *core.Ctx, cs *c10Case, chars bool, o []c10Obs) *c10Verdict {
	s := string(cs.S)
	re, err := c10Regexp(string(cs.P))
	if err != nil {
		return nil
	}
	target := "t"
	if cs.Dollar0 {
		target = "$0"
	}
	call := fmt.Sprintf("%s(%s, %s, %s=%s) [%s] -> (count, %s)", cs.Op, c10PatDesc(cs), core.Q(string(cs.R)), target, core.Q(s), c10Mode(chars), target)
	n, ok0 := c10Num(o, 0)
	out, ok1 := c10Str(o, 1)
	if !ok0 || !ok1 || len(o) != 2 {
		return &c10Verdict{cs.Op + "-equation", cs.Op + ":shape", "driver reported " + c10ObsString(o), "count, string", c10ObsString(o)}
	}
	check := func(spans []m10.Span, kind, class, oracle string) *c10Verdict {
		wantN, wantOuts := c10SubExpect(cs, spans)
		okOut := false
		for _, w := range wantOuts {
			if out == w {
				okOut = true
			}
		}
		if n == wantN && okOut {
			return nil
		}
		if strings.HasPrefix(class, "regex:") {
			// a diagnosed standard-library class stays as it is
		} else if n != wantN {
			class += ":count"
		} else {
			class += ":result"
		}
		quoted := make([]string, len(wantOuts))
		for i, w := range wantOuts {
			quoted[i] = core.Q(w)
		}
		want := fmt.Sprintf("[%s %s]", c10Fmt(wantN), strings.Join(quoted, " or "))
		return &c10Verdict{kind, class, call + " = " + c10ObsString(o) + ", " + oracle + " gives " + want, want, c10ObsString(o)}
	}
	class := cs.Op
	if cs.Lit {
		class += ":literal"
	}
	if string(cs.R) == "&" {
		class += ":ampersand-identity"
	}
	if v := check(c10SpansOf(re.FindAllStringIndex(s, -1)), cs.Op+"-equation", class, "direct evaluation"); v != nil {
		return v
	}
	if cs.Tree != nil && len(s) <= m10.MaxMatchLen {
		c.Count("independent_matcher_checks", 1)
		if v := check(m10.NewMatcher(cs.Tree, s).All(), "leftmost-longest-independent", c10IndependentClass(cs, class), "the exhaustive leftmost-longest scan"); v != nil {
			return v
		}
	}
	return nil
}

func c10IntClass(x float64) string {
	switch {
	case math.IsNaN(x):
		return "nan"
	case math.IsInf(x, 0):
		return "inf"
	case x == 0 && math.Signbit(x):
		return "-0"
	case x == 0:
		return "zero"
	case math.Abs(x) >= c10Two63:
		return "|x|>=2^63"
	case math.Abs(x) >= math.Ldexp(1, 53):
		return "2^53<=|x|<2^63"
	case math.Abs(x) >= math.Ldexp(1, 31):
		return "2^31<=|x|<2^53"
	case math.Abs(x) < 1:
		if x < 0 {
			return "-1<x<0"
		}
		return "0<x<1"
	case x != math.Trunc(x):
		if x < 0 {
			return "neg-fraction"
		}
		return "pos-fraction"
	}
	if x < 0 {
		return "neg-integer"
	}
	return "pos-integer"
}

func c10JudgeInt(c *core.Ctx, cs *c10Case, chars bool, o []c10Obs) *c10Verdict {
	x := c10Parse(cs.M)
	y, ok0 := c10Num(o, 0)
	rendered, ok1 := c10Str(o, 1)
	if !ok0 || !ok1 || len(o) != 2 {
		return &c10Verdict{"int-equation", "int:shape", "driver reported " + c10ObsString(o), "number, string", c10ObsString(o)}
	}
	if math.IsNaN(x) || math.IsInf(x, 0) {
		c.Count("dontcare_int_nonfinite", 1) // "for every finite x"
		return nil
	}
	want := m10.Trunc(x)
	if y != want {
		class := "int:" + c10IntClass(x)
		if math.Abs(x) >= c10Two63 && y == -c10Two63 {
			class = "int:magnitude>=2^63-gives-minint64"
		}
		return &c10Verdict{"int-equation", class, fmt.Sprintf("int(%s) = %s, truncation toward zero gives %s", cs.M, c10Fmt(y), c10Fmt(want)), c10Fmt(want), c10Fmt(y)}
	}
	// The %.0f rendering is C09's business; a difference there is only counted.
	if w := strconv.FormatFloat(want, 'f', 0, 64); rendered != w && !(want == 0 && (rendered == "0" || rendered == "-0")) {
		c.Count("dontcare_int_rendering_differs", 1)
		c.Note("int(%s): number is right but sprintf(\"%%.0f\") gave %q (Go renders %q)", cs.M, rendered, w)
	}
	return nil
}

func c10JudgeLength(cs *c10Case, chars bool, o []c10Obs) *c10Verdict {
	n, ok := c10Num(o, 0)
	want := m10.NewText(string(cs.S), chars).N()
	if !ok || len(o) != 1 || n != float64(want) {
		return &c10Verdict{"length-equation", "length:" + c10Mode(chars), fmt.Sprintf("length(%s) [%s] = %s", core.Q(string(cs.S)), c10Mode(chars), c10ObsString(o)), fmt.Sprint(want), c10ObsString(o)}
	}
	return nil
}

func c10Judge(c *core.Ctx, cs *c10Case, chars bool, o []c10Obs) *c10Verdict {
	switch cs.Op {
	case "substr":
		return c10JudgeSubstr(cs, chars, o)
	case "match":
		return c10JudgeMatch(c, cs, chars, o)
	case "index":
		return c10JudgeIndex(c, cs, chars, o)
	case "split":
		return c10JudgeSplit(c, cs, chars, o)
	case "gsub", "sub":
		return c10JudgeSub(c, cs, chars, o)
	case "int":
		return c10JudgeInt(c, cs, chars, o)
	case "length":
		return c10JudgeLength(cs, chars, o)
	}
	return nil
}

// c10Witness is the replayable form of a violation: the case and the mode it was seen in.
type c10Witness struct {
	Case  *c10Case `json:"case"`
	Chars bool     `json:"chars"`
}

// c10Report records a violation, keeping at most c10PerClass witnesses of one (kind, class)
// per batch so that the many witnesses of one defect cannot crowd out a different one (the
// runner keeps 200 witnesses per batch); the rest are only counted.
const c10PerClass = 6

var c10Reported = map[string]int{}

func c10Report(c *core.Ctx, v *c10Verdict, w c10Witness) {
	key := v.kind + "|" + v.class
	c10Reported[key]++
	if c10Reported[key] > c10PerClass {
		c.Count("witnesses_not_kept ["+key+"]", 1)
		return
	}
	c.Violation(v.kind, v.class, v.summary, v.want, v.got, w)
}

// c10CheckCases runs the cases in both modes and judges everything. evidence=false in replay.
func c10CheckCases(c *core.Ctx, cases []*c10Case, evidence bool) {
	var obs [2][][]c10Obs
	for mode := 0; mode < 2; mode++ {
		chars := mode == 1
		o, faults, inc := c10RunCases(c, cases, chars)
		if inc != "" {
			c.Inconclusive(inc)
			return
		}
		obs[mode] = o
		for i, cs := range cases {
			w := c10Witness{Case: cs, Chars: chars}
			if f, bad := faults[i]; bad {
				if f.Panic != "" {
					c10Report(c, &c10Verdict{"panic", "panic:" + run.PanicSite(f.Panic), fmt.Sprintf("Go panic while running %s [%s]", cs.key(), c10Mode(chars)), "a result", f.Panic}, w)
				} else {
					c10Report(c, &c10Verdict{"unexpected-error", "error:" + cs.Op, fmt.Sprintf("error %q while running %s [%s]", f.Err, cs.key(), c10Mode(chars)), "a result", f.Err}, w)
				}
				obs[mode][i] = nil
				continue
			}
			if o[i] == nil {
				c.Inconclusive("case not executed: " + cs.key())
				continue
			}
			c.Eval(1)
			if v := c10Judge(c, cs, chars, o[i]); v != nil {
				c10Report(c, v, w)
			}
		}
	}
	for i, cs := range cases {
		ob, oc := obs[0][i], obs[1][i]
		if ob == nil || oc == nil {
			continue
		}
		// "on ASCII text byte and character mode agree"
		if m10.IsASCII(string(cs.S)) && m10.IsASCII(string(cs.P)) && m10.IsASCII(string(cs.R)) {
			c.Count("ascii_cross_mode_comparisons", 1)
			if !c10ObsEqual(ob, oc) {
				c10Report(c, &c10Verdict{"ascii-mode-agreement", "modes:" + cs.Op, fmt.Sprintf("%s on ASCII text: byte mode gives %s, character mode gives %s", cs.key(), c10ObsString(ob), c10ObsString(oc)),
					c10ObsString(ob), c10ObsString(oc)}, c10Witness{Case: cs, Chars: true})
			}
		} else if !c10ObsEqual(ob, oc) {
			c.Count("cases_where_modes_must_differ", 1)
		}
		if evidence {
			c10Evidence(c, cs, ob, oc)
		}
	}
}

// ---- evidence ----------------------------------------------------------------------------------

func c10SubjectClass(s string) string {
	switch {
	case s == "":
		return "empty"
	case len(s) >= 5000:
		return "long"
	case m10.IsASCII(s):
		if strings.ContainsAny(s, "\n") {
			return "ascii+newline"
		}
		return "ascii"
	case m10.WellFormed(s):
		return "multibyte"
	}
	return "invalid-utf8"
}

func c10Evidence(c *core.Ctx, cs *c10Case, ob, oc []c10Obs) {
	s := string(cs.S)
	variant := cs.Op
	if cs.Lit {
		variant += "/literal"
	}
	if cs.Dollar0 {
		variant += "/$0"
	}
	if cs.NumStr {
		variant += "/numstr"
	}
	if cs.Op == "substr" && cs.N == "" {
		variant += "/2arg"
	}
	c.Cover("op_variants", variant)
	c.Cover("op_x_subject", cs.Op+"|"+c10SubjectClass(s))
	c.Count("cases_"+cs.Op, 1)
	nontrivial := false
	switch cs.Op {
	case "substr":
		L := m10.NewText(s, true).N()
		c.Cover("substr_start_classes", c10PosClass(c10Parse(cs.M), L))
		if cs.N != "" {
			c.Cover("substr_length_classes", c10PosClass(c10Parse(cs.N), L))
			c.Cover("substr_start_x_length", c10PosClass(c10Parse(cs.M), L)+"|"+c10PosClass(c10Parse(cs.N), L))
		}
		nontrivial = s != ""
	case "match", "gsub", "sub":
		if cs.Tree != nil {
			cs.Tree.Features(func(f string) { c.Cover("regex_features", f) })
		} else {
			c.Count("handwritten_patterns", 1)
		}
		p := string(cs.P)
		re, err := c10Regexp(p)
		if err != nil {
			return
		}
		locs := re.FindAllStringIndex(s, -1)
		nontrivial = len(locs) > 0 && s != ""
		// does the workload discriminate leftmost-longest from leftmost-first, and (?s) from not?
		if first, err := regexp.Compile("(?s:" + p + ")"); err == nil {
			if a, b := first.FindStringIndex(s), re.FindStringIndex(s); a != nil && b != nil && (a[0] != b[0] || a[1] != b[1]) {
				c.Count("longest_differs_from_first", 1)
				if cs.Lit {
					c.Count("longest_differs_from_first_literal", 1)
				}
			}
		}
		if nos, err := regexp.Compile("(?:" + p + ")"); err == nil {
			nos.Longest()
			a, b := nos.FindStringIndex(s), re.FindStringIndex(s)
			if (a == nil) != (b == nil) || (a != nil && (a[0] != b[0] || a[1] != b[1])) {
				c.Count("dot_newline_matters", 1)
			}
		}
		outcome := "none"
		if len(locs) > 0 {
			l := locs[0]
			switch {
			case l[0] == l[1] && l[0] == 0:
				outcome = "empty-at-start"
			case l[0] == l[1]:
				outcome = "empty-later"
			case l[0] == 0 && l[1] == len(s):
				outcome = "whole"
			case l[0] == 0:
				outcome = "prefix"
			case l[1] == len(s):
				outcome = "suffix"
			default:
				outcome = "inside"
			}
			if !m10.IsASCII(s[:l[0]]) {
				outcome += "+multibyte-before"
			}
			if !m10.IsASCII(s[l[0]:l[1]]) {
				outcome += "+multibyte-in"
			}
		}
		if cs.Op == "match" {
			c.Cover("match_outcomes", outcome)
		} else {
			k := "many"
			if len(locs) < 2 {
				k = fmt.Sprint(len(locs))
			}
			empties := 0
			for _, l := range locs {
				if l[0] == l[1] {
					empties++
				}
			}
			if empties > 0 {
				k += "+empty-matches"
			}
			c.Cover(cs.Op+"_outcomes", k)
			for _, tok := range c10ReplTokenNames(string(cs.R)) {
				c.Cover("replacement_tokens", tok)
			}
			if cs.Op == "sub" && len(locs) >= 2 {
				c.Count("sub_with_several_candidates", 1)
			}
		}
	case "index":
		nontrivial = len(cs.P) > 0 && s != ""
		k := "absent"
		if pos, byteOnly := m10.Index(m10.NewText(s, true), string(cs.P)); byteOnly {
			k = "byte-occurrence-inside-sequence"
		} else if pos == 1 {
			k = "at-start"
		} else if pos > 1 {
			k = "later"
			if !m10.IsASCII(s[:strings.Index(s, string(cs.P))]) {
				k += "+multibyte-before"
			}
		}
		if len(cs.P) == 0 {
			k = "empty-needle"
		}
		c.Cover("index_outcomes", k)
	case "split":
		nontrivial = s != ""
		sep := string(cs.P)
		c.Cover("split_separators", c10SepClass(sep))
		n := strings.Count(s, sep)
		switch {
		case s == "":
		case n == 0:
			c.Cover("split_outcomes", "single-piece")
		default:
			c.Cover("split_outcomes", "several")
			if strings.HasPrefix(s, sep) {
				c.Cover("split_outcomes", "leading-empty")
			}
			if strings.HasSuffix(s, sep) {
				c.Cover("split_outcomes", "trailing-empty")
			}
			if strings.Contains(s, sep+sep) {
				c.Cover("split_outcomes", "adjacent-empty")
			}
		}
	case "int":
		x := c10Parse(cs.M)
		c.Cover("int_classes", c10IntClass(x))
		nontrivial = !math.IsNaN(x) && !math.IsInf(x, 0) && (x != math.Trunc(x) || math.Abs(x) >= math.Ldexp(1, 31))
	case "length":
		nontrivial = s != ""
	}
	if nontrivial {
		c.NonTrivial(cs.key())
	}
	// Samples: the k-th sample of batch b is a case of op number (b+k) mod 8, so that the
	// evidence file shows every builtin.
	if nontrivial && len(cs.S) < 40 && c.WantSample() {
		ops := []string{"match", "gsub", "substr", "sub", "index", "split", "int", "length"}
		if cs.Op == ops[(c.Batch+c10Sampled)%len(ops)] && (cs.Prof != "systematic" || cs.Op == "int") {
			c10Sampled++
			cp := *cs
			cp.Tree = nil
			c.Sample(map[string]any{"case": cp, "subject": string(cs.S), "pattern": string(cs.P), "replacement": string(cs.R),
				"byte_mode": c10ObsString(ob), "char_mode": c10ObsString(oc)})
		}
	}
}

var c10Sampled int

func c10ReplTokenNames(r string) []string {
	if r == "" {
		return []string{"empty"}
	}
	var out []string
	for i := 0; i < len(r); i++ {
		switch {
		case r[i] == '&':
			out = append(out, "&")
		case r[i] == '\\' && i+1 < len(r) && r[i+1] == '&':
			out = append(out, `\&`)
			i++
		case r[i] == '\\' && i+1 < len(r) && r[i+1] == '\\':
			out = append(out, `\\ (don't-care)`)
			i++
		case r[i] == '\\' && i+1 < len(r):
			out = append(out, `\x (don't-care)`)
			i++
		case r[i] == '\\':
			out = append(out, `trailing \ (don't-care)`)
		default:
			out = append(out, "text")
		}
	}
	return out
}

func c10SepClass(sep string) string {
	switch {
	case len(sep) == 1 && strings.ContainsAny(sep, `\.[]()*+?{}|^$`):
		return "regex-metachar " + sep
	case sep == "\t" || sep == "\n" || sep == "\x00":
		return fmt.Sprintf("control %q", sep)
	case len(sep) == 1 && sep[0] < 0x80:
		return "ascii"
	case m10.WellFormed(sep):
		return "multibyte"
	}
	return "stray-byte"
}

// ---- generators --------------------------------------------------------------------------------

type c10Profile struct {
	name  string
	units []string // building blocks of subjects
	pat   []rune   // alphabet of patterns
}

var c10Profiles = []c10Profile{
	{"ab", []string{"a", "b"}, []rune("ab")},
	{"abc-meta", []string{"a", "b", "c", "A", ".", "*", "|", "+", " ", "=", "/", "&", "\\"}, []rune("abcA.*|+ =/")},
	{"multibyte", []string{"a", "b", "é", "日", "😀", "é"}, []rune("abé日😀")},
	{"newline", []string{"a", "b", "\n", "\r", "\x00"}, []rune("ab\n")},
	{"invalid", []string{"a", "é", "日", "\xff", "\xc3", "\xa9", "\xe6\x97", "\xf0\x9f", "\xed\xa0\x80", "\xc0\xaf"}, []rune("aé日")},
}

// c10Patterns are hand-written patterns judged by direct evaluation only.
var c10Patterns = []string{
	"", "^", "$", "^$", ".", ".*", ".+", "x*", "a|ab|abc", "(a|ab)(c|bcd)", "(ab|a)(bc|c)?", "(|a)+", "(a*)*", "(a*)+", "(a|b)*abb",
	"[[:alpha:]]+", "[[:digit:]]*", "[^[:space:]]+", "[[:upper:][:digit:]]", "a{2,3}", "a{0}", "(ab){1,}", `\.`, `\\`, `\*+`, `[.]`, `[*|]+`,
	"[a-c]+|b", "b*", "b*$", "^b*", "a?b?c?", "é+", "[é日]", "[^a]", "日|é|a", ".😀", "[/]", "=a", "=", "a=*", `\/`, "[^/]+", "a.b", "a.*b", `[\n]`, "\t", `\t`,
	"(a)(b)(c)", "((a))", "()", "(^a|b$)", "(^)*a", "a($)?", "a+b+",
}

func (p *c10Profile) subject(rng *rand.Rand) string {
	var n int
	switch r := rng.Intn(100); {
	case r < 5:
		n = 0
	case r < 65:
		n = 1 + rng.Intn(8)
	case r < 94:
		n = 9 + rng.Intn(18)
	default:
		n = 27 + rng.Intn(30)
	}
	var b strings.Builder
	for i := 0; i < n; i++ {
		b.WriteString(p.units[rng.Intn(len(p.units))])
	}
	return b.String()
}

// longSubject builds a ~10 k-byte subject.
func (p *c10Profile) longSubject(rng *rand.Rand) string {
	var b strings.Builder
	for b.Len() < 10000 {
		b.WriteString(p.units[rng.Intn(len(p.units))])
	}
	return b.String()
}

var c10Specials = []float64{
	0, 1, -1, 2, 0.5, -0.5, 0.999999, 1.5, 1.999999, -0.999999, math.Copysign(0, -1),
	1e30, -1e30, math.Ldexp(1, 31), math.Ldexp(1, 31) - 1, -math.Ldexp(1, 31), math.Ldexp(1, 32), math.Ldexp(1, 32) + 1, math.Ldexp(1, 53), math.Ldexp(1, 53) + 2,
	math.Ldexp(1, 62), math.Ldexp(1, 63), math.Nextafter(math.Ldexp(1, 63), 0), -math.Ldexp(1, 63), math.Nextafter(-math.Ldexp(1, 63), math.Inf(-1)),
	math.Ldexp(1, 64), 1e19, -1e19, 1e308, math.MaxFloat64, -math.MaxFloat64, math.SmallestNonzeroFloat64, -math.SmallestNonzeroFloat64, 1e-300,
	math.Inf(1), math.Inf(-1), math.NaN(),
}

// c10NumArg draws a position/length argument for a text of L units.
func c10NumArg(rng *rand.Rand, L int) float64 {
	switch r := rng.Intn(100); {
	case r < 42:
		return float64(rng.Intn(L+7) - 3)
	case r < 62:
		fr := []float64{0.1, 0.5, 0.9, 0.999999, 1e-9}[rng.Intn(5)]
		x := float64(rng.Intn(L+5)-2) + fr
		if rng.Intn(4) == 0 {
			x = -x
		}
		return x
	case r < 72:
		return []float64{float64(L), float64(L + 1), float64(L - 1), float64(L) + 0.5, float64(L+1) + 0.5, float64(2 * L)}[rng.Intn(6)]
	}
	return c10Specials[rng.Intn(len(c10Specials))]
}

func c10IntArg(rng *rand.Rand) float64 {
	switch r := rng.Intn(100); {
	case r < 25:
		return (rng.Float64() - 0.5) * 20
	case r < 40:
		return float64(rng.Intn(2001)-1000) + []float64{0, 0.5, -0.5, 0.25, 0.999999}[rng.Intn(5)]
	case r < 60:
		// integers and half-integers around powers of two
		e := []int{31, 32, 52, 53, 62, 63, 64}[rng.Intn(7)]
		x := math.Ldexp(1, e) + float64(rng.Intn(5)-2)*math.Ldexp(1, c10Max(e-52, 0))
		if e < 52 {
			x += 0.5
		}
		if rng.Intn(2) == 0 {
			x = -x
		}
		return x
	case r < 75:
		// any finite float64 bit pattern
		for {
			x := math.Float64frombits(rng.Uint64())
			if !math.IsNaN(x) && !math.IsInf(x, 0) {
				return x
			}
		}
	case r < 85:
		// magnitudes spread over the exponent range that matters
		x := rng.Float64() * math.Pow(10, float64(rng.Intn(40)-2))
		if rng.Intn(2) == 0 {
			x = -x
		}
		return x
	}
	return c10Specials[rng.Intn(len(c10Specials))]
}

func c10Max(a, b int) int {
	if a > b {
		return a
	}
	return b
}

var c10ReplTokens = []string{"&", "&", `\&`, `\&`, `\\`, `\x`, `\`, "x", "-", "[", "]", "é", "", "ab", " "}

func c10GenRepl(rng *rand.Rand) string {
	if rng.Intn(5) == 0 {
		return "&" // the identity of the property text
	}
	var b strings.Builder
	for i, n := 0, rng.Intn(5); i < n; i++ {
		b.WriteString(c10ReplTokens[rng.Intn(len(c10ReplTokens))])
	}
	return b.String()
}

var c10Seps = []string{".", "|", "*", "+", "?", "(", ")", "[", "]", "{", "}", "^", "$", "\\", "/", ",", ":", ";", "a", "0", "-", "=", "&", "\t", "\n", "\x00", "é", "日", "😀", "\xff", "\xa9", "\xc3"}

// c10Pool is the set of patterns compiled into one driver as /regex literals/.
type c10Pool struct {
	max   int
	index map[string]int
	list  []*c10Case // the case that introduced each pattern (for its text and tree)
}

func (pl *c10Pool) add(cs *c10Case) bool {
	if _, ok := pl.index[string(cs.P)]; ok {
		return true
	}
	if len(pl.list) >= pl.max {
		return false
	}
	if pl.index == nil {
		pl.index = map[string]int{}
	}
	pl.index[string(cs.P)] = len(pl.list)
	pl.list = append(pl.list, cs)
	return true
}

// c10Gen draws one case; pool is the literal-pattern pool of the chunk being built.
func c10Gen(rng *rand.Rand, long, deep bool, pool *c10Pool) *c10Case {
	prof := &c10Profiles[rng.Intn(len(c10Profiles))]
	cs := &c10Case{Prof: prof.name}
	subject := func() string {
		if long {
			return prof.longSubject(rng)
		}
		return prof.subject(rng)
	}
	pattern := func() {
		// a third of the regex cases reuse a literal already in the driver, on a new subject
		if len(pool.list) > 0 && rng.Intn(100) < 30 {
			from := pool.list[rng.Intn(len(pool.list))]
			cs.P, cs.Tree, cs.Lit = from.P, from.Tree, true
			return
		}
		if rng.Intn(100) < 14 {
			cs.P = []byte(c10Patterns[rng.Intn(len(c10Patterns))])
		} else {
			for try := 0; ; try++ {
				depth := 2
				if deep && rng.Intn(3) == 0 {
					depth = 3
				}
				tree := m10.Gen(rng, prof.pat, depth)
				p := tree.String()
				if _, err := c10Regexp(p); err == nil {
					cs.P, cs.Tree = []byte(p), tree
					break
				}
				if try > 20 {
					cs.P, cs.Tree = []byte("a"), m10.Renumber(&m10.Node{Kind: m10.Lit, R: 'a'})
					break
				}
			}
		}
		if _, err := c10Regexp(string(cs.P)); err != nil {
			cs.P, cs.Tree = []byte("a"), nil
		}
		if _, ok := c10RegexLiteral(string(cs.P)); ok && rng.Intn(100) < 30 && pool.add(cs) {
			cs.Lit = true
		}
	}
	numstr := func(xs ...float64) {
		if rng.Intn(8) != 0 {
			return
		}
		for _, x := range xs {
			if math.IsNaN(x) || math.IsInf(x, 0) {
				return // how a string spelling of inf/nan converts is C05's question
			}
		}
		cs.NumStr = true
	}
	switch r := rng.Intn(100); {
	case r < 26:
		cs.Op = "substr"
		s := subject()
		cs.S = []byte(s)
		L := m10.NewText(s, rng.Intn(2) == 0).N()
		m := c10NumArg(rng, L)
		cs.M = c10Fmt(m)
		if rng.Intn(100) < 68 {
			n := c10NumArg(rng, L)
			cs.N = c10Fmt(n)
			numstr(m, n)
		} else {
			numstr(m)
		}
	case r < 46:
		cs.Op = "match"
		cs.S = []byte(subject())
		pattern()
	case r < 54:
		cs.Op = "index"
		s := subject()
		cs.S = []byte(s)
		switch k := rng.Intn(100); {
		case k < 60 && len(s) > 0:
			i := rng.Intn(len(s))
			j := i + 1 + rng.Intn(c10Min(len(s)-i, 4))
			cs.P = []byte(s[i:j])
		case k < 90:
			cs.P = []byte(prof.subject(rng))
			if len(cs.P) > 6 {
				cs.P = cs.P[:rng.Intn(6)]
			}
		case k < 94:
			cs.P = nil
		default:
			cs.P = []byte(s + "a")
		}
	case r < 62:
		cs.Op = "split"
		sep := c10Seps[rng.Intn(len(c10Seps))]
		var b strings.Builder
		n := rng.Intn(12)
		if long {
			n = 4000
		}
		for i := 0; i < n; i++ {
			if rng.Intn(100) < 35 {
				b.WriteString(sep)
			} else {
				b.WriteString(prof.units[rng.Intn(len(prof.units))])
			}
		}
		cs.S, cs.P = []byte(b.String()), []byte(sep)
	case r < 78:
		cs.Op = "gsub"
		cs.S = []byte(subject())
		pattern()
		cs.R = []byte(c10GenRepl(rng))
		if !cs.Lit && rng.Intn(4) == 0 {
			cs.Dollar0 = true
		}
	case r < 90:
		cs.Op = "sub"
		cs.S = []byte(subject())
		pattern()
		cs.R = []byte(c10GenRepl(rng))
		if !cs.Lit && rng.Intn(4) == 0 {
			cs.Dollar0 = true
		}
	case r < 97:
		cs.Op = "int"
		x := c10IntArg(rng)
		cs.M = c10Fmt(x)
		numstr(x)
	default:
		cs.Op = "length"
		cs.S = []byte(subject())
	}
	return cs
}

// c10Systematic is the exhaustive part: every start class x length class on three short
// subjects, and int() on every special value, its neighbours and its negation.
func c10Systematic() []*c10Case {
	var out []*c10Case
	for _, s := range []string{"hello", "aé日b😀", "\xffa\xc3"} {
		L := m10.NewText(s, true).N()
		args := append([]float64{}, c10Specials...)
		for d := -2; d <= L+2; d++ {
			args = append(args, float64(d), float64(d)+0.5)
		}
		for _, m := range args {
			out = append(out, &c10Case{Op: "substr", S: []byte(s), M: c10Fmt(m), Prof: "systematic"})
			for _, n := range args {
				out = append(out, &c10Case{Op: "substr", S: []byte(s), M: c10Fmt(m), N: c10Fmt(n), Prof: "systematic"})
			}
		}
	}
	// Hand-built trees that keep one known standard-library defect under observation in every
	// run (see c10IndependentClass): a literal branch followed by a branch starting with [Aa].
	lit := func(r rune) *m10.Node { return &m10.Node{Kind: m10.Lit, R: r} }
	set := func(rs ...rune) *m10.Node { return &m10.Node{Kind: m10.Class, Set: rs} }
	cat := func(subs ...*m10.Node) *m10.Node { return &m10.Node{Kind: m10.Cat, Subs: subs} }
	alt := func(subs ...*m10.Node) *m10.Node { return &m10.Node{Kind: m10.Alt, Subs: subs} }
	for _, tree := range []*m10.Node{
		alt(lit('A'), cat(set('A', 'a'), lit('b'))),
		alt(lit('a'), cat(set('a', 'A'), lit('b'))),
		alt(cat(lit('A'), lit('c')), cat(set('A', 'a'), lit('b'))),
		alt(cat(set('A', 'a'), lit('b')), lit('A')),
		alt(lit('A'), cat(set('A', 'a', 'b'), lit('b'))), // three members: not a case-folded literal
	} {
		m10.Renumber(tree)
		for _, s := range []string{"ab", "xab", "Ab", "A", "a", "b"} {
			p := []byte(tree.String())
			out = append(out,
				&c10Case{Op: "match", S: []byte(s), P: p, Tree: tree, Prof: "stdlib-probe"},
				&c10Case{Op: "match", S: []byte(s), P: p, Tree: tree, Lit: true, Prof: "stdlib-probe"},
				&c10Case{Op: "gsub", S: []byte(s), P: p, R: []byte("[&]"), Tree: tree, Prof: "stdlib-probe"})
		}
	}
	for _, x := range c10Specials {
		for _, y := range []float64{x, -x, math.Nextafter(x, math.Inf(1)), math.Nextafter(x, math.Inf(-1)), x + 0.5, x - 0.5} {
			out = append(out, &c10Case{Op: "int", M: c10Fmt(y), Prof: "systematic"})
		}
	}
	return out
}

// c10SmallRegexSpace is a complete small sub-space: every pattern made of one or two pieces
// (atom a, b or . with no quantifier, *, + or ?), concatenated or alternated, or one piece
// anchored with ^ or $ — against every string over {a,b} of length 0..4, for match, and for
// gsub and sub with the replacement "[&]".
func c10SmallRegexSpace() []*c10Case {
	var pieces []*m10.Node
	for _, atom := range []m10.Node{{Kind: m10.Lit, R: 'a'}, {Kind: m10.Lit, R: 'b'}, {Kind: m10.Any}} {
		for _, q := range []m10.Kind{-1, m10.Star, m10.Plus, m10.Quest} {
			a := atom
			if q < 0 {
				pieces = append(pieces, &a)
			} else {
				pieces = append(pieces, &m10.Node{Kind: q, Subs: []*m10.Node{&a}})
			}
		}
	}
	clone := func(n *m10.Node) *m10.Node {
		c := *n
		if len(n.Subs) > 0 {
			sub := *n.Subs[0]
			c.Subs = []*m10.Node{&sub}
		}
		return &c
	}
	var pats []*m10.Node
	for _, p := range pieces {
		pats = append(pats, clone(p),
			&m10.Node{Kind: m10.Cat, Subs: []*m10.Node{{Kind: m10.Bol}, clone(p)}},
			&m10.Node{Kind: m10.Cat, Subs: []*m10.Node{clone(p), {Kind: m10.Eol}}})
		for _, q := range pieces {
			pats = append(pats, &m10.Node{Kind: m10.Cat, Subs: []*m10.Node{clone(p), clone(q)}},
				&m10.Node{Kind: m10.Alt, Subs: []*m10.Node{clone(p), clone(q)}})
		}
	}
	var subjects []string
	for n := 0; n <= 4; n++ {
		for bits := 0; bits < 1<<uint(n); bits++ {
			b := make([]byte, n)
			for i := range b {
				b[i] = 'a' + byte(bits>>uint(i)&1)
			}
			subjects = append(subjects, string(b))
		}
	}
	var out []*c10Case
	for _, tree := range pats {
		m10.Renumber(tree)
		p := []byte(tree.String())
		for _, s := range subjects {
			out = append(out,
				&c10Case{Op: "match", S: []byte(s), P: p, Tree: tree, Prof: "small-space"},
				&c10Case{Op: "gsub", S: []byte(s), P: p, R: []byte("[&]"), Tree: tree, Prof: "small-space"},
				&c10Case{Op: "sub", S: []byte(s), P: p, R: []byte("[&]"), Tree: tree, Prof: "small-space"})
		}
	}
	return out
}

// ---- registration ------------------------------------------------------------------------------

func init() {
	n := func(t core.Tier, q, th int) int {
		if t == core.Thorough {
			return th
		}
		return q
	}
	const chunk = 1000
	const maxPool = 100
	core.Register(&core.Property{
		ID:    "C10",
		Level: "exploration",
		Rule: "probe cases (op, subject, pattern/needle/separator, replacement, numeric arguments) drawn from five subject profiles (ASCII, ASCII with regex " +
			"metacharacters, multi-byte, newline/NUL, invalid UTF-8; empty to 10 k bytes), a regex grammar plus hand-written patterns (as dynamic strings and as " +
			"/literals/), replacement strings over {&, \\&, \\\\, \\x, text} and positions/lengths over fractions, negatives, 0, 1, len, len+1, 2^31, 2^53, 2^63, " +
			"1e30, ±Inf, NaN; plus the full start-class x length-class product on three short subjects. Each case is delivered as data to a generic AWK driver and run " +
			"in byte mode and in character mode (1 evaluation = one case in one mode). non-trivial = distinct case with a non-empty subject and, for regex ops, at " +
			"least one match; for index a non-empty needle; for int a finite argument that is fractional or at least 2^31 in magnitude",
		Assumptions: []string{
			"in character mode a character is a well-formed UTF-8 sequence (RFC 3629) or a single byte that is part of none",
			"regular expressions are evaluated with Go's regexp ((?s) so that . matches newline, leftmost-longest); grammar patterns additionally by an independent exhaustive matcher, which has the last word on what the leftmost-longest match is",
			"an empty match directly after the previous match is not a match (the rule every AWK applies in gsub)",
			"don't-care: index(s, \"\"), int of NaN/Inf, substr with a NaN argument beyond 'a contiguous piece of s', a backslash in a replacement that is not directly before & " +
				"(POSIX reading and literal reading both accepted), split(\"\") giving no piece or one empty piece, split in character mode cutting a sequence with a stray-byte separator, " +
				"the %.0f rendering of int's result",
			"arguments reach the builtins through native Go functions (exact strings and float64s), a share of the numeric ones as decimal strings",
		},
		NBatches:   func(t core.Tier) int { return n(t, 16, 64) },
		Exhaustive: func(t core.Tier) bool { return t == core.Thorough }, // the small regex space and the substr class product
		Floors: func(t core.Tier) map[string]int {
			return map[string]int{
				"evaluations": n(t, 100000, 10000000), "distinct_nontrivial": n(t, 25000, 2500000), "small_regex_space_cases": n(t, 7000, 30132),
				"op_variants": 17, "op_x_subject": 30, "substr_start_classes": 18, "substr_length_classes": 18, "substr_start_x_length": 200,
				"regex_features": 15, "match_outcomes": 12, "replacement_tokens": 7, "gsub_outcomes": 5, "sub_outcomes": 5, "split_separators": 18,
				"split_outcomes": 5, "index_outcomes": 5, "int_classes": 11,
				"longest_differs_from_first": n(t, 300, 10000), "longest_differs_from_first_literal": n(t, 60, 3000), "dot_newline_matters": n(t, 50, 2000),
				"independent_matcher_checks": n(t, 20000, 1000000), "ascii_cross_mode_comparisons": n(t, 10000, 500000), "cases_where_modes_must_differ": n(t, 3000, 150000),
				"sub_with_several_candidates": n(t, 1000, 50000),
			}
		},
		Run: func(c *core.Ctx) {
			rng := c.Rand("gen")
			// systematic cases, partitioned over the batches
			var sys []*c10Case
			for i, cs := range c10Systematic() {
				if c.Mine(i) {
					sys = append(sys, cs)
				}
			}
			// the small regex space: all of it in the thorough tier, a seed-chosen quarter in quick
			for i, cs := range c10SmallRegexSpace() {
				if c.Mine(i/3) && (c.Tier == core.Thorough || (i/3/c.NBatches)%4 == int(c.Seed&3)) {
					sys = append(sys, cs)
					c.Count("small_regex_space_cases", 1)
				}
			}
			for len(sys) > 0 {
				k := c10Min(chunk, len(sys))
				c10CheckCases(c, sys[:k], true)
				sys = sys[k:]
			}
			total := n(c.Tier, 80000, 6000000) / c.NBatches
			for done := 0; done < total; done += chunk {
				pool := &c10Pool{max: maxPool}
				cases := make([]*c10Case, 0, chunk)
				for i := 0; i < chunk && done+i < total; i++ {
					cases = append(cases, c10Gen(rng, i%400 == 399, c.Tier == core.Thorough, pool))
				}
				c10CheckCases(c, cases, true)
			}
		},
		Replay: func(c *core.Ctx, raw json.RawMessage) {
			var w c10Witness
			if json.Unmarshal(raw, &w) != nil || w.Case == nil {
				// a process-fatal witness records the bare case
				var cs c10Case
				if json.Unmarshal(raw, &cs) != nil || cs.Op == "" {
					fmt.Println("cannot decode the recorded case")
					return
				}
				w.Case = &cs
			}
			if w.Case.Tree != nil {
				m10.Renumber(w.Case.Tree)
			}
			fmt.Printf("case: %s\n", w.Case.key())
			c10CheckCases(c, []*c10Case{w.Case}, false)
		},
	})
}
