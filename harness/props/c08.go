package props

// C08 — CSV/TSV input follows RFC 4180 (lenient quotes); $0 is the record's own text; a leading
// BOM is ignored; nothing depends on chunking; CSV/TSV output reads back to the same fields.
//
// Readers: "main" (pattern-action loop), "getline" (BEGIN loop of plain getline), "assign"
// ({ $0 = $0 } first: fields re-derived from the text of $0, judged where that text is one record).
//
// Monitors (all run the real interpreter):
//   csv-oracle        every record's NR/NF/fields/$0 (and FIELDS / @"name" in header mode) against
//                     encoding/csv (LazyQuotes, FieldsPerRecord=-1) on the same bytes, $0 against
//                     the record's byte range from Reader.InputOffset
//   chunk-dependence  the same input delivered through a chunk-controlled Stdin in other
//                     partitions must give the identical trace
//   roundtrip         rows of CR-free byte strings printed in CSV/TSV output mode (print f1..fn,
//                     or $0 rebuilt by field assignment) read back in input mode, same separator
//   getline           getline forms in CSV mode: "getline v [<file]" must leave the current
//                     record alone, "getline <file" must install the file's record
//   split             two-argument split() in CSV mode against the oracle's fields of that text
//   crash             a Go panic or an unexpected runtime error while reading

import (
	"encoding/json"
	"fmt"
	"math/rand"
	"os"
	"path/filepath"
	"reflect"
	"strings"

	"github.com/benhoyt/goawk/interp"
	"github.com/benhoyt/goawk/parser"

	cm "verifharness/c08csv"
	"verifharness/core"
	"verifharness/run"
)

// ---- the case (replayable) ---------------------------------------------------------------------

type c08Case struct {
	Family string     `json:"family"` // tiny | grammar | edge64k | files | roundtrip | getline | split
	D      cm.Dialect `json:"dialect"`
	Input  []byte     `json:"input,omitempty"`  // base64 in JSON
	Files  [][]byte   `json:"files,omitempty"`  // files family: contents of the ARGV files, in order
	Reader string     `json:"reader,omitempty"` // main (pattern-action loop) | getline (BEGIN loop of plain getline)
	// Delivery plan for Stdin: all (every partition) | std (whole, 1-byte, single cuts, random) |
	// edge (whole + cuts around Interesting) | whole
	Plan        string `json:"plan,omitempty"`
	PlanSeed    int64  `json:"plan_seed,omitempty"`
	Interesting []int  `json:"interesting,omitempty"`
	// roundtrip
	Rows   [][][]byte `json:"rows,omitempty"`
	Writer string     `json:"writer,omitempty"` // print | rebuild
	CRLF   bool       `json:"crlf,omitempty"`   // NewlineOutput = CRLF
	// getline family
	Form string `json:"form,omitempty"` // var-main | var-file | file
	Aux  []byte `json:"aux,omitempty"`  // content of the auxiliary file
	// filled in when a violation is reported: the partition (piece sizes) that showed it
	Sizes []int  `json:"sizes,omitempty"`
	Note  string `json:"note,omitempty"`
}

// ---- observation: what the AWK program saw -----------------------------------------------------

type c08Rec struct {
	NR, FNR, NF int
	File        string
	D0          string
	Fields      []string
	Hdr         []string // FIELDS[1..] at that record
	Named       []string // @FIELDS[i] at that record
	Ret         int      // getline family: return value
	Var         string   // getline family: the variable read into
}

type c08Trace struct {
	Recs  []c08Rec
	Err   string
	Panic string
}

func (t c08Trace) failed() bool { return t.Err != "" || t.Panic != "" }

// c08Env holds the parsed observer programs of one child process and the trace being built.
type c08Env struct {
	cur   *c08Trace
	funcs map[string]any
	progs map[string]*parser.Program
	// inputs of the writer/split programs (read through Go functions, so any byte survives)
	rows [][]string
	arg  string
}

const c08Dump = `function dump(   i) {
	rec(NR, FNR, NF, FILENAME, $0)
	for (i = 1; i <= NF; i++) fld($i)
	for (i = 1; i in FIELDS; i++) hdr(FIELDS[i], @FIELDS[i])
}
`

var c08Sources = map[string]string{
	"main":    c08Dump + `{ dump() }`,
	"getline": c08Dump + `BEGIN { while ((getline) > 0) dump() }`,
	// $0 assigned in CSV input mode: the fields are re-derived from the text (ensureFields)
	"assign": c08Dump + `{ $0 = $0; dump() }`,
	// write side of the round trip: rows come from nrows()/nf(r)/getf(r,i)
	"print": `BEGIN {
	for (r = 1; r <= nrows(); r++) {
		n = nf(r)
		if (n == 1) print getf(r,1)
		else if (n == 2) print getf(r,1), getf(r,2)
		else if (n == 3) print getf(r,1), getf(r,2), getf(r,3)
		else if (n == 4) print getf(r,1), getf(r,2), getf(r,3), getf(r,4)
		else if (n == 5) print getf(r,1), getf(r,2), getf(r,3), getf(r,4), getf(r,5)
	}
}`,
	"rebuild": `BEGIN {
	for (r = 1; r <= nrows(); r++) {
		$0 = ""
		n = nf(r)
		for (i = 1; i <= n; i++) $i = getf(r, i)
		print
	}
}`,
	// getline forms in CSV mode (AUX is the auxiliary file name)
	"var-main": c08Dump + `{ dump(); r = (getline v); got(r, v); dump() }`,
	"var-file": c08Dump + `{ dump(); r = (getline v < AUX); got(r, v); dump() }`,
	"file":     c08Dump + `{ dump(); r = (getline < AUX); got(r, ""); dump() }`,
	// the same with the getline executed BEFORE the first look at NF or a field of the record
	// (fields are produced lazily: the first look must still show the current record's)
	"var-main-lazy": c08Dump + `{ r = (getline v); dump(); got(r, v); dump() }`,
	"var-file-lazy": c08Dump + `{ r = (getline v < AUX); dump(); got(r, v); dump() }`,
	"split":    `BEGIN { n = split(sarg(), arr); rec(n, 0, 0, "", ""); for (i = 1; i <= n; i++) fld(arr[i]) }`,
}

func newC08Env() (*c08Env, error) {
	e := &c08Env{progs: map[string]*parser.Program{}}
	last := func() *c08Rec {
		if len(e.cur.Recs) == 0 {
			e.cur.Recs = append(e.cur.Recs, c08Rec{})
		}
		return &e.cur.Recs[len(e.cur.Recs)-1]
	}
	e.funcs = map[string]any{
		"rec": func(nr, fnr, nf int, file, d0 string) {
			e.cur.Recs = append(e.cur.Recs, c08Rec{NR: nr, FNR: fnr, NF: nf, File: file, D0: d0})
		},
		"fld": func(s string) { r := last(); r.Fields = append(r.Fields, s) },
		"hdr": func(name, val string) { r := last(); r.Hdr = append(r.Hdr, name); r.Named = append(r.Named, val) },
		"got": func(ret int, v string) {
			e.cur.Recs = append(e.cur.Recs, c08Rec{NR: -1, Ret: ret, Var: v})
		},
		"nrows": func() int { return len(e.rows) },
		"nf":    func(r int) int { return len(e.rows[r-1]) },
		"getf":  func(r, i int) string { return e.rows[r-1][i-1] },
		"sarg":  func() string { return e.arg },
	}
	// write-side variants that first write in ANOTHER output mode (to /dev/null and through a $0
	// rebuild) and then switch to the mode under test: nothing of the first mode may stick
	warm := "BEGIN {\n\twant = OUTPUTMODE\n\tOUTPUTMODE = (want ~ /^tsv/) ? \"csv separator=;\" : \"tsv\"\n\tprint \"warm\", \"u p\" > \"/dev/null\"\n\t$0 = \"\"; $1 = \"w\"; $2 = \"u\"; wu = $0\n\tOUTPUTMODE = want\n"
	for _, w := range []string{"print", "rebuild"} {
		c08Sources[w+"-sw"] = strings.Replace(c08Sources[w], "BEGIN {\n", warm, 1)
	}
	for name, src := range c08Sources {
		prog, err, pm := run.Parse(src, e.funcs)
		if err != nil || pm != "" {
			return nil, fmt.Errorf("observer program %s does not parse: %v %s", name, err, pm)
		}
		e.progs[name] = prog
	}
	return e, nil
}

func c08Mode(m string) interp.IOMode {
	if m == "tsv" {
		return interp.TSVMode
	}
	return interp.CSVMode
}

// inputConfig sets the input dialect either through Config or through the INPUTMODE string.
func c08InputConfig(cfg *interp.Config, d cm.Dialect) {
	if d.Via == "var" {
		if s, ok := d.ModeString(); ok {
			cfg.Vars = append(cfg.Vars, "INPUTMODE", s)
			return
		}
	}
	cfg.InputMode = c08Mode(d.Mode)
	cfg.CSVInput = interp.CSVInputConfig{Separator: d.Sep, Comment: d.Comment, Header: d.Header}
}

// read runs an observer program over stdin (delivered in the given partition) and/or files.
func (e *c08Env) read(progName string, d cm.Dialect, stdin []byte, sizes []int, args []string, vars []string) (c08Trace, int) {
	var tr c08Trace
	e.cur = &tr
	cr := cm.NewChunkReader(stdin, sizes)
	cfg := &interp.Config{Stdin: cr, Args: args, Funcs: e.funcs, Vars: append([]string(nil), vars...)}
	c08InputConfig(cfg, d)
	out := run.Exec(e.progs[progName], cfg, run.Opts{StepLimit: 50_000_000})
	tr.Err, tr.Panic = out.Err, out.Panic
	if out.StepLimit {
		tr.Err = "step limit reached: " + out.Err
	}
	if len(out.Faults) > 0 {
		tr.Err = core.JoinNonEmpty("; ", tr.Err, "stack faults: "+strings.Join(out.Faults, ";"))
	}
	e.cur = nil
	return tr, cr.Reads
}

// ---- expectation -------------------------------------------------------------------------------

type c08Exp struct {
	cm.ExpRec
	NR, FNR   int
	FileIdx   int
	Header    []string // header row in force (header mode), else nil
	FirstData bool     // first token-returning record of its file
	FileBOM   bool     // its file starts with a byte-order mark
}

// c08Expect is the oracle's view of reading the given inputs in order.  leakMask is 0 for the
// specification; bit i set means "input i read WITHOUT ignoring its byte-order mark", which is
// used only to classify an observed disagreement as the known BOM leak.
func c08Expect(files [][]byte, d cm.Dialect, leakMask uint) ([]c08Exp, error) {
	var out []c08Exp
	nr := 0
	for fi, in := range files {
		recs, err := cm.Model(in, d.SepRune(), d.Comment, leakMask&(1<<uint(fi)) == 0)
		if err != nil {
			return nil, err
		}
		var hdr []string
		if d.Header {
			if len(recs) == 0 {
				continue
			}
			hdr = recs[0].Fields
			if hdr == nil {
				hdr = []string{}
			}
			recs = recs[1:]
		}
		for i, r := range recs {
			nr++
			out = append(out, c08Exp{ExpRec: r, NR: nr, FNR: i + 1, FileIdx: fi, Header: hdr,
				FirstData: i == 0 && !d.Header, FileBOM: cm.HasBOM(in)})
		}
	}
	return out, nil
}

// c08Disc is one disagreement between a trace and an expectation.
type c08Disc struct {
	Aspect   string // crash | error | count | nr | nf | fields | dollar0 | header | named
	Class    string
	Summary  string
	Expected string
	Observed string
}

const (
	c08ClassBOMLeak    = "bom:leaks-into-first-record-when-it-is-not-complete-in-the-first-read"
	c08ClassBOMOverrun = "bom:first-record-dollar0-overruns-by-the-skipped-bytes"
	c08ClassBOMPanic   = "bom:first-record-dollar0-slice-out-of-buffer"
	c08ClassLoneCR     = "dollar0:every-cr-removed-when-record-has-quoted-crlf"
	c08ClassEmptyRow   = "roundtrip:single-empty-field-row-written-as-blank-line"
	c08ClassClobber    = "getline-var:overwrites-fields-of-current-record"
	c08ClassReparse    = "getline:fields-reparsed-from-dollar0-text"
)

func c08Q(s string) string { return core.Q(s) }

// c08Violation records a witness.  The runner keeps at most 200 witnesses per batch, and the
// known BOM defects fire on thousands of inputs, so a batch keeps three witnesses per
// (kind, class) with a non-empty class and counts the rest; unclassified ones are all kept.
var c08Witnesses = map[string]int{}

func c08Violation(c *core.Ctx, kind, class, summary, expected, observed string, caseV any) {
	c.Count("witnesses "+kind+" "+class, 1)
	if class != "" && !c.Replay {
		c08Witnesses[kind+"|"+class]++
		if c08Witnesses[kind+"|"+class] > 3 {
			return
		}
	}
	c.Violation(kind, class, summary, expected, observed, caseV)
}

// c08Compare lists the disagreements of a trace (records made by rec/fld/hdr) with exp.
func c08Compare(exp []c08Exp, tr c08Trace, fileNames []string, d cm.Dialect, reader string) []c08Disc {
	reparse := reader == "getline"
	var ds []c08Disc
	if tr.Panic != "" {
		return []c08Disc{{Aspect: "crash", Summary: "panic while reading: " + run.PanicSite(tr.Panic), Expected: "no panic", Observed: tr.Panic}}
	}
	if tr.Err != "" {
		return []c08Disc{{Aspect: "error", Summary: "unexpected error while reading: " + tr.Err, Expected: "no error", Observed: tr.Err}}
	}
	n := len(exp)
	if len(tr.Recs) != n {
		ds = append(ds, c08Disc{Aspect: "count", Summary: fmt.Sprintf("%d records read, the oracle has %d", len(tr.Recs), n),
			Expected: c08ShowExp(exp), Observed: c08ShowTrace(tr)})
		if len(tr.Recs) < n {
			n = len(tr.Recs)
		}
	}
	seen := map[string]bool{}
	add := func(d c08Disc) {
		if !seen[d.Aspect+"|"+d.Class] { // one per (aspect, class) is enough for a case
			seen[d.Aspect+"|"+d.Class] = true
			ds = append(ds, d)
		}
	}
	for i := 0; i < n; i++ {
		x, o := exp[i], tr.Recs[i]
		where := fmt.Sprintf("record %d (bytes [%d,%d) of input %d)", i+1, x.Start, x.End, x.FileIdx)
		if len(ds) == 0 && (o.NR != x.NR || o.FNR != x.FNR) {
			add(c08Disc{Aspect: "nr", Summary: where + fmt.Sprintf(": NR=%d FNR=%d", o.NR, o.FNR), Expected: fmt.Sprintf("NR=%d FNR=%d", x.NR, x.FNR), Observed: fmt.Sprintf("NR=%d FNR=%d", o.NR, o.FNR)})
		}
		if fileNames != nil && o.File != fileNames[x.FileIdx] {
			add(c08Disc{Aspect: "nr", Class: "", Summary: where + ": FILENAME " + c08Q(o.File), Expected: fileNames[x.FileIdx], Observed: o.File})
		}
		skipFields := false
		if reader == "assign" {
			// The program did $0 = $0: the fields are now those of the TEXT of $0 read as a
			// record.  That is pinned down only where the text is exactly one record for the
			// oracle (no BOM in front, no skipped line, nothing left over); else don't-care.
			recs, err := cm.Model([]byte(o.D0), d.SepRune(), d.Comment, false)
			if err == nil && len(recs) == 1 && recs[0].Text == o.D0 && !cm.HasBOM([]byte(o.D0)) {
				x.Fields = recs[0].Fields
			} else {
				skipFields = true
			}
		}
		if !skipFields && (o.NF != len(x.Fields) || !cm.EqualFields(o.Fields, x.Fields)) {
			asp := "fields"
			if o.NF != len(o.Fields) {
				asp = "nf"
			}
			class := ""
			if reparse && asp == "fields" && c08IsReparse(o, d) {
				class = c08ClassReparse
			}
			add(c08Disc{Aspect: asp, Class: class, Summary: where + fmt.Sprintf(": NF=%d fields %q, encoding/csv gives %d fields %q", o.NF, o.Fields, len(x.Fields), x.Fields),
				Expected: fmt.Sprintf("%q", x.Fields), Observed: fmt.Sprintf("NF=%d %q", o.NF, o.Fields)})
		}
		if !x.Accepts(o.D0) {
			d := c08Disc{Aspect: "dollar0", Summary: where + ": $0=" + c08Q(o.D0) + ", the record's own text is " + c08Q(x.Body()),
				Expected: fmt.Sprintf("one of %q", x.AcceptedDollar0()), Observed: fmt.Sprintf("%q", o.D0)}
			d.Class = c08Dollar0Class(x, o.D0)
			add(d)
		}
		fieldsOK := !skipFields && o.NF == len(x.Fields) && cm.EqualFields(o.Fields, x.Fields)
		if x.Header != nil || len(o.Hdr) > 0 {
			if !cm.EqualFields(o.Hdr, x.Header) {
				add(c08Disc{Aspect: "header", Summary: where + fmt.Sprintf(": FIELDS=%q, header row of this file is %q", o.Hdr, x.Header),
					Expected: fmt.Sprintf("%q", x.Header), Observed: fmt.Sprintf("%q", o.Hdr)})
			} else if fieldsOK { // @name reads the fields: judged only where those are right
				for k, name := range x.Header {
					// @"name" must be the field of one of the columns carrying that name
					// (which one, when a name repeats, is not stated anywhere: don't-care).
					ok := false
					var allowed []string
					for j, other := range x.Header {
						if other == name {
							v := ""
							if j < len(x.Fields) {
								v = x.Fields[j]
							}
							allowed = append(allowed, v)
							if v == o.Named[k] {
								ok = true
							}
						}
					}
					if !ok {
						add(c08Disc{Aspect: "named", Summary: where + fmt.Sprintf(": @%s = %s", c08Q(name), c08Q(o.Named[k])),
							Expected: fmt.Sprintf("one of %q", allowed), Observed: fmt.Sprintf("%q", o.Named[k])})
					}
				}
			}
		}
	}
	return ds
}

// c08IsReparse reports whether the observed fields are what reading the observed $0 TEXT as a
// CSV input of its own gives (plain getline in CSV mode derives the fields that way instead
// of keeping the fields of the record it read).
func c08IsReparse(o c08Rec, d cm.Dialect) bool {
	for _, strip := range []bool{false, true} {
		recs, err := cm.Model([]byte(o.D0), d.SepRune(), d.Comment, strip)
		if err == nil && len(recs) >= 1 && cm.EqualFields(recs[0].Fields, o.Fields) {
			return true
		}
		if err == nil && len(recs) == 0 && len(o.Fields) == 0 && o.NF == 0 {
			return true // e.g. $0 = "\r": read alone, the lone CR before end of input is dropped
		}
	}
	return false
}

// c08Dollar0Class recognises the two known shapes of a wrong $0 (narrowly).
func c08Dollar0Class(x c08Exp, got string) string {
	// (a) BOM file, first record handed to the program: the token range is computed on the
	// data after the 3 skipped bytes but with an end offset that includes them, so $0 is the
	// right text (terminator included) followed by up to 3 further bytes of the buffer.
	if x.FileBOM && x.FirstData {
		for _, t := range []string{x.Text, strings.ReplaceAll(x.Text, "\r", "")} {
			if strings.HasPrefix(got, t) && len(got) > len(x.Body()) && len(got) <= len(t)+len(cm.BOM) {
				return c08ClassBOMOverrun
			}
			// overrun that ends exactly in a newline has that newline trimmed
			if strings.HasPrefix(got+"\n", t) && len(got) > len(strings.TrimRight(t, "\r\n")) && len(got) <= len(t)+len(cm.BOM) {
				return c08ClassBOMOverrun
			}
		}
	}
	// (b) a record with a CRLF inside a quoted field: the whole token loses every CR, not
	// only the CRs of those CRLFs.
	b := x.Body()
	// (the CRLF may also be the one that ends the last line of a quote left open)
	if strings.Contains(x.Text, "\r\n") && strings.Contains(x.Text, `"`) && got == strings.ReplaceAll(b, "\r", "") {
		return c08ClassLoneCR
	}
	return ""
}

func c08ShowExp(exp []c08Exp) string {
	var sb strings.Builder
	for _, x := range exp {
		sb.WriteString(core.Clip(fmt.Sprintf("NR=%d %q $0=%q", x.NR, x.Fields, x.Body()), 1200) + "\n")
	}
	return sb.String()
}

func c08ShowTrace(tr c08Trace) string {
	var sb strings.Builder
	for _, o := range tr.Recs {
		if o.NR == -1 {
			fmt.Fprintf(&sb, "getline ret=%d var=%q\n", o.Ret, o.Var)
			continue
		}
		line := fmt.Sprintf("NR=%d FNR=%d NF=%d %q $0=%q", o.NR, o.FNR, o.NF, o.Fields, o.D0)
		if len(o.Hdr) > 0 {
			line += fmt.Sprintf(" FIELDS=%q @=%q", o.Hdr, o.Named)
		}
		sb.WriteString(core.Clip(line, 1200) + "\n")
	}
	if tr.Err != "" {
		sb.WriteString("error: " + tr.Err + "\n")
	}
	if tr.Panic != "" {
		sb.WriteString("panic: " + tr.Panic + "\n")
	}
	return sb.String()
}

// c08Judge compares a reading of the inputs with the oracle and classifies what differs.
func c08Judge(files [][]byte, d cm.Dialect, tr c08Trace, fileNames []string, reader string) ([]c08Disc, error) {
	exp, err := c08Expect(files, d, 0)
	if err != nil {
		return nil, err
	}
	ds := c08Compare(exp, tr, fileNames, d, reader)
	if len(ds) == 0 {
		return nil, nil
	}
	anyBOM := false
	for _, f := range files {
		anyBOM = anyBOM || cm.HasBOM(f)
	}
	if tr.Panic != "" {
		if anyBOM && strings.Contains(tr.Panic, "slice bounds out of range") && strings.Contains(tr.Panic, "csvSplitter") {
			ds[0].Class = c08ClassBOMPanic
		}
		return ds, nil
	}
	if anyBOM && tr.Err == "" {
		// Is the trace exactly what a reader that does NOT ignore the mark of some of the
		// inputs would produce?  (Each input leaks or not on its own: it depends on whether
		// its first record was complete in the first read.)
		for mask := uint(1); mask < 1<<uint(len(files)); mask++ {
			skip := false
			for i, f := range files {
				if mask&(1<<uint(i)) != 0 && !cm.HasBOM(f) {
					skip = true
				}
			}
			if skip {
				continue
			}
			leak, err := c08Expect(files, d, mask)
			if err != nil {
				continue
			}
			dl := c08Compare(leak, tr, fileNames, d, reader)
			allKnownShape := true
			for _, x := range dl {
				if x.Class == "" {
					allKnownShape = false
				}
			}
			if allKnownShape {
				first := ds[0]
				out := []c08Disc{{Aspect: first.Aspect, Class: c08ClassBOMLeak,
					Summary:  "the byte-order mark was treated as data (trace equals the oracle's reading of the unstripped bytes); " + first.Summary,
					Expected: first.Expected, Observed: first.Observed}}
				return append(out, dl...), nil
			}
		}
	}
	return ds, nil
}

// ---- reading one input under a delivery plan ---------------------------------------------------

type c08Stats struct {
	execs       int
	partitions  int
	cutInside   int
	cutKinds    map[string]bool
	whole       c08Trace
	wholeDiscs  []c08Disc
	violations  int
	modelFailed bool
}

// cutKind says what a cut offset falls into (evidence: the non-trivial partitions).
func c08CutKind(in []byte, exp []c08Exp, d cm.Dialect, cut int) string {
	if cm.HasBOM(in) && cut < len(cm.BOM) {
		return "inside-bom"
	}
	if cut > 0 && cut < len(in) && in[cut-1] == '\r' && in[cut] == '\n' {
		return "inside-crlf"
	}
	if cut > 0 && cut < len(in) && in[cut-1] == '"' && in[cut] == '"' {
		return "between-two-quotes"
	}
	sep := string(d.SepRune())
	if len(sep) > 1 {
		for k := 1; k < len(sep); k++ {
			if cut-k >= 0 && cut-k+len(sep) <= len(in) && string(in[cut-k:cut-k+len(sep)]) == sep {
				return "inside-multibyte-separator"
			}
		}
	}
	for _, x := range exp {
		if cut == x.End {
			return "at-record-boundary"
		}
		if cut > x.Start && cut < x.End {
			if strings.Contains(x.Body(), "\n") {
				return "inside-multiline-record"
			}
			if cut == x.End-len(x.Terminator()) {
				return "before-terminator"
			}
			if strings.Contains(x.Text, `"`) {
				return "inside-record-with-quotes"
			}
			return "inside-plain-record"
		}
	}
	return "inside-skipped-lines"
}

// c08ReadCase runs cs.Input through the delivery plan and reports violations.
func c08ReadCase(c *core.Ctx, e *c08Env, cs c08Case, verbose bool) c08Stats {
	st := c08Stats{cutKinds: map[string]bool{}}
	files := [][]byte{cs.Input}
	reader := cs.Reader
	if reader == "" {
		reader = "main"
	}
	exp, err := c08Expect(files, cs.D, 0)
	if err != nil {
		st.modelFailed = true
		c.Inconclusive("model: " + err.Error())
		return st
	}
	report := func(kind string, d c08Disc, sizes []int) {
		w := cs
		w.Sizes = sizes
		st.violations++
		c08Violation(c, kind, d.Class, fmt.Sprintf("[%s %s reader=%s sizes=%v] %s", cs.Family, cs.D.Key(), reader, sizes, d.Summary), d.Expected, d.Observed, w)
	}
	judge := func(tr c08Trace) []c08Disc {
		ds, err := c08Judge(files, cs.D, tr, nil, reader)
		if err != nil {
			return []c08Disc{{Aspect: "model", Summary: err.Error()}}
		}
		return ds
	}
	// whole delivery first: the oracle comparison
	whole, _ := e.read(reader, cs.D, cs.Input, nil, nil, nil)
	st.execs++
	st.whole = whole
	st.wholeDiscs = judge(whole)
	if verbose {
		fmt.Printf("input: %s\ndialect: %s reader=%s\noracle:\n%strace (whole delivery):\n%s", c08Q(string(cs.Input)), cs.D.Key(), reader, c08ShowExp(exp), c08ShowTrace(whole))
	}
	for _, d := range st.wholeDiscs {
		kind := "csv-oracle"
		if d.Aspect == "crash" || d.Aspect == "error" {
			kind = "crash"
		}
		report(kind, d, nil)
	}
	// the other partitions: metamorphic comparison with the whole delivery
	reported := map[string]bool{}
	try := func(sizes []int) {
		if len(sizes) == 0 {
			return
		}
		st.partitions++
		inside := false
		for _, cut := range cm.Cuts(sizes, len(cs.Input)) {
			k := c08CutKind(cs.Input, exp, cs.D, cut)
			st.cutKinds[k] = true
			if k != "at-record-boundary" && k != "inside-plain-record" {
				inside = true
			}
		}
		if inside {
			st.cutInside++
		}
		tr, _ := e.read(reader, cs.D, cs.Input, sizes, nil, nil)
		st.execs++
		if reflect.DeepEqual(tr, whole) {
			return
		}
		// classify by what the chunked run (else the whole run) gets wrong against the oracle
		class := ""
		ds := judge(tr)
		if len(ds) == 0 {
			ds = st.wholeDiscs
		}
		if len(ds) > 0 {
			class = ds[0].Class
			for _, d := range ds { // several known defects can meet in one trace: name the BOM one
				if strings.HasPrefix(d.Class, "bom:") {
					class = d.Class
					break
				}
			}
		}
		if reported[class] {
			st.violations++ // counted, one witness per class and case is enough
			c.Count("chunk_dependence_extra_witnesses", 1)
			return
		}
		reported[class] = true
		if verbose {
			fmt.Printf("trace (sizes=%v):\n%s", sizes, c08ShowTrace(tr))
		}
		report("chunk-dependence", c08Disc{Class: class,
			Summary:  fmt.Sprintf("delivery in pieces %v gives a different trace than one read", sizes),
			Expected: c08ShowTrace(whole), Observed: c08ShowTrace(tr)}, append([]int(nil), sizes...))
	}
	n := len(cs.Input)
	switch cs.Plan {
	case "all":
		cm.AllPartitions(n, try)
	case "std":
		var interesting []int
		for _, x := range exp {
			interesting = append(interesting, x.Start, x.End)
		}
		maxSingle, nRandom := 160, 6
		rng := rand.New(rand.NewSource(cs.PlanSeed))
		if n > 2000 {
			// one byte at a time is quadratic in the scanner; skip it for long inputs
			cm.StdPartitions(n, 0, nil, 0, rng, func(s []int) {
				if len(s) == 0 {
					try(s)
				}
			})
		}
		cm.StdPartitions(n, maxSingle, interesting, nRandom, rng, func(s []int) {
			if n > 2000 && len(s) == n-1 {
				return
			}
			try(s)
		})
	case "edge":
		seen := map[int]bool{}
		for _, o := range cs.Interesting {
			for dlt := -3; dlt <= 3; dlt++ {
				if k := o + dlt; k >= 1 && k < n && !seen[k] {
					seen[k] = true
					try([]int{k})
				}
			}
		}
		// three pieces around the buffer edge, and a small first read
		try([]int{cm.EdgeSize - 1, 2})
		try([]int{1})
		try([]int{4, cm.EdgeSize - 4})
		try([]int{7})
	}
	return st
}

// ---- files family: header re-read per file, BOM per file ---------------------------------------

func c08FilesCase(c *core.Ctx, e *c08Env, cs c08Case, verbose bool) int {
	dir := c.WorkDir()
	var names []string
	for i, content := range cs.Files {
		p := filepath.Join(dir, fmt.Sprintf("in%d.csv", i))
		if err := os.WriteFile(p, content, 0o644); err != nil {
			c.Inconclusive("write input file: " + err.Error())
			return 0
		}
		names = append(names, p)
	}
	tr, _ := e.read("main", cs.D, nil, nil, names, nil)
	ds, err := c08Judge(cs.Files, cs.D, tr, names, "main")
	if err != nil {
		c.Inconclusive("model: " + err.Error())
		return 1
	}
	if verbose {
		exp, _ := c08Expect(cs.Files, cs.D, 0)
		fmt.Printf("files: %q\ndialect: %s\noracle:\n%strace:\n%s", cs.Files, cs.D.Key(), c08ShowExp(exp), c08ShowTrace(tr))
	}
	for _, d := range ds {
		kind := "csv-oracle"
		if d.Aspect == "crash" || d.Aspect == "error" {
			kind = "crash"
		}
		c08Violation(c, kind, d.Class, fmt.Sprintf("[files %s] %s", cs.D.Key(), d.Summary), d.Expected, d.Observed, cs)
	}
	return 1
}

// ---- round trip --------------------------------------------------------------------------------

func c08Rows(cs c08Case) [][]string {
	rows := make([][]string, len(cs.Rows))
	for i, r := range cs.Rows {
		rows[i] = make([]string, len(r))
		for j, f := range r {
			rows[i][j] = string(f)
		}
	}
	return rows
}

func c08RowsBytes(rows [][]string) [][][]byte {
	out := make([][][]byte, len(rows))
	for i, r := range rows {
		out[i] = make([][]byte, len(r))
		for j, f := range r {
			out[i][j] = []byte(f)
		}
	}
	return out
}

func c08ShowRows(rows [][]string) string {
	var sb strings.Builder
	for _, r := range rows {
		fmt.Fprintf(&sb, "%q\n", r)
	}
	return sb.String()
}

// c08RoundTrip writes the rows with the real print / $0 rebuild and reads the bytes back.
func c08RoundTrip(c *core.Ctx, e *c08Env, cs c08Case, verbose bool) (execs int) {
	rows := c08Rows(cs)
	e.rows = rows
	cfg := &interp.Config{Stdin: strings.NewReader(""), Funcs: e.funcs,
		OutputMode: c08Mode(cs.D.Mode), CSVOutput: interp.CSVOutputConfig{Separator: cs.D.Sep}}
	if cs.CRLF {
		cfg.NewlineOutput = interp.CRLFNewlineMode
	} else {
		cfg.NewlineOutput = interp.RawNewlineMode
	}
	writer := cs.Writer
	if sep := cs.D.SepRune(); strings.HasSuffix(writer, "-sw") && (sep == ' ' || sep == '\v' || sep == '\f' || sep == '\n' || sep == '\r' || (sep == '\t' && cs.D.Mode != "tsv")) {
		// the switching writers restore the mode by assigning OUTPUTMODE its own earlier value; the
		// text form of a mode cannot carry a blank separator (not a CSV matter): plain writer
		writer = strings.TrimSuffix(writer, "-sw")
	}
	out := run.Exec(e.progs[writer], cfg, run.Opts{})
	execs++
	if out.Panic != "" || out.Err != "" {
		c08Violation(c, "crash", "", fmt.Sprintf("[roundtrip %s writer=%s] writing failed: %s%s", cs.D.Key(), cs.Writer, out.Err, run.PanicSite(out.Panic)), "rows written", out.Err+out.Panic, cs)
		return
	}
	written := []byte(out.Stdout)
	rd := cs.D
	rd.Comment, rd.Header, rd.Via = 0, false, "config"
	want := c08ShowRows(rows)
	var wholeRows [][]string
	check := func(sizes []int) {
		tr, _ := e.read("main", rd, written, sizes, nil, nil)
		execs++
		var got [][]string
		for _, r := range tr.Recs {
			f := r.Fields
			if f == nil {
				f = []string{}
			}
			got = append(got, f)
		}
		if sizes == nil {
			wholeRows = got
			if verbose {
				fmt.Printf("rows:\n%swritten bytes: %s\nread back:\n%s%s", want, c08Q(string(written)), c08ShowRows(got), tr.Err+tr.Panic)
			}
		}
		if tr.failed() {
			c08Violation(c, "crash", "", fmt.Sprintf("[roundtrip %s] reading back failed: %s%s", cs.D.Key(), tr.Err, run.PanicSite(tr.Panic)), "rows read", tr.Err+tr.Panic, cs)
			return
		}
		if sizes != nil {
			if !reflect.DeepEqual(got, wholeRows) {
				w := cs
				w.Sizes = sizes
				c08Violation(c, "chunk-dependence", "", fmt.Sprintf("[roundtrip %s] reading the written bytes in pieces %v gives other rows", cs.D.Key(), sizes), c08ShowRows(wholeRows), c08ShowRows(got), w)
			}
			return
		}
		if c08ShowRows(got) == want {
			return
		}
		class := ""
		// known shape: exactly the rows [""] are missing, everything else is right
		var kept [][]string
		dropped := 0
		for _, r := range rows {
			if len(r) == 1 && r[0] == "" {
				dropped++
				continue
			}
			kept = append(kept, r)
		}
		if dropped > 0 && c08ShowRows(kept) == c08ShowRows(got) {
			class = c08ClassEmptyRow
		}
		c08Violation(c, "roundtrip", class, fmt.Sprintf("[roundtrip %s writer=%s crlf=%v] rows %s were written as %s and read back as %s", cs.D.Key(), cs.Writer, cs.CRLF,
			core.Clip(fmt.Sprintf("%q", rows), 300), c08Q(string(written)), core.Clip(fmt.Sprintf("%q", got), 300)), want, c08ShowRows(got), cs)
	}
	check(nil)
	n := len(written)
	if n > 1 && n <= 6 {
		cm.AllPartitions(n, func(s []int) {
			if len(s) > 0 {
				check(s)
			}
		})
	} else if n > 1 {
		rng := rand.New(rand.NewSource(cs.PlanSeed))
		cm.StdPartitions(n, 6, nil, 1, rng, func(s []int) {
			if len(s) > 0 {
				check(s)
			}
		})
	}
	return
}

// ---- getline forms in CSV mode -----------------------------------------------------------------

// c08GetlineCase checks that "getline v" and "getline v <file" leave $0/NF/fields of the current
// record alone and read the next record's text, and that "getline <file" installs the file's
// record ($0, NF, fields) without touching NR.
func c08GetlineCase(c *core.Ctx, e *c08Env, cs c08Case, verbose bool) int {
	d := cs.D
	// header variant: header mode with an EMPTY auxiliary file. Reading nothing from another
	// stream must not change how the main input is read (no row lost, no second header taken).
	hdrVariant := cs.D.Header && len(cs.Aux) == 0
	d.Header = hdrVariant
	mainRecs, err1 := cm.Model(cs.Input, d.SepRune(), d.Comment, true)
	if hdrVariant && err1 == nil && len(mainRecs) > 0 {
		mainRecs = mainRecs[1:]
	}
	auxRecs, err2 := cm.Model(cs.Aux, d.SepRune(), d.Comment, true)
	if err1 != nil || err2 != nil {
		c.Inconclusive("model: getline case")
		return 0
	}
	aux := filepath.Join(c.WorkDir(), "aux.csv")
	if err := os.WriteFile(aux, cs.Aux, 0o644); err != nil {
		c.Inconclusive("write aux file: " + err.Error())
		return 0
	}
	tr, _ := e.read(cs.Form, d, cs.Input, cs.Sizes, nil, []string{"AUX", aux})
	if verbose {
		fmt.Printf("main input: %s\naux file: %s\nform: %s dialect %s\ntrace:\n%s", c08Q(string(cs.Input)), c08Q(string(cs.Aux)), cs.Form, d.Key(), c08ShowTrace(tr))
	}
	viol := func(class, summary, exp, obs string) {
		kind := "getline"
		if class == c08ClassLoneCR || class == c08ClassReparse {
			kind = "csv-oracle" // the record read by getline disagrees with the oracle in a way the plain reading shows too
		}
		c08Violation(c, kind, class, fmt.Sprintf("[getline %s %s] %s", cs.Form, d.Key(), summary), exp, obs, cs)
	}
	if tr.failed() {
		c08Violation(c, "crash", "", fmt.Sprintf("[getline %s %s] %s%s", cs.Form, d.Key(), tr.Err, run.PanicSite(tr.Panic)), "no error", tr.Err+tr.Panic, cs)
		return 1
	}
	// walk the trace: triples (dump before, got, dump after)
	mi, ai := 0, 0 // next unread record of the main input / aux file
	for k := 0; k+3 <= len(tr.Recs); k += 3 {
		before, got, after := tr.Recs[k], tr.Recs[k+1], tr.Recs[k+2]
		if mi >= len(mainRecs) {
			viol("", "more records than the oracle has", "", c08ShowTrace(tr))
			return 1
		}
		cur := mainRecs[mi]
		mi++
		form := strings.TrimSuffix(cs.Form, "-lazy")
		if hdrVariant && (!cm.EqualFields(before.Fields, cur.Fields) || !cur.Accepts(before.D0)) {
			viol("", fmt.Sprintf("header mode, getline from an empty file in every rule: record %d is $0=%s %q, the oracle's data row %d is %q", k/3+1, c08Q(before.D0), before.Fields, mi, cur.Fields),
				fmt.Sprintf("%q", cur.Fields), fmt.Sprintf("%q", before.Fields))
			return 1
		}
		if !cm.EqualFields(before.Fields, cur.Fields) || !cur.Accepts(before.D0) {
			if form != cs.Form && cur.Accepts(before.D0) {
				// lazy form: $0 is the current record but its first field access (after the getline
				// into a variable) shows something else
				viol("", fmt.Sprintf("after a getline into a variable, the first look at the fields of the current record $0=%s shows NF=%d %q, the record has %q",
					c08Q(before.D0), before.NF, before.Fields, cur.Fields), fmt.Sprintf("%q", cur.Fields), fmt.Sprintf("%q", before.Fields))
			}
			// (otherwise: the plain reading is judged by the other families; do not double-report here)
			return 1
		}
		switch form {
		case "var-main", "var-file":
			var src *cm.ExpRec
			if form == "var-main" && mi < len(mainRecs) {
				src = &mainRecs[mi]
				mi++
			} else if form == "var-file" && ai < len(auxRecs) {
				src = &auxRecs[ai]
				ai++
			}
			if src == nil {
				if got.Ret != 0 {
					viol("", fmt.Sprintf("getline returned %d at end of input", got.Ret), "0", fmt.Sprint(got.Ret))
				}
			} else if got.Ret != 1 {
				viol("", fmt.Sprintf("getline returned %d with a record available", got.Ret), "1", fmt.Sprint(got.Ret))
			} else if !src.Accepts(got.Var) {
				viol(c08Dollar0Class(c08Exp{ExpRec: *src}, got.Var), "variable = "+c08Q(got.Var)+", the record read is "+c08Q(src.Body()), fmt.Sprintf("%q", src.AcceptedDollar0()), c08Q(got.Var))
			}
			if after.D0 != before.D0 || after.NF != before.NF || !cm.EqualFields(after.Fields, before.Fields) {
				class := ""
				if src != nil && after.D0 == before.D0 && after.NF == before.NF {
					// known shape: the splitter stored the OTHER record's fields into the
					// interpreter's field slice ($0 and NF stay, $i show the other record)
					match := true
					for i, f := range after.Fields {
						want := ""
						if i < len(src.Fields) {
							want = src.Fields[i]
						}
						if f != want {
							match = false
						}
					}
					if match {
						class = c08ClassClobber
					}
				}
				viol(class, fmt.Sprintf("current record changed by getline into a variable: before $0=%s %q, after $0=%s NF=%d %q",
					c08Q(before.D0), before.Fields, c08Q(after.D0), after.NF, after.Fields), fmt.Sprintf("%q", before.Fields), fmt.Sprintf("%q", after.Fields))
				return 1
			}
		case "file":
			if ai >= len(auxRecs) {
				if got.Ret != 0 {
					viol("", fmt.Sprintf("getline <file returned %d at end of file", got.Ret), "0", fmt.Sprint(got.Ret))
				}
				continue
			}
			src := auxRecs[ai]
			ai++
			if got.Ret != 1 {
				viol("", fmt.Sprintf("getline <file returned %d with a record available", got.Ret), "1", fmt.Sprint(got.Ret))
				continue
			}
			fx := c08Exp{ExpRec: src}
			if after.NF != len(src.Fields) || !cm.EqualFields(after.Fields, src.Fields) {
				class := ""
				if c08IsReparse(after, d) {
					class = c08ClassReparse
				}
				viol(class, fmt.Sprintf("after getline <file: NF=%d %q, the file's record is %q", after.NF, after.Fields, src.Fields), fmt.Sprintf("%q", src.Fields), fmt.Sprintf("%q", after.Fields))
			}
			if !src.Accepts(after.D0) {
				viol(c08Dollar0Class(fx, after.D0), "after getline <file: $0="+c08Q(after.D0)+", the file's record is "+c08Q(src.Body()), fmt.Sprintf("%q", src.AcceptedDollar0()), c08Q(after.D0))
			}
			if after.NR != before.NR {
				viol("", "getline <file changed NR", fmt.Sprint(before.NR), fmt.Sprint(after.NR))
			}
		}
	}
	if hdrVariant && form0(cs.Form) == "var-file" && mi != len(mainRecs) {
		viol("", fmt.Sprintf("header mode, getline from an empty file in every rule: %d data rows were delivered, the oracle has %d", mi, len(mainRecs)), fmt.Sprint(len(mainRecs)), fmt.Sprint(mi))
	}
	return 1
}

func form0(f string) string { return strings.TrimSuffix(f, "-lazy") }

// ---- split() in CSV mode -----------------------------------------------------------------------

func c08SplitCase(c *core.Ctx, e *c08Env, cs c08Case, verbose bool) int {
	d := cs.D
	d.Header = false
	recs, err := cm.Model(cs.Input, d.SepRune(), d.Comment, false)
	if err != nil || len(recs) != 1 || recs[0].Text != string(cs.Input) || cm.HasBOM(cs.Input) {
		return 0 // not a single-record text: outside what the property pins down
	}
	e.arg = string(cs.Input)
	tr, _ := e.read("split", d, nil, nil, nil, nil)
	if verbose {
		fmt.Printf("split(%s) dialect %s\noracle: %q\ntrace:\n%s", c08Q(e.arg), d.Key(), recs[0].Fields, c08ShowTrace(tr))
	}
	if tr.failed() || len(tr.Recs) != 1 {
		c08Violation(c, "crash", "", fmt.Sprintf("[split %s] %s%s", d.Key(), tr.Err, run.PanicSite(tr.Panic)), "no error", tr.Err+tr.Panic, cs)
		return 1
	}
	got := tr.Recs[0]
	if got.NR != len(recs[0].Fields) || !cm.EqualFields(got.Fields, recs[0].Fields) {
		c08Violation(c, "split", "", fmt.Sprintf("[split %s] split(%s, a) = %d %q, encoding/csv gives %q", d.Key(), c08Q(e.arg), got.NR, got.Fields, recs[0].Fields),
			fmt.Sprintf("%q", recs[0].Fields), fmt.Sprintf("%d %q", got.NR, got.Fields), cs)
	}
	return 1
}

// ---- driver ------------------------------------------------------------------------------------

// c08NonTrivial: an input is non-trivial if the oracle finds a record in it and it has at
// least one hard feature.
func c08NonTrivial(features []string) bool {
	for _, f := range features {
		switch f {
		case "multibyte-sep", "multibyte-comment", "empty-field", "blank-edge-field":
		default:
			return true
		}
	}
	return false
}

func c08RunOne(c *core.Ctx, e *c08Env, cs c08Case, verbose bool) {
	c.Begin(cs)
	switch cs.Family {
	case "tiny", "grammar", "edge64k":
		st := c08ReadCase(c, e, cs, verbose)
		c.Eval(st.execs)
		c.Count("executions_"+cs.Family, st.execs)
		c.Count("inputs_"+cs.Family, 1)
		c.Count("partitions_tried", st.partitions)
		c.Count("partitions_cutting_inside", st.cutInside)
		for k := range st.cutKinds {
			c.Cover("cut_kinds", k)
		}
		if st.modelFailed {
			return
		}
		exp, _ := c08Expect([][]byte{cs.Input}, cs.D, 0)
		feats := cm.Features(cs.Input, cs.D.SepRune(), cs.D.Comment, c08Recs(exp))
		for _, f := range feats {
			c.Cover("input_features", f)
		}
		c.Cover("dialects", cs.D.Key())
		c.Cover("readers", cs.Reader)
		c.Count("records_checked", len(exp)*st.execs)
		if len(exp) > 0 && c08NonTrivial(feats) {
			c.NonTrivial(cs.D.Key() + "|" + cs.Reader + "|" + string(cs.Input))
		}
		if cs.Family == "edge64k" {
			c.Cover("edge64k_shapes", cs.Note)
		}
		if c.WantSample() && len(exp) > 1 && len(cs.Input) < 200 && c08NonTrivial(feats) && cs.Family == "grammar" {
			c.Sample(map[string]any{"family": cs.Family, "dialect": cs.D.Key(), "reader": cs.Reader, "input": string(cs.Input),
				"oracle": c08ShowExp(exp), "trace_whole": c08ShowTrace(st.whole), "partitions_compared": st.partitions,
				"compared": "NR, FNR, NF, every field, $0 (byte range), FIELDS and @name per record; each partition's trace against the whole-read trace"})
		}
	case "files":
		n := c08FilesCase(c, e, cs, verbose)
		c.Eval(n)
		c.Count("files_cases", n)
		if len(cs.Files) > 1 {
			c.NonTrivial("files|" + cs.D.Key() + "|" + fmt.Sprintf("%q", cs.Files))
		}
	case "roundtrip":
		n := c08RoundTrip(c, e, cs, verbose)
		c.Eval(n)
		c.Count("executions_roundtrip", n)
		rows := c08Rows(cs)
		c.Count("roundtrip_row_lists", 1)
		c.Count("roundtrip_rows", len(rows))
		feats := cm.RowFeatures(rows, cs.D.SepRune())
		for _, f := range feats {
			c.Cover("row_features", f)
		}
		c.Cover("writers", fmt.Sprintf("%s %s sep=%q crlf=%v", cs.Writer, cs.D.Mode, cs.D.SepRune(), cs.CRLF))
		if len(feats) > 0 {
			c.NonTrivial("rt|" + cs.Writer + "|" + cs.D.Key() + "|" + fmt.Sprintf("%q", rows))
		}
		if c.WantSample() && len(feats) >= 3 && c.Batch%4 == 1 {
			c.Sample(map[string]any{"family": "roundtrip", "writer": cs.Writer, "dialect": cs.D.Key(), "rows": fmt.Sprintf("%q", rows),
				"compared": "rows written by the real print/$0 rebuild, read back by the real CSV input mode (whole and in pieces), against the rows given"})
		}
	case "getline":
		n := c08GetlineCase(c, e, cs, verbose)
		c.Eval(n)
		c.Count("getline_cases", n)
		c.Cover("getline_forms", cs.Form)
	case "split":
		n := c08SplitCase(c, e, cs, verbose)
		c.Eval(n)
		c.Count("split_cases", n)
	}
}

func c08Recs(exp []c08Exp) []cm.ExpRec {
	out := make([]cm.ExpRec, len(exp))
	for i, x := range exp {
		out[i] = x.ExpRec
	}
	return out
}

// c08FixedDialects are the configurations of the exhaustive tiny-input family.
var c08FixedDialects = []cm.Dialect{
	{Mode: "csv", Via: "config"},
	{Mode: "csv", Comment: '#', Via: "config"},
	{Mode: "tsv", Header: true, Via: "config"},
	{Mode: "csv", Sep: 'é', Comment: '§', Via: "var"},
	{Mode: "csv", Sep: ';', Header: true, Comment: '#', Via: "var"},
}

func c08Run(c *core.Ctx) {
	e, err := newC08Env()
	if err != nil {
		c.Inconclusive(err.Error())
		return
	}
	thorough := c.Tier == core.Thorough
	pick := func(q, t int) int {
		if thorough {
			return t
		}
		return q
	}
	idx := 0 // systematic case counter, partitioned over the batches by c.Mine
	mine := func() bool { idx++; return c.Mine(idx - 1) }

	// 1. tiny inputs, exhaustively: every string of length <= L over six symbols, and the same
	//    behind a BOM, every partition of each.
	maxLen := pick(4, 6)
	for di, d := range c08FixedDialects {
		alpha := cm.TinyAlphabet(d)
		L := maxLen
		if di >= 1 && thorough {
			L = 5
		}
		n := cm.TinyCount(len(alpha), L)
		for i := 0; i < n; i++ {
			if !mine() {
				continue
			}
			s := cm.TinyString(alpha, i)
			c08RunOne(c, e, c08Case{Family: "tiny", D: d, Input: s, Reader: "main", Plan: "all"}, false)
			if len(s) <= L-1 {
				c08RunOne(c, e, c08Case{Family: "tiny", D: d, Input: append([]byte(cm.BOM), s...), Reader: "main", Plan: "all"}, false)
			}
			if di == 0 && len(s) <= 4 {
				c08RunOne(c, e, c08Case{Family: "tiny", D: d, Input: s, Reader: "getline", Plan: "all"}, false)
				c08RunOne(c, e, c08Case{Family: "tiny", D: d, Input: s, Reader: "assign", Plan: "whole"}, false)
			}
		}
	}

	// 2. 64 KiB buffer edge
	deltas := []int{-4, -3, -2, -1, 0, 1, 2, 3, 4}
	if thorough {
		deltas = []int{-8, -7, -6, -5, -4, -3, -2, -1, 0, 1, 2, 3, 4, 5, 6, 7, 8}
	}
	edgeDialects := []cm.Dialect{{Mode: "csv", Via: "config"}, {Mode: "csv", Sep: 'é', Comment: '#', Via: "config"}, {Mode: "tsv", Header: true, Via: "config"}}
	for shape := 0; shape < cm.EdgeShapes; shape++ {
		for _, delta := range deltas {
			for di, d := range edgeDialects {
				for _, bom := range []bool{false, true} {
					if !thorough && di > 0 && (delta < -2 || delta > 2) {
						continue
					}
					if !mine() {
						continue
					}
					in, interesting, desc := cm.Edge64K(shape, delta, bom, d)
					c08RunOne(c, e, c08Case{Family: "edge64k", D: d, Input: in, Reader: "main", Plan: "edge", Interesting: interesting, Note: desc}, false)
				}
			}
		}
	}

	// 3. round trip, systematic: every row of 1..3 fields from the pool, alone and between two
	//    other rows, for each writer and dialect
	rtDialects := []cm.Dialect{{Mode: "csv"}, {Mode: "tsv"}, {Mode: "csv", Sep: ';'}, {Mode: "csv", Sep: 'é'}}
	for di, d := range rtDialects {
		pool := cm.RowFieldPool(d.SepRune())
		var rows [][]string
		for _, a := range pool {
			rows = append(rows, []string{a})
			for _, b := range pool {
				rows = append(rows, []string{a, b})
				if di == 0 || thorough {
					for _, f := range pool {
						rows = append(rows, []string{a, b, f})
					}
				}
			}
		}
		for ri, row := range rows {
			for wi, w := range []string{"print", "rebuild", "print-sw", "rebuild-sw"} {
				if !mine() {
					continue
				}
				crlf := (ri+wi)%5 == 0
				c08RunOne(c, e, c08Case{Family: "roundtrip", D: d, Rows: c08RowsBytes([][]string{row}), Writer: w, CRLF: crlf, PlanSeed: int64(ri)}, false)
				if ri%3 == 0 || thorough {
					c08RunOne(c, e, c08Case{Family: "roundtrip", D: d, Rows: c08RowsBytes([][]string{{"x", "y"}, row, {"z"}}), Writer: w, CRLF: crlf, PlanSeed: int64(ri)}, false)
				}
			}
		}
	}

	// 4. random layer (per-batch PRNG)
	rng := c.Rand("gen")
	nGrammar := pick(5200, 64000) / c.NBatches
	for i := 0; i < nGrammar; i++ {
		d := cm.RandDialect(rng)
		in := cm.GenText(rng, d, 6)
		reader := "main"
		switch rng.Intn(8) {
		case 0, 1:
			reader = "getline"
		case 2:
			reader = "assign"
		}
		plan := "std"
		if len(in) <= 10 {
			plan = "all"
		}
		c08RunOne(c, e, c08Case{Family: "grammar", D: d, Input: in, Reader: reader, Plan: plan, PlanSeed: rng.Int63()}, false)
	}
	nFiles := pick(1600, 25600) / c.NBatches
	for i := 0; i < nFiles; i++ {
		d := cm.RandDialect(rng)
		d.Via = "config"
		if i%2 == 0 {
			d.Header = true
		}
		nf := 2 + rng.Intn(2)
		var files [][]byte
		for k := 0; k < nf; k++ {
			files = append(files, cm.GenText(rng, d, 4))
		}
		c08RunOne(c, e, c08Case{Family: "files", D: d, Files: files}, false)
	}
	nRT := pick(8000, 128000) / c.NBatches
	for i := 0; i < nRT; i++ {
		d := rtDialects[rng.Intn(len(rtDialects))]
		if rng.Intn(4) == 0 {
			d.Sep = cm.Seps[rng.Intn(len(cm.Seps))]
		}
		rows := cm.GenRows(rng, d.SepRune())
		// the property's two clauses meet in one point: a written first field that starts
		// with the bytes of a BOM is "a leading byte-order mark" for the reader. Don't-care.
		if strings.HasPrefix(rows[0][0], cm.BOM) {
			rows[0][0] = "b" + rows[0][0]
		}
		w := []string{"print", "rebuild", "print-sw", "rebuild-sw"}[rng.Intn(4)]
		c08RunOne(c, e, c08Case{Family: "roundtrip", D: d, Rows: c08RowsBytes(rows), Writer: w, CRLF: rng.Intn(4) == 0, PlanSeed: rng.Int63()}, false)
	}
	nGL := pick(1600, 25600) / c.NBatches
	forms := []string{"var-main", "var-file", "file", "var-main-lazy", "var-file-lazy"}
	for i := 0; i < nGL; i++ {
		d := cm.RandDialect(rng)
		d.Header, d.Via = false, "config"
		// BOM handling is judged by the other families; here a leading mark would only blur
		// the getline question (the known BOM defects change which records exist)
		noBOM := func(b []byte) []byte {
			for cm.HasBOM(b) {
				b = b[len(cm.BOM):]
			}
			return b
		}
		cs := c08Case{Family: "getline", D: d, Input: noBOM(cm.GenText(rng, d, 5)), Aux: noBOM(cm.GenText(rng, d, 4)), Form: forms[i%len(forms)]}
		if i%7 == 6 { // header mode + empty auxiliary file
			cs.D.Header, cs.Aux, cs.Form = true, nil, []string{"var-file", "var-file-lazy"}[(i/7)%2]
		}
		if rng.Intn(2) == 0 && len(cs.Input) > 2 {
			cs.Sizes = []int{1 + rng.Intn(len(cs.Input)-1)}
		}
		c08RunOne(c, e, cs, false)
	}
	nSplit := pick(4000, 64000) / c.NBatches
	for i := 0; i < nSplit; i++ {
		d := cm.RandDialect(rng)
		d.Header, d.Via = false, "config"
		text := cm.GenText(rng, d, 1)
		text = []byte(strings.TrimRight(string(text), "\n"))
		c08RunOne(c, e, c08Case{Family: "split", D: d, Input: text}, false)
	}
}

func init() {
	n := func(t core.Tier, q, th int) int {
		if t == core.Thorough {
			return th
		}
		return q
	}
	core.Register(&core.Property{
		ID:    "C08",
		Level: "exploration",
		Rule: "inputs: (1) EVERY string of length <=4 (thorough: <=6 for plain csv, <=5 for the other four dialects) over {a, separator, quote, LF, CR, comment-or-blank} for five dialects, also behind a BOM, under EVERY partition; " +
			"(2) grammar-generated CSV text (quoted/unquoted/malformed fields, doubled and bare quotes, embedded separators/LF/CRLF/CR, blank and comment lines, no final newline, lone CR, BOM, NUL, invalid UTF-8) " +
			"x separators {, TAB ; | : space e-acute arrow} x comment {none # section-sign ; /} x header on/off x csv/tsv x Config/INPUTMODE, delivered whole, 1 byte at a time, with every single cut and random partitions " +
			"(all partitions when <=10 bytes); (3) 64 KiB inputs whose record end / quoted CRLF / doubled quote / separator / terminator / skipped lines straddle the 65536-byte buffer edge +-4 (thorough +-8); " +
			"(4) 2-3 real files per run (header re-read, BOM per file); (5) write->read round trips: every row of 1..3 fields from a 12-value pool x {print, $0 rebuild} x 4 dialects, plus random rows; " +
			"(6) getline forms and 2-argument split() in CSV mode. An execution = one run of the real interpreter. " +
			"Non-trivial = distinct (dialect, reader, input) in which the oracle finds >=1 record and which has a quote, CR, BOM, NUL, invalid UTF-8, skipped line, missing final newline or multi-line field; " +
			"for round trips, distinct (writer, dialect, rows) with a field that is empty or needs quoting",
		Explanation: "exhaustive sub-spaces: all strings of length <=4 (quick) / <=6 (thorough, plain csv; <=5 for the other four dialects) over the six-symbol alphabet with all 2^(n-1) partitions each; all rows of <=3 fields over the 12-value field pool (csv; <=2 fields for the other dialects in quick)",
		Assumptions: []string{
			"encoding/csv.Reader{LazyQuotes:true, FieldsPerRecord:-1} is the RFC 4180 reader with lenient quotes the property refers to; its InputOffset gives each record's byte range",
			"$0 may spell a CRLF inside a quoted field raw or as LF; a lone CR ending an unterminated last record may be kept or dropped in $0; which of several equally named columns @\"name\" selects is a don't-care",
			"a written first field beginning with the bytes EF BB BF is outside the round trip (the property also says a leading byte-order mark is ignored)",
			"Stdin deliveries never return 0 bytes; files are delivered by the OS in one read (not chunk-controlled)",
		},
		Exhaustive: func(t core.Tier) bool { return true },
		NBatches:   func(t core.Tier) int { return n(t, 16, 64) },
		Floors: func(t core.Tier) map[string]int {
			return map[string]int{
				"evaluations":               n(t, 300000, 4000000),
				"distinct_nontrivial":       n(t, 20000, 150000),
				"input_features":            17,
				"cut_kinds":                 9,
				"dialects":                  n(t, 100, 150),
				"partitions_cutting_inside": n(t, 100000, 1500000),
				"inputs_edge64k":            n(t, 200, 600),
				"edge64k_shapes":            cm.EdgeShapes,
				"files_cases":               n(t, 1000, 20000),
				"roundtrip_row_lists":       n(t, 10000, 100000),
				"row_features":              10,
				"getline_forms":             3,
				"readers":                   3,
				"getline_cases":             n(t, 1000, 20000),
				"split_cases":               n(t, 500, 10000),
			}
		},
		Run: c08Run,
		// every execution allocates goawk's 64 KiB input buffer: keep the collector's fixed costs down
		ChildEnv: func(t core.Tier) []string { return []string{"GOMAXPROCS=2", "GOGC=400"} },
		Replay: func(c *core.Ctx, raw json.RawMessage) {
			var cs c08Case
			if err := json.Unmarshal(raw, &cs); err != nil {
				fmt.Println("bad case:", err)
				return
			}
			e, err := newC08Env()
			if err != nil {
				fmt.Println(err)
				return
			}
			if cs.Family != "getline" && len(cs.Sizes) > 0 {
				fmt.Printf("recorded partition: %v (the whole delivery plan of the case is re-run)\n", cs.Sizes)
				cs.Sizes = nil
			}
			c08RunOne(c, e, cs, true)
		},
	})
}
