package props

// C09 extension: (1) print in CSV/TSV output mode, print to a file / pipe / "/dev/stdout" in
// those modes and print with a user-set ORS/OFS; (2) calls with several conversions that share
// per-call or per-interpreter state: 2-5 %c conversions in one call (byte and character mode),
// mixed conversions (%c %s %d %c, %*d with %c), the same format string used repeatedly on one
// interpreter with other argument types and other argument counts (a cached format must still
// check its argument count).
//
// Nothing here changes what the older families of c09.go compare; the new families go through
// the same comparator (checkProg) and the same oracle.  The only new comparison rule is the
// "segmented" call: conversions separated by the literal \x04, so that a call that contains
// a don't-care conversion (e.g. %c of an invalid code point) is still compared conversion by
// conversion instead of being skipped as a whole.

import (
	"bytes"
	"encoding/csv"
	"fmt"
	"math"
	"math/rand"
	"path/filepath"
	"strconv"
	"strings"

	"github.com/benhoyt/goawk/interp"

	cp "verifharness/c09printf"
	"verifharness/core"
	"verifharness/run"
)

// c09SegSep separates the conversions of a segmented call; the pools of segmented calls never
// produce this byte (codes congruent to 4 modulo 256 are excluded).
const c09SegSep = "\x04"

// ---- segmented comparison --------------------------------------------------------------------

// checkSegmented compares one segmented call conversion by conversion; don't-care
// conversions are skipped, every other one must equal libc's answer.
func (k *c09Checker) checkSegmented(p *c09Prog, idx int, observed []byte, per []*cp.Want) {
	c := k.c
	it := p.Items[idx]
	c.Count("segmented_calls", 1)
	var convs []int
	for i, pc := range it.Pieces {
		if pc.Spec != nil {
			convs = append(convs, i)
		}
	}
	sp := k.single(p, it)
	parts := bytes.Split(observed, []byte(c09SegSep))
	if len(parts) != len(convs) {
		k.violation("printf-vs-libc", "", fmt.Sprintf("%s(%s)%s = %s: %d conversions separated by \\x04 produced %d parts",
			p.Mode, it.Key(), c09CharsTag(p.Chars), core.Q(string(observed)), len(convs), len(parts)),
			fmt.Sprintf("%d parts", len(convs)), core.Q(string(observed)), c09Case{Gen: k.gen, Prog: sp})
		return
	}
	compared, batchChecked := 0, false
	for j, pi := range convs {
		w := per[pi]
		if w == nil || w.DontCare != "" {
			c.Count("dontcare_conversions_in_segmented_calls", 1)
			if w != nil {
				c.Cover("dontcare_reasons", w.DontCare)
			}
			continue
		}
		compared++
		c.Count("segmented_conversions_compared", 1)
		c.Count("compared_conversions", 1)
		if w.Matches(parts[j]) {
			continue
		}
		if len(p.Items) > 1 && !batchChecked {
			batchChecked = true
			alone, r, ok := k.observeOne(sp)
			if !ok || !bytes.Equal(alone, observed) {
				k.violation("batch-vs-single", "", fmt.Sprintf("call %d (%s) gives %s inside a %d-call program but %s (err=%q) when it is the only call",
					idx, it.Key(), core.Q(string(observed)), len(p.Items), core.Q(string(alone)), r.err),
					c09Alts(*w), core.Q(string(observed)), c09Case{Gen: k.gen, Prog: p})
				return
			}
		}
		pc := it.Pieces[pi]
		bp := k.single(p, cp.Item{Pieces: []cp.Piece{pc}})
		obs, _, ok := k.observeOne(bp)
		if ok && bytes.Equal(obs, parts[j]) {
			// the conversion behaves the same alone: the witness is the conversion itself
			k.report(bp, pc, obs, *w)
			continue
		}
		k.violation("printf-vs-libc", "", fmt.Sprintf("%s(%s)%s: conversion #%d (%s of %s) gives %s inside the call but %s alone; libc gives %s",
			p.Mode, it.Key(), c09CharsTag(p.Chars), j+1, pc.Spec.Awk(), pc.Arg.String(), core.Q(string(parts[j])), core.Q(string(obs)), c09Alts(*w)),
			c09Alts(*w), core.Q(string(parts[j])), c09Case{Gen: k.gen, Prog: sp})
	}
	if compared > 0 {
		c.Count("segmented_calls_compared", 1)
		c.NonTrivial(fmt.Sprintf("%s|%v|seg|%s", p.Mode, p.Chars, it.Key()))
		k.coverMulti(p, it, per)
	} else {
		c.Count("dontcare_calls", 1)
	}
}

// c09CodeClass buckets the code of a numeric %c argument.
func c09CodeClass(x float64) string {
	switch {
	case x != math.Trunc(x) || x < 0 || math.IsNaN(x) || math.IsInf(x, 0):
		return "non-code"
	case x < 128:
		return "ascii"
	case x < 256:
		return "128-255"
	case x < 0x800:
		return "2-byte"
	case x >= 0xd800 && x <= 0xdfff || x > 0x10ffff:
		return "invalid"
	case x < 0x10000:
		return "3-byte"
	}
	return "4-byte"
}

// coverMulti records what a compared multi-conversion call exercised (per holds the wants of
// the pieces; a piece with a don't-care want was not compared).
func (k *c09Checker) coverMulti(p *c09Prog, it cp.Item, per []*cp.Want) {
	c := k.c
	mode := "bytemode"
	if p.Chars {
		mode = "charmode"
	}
	var shape []string // conversion kinds: c, s, i (d i), u (o x X u), f (e E f g G)
	nc, stars := 0, 0
	numCodes := map[float64]bool{}
	for i, pc := range it.Pieces {
		if pc.Spec == nil {
			continue
		}
		shape = append(shape, string("csiiuuuufffff"[strings.Index("csdioxXueEfgG", pc.Spec.Conv)]))
		stars += len(pc.Stars)
		if pc.Spec.Conv != "c" {
			continue
		}
		nc++
		if i >= len(per) || per[i] == nil || per[i].DontCare != "" {
			continue
		}
		v := pc.Arg.Val()
		switch {
		case v.IsNum:
			numCodes[v.N] = true
			c.Cover("multi_c_classes", mode+"|num|"+c09CodeClass(v.N))
		case v.IsStrNum:
			numCodes[v.N] = true
			c.Cover("multi_c_classes", mode+"|field-numeric|"+c09CodeClass(v.N))
		case len(v.S) == 0:
		case isASCIIBytes(v.S[:1]):
			c.Cover("multi_c_classes", mode+"|"+pc.Arg.K+"|ascii")
		default:
			c.Cover("multi_c_classes", mode+"|"+pc.Arg.K+"|multibyte")
		}
	}
	if nc >= 2 {
		c.Count("multi_c_calls_"+mode, 1)
		if len(numCodes) >= 2 {
			// the calls the per-call scratch state of numeric %c can alias in
			c.Count("multi_numeric_c_calls_"+mode, 1)
		}
	}
	if nc >= 1 && nc < len(shape) {
		c.Count("mixed_c_calls_"+mode, 1)
		if stars > 0 {
			c.Count("star_with_c_calls", 1)
		}
	}
	if nc >= 1 && len(shape) <= 3 {
		c.Cover("multi_conv_shapes_with_c", strings.Join(shape, ""))
	}
}

// ---- pools of the multi-conversion families ---------------------------------------------------

var (
	c09CAscii = []float64{0, 9, 10, 32, 33, 37, 48, 65, 72, 90, 97, 105, 122, 126, 127}
	c09C2     = []float64{128, 160, 233, 255, 256, 937, 0x7ff}
	c09C3     = []float64{0x800, 8364, 0x65e5, 0xfffd, 0xffff}
	c09C4     = []float64{0x10000, 0x1f600, 0x10ffff}
	c09CBad   = []float64{0xd800, 0xdfff, 0x110000, 4294967361, 1e18, -1, 65.5, -0.5}
	c09CFlds  = []string{"65", "233", "8364", "128512", " 97 ", "1e2", "+66", "72.0", "0", "55296", "abc", "é", "日本語", "", "3x", "1114112"}
	c09CStrs  = []string{"A", "z", "é", "日本", "😀z", "abc", "12abc", "%", " x", "\xff\xfeab", "a\xc3", "ÿ", "65", "233", ""}

	c09MixStrs = []string{"abc", "", "x", "hello world", "12abc", "-3.7xyz", "A", "1e3", " 42 ", "é", "日本", "😀z", "a\xc3"}
	c09MixFlds = []string{"42", "-1.5", " 12 ", "1e2", "abc", "", "65", "3x", "0", "+0.5", "007", "233", "é", "-7", "1234567.5"}
	c09MixNums = []float64{0, 1, -1, 7, 65, 255, 256, -123, 1000, 65536, 2147483648, -2147483649, 9007199254740993, -9007199254740992,
		0.5, -0.5, 2.5, 3.999, -3.999, 0.1, 123456.789, 1e-5, 1e15, 1e16, 99999.5, 1234567.891}
)

// c09RandCArg draws an argument for a %c conversion.
func c09RandCArg(rng *rand.Rand, seg bool) cp.Arg {
	pick := func(l []float64) cp.Arg { return cp.Num(l[rng.Intn(len(l))]) }
	for {
		var a cp.Arg
		switch r := rng.Intn(20); {
		case r < 5:
			a = pick(c09CAscii)
		case r < 8:
			a = pick(c09C2)
		case r < 10:
			a = pick(c09C3)
		case r < 12:
			a = pick(c09C4)
		case r < 13:
			a = pick(c09CBad)
		case r < 14:
			// a random code point of a random encoded length
			a = cp.Num(float64([]int{0x80, 0x800, 0x10000, 0x110000}[rng.Intn(4)] - 1 - rng.Intn(100)))
		case r < 17:
			a = cp.Fld(c09CFlds[rng.Intn(len(c09CFlds))])
		default:
			a = cp.Str(c09CStrs[rng.Intn(len(c09CStrs))])
		}
		if seg && c09MayEmitSep(a) {
			continue
		}
		return a
	}
}

// c09MayEmitSep: could printing the argument produce the segment separator byte?  (byte mode
// prints code mod 256 for the don't-care codes above 255.)
func c09MayEmitSep(a cp.Arg) bool {
	v := a.Val()
	if bytes.Contains(v.S, []byte(c09SegSep)) {
		return true
	}
	if v.IsNum || v.IsStrNum {
		if math.IsNaN(v.N) || math.IsInf(v.N, 0) || math.Abs(v.N) >= 1<<62 {
			return false
		}
		return int64(v.N)&0xff == 4
	}
	return false
}

func c09SmallStar(rng *rand.Rand) cp.Arg {
	n := rng.Intn(13) - 5
	switch rng.Intn(10) {
	case 0:
		return cp.Fld(strconv.Itoa(n))
	case 1:
		return cp.Num(float64(n) + math.Copysign(0.5, float64(n)))
	}
	return cp.Num(float64(n))
}

// c09RandCPiece draws one %c conversion (flags "-" or none, no/literal/'*' width).
func c09RandCPiece(rng *rand.Rand, seg bool) cp.Piece {
	sp := cp.Spec{Conv: "c"}
	var stars []cp.Arg
	if rng.Intn(3) == 0 {
		sp.Flags = "-"
	}
	switch r := rng.Intn(10); {
	case r < 6:
	case r < 8:
		sp.Width = strconv.Itoa(1 + rng.Intn(4))
	default:
		sp.Width = "*"
		stars = append(stars, c09SmallStar(rng))
	}
	a := c09RandCArg(rng, seg)
	return cp.Piece{Spec: &sp, Stars: stars, Arg: &a}
}

// c09RandMixPiece draws one conversion other than %c with a specification and an argument
// outside the known divergence classes as far as cheaply possible (the comparator classifies
// whatever still lands in one).
func c09RandMixPiece(rng *rand.Rand) cp.Piece {
	var sp cp.Spec
	var stars []cp.Arg
	width := func() {
		switch r := rng.Intn(10); {
		case r < 4:
		case r < 8:
			sp.Width = strconv.Itoa(1 + rng.Intn(10))
		default:
			sp.Width = "*"
			stars = append(stars, c09SmallStar(rng))
		}
	}
	num := func() cp.Arg {
		switch r := rng.Intn(10); {
		case r < 6:
			return cp.Num(c09MixNums[rng.Intn(len(c09MixNums))])
		case r < 8:
			return cp.Fld(c09MixFlds[rng.Intn(len(c09MixFlds))])
		case r < 9:
			return cp.Str(c09MixStrs[rng.Intn(len(c09MixStrs))])
		}
		return cp.Num(float64(rng.Intn(2001)-1000) / 8)
	}
	var a cp.Arg
	switch r := rng.Intn(20); {
	case r < 7: // %s
		sp.Conv = "s"
		if rng.Intn(3) == 0 {
			sp.Flags = "-"
		}
		ascii := false
		if rng.Intn(2) == 0 {
			width()
			ascii = true
		}
		switch rng.Intn(6) {
		case 0:
			sp.Prec = "." + strconv.Itoa(rng.Intn(6))
			ascii = true
		case 1:
			sp.Prec = ".*"
			stars = append(stars, cp.Num(float64(rng.Intn(7))))
			ascii = true
		}
		for {
			a = num()
			if rng.Intn(2) == 0 {
				a = cp.Str(c09MixStrs[rng.Intn(len(c09MixStrs))])
			}
			if !ascii || isASCIIBytes(a.S) {
				break
			}
		}
	case r < 11: // %d %i
		sp.Conv = []string{"d", "i"}[rng.Intn(2)]
		sp.Flags = []string{"", "", "-", "0", "+", " ", "-+"}[rng.Intn(7)]
		width()
		if rng.Intn(4) == 0 {
			sp.Prec = "." + strconv.Itoa(1+rng.Intn(5))
		}
		a = num()
	case r < 14: // unsigned
		sp.Conv = []string{"x", "o", "u", "X"}[rng.Intn(4)]
		sp.Flags = []string{"", "", "-", "0"}[rng.Intn(4)]
		width()
		if rng.Intn(4) == 0 {
			sp.Prec = ".3"
		}
		a = num()
	default: // floating
		sp.Conv = []string{"e", "f", "g", "E", "G"}[rng.Intn(5)]
		sp.Flags = []string{"", "", "-", "+", "0", " "}[rng.Intn(6)]
		width()
		if sp.Conv == "g" || sp.Conv == "G" || rng.Intn(2) == 0 {
			sp.Prec = "." + strconv.Itoa(rng.Intn(9))
		}
		a = num()
	}
	return cp.Piece{Spec: &sp, Stars: stars, Arg: &a}
}

// c09Defined asks the model whether the conversion is inside the compared fragment.
func c09Defined(m *cp.Model, pc cp.Piece, chars bool) bool {
	w, err := m.Conv(*pc.Spec, pc.Stars, *pc.Arg, chars)
	return err == nil && w.DontCare == ""
}

var c09Glue = []string{"", "", "", " ", ",", "-", "é", "|", "=", "\t"}

// c09Assemble puts conversions into one call: segmented (separated by \x04) or glued by short
// literals / "%%" / nothing.
func c09Assemble(rng *rand.Rand, convs []cp.Piece, seg bool) cp.Item {
	it := cp.Item{Seg: seg}
	for i, pc := range convs {
		if i > 0 {
			switch {
			case seg:
				it.Pieces = append(it.Pieces, cp.Piece{Lit: c09SegSep})
			case rng.Intn(12) == 0:
				it.Pieces = append(it.Pieces, cp.Piece{Pct: true})
			default:
				if g := c09Glue[rng.Intn(len(c09Glue))]; g != "" {
					it.Pieces = append(it.Pieces, cp.Piece{Lit: g})
				}
			}
		}
		it.Pieces = append(it.Pieces, pc)
	}
	return it
}

// c09MultiCItem: one call with 2-5 %c conversions.  Unsegmented calls only get arguments
// inside the compared fragment (so that the whole call is compared); segmented ones also
// get the don't-care ones (invalid code points, codes above 255 in byte mode, "" ...).
func c09MultiCItem(rng *rand.Rand, m *cp.Model, chars, seg bool) cp.Item {
	n := 2 + rng.Intn(4)
	var convs []cp.Piece
	for j := 0; j < n; j++ {
		var pc cp.Piece
		for try := 0; ; try++ {
			pc = c09RandCPiece(rng, seg)
			if seg || c09Defined(m, pc, chars) {
				break
			}
			if try >= 12 {
				a := cp.Num(float64(65 + j))
				pc = cp.Piece{Spec: &cp.Spec{Conv: "c"}, Arg: &a}
				break
			}
		}
		convs = append(convs, pc)
	}
	return c09Assemble(rng, convs, seg)
}

// c09MixedItem: one call with 2-6 conversions of different kinds, at least one %c and at
// least one other conversion (%c %s %d %c, %*d with %c, ...).
func c09MixedItem(rng *rand.Rand, m *cp.Model, chars, seg bool) cp.Item {
	n := 2 + rng.Intn(5)
	isC := make([]bool, n)
	for j := range isC {
		isC[j] = rng.Intn(20) < 7
	}
	isC[rng.Intn(n)] = true
	allC := true
	for _, b := range isC {
		allC = allC && b
	}
	if allC {
		isC[rng.Intn(n)] = false // n >= 2, so a %c remains
	}
	var convs []cp.Piece
	for j := 0; j < n; j++ {
		var pc cp.Piece
		for try := 0; ; try++ {
			if isC[j] {
				pc = c09RandCPiece(rng, seg)
			} else {
				pc = c09RandMixPiece(rng)
			}
			if seg || c09Defined(m, pc, chars) {
				break
			}
			if try >= 12 {
				a := cp.Num(float64(65 + j))
				pc = cp.Piece{Spec: &cp.Spec{Conv: "c"}, Arg: &a}
				break
			}
		}
		convs = append(convs, pc)
	}
	return c09Assemble(rng, convs, seg)
}

var c09ExtModes = []string{"sprintf", "sprintf", "printf", "printf-file"}

// c09MultiCProg: 8-12 multi-%c calls on one interpreter.
func c09MultiCProg(rng *rand.Rand, m *cp.Model) *c09Prog {
	p := &c09Prog{Mode: c09ExtModes[rng.Intn(4)], Chars: rng.Intn(2) == 0}
	for i, n := 0, 8+rng.Intn(5); i < n; i++ {
		p.Items = append(p.Items, c09MultiCItem(rng, m, p.Chars, rng.Intn(5) < 2))
	}
	return p
}

// c09MixedProg: 8-12 mixed multi-conversion calls on one interpreter; sometimes with
// CONVFMT/OFMT set (a %s of a number next to a %c).
func c09MixedProg(rng *rand.Rand, m *cp.Model) *c09Prog {
	p := &c09Prog{Mode: c09ExtModes[rng.Intn(4)], Chars: rng.Intn(2) == 0}
	if rng.Intn(4) == 0 {
		i := rng.Intn(len(c09ConvFmts))
		cf, of := c09ConvFmts[i], c09ConvFmts[(i+1+rng.Intn(len(c09ConvFmts)-1))%len(c09ConvFmts)]
		p.ConvFmt, p.OFMT = &cf, &of
	}
	for i, n := 0, 8+rng.Intn(5); i < n; i++ {
		p.Items = append(p.Items, c09MixedItem(rng, m, p.Chars, rng.Intn(4) == 0))
	}
	return p
}

// c09ArgOfKind draws an argument of a given provenance for the conversion: 0 number,
// 1 string constant, 2 numeric-string field, 3 non-numeric field.
func c09ArgOfKind(rng *rand.Rand, conv string, kind int, seg bool) cp.Arg {
	for {
		var a cp.Arg
		switch kind {
		case 0:
			if conv == "c" {
				l := [][]float64{c09CAscii, c09CAscii, c09C2, c09C3, c09C4}[rng.Intn(5)]
				a = cp.Num(l[rng.Intn(len(l))])
			} else {
				a = cp.Num(c09MixNums[rng.Intn(len(c09MixNums))])
			}
		case 1:
			if conv == "c" {
				a = cp.Str(c09CStrs[rng.Intn(len(c09CStrs)-1)])
			} else {
				a = cp.Str([]string{"abc", "x", "12abc", "hello world", "-3.7xyz", "65", "A"}[rng.Intn(7)])
			}
		case 2:
			a = cp.Fld([]string{"65", "233", "8364", " 97 ", "1e2", "+66", "72.0", "42", "-1.5", "0", "007"}[rng.Intn(11)])
		default:
			a = cp.Fld([]string{"abc", "3x", "zz top", "A", "x-1", "é1", "日本語"}[rng.Intn(7)])
		}
		if seg && conv == "c" && c09MayEmitSep(a) {
			continue
		}
		return a
	}
}

// c09RepeatProg: ONE format string with 2-6 conversions used 4-8 times on one interpreter,
// each time with arguments of other provenances (number / string / numeric field / other
// field, rotating per position) and other argument counts (surplus arguments; and, in half
// of the programs, a last use with too few arguments, which must be the run-time error even
// though the format is by then in the format cache).  One program in eight first fills the
// cache with 101 other formats, so that the format under test is re-parsed at every use.
func c09RepeatProg(rng *rand.Rand, m *cp.Model) *c09Prog {
	p := &c09Prog{Mode: c09ExtModes[rng.Intn(4)], Chars: rng.Intn(2) == 0}
	seg := rng.Intn(3) == 0
	var base cp.Item
	if rng.Intn(3) == 0 {
		base = c09MultiCItem(rng, m, p.Chars, seg)
	} else {
		base = c09MixedItem(rng, m, p.Chars, seg)
	}
	if rng.Intn(8) == 0 {
		for i := 0; i < 101; i++ {
			sp := cp.Spec{Conv: "d"}
			a := cp.Num(float64(i))
			p.Items = append(p.Items, cp.Item{Pieces: []cp.Piece{{Lit: "k" + strconv.Itoa(i) + "="}, {Spec: &sp, Arg: &a}}})
		}
	}
	p.Items = append(p.Items, base)
	calls := 3 + rng.Intn(5)
	mk := func(r int) cp.Item {
		it := cp.Item{Seg: base.Seg}
		j := 0
		for _, pc := range base.Pieces {
			if pc.Spec != nil {
				npc := pc
				for try := 0; ; try++ {
					a := c09ArgOfKind(rng, pc.Spec.Conv, (r+j+try/4)%4, base.Seg)
					npc.Arg = &a
					npc.Stars = nil
					for range pc.Stars {
						npc.Stars = append(npc.Stars, c09SmallStar(rng))
					}
					if pc.Spec.Conv == "s" && pc.Spec.Prec == ".*" {
						npc.Stars[len(npc.Stars)-1] = cp.Num(float64(rng.Intn(7)))
					}
					if base.Seg || c09Defined(m, npc, p.Chars) || try >= 16 {
						break
					}
				}
				pc = npc
				j++
			}
			it.Pieces = append(it.Pieces, pc)
		}
		return it
	}
	for r := 0; r < calls; r++ {
		it := mk(r)
		if r%3 == 1 {
			for e := 1 + rng.Intn(2); e > 0; e-- {
				it.Extra = append(it.Extra, c09ArgOfKind(rng, "s", rng.Intn(4), false))
			}
		}
		p.Items = append(p.Items, it)
	}
	if rng.Intn(2) == 0 {
		it := mk(calls)
		n := len(it.Args())
		it.Drop = 1 + rng.Intn(n)
		if rng.Intn(4) == 0 {
			it.Drop = n
		}
		it.WantErr = "too-few-args"
		p.Items = append(p.Items, it)
	}
	return p
}

// ---- print in CSV/TSV output mode, to other destinations, with user ORS/OFS -------------------

func (p *c09Print) extended() bool {
	return p.OutMode != "" || p.ViaVar || p.Dest != "" || p.ORS != nil || p.OFS != nil
}

// sepTerm: what separates the arguments of one print and what ends it.  In CSV/TSV output
// mode that is the separator and "\n" whatever OFS/ORS are.
func (p *c09Print) sepTerm() (sep, term string) {
	switch p.OutMode {
	case "csv":
		return ",", "\n"
	case "tsv":
		return "\t", "\n"
	case "csv;":
		return ";", "\n"
	}
	sep, term = c09OFS, c09Sep
	if p.OFS != nil {
		sep = *p.OFS
	}
	if p.ORS != nil {
		term = *p.ORS
	}
	return sep, term
}

func (p *c09Print) modeTag() string {
	t := "default output mode"
	if p.OutMode != "" {
		t = "output mode " + strings.Replace(p.OutMode, "csv;", "csv separator=;", 1)
		if p.ViaVar {
			t += " (OUTPUTMODE set in BEGIN)"
		} else {
			t += " (Config.OutputMode)"
		}
	} else {
		sep, term := p.sepTerm()
		t += fmt.Sprintf(" OFS=%q ORS=%q", sep, term)
	}
	if p.Dest != "" {
		t += ", print to " + p.Dest
	}
	return t
}

func (p *c09Print) sourceX(file string) (src, stdin string) {
	var sb strings.Builder
	var fields []string
	sb.WriteString("BEGIN { FS = \"|\"")
	if p.OutMode == "" || p.ORS != nil || p.OFS != nil {
		sep, term := c09OFS, c09Sep
		if p.OFS != nil {
			sep = *p.OFS
		}
		if p.ORS != nil {
			term = *p.ORS
		}
		sb.WriteString("; ORS = " + cp.AwkString([]byte(term)) + "; OFS = " + cp.AwkString([]byte(sep)))
	}
	if p.OFMT != nil {
		sb.WriteString("; OFMT = " + cp.AwkString([]byte(p.OFMT.Awk())))
	}
	if p.CONVFMT != "" {
		sb.WriteString("; CONVFMT = " + cp.AwkString([]byte(p.CONVFMT)))
	}
	if p.ViaVar && p.OutMode != "" {
		sb.WriteString("; OUTPUTMODE = " + cp.AwkString([]byte(strings.Replace(p.OutMode, "csv;", "csv separator=;", 1))))
	}
	sb.WriteString(" }\n{\n")
	for gi, g := range p.Groups {
		var l []string
		for _, a := range g {
			l = append(l, a.Awk(&fields))
		}
		if len(g) > 1 && gi%2 == 1 {
			sb.WriteString("  print(" + strings.Join(l, ", ") + ")")
		} else {
			sb.WriteString("  print " + strings.Join(l, ", "))
		}
		switch p.Dest {
		case "file":
			sb.WriteString(" > " + cp.AwkString([]byte(file)))
		case "devstdout":
			sb.WriteString(" > \"/dev/stdout\"")
		case "pipe":
			sb.WriteString(" | " + cp.AwkString([]byte("catto:"+file)))
		}
		sb.WriteString("\n")
	}
	sb.WriteString("}\n")
	return sb.String(), strings.Join(fields, "|") + "\n"
}

func (p *c09Print) execX(c *core.Ctx) c09Run {
	cfg := &interp.Config{}
	if !p.ViaVar {
		switch p.OutMode {
		case "csv":
			cfg.OutputMode = interp.CSVMode
		case "tsv":
			cfg.OutputMode = interp.TSVMode
		case "csv;":
			cfg.OutputMode = interp.CSVMode
			cfg.CSVOutput.Separator = ';'
		}
	}
	file := ""
	switch p.Dest {
	case "file":
		file = filepath.Join(c.WorkDir(), "printx.txt")
	case "pipe":
		file = filepath.Join(c.WorkDir(), "printx-pipe.txt")
		cfg.ShellCommand = []string{filepath.Join(core.BuildDir, "vsh")}
	}
	src, stdin := p.sourceX(file)
	return c09ExecCfg(c, src, stdin, file, cfg)
}

// c09CSVField encodes one field by encoding/csv's rules for the given separator.
func c09CSVField(b []byte, sep rune) []byte {
	var buf bytes.Buffer
	w := csv.NewWriter(&buf)
	w.Comma = sep
	// a second field keeps encoding/csv's "lone empty field" case out of it
	_ = w.Write([]string{string(b), "x"})
	w.Flush()
	out := buf.Bytes()
	return append([]byte{}, out[:len(out)-len(string(sep))-2]...)
}

// c09PField is what one print argument must contribute to the record: exact bytes, or (for
// a don't-care number) any run of the characters a formatted number consists of.
type c09PField struct {
	known []byte
	wild  string // don't-care reason
}

func c09NumChar(b byte) bool {
	return b >= '0' && b <= '9' || b >= 'a' && b <= 'z' || b >= 'A' && b <= 'Z' || b == '+' || b == '-' || b == '.' || b == ' '
}

// c09MatchRecord matches one record against its fields.  A don't-care field matches, in
// CSV/TSV mode (csvMode), one quoted field or an unquoted run up to the separator; in the
// default mode a run of the characters a formatted number consists of (digits, letters, sign,
// point, padding spaces).  undecidable: a don't-care field is followed by something it cannot
// be told apart from.
func c09MatchRecord(rec []byte, fields []c09PField, sep string, csvMode bool) (ok, undecidable bool) {
	pos := 0
	for i, f := range fields {
		if i > 0 {
			if !bytes.HasPrefix(rec[pos:], []byte(sep)) {
				return false, false
			}
			pos += len(sep)
		}
		switch {
		case f.wild != "" && csvMode:
			if pos < len(rec) && rec[pos] == '"' {
				pos++
				for pos < len(rec) {
					if rec[pos] == '"' {
						if pos+1 < len(rec) && rec[pos+1] == '"' {
							pos += 2
							continue
						}
						break
					}
					pos++
				}
				if pos >= len(rec) {
					return false, false
				}
				pos++
			} else {
				for pos < len(rec) && !bytes.HasPrefix(rec[pos:], []byte(sep)) {
					pos++
				}
			}
		case f.wild != "":
			if i+1 < len(fields) && (sep == "" || c09NumChar(sep[0])) {
				return false, true
			}
			for pos < len(rec) && c09NumChar(rec[pos]) {
				pos++
			}
		default:
			if !bytes.HasPrefix(rec[pos:], f.known) {
				return false, false
			}
			pos += len(f.known)
		}
	}
	return pos == len(rec), false
}

func (k *c09Checker) printFieldsX(p *c09Print, g []cp.Arg) ([]c09PField, error) {
	sep, _ := p.sepTerm()
	var l []c09PField
	for _, a := range g {
		w, err := k.printWant(p, a)
		if err != nil {
			return nil, err
		}
		switch {
		case w.DontCare != "":
			l = append(l, c09PField{wild: w.DontCare})
		case len(w.Alts) != 1:
			l = append(l, c09PField{wild: "print-several-acceptable-spellings"})
		case p.OutMode != "":
			l = append(l, c09PField{known: c09CSVField(w.Alts[0], []rune(sep)[0])})
		default:
			l = append(l, c09PField{known: w.Alts[0]})
		}
	}
	if p.OutMode != "" && len(g) == 1 && l[0].wild == "" && len(l[0].known) == 0 {
		// how a lone empty field is written in CSV output mode is C08's question
		l[0].wild = "csv-lone-empty-field"
	}
	return l, nil
}

func c09FieldsText(fields []c09PField, sep string) string {
	var l []string
	for _, f := range fields {
		if f.wild != "" {
			l = append(l, "<any:"+f.wild+">")
		} else {
			l = append(l, string(f.known))
		}
	}
	return core.Q(strings.Join(l, sep))
}

func (p *c09Print) with(groups [][]cp.Arg) *c09Print {
	q := *p
	q.Groups = groups
	return &q
}

// runPrintX runs the program and cuts its output into one record per print statement.
func (k *c09Checker) runPrintX(p *c09Print, cs c09Case) (recs [][]byte, ok bool) {
	c := k.c
	r := p.execX(c)
	if r.panicky != "" {
		k.violation("panic", "", "print probe panicked: "+run.PanicSite(r.panicky), "", r.panicky, cs)
		return nil, false
	}
	if r.err != "" {
		k.violation("unexpected-error", "", "print probe failed ("+p.modeTag()+"): "+r.err, "", r.err, cs)
		return nil, false
	}
	_, term := p.sepTerm()
	parts := bytes.Split(r.out, []byte(term))
	if len(parts[len(parts)-1]) != 0 || len(parts)-1 != len(p.Groups) {
		if p.Dest == "pipe" && len(r.out) == 0 {
			// the command did not get to write its file (fork failure / exec timing on a loaded
			// machine): nothing was observed, nothing is concluded
			c.Count("print_pipe_no_output_skipped", 1)
			return nil, false
		}
		k.violation("output-shape", "", fmt.Sprintf("%s: %d print statements produced %d terminated records", p.modeTag(), len(p.Groups), len(parts)-1), "", core.Q(string(r.out)), cs)
		return nil, false
	}
	return parts[:len(parts)-1], true
}

func (k *c09Checker) checkPrintX(p *c09Print) {
	c := k.c
	cs := c09Case{Gen: k.gen, Print: p}
	c.Begin(cs)
	c.Count("print_programs", 1)
	c.Count("print_ext_programs", 1)
	c.Eval(len(p.Groups))
	recs, ok := k.runPrintX(p, cs)
	if !ok {
		return
	}
	sep, _ := p.sepTerm()
	ofmt, convfmt := "%.6g", "%.6g"
	if p.OFMT != nil {
		ofmt = p.OFMT.Awk()
	}
	if p.CONVFMT != "" {
		convfmt = p.CONVFMT
	}
	mode := p.OutMode
	if mode == "" {
		mode = "default"
	}
	via := "config"
	if p.ViaVar {
		via = "var"
	}
	c.Cover("print_ext_modes", mode+"/"+via)
	dest := p.Dest
	if dest == "" {
		dest = "stdout"
	}
	c.Cover("print_ext_dests", mode+">"+dest)
	c.Cover("print_ext_ofmt_values", ofmt)
	if p.ORS != nil || p.OFS != nil {
		c.Cover("print_ext_ors_ofs", fmt.Sprintf("%q %q", *p.ORS, *p.OFS))
	}
	for gi, g := range p.Groups {
		fields, err := k.printFieldsX(p, g)
		if err != nil {
			c.Inconclusive("oracle:" + err.Error())
			return
		}
		good, undecidable := c09MatchRecord(recs[gi], fields, sep, p.OutMode != "")
		if undecidable {
			c.Count("dontcare_calls", 1)
			c.Cover("dontcare_reasons", "print-dontcare-argument-not-delimited")
			continue
		}
		ncmp := 0
		for ai, a := range g {
			if fields[ai].wild != "" {
				c.Count("dontcare_calls", 1)
				c.Cover("dontcare_reasons", fields[ai].wild)
				continue
			}
			ncmp++
			c.Count("print_values_compared", 1)
			c.Count("print_ext_values_compared", 1)
			c.Count("print_"+mode+"_values_compared", 1)
			c.Cover("print_ext_argclass", mode+"|"+c09ArgClass(a))
			if v := a.Val(); v.IsNum && v.N != math.Trunc(v.N) {
				c.Count("print_ext_nonintegral_numbers_compared", 1)
				if ofmt != convfmt {
					c.Count("print_"+mode+"_nonintegral_OFMT_ne_CONVFMT", 1)
				}
			}
			c.NonTrivial("printx|" + mode + via + dest + "|" + ofmt + "|" + a.String())
		}
		if ncmp > 1 {
			c.Count("print_"+mode+"_multi_argument_statements", 1)
		}
		if good {
			continue
		}
		// narrow: every compared argument printed alone under the same settings
		found := false
		for ai, a := range g {
			if fields[ai].wild != "" {
				continue
			}
			one := p.with([][]cp.Arg{{a}})
			f1, err := k.printFieldsX(one, one.Groups[0])
			if err != nil || f1[0].wild != "" {
				continue
			}
			r1, ok := k.runPrintX(one, c09Case{Gen: k.gen, Print: one})
			if !ok {
				return
			}
			if bytes.Equal(r1[0], f1[0].known) {
				continue
			}
			found = true
			class := ""
			if v := a.Val(); v.IsNum && v.N != math.Trunc(v.N) && p.OFMT != nil && !bytes.HasPrefix(r1[0], []byte(`"`)) {
				if w, err := k.printWant(p, a); err == nil {
					class = cp.Classify(k.m, *p.OFMT, nil, a, false, w, r1[0])
				}
			}
			k.violation("print-ofmt", class, fmt.Sprintf("%s, OFMT=%q CONVFMT=%q: print %s wrote %s, expected %s",
				p.modeTag(), ofmt, convfmt, a.String(), core.Q(string(r1[0])), core.Q(string(f1[0].known))),
				core.Q(string(f1[0].known)), core.Q(string(r1[0])), c09Case{Gen: k.gen, Print: one})
		}
		if !found {
			var l []string
			for _, a := range g {
				l = append(l, a.String())
			}
			k.violation("print-ofmt", "", fmt.Sprintf("%s, OFMT=%q CONVFMT=%q: print %s wrote %s, expected %s (every argument printed alone is written correctly)",
				p.modeTag(), ofmt, convfmt, strings.Join(l, ", "), core.Q(string(recs[gi])), c09FieldsText(fields, sep)),
				c09FieldsText(fields, sep), core.Q(string(recs[gi])), c09Case{Gen: k.gen, Print: p.with([][]cp.Arg{g})})
		}
	}
}

var (
	c09PrintXStrs = []string{"a,b", "q\"q", " lead", "t\tb", "x;y", "", "1,5", "3.14159", "-", "abc", "0x1A", "é", "日本", "a b", "2.50"}
	c09PrintXFlds = []string{"42", "-1.5", " 12 ", "1e2", "abc", "", "3.14159", "0.10", "+0.5", "007", "1,5", "a;b", "2.500", "1e-3", "é"}
	c09PrintXConv = []string{"", "%.3g", "%.8g", "%d", "%.2e", "%.1f"}
	c09PrintXORS  = []string{"\n", "\r\n", ";;\n", "\x02", c09Sep}
	c09PrintXOFS  = []string{" ", ":", "", "<->", "\t", ", ", c09OFS}
)

// c09PrintXProg builds extended print probe i.
func c09PrintXProg(rng *rand.Rand, i int, pool []cp.Arg) *c09Print {
	p := &c09Print{}
	switch i % 8 {
	case 0, 1, 2:
		p.OutMode = "csv"
	case 3, 4:
		p.OutMode = "tsv"
	case 5:
		p.OutMode = "csv;"
	default:
		ors, ofs := c09PrintXORS[(i/8)%len(c09PrintXORS)], c09PrintXOFS[(i/8)%len(c09PrintXOFS)]
		p.ORS, p.OFS = &ors, &ofs
	}
	p.ViaVar = p.OutMode != "" && (i/8)%2 == 1
	switch r := rng.Intn(40); {
	case r < 2: // a command per program is the costly part
		p.Dest = "pipe"
	case r < 10:
		p.Dest = "file"
	case r < 18:
		p.Dest = "devstdout"
	}
	// OFMT always differs from CONVFMT, or the rule "print uses OFMT" is not observable
	if j := i % (len(c09OFMTs) + 1); j < len(c09OFMTs) {
		of := c09OFMTs[j]
		p.OFMT = &of
	}
	ofmt := "%.6g"
	if p.OFMT != nil {
		ofmt = p.OFMT.Awk()
	}
	for j := i / 5; ; j++ {
		cf := c09PrintXConv[j%len(c09PrintXConv)]
		if cf != ofmt && !(cf == "" && ofmt == "%.6g") {
			p.CONVFMT = cf
			break
		}
	}
	_, term := p.sepTerm()
	ng := 6 + rng.Intn(9)
	for g := 0; g < ng; g++ {
		n := 1 + rng.Intn(5)
		if rng.Intn(3) == 0 {
			n = 1
		}
		var grp []cp.Arg
		for j := 0; j < n; j++ {
			var a cp.Arg
			switch r := rng.Intn(20); {
			case r < 9:
				a = cp.Num(c09Nums[rng.Intn(len(c09Nums))])
			case r < 12:
				for a = c09RandArg(rng, pool); a.K != "num"; a = c09RandArg(rng, pool) {
				}
			case r < 14:
				a = cp.Str(c09PrintXStrs[rng.Intn(len(c09PrintXStrs))])
			case r < 16:
				a = cp.Fld(c09PrintXFlds[rng.Intn(len(c09PrintXFlds))])
			default:
				a = c09RandArg(rng, pool)
			}
			if a.K != "num" && (bytes.ContainsAny(a.S, "|\n\r\x01\x02\x03") || len(a.S) > 80 || bytes.Contains(a.S, []byte(term))) {
				a = cp.Str("s")
			}
			grp = append(grp, a)
		}
		p.Groups = append(p.Groups, grp)
	}
	return p
}
