package props

// C13 — output reaches each destination completely, in order, exactly once.
//
// Monitors (all observe executions of the real goawk code):
//
//	hist-api      generated output histories run through interp.Execute with Output = bytes.Buffer /
//	              bufio over a file (what the goawk binary uses) / *os.File / pipe; final stdout, every
//	              file, mid-run file snapshots (native function), close() statuses and the way the run
//	              ended are compared with the destination model c13dst (DST).
//	hist-cli      the same histories through the goawk binary (stdout = regular file or pipe).
//	fault-api     for a program whose fault-free stdout is N bytes: a writer that accepts k bytes and
//	              then fails, for EVERY k in [0,N], unbuffered and behind bufio of several sizes.
//	fault-strace  goawk binary under strace, ENOSPC injected into the n-th write to the stdout file, for
//	              every n.
//	sigpipe       goawk binary writing into a pipe whose reader has gone away.
//	race-cli      goawk built with -race on histories where a command and the program use stdout at
//	              the same time, repeated.
//	race-api      the same kind of history through interp.Execute inside the race-built harness binary
//	              (vcheck-race C13 --replay <case> as a sub-process; the children of this check run from
//	              the plain binary).
//	early-api/-cli  deterministic family (real /bin/sh): a `print | cmd` stream still holds buffered
//	              data when it is closed or the run ends, and the command has already closed its
//	              stdin (or exited); close() status, the command's result file read right after
//	              close() / after the run, its output on the shared stdout, the end of the run.
//	fixed-api/-cli  hand-written real-shell scenarios with exact expected bytes for every destination
//	              (command writing to stderr, /dev/stdout and - mixed with system(), ORS/OFS variations,
//	              16 destinations at once in default/CSV/TSV output mode with LF/CRLF).
//
// A share of the histories (hist-*, fault-*, sigpipe) runs in CSV/TSV output mode, in CRLF newline
// output mode and with the stream names /dev/stdout, - and /dev/stderr (c13dst.Params CSV/CRLF/Names).

import (
	"bufio"
	"bytes"
	"context"
	"encoding/json"
	"errors"
	"fmt"
	"io"
	"os"
	"os/exec"
	"path/filepath"
	"regexp"
	"runtime"
	"runtime/pprof"
	"sort"
	"strconv"
	"strings"
	"syscall"
	"time"

	"github.com/benhoyt/goawk/interp"

	"verifharness/c13dst"
	"verifharness/core"
	"verifharness/run"
)

// ---- the replayable case -------------------------------------------------------------------

type c13Case struct {
	Mon    string         `json:"monitor"`
	Out    string         `json:"output"` // API: buffer | bufio-file | file | pipe; CLI: file | pipe
	Hist   c13dst.History `json:"history"`
	Prog   string         `json:"program"`         // rendered from History (for the reader; replay re-renders)
	K      int            `json:"fail_at_byte"`    // fault-api: the writer accepts K bytes
	Buf    int            `json:"bufio_size"`      // fault-api: 0 = unbuffered writer
	WriteN int            `json:"fail_write_call"` // fault-strace: which write(2) to the stdout file fails
	ReadK  int            `json:"reader_reads"`    // sigpipe: bytes the reader takes before it closes (-1: closed before start)
	Reps   int            `json:"repetitions"`     // schedule-dependent cases: how often the run is repeated
	Race   bool           `json:"race_detector"`   // run needs the -race binaries
	// early-api / early-cli: a command that gives up its standard input before the stream is closed;
	// fixed-api / fixed-cli: a hand-written real-shell scenario
	Early *c13dst.EarlyClose `json:"early_close,omitempty"`
	Fixed *c13dst.Fixed      `json:"fixed,omitempty"`
}

type c13Finding struct {
	kind, class, summary, expected, observed string
}

// c13Obs is what one execution showed.
type c13Obs struct {
	Stdout  []byte
	Files   map[string][]byte
	Recs    map[int]int
	Snaps   map[int]c13Snap
	Status  int
	Failed  bool // API: Execute returned an error; CLI: killed by a signal or crashed
	ErrText string
	Stderr  string
	Crash   string
	CLI     bool
}

type c13Snap struct {
	content []byte
	exists  bool
}

// ---- judging an observation against the model ----------------------------------------------

var c13OwnFiles = map[string]bool{"prog.awk": true, "stdin": true, "stderr": true, "stdout": true, "results": true, "strace.log": true}

func c13Judge(h *c13dst.History, e *c13dst.Expect, o *c13Obs) []c13Finding {
	var fs []c13Finding
	add := func(kind, class, summary, exp, obs string) {
		fs = append(fs, c13Finding{kind, class, summary, exp, obs})
	}
	if o.Crash != "" {
		add("crash", "crash", "goawk crashed: "+firstLineOf(o.Crash), "a status or an error", core.Clip(o.Crash, 1500))
		return fs
	}
	// how the run ended
	switch e.End.Kind {
	case "normal", "exit":
		if o.Failed || (o.ErrText != "" && !o.CLI) {
			add("end", "unexpected-error", fmt.Sprintf("run ended with an error (%s) where the history ends by %s", core.Clip(o.ErrText, 200), e.End.Kind), "no error", o.ErrText+"\nstderr: "+core.Clip(o.Stderr, 1500))
		} else if o.Status != e.End.Status {
			add("end", "status", fmt.Sprintf("exit status %d, history ends by %s with status %d; stderr: %q", o.Status, e.End.Kind, e.End.Status, core.Clip(o.Stderr, 300)), fmt.Sprint(e.End.Status), fmt.Sprint(o.Status)+"\nstderr: "+core.Clip(o.Stderr, 1500))
		}
	case "error":
		if o.CLI && o.Status == 0 || !o.CLI && !o.Failed {
			add("end", "error-expected", fmt.Sprintf("run succeeded although op %d (%s) is a run-time error", e.End.At, h.Ops[e.End.At].Kind), "error", "success")
		}
	}
	// shared standard output
	if m := c13dst.CheckStdout(e, o.Stdout); m != nil {
		add("stdout", m.What, "stdout: "+m.Detail, m.Expected, m.Observed)
	}
	// lines written to /dev/stderr
	if m := c13dst.CheckStderr(e, []byte(o.Stderr)); m != "" {
		add("stderr", "content", m, "", "")
	}
	// every file of the work directory
	var names []string
	for n := range e.Files {
		names = append(names, n)
	}
	sort.Strings(names)
	for _, n := range names {
		got, ok := o.Files[n]
		kind := "file"
		if strings.HasPrefix(n, "s") {
			kind = "sink"
		}
		if !ok {
			add("file", kind+":missing", fmt.Sprintf("%s does not exist at the end of the run (model: %d bytes)", n, len(e.Files[n])), "", "")
		} else if !bytes.Equal(got, e.Files[n]) {
			add("file", kind+":content", fmt.Sprintf("%s at the end of the run: %s", n, c13dst.DiffBytes(e.Files[n], got)), "", "")
		}
	}
	for n := range o.Files {
		if _, ok := e.Files[n]; !ok && !c13OwnFiles[n] {
			add("file", "unexpected", fmt.Sprintf("file %s (%d bytes) exists although the history never opens it", n, len(o.Files[n])), "", "")
		}
	}
	// mid-run snapshots
	var ids []int
	for id := range e.Snaps {
		ids = append(ids, id)
	}
	sort.Ints(ids)
	for _, id := range ids {
		s, ok := o.Snaps[id]
		if !ok {
			continue // API only
		}
		if msg := c13dst.CheckSnap(e.Snaps[id], s.content, s.exists); msg != "" {
			cls := "while-open"
			if e.Snaps[id].AfterSystem {
				cls = "open-file-after-system"
			} else if e.Snaps[id].Exact {
				cls = "after-close"
			} else if e.Snaps[id].Missing {
				cls = "never-opened"
			}
			add("snapshot", cls, fmt.Sprintf("op %d: %s", id, msg), "", "")
		}
	}
	// close() statuses: the log must contain exactly the executed ops; values are judged only
	// where the property pins them (commands)
	want := map[int]bool{}
	for _, r := range e.Recs {
		want[r.ID] = true
		v, ok := o.Recs[r.ID]
		if !ok {
			add("result-log", "missing", fmt.Sprintf("op %d (%s) left no result although the model executes it", r.ID, r.What), "", "")
		} else if r.Judged && v != r.Value {
			add("close-status", string(h.Ops[r.ID].Kind)+":"+string(h.Ops[r.ID].Dest.Kind), fmt.Sprintf("op %d %s returned %d, the command exits with %d", r.ID, r.What, v, r.Value), fmt.Sprint(r.Value), fmt.Sprint(v))
		}
	}
	for id := range o.Recs {
		if !want[id] {
			add("result-log", "extra", fmt.Sprintf("op %d left a result although the run must have ended before it", id), "", "")
		}
	}
	return fs
}

// c13Expectations returns the admissible models of a history (two when it contains a getline
// from a writer before any other end of run: error, or a returned value).
func c13Expectations(h *c13dst.History, base c13dst.Options) []*c13dst.Expect {
	l := []*c13dst.Expect{c13dst.Run(h, base)}
	if t := h.FirstStop(); t >= 0 && h.Ops[t].Kind == c13dst.GetlineW {
		alt := base
		alt.GetlineWriterContinues = true
		l = append(l, c13dst.Run(h, alt))
	}
	return l
}

// c13JudgeAny accepts an observation that agrees with any admissible model; otherwise the
// findings against the primary model are returned.
func c13JudgeAny(h *c13dst.History, exps []*c13dst.Expect, o *c13Obs) []c13Finding {
	first := c13Judge(h, exps[0], o)
	if len(first) == 0 {
		return nil
	}
	for _, e := range exps[1:] {
		if len(c13Judge(h, e, o)) == 0 {
			return nil
		}
	}
	return first
}

// ---- work directory ------------------------------------------------------------------------

var c13CaseSeq int

func c13CaseDir(c *core.Ctx) string {
	c13CaseSeq++
	d := filepath.Join(c.WorkDir(), fmt.Sprintf("c%d", c13CaseSeq))
	_ = os.RemoveAll(d)
	if err := os.MkdirAll(d, 0o755); err != nil {
		panic(err)
	}
	return d
}

func c13Prepare(dir string, h *c13dst.History) {
	for _, k := range h.Pre {
		name := k
		if strings.HasPrefix(k, "s") {
			name = k + ".out"
		}
		_ = os.WriteFile(filepath.Join(dir, name), c13dst.OldContent(k), 0o644)
	}
	_ = os.WriteFile(filepath.Join(dir, "stdin"), []byte(h.StdinText()), 0o644)
}

func c13ReadDir(dir string) map[string][]byte {
	m := map[string][]byte{}
	ents, _ := os.ReadDir(dir)
	for _, en := range ents {
		if en.IsDir() || strings.HasPrefix(en.Name(), "race") {
			continue
		}
		b, err := os.ReadFile(filepath.Join(dir, en.Name()))
		if err == nil {
			m[en.Name()] = b
		}
	}
	return m
}

// ---- API runs ------------------------------------------------------------------------------

// c13RunAPI executes the history's program in-process. wrap, if set, replaces the output
// writer (fault enumeration); otherwise outKind selects it.
func c13RunAPI(dir string, h *c13dst.History, src string, outKind string, wrap io.Writer, mods ...func(*interp.Config)) (*c13Obs, error) {
	o := &c13Obs{Recs: map[int]int{}, Snaps: map[int]c13Snap{}}
	c13Prepare(dir, h)
	funcs := map[string]any{
		"rec": func(id, v int) { o.Recs[id] = v },
		"snap": func(id int) {
			if id < 0 || id >= len(h.Ops) {
				return
			}
			d := h.Ops[id].Dest
			name := d.Key()
			if d.Kind == c13dst.Sink {
				name += ".out"
			}
			b, err := os.ReadFile(filepath.Join(dir, name))
			o.Snaps[id] = c13Snap{content: b, exists: err == nil}
		},
	}
	prog, perr, pm := run.Parse(src, funcs)
	if pm != "" || perr != nil {
		return nil, fmt.Errorf("generated program does not parse: %v %s", perr, pm)
	}
	stdin, err := os.Open(filepath.Join(dir, "stdin"))
	if err != nil {
		return nil, err
	}
	defer stdin.Close()
	stderr, err := os.Create(filepath.Join(dir, "stderr"))
	if err != nil {
		return nil, err
	}
	defer stderr.Close()
	cfg := &interp.Config{
		Stdin: stdin, Error: stderr, Funcs: funcs, Vars: []string{"W", dir},
		ShellCommand: []string{filepath.Join(core.BuildDir, "vsh")}, Environ: []string{},
	}
	if h.ModeVia != "begin" {
		switch h.Mode {
		case c13dst.ModeCSV:
			cfg.OutputMode = interp.CSVMode
		case c13dst.ModeTSV:
			cfg.OutputMode = interp.TSVMode
		}
	}
	if h.CRLF {
		cfg.NewlineOutput = interp.CRLFNewlineMode
	}
	for _, m := range mods {
		m(cfg)
	}
	var collect func() []byte
	switch {
	case wrap != nil:
		cfg.Output = wrap
		collect = func() []byte { return nil }
	case outKind == "buffer":
		buf := &bytes.Buffer{}
		cfg.Output = buf
		collect = func() []byte { return buf.Bytes() }
	case outKind == "bufio-file" || outKind == "file":
		f, err := os.Create(filepath.Join(dir, "stdout"))
		if err != nil {
			return nil, err
		}
		if outKind == "file" {
			cfg.Output = f // an *os.File is handed to children as it is: no copying goroutine
		} else {
			// what goawk.go does when stdout is not a terminal.  The harness never flushes this
			// writer itself: delivering the tail is the interpreter's job.
			cfg.Output = bufio.NewWriterSize(f, 64*1024)
		}
		collect = func() []byte {
			_ = f.Close()
			b, _ := os.ReadFile(filepath.Join(dir, "stdout"))
			return b
		}
	case outKind == "pipe":
		r, w, err := os.Pipe()
		if err != nil {
			return nil, err
		}
		done := make(chan []byte, 1)
		go func() { b, _ := io.ReadAll(r); _ = r.Close(); done <- b }()
		cfg.Output = w
		collect = func() []byte { _ = w.Close(); return <-done }
	default:
		return nil, fmt.Errorf("unknown output kind %q", outKind)
	}
	out := run.Exec(prog, cfg, run.Opts{StepLimit: 20_000_000})
	o.Stdout = collect()
	o.Status, o.ErrText, o.Failed, o.Crash = out.Status, out.Err, out.Err != "", out.Panic
	if out.StepLimit {
		return nil, errors.New("step limit reached")
	}
	o.Files = c13ReadDir(dir)
	o.Stderr = string(o.Files["stderr"])
	return o, nil
}

// ---- CLI runs ------------------------------------------------------------------------------

type c13CLIOpts struct {
	bin      string   // goawk or goawk-race
	env      []string // extra environment
	prefix   []string // e.g. strace …
	stdout   string   // "file" | "pipe"
	readK    int      // pipe: -2 read everything, -1 reader closed before start, k>=0 read k bytes then close
	pipeSize int      // F_SETPIPE_SZ for the stdout pipe (0: default)
	// slowTail > 0: the reader of the stdout pipe takes everything up to the last slowTail of
	// expectTotal bytes at full speed and the rest slowly (4 KiB, then 25 ms pause).  An injected
	// delay, never a verdict.
	slowTail, expectTotal int
}

func c13RunCLI(dir string, h *c13dst.History, src string, opt c13CLIOpts) (*c13Obs, string, error) {
	o := &c13Obs{Recs: map[int]int{}, Snaps: map[int]c13Snap{}, CLI: true}
	c13Prepare(dir, h)
	pf := filepath.Join(dir, "prog.awk")
	if err := os.WriteFile(pf, []byte(src), 0o644); err != nil {
		return nil, "", err
	}
	bin := opt.bin
	if bin == "" {
		bin = filepath.Join(core.BuildDir, "goawk")
	}
	args := append(append([]string{}, opt.prefix...), bin, "-v", "W="+dir, "-v", "VSH="+filepath.Join(core.BuildDir, "vsh"))
	if h.Mode != c13dst.ModeNone && h.ModeVia != "begin" {
		args = append(args, "-o", h.Mode)
	}
	if h.CRLF {
		args = append(args, "-N", "crlf")
	}
	args = append(args, "-f", pf)
	ctx, cancel := context.WithTimeout(context.Background(), 10*time.Minute)
	defer cancel()
	cmd := exec.CommandContext(ctx, args[0], args[1:]...)
	cmd.Dir = dir
	cmd.Env = append([]string{"PATH=/usr/bin:/bin", "HOME=/nonexistent"}, opt.env...)
	stdin, err := os.Open(filepath.Join(dir, "stdin"))
	if err != nil {
		return nil, "", err
	}
	defer stdin.Close()
	cmd.Stdin = stdin
	stderr, err := os.Create(filepath.Join(dir, "stderr"))
	if err != nil {
		return nil, "", err
	}
	defer stderr.Close()
	cmd.Stderr = stderr
	var collect func() []byte
	if opt.stdout == "pipe" {
		r, w, err := os.Pipe()
		if err != nil {
			return nil, "", err
		}
		if opt.pipeSize > 0 {
			_, _, _ = syscall.Syscall(syscall.SYS_FCNTL, w.Fd(), 1031 /* F_SETPIPE_SZ */, uintptr(opt.pipeSize))
		}
		cmd.Stdout = w
		done := make(chan []byte, 1)
		switch {
		case opt.readK == -1:
			_ = r.Close()
			done <- nil
		case opt.readK >= 0:
			go func() {
				b := make([]byte, opt.readK)
				n, _ := io.ReadFull(r, b)
				_ = r.Close()
				done <- b[:n]
			}()
		case opt.slowTail > 0:
			go func() {
				var all []byte
				buf := make([]byte, 4096)
				for {
					n, err := r.Read(buf)
					all = append(all, buf[:n]...)
					if err != nil {
						break
					}
					if len(all) > opt.expectTotal-opt.slowTail {
						time.Sleep(c13SlowPause)
					}
				}
				_ = r.Close()
				done <- all
			}()
		default:
			go func() { b, _ := io.ReadAll(r); _ = r.Close(); done <- b }()
		}
		collect = func() []byte { _ = w.Close(); return <-done }
		defer w.Close()
	} else {
		f, err := os.Create(filepath.Join(dir, "stdout"))
		if err != nil {
			return nil, "", err
		}
		cmd.Stdout = f
		collect = func() []byte {
			_ = f.Close()
			b, _ := os.ReadFile(filepath.Join(dir, "stdout"))
			return b
		}
	}
	if err := cmd.Start(); err != nil {
		collect()
		return nil, "", err
	}
	if opt.stdout == "pipe" {
		// the parent's copy of the write end must go away, or a vanished reader is never noticed
		_ = cmd.Stdout.(*os.File).Close()
	}
	werr := cmd.Wait()
	o.Stdout = collect()
	if ctx.Err() != nil {
		return nil, "", errors.New("cli watchdog")
	}
	if ee, ok := werr.(*exec.ExitError); ok {
		o.Status = ee.ExitCode()
		if o.Status < 0 {
			o.Failed = true
			o.ErrText = ee.String()
		}
	} else if werr != nil {
		return nil, "", werr
	}
	_ = stderr.Sync()
	eb, _ := os.ReadFile(filepath.Join(dir, "stderr"))
	es := string(eb)
	o.Stderr = es
	if o.Status != 0 {
		o.ErrText = core.JoinNonEmpty(" ", o.ErrText, core.Clip(es, 300))
	}
	if strings.Contains(es, "panic:") || strings.Contains(es, "fatal error:") || strings.Contains(es, "goroutine 1 [") {
		o.Crash = es
	}
	o.Files = c13ReadDir(dir)
	for _, line := range strings.Split(string(o.Files["results"]), "\n") {
		id, v, ok := strings.Cut(strings.TrimRight(line, "\r"), "=") // "\r": CRLF newline output mode
		if !ok {
			continue
		}
		i, e1 := strconv.Atoi(id)
		n, e2 := strconv.Atoi(v)
		if e1 == nil && e2 == nil {
			o.Recs[i] = n
		}
	}
	return o, es, nil
}

// ---- fault-injecting writers ---------------------------------------------------------------

var errC13Injected = errors.New("injected write failure (device full)")

// c13Caller names the innermost goawk interp function on the stack.
func c13Caller() string {
	pcs := make([]uintptr, 32)
	n := runtime.Callers(3, pcs)
	frames := runtime.CallersFrames(pcs[:n])
	for {
		f, more := frames.Next()
		if i := strings.Index(f.Function, "goawk/interp."); i >= 0 {
			name := f.Function[i+len("goawk/interp."):]
			name = strings.TrimPrefix(name, "(*interp).")
			name = strings.TrimPrefix(name, "(*Interpreter).")
			if strings.HasPrefix(name, "(*syncWriter).") && more {
				continue // the locking wrapper around the output writer: report who called it
			}
			return name
		}
		if !more {
			return "?"
		}
	}
}

// c13FailWriter accepts limit bytes, then fails every write.
type c13FailWriter struct {
	limit      int
	got        []byte
	failed     bool
	failCaller string
}

func (w *c13FailWriter) Write(p []byte) (int, error) {
	if w.failed {
		return 0, errC13Injected
	}
	room := w.limit - len(w.got)
	if len(p) <= room {
		w.got = append(w.got, p...)
		return len(p), nil
	}
	w.got = append(w.got, p[:room]...)
	w.failed = true
	w.failCaller = c13Caller()
	return room, errC13Injected
}

// c13FlushRec is a real bufio.Writer whose Flush calls are recorded with the goawk function
// that made them and whether an error came back — so that "who was told about the failure" is
// observed, not inferred.
type c13FlushRec struct {
	*bufio.Writer
	errTo []string // callers whose Flush returned an error
}

func (f *c13FlushRec) Flush() error {
	err := f.Writer.Flush()
	if err != nil {
		f.errTo = append(f.errTo, c13Caller())
	}
	return err
}

// c13SlowPause is the pause of the slow consumers per 4 KiB taken: the last 100 KB of standard
// output take about 0.6 s, more than the 250 ms goawk gives os/exec to finish copying a child's
// output after the child has exited.
const c13SlowPause = 25 * time.Millisecond

// c13SlowWriter is a Config.Output that accepts the head of the output at full speed and the
// last `tail` of `total` bytes slowly (it sleeps in Write; it has no ReadFrom).  Nothing fails.
type c13SlowWriter struct {
	total, tail int
	got         []byte
}

func (w *c13SlowWriter) Write(p []byte) (int, error) {
	for off := 0; off < len(p); off += 4096 {
		end := c13Min(off+4096, len(p))
		w.got = append(w.got, p[off:end]...)
		if len(w.got) > w.total-w.tail {
			time.Sleep(c13SlowPause)
		}
	}
	return len(p), nil
}

// ---- race log ------------------------------------------------------------------------------

var c13RaceHead = regexp.MustCompile(`(?m)^(Write|Read|Previous write|Previous read|Atomic write|Atomic read|Previous atomic write|Previous atomic read) at 0x[0-9a-f]+ by `)

// c13RaceClasses splits a race-detector log into reports and names each by the pair of
// innermost goawk frames of the two accesses (the os/exec output copier has none: it is named
// by itself).
func c13RaceClasses(log string) (classes []string, texts []string) {
	for _, rep := range strings.Split(log, "WARNING: DATA RACE")[1:] {
		if i := strings.Index(rep, "\n=================="); i >= 0 {
			rep = rep[:i]
		}
		idx := c13RaceHead.FindAllStringIndex(rep, -1)
		var labels []string
		for k, loc := range idx {
			end := len(rep)
			if k+1 < len(idx) {
				end = idx[k+1][0]
			}
			stack := rep[loc[0]:end]
			if j := strings.Index(stack, "\n\n"); j >= 0 {
				stack = stack[:j]
			}
			labels = append(labels, c13StackLabel(stack))
		}
		sort.Strings(labels)
		classes = append(classes, "race:"+strings.Join(labels, "|"))
		texts = append(texts, "WARNING: DATA RACE"+rep)
	}
	return
}

func c13StackLabel(stack string) string {
	first := ""
	copier := false
	for _, l := range strings.Split(stack, "\n")[1:] {
		if l == "" || l[0] == ' ' && strings.HasPrefix(strings.TrimSpace(l), "/") {
			continue
		}
		fn := strings.TrimSpace(l)
		fn = strings.TrimSuffix(fn, "()")
		if first == "" {
			first = fn
		}
		if i := strings.Index(fn, "goawk/interp."); i >= 0 {
			name := fn[i+len("goawk/"):]
			name = strings.Replace(name, "(*interp).", "", 1)
			return name
		}
		if strings.HasPrefix(fn, "main.") && !strings.Contains(fn, "verifharness") {
			return "goawk." + fn
		}
		if strings.Contains(fn, "os/exec.(*Cmd).writerDescriptor") {
			copier = true
		}
	}
	if copier {
		return "os/exec.output-copier"
	}
	return first
}

// c13OwnRaceLog returns the race log this (race-built) process has written so far.
func c13OwnRaceLog() string {
	for _, f := range strings.Fields(os.Getenv("GORACE")) {
		if p, ok := strings.CutPrefix(f, "log_path="); ok {
			b, _ := os.ReadFile(fmt.Sprintf("%s.%d", p, os.Getpid()))
			return string(b)
		}
	}
	return ""
}

// ---- reporting -----------------------------------------------------------------------------

const c13ExposedClass = "concurrent-command:nonfile-output"

// c13Report turns findings into violations. In a history where a relay command runs
// concurrently with other stdout traffic AND stdout is not an *os.File (so that os/exec copies
// the child's output into the interpreter's writer from another goroutine), every symptom has
// the one known cause and is classified by that precondition, not by the symptom.
func c13Report(c *core.Ctx, cs c13Case, exposed string, fs []c13Finding) {
	for _, f := range fs {
		class := f.kind + ":" + f.class
		summary := fmt.Sprintf("[%s %s] %s", cs.Mon, cs.Out, f.summary)
		if exposed != "" {
			class = c13ExposedClass
			summary += " — concurrent stdout writers: " + exposed
			c.Violation("shared-stdout", class, summary, f.expected, f.observed, cs)
			continue
		}
		c.Violation(f.kind, class, summary, f.expected, f.observed, cs)
	}
}

func c13CoverHistory(c *core.Ctx, cs *c13Case, e *c13dst.Expect) {
	h := &cs.Hist
	for i, op := range h.Ops {
		if e.End.At >= 0 && i > e.End.At {
			break
		}
		c.Cover("op_kinds", strings.Trim(fmt.Sprintf("%s:%s:%s:%s", op.Kind, op.Dest.Kind, op.Redir, op.Form), ":"))
		if op.Name != "" {
			c.Cover("op_kinds", fmt.Sprintf("print:stdout-by-name:%s:%s", op.Name, op.Redir))
		}
	}
	// CSV/TSV output mode: histories, rows, and the histories in which rows written by print go to
	// two or more distinct destinations (where a row can reach the wrong one)
	if len(e.CSVRowDests) > 0 {
		c.Count("csv_mode_histories", 1)
		rows := 0
		for k, n := range e.CSVRowDests {
			rows += n
			c.Cover("csv_row_destinations", cs.Mon+":"+strings.TrimRight(k, "0123456789"))
		}
		c.Count("csv_rows_modelled", rows)
		if len(e.CSVRowDests) >= 2 {
			c.Count("csv_mode_histories_multi_destination", 1)
		}
		c.Max("max_csv_destinations_one_history", int64(len(e.CSVRowDests)))
		c.Cover("csv_mode_set_by", cs.Mon+":"+core.JoinNonEmpty("+", h.Mode, h.ModeVia))
	}
	if h.CRLF {
		c.Count("crlf_mode_histories", 1)
	}
	if len(e.Stderr) > 0 {
		c.Count("histories_writing_dev_stderr", 1)
	}
	for _, ev := range e.Events {
		c.Cover("model_events", ev)
	}
	end := e.End.Kind
	if e.End.At >= 0 {
		end += ":" + string(h.Ops[e.End.At].Kind) + "@" + h.SectionOf(e.End.At)
	}
	c.Cover("endings", end)
	c.Cover("outputs", cs.Mon+":"+cs.Out)
	if e.ExposedCmd != "" && e.ExposedRelay == "" {
		c.Count("histories_exposed_silent_command", 1)
	}
	if e.ExposedRelay != "" {
		c.Count("histories_exposed_relay", 1)
	} else if len(e.Prods[c13dst.ProdRelay0])+len(e.Prods[c13dst.ProdRelay1]) > 0 {
		c.Count("histories_quiet_relay", 1)
	}
	if len(e.Prods[c13dst.ProdSys]) > 0 {
		c.Count("histories_with_system_child", 1)
	}
	for _, r := range e.Recs {
		if r.Judged {
			c.Count("close_statuses_judged", 1)
		}
	}
	c.Count("snapshots_expected", len(e.Snaps))
	c.Count("files_compared", len(e.Files))
	total := 0
	for _, n := range e.Wrote {
		total += n
		c.Max("max_bytes_one_destination", int64(n))
	}
	c.Count("bytes_written_by_histories", total)
}

func c13NonTrivialHistory(e *c13dst.Expect) bool {
	n := 0
	for _, b := range e.Wrote {
		if b > 0 {
			n++
		}
	}
	return n >= 2
}

// ---- monitors ------------------------------------------------------------------------------

// c13History runs one history case (API or CLI), possibly several times for schedule-
// dependent ones, and reports what disagrees with the model.
func c13History(c *core.Ctx, cs c13Case) {
	h := &cs.Hist
	src := c13dst.Render(h)
	exps := c13Expectations(h, c13dst.Options{})
	e := exps[0]
	// Which concurrency the output writer is exposed to (see c13Report).
	exposedWhy := ""
	switch {
	case cs.Mon == "hist-api" && (cs.Out == "file" || cs.Out == "pipe"):
		// *os.File: children get the descriptor itself, nothing is shared in the process
	default: // bytes.Buffer, bufio over a file (API), and the goawk binary (always bufio)
		exposedWhy = core.JoinNonEmpty("; ", e.ExposedRelay, e.ExposedCmd)
	}
	if !c.Replay {
		c13CoverHistory(c, &cs, e)
		if c13NonTrivialHistory(e) {
			c.NonTrivial(cs.Mon + cs.Out + src)
		}
	}
	// once runs the case one time.
	once := func() (o *c13Obs, raceLog string, err error) {
		dir := c13CaseDir(c)
		defer os.RemoveAll(dir)
		switch cs.Mon {
		case "hist-api":
			before := ""
			if c13RaceBuild {
				before = c13OwnRaceLog()
			}
			o, err = c13RunAPI(dir, h, src, cs.Out, nil)
			if c13RaceBuild {
				raceLog = strings.TrimPrefix(c13OwnRaceLog(), before)
			}
		case "slow-api":
			total := 0
			for _, b := range e.Prods {
				total += len(b)
			}
			sw := &c13SlowWriter{total: total, tail: c13dst.SlowTail}
			o, err = c13RunAPI(dir, h, src, "", sw)
			if o != nil {
				o.Stdout = sw.got
			}
		case "hist-cli", "race-cli", "slow-cli":
			opt := c13CLIOpts{stdout: cs.Out, readK: -2}
			if cs.Mon == "slow-cli" {
				opt.pipeSize, opt.slowTail = 4096, c13dst.SlowTail
				for _, b := range e.Prods {
					opt.expectTotal += len(b)
				}
			}
			if cs.Mon == "race-cli" {
				opt.bin = filepath.Join(core.BuildDir, "goawk-race")
				opt.env = []string{"GORACE=halt_on_error=0 exitcode=0 log_path=" + filepath.Join(dir, "race")}
			}
			o, _, err = c13RunCLI(dir, h, src, opt)
			if cs.Mon == "race-cli" {
				logs, _ := filepath.Glob(filepath.Join(dir, "race.*"))
				for _, l := range logs {
					b, _ := os.ReadFile(l)
					raceLog += string(b)
				}
				c.Count("race_cli_runs", 1)
			}
		}
		c.Eval(1)
		return
	}
	hasChild := false
	for _, op := range h.Ops {
		if op.Kind == c13dst.System || op.Kind == c13dst.GetlineCmd || op.Dest.Kind == c13dst.Sink || op.Dest.Kind == c13dst.Relay {
			hasChild = true
		}
	}
	reps := cs.Reps
	if reps < 1 {
		reps = 1
	}
	for rep := 0; rep < reps; rep++ {
		o, raceLog, err := once()
		if err != nil {
			c.Inconclusive(cs.Mon + ":" + err.Error())
			return
		}
		// slow consumers: an expired WaitDelay is the very thing under observation there, not the machine
		slow := cs.Mon == "slow-cli" || cs.Mon == "slow-api"
		if why := c13Environment(o.Stderr); why != "" && !(slow && why == "waitdelay-expired") {
			// the machine, not goawk: counted and not judged (see notes, limits)
			c.Count("cases_not_judged:"+why, 1)
			continue
		}
		if slow && rep == 0 && !c.Replay {
			c.Count("slow_consumer_runs:"+cs.Mon, 1)
		}
		c.Count("stdout_bytes_compared", len(o.Stdout))
		c.Count("snapshots_taken", len(o.Snaps))
		fs := c13JudgeAny(h, exps, o)
		if len(fs) == 0 && len(exps) > 1 && len(c13Judge(h, exps[0], o)) != 0 {
			c.Count("getline_from_writer_returned", 1)
		}
		// Confirmation rule for histories with child processes outside the known concurrent
		// class: goawk gives os/exec 250 ms (WaitDelay) to collect an exited child's output, so a
		// starved machine can cut a child's output off (often without a message).  A finding is
		// reported only if the same case fails again on two immediate re-runs; one that does not
		// reproduce is counted and noted, not reported.
		if len(fs) > 0 && exposedWhy == "" && hasChild && !c.Replay {
			for again := 0; again < 2; again++ {
				o2, _, err2 := once()
				if err2 != nil || (c13Environment(o2.Stderr) != "" && !slow) || len(c13JudgeAny(h, exps, o2)) == 0 {
					c.Count("findings_not_reproduced", 1)
					c.Note("not reproduced on re-run (%s %s): %s", cs.Mon, cs.Out, core.Clip(fs[0].summary, 300))
					fs = nil
					break
				}
			}
		}
		if slow && len(fs) > 0 {
			// One cause, classified by its precondition (as the concurrent case is): whoever takes
			// goawk's standard output is slow while os/exec still copies a child's output into
			// goawk's output writer from a goroutine; that copy gets 250 ms (goawk: cmd.WaitDelay)
			// after the child's exit, then the pipe is closed and the rest is lost.  goawk's message
			// 'WaitDelay expired' is NOT a reliable signature: os/exec reports it only when the
			// child exited with status 0, and closeAll drops it.  Symptoms: bytes of the child missing
			// on stdout, system()/close() returning -1.  API: any Config.Output that is not an
			// *os.File.  CLI: goawk's own buffered stdout (repaired in 085e156: children get
			// os.Stdout itself).  Every other kind of finding stays strict.
			class := "child-output-lost:waitdelay:non-file-output"
			if cs.Mon == "slow-cli" {
				class = "waitdelay:own-stdout"
			}
			var rest []c13Finding
			lost := 0
			for _, f := range fs {
				if f.kind != "stdout" && f.kind != "close-status" {
					rest = append(rest, f)
					continue
				}
				lost++
				c.Violation("child-output-lost", class, fmt.Sprintf("[%s %s] %s — stderr: %q", cs.Mon, cs.Out, f.summary, core.Clip(o.Stderr, 200)), f.expected, f.observed, cs)
			}
			if lost > 0 {
				c.Count("slow_consumer_child_output_lost:"+cs.Mon, 1)
				if c.Replay {
					fmt.Printf("run %d: status=%d stdout=%d bytes: child output lost (%d findings) stderr=%q\n", rep+1, o.Status, len(o.Stdout), lost, core.Clip(o.Stderr, 200))
				}
			}
			fs = rest
		}
		c13Report(c, cs, exposedWhy, fs)
		classes, texts := c13RaceClasses(raceLog)
		for i, cl := range classes {
			c.Count("race_reports", 1)
			rc := cs
			rc.Race = true
			c.Violation("race", cl, fmt.Sprintf("[%s %s] race detector report: %s", cs.Mon, cs.Out, cl), "no data race", core.Clip(texts[i], 3500), rc)
		}
		if c.Replay {
			fmt.Printf("run %d: status=%d failed=%v err=%q stdout=%d bytes, findings=%d, race reports=%d\n", rep+1, o.Status, o.Failed, core.Clip(o.ErrText, 200), len(o.Stdout), len(fs), len(classes))
			for _, f := range fs {
				fmt.Printf("  finding %s:%s %s\n", f.kind, f.class, core.Clip(f.summary, 400))
			}
		}
		if len(fs) > 0 || len(classes) > 0 {
			return
		}
	}
}

// c13RaceAPI runs one history through interp.Execute inside the RACE-BUILT harness binary
// (vcheck-race C13 --replay <case>), because the children of this check run from the plain
// binary.  Every race report of that process is a violation carrying the case.
func c13RaceAPI(c *core.Ctx, cs c13Case) bool {
	dir := c13CaseDir(c)
	defer os.RemoveAll(dir)
	raw, _ := json.Marshal(cs)
	w := core.Witness{Property: "C13", Kind: "race", Case: raw, Seed: c.Seed, Tier: c.Tier, Batch: c.Batch}
	b, _ := json.Marshal(w)
	tmp := filepath.Join(dir, "case.json")
	_ = os.WriteFile(tmp, b, 0o644)
	ctx, cancel := context.WithTimeout(context.Background(), 10*time.Minute)
	defer cancel()
	cmd := exec.CommandContext(ctx, filepath.Join(core.BuildDir, "vcheck-race"), "C13", "--replay", tmp)
	cmd.Env = append(os.Environ(), "C13_KEEP_REPS=1", "GORACE=halt_on_error=0 exitcode=0 log_path="+filepath.Join(dir, "race"))
	out, _ := cmd.CombinedOutput()
	c.Eval(1)
	if ctx.Err() != nil {
		c.Inconclusive("race-api: watchdog")
		return false
	}
	if !strings.Contains(string(out), "\nrun ") { // no repetition was judged
		// e.g. every repetition was spoiled by the machine (see c13Environment); the floor on
		// race_api_runs guards against this becoming the rule
		c.Count("race_api_runs_without_result", 1)
		c.Note("race-api: vcheck-race produced no run: %s", core.Clip(string(out[c13Max(0, len(out)-300):]), 300))
		return false
	}
	c.Count("race_api_runs", 1)
	raceLog := ""
	logs, _ := filepath.Glob(filepath.Join(dir, "race.*"))
	for _, l := range logs {
		lb, _ := os.ReadFile(l)
		raceLog += string(lb)
	}
	classes, texts := c13RaceClasses(raceLog)
	for i, cl := range classes {
		c.Count("race_reports", 1)
		c.Violation("race", cl, fmt.Sprintf("[race-api %s] race detector report (harness built with -race): %s", cs.Out, cl), "no data race", core.Clip(texts[i], 3500), cs)
	}
	if c.Replay {
		fmt.Printf("--- vcheck-race ---\n%s--- %d race report(s) ---\n", out, len(classes))
	}
	return len(classes) > 0
}

// c13Environment recognises runs that the overloaded or exhausted machine spoiled: the shell
// could not fork, or os/exec's WaitDelay (250 ms in goawk) expired because the goroutine that
// copies an already exited child's output was not scheduled in time.  Such a run says nothing
// about the property either way.
func c13Environment(stderr string) string {
	switch {
	case strings.Contains(stderr, "WaitDelay expired"):
		return "waitdelay-expired"
	case strings.Contains(stderr, "annot fork"), strings.Contains(stderr, "esource temporarily unavailable"), strings.Contains(stderr, "annot allocate memory"):
		return "fork-failed"
	}
	return ""
}

// c13FaultAPI enumerates the failure points of one program for one writer configuration.
// ks lists the bytes at which the writer starts failing.
func c13FaultAPI(c *core.Ctx, cs c13Case, ks []int) {
	h := &cs.Hist
	src := c13dst.Render(h)
	full := c13dst.Run(h, c13dst.Options{})
	N := len(full.Exact)
	for _, k := range ks {
		cs.K = k
		if !c.Replay {
			c.Begin(cs)
		}
		dir := c13CaseDir(c)
		fw := &c13FailWriter{limit: k}
		var out io.Writer = fw
		var fr *c13FlushRec
		if cs.Buf > 0 {
			fr = &c13FlushRec{Writer: bufio.NewWriterSize(fw, cs.Buf)}
			out = fr
		}
		o, err := c13RunAPI(dir, h, src, "", out)
		c.Eval(1)
		if err != nil {
			c.Inconclusive("fault-api:" + err.Error())
			_ = os.RemoveAll(dir)
			return
		}
		o.Stdout = fw.got
		name := "direct"
		if cs.Buf > 0 {
			name = fmt.Sprintf("bufio%d", cs.Buf)
		}
		c.Count("fault_points_"+name, 1)
		var fs []c13Finding
		switch {
		case k >= N:
			// nothing fails: the run must look exactly like the fault-free one
			fs = c13Judge(h, full, o)
		case o.Crash != "":
			fs = append(fs, c13Finding{"crash", "crash", "goawk crashed: " + firstLineOf(o.Crash), "", o.Crash})
		case !o.Failed:
			told := "nobody"
			class := "direct:write-error-returned-to-" + fw.failCaller
			if fr != nil {
				told = strings.Join(fr.errTo, ",")
				class = "bufio:flush-error-returned-to-" + c13Uniq(fr.errTo)
				if strings.Contains(","+told+",", ",closeAll,") {
					class = "bufio:closeAll-discards-flush-error"
				}
			}
			c.Cover("silent_success_sites", class)
			fs = append(fs, c13Finding{"silent-write-failure", class,
				fmt.Sprintf("stdout writer (%s) failed after %d of %d bytes, Execute returned status %d and a nil error; the failing Write was reached from %s; Flush errors were returned to: %s",
					name, k, N, o.Status, fw.failCaller, told), "an error", "nil error"})
		default:
			c.Cover("failure_surfaced_in", fw.failCaller)
		}
		// whatever happened, what the writer accepted must be a prefix of the fault-free output
		if !bytes.HasPrefix(full.Exact, fw.got) || (cs.Buf == 0 && k < N && len(fw.got) != k) {
			fs = append(fs, c13Finding{"fault-prefix", name, fmt.Sprintf("bytes accepted before the failure at %d are not the first bytes of the fault-free output: %s", k, c13dst.DiffBytes(full.Exact[:c13Min(k, N)], fw.got)), "", ""})
		}
		// unbuffered writer: the failing print is known, so everything else must be as delivered
		// as after a run-time error at that op
		if cs.Buf == 0 && k < N && o.Failed && o.Crash == "" {
			e := c13dst.Run(h, c13dst.Options{FailStdout: true, FailAt: k})
			fs = append(fs, c13Judge(h, e, o)...)
			c.Count("fault_runs_files_compared", 1)
		}
		c13Report(c, cs, "", fs)
		_ = os.RemoveAll(dir)
		if c.Replay {
			fmt.Printf("k=%d of %d (%s): failed=%v err=%q accepted=%d findings=%d\n", k, N, name, o.Failed, o.ErrText, len(fw.got), len(fs))
		}
	}
}

func c13Uniq(l []string) string {
	seen := map[string]bool{}
	var out []string
	for _, s := range l {
		if !seen[s] {
			seen[s] = true
			out = append(out, s)
		}
	}
	if len(out) == 0 {
		return "nobody"
	}
	return strings.Join(out, "+")
}

var (
	c13StraceWrite   = regexp.MustCompile(`^(\d+)\s+write\(1, .*, (\d+)\)\s+= (-?\d+)(.*)$`)
	c13StraceUnfin   = regexp.MustCompile(`^(\d+)\s+write\(1, .*, (\d+) <unfinished \.\.\.>$`)
	c13StraceResumed = regexp.MustCompile(`^(\d+)\s+<\.\.\. write resumed>\)\s+= (-?\d+)(.*)$`)
)

// c13ParseStrace extracts the write(2) calls on descriptor 1 from an strace -f log, joining
// "<unfinished ...>" / "<... write resumed>" pairs of the same thread.
func c13ParseStrace(log string) []c13Write {
	var ws []c13Write
	pending := map[string]int{}
	for _, line := range strings.Split(log, "\n") {
		if m := c13StraceWrite.FindStringSubmatch(line); m != nil {
			n, _ := strconv.Atoi(m[2])
			r, _ := strconv.Atoi(m[3])
			ws = append(ws, c13Write{n, r, strings.Contains(m[4], "INJECTED")})
		} else if m := c13StraceUnfin.FindStringSubmatch(line); m != nil {
			pending[m[1]], _ = strconv.Atoi(m[2])
		} else if m := c13StraceResumed.FindStringSubmatch(line); m != nil {
			if n, ok := pending[m[1]]; ok {
				r, _ := strconv.Atoi(m[2])
				ws = append(ws, c13Write{n, r, strings.Contains(m[3], "INJECTED")})
				delete(pending, m[1])
			}
		}
	}
	return ws
}

// c13Write is one write(2) to the stdout file as logged by strace.
type c13Write struct {
	size, ret int
	injected  bool
}

// c13Strace runs the program under strace with stdout on a regular file. failN = 0: only log
// the write calls; failN = n: ENOSPC is injected with when=n.  strace counts `when` per
// thread, and the Go runtime may move the interpreter between threads, so which write really
// failed is read from the log, never assumed.
func c13Strace(dir string, h *c13dst.History, src string, failN int) (*c13Obs, []c13Write, error) {
	logf := filepath.Join(dir, "strace.log")
	prefix := []string{"strace", "-f", "-o", logf, "-P", filepath.Join(dir, "stdout"), "-e", "trace=write"}
	if failN > 0 {
		prefix = append(prefix, "-e", fmt.Sprintf("inject=write:error=ENOSPC:when=%d", failN))
	}
	o, _, err := c13RunCLI(dir, h, src, c13CLIOpts{prefix: prefix, stdout: "file", readK: -2})
	if err != nil {
		return nil, nil, err
	}
	lb, _ := os.ReadFile(logf)
	return o, c13ParseStrace(string(lb)), nil
}

// c13FaultStrace: every write(2) to the stdout file fails in turn.
func c13FaultStrace(c *core.Ctx, cs c13Case, only int) {
	h := &cs.Hist
	src := c13dst.Render(h)
	full := c13dst.Run(h, c13dst.Options{})
	N := len(full.Exact)
	dir := c13CaseDir(c)
	defer os.RemoveAll(dir)
	base, writes, err := c13Strace(dir, h, src, 0)
	c.Eval(1)
	if err != nil {
		c.Inconclusive("strace:" + err.Error())
		return
	}
	c.Count("strace_baseline_runs", 1)
	sum := 0
	for _, w := range writes {
		sum += w.ret
	}
	if fs := c13Judge(h, full, base); len(fs) > 0 {
		c13Report(c, cs, "", fs)
		return
	}
	if sum != N {
		c.Count("strace_log_not_understood", 1) // the floor on strace_injections guards against this becoming the rule
		c.Note("strace: logged writes carry %d bytes, stdout has %d", sum, N)
		return
	}
	c.Max("max_write_calls_to_stdout", int64(len(writes)))
	for n := 1; n <= len(writes); n++ {
		if only > 0 && n != only {
			continue
		}
		cs.WriteN = n
		if !c.Replay {
			c.Begin(cs)
		}
		d2 := c13CaseDir(c)
		o, ws, err := c13Strace(d2, h, src, n)
		c.Eval(1)
		if err != nil {
			c.Inconclusive("strace:" + err.Error())
			_ = os.RemoveAll(d2)
			return
		}
		// what the log of THIS run shows: bytes accepted before the first injected failure, and
		// the bytes that failing write carried
		hit, before, through := -1, 0, 0
		for i, w := range ws {
			if w.injected {
				hit, through = i, before+w.size
				break
			}
			if w.ret > 0 {
				before += w.ret
			}
		}
		if hit < 0 {
			c.Count("strace_injection_not_reached", 1) // the n-th write of one thread never came
			_ = os.RemoveAll(d2)
			continue
		}
		c.Count("strace_injections", 1)
		var fs []c13Finding
		if o.Crash != "" {
			fs = append(fs, c13Finding{"crash", "crash", "goawk crashed: " + firstLineOf(o.Crash), "", o.Crash})
		} else if o.Status == 0 && !o.Failed {
			// Nothing of the program's stdout output came after the failed write: only flushes
			// whose result the interpreter drops saw the error.  Otherwise a later print saw it.
			class := "stdout-output-followed-the-failed-write"
			if through >= N {
				class = "failed-write-carried-the-last-stdout-bytes"
			}
			fs = append(fs, c13Finding{"cli-silent-write-failure", class,
				fmt.Sprintf("write call %d to the stdout file (bytes %d..%d of %d) failed with ENOSPC; goawk exited 0; stderr: %q", hit+1, before, through, N, core.Clip(o.ErrText, 200)),
				"non-zero exit status", "exit status 0"})
		} else {
			c.Count("strace_injections_noticed", 1)
		}
		if !bytes.HasPrefix(full.Exact, o.Stdout) || len(o.Stdout) < before {
			fs = append(fs, c13Finding{"fault-prefix", "cli", fmt.Sprintf("stdout file after write %d failed (%d bytes were accepted before): %s", hit+1, before, c13dst.DiffBytes(full.Exact[:c13Min(before, N)], o.Stdout)), "", ""})
		}
		c13Report(c, cs, "", fs)
		if c.Replay {
			fmt.Printf("when=%d: write %d of the run failed: exit=%d stderr=%q findings=%d\n", n, hit+1, o.Status, core.Clip(o.ErrText, 200), len(fs))
		}
		_ = os.RemoveAll(d2)
	}
}

// c13Sigpipe: the reader of the stdout pipe goes away (before the start, or after ReadK
// bytes with a 4 KiB pipe): a program with more output than the pipe can hold must not succeed.
func c13Sigpipe(c *core.Ctx, cs c13Case) {
	h := &cs.Hist
	src := c13dst.Render(h)
	full := c13dst.Run(h, c13dst.Options{})
	N := len(full.Exact)
	need := 1
	if cs.ReadK >= 0 {
		need = cs.ReadK + 4096 + 1
	}
	if N < need {
		return
	}
	dir := c13CaseDir(c)
	defer os.RemoveAll(dir)
	o, _, err := c13RunCLI(dir, h, src, c13CLIOpts{stdout: "pipe", readK: cs.ReadK, pipeSize: 4096})
	c.Eval(1)
	if err != nil {
		c.Inconclusive("sigpipe:" + err.Error())
		return
	}
	c.Count("sigpipe_runs", 1)
	c.NonTrivial(fmt.Sprint("sigpipe", cs.ReadK, src))
	var fs []c13Finding
	if o.Status == 0 && !o.Failed {
		fs = append(fs, c13Finding{"cli-silent-write-failure", "broken-pipe", fmt.Sprintf("the reader of stdout closed after %d bytes, the program writes %d; goawk exited 0", cs.ReadK, N), "failure (signal or non-zero status)", "exit status 0"})
	} else if o.Failed {
		c.Cover("sigpipe_outcomes", "killed-by-signal")
	} else {
		c.Cover("sigpipe_outcomes", fmt.Sprintf("exit-%d", o.Status))
	}
	if !bytes.HasPrefix(full.Exact, o.Stdout) {
		fs = append(fs, c13Finding{"fault-prefix", "pipe", "bytes read from the pipe are not a prefix of the program's output: " + c13dst.DiffBytes(full.Exact, o.Stdout), "", ""})
	}
	c13Report(c, cs, "", fs)
	if c.Replay {
		fmt.Printf("reader closes after %d bytes of %d: exit=%d signalled=%v\n", cs.ReadK, N, o.Status, o.Failed)
	}
}

// ---- commands that give up their standard input early; fixed real-shell scenarios ------------

func c13RealShell(cfg *interp.Config) {
	cfg.ShellCommand = nil // the default: /bin/sh -c
	cfg.Environ = []string{"PATH", "/usr/bin:/bin"}
}

// c13RunPlain runs a hand-written program (API or CLI by monitor name) with the real shell.
func c13RunPlain(c *core.Ctx, cs c13Case, src, mode string, crlf bool) (*c13Obs, error) {
	dir := c13CaseDir(c)
	defer os.RemoveAll(dir)
	h := &c13dst.History{Mode: mode, ModeVia: "config", CRLF: crlf}
	var o *c13Obs
	var err error
	if strings.HasSuffix(cs.Mon, "-cli") {
		o, _, err = c13RunCLI(dir, h, src, c13CLIOpts{stdout: cs.Out, readK: -2})
	} else {
		o, err = c13RunAPI(dir, h, src, cs.Out, nil, c13RealShell)
	}
	c.Eval(1)
	return o, err
}

func c13JudgeEnd(want c13dst.End, o *c13Obs) []c13Finding {
	var fs []c13Finding
	switch want.Kind {
	case "normal", "exit":
		if o.Failed || (o.ErrText != "" && !o.CLI) {
			fs = append(fs, c13Finding{"end", "unexpected-error", fmt.Sprintf("run ended with an error (%s) where the program ends by %s", core.Clip(o.ErrText, 200), want.Kind), "no error", o.ErrText + "\nstderr: " + core.Clip(o.Stderr, 1500)})
		} else if o.Status != want.Status {
			fs = append(fs, c13Finding{"end", "status", fmt.Sprintf("exit status %d, the program ends by %s with status %d; stderr: %q", o.Status, want.Kind, want.Status, core.Clip(o.Stderr, 300)), fmt.Sprint(want.Status), fmt.Sprint(o.Status)})
		}
	case "error":
		if o.CLI && o.Status == 0 || !o.CLI && !o.Failed {
			fs = append(fs, c13Finding{"end", "error-expected", "run succeeded although the program ends with a run-time error", "error", "success"})
		}
	}
	return fs
}

// c13Early runs one scenario of the early-stdin-close family and judges exactly what the
// property states: close() reports the command's exit status; by the time close() has returned
// (or the run has returned) the command has finished its work (RESULT complete); what the
// command wrote to the shared stdout is there, in causal order; the run ends the way the program
// ends.  Whether the buffered rows reach a command that no longer reads is not judged.
func c13Early(c *core.Ctx, cs c13Case) {
	s := cs.Early
	src := s.Render()
	x := s.Expect()
	judge := func(o *c13Obs) (fs []c13Finding, skip string) {
		if o.Crash != "" {
			return []c13Finding{{"crash", "crash", "goawk crashed: " + firstLineOf(o.Crash), "", core.Clip(o.Crash, 1500)}}, ""
		}
		res := map[string]string{}
		for _, line := range strings.Split(string(o.Files["results"]), "\n") {
			if k, v, ok := strings.Cut(line, "="); ok {
				res[k] = v
			}
		}
		if res["hs"] == "timeout" {
			return nil, "handshake-watchdog"
		}
		if why := c13Environment(o.Stderr); why != "" {
			return nil, why
		}
		variant := s.Stdin + ":" + s.Ending
		if s.Ending == "close" {
			r, ok := res["close"]
			switch {
			case !ok:
				fs = append(fs, c13Finding{"cmd-early-close", "close-status:missing", fmt.Sprintf("[%s] close(cmd) left no result: the program did not get past it; stderr: %q", variant, core.Clip(o.Stderr, 300)), fmt.Sprint(x.CloseStatus), "nothing"})
			case r != fmt.Sprint(x.CloseStatus):
				fs = append(fs, c13Finding{"cmd-early-close", "close-status:" + s.Stdin, fmt.Sprintf("[%s] close(cmd) returned %s, the command exits with %d (its stdin was given up before the final flush); stderr: %q", variant, r, x.CloseStatus, core.Clip(o.Stderr, 300)), fmt.Sprint(x.CloseStatus), r})
			}
			if ok {
				c.Count("cmd_early_close_statuses_judged", 1)
				got := ""
				if res["g1"] == "1" {
					got += res["l1"] + "\n"
				}
				if res["g2"] == "1" {
					got += res["l2"] + "\n"
				}
				if got != x.Result {
					fs = append(fs, c13Finding{"cmd-early-close", "not-waited:close:" + s.Stdin, fmt.Sprintf("[%s] right after close(cmd) returned, the command's result file holds %q (getline results %s, %s): close() did not wait for the command to finish", variant, got, res["g1"], res["g2"]), x.Result, got})
				}
				c.Count("cmd_early_result_read_after_close", 1)
			}
		}
		// observed by the harness as soon as the run had returned
		if got := string(o.Files["RESULT"]); got != x.Result {
			cls := "not-waited:end-of-run:" + s.Stdin
			fs = append(fs, c13Finding{"cmd-early-close", cls, fmt.Sprintf("[%s] when the run had returned the command's result file held %q: the command was still running (streams open at the end of a run are closed and waited for)", variant, got), x.Result, got})
		}
		c.Count("cmd_early_result_read_after_run", 1)
		if m := c13dst.CheckStdout(x.Stdout, o.Stdout); m != nil {
			fs = append(fs, c13Finding{"cmd-early-close", "stdout:" + m.What, fmt.Sprintf("[%s] shared stdout: %s (observed %q)", variant, m.Detail, core.Clip(string(o.Stdout), 200)), m.Expected, m.Observed})
		}
		if x.Drain != nil && !bytes.Equal(o.Files["DRAIN"], x.Drain) {
			fs = append(fs, c13Finding{"cmd-early-close", "delivered:drain", fmt.Sprintf("[%s] the command that reads everything received: %s", variant, c13dst.DiffBytes(x.Drain, o.Files["DRAIN"])), "", ""})
		}
		if x.Got != nil && !bytes.Equal(o.Files["GOT"], x.Got) {
			fs = append(fs, c13Finding{"cmd-early-close", "delivered:first-line", fmt.Sprintf("[%s] the command that reads one line received: %s", variant, c13dst.DiffBytes(x.Got, o.Files["GOT"])), "", ""})
		}
		fs = append(fs, c13JudgeEnd(x.End, o)...)
		return fs, ""
	}
	var fs []c13Finding
	firstSummary := ""
	for attempt := 0; attempt < 3; attempt++ {
		o, err := c13RunPlain(c, cs, src, s.Mode, false)
		if err != nil {
			c.Inconclusive(cs.Mon + ":" + err.Error())
			return
		}
		var skip string
		fs, skip = judge(o)
		if c.Replay {
			fmt.Printf("run %d: status=%d failed=%v err=%q stdout=%q results=%q RESULT=%q stderr=%q findings=%d %s\n", attempt+1, o.Status, o.Failed, core.Clip(o.ErrText, 200), core.Clip(string(o.Stdout), 100), string(o.Files["results"]), string(o.Files["RESULT"]), core.Clip(o.Stderr, 300), len(fs), skip)
		}
		if skip == "handshake-watchdog" {
			c.Inconclusive(cs.Mon + ": the handshake watchdog fired (the command did not create its marker within 60 s)")
			return
		}
		if skip != "" {
			c.Count("cases_not_judged:"+skip, 1)
			return
		}
		if attempt == 0 && !c.Replay {
			c.Count("cmd_early_scenarios", 1)
			if s.Stdin == "close" || s.Stdin == "devnull" || s.Stdin == "read1" {
				c.Count("cmd_early_stdin_close_scenarios", 1)
			}
			if strings.Contains(o.Stderr, "broken pipe") {
				c.Count("cmd_early_flush_failure_seen", 1) // goawk's own message: the final flush did hit EPIPE
			}
			c.Cover("cmd_early_variants", cs.Mon+":"+s.Stdin+":"+s.Ending)
			c.Cover("outputs", cs.Mon+":"+cs.Out)
			c.NonTrivial(cs.Mon + cs.Out + fmt.Sprint(*s))
		}
		// Confirmation rule as for histories with children: a finding is reported only when it
		// shows again on two immediate re-runs (a starved machine can spoil a run with children).
		if len(fs) == 0 || c.Replay {
			if attempt > 0 && !c.Replay {
				c.Count("findings_not_reproduced", 1)
				c.Note("not reproduced on re-run (%s %s): %s", cs.Mon, cs.Out, core.Clip(firstSummary, 300))
			}
			break
		}
		if attempt == 0 {
			firstSummary = fs[0].summary
		}
	}
	c13Report(c, cs, "", fs)
}

// c13FixedRun runs one hand-written real-shell scenario and compares every destination.
func c13FixedRun(c *core.Ctx, cs c13Case) {
	f := cs.Fixed
	var fs []c13Finding
	firstSummary := ""
	for attempt := 0; attempt < 3; attempt++ {
		o, err := c13RunPlain(c, cs, f.Prog, f.Mode, f.CRLF)
		if err != nil {
			c.Inconclusive(cs.Mon + ":" + err.Error())
			return
		}
		if why := c13Environment(o.Stderr); why != "" {
			c.Count("cases_not_judged:"+why, 1)
			return
		}
		fs = nil
		add := func(class, summary, exp, obs string) {
			fs = append(fs, c13Finding{"fixed-scenario", f.Name + ":" + class, "[" + f.Name + "] " + summary, exp, obs})
		}
		if o.Crash != "" {
			add("crash", "goawk crashed: "+firstLineOf(o.Crash), "", core.Clip(o.Crash, 1500))
		}
		if string(o.Stdout) != f.Stdout {
			add("stdout", "stdout: "+c13dst.DiffBytes([]byte(f.Stdout), o.Stdout), f.Stdout, string(o.Stdout))
		}
		if m := c13dst.CheckStderr(&c13dst.Expect{Stderr: []byte(f.Stderr)}, []byte(o.Stderr)); m != "" {
			add("stderr", m+" (stderr: "+core.Clip(o.Stderr, 300)+")", f.Stderr, o.Stderr)
		}
		for n, want := range f.Files {
			got, ok := o.Files[n]
			if !ok {
				add("file-missing", n+" does not exist at the end of the run", want, "")
			} else if string(got) != want {
				add("file-content", n+": "+c13dst.DiffBytes([]byte(want), got), want, string(got))
			}
		}
		for n := range o.Files {
			if _, ok := f.Files[n]; !ok && !c13OwnFiles[n] {
				add("file-unexpected", fmt.Sprintf("file %s (%d bytes) exists although the program never opens it", n, len(o.Files[n])), "", "")
			}
		}
		if o.Failed || o.Status != 0 || (o.ErrText != "" && !o.CLI) {
			add("end", fmt.Sprintf("status %d, error %q", o.Status, core.Clip(o.ErrText, 200)), "status 0, no error", "")
		}
		if c.Replay {
			fmt.Printf("run %d: status=%d failed=%v stdout=%q stderr=%q findings=%d\n", attempt+1, o.Status, o.Failed, core.Clip(string(o.Stdout), 200), core.Clip(o.Stderr, 300), len(fs))
		}
		if attempt == 0 && !c.Replay {
			c.Count("fixed_scenario_runs", 1)
			c.Count("files_compared", len(f.Files))
			c.Cover("fixed_scenarios", f.Name)
			c.Cover("outputs", cs.Mon+":"+cs.Out)
			c.NonTrivial(cs.Mon + cs.Out + f.Name)
		}
		if len(fs) == 0 || c.Replay {
			if attempt > 0 && !c.Replay {
				c.Count("findings_not_reproduced", 1)
				c.Note("not reproduced on re-run (%s %s): %s", cs.Mon, cs.Out, core.Clip(firstSummary, 300))
			}
			break
		}
		if attempt == 0 {
			firstSummary = fs[0].summary
		}
	}
	c13Report(c, cs, "", fs)
}

// ---- fault points --------------------------------------------------------------------------

// c13FaultPoints returns the failure offsets to try for a program with N bytes of stdout:
// all of [0,N] when that is at most `all`, otherwise every offset near 0, near N, around every
// multiple of the buffer size and around every line boundary.
func c13FaultPoints(exact []byte, buf, all int) []int {
	N := len(exact)
	if N <= all {
		ks := make([]int, N+1)
		for i := range ks {
			ks[i] = i
		}
		return ks
	}
	set := map[int]bool{}
	addAround := func(x, r int) {
		for k := x - r; k <= x+r; k++ {
			if k >= 0 && k <= N {
				set[k] = true
			}
		}
	}
	addAround(0, 64)
	addAround(N, 64)
	if buf > 16 {
		for m := buf; m <= N; m += buf {
			addAround(m, 2)
		}
	}
	for i, b := range exact {
		if b == '\n' && len(set) < 4*all {
			addAround(i+1, 1)
		}
	}
	ks := make([]int, 0, len(set))
	for k := range set {
		ks = append(ks, k)
	}
	sort.Ints(ks)
	return ks
}

// ---- registration --------------------------------------------------------------------------

// c13Scale is a DEVELOPMENT knob (env C13_SCALE, percent, default 100): it shrinks the case
// counts and the floors alike, so that a breaking edit can be tried quickly on a busy machine.
// The registered tiers never set it.
func c13Scale() int {
	if n, err := strconv.Atoi(os.Getenv("C13_SCALE")); err == nil && n >= 1 && n <= 100 {
		return n
	}
	return 100
}

func c13Tier(t core.Tier, q, th int) int {
	if t == core.Thorough {
		return th
	}
	return q
}

func c13Run(c *core.Ctx) {
	if pf := os.Getenv("C13_PROF"); pf != "" {
		f, _ := os.Create(pf)
		_ = pprof.StartCPUProfile(f)
		defer pprof.StopCPUProfile()
	}
	rng := c.Rand("gen")
	// per spreads a tier total over the batches (the first total%NBatches batches get one more).
	per := func(q, th int) int {
		total := c13Tier(c.Tier, q, th) * c13Scale() / 100
		n := total / c.NBatches
		if c.Batch < total%c.NBatches {
			n++
		}
		return n
	}
	sample := func(cs c13Case, what string) {
		if c.WantSample() {
			c.Sample(map[string]any{"monitor": cs.Mon, "output": cs.Out, "program": core.Clip(cs.Prog, 1500), "compared": what})
		}
	}
	mk := func(mon, out string, p c13dst.Params, cli bool) c13Case {
		h := c13dst.Generate(rng, p)
		h.CLI = cli
		return c13Case{Mon: mon, Out: out, Hist: h, Prog: core.Clip(c13dst.Render(&h), 6000)}
	}
	// variant gives a share of the histories CSV/TSV output mode (i%8 = 1, 5), CRLF newline output
	// (3, 5) and the names of the standard streams (2, 5, 6); i%8 = 7 is the concurrent case,
	// 0 and 4 stay as they always were.
	variant := func(p *c13dst.Params, i int) {
		switch i % 8 {
		case 1:
			p.CSV = true
		case 2, 6:
			p.Names = true
		case 3:
			p.CRLF = true
		case 5:
			p.CSV, p.CRLF, p.Names = true, true, true
		}
	}
	apiOuts := []string{"buffer", "bufio-file", "file", "pipe"}
	children := []string{"none", "system", "system", "quiet", "quiet", "quiet"}
	big := c13Tier(c.Tier, 200_000, 1<<20)

	// 1. histories through the API
	for i, n := 0, per(800, 6400); i < n; i++ {
		p := c13dst.Params{MaxOps: 30, Children: children[rng.Intn(len(children))], Snaps: true, MaxSize: big}
		out := apiOuts[rng.Intn(len(apiOuts))]
		if i%8 == 7 {
			// concurrent case: relay and program write at the same time.  Small volumes when the
			// output is not a file: the unsynchronised writers run inside this very process.
			p.Children = "exposed"
			p.Tiny = out == "buffer" || out == "bufio-file"
		}
		variant(&p, i)
		cs := mk("hist-api", out, p, false)
		if p.Children == "exposed" {
			cs.Reps = 2
		}
		c.Begin(cs)
		c13History(c, cs)
		if i == 0 {
			sample(cs, "stdout (conservation+order), files, snapshots, close statuses, end of run vs DST")
		}
	}
	// 2. histories through the goawk binary
	for i, n := 0, per(320, 2560); i < n; i++ {
		p := c13dst.Params{MaxOps: 30, Children: children[rng.Intn(len(children))], MaxSize: big}
		if i%8 == 7 {
			p.Children = "exposed"
		}
		variant(&p, i)
		cs := mk("hist-cli", []string{"file", "pipe"}[rng.Intn(2)], p, true)
		c.Begin(cs)
		c13History(c, cs)
		if i == 0 {
			sample(cs, "goawk binary: stdout file/pipe, files, close statuses (results file), exit status vs DST")
		}
	}
	// 3. race detector on the goawk binary, concurrent histories, repeated
	for i, n := 0, per(32, 256); i < n; i++ {
		p := c13dst.Params{MaxOps: 24, Children: "exposed", MaxSize: 70000}
		if i%4 == 3 {
			p.Children = []string{"system", "quiet"}[rng.Intn(2)] // must stay silent
		}
		cs := mk("race-cli", []string{"file", "pipe"}[rng.Intn(2)], p, true)
		cs.Reps, cs.Race = c13Tier(c.Tier, 2, 5), true
		c.Begin(cs)
		c13History(c, cs)
	}
	// 3b. race detector on the API: the same kind of histories inside the race-built harness
	for i, n := 0, per(32, 256); i < n; i++ {
		p := c13dst.Params{MaxOps: 24, Children: "exposed", Tiny: true}
		if i%4 == 3 {
			p.Children = []string{"system", "quiet"}[rng.Intn(2)]
		}
		cs := mk("hist-api", []string{"buffer", "bufio-file"}[rng.Intn(2)], p, false)
		cs.Reps, cs.Race = c13Tier(c.Tier, 2, 5), true
		c.Begin(cs)
		c13RaceAPI(c, cs)
	}
	// 4. fault enumeration through the API
	for i, n := 0, per(16, 128); i < n; i++ {
		p := c13dst.Params{MaxOps: 14, Fault: true, Children: "none", MaxSize: 120}
		all := c13Tier(c.Tier, 400, 3000)
		if i%4 == 3 {
			p.MaxSize = 70000 // the 64 KiB buffer wraps inside a print
			p.Budget = 200000
		}
		if i%4 == 2 {
			p.CSV, p.Names = true, true // rows go through the cached CSV writer; stdout also by name
			p.CRLF = i%8 == 6
		}
		var cs c13Case
		var full *c13dst.Expect
		for try := 0; try < 20; try++ { // a program that prints something to stdout
			cs = mk("fault-api", "failing-writer", p, false)
			full = c13dst.Run(&cs.Hist, c13dst.Options{})
			if len(full.Exact) >= 20 {
				break
			}
		}
		if len(full.Exact) == 0 {
			continue
		}
		c.NonTrivial("fault" + cs.Prog)
		c.Cover("endings", "fault-program:"+full.End.Kind)
		for _, buf := range []int{0, 16, 4096, 65536} {
			if c.Tier == core.Quick && buf == 4096 {
				continue
			}
			cs.Buf = buf
			c13FaultAPI(c, cs, c13FaultPoints(full.Exact, buf, all))
		}
		if i == 0 {
			sample(cs, fmt.Sprintf("a writer failing at every byte offset 0..%d, unbuffered and behind bufio: the run must fail, accepted bytes must be a prefix", len(full.Exact)))
		}
	}
	// 5. strace write-fault injection and vanished pipe readers on the binary
	for i, n := 0, per(32, 256); i < n; i++ {
		p := c13dst.Params{MaxOps: 14, Fault: true, Children: "none", MaxSize: 3000}
		if i%2 == 1 {
			p.MaxSize, p.Budget = 70000, 400000
		}
		if i%4 == 2 {
			p.CSV, p.Names = true, true
		}
		var cs c13Case
		var full *c13dst.Expect
		for try := 0; try < 20; try++ {
			cs = mk("fault-strace", "file", p, true)
			full = c13dst.Run(&cs.Hist, c13dst.Options{})
			if len(full.Exact) >= 20 {
				break
			}
		}
		if len(full.Exact) == 0 {
			continue
		}
		c.Begin(cs)
		c.NonTrivial("strace" + cs.Prog)
		c13FaultStrace(c, cs, 0)
		if i == 0 {
			sample(cs, "ENOSPC injected by strace into every write(2) to the stdout file in turn: exit status must be non-zero")
		}
		sp := cs
		sp.Mon, sp.Out = "sigpipe", "pipe"
		for _, k := range []int{-1, 0, 1000} {
			sp.ReadK = k
			c.Begin(sp)
			c13Sigpipe(c, sp)
		}
	}
	// 6. commands that give up their standard input before the stream is closed (real /bin/sh):
	// the family stdin-kind x ending x runner/output is walked systematically, the rest is drawn
	erng := c.Rand("early")
	stdins := []string{"close", "devnull", "read1", "exit", "drain"}
	endings := []string{"close", "end", "exit", "error"}
	runners := [][2]string{{"early-api", "buffer"}, {"early-api", "bufio-file"}, {"early-api", "file"}, {"early-api", "pipe"}, {"early-cli", "file"}, {"early-cli", "pipe"}}
	for i, n := 0, per(192, 1536); i < n; i++ {
		k := c.Batch + i*c.NBatches // global index of the scenario
		s := &c13dst.EarlyClose{
			Stdin: stdins[k%5], Ending: endings[(k/5)%4], Exit: []int{3, 0, 77, 1}[erng.Intn(4)], ProgExit: []int{0, 5}[erng.Intn(2)],
			Before: 1 + erng.Intn(2), After: erng.Intn(3), Form: []string{"print", "print2", "printf"}[erng.Intn(3)],
			Echo: erng.Intn(2) == 0, SleepMs: 50, Mode: []string{"", "", "csv", "tsv"}[erng.Intn(4)],
		}
		r := runners[(k+5*(k/20))%6] // every (stdin, ending) pair meets every runner within 120 scenarios
		cs := c13Case{Mon: r[0], Out: r[1], Early: s, Prog: s.Render()}
		c.Begin(cs)
		c13Early(c, cs)
		if i == 0 {
			sample(cs, "close() status, RESULT read right after close() / after the run, shared stdout, end of run — command closed its stdin before the final flush")
		}
	}
	// 8. slow consumers of standard output: a child produces ~100 KB on the shared stdout just
	// before the run ends / the program goes on, and whoever takes goawk's standard output is
	// slow for the last 100 KB (CLI: the reader of the stdout pipe; API: a slow Config.Output)
	srng := c.RandGlobal("slow")
	for k, n := 0, c13Tier(c.Tier, 18, 96)*c13Scale()/100; k < n; k++ {
		jitter := srng.Intn(1000)
		if !c.Mine(k) {
			continue
		}
		mon := []string{"slow-cli", "slow-cli", "slow-api"}[k%3]
		h := c13dst.SlowHistory(k/3, jitter, mon == "slow-cli")
		cs := c13Case{Mon: mon, Out: map[string]string{"slow-cli": "pipe", "slow-api": "slow-writer"}[mon], Hist: h, Prog: core.Clip(c13dst.Render(&h), 6000)}
		c.Begin(cs)
		c13History(c, cs)
	}
	// 7. fixed real-shell scenarios on every runner/output
	j := 0
	for _, f := range c13dst.FixedScenarios() {
		for _, r := range [][2]string{{"fixed-api", "buffer"}, {"fixed-api", "bufio-file"}, {"fixed-api", "file"}, {"fixed-api", "pipe"}, {"fixed-cli", "file"}, {"fixed-cli", "pipe"}} {
			j++
			if !c.Mine(j) {
				continue
			}
			f := f
			cs := c13Case{Mon: r[0], Out: r[1], Fixed: &f, Prog: f.Prog}
			c.Begin(cs)
			c13FixedRun(c, cs)
		}
	}
}

func c13Replay(c *core.Ctx, raw json.RawMessage) {
	var cs c13Case
	if err := json.Unmarshal(raw, &cs); err != nil {
		fmt.Println("bad case:", err)
		return
	}
	switch {
	case cs.Early != nil:
		fmt.Printf("monitor=%s output=%s\n--- program ---\n%s--- end ---\n", cs.Mon, cs.Out, cs.Early.Render())
		c13Early(c, cs)
		return
	case cs.Fixed != nil:
		fmt.Printf("monitor=%s output=%s mode=%q crlf=%v\n--- program ---\n%s\n--- end ---\n", cs.Mon, cs.Out, cs.Fixed.Mode, cs.Fixed.CRLF, cs.Fixed.Prog)
		c13FixedRun(c, cs)
		return
	}
	fmt.Printf("monitor=%s output=%s mode=%q(%s) crlf=%v\n--- program ---\n%s--- end ---\n", cs.Mon, cs.Out, cs.Hist.Mode, cs.Hist.ModeVia, cs.Hist.CRLF, c13dst.Render(&cs.Hist))
	if cs.Race && cs.Mon == "hist-api" && !c13RaceBuild {
		// the report came from the race-built harness: hand the case to it (a few tries, the
		// schedule decides)
		for try := 0; try < 5; try++ {
			if c13RaceAPI(c, cs) {
				break
			}
		}
		return
	}
	switch cs.Mon {
	case "hist-api", "hist-cli", "race-cli", "slow-cli", "slow-api":
		if cs.Reps < 20 && os.Getenv("C13_KEEP_REPS") == "" && (cs.Race || c13dst.Run(&cs.Hist, c13dst.Options{}).ExposedCmd != "") {
			cs.Reps = 20 // schedule-dependent: give it some chances
		}
		c13History(c, cs)
	case "fault-api":
		c13FaultAPI(c, cs, []int{cs.K})
	case "fault-strace":
		c13FaultStrace(c, cs, cs.WriteN)
	case "sigpipe":
		c13Sigpipe(c, cs)
	default:
		fmt.Println("unknown monitor", cs.Mon)
	}
}

func init() {
	core.Register(&core.Property{
		ID:    "C13",
		Level: "fault_enumeration",
		Rule: "output histories (<=30 print/printf/close/fflush/system/getline/exit/run-time-error ops over stdout, <=3 files with > and >>, <=2 command sinks, <=2 commands " +
			"relaying to the shared stdout; payloads 1 byte..1 MiB; ops spread over BEGIN, per-record actions, END and a user function) are rendered as AWK programs and run " +
			"through interp.Execute (Output = bytes.Buffer / bufio over a file / *os.File / pipe) and through the goawk binary (stdout = file / pipe); stdout, every file, mid-run " +
			"snapshots, close() statuses and the end of the run are compared with the destination model. Fault enumeration: for a stdout-only/file program with N output bytes a " +
			"writer failing at EVERY byte offset 0..N (unbuffered, bufio 16/4096/65536), strace ENOSPC injection into every write(2) to the stdout file, vanished pipe readers. " +
			"Non-trivial = a history that writes to at least two destinations (or a fault program with N>0); distinct by monitor+output+program text. " +
			"Extension: a quarter of the histories run in CSV/TSV output mode (Config.OutputMode / -o / BEGIN{OUTPUTMODE=...}, also switched in mid-run) with print of 1, 2 or 3 arguments " +
			"(one needing quotes) to up to 5 files, sinks, stdout and /dev/stderr; a quarter in CRLF newline output mode; stdout also through its names /dev/stdout and -. " +
			"Deterministic families with the real /bin/sh: commands that close their stdin (exec 0<&-, exec 0</dev/null, after one line, by exiting) before the stream is closed " +
			"or the run ends (marker-file handshake; close() status and the command's result file are read right after close()/after the run), and 11 fixed scenarios " +
			"(command writing to stderr, ORS/OFS variations, 16 destinations at once in every output mode)",
		Assumptions: []string{
			"DST (harness/c13dst/model.go) is the specification: > truncates at open only, >> never, one name = one stream until close, everything delivered at close/end of run also after exit or a run-time error, close() of a command = its exit status",
			"shared stdout: conservation per producer over disjoint alphabets; order only where the program synchronises (child started after earlier program output; system()/close() return after the child's output) — any interleaving in between is accepted",
			"don't-care: close()/fflush() results for files and unopened names, getline from a writer (error or non-positive result), what a running command's file holds before close, failing writes of CHILD processes",
			"a lost update caused by unsynchronised concurrent writers shows only in runs where the schedule produces it; the race detector reports the race itself on observed executions",
			"CSV/TSV output mode as documented in docs/csv.md: print with arguments writes the RFC 4180 encoding of the row (c13dst.CSVRow, written independently of encoding/csv) and a newline, ignoring OFS and ORS; a bare print and printf are unchanged; CRLF newline output mode delivers every \"\\n\" the program prints as \"\\r\\n\"; the names /dev/stdout and - denote standard output itself, /dev/stderr the error stream",
			"a command that no longer reads its input: whether the rows still buffered reach it is not judged; close() must report its exit status, and close()/the end of the run must have waited for it (the result file it writes last is complete when read immediately afterwards); the order of events is fixed by a marker-file handshake, a 60 s handshake watchdog firing is INCONCLUSIVE",
		},
		Explanation:  "fault_enumeration: every byte offset (programs up to 400/3000 bytes; boundary offsets for larger ones) and every write(2) call of each explored program is failed in turn; histories and schedules are explored, not enumerated",
		NBatches:     func(t core.Tier) int { return c13Tier(t, 16, 64) },
		BatchTimeout: func(t core.Tier) time.Duration { return time.Duration(c13Tier(t, 120, 480)) * time.Minute },
		Exhaustive:   func(core.Tier) bool { return true },
		Floors: func(t core.Tier) map[string]int {
			m := c13Floors(t)
			for k, v := range m {
				if k != "op_kinds" && k != "model_events" && k != "endings" && k != "outputs" && k != "fixed_scenarios" && k != "fixed_scenario_runs" && k != "csv_row_destinations" {
					m[k] = v * c13Scale() / 100
				}
			}
			return m
		},
		Run:    c13Run,
		Replay: c13Replay,
	})
}

func c13Max(a, b int) int {
	if a > b {
		return a
	}
	return b
}

func c13Min(a, b int) int {
	if a < b {
		return a
	}
	return b
}

func c13Floors(t core.Tier) map[string]int {
	return map[string]int{
		"evaluations": c13Tier(t, 4000, 60000), "distinct_nontrivial": c13Tier(t, 700, 5000),
		"op_kinds": 30, "model_events": 14, "endings": 12, "outputs": 8,
		"fault_points_direct": c13Tier(t, 600, 10000), "fault_points_bufio16": c13Tier(t, 600, 10000), "fault_points_bufio65536": c13Tier(t, 600, 10000),
		"strace_injections": c13Tier(t, 30, 200), "sigpipe_runs": c13Tier(t, 20, 150), "race_cli_runs": c13Tier(t, 30, 300), "race_api_runs": c13Tier(t, 20, 150),
		"close_statuses_judged": c13Tier(t, 500, 5000), "snapshots_taken": c13Tier(t, 200, 1800),
		"histories_exposed_relay": c13Tier(t, 40, 350), "histories_quiet_relay": c13Tier(t, 150, 1200), "histories_with_system_child": c13Tier(t, 300, 2500),
		// extension: CSV/TSV output mode, CRLF, stream names, commands that give up stdin early, fixed scenarios
		"csv_mode_histories": c13Tier(t, 120, 1000), "csv_mode_histories_multi_destination": c13Tier(t, 80, 650), "csv_rows_modelled": c13Tier(t, 500, 4000),
		"crlf_mode_histories": c13Tier(t, 150, 1200), "histories_writing_dev_stderr": c13Tier(t, 60, 500), "csv_row_destinations": 6,
		"cmd_early_scenarios": c13Tier(t, 150, 1200), "cmd_early_stdin_close_scenarios": c13Tier(t, 90, 720), "cmd_early_close_statuses_judged": c13Tier(t, 35, 280),
		"cmd_early_result_read_after_run": c13Tier(t, 150, 1200), "cmd_early_flush_failure_seen": c13Tier(t, 20, 160), "cmd_early_variants": 30,
		"fixed_scenario_runs": 60, "fixed_scenarios": 11,
		"slow_consumer_runs:slow-cli": c13Tier(t, 10, 56), "slow_consumer_runs:slow-api": c13Tier(t, 5, 28),
	}
}
