package props

// C17, result typing: a string or []byte result is an AWK string, like a string constant with
// the same text (it is not input: it never compares as a number), a bool result is the number 1
// or 0, a numeric result is that number. Metamorphic and model-free: the three spellings of one
// text (constant, func() string, func() []byte) must show the same behaviour in comparisons,
// truth tests and arithmetic, and so must a number and func() float64 / int / bool.

import (
	"fmt"
	"strings"

	"github.com/benhoyt/goawk/interp"

	"verifharness/core"
	"verifharness/run"
)

var c17TypingTexts = []string{"10", "0", "0.0", " 5 ", "1e1", "+3", "-0", "", "abc", "10.0", "9", "007", ".5", "0x10", "1e", " ", "é"}
var c17TypingNums = []float64{10, 0, 1, -1, 2.5, 9, 1e6, -0.5}

func c17ResultTyping(c *core.Ctx, force bool) {
	if !force && !c.Mine(7700) {
		return
	}
	funcs := map[string]any{
		"sret": func(i int) string { return c17TypingTexts[i] },
		"bret": func(i int) []byte { return []byte(c17TypingTexts[i]) },
		"fret": func(i int) float64 { return c17TypingNums[i] },
		"iret": func(i int) int64 { return int64(c17TypingNums[i]) },
		"tret": func(i int) bool { return c17TypingNums[i] != 0 },
	}
	var sb strings.Builder
	sb.WriteString(`function obs(v) { return (v < 9) (v == 10) (v ? "T" : "F") (v == "10.0") (v < "a") (v == 0) (v == "") " " (v + 0) " " length(v) " [" v "]" }` + "\n")
	sb.WriteString("BEGIN {\n")
	for i, t := range c17TypingTexts {
		fmt.Fprintf(&sb, "\tprint \"S\", %d, \"|\" obs(%q) \"|\" obs(sret(%d)) \"|\" obs(bret(%d)) \"|\"\n", i, t, i, i)
		fmt.Fprintf(&sb, "\tx = sret(%d); y = bret(%d); print \"V\", %d, \"|\" obs(%q \"\") \"|\" obs(x) \"|\" obs(y) \"|\"\n", i, i, i, t)
	}
	for i, n := range c17TypingNums {
		lit := fmt.Sprintf("(%v)", n)
		fmt.Fprintf(&sb, "\tprint \"N\", %d, \"|\" obs(%s) \"|\" obs(fret(%d)) \"|\"\n", i, lit, i)
		if n == float64(int64(n)) {
			fmt.Fprintf(&sb, "\tprint \"I\", %d, \"|\" obs(%s) \"|\" obs(iret(%d)) \"|\"\n", i, lit, i)
		}
		fmt.Fprintf(&sb, "\tprint \"B\", %d, \"|\" obs(%s != 0) \"|\" obs(tret(%d)) \"|\"\n", i, lit, i)
	}
	sb.WriteString("}\n")
	src := sb.String()
	cs := map[string]any{"family": "result-typing", "src": src}
	c.Begin(cs)
	prog, err, pm := run.Parse(src, funcs)
	if err != nil || pm != "" {
		c.Inconclusive(fmt.Sprint("c17 result-typing program does not parse: ", err, pm))
		return
	}
	o := run.Exec(prog, &interp.Config{Funcs: funcs, Stdin: strings.NewReader("")}, run.Opts{})
	if o.Panic != "" || o.Err != "" {
		c.Violation("call-panic", "result-typing", "the result-typing program failed: "+o.Err+run.PanicSite(o.Panic), "runs", o.Err+o.Panic, cs)
		return
	}
	for _, line := range strings.Split(strings.TrimSuffix(o.Stdout, "\n"), "\n") {
		parts := strings.Split(line, "|")
		if len(parts) < 3 {
			c.Inconclusive("c17 result-typing: unexpected output line " + core.Q(line))
			return
		}
		c.Eval(1)
		c.Count("result_typing_rows", 1)
		ref := parts[1]
		for k := 2; k < len(parts)-1; k++ {
			if parts[k] != ref {
				c.Violation("result-conversion", "result-typing", fmt.Sprintf("row %q: the result behaves differently from the constant of the same value (columns: constant, then results; each column lists v<9, v==10, truth, v==\"10.0\", v<\"a\", v==0, v==\"\", v+0, length, text): constant %q, result %q",
					strings.TrimSpace(parts[0]), ref, parts[k]), ref, parts[k], cs)
				return
			}
		}
		c.NonTrivial("typing|" + parts[0])
	}
}

// c17Override: an AWK function may have the name of a Go function in Funcs (the AWK definition
// wins); every OTHER Go function must still be the one its name says - before, at and after
// the overridden name in sorted order, with one and with several overrides.
func c17Override(c *core.Ctx, force bool) {
	if !force && !c.Mine(7701) {
		return
	}
	names := []string{"aa", "bb", "cc", "dd", "ee", "ff"}
	funcs := map[string]any{}
	for _, n := range names {
		n := n
		funcs[n] = func(x int, s string) string { return fmt.Sprintf("go-%s(%d,%s)", n, x, s) }
	}
	funcs["gg"] = func(x int) int { return x * 2 }
	for mask := 0; mask < 1<<len(names); mask++ {
		var sb strings.Builder
		want := ""
		for i, n := range names {
			if mask&(1<<i) != 0 {
				fmt.Fprintf(&sb, "function %s(x, s) { return \"awk-%s(\" x \",\" s \")\" }\n", n, n)
				want += fmt.Sprintf("awk-%s(%d,v) ", n, i)
			} else {
				want += fmt.Sprintf("go-%s(%d,v) ", n, i)
			}
		}
		sb.WriteString("BEGIN { print ")
		for i, n := range names {
			fmt.Fprintf(&sb, "%s(%d, \"v\"), ", n, i)
		}
		sb.WriteString("gg(21) }\n")
		want += "42\n"
		src := sb.String()
		cs := map[string]any{"family": "override", "src": src}
		c.Begin(cs)
		c.Eval(1)
		c.Count("override_programs", 1)
		prog, err, pm := run.Parse(src, funcs)
		if pm != "" {
			c.Violation("parse-panic", "override", "ParseProgram panicked on a program that redefines Go function names: "+run.PanicSite(pm), "parses", pm, cs)
			return
		}
		if err != nil {
			// redefinition refused altogether: the property does not speak about it; nothing to compare
			c.Count("override_refused_at_parse", 1)
			continue
		}
		o := run.Exec(prog, &interp.Config{Funcs: funcs, Stdin: strings.NewReader("")}, run.Opts{})
		if o.Panic != "" {
			c.Violation("call-panic", "override", "a program that redefines some Go function names panicked at call time: "+run.PanicSite(o.Panic), want, o.Panic, cs)
			return
		}
		if o.Err != "" || o.Stdout != want {
			c.Violation("arg-conversion", "override", fmt.Sprintf("with AWK functions named like some of the Go functions, the calls reach other functions than their names say: got %q %s", o.Stdout, o.Err), want, o.Stdout+o.Err, cs)
			return
		}
		c.NonTrivial(fmt.Sprintf("override|%d", mask))
	}
}
