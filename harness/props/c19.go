package props

// C19 — parsing is deterministic; a parsed Program is immutable and shareable.
//
// Three monitors, all over executions of the real parser/resolver/compiler/interpreter:
//
//  1. parse determinism: every source is parsed N times in this process, once in each of P
//     fresh processes of this binary (sources visited in a different order in each), and (when
//     it has no native functions) K times by the goawk command with -d -da -dt.  The
//     fingerprints (verdict, message, position, disassembly, String(), reflective dump of
//     syntax tree / resolver tables / compiled tables) must be byte-equal.
//  2. shared execution: a parsed Program is executed once (the reference outcome) and then
//     several more times, one after another, by fresh interpreters; a second, never executed
//     parse of the same source is executed from G goroutines at once, in rounds, each execution
//     on its own fresh interpreter (race-detector build; the first round is a cold start, so
//     lazily initialised shared state is initialised concurrently).  Every execution must
//     produce exactly what the single reference execution produced.
//  3. immutability: the whole-Program fingerprint of both Programs is taken before their first
//     execution and after every round of executions; it must never change.
//
// The race detector's log is read after every concurrent round, so a report is attributed
// to the program that provoked it and can be replayed.

import (
	"bytes"
	"encoding/json"
	"fmt"
	"math/rand"
	"os"
	"os/exec"
	"path/filepath"
	"regexp"
	"sort"
	"strconv"
	"strings"
	"sync"
	"syscall"
	"time"

	"github.com/benhoyt/goawk/interp"
	"github.com/benhoyt/goawk/lexer"
	"github.com/benhoyt/goawk/parser"
	vh "github.com/benhoyt/goawk/verifhook"

	"verifharness/astx"
	"verifharness/c19fp"
	"verifharness/c19gen"
	"verifharness/core"
	"verifharness/corpus"
	"verifharness/run"
)

// c19Case is the replayable case of every C19 violation.
type c19Case struct {
	Mode   string         `json:"mode"` // "parse" | "shared"
	Source *c19gen.Source `json:"source,omitempty"`
	Shared *c19gen.Shared `json:"shared,omitempty"`
	// parse mode
	Parses int `json:"parses,omitempty"` // in-process parses
	Procs  int `json:"procs,omitempty"`  // fresh processes of this binary
	CLI    int `json:"cli,omitempty"`    // runs of the goawk command
	// shared mode
	Sequential int `json:"sequential,omitempty"`
	Goroutines int `json:"goroutines,omitempty"`
	Execs      int `json:"execs,omitempty"`
	Reps       int `json:"reps,omitempty"`
}

type c19Sizes struct {
	sources, shared, parses, procs, cli, sequential, goroutines, execs, reps int
}

func c19SizesFor(t core.Tier) c19Sizes {
	if t == core.Thorough {
		return c19Sizes{sources: 6000, shared: 600, parses: 50, procs: 8, cli: 2, sequential: 8, goroutines: 16, execs: 25, reps: 4}
	}
	return c19Sizes{sources: 320, shared: 40, parses: 50, procs: 8, cli: 2, sequential: 6, goroutines: 16, execs: 15, reps: 3}
}

func c19Funcs(native bool) map[string]any {
	if native {
		return c19NativeFuncs
	}
	return nil
}

// One table for the whole process: the Programs and every interpreter share it, as an
// application embedding goawk would.
var c19NativeFuncs = c19gen.Funcs()

// ---- parse determinism: in-process ----------------------------------------------------------

// parseVariants parses src n times and returns the distinct fingerprints seen (first = the
// reference), with how often each occurred.
func parseVariants(s c19gen.Source, n int) (variants []c19fp.Parse, counts []int) {
	index := map[string]int{}
	for i := 0; i < n; i++ {
		// Digests only; the readable dumps are produced for the first parse and for every
		// parse that turns out to differ from those seen before. The syntax tree (the bulk
		// of the walk, and the one part that no map-ordered code produces) is digested on
		// the first four parses and every eighth after; in between it is taken to be the
		// reference's.
		var p c19fp.Parse
		var prog *parser.Program
		if i < 4 || i%8 == 0 {
			p, prog = c19fp.Of(s.Src, c19Funcs(s.Native), false)
		} else {
			p, prog = c19fp.OfLight(s.Src, c19Funcs(s.Native))
			if p.Verdict == "ok" && len(variants) > 0 {
				p.H["ast"] = variants[0].H["ast"]
			}
		}
		k := p.Key()
		if j, ok := index[k]; ok {
			counts[j]++
			continue
		}
		p.Fill(prog)
		index[k] = len(variants)
		variants = append(variants, p)
		counts = append(counts, 1)
	}
	return
}

// funcSpan is the extent of one top-level function definition, found with the lexer alone
// (the syntax tree is not available when resolution fails).
type funcSpan struct {
	name            string
	line, col       int // of the "function" keyword
	endLine, endCol int // of the closing brace
}

func funcSpans(src string) []funcSpan {
	lx := lexer.NewLexer([]byte(src))
	var spans []funcSpan
	depth := 0
	var cur *funcSpan
	for i := 0; i < len(src)+8; i++ {
		pos, tok, val := lx.Scan()
		switch tok {
		case lexer.EOF, lexer.ILLEGAL:
			return spans
		case lexer.FUNCTION:
			if depth == 0 && cur == nil {
				cur = &funcSpan{line: pos.Line, col: pos.Column}
				_, t2, v2 := lx.Scan()
				if t2 == lexer.NAME {
					cur.name = v2
				}
			}
		case lexer.LBRACE:
			depth++
		case lexer.RBRACE:
			depth--
			if depth == 0 && cur != nil {
				cur.endLine, cur.endCol = pos.Line, pos.Column
				spans = append(spans, *cur)
				cur = nil
			}
		}
		_ = val
	}
	return spans
}

func (s funcSpan) contains(line, col int) bool {
	after := line > s.line || (line == s.line && col >= s.col)
	before := line < s.endLine || (line == s.endLine && col <= s.endCol)
	return after && before
}

var callNativeLine = regexp.MustCompile(`^([0-9a-f]{4}\s+CallNative) \S+ (\d+)$`)

// classifyParseDiff names a disagreement between fingerprints of one source narrowly.
func classifyParseDiff(src string, variants []c19fp.Parse) (class, component, detail string) {
	ref := variants[0]
	differing := map[string]bool{}
	for _, v := range variants[1:] {
		for _, c := range c19fp.Differing(ref, v) {
			differing[c] = true
		}
	}
	for _, c := range c19fp.Components {
		if differing[c] {
			component = c
			break
		}
	}
	if differing["verdict"] {
		// The one listed way for the verdict to flip: the resolver's limit of 100 type-inference
		// passes is reached in some visiting orders of the functions and not in others.
		passLimit := true
		for _, v := range variants {
			if !(v.Verdict == "ok" || (v.Verdict == "error" && v.Message == "too many iterations trying to resolve variable types")) {
				passLimit = false
			}
		}
		detail = ref.Short() + "  |vs|  " + variants[1].Short()
		if passLimit {
			return "verdict-flips:resolver-pass-limit", component, detail
		}
		return "verdict-flips", component, detail
	}
	if ref.Verdict == "error" {
		// Same verdict, different message and/or position. The one listed defect: each error
		// is a resolver error located in a different function definition (the resolver
		// visits functions in map order and reports the first error it meets).
		spans := funcSpans(src)
		inFunc := map[string]bool{}
		allInside := true
		var shorts []string
		for _, v := range variants {
			shorts = append(shorts, v.Short())
			found := false
			for _, s := range spans {
				if s.contains(v.Line, v.Col) {
					inFunc[s.name] = true
					found = true
					break
				}
			}
			if !found {
				allInside = false
			}
		}
		detail = strings.Join(shorts, "  |vs|  ")
		resolverMsg := true
		for _, v := range variants {
			if !isResolverMessage(v.Message) {
				resolverMsg = false
			}
		}
		switch {
		case allInside && resolverMsg && len(inFunc) == len(variants):
			return "error-choice:resolver-errors-in-different-functions", component, detail
		case !resolverMsg:
			return "error-differs:not-a-resolver-message", component, detail
		default:
			return "error-differs:not-one-per-function", component, detail
		}
	}
	// Accepted by every parse.
	onlyDisasmAndCompiled := true
	for c := range differing {
		if c != "disasm" && c != "compiled" {
			onlyDisasmAndCompiled = false
		}
	}
	if onlyDisasmAndCompiled && len(differing) > 0 {
		narrow := true
		for _, v := range variants[1:] {
			pairs, same := c19fp.DiffLines(ref.Disasm, v.Disasm, 1000)
			if !same {
				narrow = false
				break
			}
			for _, pr := range pairs {
				a, b := callNativeLine.FindStringSubmatch(pr[0]), callNativeLine.FindStringSubmatch(pr[1])
				if a == nil || b == nil || a[1] != b[1] || a[2] != b[2] {
					narrow = false
				}
			}
			cp, same := c19fp.DiffLines(ref.Compiled, v.Compiled, 1000)
			if !same {
				narrow = false
				break
			}
			for _, pr := range cp {
				if !strings.HasPrefix(pr[0], "Compiled.nativeFuncNames = ") {
					narrow = false
				}
			}
		}
		if narrow {
			return "disasm:callnative-name-overwritten-by-awk-function", component, c19fp.FirstDiff(ref.Get(component), variants[1].Get(component))
		}
	}
	return "component:" + component, component, c19fp.FirstDiff(ref.Get(component), variants[1].Get(component))
}

func isResolverMessage(m string) bool {
	for _, p := range []string{"can't use ", "can't pass ", "undefined function ", "called with more arguments", "can't call local variable",
		"can't also be a function", "already defined", "too many iterations"} {
		if strings.Contains(m, p) {
			return true
		}
	}
	return false
}

// ---- parse determinism: fresh processes of this binary ----------------------------------------

// c19Job is what a sub-process (this binary started again with VERIF_C19_JOB set) is asked to do.
type c19Job struct {
	Kind    string          `json:"kind"` // "fingerprints" | "case"
	Sources []c19gen.Source `json:"sources,omitempty"`
	Order   int             `json:"order,omitempty"` // visiting order of the sources (process number)
	Full    bool            `json:"full,omitempty"`  // return whole fingerprints, not only hashes
	Case    *c19Case        `json:"case,omitempty"`
}

type c19FP struct {
	Short   string            `json:"short"`
	Verdict string            `json:"verdict"`
	Message string            `json:"message,omitempty"`
	Line    int               `json:"line,omitempty"`
	Col     int               `json:"col,omitempty"`
	Hashes  map[string]string `json:"hashes"`
	Full    *c19fp.Parse      `json:"full,omitempty"`
}

// verdictOnly rebuilds the verdict part of a fingerprint received from another process.
func (f c19FP) verdictOnly() (c19fp.Parse, bool) {
	switch f.Verdict {
	case "ok":
		return c19fp.AcceptedParse(), true
	case "error":
		return c19fp.ErrorParse(f.Message, f.Line, f.Col), true
	}
	return c19fp.Parse{}, false
}

// c19RunJob is the sub-process side.
func c19RunJob(c *core.Ctx, path string) {
	b, err := os.ReadFile(path)
	var job c19Job
	if err != nil || json.Unmarshal(b, &job) != nil {
		fmt.Fprintln(os.Stderr, "C19 sub-process: bad job file", path, err)
		os.Exit(3)
	}
	switch job.Kind {
	case "fingerprints":
		out := make([]c19FP, len(job.Sources))
		// Visit the sources in an order that depends on the process number, so that state
		// carried from one parse to the next inside a process would show up as a difference.
		order := rand.New(rand.NewSource(int64(job.Order))).Perm(len(job.Sources))
		if job.Order == 0 {
			sort.Ints(order)
		}
		for _, i := range order {
			s := job.Sources[i]
			p, _ := c19fp.Of(s.Src, c19Funcs(s.Native), job.Full)
			out[i] = c19FP{Short: p.Short(), Verdict: p.Verdict, Message: p.Message, Line: p.Line, Col: p.Col, Hashes: p.H}
			if job.Full {
				pp := p
				out[i].Full = &pp
			}
		}
		ob, _ := json.Marshal(out)
		if err := os.WriteFile(path+".out", ob, 0o644); err != nil {
			os.Exit(3)
		}
	case "case":
		// Re-run one case in this (race-detector) process; the violations travel back in the
		// ordinary batch result file.
		c19RunCase(c, *job.Case, corpus.All())
	}
}

// c19Spawn starts this binary (or bin) again on a job and waits for it.
func c19Spawn(c *core.Ctx, bin string, job c19Job, tag string, extraEnv []string) (base string, err error) {
	dir := c.WorkDir()
	base = filepath.Join(dir, tag)
	jb, _ := json.Marshal(job)
	if err = os.WriteFile(base+".job", jb, 0o644); err != nil {
		return
	}
	cmd := exec.Command(bin, "--child", "C19", string(c.Tier), strconv.FormatInt(c.Seed, 10), "0", "1", base)
	cmd.Env = append(os.Environ(), "VERIF_C19_JOB="+base+".job")
	cmd.Env = append(cmd.Env, extraEnv...)
	var stderr bytes.Buffer
	cmd.Stderr = &stderr
	done := make(chan error, 1)
	if err = cmd.Start(); err != nil {
		return
	}
	go func() { done <- cmd.Wait() }()
	select {
	case err = <-done:
	case <-time.After(15 * time.Minute): // generous watchdog: inconclusive, never a verdict
		_ = cmd.Process.Kill()
		<-done
		err = fmt.Errorf("sub-process watchdog")
	}
	if err != nil {
		err = fmt.Errorf("%v: %s", err, core.Clip(stderr.String(), 400))
	}
	return
}

// c19FreshBinary is the binary started for "a fresh process": this very binary, so that both
// sides of a comparison run exactly the same goawk code. (An earlier version started the plain
// build to save time; when /repo changed between the two builds of one `check` run, the two
// binaries contained different compilers and every jump-fusing program "differed".)
func c19FreshBinary() string {
	if self, err := os.Executable(); err == nil {
		return self
	}
	return filepath.Join(core.BuildDir, "vcheck-race")
}

// crossProcessFingerprints returns, per process, the fingerprints of all sources.
func crossProcessFingerprints(c *core.Ctx, sources []c19gen.Source, procs int, full bool, tag string) ([][]c19FP, error) {
	res := make([][]c19FP, procs)
	errs := make([]error, procs)
	var wg sync.WaitGroup
	sem := make(chan struct{}, 4)
	for p := 0; p < procs; p++ {
		wg.Add(1)
		go func(p int) {
			defer wg.Done()
			sem <- struct{}{}
			defer func() { <-sem }()
			base, err := c19Spawn(c, c19FreshBinary(), c19Job{Kind: "fingerprints", Sources: sources, Order: p, Full: full}, fmt.Sprintf("%s-p%d", tag, p), nil)
			if err != nil {
				errs[p] = err
				return
			}
			b, err := os.ReadFile(base + ".job.out")
			if err != nil {
				errs[p] = err
				return
			}
			errs[p] = json.Unmarshal(b, &res[p])
			_ = os.Remove(base + ".job.out")
			_ = os.Remove(base + ".job")
		}(p)
	}
	wg.Wait()
	for _, e := range errs {
		if e != nil {
			return nil, e
		}
	}
	return res, nil
}

// ---- parse determinism: the goawk command -----------------------------------------------------

type cliRun struct {
	code           int
	stdout, stderr string
}

func c19CLI(c *core.Ctx, src string, runs int) ([]cliRun, error) {
	pf := filepath.Join(c.WorkDir(), "cli.awk")
	if err := os.WriteFile(pf, []byte(src), 0o644); err != nil {
		return nil, err
	}
	var out []cliRun
	for i := 0; i < runs; i++ {
		cmd := exec.Command(filepath.Join(core.BuildDir, "goawk"), "-dt", "-d", "-da", "-f", pf)
		cmd.Stdin = strings.NewReader("")
		var so, se bytes.Buffer
		cmd.Stdout, cmd.Stderr = &so, &se
		cmd.Env = []string{"PATH=/nonexistent"}
		err := cmd.Run()
		r := cliRun{stdout: so.String(), stderr: se.String()}
		if ee, ok := err.(*exec.ExitError); ok {
			r.code = ee.ExitCode()
		} else if err != nil {
			return nil, err
		}
		out = append(out, r)
	}
	return out, nil
}

// ---- the parse case ---------------------------------------------------------------------------

type parseResult struct {
	ref           c19fp.Parse
	deterministic bool // in-process
}

func c19ParseInProcess(c *core.Ctx, cs c19Case) parseResult {
	s := *cs.Source
	variants, counts := parseVariants(s, cs.Parses)
	c.Eval(cs.Parses)
	c.Count("parses_in_process", cs.Parses)
	ref := variants[0]
	c.Count("verdict_"+ref.Verdict, 1)
	if ref.Verdict == "error" {
		c.Cover("error_messages", msgClass(ref.Message))
	}
	if len(variants) == 1 {
		// The caller's byte slice belongs to the caller: parsing it must leave it as it was, so
		// that parsing (or showing) the same slice again gives the same result.
		buf := []byte(s.Src)
		cfg := &parser.ParserConfig{Funcs: c19Funcs(s.Native)}
		for k := 0; k < 2; k++ {
			func() {
				defer func() { _ = recover() }()
				_, _ = parser.ParseProgram(buf, cfg)
			}()
			c.Count("source_buffer_checks", 1)
			if string(buf) != s.Src {
				c.Violation("parse-nondeterminism", "source-buffer-modified",
					fmt.Sprintf("ParseProgram changed the source bytes it was given (%s): %s", s.Gen, firstDiff(s.Src, string(buf))),
					"the source slice is unchanged after parsing", core.Clip(string(buf), 600), cs)
				return parseResult{ref: ref, deterministic: false}
			}
		}
		return parseResult{ref: ref, deterministic: true}
	}
	class, comp, detail := classifyParseDiff(s.Src, variants)
	var obs []string
	for i, v := range variants {
		obs = append(obs, fmt.Sprintf("x%d: %s", counts[i], v.Short()))
	}
	c.Violation("parse-nondeterminism", class,
		fmt.Sprintf("%d parses of one source (%s) gave %d different results; first differing component: %s; %s", cs.Parses, s.Gen, len(variants), comp, core.Clip(detail, 600)),
		"every parse of one source gives the same verdict, message, position and program",
		strings.Join(obs, "\n")+"\n"+detail, cs)
	return parseResult{ref: ref, deterministic: false}
}

func c19ParseCLI(c *core.Ctx, cs c19Case) {
	s := *cs.Source
	if s.Native || cs.CLI == 0 || strings.IndexByte(s.Src, 0) >= 0 {
		return
	}
	runs, err := c19CLI(c, s.Src, cs.CLI)
	if err != nil {
		c.Inconclusive("cli-run:" + err.Error())
		return
	}
	c.Count("cli_runs", len(runs))
	c.Eval(len(runs))
	for _, r := range runs[1:] {
		if r == runs[0] {
			continue
		}
		what, a, b := "stdout", runs[0].stdout, r.stdout
		if runs[0].code != r.code {
			what, a, b = "exit status", fmt.Sprint(runs[0].code), fmt.Sprint(r.code)
		} else if runs[0].stderr != r.stderr {
			what, a, b = "stderr", runs[0].stderr, r.stderr
		}
		kind, class := "cli-nondeterminism", "cli:"+strings.ReplaceAll(what, " ", "-")
		// Two different parse errors: name the difference the way the API monitor does, so
		// that one defect seen through the command is not a second finding.
		if pa, ok := cliVerdict(runs[0]); ok && what != "stdout" {
			if pb, ok := cliVerdict(r); ok {
				cl, _, _ := classifyParseDiff(s.Src, []c19fp.Parse{pa, pb})
				if strings.HasPrefix(cl, "error-choice:") || strings.HasPrefix(cl, "verdict-flips:") {
					kind, class = "parse-nondeterminism", cl
				}
			}
		}
		c.Violation(kind, class,
			fmt.Sprintf("goawk -dt -d -da -f prog: two runs differ in %s: %s", what, c19fp.FirstDiff(a, b)),
			core.Clip(a, 1500), core.Clip(b, 1500), cs)
		return
	}
}

var cliErrorLine = regexp.MustCompile(`^[^\n]*?:(\d+):(\d+): ([^\n]*)\n`)

// cliVerdict reads the verdict of a run of the command: accepted (exit 0), or the
// "file:line:col: message" of a parse error (exit 1).
func cliVerdict(r cliRun) (c19fp.Parse, bool) {
	if r.code == 0 {
		return c19fp.AcceptedParse(), true
	}
	m := cliErrorLine.FindStringSubmatch(r.stderr)
	if r.code != 1 || m == nil {
		return c19fp.Parse{}, false
	}
	line, _ := strconv.Atoi(m[1])
	col, _ := strconv.Atoi(m[2])
	return c19fp.ErrorParse(m[3], line, col), true
}

// c19CrossProcess compares the in-process reference of each source with P fresh processes.
// Sources already seen to be nondeterministic in-process are skipped (reported there).
func c19CrossProcess(c *core.Ctx, cases []c19Case, results []parseResult, procs int, tag string) {
	var idx []int
	var sources []c19gen.Source
	for i, r := range results {
		if r.deterministic {
			idx = append(idx, i)
			sources = append(sources, *cases[i].Source)
		} else {
			c.Count("xproc_skipped_nondeterministic_in_process", 1)
		}
	}
	if len(sources) == 0 || procs == 0 {
		return
	}
	fps, err := crossProcessFingerprints(c, sources, procs, false, tag)
	if err != nil {
		c.Inconclusive("cross-process:" + err.Error())
		return
	}
	c.Count("processes_spawned", procs)
	var bad []int
	for k, i := range idx {
		want := results[i].ref.H
		for p := 0; p < procs; p++ {
			c.Eval(1)
			c.Count("parses_cross_process", 1)
			if !sameHashes(want, fps[p][k].Hashes) {
				bad = append(bad, k)
				break
			}
		}
	}
	if len(bad) == 0 {
		return
	}
	// Second round with whole fingerprints for the sources that disagreed, to name the difference.
	var again []c19gen.Source
	for _, k := range bad {
		again = append(again, sources[k])
	}
	full, ferr := crossProcessFingerprints(c, again, procs, true, tag+"-full")
	for j, k := range bad {
		i := idx[k]
		variants := []c19fp.Parse{results[i].ref}
		if ferr == nil {
			for p := 0; p < procs; p++ {
				if full[p][j].Full != nil && !sameHashes(results[i].ref.H, full[p][j].Hashes) {
					variants = append(variants, *full[p][j].Full)
				}
			}
		}
		class, comp, detail := "xproc:unnamed", "", ""
		if len(variants) == 1 {
			// The second round agreed with this process (the disagreement is itself
			// nondeterministic): fall back on the verdict parts sent in the first round.
			for p := 0; p < procs; p++ {
				if v, ok := fps[p][k].verdictOnly(); ok && !sameHashes(results[i].ref.H, fps[p][k].Hashes) &&
					(v.Verdict != results[i].ref.Verdict || v.Verdict == "error") {
					variants = append(variants, v)
				}
			}
			if len(variants) > 1 {
				ref := results[i].ref
				if ref.Verdict == "ok" {
					ref = c19fp.AcceptedParse()
				}
				variants[0] = ref
			}
		}
		if len(variants) > 1 {
			// same classes as the in-process monitor: it is the same disagreement, seen later
			class, comp, detail = classifyParseDiff(sources[k].Src, dedupParses(variants))
		} else {
			for p := 0; p < procs; p++ {
				for _, cn := range c19fp.Components {
					if fps[p][k].Hashes[cn] != results[i].ref.H[cn] && comp == "" {
						comp, detail = cn, "process "+strconv.Itoa(p)+" reported "+fps[p][k].Short
					}
				}
			}
			class = "xproc:component:" + comp
		}
		c.Violation("parse-nondeterminism", class,
			fmt.Sprintf("a fresh process parsed the source (%s) differently from this process (which agreed with itself %d times); first differing component: %s; %s",
				sources[k].Gen, cases[i].Parses, comp, core.Clip(detail, 600)),
			results[i].ref.Short(), detail, cases[i])
	}
}

// dedupParses keeps the first of each distinct (verdict, message, position, digests) variant;
// classifyParseDiff expects pairwise different variants.
func dedupParses(vs []c19fp.Parse) []c19fp.Parse {
	seen := map[string]bool{}
	var out []c19fp.Parse
	for _, v := range vs {
		if k := v.Key(); !seen[k] {
			seen[k] = true
			out = append(out, v)
		}
	}
	return out
}

func sameHashes(a, b map[string]string) bool {
	for _, c := range c19fp.Components {
		if a[c] != b[c] {
			return false
		}
	}
	return true
}

func c19ParseNonTrivial(s c19gen.Source, ref c19fp.Parse) bool {
	return strings.Count(s.Src, "function ") >= 2 || s.Native || ref.Verdict == "error"
}

// ---- shared execution -------------------------------------------------------------------------

// execEnv is where one interpreter may read and write files: reads look in the private
// directory first (what this execution wrote) and then in the shared read-only one.
type execEnv struct {
	shared, priv string
	wrote        bool
}

func (e *execEnv) open(name string, flag int, perm os.FileMode) (*os.File, error) {
	base := filepath.Base(name)
	if flag == os.O_RDONLY {
		if e.wrote {
			if f, err := os.OpenFile(filepath.Join(e.priv, base), flag, perm); err == nil {
				return f, nil
			}
		}
		return os.OpenFile(filepath.Join(e.shared, base), flag, perm)
	}
	if !e.wrote {
		if err := os.MkdirAll(e.priv, 0o755); err != nil {
			return nil, err
		}
		e.wrote = true
	}
	return os.OpenFile(filepath.Join(e.priv, base), flag, perm)
}

// collect returns the files the execution wrote (name=content, sorted) and removes them.
func (e *execEnv) collect() string {
	if !e.wrote {
		return ""
	}
	ents, _ := os.ReadDir(e.priv)
	var parts []string
	for _, en := range ents {
		b, _ := os.ReadFile(filepath.Join(e.priv, en.Name()))
		parts = append(parts, fmt.Sprintf("%s=%q", en.Name(), b))
		_ = os.Remove(filepath.Join(e.priv, en.Name()))
	}
	e.wrote = false
	return strings.Join(parts, ";")
}

func c19Config(sh *c19gen.Shared, env *execEnv) *interp.Config {
	cfg := &interp.Config{
		Stdin:    strings.NewReader(sh.Input),
		Vars:     sh.Vars,
		Args:     sh.Args,
		NoExec:   true,
		Environ:  []string{},
		OpenFile: env.open,
	}
	if sh.Exec {
		cfg.NoExec = false
		cfg.Environ = []string{"PATH", "/usr/bin:/bin"}
	}
	if sh.Native {
		cfg.Funcs = c19NativeFuncs
	}
	if sh.CSV {
		cfg.InputMode = interp.CSVMode
		cfg.CSVInput.Header = true
	}
	return cfg
}

// c19Exec runs the program once on a fresh interpreter and returns the comparable outcome.
// api 0: interp.New + Execute (with the step budget); api 1: interp.ExecProgram.
func c19Exec(prog *parser.Program, sh *c19gen.Shared, env *execEnv, api int, hist bool) (string, run.Outcome) {
	cfg := c19Config(sh, env)
	var out run.Outcome
	var errFile *os.File
	if sh.Exec {
		// Children get Stdin and Error as they are. Files are handed to a child directly; for any
		// other reader or writer os/exec starts a copying goroutine per child, which (for children
		// alive at the same time, or abandoned after WaitDelay) would race on the caller's
		// reader/buffer inside ONE execution: not what this property is about.
		api = 1
		if f, err := os.Open(os.DevNull); err == nil {
			defer f.Close()
			cfg.Stdin = f
		}
		_ = os.MkdirAll(env.priv+"-err", 0o755)
		if f, err := os.CreateTemp(env.priv+"-err", "stderr"); err == nil {
			errFile = f
			defer func() { _ = f.Close(); _ = os.Remove(f.Name()) }()
		}
	}
	if api == 0 {
		out = run.Exec(prog, cfg, run.Opts{StepLimit: 400_000, Hist: hist})
	} else {
		var stdout, stderr bytes.Buffer
		cfg.Output, cfg.Error = &stdout, &stderr
		if errFile != nil {
			cfg.Error = errFile
		}
		func() {
			defer func() {
				if r := recover(); r != nil {
					out.Panic = fmt.Sprint(r)
				}
			}()
			status, err := interp.ExecProgram(prog, cfg)
			out.Status = status
			if err != nil {
				out.Err = err.Error()
			}
		}()
		out.Stdout, out.Stderr = stdout.String(), stderr.String()
		if errFile != nil {
			b, _ := os.ReadFile(errFile.Name())
			out.Stderr = string(b)
		}
	}
	files := env.collect()
	sig := fmt.Sprintf("%s err=%q stderr=%q panic=%q faults=%q files=%s", out.Sig(), out.Err, out.Stderr, firstLineOf(out.Panic), strings.Join(out.Faults, ";"), files)
	sig = strings.ReplaceAll(sig, env.priv, "<private>")
	sig = strings.ReplaceAll(sig, env.shared, "<shared>")
	return sig, out
}

// orderSensitive reports constructs whose result may legitimately differ between two
// executions (for-in order, srand() seeded by the clock): such corpus programs are not used.
func orderSensitive(prog *parser.Program) bool {
	bad := false
	v := astx.Visitor{
		Stmt: func(s vh.Stmt) {
			if _, ok := s.(*vh.ForInStmt); ok {
				bad = true
			}
		},
		Expr: func(e vh.Expr) {
			if ce, ok := e.(*vh.CallExpr); ok && ce.Func == lexer.F_SRAND && len(ce.Args) == 0 {
				bad = true
			}
			if ve, ok := e.(*vh.VarExpr); ok && ve.Name == "ENVIRON" {
				bad = true
			}
		},
	}
	v.Program(astx.Tree(prog))
	return bad
}

// ---- race-detector log ------------------------------------------------------------------------

// raceLogPath returns this process's race-detector log file (GORACE log_path + "." + pid).
func raceLogPath() string {
	for _, f := range strings.Fields(os.Getenv("GORACE")) {
		if strings.HasPrefix(f, "log_path=") {
			return strings.TrimPrefix(f, "log_path=") + "." + strconv.Itoa(os.Getpid())
		}
	}
	return ""
}

type raceReport struct {
	class string
	text  string
	goawk bool
}

const goawkPkg = "github.com/benhoyt/goawk/"

// parseRaceLog splits race-detector output into reports and names each by the pair of
// innermost goawk frames of its two access stacks.
func parseRaceLog(text string) []raceReport {
	var out []raceReport
	for _, block := range strings.Split(text, "==================") {
		if !strings.Contains(block, "WARNING: DATA RACE") {
			continue
		}
		var frames []string
		for _, sec := range strings.Split(block, "\n\n") {
			lines := strings.Split(strings.TrimLeft(sec, "\n"), "\n")
			if len(lines) == 0 {
				continue
			}
			head := lines[0]
			if strings.HasPrefix(head, "WARNING: DATA RACE") && len(lines) > 1 {
				lines = lines[1:]
				head = lines[0]
			}
			isAccess := (strings.Contains(head, "rite at ") || strings.Contains(head, "ead at ")) && strings.Contains(head, " by ")
			if !isAccess {
				continue
			}
			frame := ""
			for _, l := range lines[1:] {
				l = strings.TrimSpace(l)
				if strings.HasPrefix(l, goawkPkg) && !strings.HasPrefix(l, goawkPkg+"verifhook") {
					frame = strings.TrimSuffix(strings.TrimPrefix(l, goawkPkg), "()")
					break
				}
			}
			frames = append(frames, frame)
		}
		r := raceReport{text: strings.TrimSpace(block)}
		var named []string
		for _, f := range frames {
			if f != "" {
				r.goawk = true
				named = append(named, f)
			} else {
				named = append(named, "(no goawk frame)")
			}
		}
		sort.Strings(named)
		r.class = "race:" + strings.Join(named, "|")
		out = append(out, r)
	}
	return out
}

type raceLog struct {
	path string
	off  int64
}

// fresh returns the reports written since the last call.
func (l *raceLog) fresh() []raceReport {
	if l.path == "" {
		return nil
	}
	b, err := os.ReadFile(l.path)
	if err != nil || int64(len(b)) <= l.off {
		return nil
	}
	text := string(b[l.off:])
	l.off = int64(len(b))
	return parseRaceLog(text)
}

var c19RaceLog = &raceLog{}

// ---- the shared case --------------------------------------------------------------------------

func c19SharedCase(c *core.Ctx, cs c19Case) {
	sh := cs.Shared
	prog, err, pm := run.Parse(sh.Src, c19Funcs(sh.Native))
	if pm != "" || err != nil {
		c.Count("shared_parse_failed_"+sh.Gen, 1)
		if sh.Gen != "corpus" {
			c.Note("generated shared program does not parse (generator fault): %v\n%s", err, core.Clip(sh.Src, 800))
		}
		return
	}
	if sh.Gen == "corpus" && orderSensitive(prog) {
		c.Count("shared_skipped_order_sensitive", 1)
		return
	}
	work := c.WorkDir()
	sharedDir := filepath.Join(work, "shared")
	if _, err := os.Stat(filepath.Join(sharedDir, "data.txt")); err != nil {
		_ = os.MkdirAll(sharedDir, 0o755)
		_ = os.WriteFile(filepath.Join(sharedDir, "data.txt"), []byte(c19gen.DataFile), 0o644)
	}
	newEnv := func(tag string) *execEnv { return &execEnv{shared: sharedDir, priv: filepath.Join(work, "priv-"+tag)} }

	// watch returns the immutability check of one Program: its whole fingerprint now, to be
	// compared with its fingerprint at later quiescent points.
	watch := func(p *parser.Program) func(when string) bool {
		before, beforeDigest := c19fp.Whole(p, true), c19fp.Whole(p, false)
		return func(when string) bool {
			c.Count("fingerprint_comparisons", 1)
			if c19fp.Whole(p, false) == beforeDigest {
				return true
			}
			after := c19fp.Whole(p, true)
			diff := c19fp.FirstDiff(before, after)
			c.Violation("program-mutated", "mutated:"+diffPath(before, after),
				fmt.Sprintf("the parsed Program changed %s: %s", when, core.Clip(diff, 500)), "fingerprint of the Program unchanged by executing it", diff, cs)
			return false
		}
	}
	checkUnchanged := watch(prog)

	// The single execution every other one is compared with.
	env0 := newEnv("ref")
	ref, refOut := c19Exec(prog, sh, env0, 0, true)
	c.Eval(1)
	c.Count("shared_programs", 1)
	for k := range refOut.Hist {
		c.Cover("shared_opcodes", vh.Opcode(k.Op).String())
	}
	for _, f := range sh.Features {
		c.Cover("shared_features", f)
	}
	if len(refOut.Faults) > 0 {
		c.Count("shared_ref_stack_faults", 1) // C01's business; here they are only part of the compared outcome
	}
	apis := 2
	if refOut.StepLimit {
		apis = 1 // ExecProgram has no step budget; only use it on programs known to finish
		c.Count("shared_ref_step_limit", 1)
	}
	if refOut.Steps >= 20 {
		c.NonTrivial("shared|" + sh.Src + "|" + sh.Input)
	}
	if !checkUnchanged("during its first execution") {
		return
	}

	// One after another.
	for i := 0; i < cs.Sequential; i++ {
		got, _ := c19Exec(prog, sh, env0, i%apis, false)
		c.Eval(1)
		c.Count("executions_sequential", 1)
		if got != ref {
			c.Violation("shared-output-mismatch", "sequential",
				fmt.Sprintf("execution %d of one Program (fresh interpreter each, one after another) differs from the first: %s", i+2, c19fp.FirstDiff(ref, got)),
				core.Clip(ref, 1500), core.Clip(got, 1500), cs)
			return
		}
	}
	if !checkUnchanged("during sequential executions") {
		return
	}

	// At the same time, on a SECOND parse of the same source that has never been executed: the
	// first round is a cold start, so that anything the interpreter initialises lazily in (or
	// keyed by) the Program is initialised by 16 goroutines at once rather than by the single
	// reference run above. (Two parses of one source are the same program — the other half of
	// this property — so the reference outcome applies.)
	// The goroutines do not synchronise with one another while they run (results are kept
	// locally and inspected after Wait), so that the race detector sees the executions as
	// unordered.
	prog, err, pm = run.Parse(sh.Src, c19Funcs(sh.Native))
	if pm != "" || err != nil {
		c.Violation("parse-nondeterminism", "verdict-flips", "second parse of a shared program's source failed: "+fmt.Sprint(err, pm), "accepted", fmt.Sprint(err, pm), cs)
		return
	}
	checkUnchanged = watch(prog)
	for rep := 0; rep < cs.Reps; rep++ {
		type result struct {
			execs     int
			artefacts int
			mismatch  string
		}
		results := make([]result, cs.Goroutines)
		start := make(chan struct{})
		var wg sync.WaitGroup
		for g := 0; g < cs.Goroutines; g++ {
			wg.Add(1)
			go func(g int) {
				defer wg.Done()
				env := newEnv(fmt.Sprintf("g%d", g))
				<-start
				for e := 0; e < cs.Execs; e++ {
					got, _ := c19Exec(prog, sh, env, (g+e)%apis, false)
					results[g].execs++
					if sh.Exec && strings.Contains(got, "WaitDelay expired") {
						// os/exec gave up waiting (goawk sets WaitDelay = 250 ms) for its copier of the
						// child's output on a loaded machine: wall-clock behaviour, not judged here
						results[g].artefacts++
						continue
					}
					if got != ref && results[g].mismatch == "" {
						results[g].mismatch = got
					}
				}
			}(g)
		}
		close(start)
		wg.Wait()
		total := 0
		for g, r := range results {
			total += r.execs - r.artefacts
			c.Count("exec_waitdelay_artefacts_not_judged", r.artefacts)
			if r.mismatch != "" {
				c.Violation("shared-output-mismatch", "concurrent",
					fmt.Sprintf("goroutine %d of %d executing one Program concurrently (own interpreter each) produced a result different from the single execution: %s",
						g, cs.Goroutines, c19fp.FirstDiff(ref, r.mismatch)),
					core.Clip(ref, 1500), core.Clip(r.mismatch, 1500), cs)
				break
			}
		}
		c.Eval(total)
		c.Count("executions_concurrent", total)
		c.Count("concurrent_rounds", 1)
		if c19RaceLog.path != "" {
			c.Count("race_log_checks", 1)
		}
		for _, r := range c19RaceLog.fresh() {
			c.Count("race_reports_seen", 1)
			if !r.goawk {
				c.Inconclusive("race report without a goawk frame (harness?): " + core.Clip(r.class, 200))
				c.Note("race report without goawk frame:\n%s", core.Clip(r.text, 1500))
				continue
			}
			c.Violation("data-race", r.class,
				"race detector report while goroutines executed one Program, each with its own interpreter: "+r.class,
				"no data race", core.Clip(r.text, 3500), cs)
		}
		if !checkUnchanged(fmt.Sprintf("during concurrent round %d", rep+1)) {
			return
		}
	}
}

// diffPath names the structure in which two whole-Program fingerprints first differ
// (path of the dump line, without indexes).
func diffPath(a, b string) string {
	la, lb := strings.Split(a, "\n"), strings.Split(b, "\n")
	for i := 0; i < len(la) && i < len(lb); i++ {
		if la[i] != lb[i] {
			p := la[i]
			if j := strings.Index(p, " = "); j >= 0 {
				p = p[:j]
			}
			p = regexp.MustCompile(`\[[^\]]*\]`).ReplaceAllString(p, "[]")
			if !strings.HasPrefix(p, "Program") {
				p = "rendering"
			}
			return core.Clip(p, 80)
		}
	}
	return "length"
}

// ---- driver -----------------------------------------------------------------------------------

func c19RunCase(c *core.Ctx, cs c19Case, corp []string) {
	switch cs.Mode {
	case "parse":
		r := c19ParseInProcess(c, cs)
		if r.deterministic {
			c19ParseCLI(c, cs)
		}
		c19CrossProcess(c, []c19Case{cs}, []parseResult{r}, cs.Procs, "replay")
	case "shared":
		c19SharedCase(c, cs)
	}
}

func c19Run(c *core.Ctx) {
	if job := os.Getenv("VERIF_C19_JOB"); job != "" {
		c19RaceLog.path = raceLogPath()
		c19RunJob(c, job)
		return
	}
	if !c19RaceEnabled {
		c.Inconclusive("C19 batches must run from the race-detector build (vcheck-race)")
		return
	}
	c19RaceLog.path = raceLogPath()
	if c19RaceLog.path == "" {
		c.Inconclusive("GORACE log_path not set for the batch")
		return
	}
	sz := c19SizesFor(c.Tier)
	corp := corpus.All()
	stage := c19StageTimer()

	// Parse cases: a global list partitioned over the batches.
	gen := c.RandGlobal("sources")
	var cases []c19Case
	var results []parseResult
	for i := 0; i < sz.sources; i++ {
		s := c19gen.GenSource(gen, i, corp)
		if !c.Mine(i) {
			continue
		}
		cs := c19Case{Mode: "parse", Source: &s, Parses: sz.parses, Procs: sz.procs, CLI: sz.cli}
		c.Begin(cs)
		c.Count("sources", 1)
		c.Count("gen_"+strings.SplitN(s.Gen, "-", 2)[0], 1)
		r := c19ParseInProcess(c, cs)
		if r.deterministic {
			c19ParseCLI(c, cs)
		}
		if c19ParseNonTrivial(s, r.ref) {
			c.NonTrivial("parse|" + s.Src)
		}
		if r.ref.Verdict == "ok" && strings.Count(s.Src, "function ") >= 2 {
			c.Count("accepted_multi_function_sources", 1)
		}
		if c.WantSample() && i%7 == 3 {
			c.Sample(map[string]any{"mode": "parse", "gen": s.Gen, "src": core.Clip(s.Src, 600), "native": s.Native, "parses": sz.parses,
				"result": r.ref.Short(), "deterministic_in_process": r.deterministic})
		}
		cases = append(cases, cs)
		results = append(results, r)
	}
	stage("parse in-process + CLI")
	c.Begin(map[string]any{"mode": "cross-process", "sources": len(cases)})
	c19CrossProcess(c, cases, results, sz.procs, "xproc")
	stage("cross-process")

	// Shared programs.
	sgen := c.RandGlobal("shared")
	for i := 0; i < sz.shared; i++ {
		var sh c19gen.Shared
		if i%6 == 5 {
			sh = c19gen.SharedFromCorpus(sgen, corp)
		} else {
			sh = c19gen.GenShared(sgen, i-i/6)
		}
		if !c.Mine(i) {
			continue
		}
		cs := c19Case{Mode: "shared", Shared: &sh, Sequential: sz.sequential, Goroutines: sz.goroutines, Execs: sz.execs, Reps: sz.reps}
		c.Begin(cs)
		c19SharedCase(c, cs)
		if c.WantSample() && i%5 == 1 {
			c.Sample(map[string]any{"mode": "shared", "gen": sh.Gen, "features": sh.Features, "src": core.Clip(sh.Src, 600), "input": core.Clip(sh.Input, 120),
				"goroutines": sz.goroutines, "execs_per_goroutine": sz.execs, "rounds": sz.reps})
		}
	}
	// Shared programs that run commands through the default shell.
	for i := range c19gen.ExecShared {
		if !c.Mine(5000 + i) {
			continue
		}
		sh := c19gen.ExecShared[i]
		cs := c19Case{Mode: "shared", Shared: &sh, Sequential: 2, Goroutines: sz.goroutines, Execs: c19Min(sz.execs, 3), Reps: c19Min(sz.reps, 2)}
		c.Begin(cs)
		c19SharedCase(c, cs)
		c.Count("shared_exec_programs", 1)
	}
	stage("shared execution")
}

func c19Min(a, b int) int {
	if a < b {
		return a
	}
	return b
}

// c19StageTimer prints stage durations to stderr when VERIF_C19_TIMING is set (development
// aid; nothing it measures enters a verdict or the evidence).
func c19StageTimer() func(string) {
	if os.Getenv("VERIF_C19_TIMING") == "" {
		return func(string) {}
	}
	cpu := func() float64 {
		var t float64
		for _, who := range []int{syscall.RUSAGE_SELF, syscall.RUSAGE_CHILDREN} {
			var ru syscall.Rusage
			if syscall.Getrusage(who, &ru) == nil {
				t += float64(ru.Utime.Sec+ru.Stime.Sec) + float64(ru.Utime.Usec+ru.Stime.Usec)/1e6
			}
		}
		return t
	}
	last, lastCPU := time.Now(), cpu()
	return func(name string) {
		fmt.Fprintf(os.Stderr, "C19 timing: %s wall %.1fs cpu %.1fs\n", name, time.Since(last).Seconds(), cpu()-lastCPU)
		last, lastCPU = time.Now(), cpu()
	}
}

// c19Replay re-runs one recorded case. Parse cases run here; shared cases run in a fresh
// race-detector process (the replay driver itself is the plain build).
func c19Replay(c *core.Ctx, raw json.RawMessage) {
	var cs c19Case
	if json.Unmarshal(raw, &cs) != nil || (cs.Source == nil && cs.Shared == nil) {
		fmt.Println("not a replayable C19 case (a cross-process bookkeeping record?)")
		return
	}
	if cs.Mode == "parse" {
		fmt.Printf("source (%s, native=%v):\n%s\n", cs.Source.Gen, cs.Source.Native, core.Clip(cs.Source.Src, 1500))
		c19RunCase(c, cs, nil)
		return
	}
	fmt.Printf("shared program (%s) features=%v:\n%s\n", cs.Shared.Gen, cs.Shared.Features, core.Clip(cs.Shared.Src, 1500))
	logBase := filepath.Join(c.WorkDir(), "race")
	base, err := c19Spawn(c, filepath.Join(core.BuildDir, "vcheck-race"), c19Job{Kind: "case", Case: &cs}, "replay-shared",
		[]string{"GORACE=halt_on_error=0 exitcode=0 log_path=" + logBase})
	if err != nil {
		// a process-fatal end (e.g. "fatal error: concurrent map writes") is itself the violation
		c.Violation("process-fatal", "", "the race-detector process running the case died: "+err.Error(), "", err.Error(), cs)
		return
	}
	b, err := os.ReadFile(base + ".json")
	if err != nil {
		fmt.Println("replay: no result from the sub-process:", err)
		return
	}
	var agg struct {
		Violations   []core.Witness   `json:"violations"`
		Counts       map[string]int64 `json:"counts"`
		Inconclusive []string         `json:"inconclusive"`
	}
	_ = json.Unmarshal(b, &agg)
	fmt.Printf("sub-process: %d sequential + %d concurrent executions, %d race-log checks, %d fingerprint comparisons\n",
		agg.Counts["executions_sequential"], agg.Counts["executions_concurrent"], agg.Counts["race_log_checks"], agg.Counts["fingerprint_comparisons"])
	for _, w := range agg.Violations {
		c.Violation(w.Kind, w.Class, w.Summary, w.Expected, w.Observed, cs)
	}
	for _, inc := range agg.Inconclusive {
		fmt.Println("inconclusive:", inc)
	}
}

// c19Finish (parent): every race report in the run's log files must have been attributed to a
// case by the batch that provoked it.
func c19Finish(a *core.Agg, t core.Tier) {
	files, _ := filepath.Glob(filepath.Join(core.RunDir("C19"), "race.*"))
	total := 0
	var first string
	for _, f := range files {
		b, err := os.ReadFile(f)
		if err != nil {
			continue
		}
		reps := parseRaceLog(string(b))
		total += len(reps)
		if len(reps) > 0 && first == "" {
			first = reps[0].class + "\n" + reps[0].text
		}
	}
	a.Counts["race_reports_in_log_files"] = int64(total)
	if int64(total) > a.Counts["race_reports_seen"] {
		a.Violations = append(a.Violations, core.Witness{Property: "C19", Kind: "data-race-unattributed", Class: "",
			Summary:  fmt.Sprintf("%d race report(s) in the log files but only %d attributed to cases", total, a.Counts["race_reports_seen"]),
			Observed: core.Clip(first, 3500), Tier: t})
	}
}

func init() {
	n := func(t core.Tier, q, th int) int {
		if t == core.Thorough {
			return th
		}
		return q
	}
	core.Register(&core.Property{
		ID:    "C19",
		Level: "exploration",
		Rule: "parse side: generated sources (call graphs of 2-45 functions, 1-4 independent type errors injected into different functions, globals typed differently by " +
			"different functions, chains/cycles needing many resolver passes, native functions beside AWK functions, corpus programs and their mutants) are each parsed 50x in " +
			"one process, once in each of 8 fresh processes (different visiting order) and 3x by `goawk -dt -d -da`; non-trivial = distinct source with >=2 function " +
			"definitions, native functions, or a parse error. Execution side: programs composed of feature snippets (and order-insensitive corpus programs) are parsed once and " +
			"executed by fresh interpreters sequentially and from 16 goroutines x 50 executions x 5 rounds under the race detector; non-trivial = distinct (program, input) " +
			"whose single run dispatched >= 20 instructions",
		Assumptions: []string{
			"the resolver's private update counter (resolver.updates) is not part of the parse result (excluded from parse-to-parse comparison, included in the immutability fingerprint)",
			"interpreters sharing a Program are created fresh (interp.New / ExecProgram); reuse of one Interpreter is C14's subject",
			"programs using for-in, srand() without argument or ENVIRON are not used for the shared-execution comparison (their output may legitimately differ between runs)",
			"shared programs run with NoExec (a race between a command's output copier and the interpreter inside ONE interpreter is C13's subject)",
			"native Go functions supplied by the harness are pure; each execution has its own Config, input reader, output buffers and private output directory",
		},
		Explanation: "race detector: happens-before based, reports are read from GORACE log_path after every concurrent round and attributed to the program executed in that round",
		NBatches:    func(t core.Tier) int { return n(t, 16, 64) },
		Race:        func(t core.Tier) bool { return true },
		ChildEnv: func(t core.Tier) []string {
			// GOMAXPROCS/GOGC: up to 16 batches run side by side, each with its own 16 goroutines and
			// race-detector GC work; 4 Ps per batch keep the machine from thrashing (the race
			// detector is happens-before based and does not need true parallelism to report).
			return []string{"GORACE=halt_on_error=0 exitcode=0 log_path=" + filepath.Join(core.RunDir("C19"), "race"), "GOMAXPROCS=4", "GOGC=200"}
		},
		Floors: func(t core.Tier) map[string]int {
			return map[string]int{
				"evaluations":                     n(t, 45_000, 1_050_000),
				"distinct_nontrivial":             n(t, 250, 4_500),
				"sources":                         n(t, 320, 6_000),
				"parses_cross_process":            n(t, 1_500, 30_000),
				"cli_runs":                        n(t, 250, 4_500),
				"verdict_ok":                      n(t, 100, 1_900),
				"verdict_error":                   n(t, 80, 1_500),
				"accepted_multi_function_sources": n(t, 60, 1_100),
				"error_messages":                  n(t, 12, 20),
				"shared_programs":                 n(t, 30, 450),
				"shared_exec_programs":            len(c19gen.ExecShared),
				"executions_concurrent":           n(t, 21_000, 720_000),
				"race_log_checks":                 n(t, 90, 1_800),
				"fingerprint_comparisons":         n(t, 150, 2_800),
				"shared_features":                 30,
				"shared_opcodes":                  n(t, 55, 60),
			}
		},
		// Generous watchdogs (inconclusive when they fire): race-detector children are slow and
		// the machine is shared with other checks.
		BatchTimeout: func(t core.Tier) time.Duration { return time.Duration(n(t, 45, 240)) * time.Minute },
		Run:          c19Run,
		Replay:       c19Replay,
		Finish:       c19Finish,
	})
}
