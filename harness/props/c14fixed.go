package props

// C14, fixed sequences: short hand-written histories aimed at state that lives in the
// Interpreter between calls in a single slot or a small cache (the last number converted, the
// translated printf formats, compiled regular expressions, open range patterns, streams left
// open, the random generator, call depth, recycled local arrays). The bank's random and
// systematic histories reach such state only when two particular actions happen to be adjacent
// across the reset; here the last thing the first run does is the first thing the judged run does.
//
// Verdict: after ResetVars+ResetRand the judged (last) run on the reused Interpreter must give the
// stdout, exit status and error/no-error of the same run on a fresh Interpreter.

import (
	"encoding/json"
	"fmt"
	"os"
	"path/filepath"
	"strings"

	"github.com/benhoyt/goawk/interp"

	"verifharness/core"
	"verifharness/run"
)

type c14FixedRun struct {
	Vars  []string `json:"vars,omitempty"`
	Stdin string   `json:"stdin,omitempty"`
	Chars bool     `json:"chars,omitempty"`
	Args  []string `json:"args,omitempty"`
}

type c14FixedCase struct {
	Fixed string        `json:"fixed"`
	Src   string        `json:"src"` // %F% is a scratch file
	Runs  []c14FixedRun `json:"runs"`
}

func c14FixedCases() []c14FixedCase {
	r := func(m string, stdin string) c14FixedRun { return c14FixedRun{Vars: []string{"m", m}, Stdin: stdin} }
	in5 := "r1 a\nr2 b\nr3 c\nr4 d\nr5 e\n"
	l := []c14FixedCase{
		{"convfmt-last-conversion", `BEGIN { if (m == 1) CONVFMT = "%.2g"; v = 3.14159265; a = (0.1 + 0.2) ""; w = v ""; A[v]; for (k in A) print "c", a, w, k }`, []c14FixedRun{r("1", ""), r("2", "")}},
		{"convfmt-from-vars", `BEGIN { v = 2.718281828; w = v ""; A[v]; for (k in A) print "c", w, k, CONVFMT }`, []c14FixedRun{{Vars: []string{"CONVFMT", "%.3g"}}, {}}},
		{"convfmt-integer-then-fraction", `BEGIN { if (m == 1) { CONVFMT = "%d"; x = 7.9 "" } else { x = 7.9 "" } print x, 7.9 "" }`, []c14FixedRun{r("1", ""), r("2", "")}},
		{"ofmt-last-print", `BEGIN { if (m == 1) OFMT = "%.2f"; print 3.14159265, 2 / 3; print 3.14159265 }`, []c14FixedRun{r("1", ""), r("2", "")}},
		{"chars-format-cache", `BEGIN { printf "%c|%c|%5s|\n", 233, "\303\251t\303\251", "\303\251"; print length("\303\251"), substr("h\303\251llo", 2, 1), index("\303\251x", "x") }`,
			[]c14FixedRun{{Chars: true}, {Chars: false}}},
		{"bytes-then-chars-format-cache", `BEGIN { printf "%c|%c|%5s|\n", 8364, "\303\251t\303\251", "\303\251"; print toupper(substr("\303\251a", 2)) }`, []c14FixedRun{{Chars: false}, {Chars: true}}},
		{"format-cache-argument-count", `BEGIN { if (m == 1) printf "%s-%s\n", "a", "b"; else printf "%s-%s\n", "a" }`, []c14FixedRun{r("1", ""), r("2", "")}},
		{"range-open-at-exit", `NR == 2, NR == 4 { print "in", $0 }
NR == 3 && m == 1 { exit 2 }
END { print "end", NR }`, []c14FixedRun{r("1", in5), r("2", in5)}},
		{"range-open-at-error", `NR == 2, /never/ { print "in", $0 }
NR == 3 && m == 1 { $(-5) = 1 }
END { print "end", NR }`, []c14FixedRun{r("1", in5), r("2", "x\ny\n")}},
		{"range-open-at-eof", `/r4/, /never/ { print "in", $0 }
END { print "end", NR }`, []c14FixedRun{r("1", in5), r("2", "r1\nr2\n")}},
		{"srand-from-clock-only", `BEGIN { if (m == 1) srand(); else print rand(), rand(), srand(7), srand(8) }`, []c14FixedRun{r("1", ""), r("2", "")}},
		{"rand-state", `BEGIN { if (m == 1) { srand(42); x = rand() } print rand(), rand() }`, []c14FixedRun{r("1", ""), r("2", "")}},
		{"regex-cache-dynamic", `BEGIN { re = (m == 1) ? "a+" : "a+"; s = (m == 1) ? "xaay" : "aaxa"; n = gsub(re, "<&>", s); print n, s, match("baaa", re), RSTART, RLENGTH; split("1a2aa3", P, re); print P[1] P[2] P[3] }`,
			[]c14FixedRun{r("1", ""), r("2", "")}},
		{"regex-cache-invalid", `BEGIN { re = "a("; if (m == 2) re = "a(b)"; print "x" ~ re, "ab" ~ re }`, []c14FixedRun{r("1", ""), r("2", "")}},
		{"getline-file-left-open", `BEGIN { r = (getline line < "%F%"); print r, line; if (m == 2) { r = (getline line < "%F%"); print r, line } }`, []c14FixedRun{r("1", ""), r("2", "")}},
		{"getline-stdin-partly-read", `BEGIN { getline; print "b", $0, NR }
{ print "m", $0, NR }
END { print "e", NR }`, []c14FixedRun{r("1", in5), r("2", "q1\nq2\n")}},
		{"output-file-left-open", `BEGIN { print "run", m > "%F%.out"; if (m == 2) { close("%F%.out"); while ((getline l < "%F%.out") > 0) print "file:", l } }`, []c14FixedRun{r("1", ""), r("2", "")}},
		{"fs-rs-set-by-program", `BEGIN { if (m == 1) { FS = ":"; RS = ";"; OFS = "-"; ORS = "!\n"; SUBSEP = "#" } }
{ $1 = $1; print NF, $0; A[1, 2]; for (k in A) print length(k) }`, []c14FixedRun{r("1", "a:b;c:d"), r("2", "a:b c\nd e\n")}},
		{"fs-regex-then-default", `BEGIN { if (m == 1) FS = "[0-9]+" }
{ print NF, $1, $2 }`, []c14FixedRun{r("1", "a1b22c\n"), r("2", "a1b 22c\n")}},
		{"exit-status", `BEGIN { if (m == 1) exit 3 }
END { print "end" }`, []c14FixedRun{r("1", ""), r("2", "")}},
		{"exit-in-end-status", `END { if (m == 1) exit 4; print "end", NR }`, []c14FixedRun{r("1", "a\n"), r("2", "a\nb\n")}},
		{"call-depth-after-error", `function d(n) { if (n == 0) { if (m == 1) return 1 / (m - 1); return 0 } return 1 + d(n - 1) }
BEGIN { print d(m == 1 ? 500 : 990) }`, []c14FixedRun{r("1", ""), r("2", "")}},
		{"call-depth-after-exit", `function d(n) { if (n == 0) { if (m == 1) exit 1; return 0 } return 1 + d(n - 1) }
BEGIN { print d(m == 1 ? 700 : 990) }`, []c14FixedRun{r("1", ""), r("2", "")}},
		{"call-depth-after-next", `function d(n) { if (n == 0) { if (m == 1) next; return 0 } return 1 + d(n - 1) }
{ print d(m == 1 ? 300 : 990) }`, []c14FixedRun{r("1", "a\nb\nc\n"), r("2", "a\n")}},
		{"local-array-after-exit", `function f(   loc) { loc[1]; loc[2]; loc["k"] = 5; if (m == 1) exit; return length(loc) ":" (7 in loc) }
function g(   fresh, k, n) { for (k in fresh) n++; return n + 0 }
BEGIN { if (m == 2) print g(), g(); print f() }`, []c14FixedRun{r("1", ""), r("2", "")}},
		{"local-array-after-next", `function f(   loc) { loc[NR] = NR; if (m == 1) next; return length(loc) }
function g(   fresh) { return length(fresh) }
{ print g(), f(), g() }`, []c14FixedRun{r("1", "a\nb\nc\n"), r("2", "a\nb\n")}},
		{"getline-var-and-fields", `NR == 1 { $3 = "zz"; NF = 5; getline nxt; print nxt, NF, $0 }
NR > 1 { print NF, $1, $3 }`, []c14FixedRun{r("1", "a b c d\ne f\ng h i j k l\n"), r("2", "p q\nr\ns t u\n")}},
		{"field-flags", `{ if (m == 1) { $2 = "x"; $1 = 5 } print ($2 < 10), ($1 == 5), ($1 == "5.0"), NF }`, []c14FixedRun{r("1", "3 4\n9 10\n"), r("2", "9 9\n5.0 100\n")}},
		{"match-rstart", `BEGIN { if (m == 1) match("xxabc", /abc/); print RSTART, RLENGTH }`, []c14FixedRun{r("1", ""), r("2", "")}},
		{"nr-fnr-filename", `END { print NR, FNR, FILENAME, NF, $0 }`, []c14FixedRun{{Vars: []string{"m", "1"}, Args: []string{"%F%"}}, r("2", "only one\n")}},
		{"command-streams", `BEGIN { if (m == 1) { print "to-cat" | "catto:%F%.cmd"; "emit:hello" | getline h } else { r = close("catto:%F%.cmd"); s = close("emit:hello"); print r, s; "emit:hello" | getline h2; print h2 } }`,
			[]c14FixedRun{r("1", ""), r("2", "")}},
		{"printf-star-cache", `BEGIN { if (m == 1) printf "%*d|%-*s|\n", 5, 42, 4, "ab"; else printf "%*d|%-*s|\n", 2, 4, 1, "abc" }`, []c14FixedRun{r("1", ""), r("2", "")}},
		{"three-runs-convfmt", `BEGIN { if (m == 1) CONVFMT = "%.1f"; if (m == 2) CONVFMT = "%.3e"; print 1.23456 "", 1.23456 "" }`, []c14FixedRun{r("1", ""), r("2", ""), r("3", "")}},
	}
	return l
}

func c14FixedRunOne(dir string, cs c14FixedCase, freshOnly bool) (reused, fresh string, bad string) {
	scratch := filepath.Join(dir, "c14fixed.dat")
	src := strings.ReplaceAll(cs.Src, "%F%", scratch)
	prog, err, pm := run.Parse(src, nil)
	if err != nil || pm != "" {
		return "", "", fmt.Sprintf("fixed program does not parse: %v %s", err, pm)
	}
	prep := func() {
		_ = os.WriteFile(scratch, []byte("line one\nline two\nline three\n"), 0o644)
		_ = os.Remove(scratch + ".out")
		_ = os.Remove(scratch + ".cmd")
	}
	exec1 := func(ip *interp.Interpreter, r c14FixedRun) string {
		var args []string
		for _, a := range r.Args {
			args = append(args, strings.ReplaceAll(a, "%F%", scratch))
		}
		cfg := &interp.Config{Stdin: strings.NewReader(r.Stdin), Vars: r.Vars, Args: args, Chars: r.Chars, Environ: []string{},
			ShellCommand: []string{filepath.Join(core.BuildDir, "vsh")}}
		o := run.Exec(prog, cfg, run.Opts{Interp: ip, FileOutput: true})
		if o.Panic != "" {
			return "PANIC " + run.PanicSite(o.Panic)
		}
		e := ""
		if o.Err != "" {
			e = "error"
		}
		return fmt.Sprintf("status=%d %s stdout=%q", o.Status, e, o.Stdout)
	}
	last := cs.Runs[len(cs.Runs)-1]
	prep()
	ipF, err := interp.New(prog)
	if err != nil {
		return "", "", "interp.New: " + err.Error()
	}
	fresh = exec1(ipF, last)
	if freshOnly {
		return "", fresh, ""
	}
	prep()
	ip, _ := interp.New(prog)
	for _, r := range cs.Runs[:len(cs.Runs)-1] {
		_ = exec1(ip, r)
	}
	ip.ResetVars()
	ip.ResetRand()
	// the scratch files are as a fresh process would find them, except what the history wrote
	_ = os.WriteFile(scratch, []byte("line one\nline two\nline three\n"), 0o644)
	_ = os.Remove(scratch + ".out")
	reused = exec1(ip, last)
	return reused, fresh, ""
}

func c14Fixed(c *core.Ctx) {
	for i, cs := range c14FixedCases() {
		if !c.Mine(7000 + i) {
			continue
		}
		c.Begin(cs)
		c.Eval(1)
		reused, fresh, bad := c14FixedRunOne(c.WorkDir(), cs, false)
		if bad != "" {
			c.Inconclusive("c14 fixed sequence " + cs.Fixed + ": " + bad)
			continue
		}
		c.Count("fixed_sequences", 1)
		c.Cover("fixed_sequence_names", cs.Fixed)
		if strings.HasPrefix(reused, "PANIC") || strings.HasPrefix(fresh, "PANIC") {
			c.Violation("probe-panic", "fixed:"+cs.Fixed, "fixed sequence "+cs.Fixed+": "+reused+" / fresh: "+fresh, fresh, reused, cs)
			continue
		}
		if reused != fresh {
			c.Violation("probe-differs", "fixed:"+cs.Fixed, fmt.Sprintf("fixed sequence %s: after %d earlier run(s) and ResetVars+ResetRand the run differs from a fresh interpreter: %s", cs.Fixed, len(cs.Runs)-1, firstDiff(fresh, reused)),
				fresh, reused, cs)
			continue
		}
		c.NonTrivial("fixed|" + cs.Fixed)
	}
}

// c14FixedReplay re-runs a fixed sequence witness.
func c14FixedReplay(c *core.Ctx, raw json.RawMessage) bool {
	var cs c14FixedCase
	if json.Unmarshal(raw, &cs) != nil || cs.Fixed == "" {
		return false
	}
	reused, fresh, bad := c14FixedRunOne(c.WorkDir(), cs, false)
	fmt.Printf("fixed sequence %s\nprogram:\n%s\nfresh : %s\nreused: %s\n%s\n", cs.Fixed, cs.Src, fresh, reused, bad)
	if bad == "" && reused != fresh {
		c.Violation("probe-differs", "fixed:"+cs.Fixed, "fixed sequence "+cs.Fixed+" differs from a fresh interpreter: "+firstDiff(fresh, reused), fresh, reused, cs)
	}
	return true
}
