// Package corpus provides seed AWK programs: hand-written seeds plus the repository's testdata.
package corpus

import (
	"os"
	"path/filepath"
	"sort"
	"strings"
	"sync"
)

// Seeds are small valid programs covering every statement and expression form.
var Seeds = []string{
	`BEGIN { print "hello", 1+2 }`,
	`{ print $1, $NF; n++ } END { print n, NR }`,
	`BEGIN { x = 1e3; y = .5; z = 1.5e-3; print x y z }`,
	`BEGIN { if (x == 0) print "zero"; else print "non" }`,
	`BEGIN { for (i = 0; i < 3; i++) s = s i; print s }`,
	`BEGIN { while (i < 3) { i++; if (i == 2) continue; print i } }`,
	`BEGIN { do { i++ } while (i < 5); print i }`,
	`BEGIN { a["x"] = 1; a["y"] = 2; for (k in a) n += a[k]; print n; delete a["x"]; print length(a); delete a }`,
	`function f(a, b) { return a + b }
BEGIN { print f(1, 2) }`,
	`function fib(n) { return n < 2 ? n : fib(n-1) + fib(n-2) }
BEGIN { print fib(10) }`,
	`/foo/ { print "match" } !/bar/ { next } $1 ~ /^a+$/, $1 ~ "z" { print NR }`,
	`BEGIN { printf "%d %s %5.2f %c\n", 42, "str", 3.14159, 65 }`,
	`BEGIN { print length("abc"), substr("hello", 2, 3), index("hello", "ll"), toupper("x") tolower("Y") }`,
	`BEGIN { s = "aaa"; n = gsub(/a/, "b", s); print n, s; sub("b", "[&]", s); print s }`,
	`BEGIN { n = split("a:b:c", arr, ":"); print n, arr[1], arr[3] }`,
	`BEGIN { print match("foobar", /o+/), RSTART, RLENGTH }`,
	`BEGIN { print -x, +x, !x, x^2, 2**3, x % 3, x++ + ++x, x-- - --x }`,
	`BEGIN { x += 1; x -= 2; x *= 3; x /= 4; x %= 5; x ^= 2; x **= 2; print x }`,
	`BEGIN { print 1 < 2, 1 <= 2, 1 == 2, 1 != 2, 1 > 2 ? "a" : "b", (1 > 2), 1 >= 2 }`,
	`BEGIN { print "a" "b" 1 2, 1 " " 2; print 1, 2 > "/dev/stderr" }`,
	`BEGIN { print (1, 2) in a, 1 in a, ("x") in a; a[1, 2] = 3; print a[1, 2] }`,
	`BEGIN { while (("echo hi" | getline line) > 0) print line; close("echo hi") }`,
	`BEGIN { while ((getline line < "/dev/null") > 0) n++; getline; getline x; print n }`,
	`{ $2 = "x"; print; $0 = "a b c"; print NF; NF = 2; print $0; $(NF+2) = "z"; print }`,
	`BEGIN { OFS = "-"; $0 = "a b c"; $1 = $1; print; print $1, $2 }`,
	`BEGIN { printf("%s %s\n", "a", "b") > "/dev/stdout"; print("x", "y") }`,
	`BEGIN { exit 3 } END { print "end" }`,
	`BEGIN { print length, length(), length "x" }`,
	`BEGIN { print 1==1 ? "t" : "f"; print x = 5, y = x = 3; print !x + 1, - -x, 1 - -1 }`,
	`BEGIN { print substr("hello", 0), substr("hello", -1, 3), int(3.9), int(-3.9), sqrt(16), exp(0), log(1), sin(0), cos(0), atan2(0, 1) }`,
	`BEGIN { srand(1); r = rand(); print (r >= 0 && r < 1) || 0 }`,
	`BEGIN { print system("true"), fflush(), fflush("x") }`,
	`BEGIN { "date" | getline d; print (d != "") ; print "x" | "cat"; close("cat") }`,
	`BEGIN { print $0; print $(1); print $NF; print $(NF-1) }
END { print $0, NF }`,
	`BEGIN {
	# comment
	x = 1; \
	y = 2
	print x, y   # trailing
}`,
	`BEGIN { a = "x"; b = a ~ "x"; c = a !~ /y/; print b, c, a ~ b }`,
	`function g(arr, k) { arr[k] = k; return }
BEGIN { g(A, "q"); print A["q"]; print length(A) }`,
	`BEGIN { print 1e, 1e+; e = 5; print 1e, 1e+1 }`,
	`BEGIN { print "tab\there", "nl\\n", "quote\"q", "oct\101", "hex\x41", "slash\/" }`,
	`BEGIN { print /re/ ? "y" : "n"; print /a\/b/ ~ 1; print "a/b" ~ /a\/b/ }`,
	`BEGIN { getline line < "file"; getline < "file"; "cmd" | getline; "cmd" | getline v; getline a[1]; getline $2 }`,
	`BEGIN { print > "out"; print "x" >> "out"; print "y" | "cmd"; printf "%s", "z" > "out" }`,
	`BEGIN { if (!(3 in a)) print "no"; if (("x", "y") in a) print "yes"; for (;;) break }`,
	`BEGIN { CONVFMT = "%.2g"; a[0.1 + 0.2] = 1; for (k in a) print k; OFMT = "%.3f"; print 3.14159265 }`,
	`NR == 1, NR == 3 { print } NR % 2 { next } { nextfile }`,
	`BEGIN { $3 = "c"; print NF, $0; $0 = ""; print NF; NF = 3; print $0 "|" }`,
	`BEGIN { x["a"]; if ("a" in x) print "in"; print length(x) }`,
	`BEGIN { print index("abc", "c") substr("abc", 2) ; print -1 " " -1; print 1 -1 }`,
	`BEGIN { print toupper(substr("abc", 1, 1)) substr("abc", 2); print 2 ^ 3 ^ 2, -2 ^ 2, !1 + 1, 1 - 1 - 1, 2 / 2 / 2, 7 % 4 % 2 }`,
	`BEGIN { print 1 " " 2 < 3; print (1 < 2) (2 < 3); print 1 + 2 " " 3 * 4 }`,
	`BEGIN { x = "A"; y = x++; print x, y; z[1]++; z[1] += 2; print z[1]; $1++; print $1 }`,
	`@"name" == "x" { print @"other", FIELDS[1] }`,
}

var (
	once   sync.Once
	loaded []string
)

// Testdata returns the text of AWK programs found under /repo/testdata (each ≤ 16 KiB).
func Testdata() []string {
	once.Do(func() {
		var paths []string
		_ = filepath.Walk("/repo/testdata", func(path string, info os.FileInfo, err error) error {
			if err != nil || info.IsDir() {
				return nil
			}
			base := filepath.Base(path)
			ok := strings.HasSuffix(base, ".awk") ||
				((strings.HasPrefix(base, "p.") || strings.HasPrefix(base, "t.")) && !strings.Contains(base[2:], ".")) ||
				strings.HasPrefix(base, "p.") && len(base) <= 6
			if ok && info.Size() > 0 && info.Size() <= 16*1024 {
				paths = append(paths, path)
			}
			return nil
		})
		sort.Strings(paths)
		for _, p := range paths {
			b, err := os.ReadFile(p)
			if err == nil {
				loaded = append(loaded, string(b))
			}
		}
	})
	return loaded
}

// All returns seeds followed by testdata programs.
func All() []string {
	all := append([]string{}, Seeds...)
	return append(all, Testdata()...)
}
