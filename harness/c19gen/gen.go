// Package c19gen generates the workloads of property C19.
//
// Parse side (Source): programs whose resolution exercises goawk's map-ordered traversals —
// many functions with unrelated call graphs, several independent type errors in different
// functions, type information that needs several resolver passes, native (Go) functions whose
// indexes overlap those of AWK functions — plus corpus programs and syntax-error mutants.
//
// Execution side (Shared): self-contained deterministic programs (regex constants, dynamic
// regexes, user functions with array parameters and local arrays, native functions, split/sub/
// printf caches, range patterns, rand with a fixed seed, file reads and per-execution file
// writes) that are executed many times, sequentially and concurrently, over ONE parsed Program.
//
// Everything is a pure function of the *rand.Rand handed in.
package c19gen

import (
	"fmt"
	"math/rand"
	"strings"
)

// Source is one parse-determinism case.
type Source struct {
	Gen    string `json:"gen"`
	Src    string `json:"src"`
	Native bool   `json:"native,omitempty"` // parse with Funcs()
}

// Funcs is the native function table (pure functions, safe for concurrent use). The same
// table is used by every process, so that native function indexes are comparable.
func Funcs() map[string]any {
	return map[string]any{
		"nat_add":  func(a, b float64) float64 { return a + b },
		"nat_up":   func(s string) string { return strings.ToUpper(s) },
		"nat_len":  func(s string) int { return len(s) },
		"nat_join": func(args ...string) string { return strings.Join(args, "+") },
		"nat_not":  func(b bool) bool { return !b },
		"nat_half": func(n int) (int, error) {
			if n < 0 {
				return 0, fmt.Errorf("nat_half: negative argument %d", n)
			}
			return n / 2, nil
		},
		// reverses the bytes it was handed, in place: the slice is the function's own copy of the
		// argument, never the Program's constant or the caller's variable
		"nat_rev": func(b []byte) string {
			for i, j := 0, len(b)-1; i < j; i, j = i+1, j-1 {
				b[i], b[j] = b[j], b[i]
			}
			return string(b)
		},
		"a_first": func() string { return "first" }, // sorts before most AWK function names
		"zz_last": func(x float64) float64 { return -x },
	}
}

// ---- function-program builder ------------------------------------------------------------

// Parameter kinds: 'S' used as a scalar, 'A' used as an array, 's'/'a' only passed on (or
// unused), so that their type has to be inferred through calls.
type param struct {
	name string
	kind byte
}

type fn struct {
	name   string
	params []param
	locals []string
	body   []string
}

type prog struct {
	fns     []*fn
	begin   []string
	scalars []string
	arrays  []string
}

var nameWords = []string{"alpha", "zeta", "mid", "Beta", "omega", "k", "q9", "_u", "walk", "emit", "fold", "scan", "node", "Visit",
	"a1", "b2", "c3", "d4", "e5x", "f", "g", "h", "ii", "jj", "mm", "nn", "oo", "pp", "rr", "ss", "tt", "uu", "vv", "ww", "xx", "yy"}

func isArr(k byte) bool { return k == 'A' || k == 'a' }

// funcNames returns n distinct function names in a shuffled (non-sorted) order.
func funcNames(rng *rand.Rand, n int) []string {
	var out []string
	perm := rng.Perm(len(nameWords))
	for i := 0; len(out) < n; i++ {
		w := nameWords[perm[i%len(perm)]]
		if i >= len(perm) {
			w = fmt.Sprintf("%s_%d", w, i/len(perm))
		}
		out = append(out, "fn_"+w)
	}
	return out
}

func newProg(rng *rand.Rand, nf int) *prog {
	p := &prog{}
	for i := 0; i < 2+rng.Intn(5); i++ {
		p.scalars = append(p.scalars, fmt.Sprintf("gs%d", i))
	}
	for i := 0; i < 1+rng.Intn(4); i++ {
		p.arrays = append(p.arrays, fmt.Sprintf("ga%d", i))
	}
	for _, name := range funcNames(rng, nf) {
		f := &fn{name: name}
		np := rng.Intn(5)
		for j := 0; j < np; j++ {
			f.params = append(f.params, param{fmt.Sprintf("p%d", j), "SAsaSA"[rng.Intn(6)]})
		}
		p.fns = append(p.fns, f)
	}
	return p
}

// scalarExpr / arrayName pick an argument of the wanted kind that is in scope in f (nil = BEGIN).
func (p *prog) scalarExpr(rng *rand.Rand, f *fn) string {
	var c []string
	if f != nil {
		for _, q := range f.params {
			if !isArr(q.kind) {
				c = append(c, q.name)
			}
		}
	}
	c = append(c, p.scalars[rng.Intn(len(p.scalars))], fmt.Sprint(rng.Intn(100)), `"s"`, "NR", "$1")
	return c[rng.Intn(len(c))]
}

func (p *prog) arrayName(rng *rand.Rand, f *fn) string {
	var c []string
	if f != nil {
		for _, q := range f.params {
			if isArr(q.kind) {
				c = append(c, q.name)
			}
		}
	}
	c = append(c, p.arrays[rng.Intn(len(p.arrays))])
	return c[rng.Intn(len(c))]
}

// call builds a well-typed call of g from inside f (nil = BEGIN).
func (p *prog) call(rng *rand.Rand, f, g *fn) string {
	n := len(g.params)
	if n > 0 && rng.Intn(4) == 0 {
		// omit trailing arguments (they become locals of g)
		n = rng.Intn(n + 1)
	}
	var args []string
	for _, q := range g.params[:n] {
		if isArr(q.kind) {
			args = append(args, p.arrayName(rng, f))
		} else if q.kind == 's' && rng.Intn(2) == 0 {
			// a bare variable, so that the resolver has to relate its type to the parameter
			args = append(args, p.scalars[rng.Intn(len(p.scalars))])
		} else {
			args = append(args, p.scalarExpr(rng, f))
		}
	}
	return g.name + "(" + strings.Join(args, ", ") + ")"
}

func (p *prog) fillBodies(rng *rand.Rand) {
	for _, f := range p.fns {
		for _, q := range f.params {
			switch q.kind {
			case 'S':
				f.body = append(f.body, []string{q.name + " = " + q.name + " + 1", "x = " + q.name + ` "s"`, "if (" + q.name + " > 3) " + q.name + "--"}[rng.Intn(3)])
			case 'A':
				f.body = append(f.body, []string{q.name + `["k"] = 1`, `if ("k" in ` + q.name + ") n++", "for (k in " + q.name + ") n += " + q.name + "[k]",
					"delete " + q.name + "[1]", `split("a b c", ` + q.name + ")", q.name + "[1, 2]++"}[rng.Intn(6)])
			case 's', 'a':
				if rng.Intn(3) == 0 {
					f.body = append(f.body, "n = length("+q.name+")")
				}
			}
		}
		for c := rng.Intn(4); c > 0; c-- {
			g := p.fns[rng.Intn(len(p.fns))]
			st := p.call(rng, f, g)
			switch rng.Intn(4) {
			case 0:
				st = "if (0) " + st
			case 1:
				st = "r = " + st
			case 2:
				st = "return " + st
			}
			f.body = append(f.body, st)
		}
		if rng.Intn(3) == 0 {
			loc := "tmp_" + f.name[3:]
			f.locals = append(f.locals, loc)
			f.body = append(f.body, `split("x y", `+loc+`); n += length(`+loc+")")
		}
		if rng.Intn(3) == 0 {
			f.body = append(f.body, p.scalars[rng.Intn(len(p.scalars))]+" = "+p.scalarExpr(rng, f))
		}
		if rng.Intn(3) == 0 {
			f.body = append(f.body, p.arrays[rng.Intn(len(p.arrays))]+"["+p.scalarExpr(rng, f)+"] = "+p.scalarExpr(rng, f))
		}
	}
	for c := 1 + rng.Intn(1+len(p.fns)/2); c > 0; c-- {
		p.begin = append(p.begin, p.call(rng, nil, p.fns[rng.Intn(len(p.fns))]))
	}
	for _, s := range p.scalars {
		if rng.Intn(2) == 0 {
			p.begin = append(p.begin, s+" = 1")
		}
	}
	for _, a := range p.arrays {
		if rng.Intn(2) == 0 {
			p.begin = append(p.begin, a+`["i"] = 1`)
		}
	}
}

func (p *prog) render(rng *rand.Rand) string {
	var sb strings.Builder
	beginFirst := rng.Intn(2) == 0
	writeBegin := func() {
		sb.WriteString("BEGIN {\n")
		for _, s := range p.begin {
			sb.WriteString("\t" + s + "\n")
		}
		sb.WriteString("}\n")
	}
	if beginFirst {
		writeBegin()
	}
	for _, f := range p.fns {
		var ps []string
		for _, q := range f.params {
			ps = append(ps, q.name)
		}
		ps = append(ps, f.locals...)
		fmt.Fprintf(&sb, "function %s(%s) {\n", f.name, strings.Join(ps, ", "))
		for _, s := range f.body {
			sb.WriteString("\t" + s + "\n")
		}
		sb.WriteString("}\n")
	}
	if !beginFirst {
		writeBegin()
	}
	return sb.String()
}

// genCallGraph: many functions, unrelated call graphs, intended to be well-typed.
func genCallGraph(rng *rand.Rand) string {
	nf := 2 + rng.Intn(10)
	if rng.Intn(4) == 0 {
		nf = 10 + rng.Intn(35)
	}
	p := newProg(rng, nf)
	p.fillBodies(rng)
	return p.render(rng)
}

// genMultiErr: a call-graph program with 1-4 independent type errors injected into different
// functions (sometimes BEGIN). Each error kind is one the resolver reports by itself.
func genMultiErr(rng *rand.Rand) string {
	nf := 2 + rng.Intn(7)
	p := newProg(rng, nf)
	p.fillBodies(rng)
	need := &fn{name: "needarr", params: []param{{"arr", 'A'}}, body: []string{`arr["k"] = 1`}}
	p.fns = append(p.fns, need)
	rng.Shuffle(len(p.fns), func(i, j int) { p.fns[i], p.fns[j] = p.fns[j], p.fns[i] })
	nerr := 1 + rng.Intn(4)
	targets := rng.Perm(len(p.fns))
	for e := 0; e < nerr && e < len(targets); e++ {
		f := p.fns[targets[e]]
		inBegin := rng.Intn(8) == 0
		var stmt string
		loc := fmt.Sprintf("e%dv", e)
		switch rng.Intn(8) {
		case 0: // one variable used as array and as scalar
			stmt = loc + "[1] = 1; " + loc + " = 2"
		case 1: // scalar variable passed where an array is required
			stmt = loc + " = 1; needarr(" + loc + ")"
		case 2:
			stmt = fmt.Sprintf("nosuchfn_%d(1)", e)
		case 3:
			stmt = "needarr(" + p.arrays[0] + ", 1, 2)"
		case 4: // calling a local variable as a function (only meaningful inside a function)
			if inBegin {
				stmt = fmt.Sprintf("nosuchfn_%d(2)", e)
			} else {
				stmt = loc + "(1)"
			}
		case 5:
			stmt = "needarr(1 + 1)"
		case 6: // a global every other function treats as a scalar
			stmt = p.scalars[0] + " = 1; " + p.scalars[0] + "[1] = 1"
		default: // an array global used as a scalar
			stmt = p.arrays[0] + `["z"]; ` + p.arrays[0] + " = 5"
		}
		if inBegin {
			p.begin = append(p.begin, stmt)
		} else {
			if strings.Contains(stmt, loc) {
				f.locals = append(f.locals, loc)
			}
			at := rng.Intn(len(f.body) + 1)
			f.body = append(f.body[:at:at], append([]string{stmt}, f.body[at:]...)...)
		}
	}
	return p.render(rng)
}

// genMultiList: several stray parenthesised comma lists (not print arguments, not "(i, j) in a")
// on different lines and at unrelated columns: the parser collects them in a map and must
// still report the first one in source order.
func genMultiList(rng *rand.Rand) string {
	var sb strings.Builder
	sb.WriteString("function f(a, b) { return a b }\n")
	n := 2 + rng.Intn(4)
	for i := 0; i < n; i++ {
		indent := strings.Repeat(" ", rng.Intn(40))
		if rng.Intn(3) == 0 {
			indent = strings.Repeat("\t", rng.Intn(4))
		}
		switch rng.Intn(5) {
		case 0:
			fmt.Fprintf(&sb, "BEGIN {\n%sx%d = (1, %d)\n}\n", indent, i, i)
		case 1:
			fmt.Fprintf(&sb, "%s(NR, %d) { print }\n", indent, i)
		case 2:
			fmt.Fprintf(&sb, "END {\n%sprint f((1, 2), %d)\n}\n", indent, i)
		case 3:
			fmt.Fprintf(&sb, "function g%d(p) {\n%sreturn (p, %d)\n}\n", i, indent, i)
		default:
			fmt.Fprintf(&sb, "{ y = 1;%s z = (y, %d) + 1 }\n", indent, i)
		}
	}
	return sb.String()
}

// genSharedGlobal: k small functions that disagree about the type of one global; no single
// function is wrong by itself.
func genSharedGlobal(rng *rand.Rand) string {
	k := 2 + rng.Intn(5)
	names := funcNames(rng, k)
	var sb strings.Builder
	for i, n := range names {
		if rng.Intn(2) == 0 || i == 0 {
			fmt.Fprintf(&sb, "function %s() { shared[%d] = 1 }\n", n, i)
		} else if i == 1 || rng.Intn(2) == 0 {
			fmt.Fprintf(&sb, "function %s() { shared = %d }\n", n, i)
		} else {
			fmt.Fprintf(&sb, "function %s(x) { return x + %d }\n", n, i)
		}
	}
	sb.WriteString("BEGIN {")
	for _, n := range names {
		if rng.Intn(2) == 0 {
			sb.WriteString(" " + n + "();")
		}
	}
	sb.WriteString(" }\n")
	return sb.String()
}

// genChain: type information has to travel along a chain of n functions, forwards (the leaf
// indexes its parameter), backwards (only the caller knows the type) or around cycles. Long
// chains need many resolver passes (the resolver gives up after 100).
func genChain(rng *rand.Rand, long bool) string {
	n := 2 + rng.Intn(12)
	if long {
		n = 85 + rng.Intn(40)
	}
	names := funcNames(rng, n)
	mode := rng.Intn(3)
	var defs []string
	for i, nm := range names {
		var body string
		if i+1 < n {
			body = names[i+1] + "(p)"
		} else if mode == 0 {
			body = "p[1] = 42"
		} else {
			body = "n++"
		}
		if mode == 2 { // cycles through unrelated variables
			body = fmt.Sprintf("if (0) %s(z%d); %s", names[(i*7+3)%n], i, body)
		}
		defs = append(defs, fmt.Sprintf("function %s(p) { %s }\n", nm, body))
	}
	rng.Shuffle(len(defs), func(i, j int) { defs[i], defs[j] = defs[j], defs[i] })
	begin := "BEGIN { " + names[0] + "(x); print x[1] }\n"
	if mode == 1 {
		begin = "BEGIN { x[1] = 3; " + names[0] + "(x); print length(x) }\n"
	}
	return strings.Join(defs, "") + begin
}

// genNative: native functions next to AWK functions (their index spaces overlap), AWK functions
// overriding a native name, and the native-specific errors.
func genNative(rng *rand.Rand) string {
	natives := []string{"nat_add(1, 2)", `nat_up("x")`, `nat_len("abc")`, `nat_join("a", "b", "c")`, "nat_not(0)", "nat_half(9)", "a_first()", "zz_last(3)", "nat_join()", `nat_rev("abcdef")`, `nat_rev("xyz123") nat_rev("xyz123")`}
	k := rng.Intn(5)
	names := funcNames(rng, k)
	var sb strings.Builder
	var calls []string
	for i, n := range names {
		fmt.Fprintf(&sb, "function %s(a, b) { return a + %d + %s }\n", n, i, natives[rng.Intn(len(natives))])
		calls = append(calls, n+"(1)")
	}
	if rng.Intn(4) == 0 { // AWK definition overrides the native one
		sb.WriteString("function nat_up(s) { return \"awk:\" s }\n")
	}
	for c := 1 + rng.Intn(4); c > 0; c-- {
		calls = append(calls, natives[rng.Intn(len(natives))])
	}
	rng.Shuffle(len(calls), func(i, j int) { calls[i], calls[j] = calls[j], calls[i] })
	sb.WriteString("BEGIN { print " + strings.Join(calls, ", ") + " }\n")
	switch rng.Intn(8) {
	case 0:
		sb.WriteString("END { print nat_add(1, 2, 3) }\n") // too many arguments
	case 1:
		sb.WriteString("END { arr[1] = 1; print nat_len(arr) }\n") // array to a native function
	case 2:
		sb.WriteString("function late() { return zz_last(nat_add(1, nat_half(4))) }\n")
	}
	return sb.String()
}

// Fixed sources: the witnesses of DESIGN section 8, the two examples in resolve.go that need
// extra resolver passes, and other shapes worth pinning.
var Fixed = []Source{
	{Gen: "fixed", Src: "function f(a) { a[1]; a = 2 }\nfunction g(b) { b[1]; b = 3 }\nBEGIN { f(); g() }\n"},
	{Gen: "fixed", Src: "function f() { x[1] }\nfunction g() { x = 1 }\nBEGIN { }\n"},
	{Gen: "fixed", Src: "function f1(A) {}\nfunction f2(x, A) { x[0]; f1(a); f2(a) }\n"},
	{Gen: "fixed", Src: "function f1(a) { if (0) f5(z1); f2(a) }\nfunction f2(b) { if (0) f4(z2); f3(b) }\nfunction f3(c) { if (0) f3(z3); f4(c) }\n" +
		"function f4(d) { if (0) f2(z4); f5(d) }\nfunction f5(i) { if (0) f1(z5); i[1]=42 }\nBEGIN { x[1]=3; f5(x); print x[1] }\n"},
	{Gen: "fixed", Src: "{ f(z) }\nfunction f(x) { print NR }\n"},
	{Gen: "fixed", Src: "function f(a) { return a }\nBEGIN { print nat_add(1, 2), f(2), nat_up(\"x\") }\n", Native: true},
	{Gen: "fixed", Src: "function f(x) { x() }\nfunction g(y) { y() }\nBEGIN { f(1); g(2) }\n"},
	{Gen: "fixed", Src: "function f() { return 1 }\nfunction f() { return 2 }\nfunction g() { }\nfunction g() { }\n"},
	{Gen: "fixed", Src: "function a() { b = 1 }\nfunction b() { a = 1 }\n"},
	{Gen: "fixed", Src: "BEGIN { x = 1; x[1] = 2 }\nEND { y[1]; y = 2 }\n"},
	{Gen: "fixed", Src: "function f(a, a) { }\nfunction g(NR) { }\n"},
	{Gen: "fixed", Src: "BEGIN { if (\"/usr/bin\" ~ /^\\/usr\\/bin/) print \"y\"; x = \"a/b\"; gsub(/\\//, \"-\", x); print x }\n"},
	{Gen: "fixed", Src: "$0 ~ /a\\\nb/ { n++ }\n/=\\/=/ { m /= 2 }\nEND { print n, m }\n"},
	{Gen: "fixed", Src: "BEGIN {\n                x = (1, 2)\n  y = (3, 4)\n}\nEND {\n z = (5, 6)\n}\n"},
	{Gen: "fixed", Src: "function f(p) {\n\t\t\treturn (p, 1)\n}\n(NR, 2) { print }\n        (NR, 3)\n"},
	{Gen: "fixed", Src: "BEGIN { print length(u), length(v); v[1] }\nfunction h(w) { return length(w) }\nEND { h(q); h(r); r[1] }\n"},
}

// ChainWitness is the deterministic witness of the pass-limit verdict flip: n functions in a
// chain f0 -> f1 -> ... (the array type of BEGIN's x has to travel down the chain, one resolver
// pass per link when a callee is visited before its caller) plus dead calls that tie the call
// graph into cycles, so that the visiting order depends on where the map-ordered topological
// sort happens to start. With n = 105 the resolver needs about 100 passes: some parses stay
// below its limit of 100 and accept, others exceed it and reject.
func ChainWitness(n int) string {
	var sb strings.Builder
	for i := 0; i < n; i++ {
		body := "c++"
		if i+1 < n {
			body = fmt.Sprintf("f%d(p)", i+1)
		}
		fmt.Fprintf(&sb, "function f%d(p) { if (0) f%d(z%d); %s }\n", i, (i*7+3)%n, i, body)
	}
	sb.WriteString("BEGIN { f0(x); print x[1] }\n")
	return sb.String()
}

func init() {
	Fixed = append(Fixed, Source{Gen: "fixed", Src: ChainWitness(105)})
}

// mutate makes a (usually syntactically broken) variant of a corpus program.
func mutate(rng *rand.Rand, progs []string) (string, string) {
	// corpus programs are cut to 2 KiB: large trees make the 50 fingerprints expensive and
	// add nothing for this property
	const maxLen = 2048
	p := progs[rng.Intn(len(progs))]
	if len(p) > maxLen {
		s := rng.Intn(len(p) - maxLen)
		p = p[s : s+maxLen]
	}
	if len(p) == 0 {
		return p, "corpus"
	}
	switch rng.Intn(6) {
	case 0:
		return p, "corpus"
	case 1:
		return p[:rng.Intn(len(p)+1)], "corpus-prefix"
	case 2:
		i := rng.Intn(len(p))
		return p[:i] + p[i+1:], "corpus-delete"
	case 3:
		frags := []string{"(", "{", "}", "\"", "/", "in", "getline", "$", "1e", ";", "function", "\n", "x[", ")", "zz(1)", "NR[1]"}
		i := rng.Intn(len(p) + 1)
		return p[:i] + frags[rng.Intn(len(frags))] + p[i:], "corpus-insert"
	case 4:
		q := progs[rng.Intn(len(progs))]
		if len(q) > maxLen {
			q = q[:maxLen]
		}
		j := 0
		if len(q) > 0 {
			j = rng.Intn(len(q))
		}
		return p[:rng.Intn(len(p)+1)] + q[j:], "corpus-splice"
	default: // two whole programs concatenated: more functions and globals in one resolution
		q := progs[rng.Intn(len(progs))]
		if len(q) > maxLen {
			q = q[:maxLen]
		}
		return p + "\n" + q, "corpus-concat"
	}
}

// GenSource returns parse case number i.
func GenSource(rng *rand.Rand, i int, corpus []string) Source {
	if i < len(Fixed) {
		return Fixed[i]
	}
	switch r := rng.Intn(100); {
	case r < 27:
		return Source{Gen: "multierr", Src: genMultiErr(rng)}
	case r < 47:
		return Source{Gen: "callgraph", Src: genCallGraph(rng)}
	case r < 55:
		return Source{Gen: "sharedglobal", Src: genSharedGlobal(rng)}
	case r < 70:
		return Source{Gen: "native", Src: genNative(rng), Native: true}
	case r < 78:
		return Source{Gen: "chain", Src: genChain(rng, false)}
	case r < 80:
		return Source{Gen: "chain-long", Src: genChain(rng, true)}
	case r < 86:
		return Source{Gen: "multilist", Src: genMultiList(rng)}
	default:
		src, g := mutate(rng, corpus)
		return Source{Gen: g, Src: src, Native: rng.Intn(4) == 0}
	}
}
