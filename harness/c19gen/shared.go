package c19gen

import (
	"fmt"
	"math/rand"
	"sort"
	"strings"
)

// Shared is one program that many interpreters execute (sequentially and concurrently).
type Shared struct {
	Gen      string   `json:"gen"`
	Src      string   `json:"src"`
	Input    string   `json:"input"`
	Vars     []string `json:"vars,omitempty"` // Config.Vars (name, value pairs)
	Args     []string `json:"args,omitempty"` // Config.Args (file operands resolved by OpenFile)
	Native   bool     `json:"native,omitempty"`
	CSV      bool     `json:"csv,omitempty"`  // CSV input mode with a header row
	Exec     bool     `json:"exec,omitempty"` // commands allowed, run by the default shell (Config.ShellCommand unset)
	Features []string `json:"features,omitempty"`
}

// DataFile is the content of the read-only file "data.txt" every execution may read.
const DataFile = "one 1\ntwo 2\nthree 3\nfour 4\nfive 5\n"

// snippet is one self-contained piece of program; variable names are private to it.
type snippet struct {
	feature string
	funcs   string
	begin   string
	rules   string
	end     string
	native  bool
}

var snippets = []snippet{
	{feature: "regex-const", rules: `/o/ { rc_o++ }` + "\n" + `$1 ~ /^[a-m]/ { rc_am++ }` + "\n" + `!/[0-9]/ { rc_nodigit++ }`, end: `print "rc", rc_o+0, rc_am+0, rc_nodigit+0`},
	{feature: "regex-dynamic", begin: `dr_pat = "^" "t" ".*"; print "dr", ("two" ~ dr_pat), ("one" ~ dr_pat), match("xxabcabc", "(abc)+"), RSTART, RLENGTH`,
		rules: `{ dr_re = "^" substr($1, 1, 1); if ($0 ~ dr_re) dr_n++ }`, end: `print "dr_n", dr_n+0`},
	{feature: "userfunc-recursion", funcs: `function uf_fib(n) { return n < 2 ? n : uf_fib(n-1) + uf_fib(n-2) }`, begin: `print "fib", uf_fib(12), uf_fib(3)`},
	{feature: "userfunc-array-param", funcs: `function ua_fill(arr, n,   i) { for (i = 1; i <= n; i++) arr[i] = i * i; return n }` + "\n" +
		`function ua_sum(arr,   k, t) { for (k in arr) t += arr[k]; return t }`, begin: `ua_fill(ua_sq, 9); print "ua", ua_sum(ua_sq), length(ua_sq)`},
	{feature: "userfunc-local-array", funcs: `function ul_words(s,   tmp, n, i, out) { n = split(s, tmp, " "); for (i = n; i >= 1; i--) out = out tmp[i] (i > 1 ? "," : ""); return out }`,
		begin: `print "ul", ul_words("a b c d")`, rules: `NF > 1 { ul_last = ul_words($0) }`, end: `print "ul_last", ul_last`},
	{feature: "userfunc-mutual", funcs: `function um_even(n) { return n == 0 ? 1 : um_odd(n - 1) }` + "\n" + `function um_odd(n) { return n == 0 ? 0 : um_even(n - 1) }`,
		begin: `print "um", um_even(10), um_odd(7), um_even(3)`},
	{feature: "native", native: true, begin: `print "nat", nat_add(1.5, 2), nat_up("abc"), nat_len("hello"), nat_join("a", "b"), nat_not(0), nat_half(9), a_first(), zz_last(2)`,
		rules: `{ nt_t += nat_len($1); nt_u = nat_up($1) }`, end: `print "nt", nt_t+0, nt_u`},
	{feature: "native-error", native: true, end: `print "before"; print nat_half(-1); print "after"`},
	{feature: "split", begin: `sp_n = split("a:b:c:d", sp_a, ":"); sp_m = split("x1y22z", sp_b, /[0-9]+/); sp_k = split("abc", sp_c, ""); print "sp", sp_n, sp_a[4], sp_m, sp_b[3], sp_k, sp_c[2]`,
		rules: `{ sp_f += split($0, sp_t) }`, end: `print "sp_f", sp_f+0`},
	{feature: "sub-gsub", begin: `sg_s = "hello world"; sg_n = gsub(/o/, "[&]", sg_s); sub("l+", "L", sg_s); print "sg", sg_n, sg_s`,
		rules: `{ sg_l = $0; sg_c += gsub(/[aeiou]/, "#", sg_l) }`, end: `print "sg_c", sg_c+0, sg_l`},
	{feature: "printf", begin: `printf "pf %5d|%-6s|%08.3f|%c|%x|%e|%5.1f%%\n", 42, "ab", 3.14159, 65, 255, 12345.678, 99.5; pf_s = sprintf("%3d:%s", 7, "z"); print pf_s`,
		rules: `{ printf "%-6s %4d %s\n", $1, NR, sprintf("%03d", NF) }`},
	{feature: "convfmt-ofmt", begin: `CONVFMT = "%.3g"; cf_a[0.1 + 0.2] = 1; for (cf_k in cf_a) print "cf", cf_k; OFMT = "%.2f"; print 3.14159, 10, 1e6, 0.1 + 0.2 ""; CONVFMT = "%.6g"; OFMT = "%.6g"`},
	{feature: "string-builtins", begin: `print "sb", length("héllo"), substr("hello", 2, 3), index("hello", "ll"), toupper("abc") tolower("DEF"), substr("hello", 0), substr("hello", -1, 3), int(-3.9)`,
		rules: `{ sb_t = sb_t substr($1, 1, 1) }`, end: `print "sb_t", sb_t`},
	{feature: "arith", begin: `ar_x = 7; ar_x += 2; ar_x *= 3; ar_x ^= 2; ar_x %= 50; print "ar", ar_x, 2 ^ 3 ^ 2, -2 ^ 2, 7 % 3, 1 / 4, int(7 / 2), ar_x++ + ++ar_x, exp(0), log(1), sqrt(16), sin(0), cos(0), atan2(0, 1)`},
	{feature: "rand", begin: `srand(7); rn_a = rand(); rn_b = rand(); srand(7); rn_c = rand(); print "rn", (rn_a == rn_c), (rn_a != rn_b), int(rn_a * 1000), int(rn_b * 1000)`,
		rules: `{ rn_s += int(rand() * 10) }`, end: `print "rn_s", rn_s+0`},
	{feature: "range-pattern", rules: `NR == 2, NR == 4 { print "rg", NR, $1 }` + "\n" + `/start/, /stop/ { rg_in++ }` + "\n" + `/start/, /nomatch-never/ { rg_open++ }`, end: `print "rg_in", rg_in+0, rg_open+0`},
	{feature: "field-assign", rules: `NR % 3 == 0 { $2 = "X"; print "fa", $0, NF }` + "\n" + `NR % 5 == 0 { NF = 1; print "fa5", $0; $4 = "d"; print "fa5", $0, NF }`},
	{feature: "arrays", rules: `{ as_cnt[$1]++; as_seen[NR % 3, $1] = NR }`, end: `for (as_k in as_cnt) { as_n++; as_t += as_cnt[as_k] } print "as", as_n+0, as_t+0, ((1, "one") in as_seen), ("nope" in as_cnt); delete as_cnt; print length(as_cnt)`},
	{feature: "uniq-idiom", rules: `!uq[$1]++ { uq_n++ }`, end: `print "uq", uq_n+0`},
	{feature: "getline-file", begin: `while ((getline gl_line < "data.txt") > 0) { gl_n++; gl_last = gl_line } close("data.txt"); getline gl_first < "data.txt"; print "gl", gl_n, gl_last, gl_first; print "gl_missing", (getline gl_x < "missing.txt")`},
	{feature: "getline-stdin", rules: `NR == 1 { if ((getline gs_next) > 0) print "gs", gs_next, NR; if ((getline) > 0) print "gs0", $0, NR }`},
	{feature: "file-write", begin: `print "w1" > "out.txt"; printf "%s-%d\n", "w", 2 > "out.txt"; close("out.txt"); print "w3" >> "out.txt"; close("out.txt"); while ((getline fw_l < "out.txt") > 0) fw_n++; print "fw", fw_n`,
		rules: `NR <= 3 { print $0 > "rows.txt" }`},
	{feature: "special-vars", begin: `OFS = "-"; $0 = "a b c"; $1 = $1; print "sv", $0, NF; OFS = " "; SUBSEP = ":"; sv_a["x", "y"] = 1; for (sv_k in sv_a) print "sv_k", sv_k; SUBSEP = "\034"`,
		end: `print "sv_end", NR, FNR, FILENAME == "", RSTART, RLENGTH`},
	{feature: "fs-regex", begin: `FS = "[ ,;]+"`, rules: `{ fr_nf += NF }`, end: `print "fr", fr_nf+0`},
	{feature: "uninit", begin: `print "un", un_x + 0, "[" un_y "]", length(un_z), (un_w == 0), (un_w == "")`},
	{feature: "next", rules: `NR % 4 == 1 { nx_skipped++; next }` + "\n" + `{ nx_seen++ }`, end: `print "nx", nx_skipped+0, nx_seen+0`},
	{feature: "cond-loops", begin: `for (cl_i = 0; cl_i < 10; cl_i++) { if (cl_i % 2) continue; if (cl_i > 7) break; cl_s = cl_s cl_i } do { cl_j++ } while (cl_j < 5); while (cl_w < 3) cl_w++; print "cl", cl_s, cl_j, cl_w, (cl_j > 3 ? "y" : "n")`},
	{feature: "compare", begin: `print "cm", (1 < 2), ("10" < "9"), ("abc" < "abd"), (1 == 1.0), ("a" ~ "a"), (2 < 10), ("2" < "10"), 1 " " 2, 1 + 2 " " 3`,
		rules: `$2 > 2 { cm_gt++ }` + "\n" + `$2 == "2" { cm_eq++ }`, end: `print "cm2", cm_gt+0, cm_eq+0`},
	{feature: "exit-status", end: `print "exiting"; exit 3`},
	{feature: "vars", begin: `print "vr", vr_a, vr_b + 1, length(vr_c)`},
	{feature: "error-at-runtime", end: `er_z = 0; print "pre-error"; print 1 / er_z; print "post-error"`},
	{feature: "long-strings", begin: `for (ls_i = 0; ls_i < 200; ls_i++) ls_s = ls_s "ab"; gsub(/a/, "ba", ls_s); print "ls", length(ls_s), substr(ls_s, 1, 9); ls_t = sprintf("%200s|", "x"); print length(ls_t)`},
	{feature: "stderr", begin: `print "to-stderr" > "/dev/stderr"; print "to-stdout" > "/dev/stdout"`},
	{feature: "printf-dynamic-format", begin: `pd_f = "%" 5 "d|%s\n"; printf pd_f, 3, "q"; pd_g = "%-" 4 "s|"; printf pd_g "\n", "ab"`, rules: `NR <= 2 { pd_h = "%" (NR + 2) "d\n"; printf pd_h, NR }`},
	{feature: "regex-many", rules: `/^[a-z]+ [0-9]+$/ { rm_a++ }` + "\n" + `/(one|two|three)/ { rm_b++ }` + "\n" + `$0 ~ /e$/ || /^f/ { rm_c++ }` + "\n" + `{ if (match($0, /[0-9]+/)) rm_d += substr($0, RSTART, RLENGTH) }`,
		end: `print "rm", rm_a+0, rm_b+0, rm_c+0, rm_d+0`},
}

var inputWords = []string{"one", "two", "three", "four", "five", "start", "stop", "alpha", "omega", "foo", "bar", "hello", "world", "echo", "fix"}

func genInput(rng *rand.Rand, csv bool) string {
	var sb strings.Builder
	n := 3 + rng.Intn(30)
	if csv {
		sb.WriteString("name,count,note\n")
	}
	for i := 0; i < n; i++ {
		w := inputWords[rng.Intn(len(inputWords))]
		if csv {
			fmt.Fprintf(&sb, "%s,%d,\"n,%d\"\n", w, rng.Intn(10), i)
			continue
		}
		switch rng.Intn(5) {
		case 0:
			fmt.Fprintf(&sb, "%s\n", w)
		case 1:
			fmt.Fprintf(&sb, "%s %d %s;x,y\n", w, rng.Intn(10), inputWords[rng.Intn(len(inputWords))])
		default:
			fmt.Fprintf(&sb, "%s %d\n", w, rng.Intn(10))
		}
	}
	return sb.String()
}

// GenShared composes program number i from 2-7 snippets.
func GenShared(rng *rand.Rand, i int) Shared {
	k := 2 + rng.Intn(6)
	perm := rng.Perm(len(snippets))
	if i < len(snippets) {
		// make sure every snippet is used by one of the first programs
		perm[0], perm[indexOf(perm, i)] = i, perm[0]
	}
	pick := append([]int{}, perm[:k]...)
	sort.Ints(pick)
	sh := Shared{Gen: "snippets"}
	var funcs, begins, rules, ends []string
	for _, j := range pick {
		s := snippets[j]
		sh.Features = append(sh.Features, s.feature)
		if s.native {
			sh.Native = true
		}
		if s.funcs != "" {
			funcs = append(funcs, s.funcs)
		}
		if s.begin != "" {
			begins = append(begins, s.begin)
		}
		if s.rules != "" {
			rules = append(rules, s.rules)
		}
		if s.end != "" {
			ends = append(ends, s.end)
		}
	}
	// exit / runtime errors last, so the other END snippets still run
	sort.SliceStable(ends, func(a, b int) bool {
		return !strings.Contains(ends[a], "exit") && !strings.Contains(ends[a], "er_z") && !strings.Contains(ends[a], "nat_half(-1)") &&
			(strings.Contains(ends[b], "exit") || strings.Contains(ends[b], "er_z") || strings.Contains(ends[b], "nat_half(-1)"))
	})
	var sb strings.Builder
	if rng.Intn(2) == 0 {
		sb.WriteString(strings.Join(funcs, "\n") + "\n")
		funcs = nil
	}
	for _, b := range begins {
		sb.WriteString("BEGIN { " + b + " }\n")
	}
	for _, r := range rules {
		sb.WriteString(r + "\n")
	}
	for _, e := range ends {
		sb.WriteString("END { " + e + " }\n")
	}
	if funcs != nil {
		sb.WriteString(strings.Join(funcs, "\n") + "\n")
	}
	sh.Src = sb.String()
	sh.CSV = rng.Intn(8) == 0 && !strings.Contains(sh.Src, "FS =")
	sh.Input = genInput(rng, sh.CSV)
	sh.Vars = []string{"vr_a", "from-vars", "vr_b", "41", "vr_c", "héllo"}
	if rng.Intn(4) == 0 {
		sh.Args = []string{"data.txt", "vr_b=5", "-"}
	}
	return sh
}

func indexOf(l []int, v int) int {
	for i, x := range l {
		if x == v {
			return i
		}
	}
	return 0
}

// SharedFromCorpus wraps a corpus program (seed or /repo/testdata) as a shared program. It runs
// with NoExec, so programs using commands end with a (deterministic) error.
func SharedFromCorpus(rng *rand.Rand, progs []string) Shared {
	src := progs[rng.Intn(len(progs))]
	return Shared{Gen: "corpus", Src: src, Input: genInput(rng, false), Features: []string{"corpus"}}
}

// ExecShared are shared programs that run commands through the default shell: system(), a
// command read by getline, a command written to by print. Every interpreter of a concurrent round
// builds its own command line from the same (package-level) default. Records come from a file
// operand, never from Stdin: os/exec copies a non-file Stdin into every child from a goroutine
// of its own, so which records are left for the program would depend on timing. No child writes
// to the standard output it inherits: with a non-file Config.Output that goes through os/exec's
// copier, whose data goawk's WaitDelay (250 ms) drops on a loaded machine (C13's known finding).
var ExecShared = []Shared{
	{Gen: "exec", Exec: true, Features: []string{"exec-system", "exec-getline", "exec-print-pipe"}, Args: []string{"data.txt"},
		Src: `BEGIN { r = system("exit 3"); print "sys", r; "echo hi" | getline x; close("echo hi"); print "got", x }
{ cmd = "echo " $1 "-" NR; cmd | getline y; r2 = close(cmd); print y, r2 }
END { print "to-cat" | "cat >/dev/null"; r3 = close("cat >/dev/null"); print "end", r3, system("true"), system("exit 1") }
`},
	{Gen: "exec", Exec: true, Features: []string{"exec-print-pipe-end-of-run"}, Args: []string{"data.txt"},
		Src: `{ print $1 | "sort >/dev/null" }
END { print "sorted nowhere" }
`},
	{Gen: "exec", Exec: true, Features: []string{"exec-getline-loop"}, Input: "",
		Src: `BEGIN { while (("printf 'a\\nb\\nc\\n'" | getline l) > 0) n = n l; print n; close("printf 'a\\nb\\nc\\n'"); r = system("exit 7"); print "after", r }
`},
}
