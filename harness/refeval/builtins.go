package refeval

import (
	"math"
	"strconv"
	"strings"

	"github.com/benhoyt/goawk/lexer"
	vh "github.com/benhoyt/goawk/verifhook"
)

func asciiOnly(s string) bool {
	for i := 0; i < len(s); i++ {
		if s[i] >= 0x80 {
			return false
		}
	}
	return true
}

func (in *Interp) evalArgs(args []vh.Expr) ([]Value, error) {
	vals := make([]Value, len(args))
	for i, a := range args {
		v, err := in.expr(a)
		if err != nil {
			return nil, err
		}
		vals[i] = v
	}
	return vals, nil
}

func (in *Interp) numArg(v Value) (float64, error) { return v.toNum() }

// intArg truncates a position/length argument; non-finite and huge values are left to C10.
func intArg(f float64) (int, error) {
	if math.IsNaN(f) || math.Abs(f) > 1e15 {
		return 0, unsupported("non-finite or huge numeric argument")
	}
	return int(f), nil
}

func (in *Interp) builtin(e *vh.CallExpr) (Value, error) {
	switch e.Func {
	case lexer.F_SPLIT:
		return in.callSplit(e)
	case lexer.F_SUB, lexer.F_GSUB:
		return in.callSub(e)
	case lexer.F_LENGTH:
		if len(e.Args) == 0 {
			return num(float64(len(in.rec.line))), nil
		}
		if ve, ok := e.Args[0].(*vh.VarExpr); ok && !(specialNames[ve.Name] && !in.isLocal(ve.Name)) {
			c := in.lookup(ve.Name)
			if c.isArray || (c.ref != nil && c.ref.isArray) {
				m, err := c.array()
				if err != nil {
					return null(), err
				}
				return num(float64(len(m))), nil
			}
		}
		v, err := in.expr(e.Args[0])
		if err != nil {
			return null(), err
		}
		s, err := in.toStr(v)
		if err != nil {
			return null(), err
		}
		if !asciiOnly(s) {
			return null(), unsupported("length of non-ASCII text")
		}
		return num(float64(len(s))), nil
	}
	args, err := in.evalArgs(e.Args)
	if err != nil {
		return null(), err
	}
	n1 := func(i int) (float64, error) { return args[i].toNum() }
	s1 := func(i int) (string, error) { return in.toStr(args[i]) }
	switch e.Func {
	case lexer.F_ATAN2:
		y, err := n1(0)
		if err != nil {
			return null(), err
		}
		x, err := n1(1)
		return num(math.Atan2(y, x)), err
	case lexer.F_COS, lexer.F_SIN, lexer.F_EXP, lexer.F_LOG, lexer.F_SQRT:
		f, err := n1(0)
		if err != nil {
			return null(), err
		}
		switch e.Func {
		case lexer.F_COS:
			f = math.Cos(f)
		case lexer.F_SIN:
			f = math.Sin(f)
		case lexer.F_EXP:
			f = math.Exp(f)
		case lexer.F_LOG:
			f = math.Log(f)
		default:
			f = math.Sqrt(f)
		}
		return num(f), nil
	case lexer.F_INT:
		f, err := n1(0)
		if err != nil {
			return null(), err
		}
		if math.IsNaN(f) || math.IsInf(f, 0) {
			return null(), unsupported("int() of a non-finite number")
		}
		t := math.Trunc(f)
		if t == 0 && in.cfg.IntDropsNegZero {
			t = 0 // +0
		}
		return num(t), nil
	case lexer.F_INDEX:
		s, err := s1(0)
		if err != nil {
			return null(), err
		}
		t, err := s1(1)
		if err != nil {
			return null(), err
		}
		if t == "" {
			return null(), unsupported("index with an empty needle")
		}
		if !asciiOnly(s) {
			return null(), unsupported("index in non-ASCII text")
		}
		return num(float64(strings.Index(s, t) + 1)), nil
	case lexer.F_MATCH:
		s, err := s1(0)
		if err != nil {
			return null(), err
		}
		rs, err := s1(1)
		if err != nil {
			return null(), err
		}
		re, err := in.regex(rs)
		if err != nil {
			return null(), err
		}
		if !asciiOnly(s) {
			return null(), unsupported("match in non-ASCII text")
		}
		loc := re.FindStringIndex(s)
		if loc == nil {
			in.rstart, in.rlength = num(0), num(-1)
		} else {
			in.rstart, in.rlength = num(float64(loc[0]+1)), num(float64(loc[1]-loc[0]))
		}
		return in.rstart, nil
	case lexer.F_SUBSTR:
		s, err := s1(0)
		if err != nil {
			return null(), err
		}
		if !asciiOnly(s) {
			return null(), unsupported("substr of non-ASCII text")
		}
		mf, err := n1(1)
		if err != nil {
			return null(), err
		}
		m, err := intArg(mf)
		if err != nil {
			return null(), err
		}
		if m < 1 {
			m = 1
		}
		if m > len(s) {
			return str(""), nil
		}
		rest := s[m-1:]
		if len(args) > 2 {
			nf, err := n1(2)
			if err != nil {
				return null(), err
			}
			n, err := intArg(nf)
			if err != nil {
				return null(), err
			}
			if n < 0 {
				n = 0
			}
			if n < len(rest) {
				rest = rest[:n]
			}
		}
		return str(rest), nil
	case lexer.F_SPRINTF:
		f, err := s1(0)
		if err != nil {
			return null(), err
		}
		out, err := in.sprintf(f, args[1:])
		return str(out), err
	case lexer.F_TOLOWER, lexer.F_TOUPPER:
		s, err := s1(0)
		if err != nil {
			return null(), err
		}
		if !asciiOnly(s) {
			return null(), unsupported("case conversion of non-ASCII text")
		}
		if e.Func == lexer.F_TOLOWER {
			return str(strings.ToLower(s)), nil
		}
		return str(strings.ToUpper(s)), nil
	case lexer.F_CLOSE:
		name, err := s1(0)
		if err != nil {
			return null(), err
		}
		return in.closeStream(name)
	case lexer.F_FFLUSH:
		if len(args) > 0 {
			name, err := s1(0)
			if err != nil {
				return null(), err
			}
			if name != "" {
				s, ok := in.outStreams[name]
				if !ok {
					return num(-1), nil
				}
				in.flushStream(s)
				return num(0), nil
			}
		}
		for _, s := range in.outStreams {
			in.flushStream(s)
		}
		return num(0), nil
	case lexer.F_SYSTEM:
		cmd, err := s1(0)
		if err != nil {
			return null(), err
		}
		if in.cfg.Shell == nil {
			return null(), unsupported("system() without a shell model")
		}
		for _, s := range in.outStreams {
			in.flushStream(s)
		}
		out, status, err := in.cfg.Shell(cmd, nil, in.fsys)
		if err != nil {
			return null(), err
		}
		in.stdout.Write(out)
		return num(float64(status)), nil
	case lexer.F_RAND, lexer.F_SRAND:
		return null(), unsupported("rand/srand")
	}
	return null(), unsupported("builtin %s", e.Func)
}

func (in *Interp) callSplit(e *vh.CallExpr) (Value, error) {
	v, err := in.expr(e.Args[0])
	if err != nil {
		return null(), err
	}
	s, err := in.toStr(v)
	if err != nil {
		return null(), err
	}
	arrName := e.Args[1].(*vh.VarExpr).Name
	sep := in.fs
	sepIsRegexLit := false
	if len(e.Args) > 2 {
		sv, err := in.expr(e.Args[2])
		if err != nil {
			return null(), err
		}
		if sep, err = in.toStr(sv); err != nil {
			return null(), err
		}
		if se, ok := e.Args[2].(*vh.StrExpr); ok && se.Regex {
			sepIsRegexLit = true
		}
	}
	var parts []string
	switch {
	case sepIsRegexLit && len(sep) <= 1:
		return null(), unsupported("split with a one-character regex literal")
	case sep == "":
		return null(), unsupported("split with an empty separator")
	default:
		if parts, err = in.splitFields(s, sep); err != nil {
			return null(), err
		}
	}
	arr, err := in.lookup(arrName).array()
	if err != nil {
		return null(), err
	}
	for k := range arr {
		delete(arr, k)
	}
	for i, p := range parts {
		arr[strconv.Itoa(i+1)] = numStr(p)
	}
	return num(float64(len(parts))), nil
}

// subst performs sub/gsub on text: non-overlapping leftmost-longest matches, & is the match,
// \& a literal ampersand, \\ a backslash.
func (in *Interp) subst(reSrc, repl, text string, global bool) (string, int, error) {
	re, err := in.regex(reSrc)
	if err != nil {
		return "", 0, err
	}
	expand := func(m string) string {
		var sb strings.Builder
		for i := 0; i < len(repl); i++ {
			c := repl[i]
			switch {
			case c == '&':
				sb.WriteString(m)
			case c == '\\' && i+1 < len(repl) && (repl[i+1] == '&' || repl[i+1] == '\\'):
				i++
				sb.WriteByte(repl[i])
			default:
				sb.WriteByte(c)
			}
		}
		return sb.String()
	}
	// FindAllStringIndex yields the successive non-overlapping leftmost-longest matches of the
	// whole text (anchors keep their meaning) and drops an empty match that abuts the preceding
	// match — the AWK rule.
	var out strings.Builder
	count := 0
	pos := 0
	limit := -1
	if !global {
		limit = 1
	}
	for _, loc := range re.FindAllStringIndex(text, limit) {
		out.WriteString(text[pos:loc[0]])
		out.WriteString(expand(text[loc[0]:loc[1]]))
		pos = loc[1]
		count++
	}
	out.WriteString(text[pos:])
	return out.String(), count, nil
}

func (in *Interp) callSub(e *vh.CallExpr) (Value, error) {
	global := e.Func == lexer.F_GSUB
	var target vh.Expr
	if len(e.Args) == 3 {
		target = e.Args[2]
	}
	// For field / array-element targets (and the default $0) the target's index is evaluated
	// and its value fetched first, then the regex and the replacement; for a plain variable the
	// variable is read last.
	var lv lval
	var cur Value
	var err error
	fetchFirst := true
	if ve, ok := target.(*vh.VarExpr); ok && ve != nil {
		fetchFirst = false
	}
	if fetchFirst {
		if target == nil {
			lv = lval{func() (Value, error) { return in.getField(0) }, func(v Value) error {
				s, err := in.toStr(v)
				if err != nil {
					return err
				}
				return in.setField(0, s)
			}}
		} else if lv, err = in.lvalue(target); err != nil {
			return null(), err
		}
		if cur, err = lv.get(); err != nil {
			return null(), err
		}
	}
	rv, err := in.expr(e.Args[0])
	if err != nil {
		return null(), err
	}
	pv, err := in.expr(e.Args[1])
	if err != nil {
		return null(), err
	}
	if !fetchFirst {
		if lv, err = in.lvalue(target); err != nil {
			return null(), err
		}
		if cur, err = lv.get(); err != nil {
			return null(), err
		}
	}
	reSrc, err := in.toStr(rv)
	if err != nil {
		return null(), err
	}
	repl, err := in.toStr(pv)
	if err != nil {
		return null(), err
	}
	text, err := in.toStr(cur)
	if err != nil {
		return null(), err
	}
	out, n, err := in.subst(reSrc, repl, text, global)
	if err != nil {
		return null(), err
	}
	_, isField := target.(*vh.FieldExpr)
	if target == nil {
		isField = true
	}
	if n > 0 {
		// the target is assigned only when a substitution was made; otherwise it keeps its value
		// exactly as it was (a number stays a number)
		if err := lv.set(str(out)); err != nil {
			return null(), err
		}
	}
	_ = isField
	return num(float64(n)), nil
}
