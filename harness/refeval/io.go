package refeval

import (
	"bytes"
	"regexp"
	"strconv"
	"strings"

	"github.com/benhoyt/goawk/lexer"
	vh "github.com/benhoyt/goawk/verifhook"
)

// splitRecords splits input text into records for RS="\n": lines, an optional trailing CR
// dropped, a final line without newline still a record.
func splitRecords(data []byte) []string {
	if len(data) == 0 {
		return nil
	}
	s := string(data)
	s = strings.TrimSuffix(s, "\n")
	if s == "" && len(data) == 1 {
		return []string{""}
	}
	lines := strings.Split(s, "\n")
	for i, l := range lines {
		lines[i] = strings.TrimSuffix(l, "\r")
	}
	return lines
}

var operandAssign = regexp.MustCompile(`^([_a-zA-Z][_a-zA-Z0-9]*)=(.*)`)

// unescape interprets backslash escapes the way the lexer does for string literals; only the
// simple escapes are modelled (anything else makes the case unsupported).
func unescape(s string) (string, error) {
	if !strings.Contains(s, "\\") {
		return s, nil
	}
	var sb strings.Builder
	for i := 0; i < len(s); i++ {
		c := s[i]
		if c != '\\' {
			sb.WriteByte(c)
			continue
		}
		i++
		if i >= len(s) {
			sb.WriteByte('\\')
			break
		}
		switch s[i] {
		case 'n':
			sb.WriteByte('\n')
		case 't':
			sb.WriteByte('\t')
		case '\\':
			sb.WriteByte('\\')
		case '"':
			sb.WriteByte('"')
		case '/':
			sb.WriteByte('/')
		default:
			return "", unsupported("escape \\%c in an assignment operand", s[i])
		}
	}
	return sb.String(), nil
}

// nextMainRecord returns the next record of the main input (operands left to right, var=value
// operands applied when reached, empty operands skipped, "-" = stdin, stdin if no file operand).
func (in *Interp) nextMainRecord() (string, bool, error) {
	for {
		if !in.mainOpen {
			argcF, err := in.argc.toNum()
			if err != nil {
				return "", false, err
			}
			argc := int(argcF)
			if in.argIndex >= argc && !in.hadFiles {
				in.openMain("-", true)
			} else {
				if in.argIndex >= argc {
					return "", false, nil
				}
				argv, err := in.global("ARGV").array()
				if err != nil {
					return "", false, err
				}
				av := argv[strconv.Itoa(in.argIndex)] // no element creation
				in.argIndex++
				name, err := in.toStr(av)
				if err != nil {
					return "", false, err
				}
				if m := operandAssign.FindStringSubmatch(name); m != nil && !in.cfg.NoArgVars {
					val, err := unescape(m[2])
					if err != nil {
						return "", false, err
					}
					if err := in.setVarByName(m[1], val); err != nil {
						return "", false, err
					}
					continue
				}
				if name == "" {
					continue
				}
				if name == "-" {
					in.openMain("-", true)
				} else {
					data, ok := in.fsys[name]
					if !ok {
						return "", false, rtError("cannot open input file")
					}
					if _, open := in.outStreams[name]; open {
						return "", false, unsupported("reading a file that is open for output")
					}
					in.mainRecs = splitRecords(data)
					in.mainPos = 0
					in.mainOpen = true
					in.mainIsStdin = false
					in.filename = numStr(name)
					in.fnr = num(0)
					in.hadFiles = true
				}
			}
		}
		in.rt = in.rs
		if in.mainPos < len(in.mainRecs) {
			line := in.mainRecs[in.mainPos]
			in.mainPos++
			if in.mainIsStdin {
				in.stdinPos = in.mainPos
			}
			nr, err := in.nr.toNum()
			if err != nil {
				return "", false, err
			}
			fnr, err := in.fnr.toNum()
			if err != nil {
				return "", false, err
			}
			in.nr, in.fnr = num(nr+1), num(fnr+1)
			return line, true, nil
		}
		in.mainOpen = false
	}
}

func (in *Interp) openMain(name string, stdin bool) {
	recs := in.stdinRecords()
	in.stdinOpens++
	if in.stdinOpens > 1 {
		// a second reader on the same standard input sees only what the first one left
		// unread in the underlying stream; with read-ahead that is nothing for small inputs
		if in.stdinPos < len(recs) {
			in.stdinReopenedUnread = true
		}
		in.stdinPos = len(recs)
	}
	in.mainRecs = recs
	in.mainPos = in.stdinPos
	in.mainOpen = true
	in.mainIsStdin = true
	in.filename = numStr(name)
	in.fnr = num(0)
	in.hadFiles = true
}

func (in *Interp) stdinRecords() []string {
	if !in.stdinUsed {
		in.stdinUsed = true
		in.stdinRecs = splitRecords(in.cfg.Stdin)
	}
	return in.stdinRecs
}

// outputFor returns the buffer a print/printf writes to.
func (in *Interp) outputFor(redirect lexer.Token, name string, has bool) (*bytes.Buffer, error) {
	if !has {
		return &in.stdout, nil
	}
	if _, ok := in.inStreams[name]; ok {
		return nil, rtError("can't write to reader stream")
	}
	if s, ok := in.outStreams[name]; ok {
		return &s.buf, nil
	}
	switch redirect {
	case lexer.GREATER, lexer.APPEND:
		if name == "-" || name == "/dev/stdout" {
			return &in.stdout, nil
		}
		if name == "/dev/stderr" {
			return &bytes.Buffer{}, nil // stderr is not compared
		}
		if strings.HasPrefix(name, "/dev/") || name == "" {
			return nil, unsupported("output to %q", name)
		}
		if redirect == lexer.GREATER {
			in.fsys[name] = nil // truncated when first opened
		} else if _, ok := in.fsys[name]; !ok {
			in.fsys[name] = nil
		}
		s := &outStream{name: name}
		in.outStreams[name] = s
		return &s.buf, nil
	case lexer.PIPE:
		if in.cfg.Shell == nil {
			return nil, unsupported("command output without a shell model")
		}
		s := &outStream{name: name, isCmd: true}
		in.outStreams[name] = s
		return &s.buf, nil
	}
	return nil, unsupported("redirection %s", redirect)
}

func (in *Interp) flushStream(s *outStream) {
	if s.isCmd {
		return // a command consumes its input as a whole when the stream is closed (model)
	}
	in.fsys[s.name] = append(in.fsys[s.name], s.buf.Bytes()...)
	s.buf.Reset()
}

// closeOut closes an output stream and returns the status close() reports.
func (in *Interp) closeOut(s *outStream) (int, error) {
	delete(in.outStreams, s.name)
	if !s.isCmd {
		in.flushStream(s)
		return 0, nil
	}
	out, status, err := in.cfg.Shell(s.name, s.buf.Bytes(), in.fsys)
	if err != nil {
		return 0, err
	}
	in.stdout.Write(out)
	return status, nil
}

func (in *Interp) closeAll() {
	names := make([]string, 0, len(in.outStreams))
	for n := range in.outStreams {
		names = append(names, n)
	}
	if len(names) > 1 {
		// several command streams still open at exit: their relative output order is not
		// determined by the program; only file streams are order-independent
		cmds := 0
		for _, n := range names {
			if in.outStreams[n].isCmd {
				cmds++
			}
		}
		if cmds > 1 {
			in.ambiguous = "several command streams left open at exit"
		}
	}
	for _, n := range names {
		_, _ = in.closeOut(in.outStreams[n])
	}
}

// getline implements the five forms; what each form sets follows the property text: plain —
// $0 NF NR FNR; getline v — v NR FNR; getline <f — $0 NF; getline v <f — v; cmd | getline [v] —
// $0 NF / v. The target's subscript or field index is evaluated first, then the file/command
// operand, then the read happens (the order goawk documents by construction).
func (in *Interp) getline(e *vh.GetlineExpr) (Value, error) {
	var target *lval
	if !isNilExpr(e.Target) {
		lv, err := in.lvalue(e.Target)
		if err != nil {
			return null(), err
		}
		target = &lv
	}
	var line string
	ret := 1.0
	switch {
	case e.Command != nil:
		v, err := in.expr(e.Command)
		if err != nil {
			return null(), err
		}
		name, err := in.toStr(v)
		if err != nil {
			return null(), err
		}
		if _, ok := in.outStreams[name]; ok {
			return null(), rtError("can't read from writer stream")
		}
		s := in.inStreams[name]
		if s == nil {
			if in.cfg.Shell == nil {
				return null(), unsupported("command input without a shell model")
			}
			out, status, err := in.cfg.Shell(name, nil, in.fsys)
			if err != nil {
				return null(), err
			}
			s = &inStream{isCmd: true, records: splitRecords(out), status: status}
			in.inStreams[name] = s
		}
		in.usedPipeGetline = true
		if s.pos >= len(s.records) {
			ret = 0
		} else {
			line = s.records[s.pos]
			s.pos++
			if in.cfg.PipeGetlineBumpsNR {
				nr, err := in.nr.toNum()
				if err != nil {
					return null(), err
				}
				in.nr = num(nr + 1)
			}
		}
	case e.File != nil:
		v, err := in.expr(e.File)
		if err != nil {
			return null(), err
		}
		name, err := in.toStr(v)
		if err != nil {
			return null(), err
		}
		if _, ok := in.outStreams[name]; ok {
			return null(), rtError("can't read from writer stream")
		}
		s := in.inStreams[name]
		if s == nil {
			if name == "-" || name == "" || strings.HasPrefix(name, "/dev/") {
				return null(), unsupported("getline < %q", name)
			}
			data, ok := in.fsys[name]
			if !ok {
				ret = -1
				break
			}
			s = &inStream{records: splitRecords(data)}
			in.inStreams[name] = s
		}
		if s.pos >= len(s.records) {
			ret = 0
		} else {
			line = s.records[s.pos]
			s.pos++
		}
	default:
		l, ok, err := in.nextMainRecord()
		if err != nil {
			if IsUnsupported(err) {
				return null(), err
			}
			ret = -1
			break
		}
		if !ok {
			ret = 0
		} else {
			line = l
		}
	}
	if ret == 1 {
		if target == nil {
			in.setRecord(line, false)
		} else if err := target.set(numStr(line)); err != nil {
			return null(), err
		}
	}
	return num(ret), nil
}

func isNilExpr(e vh.Expr) bool {
	if e == nil {
		return true
	}
	switch x := e.(type) {
	case *vh.VarExpr:
		return x == nil
	case *vh.IndexExpr:
		return x == nil
	case *vh.FieldExpr:
		return x == nil
	}
	return false
}

// closeStream implements close(name).
func (in *Interp) closeStream(name string) (Value, error) {
	if s, ok := in.inStreams[name]; ok {
		delete(in.inStreams, name)
		if s.isCmd {
			return num(float64(s.status)), nil
		}
		return num(0), nil
	}
	if s, ok := in.outStreams[name]; ok {
		st, err := in.closeOut(s)
		return num(float64(st)), err
	}
	return num(-1), nil
}
