package refeval

import (
	"fmt"
	"math"
	"strings"
)

// sprintf formats the AWK way for the subset of specifications on which C and Go's fmt agree
// (everything else is left to C09 and makes the case unsupported here):
//
//	%d %i   flags - + space 0, width, precision        (argument truncated toward zero)
//	%o %x %X %u  non-negative arguments, flags - 0, width
//	%s      flag -, width, precision, ASCII text
//	%c      number -> the character with that code (1..127), string -> first character
//	%e %E %f  flags - + space 0, width, precision;  %g %G with an explicit precision
//	%%
func (in *Interp) sprintf(format string, args []Value) (string, error) {
	var out strings.Builder
	argi := 0
	next := func() (Value, error) {
		if argi >= len(args) {
			return null(), rtError("printf: not enough arguments")
		}
		v := args[argi]
		argi++
		return v, nil
	}
	for i := 0; i < len(format); i++ {
		c := format[i]
		if c != '%' {
			out.WriteByte(c)
			continue
		}
		i++
		if i >= len(format) {
			return "", rtError("printf: expected type specifier after %")
		}
		if format[i] == '%' {
			out.WriteByte('%')
			continue
		}
		start := i
		flags := ""
		for i < len(format) && strings.IndexByte("-+ #0", format[i]) >= 0 {
			flags += string(format[i])
			i++
		}
		width, prec := "", ""
		hasPrec := false
		if i < len(format) && format[i] == '*' {
			return "", unsupported("printf * width")
		}
		for i < len(format) && isDigit(format[i]) {
			width += string(format[i])
			i++
		}
		if i < len(format) && format[i] == '.' {
			hasPrec = true
			i++
			if i < len(format) && format[i] == '*' {
				return "", unsupported("printf * precision")
			}
			for i < len(format) && isDigit(format[i]) {
				prec += string(format[i])
				i++
			}
		}
		if i >= len(format) {
			return "", rtError("printf: expected type specifier after %")
		}
		conv := format[i]
		_ = start
		if strings.Contains(flags, "#") {
			return "", unsupported("printf # flag")
		}
		if len(width) > 3 || len(prec) > 2 {
			return "", unsupported("printf huge width/precision")
		}
		spec := "%" + flags + width
		if hasPrec {
			spec += "." + prec
		}
		switch conv {
		case 'd', 'i':
			v, err := next()
			if err != nil {
				return "", err
			}
			f, err := v.toNum()
			if err != nil {
				return "", err
			}
			if math.IsNaN(f) || math.Abs(f) >= 9.2e18 {
				return "", unsupported("printf %%d of a non-finite or out-of-range number")
			}
			if hasPrec {
				return "", unsupported("printf %%d with precision")
			}
			out.WriteString(fmt.Sprintf(spec+"d", int64(f)))
		case 'o', 'x', 'X', 'u':
			v, err := next()
			if err != nil {
				return "", err
			}
			f, err := v.toNum()
			if err != nil {
				return "", err
			}
			if math.IsNaN(f) || f < 0 || f >= 9.2e18 {
				return "", unsupported("printf unsigned conversion of a negative/non-finite number")
			}
			if hasPrec || strings.ContainsAny(flags, "+ ") {
				return "", unsupported("printf unsigned conversion with + / space / precision")
			}
			gc := conv
			if gc == 'u' {
				gc = 'd'
			}
			out.WriteString(fmt.Sprintf(spec+string(gc), uint64(f)))
		case 's':
			v, err := next()
			if err != nil {
				return "", err
			}
			s, err := in.toStr(v)
			if err != nil {
				return "", err
			}
			if !asciiOnly(s) || strings.ContainsAny(flags, "+ 0") {
				return "", unsupported("printf %%s with non-ASCII text or numeric flags")
			}
			out.WriteString(fmt.Sprintf(spec+"s", s))
		case 'c':
			v, err := next()
			if err != nil {
				return "", err
			}
			if hasPrec || strings.ContainsAny(flags, "+ 0") {
				return "", unsupported("printf %%c with precision or numeric flags")
			}
			var ch string
			f, isNum, err := v.numericOperand()
			if err != nil {
				return "", err
			}
			if isNum {
				if f != math.Trunc(f) || f < 1 || f > 127 {
					return "", unsupported("printf %%c of a code outside 1..127")
				}
				ch = string(rune(int(f)))
			} else {
				s, err := in.toStr(v)
				if err != nil {
					return "", err
				}
				if s == "" || s[0] >= 0x80 {
					return "", unsupported("printf %%c of an empty or non-ASCII string")
				}
				ch = s[:1]
			}
			out.WriteString(fmt.Sprintf(spec+"s", ch))
		case 'e', 'E', 'f', 'g', 'G':
			v, err := next()
			if err != nil {
				return "", err
			}
			f, err := v.toNum()
			if err != nil {
				return "", err
			}
			if math.IsNaN(f) || math.IsInf(f, 0) {
				return "", unsupported("printf of a non-finite number")
			}
			if (conv == 'g' || conv == 'G') && !hasPrec {
				// C's default precision is 6 (Go's would be the shortest form); goawk follows C since d2a9df0
				out.WriteString(fmt.Sprintf(spec+".6"+string(conv), f))
				break
			}
			out.WriteString(fmt.Sprintf(spec+string(conv), f))
		default:
			if strings.IndexByte("aAFnphlLqjzt", conv) >= 0 {
				return "", unsupported("printf conversion %%%c", conv)
			}
			return "", rtError("printf: invalid format type")
		}
	}
	return out.String(), nil
}
