package refeval

import (
	"bytes"
	"fmt"
	"strconv"
	"strings"
)

// VshModel mirrors the fake shell cmd/vsh (the real runs use it as Config.ShellCommand): a
// command string is a ';'-separated list of operations. Only deterministic, terminating
// operations are modelled.
func VshModel(cmd string, stdin []byte, fs map[string][]byte) ([]byte, int, error) {
	var out bytes.Buffer
	consumed := false
	for _, op := range strings.Split(cmd, ";") {
		op = strings.TrimSpace(op)
		name, arg, _ := strings.Cut(op, ":")
		switch name {
		case "":
		case "emit":
			out.WriteString(arg + "\n")
		case "emitraw":
			out.WriteString(arg)
		case "lines":
			p, ns, _ := strings.Cut(arg, ":")
			n, _ := strconv.Atoi(ns)
			for i := 1; i <= n; i++ {
				out.WriteString(p + strconv.Itoa(i) + "\n")
			}
		case "cat":
			if !consumed {
				out.Write(stdin)
				consumed = true
			}
		case "catto":
			fs[arg] = append([]byte(nil), stdin...)
			consumed = true
		case "appendto":
			fs[arg] = append(fs[arg], stdin...)
			consumed = true
		case "count":
			lines := bytes.Count(stdin, []byte("\n"))
			n := len(stdin)
			if consumed {
				lines, n = 0, 0
			}
			consumed = true
			fmt.Fprintf(&out, "%d %d\n", lines, n)
		case "err", "sleep", "mark":
			// stderr is not compared; timing is not modelled; marker files are observed by the harness
			if name == "mark" {
				fs[arg] = []byte{}
			}
		case "exit":
			n, _ := strconv.Atoi(arg)
			return out.Bytes(), n, nil
		default:
			return nil, 0, unsupported("vsh operation %q", name)
		}
	}
	return out.Bytes(), 0, nil
}
