// Package refeval is an independent reference evaluator for AWK programs: a direct
// recursive walk over the syntax tree the goawk parser produced (reached through the
// verifhook bridge). It shares with goawk only the lexer/parser (checked separately), Go's
// regexp, strconv and math. It does not use goawk's resolver, compiler, VM or value code.
package refeval

import (
	"fmt"
	"math"
	"strconv"
	"strings"
)

type kind uint8

const (
	kNull   kind = iota // unset
	kNum                // number
	kStr                // string
	kNumStr             // input-derived text: numeric if it looks like a number
)

// Value is an AWK scalar value.
type Value struct {
	k kind
	s string
	n float64
}

func null() Value           { return Value{} }
func num(f float64) Value   { return Value{k: kNum, n: f} }
func str(s string) Value    { return Value{k: kStr, s: s} }
func numStr(s string) Value { return Value{k: kNumStr, s: s} }
func boolean(b bool) Value {
	if b {
		return num(1)
	}
	return num(0)
}

// errUnsupported marks a situation outside the modelled fragment: the case is inconclusive.
type errUnsupported struct{ what string }

func (e *errUnsupported) Error() string { return "refeval: unsupported: " + e.what }

func unsupported(format string, args ...any) error {
	return &errUnsupported{fmt.Sprintf(format, args...)}
}

// IsUnsupported reports whether err marks an unmodelled situation.
func IsUnsupported(err error) bool {
	_, ok := err.(*errUnsupported)
	return ok
}

func isBlank(c byte) bool {
	return c == ' ' || c == '\t' || c == '\n' || c == '\v' || c == '\f' || c == '\r'
}

func isDigit(c byte) bool { return c >= '0' && c <= '9' }

// scanDecimal returns the length of the longest prefix of s (no leading blanks) that is a
// decimal number [+-]digits[.digits][(e|E)[+-]digits]; 0 if none. exotic is set when the text
// starts like inf/nan/hex, which the model does not interpret.
func scanDecimal(s string) (n int, exotic bool) {
	i := 0
	if i < len(s) && (s[i] == '+' || s[i] == '-') {
		i++
	}
	if i+1 < len(s) && s[i] == '0' && (s[i+1] == 'x' || s[i+1] == 'X') {
		return 0, true
	}
	if i+2 < len(s) {
		p := strings.ToLower(s[i : i+3])
		if p == "inf" || p == "nan" {
			return 0, true
		}
	}
	digits := 0
	for i < len(s) && isDigit(s[i]) {
		i++
		digits++
	}
	if i < len(s) && s[i] == '.' {
		i++
		for i < len(s) && isDigit(s[i]) {
			i++
			digits++
		}
	}
	if digits == 0 {
		return 0, false
	}
	end := i
	if i < len(s) && (s[i] == 'e' || s[i] == 'E') {
		j := i + 1
		if j < len(s) && (s[j] == '+' || s[j] == '-') {
			j++
		}
		k := j
		for k < len(s) && isDigit(s[k]) {
			k++
		}
		if k > j {
			end = k
		}
	}
	return end, false
}

// strToNum converts a string to a number by its longest leading numeric prefix (else 0).
func strToNum(s string) (float64, error) {
	i := 0
	for i < len(s) && isBlank(s[i]) {
		i++
	}
	n, exotic := scanDecimal(s[i:])
	if exotic {
		return 0, unsupported("inf/nan/hex numeric text %q", s)
	}
	if n == 0 {
		return 0, nil
	}
	f, _ := strconv.ParseFloat(s[i:i+n], 64) // out of range gives ±Inf, as intended
	return f, nil
}

// looksNumeric reports whether the whole string is blanks + decimal number + blanks.
func looksNumeric(s string) (float64, bool, error) {
	i, j := 0, len(s)
	for i < j && isBlank(s[i]) {
		i++
	}
	for j > i && isBlank(s[j-1]) {
		j--
	}
	for _, c := range []byte(s) {
		if c >= 0x80 {
			return 0, false, unsupported("non-ASCII byte in possibly numeric text %q", s)
		}
	}
	t := s[i:j]
	if t == "" {
		return 0, false, nil
	}
	n, exotic := scanDecimal(t)
	if exotic {
		return 0, false, unsupported("inf/nan/hex numeric text %q", s)
	}
	if strings.ContainsRune(t, '_') && n == len(t) {
		return 0, false, nil
	}
	if n != len(t) {
		// "1e" / "1e+": the prefix scan stops before the e; the whole text is not a number
		return 0, false, nil
	}
	f, _ := strconv.ParseFloat(t, 64)
	return f, true, nil
}

// toNum converts a value to a number.
func (v Value) toNum() (float64, error) {
	switch v.k {
	case kNum:
		return v.n, nil
	case kStr, kNumStr:
		return strToNum(v.s)
	}
	return 0, nil
}

// numToStr converts a number to a string: exact integer if integral and inside the signed
// 64-bit range, else through the given format (CONVFMT or OFMT).
func numToStr(f float64, format string) (string, error) {
	switch {
	case math.IsNaN(f):
		return "nan", nil
	case math.IsInf(f, 1):
		return "inf", nil
	case math.IsInf(f, -1):
		return "-inf", nil
	}
	if f == math.Trunc(f) && f >= -9223372036854775808.0 && f < 9223372036854775808.0 {
		return strconv.FormatInt(int64(f), 10), nil
	}
	if !simpleFloatFormat(format) {
		return "", unsupported("CONVFMT/OFMT %q", format)
	}
	return fmt.Sprintf(format, f), nil
}

// simpleFloatFormat accepts formats of the shape %[.N](e|f|g|E|G) with an optional width,
// for which Go's fmt and C agree on finite values.
func simpleFloatFormat(f string) bool {
	if len(f) < 2 || f[0] != '%' {
		return false
	}
	i := 1
	for i < len(f) && isDigit(f[i]) {
		i++
	}
	if i < len(f) && f[i] == '.' {
		i++
		if i >= len(f) || !isDigit(f[i]) {
			return false
		}
		for i < len(f) && isDigit(f[i]) {
			i++
		}
	} else if i < len(f) && (f[i] == 'g' || f[i] == 'G') {
		return false // %g without precision: Go prints the shortest form, C six digits
	}
	return i == len(f)-1 && strings.IndexByte("efgEG", f[i]) >= 0
}

func (v Value) toStr(format string) (string, error) {
	if v.k == kNum {
		return numToStr(v.n, format)
	}
	return v.s, nil
}

// numericOperand reports whether the value takes part in a comparison as a number, and that number.
func (v Value) numericOperand() (float64, bool, error) {
	switch v.k {
	case kNum:
		return v.n, true, nil
	case kNull:
		return 0, true, nil
	case kNumStr:
		return looksNumeric(v.s)
	}
	return 0, false, nil
}

func (v Value) truth() (bool, error) {
	switch v.k {
	case kNum:
		return v.n != 0, nil
	case kNull:
		return false, nil
	case kStr:
		return v.s != "", nil
	}
	f, isNum, err := looksNumeric(v.s)
	if err != nil {
		return false, err
	}
	if isNum {
		return f != 0, nil
	}
	return v.s != "", nil
}
