package refeval

import (
	"bytes"
	"errors"
	"fmt"
	"math"
	"regexp"
	"sort"
	"strconv"
	"strings"

	"github.com/benhoyt/goawk/lexer"
	"github.com/benhoyt/goawk/parser"
	vh "github.com/benhoyt/goawk/verifhook"
)

// ShellFunc models a command run through the (fake) shell: it receives the command string and
// the bytes written to its standard input and returns what it writes to stdout and its status.
type ShellFunc func(cmd string, stdin []byte, fs map[string][]byte) (stdout []byte, status int, err error)

// Config is the execution environment of one reference run.
type Config struct {
	Stdin     []byte
	Args      []string
	Argv0     string
	Vars      []string // name, value pairs (like interp.Config.Vars)
	Environ   []string // name, value pairs
	Files     map[string][]byte
	NoArgVars bool
	Shell     ShellFunc
	Fuel      int // bound on evaluated statements+expressions (0 = default)

	// Ambiguity switches (the property is silent; the comparator may try both settings).
	PipeGetlineBumpsNR bool
	// IntDropsNegZero: int(x) for -1 < x <= -0 is +0 instead of -0 (the property says "truncates
	// toward zero" and nothing about the sign of a zero; both are accepted by the callers)
	IntDropsNegZero bool
}

// Result is what a reference run observed.
type Result struct {
	Stdout          []byte
	Status          int
	Err             error // run-time error (nil if none); IsUnsupported(Err) marks an unmodelled situation
	Files           map[string][]byte
	StmtBegins      map[lexer.Position]int // how many times the statement starting at a position began
	Steps           int
	UsedPipeGetline bool
}

type rtErr struct{ msg string }

func (e *rtErr) Error() string { return "runtime error: " + e.msg }
func rtError(msg string) error { return &rtErr{msg} }

// control flow signals
var (
	errNext     = errors.New("next")
	errNextfile = errors.New("nextfile")
	errExit     = errors.New("exit")
	errBreak    = errors.New("break")
	errContinue = errors.New("continue")
	errFuel     = &errUnsupported{"fuel exhausted"}
)

type returnSignal struct{ v Value }

func (r *returnSignal) Error() string { return "return" }

// cell is a variable: scalar, array, or still untyped. A function parameter bound to an
// untyped variable of the caller keeps a reference so that array use in the callee makes the
// caller's variable an array (arrays are shared by reference, scalars copied).
type cell struct {
	isArray bool
	typed   bool
	val     Value
	arr     map[string]Value
	ref     *cell // untyped argument variable of the caller
}

func (c *cell) array() (map[string]Value, error) {
	if c.typed && !c.isArray {
		return nil, unsupported("scalar used as array at run time")
	}
	if c.isArray {
		return c.arr, nil
	}
	if c.ref != nil {
		m, err := c.ref.array()
		if err != nil {
			return nil, err
		}
		c.typed, c.isArray, c.arr = true, true, m
		return m, nil
	}
	c.typed, c.isArray, c.arr = true, true, map[string]Value{}
	return c.arr, nil
}

func (c *cell) get() (Value, error) {
	if c.isArray {
		return null(), unsupported("array used as scalar at run time")
	}
	return c.val, nil
}

func (c *cell) set(v Value) error {
	if c.isArray {
		return unsupported("array used as scalar at run time")
	}
	c.typed = true
	c.ref = nil
	c.val = v
	return nil
}

type frame struct {
	fn     *vh.Function
	locals map[string]*cell
}

type outStream struct {
	isCmd bool
	name  string
	buf   bytes.Buffer
}

type inStream struct {
	isCmd   bool
	records []string
	pos     int
	status  int
}

// Interp is one reference interpreter instance.
type Interp struct {
	prog  *vh.ASTProgram
	funcs map[string]*vh.Function
	cfg   *Config

	globals map[string]*cell
	frames  []*frame

	rec record
	// special variables
	nr, fnr          Value
	filename         Value
	fs, ofs, ors, rs string
	subsep           string
	convfmt, ofmt    string
	rstart, rlength  Value
	rt               string
	argc             Value

	// input
	argIndex            int
	hadFiles            bool
	mainRecs            []string
	mainPos             int
	mainOpen            bool
	stdinUsed           bool
	stdinRecs           []string
	stdinPos            int
	stdinOpens          int
	mainIsStdin         bool
	stdinReopenedUnread bool
	ambiguous           string // set when the outcome is not determined by the program (case is inconclusive)
	inStreams           map[string]*inStream
	outStreams          map[string]*outStream
	fsys                map[string][]byte

	stdout          bytes.Buffer
	exitStatus      int
	rangeOn         []bool
	fuel            int
	steps           int
	stmtBegins      map[lexer.Position]int
	regexCache      map[string]*regexp.Regexp
	usedPipeGetline bool
}

var specialNames = map[string]bool{"ARGC": true, "CONVFMT": true, "FILENAME": true, "FNR": true, "FS": true, "INPUTMODE": true, "NF": true, "NR": true,
	"OFMT": true, "OFS": true, "ORS": true, "OUTPUTMODE": true, "RLENGTH": true, "RS": true, "RSTART": true, "RT": true, "SUBSEP": true}

// Run evaluates a parsed program under cfg.
func Run(p *parser.Program, cfg *Config) (res Result) {
	tree := &p.ResolvedProgram.Program
	in := &Interp{prog: tree, cfg: cfg, funcs: map[string]*vh.Function{}, globals: map[string]*cell{},
		fs: " ", ofs: " ", ors: "\n", rs: "\n", subsep: "\x1c", convfmt: "%.6g", ofmt: "%.6g",
		nr: num(0), fnr: num(0), rstart: num(0), rlength: num(0),
		inStreams: map[string]*inStream{}, outStreams: map[string]*outStream{}, fsys: map[string][]byte{},
		stmtBegins: map[lexer.Position]int{}, regexCache: map[string]*regexp.Regexp{}, argIndex: 1}
	in.fuel = cfg.Fuel
	if in.fuel == 0 {
		in.fuel = 2_000_000
	}
	for k, v := range cfg.Files {
		in.fsys[k] = append([]byte(nil), v...)
	}
	for _, f := range tree.Functions {
		in.funcs[f.Name] = f
	}
	defer func() {
		if r := recover(); r != nil {
			res.Err = unsupported("reference evaluator panic: %v", r)
		}
	}()
	status, err := in.run()
	res.Stdout = in.stdout.Bytes()
	res.Status = status
	res.Err = err
	res.Files = in.fsys
	res.StmtBegins = in.stmtBegins
	res.Steps = in.steps
	res.UsedPipeGetline = in.usedPipeGetline
	return res
}

func (in *Interp) run() (int, error) {
	cfg := in.cfg
	// ARGV / ARGC
	argv := in.global("ARGV")
	m, _ := argv.array()
	m["0"] = str(cfg.Argv0)
	for i, a := range cfg.Args {
		m[strconv.Itoa(i+1)] = numStr(a)
	}
	in.argc = num(float64(len(cfg.Args) + 1))
	env := in.global("ENVIRON")
	em, _ := env.array()
	for i := 0; i+1 < len(cfg.Environ); i += 2 {
		em[cfg.Environ[i]] = numStr(cfg.Environ[i+1])
	}
	_, _ = in.global("FIELDS").array()
	for i := 0; i+1 < len(cfg.Vars); i += 2 {
		if err := in.setVarByName(cfg.Vars[i], cfg.Vars[i+1]); err != nil {
			return 0, err
		}
	}
	err := in.runAll()
	in.closeAll()
	if in.stdinReopenedUnread {
		return 0, unsupported("standard input opened twice with unread data")
	}
	if in.ambiguous != "" {
		return 0, unsupported("%s", in.ambiguous)
	}
	if err != nil && err != errExit {
		return 0, err
	}
	return in.exitStatus, nil
}

func (in *Interp) runAll() error {
	for _, ss := range in.prog.Begin {
		if err := in.stmts(ss); err != nil {
			if err == errExit {
				return in.runEnd()
			}
			return err
		}
	}
	if len(in.prog.Actions) == 0 && len(in.prog.End) == 0 {
		return nil
	}
	if err := in.mainLoop(); err != nil {
		if err == errExit {
			return in.runEnd()
		}
		return err
	}
	return in.runEnd()
}

func (in *Interp) runEnd() error {
	for _, ss := range in.prog.End {
		if err := in.stmts(ss); err != nil {
			return err
		}
	}
	return nil
}

func (in *Interp) mainLoop() error {
	in.rangeOn = make([]bool, len(in.prog.Actions))
recordLoop:
	for {
		line, ok, err := in.nextMainRecord()
		if err != nil {
			return err
		}
		if !ok {
			return nil
		}
		in.setRecord(line, false)
		for i, a := range in.prog.Actions {
			matched := false
			switch len(a.Pattern) {
			case 0:
				matched = true
			case 1:
				v, err := in.expr(a.Pattern[0])
				if err != nil {
					return err
				}
				if matched, err = v.truth(); err != nil {
					return err
				}
			case 2:
				if !in.rangeOn[i] {
					v, err := in.expr(a.Pattern[0])
					if err != nil {
						return err
					}
					if in.rangeOn[i], err = v.truth(); err != nil {
						return err
					}
				}
				matched = in.rangeOn[i]
				if in.rangeOn[i] {
					v, err := in.expr(a.Pattern[1])
					if err != nil {
						return err
					}
					t, err := v.truth()
					if err != nil {
						return err
					}
					in.rangeOn[i] = !t
				}
			}
			if !matched {
				continue
			}
			if a.Stmts == nil {
				in.write(&in.stdout, in.rec.line+in.ors)
				continue
			}
			err := in.stmts(a.Stmts)
			switch err {
			case nil:
			case errNext:
				continue recordLoop
			case errNextfile:
				in.mainOpen = false
				continue recordLoop
			default:
				return err
			}
		}
	}
}

func (in *Interp) write(w *bytes.Buffer, s string) { w.WriteString(s) }

// ---- variables ---------------------------------------------------------------------------

func (in *Interp) global(name string) *cell {
	c := in.globals[name]
	if c == nil {
		c = &cell{}
		in.globals[name] = c
	}
	return c
}

func (in *Interp) lookup(name string) *cell {
	if n := len(in.frames); n > 0 {
		if c, ok := in.frames[n-1].locals[name]; ok {
			return c
		}
	}
	return in.global(name)
}

func (in *Interp) isLocal(name string) bool {
	if n := len(in.frames); n > 0 {
		_, ok := in.frames[n-1].locals[name]
		return ok
	}
	return false
}

func (in *Interp) getSpecial(name string) (Value, error) {
	switch name {
	case "NF":
		n, err := in.nf()
		return num(float64(n)), err
	case "NR":
		return in.nr, nil
	case "FNR":
		return in.fnr, nil
	case "FILENAME":
		return in.filename, nil
	case "FS":
		return str(in.fs), nil
	case "OFS":
		return str(in.ofs), nil
	case "ORS":
		return str(in.ors), nil
	case "RS":
		return str(in.rs), nil
	case "SUBSEP":
		return str(in.subsep), nil
	case "CONVFMT":
		return str(in.convfmt), nil
	case "OFMT":
		return str(in.ofmt), nil
	case "RSTART":
		return in.rstart, nil
	case "RLENGTH":
		return in.rlength, nil
	case "ARGC":
		return in.argc, nil
	case "RT":
		return str(in.rt), nil
	case "INPUTMODE", "OUTPUTMODE":
		return str(""), nil
	}
	return null(), unsupported("special variable %s", name)
}

func (in *Interp) setSpecial(name string, v Value) error {
	s, err := v.toStr(in.convfmt)
	if err != nil {
		return err
	}
	f, err := v.toNum()
	if err != nil {
		return err
	}
	switch name {
	case "NF":
		if math.IsNaN(f) || math.Abs(f) > 1e15 {
			return unsupported("NF set to a non-finite or huge value")
		}
		// What NF reads back as after being assigned something that is not the canonical text
		// of an integer (2.5, " 3 ", "str") is not settled by the property: outside the fragment.
		if s != strconv.FormatInt(int64(f), 10) {
			return unsupported("NF assigned a value that is not a plain integer")
		}
		return in.setNF(int(f))
	case "NR":
		in.nr = v // NR, FNR, RSTART, RLENGTH are ordinary variables: they keep the value assigned
	case "FNR":
		in.fnr = v
	case "FILENAME":
		in.filename = v
	case "FS":
		if len(s) > 1 {
			if _, err := in.regex(s); err != nil {
				return err
			}
		}
		in.fs = s
	case "OFS":
		in.ofs = s
	case "ORS":
		in.ors = s
	case "RS":
		if s != "\n" {
			return unsupported("RS other than newline")
		}
		in.rs = s
	case "SUBSEP":
		in.subsep = s
	case "CONVFMT":
		in.convfmt = s
	case "OFMT":
		in.ofmt = s
	case "RSTART":
		in.rstart = v
	case "RLENGTH":
		in.rlength = v
	case "ARGC":
		in.argc = v
	case "RT":
		in.rt = s
	default:
		return unsupported("assignment to special variable %s", name)
	}
	return nil
}

func (in *Interp) setVarByName(name, value string) error {
	if specialNames[name] {
		return in.setSpecial(name, numStr(value))
	}
	if !in.mentions(name) {
		return nil // variables the program does not mention are ignored
	}
	return in.global(name).set(numStr(value))
}

// mentions reports whether the program uses a global scalar variable of that name (goawk ignores
// -v / operand assignments to names the program never mentions; behaviour is the same either way
// for a correct program, this only avoids creating a scalar that conflicts with an array).
func (in *Interp) mentions(name string) bool {
	c, ok := in.globals[name]
	if ok && c.isArray {
		return false
	}
	return true
}

// ---- statements --------------------------------------------------------------------------

func (in *Interp) tick() error {
	in.steps++
	if in.steps > in.fuel {
		return errFuel
	}
	return nil
}

func (in *Interp) stmts(ss []vh.Stmt) error {
	for _, s := range ss {
		if err := in.stmt(s); err != nil {
			return err
		}
	}
	return nil
}

func (in *Interp) cond(e vh.Expr) (bool, error) {
	v, err := in.expr(e)
	if err != nil {
		return false, err
	}
	return v.truth()
}

func (in *Interp) stmt(s vh.Stmt) error {
	if err := in.tick(); err != nil {
		return err
	}
	in.stmtBegins[s.StartPos()]++
	switch s := s.(type) {
	case *vh.ExprStmt:
		_, err := in.expr(s.Expr)
		return err
	case *vh.PrintStmt:
		return in.printStmt(s)
	case *vh.PrintfStmt:
		return in.printfStmt(s)
	case *vh.IfStmt:
		t, err := in.cond(s.Cond)
		if err != nil {
			return err
		}
		if t {
			return in.stmts(s.Body)
		}
		return in.stmts(s.Else)
	case *vh.WhileStmt:
		for {
			t, err := in.cond(s.Cond)
			if err != nil {
				return err
			}
			if !t {
				return nil
			}
			if err := in.stmts(s.Body); err != nil {
				if err == errBreak {
					return nil
				}
				if err != errContinue {
					return err
				}
			}
			if err := in.tick(); err != nil {
				return err
			}
		}
	case *vh.DoWhileStmt:
		for {
			if err := in.stmts(s.Body); err != nil {
				if err == errBreak {
					return nil
				}
				if err != errContinue {
					return err
				}
			}
			t, err := in.cond(s.Cond)
			if err != nil {
				return err
			}
			if !t {
				return nil
			}
			if err := in.tick(); err != nil {
				return err
			}
		}
	case *vh.ForStmt:
		if s.Pre != nil {
			if err := in.stmt(s.Pre); err != nil {
				return err
			}
		}
		for {
			if s.Cond != nil {
				t, err := in.cond(s.Cond)
				if err != nil {
					return err
				}
				if !t {
					return nil
				}
			}
			if err := in.stmts(s.Body); err != nil {
				if err == errBreak {
					return nil
				}
				if err != errContinue {
					return err
				}
			}
			if s.Post != nil {
				if err := in.stmt(s.Post); err != nil {
					return err
				}
			}
			if err := in.tick(); err != nil {
				return err
			}
		}
	case *vh.ForInStmt:
		arr, err := in.lookup(s.Array).array()
		if err != nil {
			return err
		}
		keys := make([]string, 0, len(arr))
		for k := range arr {
			keys = append(keys, k)
		}
		sort.Strings(keys)
		for _, k := range keys {
			if err := in.assignName(s.Var, str(k)); err != nil {
				return err
			}
			if err := in.stmts(s.Body); err != nil {
				if err == errBreak {
					return nil
				}
				if err != errContinue {
					return err
				}
			}
		}
		return nil
	case *vh.BreakStmt:
		return errBreak
	case *vh.ContinueStmt:
		return errContinue
	case *vh.NextStmt:
		return errNext
	case *vh.NextfileStmt:
		return errNextfile
	case *vh.ExitStmt:
		if s.Status != nil {
			v, err := in.expr(s.Status)
			if err != nil {
				return err
			}
			f, err := v.toNum()
			if err != nil {
				return err
			}
			if math.IsNaN(f) || math.Abs(f) > 1e9 {
				return unsupported("exit status out of range")
			}
			in.exitStatus = int(f)
		}
		return errExit
	case *vh.ReturnStmt:
		v := null()
		if s.Value != nil {
			var err error
			if v, err = in.expr(s.Value); err != nil {
				return err
			}
		}
		return &returnSignal{v}
	case *vh.DeleteStmt:
		arr, err := in.lookup(s.Array).array()
		if err != nil {
			return err
		}
		if len(s.Index) == 0 {
			for k := range arr {
				delete(arr, k)
			}
			return nil
		}
		k, err := in.subscript(s.Index)
		if err != nil {
			return err
		}
		delete(arr, k)
		return nil
	case *vh.BlockStmt:
		return in.stmts(s.Body)
	}
	return unsupported("statement %T", s)
}

func (in *Interp) assignName(name string, v Value) error {
	if !in.isLocal(name) && specialNames[name] {
		return in.setSpecial(name, v)
	}
	return in.lookup(name).set(v)
}

// ---- expressions -------------------------------------------------------------------------

func (in *Interp) subscript(idx []vh.Expr) (string, error) {
	vals := make([]Value, len(idx))
	for i, e := range idx {
		v, err := in.expr(e)
		if err != nil {
			return "", err
		}
		vals[i] = v
	}
	parts := make([]string, len(idx))
	for i, v := range vals {
		s, err := v.toStr(in.convfmt)
		if err != nil {
			return "", err
		}
		parts[i] = s
	}
	return strings.Join(parts, in.subsep), nil
}

func (in *Interp) fieldIndex(e vh.Expr) (int, error) {
	v, err := in.expr(e)
	if err != nil {
		return 0, err
	}
	f, err := v.toNum()
	if err != nil {
		return 0, err
	}
	if math.IsNaN(f) || math.Abs(f) > 1e15 {
		return 0, unsupported("non-finite or huge field index")
	}
	return int(f), nil
}

func (in *Interp) toStr(v Value) (string, error) { return v.toStr(in.convfmt) }

func (in *Interp) expr(e vh.Expr) (Value, error) {
	if err := in.tick(); err != nil {
		return null(), err
	}
	switch e := e.(type) {
	case *vh.NumExpr:
		return num(e.Value), nil
	case *vh.StrExpr:
		return str(e.Value), nil
	case *vh.GroupingExpr:
		return in.expr(e.Expr)
	case *vh.RegExpr:
		re, err := in.regex(e.Regex)
		if err != nil {
			return null(), err
		}
		return boolean(re.MatchString(in.rec.line)), nil
	case *vh.VarExpr:
		if !in.isLocal(e.Name) && specialNames[e.Name] {
			return in.getSpecial(e.Name)
		}
		return in.lookup(e.Name).get()
	case *vh.FieldExpr:
		i, err := in.fieldIndex(e.Index)
		if err != nil {
			return null(), err
		}
		return in.getField(i)
	case *vh.NamedFieldExpr:
		return null(), unsupported("@\"name\" field")
	case *vh.IndexExpr:
		k, err := in.subscript(e.Index)
		if err != nil {
			return null(), err
		}
		arr, err := in.lookup(e.Array).array()
		if err != nil {
			return null(), err
		}
		v, ok := arr[k]
		if !ok {
			arr[k] = null() // a reference creates the element
		}
		return v, nil
	case *vh.InExpr:
		k, err := in.subscript(e.Index)
		if err != nil {
			return null(), err
		}
		arr, err := in.lookup(e.Array).array()
		if err != nil {
			return null(), err
		}
		_, ok := arr[k]
		return boolean(ok), nil
	case *vh.UnaryExpr:
		v, err := in.expr(e.Value)
		if err != nil {
			return null(), err
		}
		if e.Op == lexer.NOT {
			t, err := v.truth()
			return boolean(!t), err
		}
		f, err := v.toNum()
		if err != nil {
			return null(), err
		}
		if e.Op == lexer.SUB {
			return num(-f), nil
		}
		return num(f), nil
	case *vh.BinaryExpr:
		return in.binary(e)
	case *vh.CondExpr:
		t, err := in.cond(e.Cond)
		if err != nil {
			return null(), err
		}
		if t {
			return in.expr(e.True)
		}
		return in.expr(e.False)
	case *vh.AssignExpr:
		v, err := in.expr(e.Right)
		if err != nil {
			return null(), err
		}
		if err := in.assign(e.Left, v); err != nil {
			return null(), err
		}
		return v, nil
	case *vh.AugAssignExpr:
		r, err := in.expr(e.Right)
		if err != nil {
			return null(), err
		}
		lv, err := in.lvalue(e.Left)
		if err != nil {
			return null(), err
		}
		cur, err := lv.get()
		if err != nil {
			return null(), err
		}
		res, err := in.arith(e.Op, cur, r)
		if err != nil {
			return null(), err
		}
		if err := lv.set(res); err != nil {
			return null(), err
		}
		return res, nil
	case *vh.IncrExpr:
		lv, err := in.lvalue(e.Expr)
		if err != nil {
			return null(), err
		}
		cur, err := lv.get()
		if err != nil {
			return null(), err
		}
		f, err := cur.toNum()
		if err != nil {
			return null(), err
		}
		nv := f + 1
		if e.Op == lexer.DECR {
			nv = f - 1
		}
		if err := lv.set(num(nv)); err != nil {
			return null(), err
		}
		if e.Pre {
			return num(nv), nil
		}
		return num(f), nil
	case *vh.CallExpr:
		return in.builtin(e)
	case *vh.UserCallExpr:
		return in.userCall(e)
	case *vh.GetlineExpr:
		return in.getline(e)
	case *vh.MultiExpr:
		return null(), unsupported("multi expression outside print")
	}
	return null(), unsupported("expression %T", e)
}

// lval is a resolved assignment target (its subscript / field index already evaluated once).
type lval struct {
	get func() (Value, error)
	set func(Value) error
}

func (in *Interp) lvalue(e vh.Expr) (lval, error) {
	switch t := e.(type) {
	case *vh.VarExpr:
		if !in.isLocal(t.Name) && specialNames[t.Name] {
			return lval{func() (Value, error) { return in.getSpecial(t.Name) }, func(v Value) error { return in.setSpecial(t.Name, v) }}, nil
		}
		c := in.lookup(t.Name)
		return lval{c.get, c.set}, nil
	case *vh.IndexExpr:
		k, err := in.subscript(t.Index)
		if err != nil {
			return lval{}, err
		}
		arr, err := in.lookup(t.Array).array()
		if err != nil {
			return lval{}, err
		}
		return lval{func() (Value, error) {
			v, ok := arr[k]
			if !ok {
				arr[k] = null()
			}
			return v, nil
		}, func(v Value) error { arr[k] = v; return nil }}, nil
	case *vh.FieldExpr:
		i, err := in.fieldIndex(t.Index)
		if err != nil {
			return lval{}, err
		}
		return lval{func() (Value, error) { return in.getField(i) }, func(v Value) error {
			s, err := in.toStr(v)
			if err != nil {
				return err
			}
			return in.setField(i, s)
		}}, nil
	case *vh.GroupingExpr:
		return in.lvalue(t.Expr)
	}
	return lval{}, unsupported("assignment target %T", e)
}

func (in *Interp) assign(target vh.Expr, v Value) error {
	lv, err := in.lvalue(target)
	if err != nil {
		return err
	}
	return lv.set(v)
}

func (in *Interp) arith(op lexer.Token, l, r Value) (Value, error) {
	a, err := l.toNum()
	if err != nil {
		return null(), err
	}
	b, err := r.toNum()
	if err != nil {
		return null(), err
	}
	switch op {
	case lexer.ADD:
		return num(a + b), nil
	case lexer.SUB:
		return num(a - b), nil
	case lexer.MUL:
		return num(a * b), nil
	case lexer.DIV:
		if b == 0 {
			return null(), rtError("division by zero")
		}
		return num(a / b), nil
	case lexer.MOD:
		if b == 0 {
			return null(), rtError("division by zero in mod")
		}
		return num(math.Mod(a, b)), nil
	case lexer.POW:
		return num(math.Pow(a, b)), nil
	}
	return null(), unsupported("arithmetic operator %s", op)
}

func (in *Interp) compare(op lexer.Token, l, r Value) (bool, error) {
	a, lnum, err := l.numericOperand()
	if err != nil {
		return false, err
	}
	b, rnum, err := r.numericOperand()
	if err != nil {
		return false, err
	}
	if lnum && rnum {
		switch op {
		case lexer.EQUALS:
			return a == b, nil
		case lexer.NOT_EQUALS:
			return a != b, nil
		case lexer.LESS:
			return a < b, nil
		case lexer.LTE:
			return a <= b, nil
		case lexer.GREATER:
			return a > b, nil
		case lexer.GTE:
			return a >= b, nil
		}
	}
	ls, err := in.toStr(l)
	if err != nil {
		return false, err
	}
	rs, err := in.toStr(r)
	if err != nil {
		return false, err
	}
	switch op {
	case lexer.EQUALS:
		return ls == rs, nil
	case lexer.NOT_EQUALS:
		return ls != rs, nil
	case lexer.LESS:
		return ls < rs, nil
	case lexer.LTE:
		return ls <= rs, nil
	case lexer.GREATER:
		return ls > rs, nil
	case lexer.GTE:
		return ls >= rs, nil
	}
	return false, unsupported("comparison operator %s", op)
}

func (in *Interp) binary(e *vh.BinaryExpr) (Value, error) {
	switch e.Op {
	case lexer.AND, lexer.OR:
		l, err := in.cond(e.Left)
		if err != nil {
			return null(), err
		}
		if e.Op == lexer.AND && !l {
			return num(0), nil
		}
		if e.Op == lexer.OR && l {
			return num(1), nil
		}
		r, err := in.cond(e.Right)
		return boolean(r), err
	}
	l, err := in.expr(e.Left)
	if err != nil {
		return null(), err
	}
	r, err := in.expr(e.Right)
	if err != nil {
		return null(), err
	}
	switch e.Op {
	case lexer.CONCAT:
		ls, err := in.toStr(l)
		if err != nil {
			return null(), err
		}
		rs, err := in.toStr(r)
		if err != nil {
			return null(), err
		}
		return str(ls + rs), nil
	case lexer.MATCH, lexer.NOT_MATCH:
		ls, err := in.toStr(l)
		if err != nil {
			return null(), err
		}
		rs, err := in.toStr(r)
		if err != nil {
			return null(), err
		}
		re, err := in.regex(rs)
		if err != nil {
			return null(), err
		}
		m := re.MatchString(ls)
		return boolean(m == (e.Op == lexer.MATCH)), nil
	case lexer.EQUALS, lexer.NOT_EQUALS, lexer.LESS, lexer.LTE, lexer.GREATER, lexer.GTE:
		b, err := in.compare(e.Op, l, r)
		return boolean(b), err
	}
	return in.arith(e.Op, l, r)
}

const maxCallDepth = 1000

func (in *Interp) userCall(e *vh.UserCallExpr) (Value, error) {
	f := in.funcs[e.Name]
	if f == nil {
		return null(), unsupported("native or undefined function %s", e.Name)
	}
	if len(e.Args) > len(f.Params) {
		return null(), unsupported("too many arguments")
	}
	fr := &frame{fn: f, locals: map[string]*cell{}}
	for i, p := range f.Params {
		c := &cell{}
		if i < len(e.Args) {
			arg := e.Args[i]
			if g, ok := arg.(*vh.GroupingExpr); ok && false {
				arg = g.Expr
			}
			if ve, ok := arg.(*vh.VarExpr); ok && !(specialNames[ve.Name] && !in.isLocal(ve.Name)) {
				src := in.lookup(ve.Name)
				switch {
				case src.isArray:
					c = src // arrays are shared by reference
				case src.typed:
					c.typed, c.val = true, src.val
				case src.ref != nil && src.ref.isArray:
					m, err := src.array()
					if err != nil {
						return null(), err
					}
					_ = m
					c = src
				default:
					// untyped so far: the callee decides; keep a reference for the array case
					c.ref = src
					if src.ref != nil {
						c.ref = src.ref
					}
				}
			} else {
				v, err := in.expr(arg)
				if err != nil {
					return null(), err
				}
				c.typed, c.val = true, v
			}
		}
		fr.locals[p] = c
	}
	if len(in.frames) >= maxCallDepth {
		return null(), rtError("maximum call depth exceeded")
	}
	in.frames = append(in.frames, fr)
	err := in.stmts(f.Body)
	in.frames = in.frames[:len(in.frames)-1]
	if err != nil {
		if r, ok := err.(*returnSignal); ok {
			return r.v, nil
		}
		if err == errBreak || err == errContinue {
			return null(), unsupported("break/continue escaping a function")
		}
		return null(), err
	}
	return null(), nil
}

func (in *Interp) printStmt(s *vh.PrintStmt) error {
	var dest string
	if s.Dest != nil {
		v, err := in.expr(s.Dest)
		if err != nil {
			return err
		}
		if dest, err = in.toStr(v); err != nil {
			return err
		}
	}
	var sb strings.Builder
	if len(s.Args) == 0 {
		sb.WriteString(in.rec.line)
	}
	vals := make([]Value, len(s.Args))
	for i, a := range s.Args {
		v, err := in.expr(a)
		if err != nil {
			return err
		}
		vals[i] = v
	}
	w, err := in.outputFor(s.Redirect, dest, s.Dest != nil)
	if err != nil {
		return err
	}
	for i, v := range vals {
		if i > 0 {
			sb.WriteString(in.ofs)
		}
		t, err := v.toStr(in.ofmt)
		if err != nil {
			return err
		}
		sb.WriteString(t)
	}
	sb.WriteString(in.ors)
	w.WriteString(sb.String())
	return nil
}

func (in *Interp) printfStmt(s *vh.PrintfStmt) error {
	var dest string
	if s.Dest != nil {
		v, err := in.expr(s.Dest)
		if err != nil {
			return err
		}
		if dest, err = in.toStr(v); err != nil {
			return err
		}
	}
	vals := make([]Value, len(s.Args))
	for i, a := range s.Args {
		v, err := in.expr(a)
		if err != nil {
			return err
		}
		vals[i] = v
	}
	f, err := in.toStr(vals[0])
	if err != nil {
		return err
	}
	out, err := in.sprintf(f, vals[1:])
	if err != nil {
		return err
	}
	w, err := in.outputFor(s.Redirect, dest, s.Dest != nil)
	if err != nil {
		return err
	}
	w.WriteString(out)
	return nil
}

var _ = fmt.Sprintf
